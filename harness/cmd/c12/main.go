// c12 drives xfer.XferPipe, the md5 and gzip filters and three test filters.
package main

import (
	"bytes"
	"errors"
	"flag"
	"fmt"
	"strings"

	. "verifharness/hlib"

	"github.com/henrylee2cn/erpc/v6/socket"
	"github.com/henrylee2cn/erpc/v6/xfer"
	"github.com/henrylee2cn/erpc/v6/xfer/gzip"
	"github.com/henrylee2cn/erpc/v6/xfer/md5"
)

// ---- test filters, defined identically in coq/theories/Corr/C12.v ----

type xorFilter struct{}

func (xorFilter) ID() byte     { return 1 }
func (xorFilter) Name() string { return "vxor" }
func (xorFilter) OnPack(b []byte) ([]byte, error) {
	o := make([]byte, len(b))
	for i, c := range b {
		o[i] = c ^ 90
	}
	return o, nil
}
func (f xorFilter) OnUnpack(b []byte) ([]byte, error) { return f.OnPack(b) }

type revFilter struct{}

func (revFilter) ID() byte     { return 2 }
func (revFilter) Name() string { return "vrev" }
func (revFilter) OnPack(b []byte) ([]byte, error) {
	o := make([]byte, len(b))
	for i, c := range b {
		o[len(b)-1-i] = c
	}
	return o, nil
}
func (f revFilter) OnUnpack(b []byte) ([]byte, error) { return f.OnPack(b) }

type lenpFilter struct{}

func (lenpFilter) ID() byte     { return 3 }
func (lenpFilter) Name() string { return "vlenp" }
func (lenpFilter) OnPack(b []byte) ([]byte, error) {
	o := make([]byte, 0, len(b)+1)
	o = append(o, byte(len(b)))
	return append(o, b...), nil
}
func (lenpFilter) OnUnpack(b []byte) ([]byte, error) {
	if len(b) == 0 || b[0] != byte(len(b)-1) {
		return nil, errors.New("lenp mismatch")
	}
	return append([]byte(nil), b[1:]...), nil
}

// gzipRecorder delegates to the repository's gzip filter and records plain->packed pairs.
type gzipRecorder struct {
	real xfer.XferFilter
	tab  [][2][]byte
}

func (g *gzipRecorder) ID() byte     { return 'g' }
func (g *gzipRecorder) Name() string { return "gzip" }
func (g *gzipRecorder) OnPack(b []byte) ([]byte, error) {
	in := append([]byte(nil), b...)
	o, err := g.real.OnPack(b)
	if err == nil {
		g.tab = append(g.tab, [2][]byte{in, append([]byte(nil), o...)})
	}
	return o, err
}
func (g *gzipRecorder) OnUnpack(b []byte) ([]byte, error) { return g.real.OnUnpack(b) }

var c12gz *gzipRecorder

const gzipRealID = 0xF0

func c12Setup() {
	if c12gz != nil {
		return
	}
	xfer.Reg(xorFilter{})
	xfer.Reg(revFilter{})
	xfer.Reg(lenpFilter{})
	md5.Reg('m', "md5")
	gzip.Reg(gzipRealID, "gzip-real", 5)
	real, err := xfer.Get(gzipRealID)
	Must(err)
	c12gz = &gzipRecorder{real: real}
	xfer.Reg(c12gz)
}

var c12mode = flag.String("mode", "pipe", "pipe|live|protos|seq|conc")

func main() {
	cfg := ParseFlags()
	if *c12mode == "live" {
		runC12Live(cfg)
		return
	}
	if *c12mode == "conc" {
		runC12Conc(cfg)
		return
	}
	if *c12mode == "seq" {
		runC12Seq(cfg)
		return
	}
	if *c12mode == "protos" {
		runC12Protos(cfg)
		return
	}
	runC12(cfg)
}

func c12Payload(cfg *RunCfg) ([]byte, string) {
	r := cfg.Rng
	switch r.Intn(6) {
	case 0:
		return []byte{}, "empty"
	case 1:
		return RandBytes(r, 1), "one"
	case 2:
		n := PickLen(r, []int{15, 16, 17, 63, 64, 65, 255, 256, 257})
		return RandBytes(r, n), "boundary"
	case 3:
		n := 1 + r.Intn(600)
		return bytes.Repeat([]byte{byte(r.Intn(256))}, n), "compressible"
	case 4:
		return RandBytes(r, 1+r.Intn(300)), "random"
	default:
		return []byte(strings.Repeat("erpc-", r.Intn(40))), "text"
	}
}

func c12Ids(cfg *RunCfg) ([]byte, string) {
	r := cfg.Rng
	valid := []byte{1, 2, 3, 'm', 'g'}
	nogz := []byte{1, 2, 3, 'm'}
	mk := func(n int, alphabet []byte) []byte {
		ids := make([]byte, n)
		for i := range ids {
			ids[i] = alphabet[r.Intn(len(alphabet))]
		}
		return ids
	}
	switch k := r.Intn(20); {
	case k == 0:
		return []byte{}, "len0"
	case k < 8:
		return mk(1+r.Intn(6), valid), "short"
	case k < 12:
		return mk(1+r.Intn(6), nogz), "short-nogz"
	case k == 12:
		return mk(PickLen(r, []int{254, 255}), nogz[:3]), "len254-255"
	case k == 13:
		return mk(PickLen(r, []int{256, 257, 300}), nogz[:3]), "too-long"
	case k < 16:
		ids := mk(1+r.Intn(6), valid)
		bad := byte(4 + r.Intn(90))
		ids[r.Intn(len(ids))] = bad
		return ids, "unknown-id"
	case k < 18:
		ids := mk(1+r.Intn(4), nogz)
		ids[0] = 'm'
		return ids, "md5-outermost"
	default:
		return mk(7+r.Intn(30), nogz), "medium"
	}
}

func runC12(cfg *RunCfg) {
	c12Setup()
	st := NewStats("C12", cfg)
	st.Rule = "cases = (pipe ids, payload) drawn from id classes {len0,short,short-nogz,len254-255,too-long,unknown-id,md5-outermost,medium} x payload classes {empty,one,boundary,compressible,random,text}; distinct by (ids,payload); non-trivial = pipe length >= 1 and (payload non-empty or an error class)"
	w := NewCaseWriter(cfg)
	distinct := DistinctSet{}
	for i := 0; i < cfg.N; i++ {
		ids, idClass := c12Ids(cfg)
		payload, plClass := c12Payload(cfg)
		st.Count("ids:" + idClass)
		st.Count("payload:" + plClass)
		c12gz.tab = c12gz.tab[:0]
		// a quarter of the gzip pipes run under a size limit near the payload size: what inflates
		// beyond the limit must be REFUSED (never truncated), what fits must round-trip
		lim := uint32(0)
		if bytes.Contains(ids, []byte{'g'}) && len(payload) > 2 && cfg.Rng.Intn(4) == 0 {
			lim = uint32(len(payload) + []int{-2, -1, 0, 1, 20}[cfg.Rng.Intn(5)])
			if cfg.Rng.Intn(3) == 0 {
				lim = uint32(len(payload)/2 + 1)
			}
			st.Count("limited-gzip")
		}
		// through the public knob (socket.SetMessageSizeLimit keeps the filters' bound equal to the
		// message size limit; 0 = back to the default), so that a bound that fails to follow it shows
		socket.SetMessageSizeLimit(lim)
		if lim == 0 && xfer.SizeLimit() != socket.MessageSizeLimit() {
			st.Fail(i, "limit-not-followed", fmt.Sprintf("after SetMessageSizeLimit(0) the message size limit is %d but the filters' bound is %d", socket.MessageSizeLimit(), xfer.SizeLimit()), "SetMessageSizeLimit(small) ... SetMessageSizeLimit(0)")
		}

		pipe := xfer.NewXferPipe()
		err := pipe.Append(ids...)
		errCode := 0
		if err != nil {
			if err == xfer.ErrXferPipeTooLong {
				errCode = 2
			} else {
				errCode = 1
			}
		}
		gotIDs := pipe.IDs()
		var packed, unpacked []byte
		var packedOK, unpackedOK bool
		var corruptIn, corruptObs []string
		human := fmt.Sprintf("ids=%s payload=%s", Hx(ids), Hx(payload))
		if err == nil {
			in := append([]byte(nil), payload...)
			p, perr := pipe.OnPack(in)
			if perr == nil {
				packedOK = true
				packed = append([]byte(nil), p...)
				ownStages := len(c12gz.tab) // gzip stages of THIS payload (the packs below add others)
				// the packed payload must stay intact while OTHER payloads are packed (frames are
				// built by concurrent writers; a filter must not hand out a buffer it recycles)
				other := RandBytes(cfg.Rng, 1+cfg.Rng.Intn(300))
				for k := 0; k < 3; k++ {
					pipe.OnPack(append([]byte(nil), other...))
				}
				if !bytes.Equal(p, packed) {
					st.Fail(i, "packed-result-overwritten", "the slice returned by OnPack changed while later payloads were packed", human)
				}
				u, uerr := pipe.OnUnpack(append([]byte(nil), packed...))
				if uerr == nil {
					unpackedOK = true
					unpacked = append([]byte(nil), u...)
				}
				// property oracle on the implementation alone
				overLimit := false
				for _, pr := range c12gz.tab[:ownStages] {
					if lim > 0 && len(pr[0]) > int(lim) {
						overLimit = true
					}
				}
				switch {
				case overLimit && unpackedOK:
					st.Count("limited-gzip:over")
					st.Fail(i, "over-limit-not-refused", fmt.Sprintf("a gzip stage inflating beyond the size limit %d was not refused: unpack returned %d bytes (payload %d) with a nil error", lim, len(unpacked), len(payload)), human)
				case overLimit:
					st.Count("limited-gzip:over")
				case !unpackedOK || !bytes.Equal(unpacked, payload):
					st.Fail(i, "roundtrip", "unpack(pack(x)) != x", human)
				}
				// single-byte corruption, only for pipes without gzip (library behaviour on
				// corrupted deflate streams is not modelled)
				if !bytes.Contains(ids, []byte{'g'}) && len(packed) > 0 {
					npos := 6
					if len(packed) <= 40 {
						npos = len(packed)
					}
					for k := 0; k < npos; k++ {
						pos := k
						if len(packed) > 40 {
							pos = cfg.Rng.Intn(len(packed))
						}
						nb := packed[pos] ^ byte(1+cfg.Rng.Intn(255))
						cp := append([]byte(nil), packed...)
						cp[pos] = nb
						cu, cerr := pipe.OnUnpack(cp)
						corruptIn = append(corruptIn, VL(VN(int64(pos)), VB([]byte{nb})))
						corruptObs = append(corruptObs, VOpt(cu, cerr == nil))
						if len(ids) > 0 && ids[0] == 'm' && cerr == nil {
							st.Fail(i, "md5-accepts-corruption", fmt.Sprintf("md5-outermost pipe accepted a payload corrupted at offset %d", pos), human)
						}
					}
				}
			} else {
				st.Fail(i, "pack-error", "OnPack failed on a valid pipe: "+perr.Error(), human)
			}
		} else {
			// refused pipes: oracle = the error classes the property names
			hasUnknown := false
			for _, id := range ids {
				if id != 1 && id != 2 && id != 3 && id != 'm' && id != 'g' && id != gzipRealID {
					hasUnknown = true
				}
			}
			if !hasUnknown && len(ids) <= 255 {
				st.Fail(i, "append-refused-valid", "Append refused a valid pipe: "+err.Error(), human)
			}
		}
		if err == nil {
			for _, id := range ids {
				if id != 1 && id != 2 && id != 3 && id != 'm' && id != 'g' {
					st.Fail(i, "unknown-accepted", "Append accepted an unregistered id", human)
				}
			}
			if len(ids) > 255 {
				st.Fail(i, "too-long-accepted", "Append accepted a pipe longer than 255", human)
			}
		}
		var gz []string
		for _, pr := range c12gz.tab {
			gz = append(gz, VL(VB(pr[0]), VB(pr[1])))
		}
		socket.SetMessageSizeLimit(0)
		w.Add(VL(VB(ids), VB(payload), VL(gz...), VL(corruptIn...), VN(int64(lim))),
			VL(VN(int64(errCode)), VB(gotIDs), VOpt(packed, packedOK), VOpt(unpacked, unpackedOK), VL(corruptObs...)))
		key := Hx(ids) + "/" + Hx(payload)
		if len(ids) >= 1 && (len(payload) > 0 || errCode != 0) {
			distinct.Add(key)
		}
		if len(st.Samples) < 5 {
			st.Samples = append(st.Samples, fmt.Sprintf("%s class=%s/%s err=%d packed_len=%d", human, idClass, plClass, errCode, len(packed)))
		}
	}
	st.Evaluations = cfg.N
	st.DistinctNontrivial = len(distinct)
	st.Write(cfg, w)
}
