package main

import (
	"bytes"
	"fmt"
	"sync"

	. "verifharness/hlib"

	"github.com/henrylee2cn/erpc/v6/xfer"
)

// -mode conc: the round trip of the pipe mode, with several goroutines packing and unpacking
// through the same registered filters at the same time (sessions pack concurrently; a filter
// keeps no state between payloads, so each round trip must come out as it does alone).
func runC12Conc(cfg *RunCfg) {
	c12Setup()
	r := cfg.Rng
	st := NewStats("C12", cfg)
	st.Rule = "conc: rounds of 8 goroutines, each packing and unpacking 6 payloads through its own pipe over {xor,rev,lenp,md5,gzip(repository filter, id 0xF0)} at the same time; distinct by (pipe, payload); non-trivial = pipe with gzip or md5"
	distinct := DistinctSet{}
	valid := []byte{1, 2, 3, 'm', gzipRealID, gzipRealID}
	type job struct {
		ids     []byte
		payload []byte
	}
	evals := 0
	for i := 0; i < cfg.N; i++ {
		jobs := make([][]job, 8)
		for g := range jobs {
			for k := 0; k < 6; k++ {
				ids := make([]byte, 1+r.Intn(4))
				for j := range ids {
					ids[j] = valid[r.Intn(len(valid))]
				}
				var pl []byte
				switch r.Intn(3) {
				case 0:
					pl = bytes.Repeat([]byte{byte(r.Intn(256))}, 1+r.Intn(3000))
				case 1:
					pl = RandBytes(r, 1+r.Intn(400))
				default:
					pl = []byte(fmt.Sprintf("payload-%d-%d-%d", i, g, k))
				}
				jobs[g] = append(jobs[g], job{ids, pl})
				if bytes.IndexByte(ids, gzipRealID) >= 0 || bytes.IndexByte(ids, 'm') >= 0 {
					distinct.Add(Hx(ids) + "/" + Hx(pl))
				}
			}
		}
		var wg sync.WaitGroup
		var mu sync.Mutex
		start := make(chan struct{})
		for g := range jobs {
			wg.Add(1)
			go func(js []job) {
				defer wg.Done()
				<-start
				for _, j := range js {
					func() {
						defer func() {
							if p := recover(); p != nil {
								mu.Lock()
								st.Fail(i, "conc-panic", fmt.Sprintf("a filter panicked while several goroutines were packing: %v", p), fmt.Sprintf("ids=%x payload=%x", j.ids, j.payload))
								mu.Unlock()
							}
						}()
						pipe := xfer.NewXferPipe()
						if err := pipe.Append(j.ids...); err != nil {
							return
						}
						p, err := pipe.OnPack(append([]byte(nil), j.payload...))
						if err != nil {
							mu.Lock()
							st.Fail(i, "conc-pack-error", "OnPack failed while other goroutines were packing: "+err.Error(), fmt.Sprintf("ids=%x payload=%x", j.ids, j.payload))
							mu.Unlock()
							return
						}
						u, err := pipe.OnUnpack(append([]byte(nil), p...))
						if err != nil || !bytes.Equal(u, j.payload) {
							mu.Lock()
							st.Fail(i, "conc-roundtrip", fmt.Sprintf("unpack(pack(x)) != x while other goroutines were packing (err=%v)", err), fmt.Sprintf("ids=%x payload=%x", j.ids, j.payload))
							mu.Unlock()
						}
					}()
				}
			}(jobs[g])
		}
		close(start)
		wg.Wait()
		evals += 48
		if len(st.OracleFailures) >= 6 {
			break
		}
	}
	st.Evaluations = evals
	st.DistinctNontrivial = len(distinct)
	st.Write(cfg, nil)
}
