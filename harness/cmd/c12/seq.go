package main

import (
	"fmt"
	"sync"
	"time"

	. "verifharness/hlib"

	erpc "github.com/henrylee2cn/erpc/v6"
	"github.com/henrylee2cn/erpc/v6/proto/httproto"
	"github.com/henrylee2cn/erpc/v6/proto/jsonproto"
	"github.com/henrylee2cn/erpc/v6/proto/pbproto"
	"github.com/henrylee2cn/erpc/v6/proto/thriftproto"
	"github.com/henrylee2cn/erpc/v6/socket"
)

// -mode seq: "the receiver learns the pipe from the frame itself" over a SEQUENCE of calls on one
// real connection, per wire protocol: every call picks its own pipe (empty ones after non-empty
// ones included), so anything a protocol object keeps from one frame to the next - in either
// direction - shows. Observed per call: the pipe ids the server learnt from the request frame
// (PostReadCallHeader), the pipe ids the client learnt from the reply frame (PostReadReplyBody /
// header), and the status the caller got.

type seqRec struct {
	mu  sync.Mutex
	srv map[int32][]byte
	cli map[int32][]byte
}

var seqrec = &seqRec{srv: map[int32][]byte{}, cli: map[int32][]byte{}}

type seqSrvPlugin struct{}

func (seqSrvPlugin) Name() string { return "c12-seq-srv" }
func (seqSrvPlugin) PostReadCallHeader(ctx erpc.ReadCtx) *erpc.Status {
	seqrec.mu.Lock()
	seqrec.srv[ctx.Input().Seq()] = append([]byte{}, ctx.Input().XferPipe().IDs()...)
	seqrec.mu.Unlock()
	return nil
}

type seqCliPlugin struct{}

func (seqCliPlugin) Name() string { return "c12-seq-cli" }
func (seqCliPlugin) PostReadReplyHeader(ctx erpc.ReadCtx) *erpc.Status {
	seqrec.mu.Lock()
	seqrec.cli[ctx.Input().Seq()] = append([]byte{}, ctx.Input().XferPipe().IDs()...)
	seqrec.mu.Unlock()
	return nil
}

func seqOK(ctx erpc.CallCtx, arg *LiveArg) (int, *erpc.Status) { return arg.A + 1, nil }
func seqFail(ctx erpc.CallCtx, arg *LiveArg) (int, *erpc.Status) {
	return 0, erpc.NewStatus(777, "handler says no", "")
}

func runC12Seq(cfg *RunCfg) {
	c12Setup()
	Quiet()
	r := cfg.Rng
	st := NewStats("C12", cfg)
	st.Rule = "seq: sequences of 2..8 calls with independently chosen pipes (empty after non-empty included) on ONE real client/server connection per wire protocol (raw, json, pb, thrift-binary, http with the gzip filter); classes ok / handler status / unknown route; observation per call = (pipe learnt by the server, pipe learnt by the client from the reply, status); distinct by (protocol, sequence); non-trivial = at least one non-empty and one empty pipe"
	w := NewCaseWriter(cfg)
	fams := []struct {
		name  string
		pf    erpc.ProtoFunc
		valid []byte
		max   int
	}{
		{"raw", socket.RawProtoFunc, []byte{1, 2, 3, 'm', 'g'}, 4},
		{"json", jsonproto.NewJSONProtoFunc(), []byte{1, 2, 3, 'm', 'g'}, 4},
		{"pb", pbproto.NewPbProtoFunc(), []byte{1, 2, 3, 'm', 'g'}, 4},
		{"thriftbin", thriftproto.NewBinaryProtoFunc(), []byte{1, 2, 3, 'm', 'g'}, 4},
		{"http", httproto.NewHTTProtoFunc(), []byte{gzipRealID}, 1},
	}
	distinct := DistinctSet{}
	perFam := cfg.N / len(fams)
	if perFam < 1 {
		perFam = 1
	}
	seqNo := int32(0)
	_ = seqNo
	for _, fam := range fams {
		srv := erpc.NewPeer(erpc.PeerConfig{}, seqSrvPlugin{})
		okName := srv.RouteCallFunc(seqOK)
		failName := srv.RouteCallFunc(seqFail)
		cli := erpc.NewPeer(erpc.PeerConfig{}, seqCliPlugin{})
		pair := ServePair(srv, cli, fam.pf)
		if pair.CliSess == nil || pair.SrvSess == nil {
			st.Fail(0, "seq-setup", "could not connect a session pair over "+fam.name, fam.name)
			continue
		}
		broken := false
		for i := 0; i < perFam && !broken; i++ {
			st.Count("seq:" + fam.name)
			ncalls := 2 + r.Intn(7)
			var in, obs []string
			human := "seq proto=" + fam.name
			sawEmpty, sawFull := false, false
			for k := 0; k < ncalls; k++ {
				ids := make([]byte, r.Intn(fam.max+1))
				if r.Intn(3) == 0 {
					ids = nil
				}
				for j := range ids {
					ids[j] = fam.valid[r.Intn(len(fam.valid))]
				}
				class := []int{0, 0, 1, 2}[r.Intn(4)]
				method := okName
				want := int32(0)
				switch class {
				case 1:
					method, want = failName, 777
				case 2:
					method, want = "/no/such/route", erpc.CodeNotFound
				}
				// importing thriftproto makes the thrift codec the process-wide default: name the codec
				settings := []erpc.MessageSetting{erpc.WithBodyCodec('j')}
				if len(ids) > 0 {
					settings = append(settings, erpc.WithXferPipe(ids...))
					sawFull = true
				} else {
					sawEmpty = true
				}
				var res int
				cmd := pair.CliSess.AsyncCall(method, &LiveArg{A: k}, &res, make(chan erpc.CallCmd, 1), settings...)
				select {
				case <-cmd.Done():
				case <-time.After(5 * time.Second):
					st.Fail(i, "seq-no-reply", fmt.Sprintf("no (decodable) reply within 5 s to a call sent through pipe %x (class %d) after %d earlier calls on this connection", ids, class, k), human+fmt.Sprintf(" [%x c%d]", ids, class))
					broken = true
				}
				if broken {
					break
				}
				stt := cmd.Status()
				seq := cmd.Output().Seq()
				seqrec.mu.Lock()
				srvIDs, sok := seqrec.srv[seq]
				cliIDs, cok := seqrec.cli[seq]
				delete(seqrec.srv, seq)
				delete(seqrec.cli, seq)
				seqrec.mu.Unlock()
				one := fmt.Sprintf("%s call#%d pipe=%x class=%d", human, k, ids, class)
				human += fmt.Sprintf(" [%x c%d]", ids, class)
				if stt.Code() != want || (class == 0 && res != k+1) {
					st.Fail(i, "seq-status", fmt.Sprintf("caller got status %d %q (result %d), expected %d - after %d earlier calls on this connection", stt.Code(), stt.String(), res, want, k), one+" in "+human)
					broken = true
				}
				if !sok || string(srvIDs) != string(ids) {
					st.Fail(i, "seq-server-pipe", fmt.Sprintf("server learnt pipe %x (seen=%v) from a request sent through %x", srvIDs, sok, ids), one+" in "+human)
				}
				if !cok || string(cliIDs) != string(ids) {
					st.Fail(i, "seq-reply-pipe", fmt.Sprintf("client learnt pipe %x (seen=%v) from the reply to a call sent through %x", cliIDs, cok, ids), one+" in "+human)
				}
				in = append(in, VL(VB(ids), VN(int64(class))))
				code := stt.Code()
				if code < 0 {
					code = 99999
				}
				obs = append(obs, VL(VB(srvIDs), VB(cliIDs), VN(int64(code))))
				if broken {
					break
				}
			}
			w.Add(VL(VS("seq"), VS(fam.name), VL(in...)), VL(obs...))
			if sawEmpty && sawFull {
				distinct.Add(human)
			}
			if len(st.Samples) < 8 && i < 2 {
				st.Samples = append(st.Samples, human)
			}
		}
		// server first: a caller still waiting for a reply (failure above) is released by the disconnect
		closed := make(chan struct{})
		go func() { srv.Close(); cli.Close(); close(closed) }()
		select {
		case <-closed:
		case <-time.After(10 * time.Second):
			st.Count("seq-close-abandoned:" + fam.name)
		}
	}
	st.Evaluations = w.Total
	st.DistinctNontrivial = len(distinct)
	st.Write(cfg, w)
}
