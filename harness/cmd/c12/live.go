package main

import (
	"fmt"
	"time"

	. "verifharness/hlib"

	erpc "github.com/henrylee2cn/erpc/v6"
	"github.com/henrylee2cn/erpc/v6/socket"
)

// live mode: "the receiver learns the pipe from the frame itself and a reply to a call is sent
// through the caller's pipe" — a scripted raw client sends CALL frames with a transfer pipe to a
// real server session and reads the pipe ids off the reply frame, for successful calls, for
// every framework error reply (404, 400 empty method, 400 undecodable body, handler status,
// handler panic 500) and for handlers that append filters of their own.

type LiveArg struct {
	A int `json:"a"`
}

var liveAdded []byte // filters the next handler invocation appends (set by the driver, one call at a time)

func liveEcho(ctx erpc.CallCtx, arg *LiveArg) (int, *erpc.Status) {
	if len(liveAdded) > 0 {
		ctx.AddXferPipe(liveAdded...)
	}
	return arg.A + 1, nil
}

func liveFail(ctx erpc.CallCtx, arg *LiveArg) (int, *erpc.Status) {
	return 0, erpc.NewStatus(777, "handler says no", "")
}

func livePanic(ctx erpc.CallCtx, arg *LiveArg) (int, *erpc.Status) {
	panic("boom")
}

func runC12Live(cfg *RunCfg) {
	c12Setup()
	Quiet()
	r := cfg.Rng
	st := NewStats("C12", cfg)
	st.Rule = "live: CALL frames with pipes over {xor,rev,lenp,md5,gzip} (length 0..6) sent by a scripted raw client to a real server session; classes ok / ok+handler-appends / unknown route / empty method / undecodable body / handler status / handler panic; observation = pipe ids on the reply frame; distinct by (class, pipe, added); non-trivial = non-empty pipe"
	w := NewCaseWriter(cfg)
	srv := erpc.NewPeer(erpc.PeerConfig{})
	echoName := srv.RouteCallFunc(liveEcho)
	failName := srv.RouteCallFunc(liveFail)
	panicName := srv.RouteCallFunc(livePanic)
	cc, sc := TCPPair()
	go srv.ServeConn(sc)
	rp := NewRawPeer(cc)
	valid := []byte{1, 2, 3, 'm', 'g'}
	distinct := DistinctSet{}
	for i := 0; i < cfg.N; i++ {
		ids := make([]byte, r.Intn(7))
		if r.Intn(12) == 0 { // the documented maximum and its neighbours
			ids = make([]byte, PickLen(r, []int{253, 254, 255}))
		}
		for k := range ids {
			if len(ids) > 6 {
				ids[k] = valid[r.Intn(3)]
			} else {
				ids[k] = valid[r.Intn(len(valid))]
			}
		}
		class := r.Intn(7)
		method, body := echoName, []byte(`{"a":1}`)
		var added []byte
		wantCode := int32(0)
		name := "ok"
		switch class {
		case 1:
			if len(ids) > 250 {
				break
			}
			added = make([]byte, 1+r.Intn(2))
			for k := range added {
				added[k] = valid[r.Intn(4)]
			}
			name = "ok-handler-appends"
		case 2:
			method, wantCode, name = "/no/such/route", erpc.CodeNotFound, "unknown-route"
		case 3:
			method, wantCode, name = "", erpc.CodeBadMessage, "empty-method"
		case 4:
			body, wantCode, name = []byte(`{"a":`), erpc.CodeBadMessage, "undecodable-body"
		case 5:
			method, wantCode, name = failName, 777, "handler-status"
		case 6:
			method, wantCode, name = panicName, erpc.CodeInternalServerError, "handler-panic"
		}
		st.Count("live:" + name)
		liveAdded = added
		seq := int32(i + 1)
		settings := []socket.MessageSetting{socket.WithServiceMethod(method), socket.WithBody(body), socket.WithBodyCodec('j')}
		if len(ids) > 0 {
			settings = append(settings, socket.WithXferPipe(ids...))
		}
		m := socket.NewMessage(settings...)
		m.SetMtype(erpc.TypeCall)
		m.SetSeq(seq)
		human := fmt.Sprintf("live class=%s pipe=%x added=%x", name, ids, added)
		if err := rp.Sock.WriteMessage(m); err != nil {
			st.Fail(i, "live-write", "could not send the request: "+err.Error(), human)
			break
		}
		reply, err := rp.Recv(10 * time.Second)
		if err != nil {
			st.Fail(i, "live-no-reply", "no reply frame: "+err.Error(), human)
			break
		}
		got := reply.XferPipe().IDs()
		want := append(append([]byte(nil), ids...), added...)
		if reply.Seq() != seq {
			st.Fail(i, "live-seq", fmt.Sprintf("reply seq %d for request %d", reply.Seq(), seq), human)
		}
		if reply.Status().Code() != wantCode {
			st.Fail(i, "live-status", fmt.Sprintf("reply status %d, expected %d", reply.Status().Code(), wantCode), human)
		}
		if string(got) != string(want) {
			st.Fail(i, "reply-pipe", fmt.Sprintf("reply frame carries pipe %x, the caller's pipe (plus handler additions) is %x", got, want), human)
		}
		w.Add(VL(VS("live"), VB(ids), VB(added)), VL(VB(got)))
		if len(ids) > 0 {
			distinct.Add(human)
		}
		if len(st.Samples) < 5 {
			st.Samples = append(st.Samples, human+fmt.Sprintf(" -> reply pipe %x status %d", got, reply.Status().Code()))
		}
	}
	st.Evaluations = cfg.N
	st.DistinctNontrivial = len(distinct)
	st.Write(cfg, w)
}
