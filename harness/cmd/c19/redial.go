// Forwarders that are client sessions dialled with PeerConfig.RedialTimes (the canonical
// forwarder of examples/proxy_and_seq): the backend connection is cut at a chosen point
// relative to the forwarded request - before it is written, between write()'s status test and
// the bytes, after the backend handler was entered and before its reply, after the reply - with
// the backend reachable again for the redial or not. Each such case is followed by one more
// proxied call over the same forwarder session.
package main

import (
	"fmt"
	"os"
	"sync"
	"sync/atomic"
	"time"

	. "verifharness/hlib"

	erpc "github.com/henrylee2cn/erpc/v6"
	"github.com/henrylee2cn/erpc/v6/plugin/proxy"
)

// redialCount counts the successful redials of the sessions of one peer.
type redialCount struct {
	mu sync.Mutex
	n  int
}

func (r *redialCount) Name() string { return "redial-count" }
func (r *redialCount) PostDial(s erpc.PreSession, isRedial bool) *erpc.Status {
	if isRedial {
		r.mu.Lock()
		r.n++
		r.mu.Unlock()
	}
	return nil
}
func (r *redialCount) get() int {
	r.mu.Lock()
	defer r.mu.Unlock()
	return r.n
}

type redialPeer struct {
	peer erpc.Peer
	rc   *redialCount
}

var redialTimesPool = []int{0, 1, 2, 3, -1}

// redialPeerFor returns the forward peer whose sessions redial `times` times (0: never,
// -1: without limit).
func (w *world) redialPeerFor(times int) *redialPeer {
	if w.rpeers == nil {
		w.rpeers = map[int]*redialPeer{}
	}
	if p := w.rpeers[times]; p != nil {
		return p
	}
	iv := map[int]time.Duration{0: time.Millisecond, 1: time.Millisecond, 2: 3 * time.Millisecond, 3: 5 * time.Millisecond, -1: 2 * time.Millisecond}[times]
	rc := &redialCount{}
	p := &redialPeer{rc: rc, peer: erpc.NewPeer(erpc.PeerConfig{RedialTimes: int32(times), RedialInterval: iv}, rc)}
	w.rpeers[times] = p
	return p
}

// genRedial turns a generated case into a redial case.
func genRedial(cfg *RunCfg, c *reqCase) {
	r := cfg.Rng
	c.redial = true
	c.times = redialTimesPool[r.Intn(len(redialTimesPool))]
	c.fail = []string{"r-none", "r-before", "r-before", "r-atwrite", "r-during", "r-during", "r-during", "r-after", "r-after"}[r.Intn(9)]
	c.reach = r.Intn(3) != 0
	if c.times < 0 || c.fail == "r-none" {
		c.reach = true // a redial without limit to a dead address never returns
	}
}

// cutHappens: the case cuts the backend connection at some point.
func (c *reqCase) cutHappens() bool { return c.redial && c.fail != "r-none" }

// canRedial: after the cut the forwarder session gets a new connection.
func (c *reqCase) canRedial() bool { return c.times != 0 && c.reach }

// expectFail: the proxied request itself must end as a backend failure (Bad Gateway).
func (c *reqCase) expectFail() bool {
	if !c.redial {
		return c.fail != "none"
	}
	switch c.fail {
	case "r-before":
		return !c.canRedial()
	case "r-atwrite":
		return true // the bytes went into the connection that was just cut: a call is cancelled, a push is lost
	case "r-during":
		return true
	}
	return false
}

// wantArrived: how many times the proxied request must reach the backend.
func (c *reqCase) wantArrived() int {
	if !c.expectFail() {
		return 1
	}
	if c.fail == "during" || c.fail == "r-during" {
		return 1
	}
	return 0
}

// followObs is the proxied call sent after a redial case over the same forwarder session.
type followObs struct {
	stat     string
	code     int32
	result   []byte
	arrived  int
	fwdCalls int
	timeout  bool
}

func (f *followObs) val() string {
	return VL(f.stat, VB(f.result), VN(int64(f.arrived)), VN(int64(f.fwdCalls)))
}

// listenLow listens on a loopback port BELOW the range the kernel uses for outgoing
// connections and for port 0: once such a listener is closed, a dial of its address is refused
// for sure (no other socket gets that port by chance, and the dialling socket cannot be given
// the very port it dials - a loopback connection to itself).
var lowPort = 10000 + (os.Getpid()*37)%20000

func listenLow(srv erpc.Peer) *Listener {
	for k := 0; k < 2000; k++ {
		lowPort++
		if lowPort >= 32000 {
			lowPort = 10000
		}
		if l, err := Listen(srv, fmt.Sprintf("127.0.0.1:%d", lowPort)); err == nil {
			return l
		}
	}
	Must(fmt.Errorf("no free loopback port below the ephemeral range"))
	return nil
}

func statusName(s erpc.Session) string { return erpc.VerifStatusName(erpc.VerifSessionStatus(s)) }

func resetFwdRec() {
	fwdRec.mu.Lock()
	fwdRec.calls, fwdRec.stat, fwdRec.statText, fwdRec.label = 0, nil, "", proxy.Label{}
	fwdRec.mu.Unlock()
}

// runProxiedRedial sends the case through the proxy whose forwarder is a fresh client session
// of a peer configured with c.times redials, cuts the backend connection at the phase c.fail,
// and then sends one more proxied call over the same forwarder session.
func (w *world) runProxiedRedial(c *reqCase, res *pairResult) *obs {
	o := &obs{}
	sc := *c.sc
	sc.block, sc.entered, sc.nEntered = nil, nil, nil
	if c.fail == "r-during" {
		sc.block, sc.entered, sc.nEntered = make(chan struct{}), make(chan struct{}), new(int32)
	}
	be.reset(&sc)
	resetFwdRec()
	pxBefore := w.pxArr.get()

	w.at("proxied/redial: dialling the forwarder session (RedialTimes=" + fmt.Sprint(c.times) + ")")
	rl := listenLow(w.bePeer)
	fp := w.redialPeerFor(c.times)
	rs := w.dial(fp.peer, rl.Addr)
	// the listener registers a connection when Accept returns: a first exchange makes sure
	// that a later KillConns finds it
	if what := syncCall(rs, "/b/sync"); what != "" {
		o.timeout, o.barrier = true, "fresh forwarder session: "+what
	}
	names.set("forward", rs.LocalAddr().String())
	setFwd(rs)
	defer func() {
		rl.Close()
		done := make(chan struct{})
		go func() { rs.Close(); close(done) }()
		select {
		case <-done:
		case <-time.After(waitLong):
		}
		rl.KillConns()
		if !w.gone() {
			names.set("forward", w.fsess.LocalAddr().String())
			setFwd(w.fsess)
		}
	}()

	redialsBefore := fp.rc.get()
	cut := func() {
		redialsBefore = fp.rc.get()
		if !c.reach {
			rl.Close()
		}
		rl.KillConns()
	}
	// settled: the session has its new connection, or has given up
	settle := func() bool {
		return WaitUntil(waitLong, func() bool {
			if w.gone() {
				return true
			}
			st := statusName(rs)
			w.at(fmt.Sprintf("proxied/redial: cut %s done, waiting for the forwarder session to settle (status %s, %d redials since the cut, want redial=%v)", c.fail, st, fp.rc.get()-redialsBefore, c.canRedial()))
			if c.canRedial() {
				return st == "ok" && fp.rc.get() > redialsBefore
			}
			return st == "passive-closed" || st == "redial-failed" || st == "active-closed"
		})
	}

	caller := w.csess
	if c.push {
		w.at("proxied/redial: closing the previous caller session")
		w.csess.Close()
		w.newCaller()
		caller = w.csess
	}
	if w.gone() {
		return o
	}
	o.renamed = w.csessRenamed

	if c.fail == "r-before" {
		w.at("proxied/redial: cutting the backend connection before the request, waiting for the session to settle")
		cut()
		if !settle() {
			o.timeout, o.barrier = true, "forwarder session did not settle after the cut (status "+statusName(rs)+fmt.Sprintf(", %d redials", fp.rc.get()-redialsBefore)+")"
		}
	}
	var g *GateCtl
	side := make(chan struct{})
	switch c.fail {
	case "r-atwrite":
		// the forwarder's write is parked after its status test; the connection is cut; the write
		// is released as soon as the reader has seen the cut (the reader cannot go on to close
		// the socket and redial before the write returned: it waits for the call's lock, or for
		// the push's context)
		g = NewGateCtl()
		g.Arm("write.prelock", rs)
		go func() {
			defer close(side)
			if g.AwaitParked("write.prelock", rs, 1, waitLong) {
				cut()
				WaitUntil(waitLong, func() bool { return statusName(rs) != "ok" || w.gone() })
			}
			g.Disarm("write.prelock", rs)
		}()
	case "r-during":
		go func() {
			defer close(side)
			select {
			case <-sc.entered:
				cut()
			case <-time.After(waitLong):
			}
		}()
	default:
		close(side)
	}
	w.at("proxied/redial: request sent (cut " + c.fail + "), waiting for the caller to complete")
	doRequest(caller, c, o)
	if sc.block != nil {
		close(sc.block)
	}
	if w.gone() {
		if g != nil {
			g.Uninstall()
		}
		return o
	}
	w.at("proxied/redial: quiescence")
	if c.push {
		WaitUntil(waitLong, func() bool { return w.pxArr.get() > pxBefore })
		syncCall(caller, "/p/sync")
		if ps := w.proxySessionFor(caller); ps != nil {
			done := make(chan struct{})
			go func() { ps.Close(); close(done) }()
			select {
			case <-done:
			case <-time.After(waitLong):
				o.timeout, o.barrier = true, "the proxy-side session of the pushing caller did not close"
			}
		} else {
			o.timeout, o.barrier = true, "no proxy-side session for the pushing caller"
		}
	}
	select {
	case <-side:
	case <-time.After(waitLong):
	}
	if g != nil {
		g.Uninstall()
	}
	if c.fail == "r-atwrite" || c.fail == "r-during" {
		if !settle() {
			o.timeout, o.barrier = true, "forwarder session did not settle after the cut (status "+statusName(rs)+fmt.Sprintf(", %d redials", fp.rc.get()-redialsBefore)+")"
		}
	}
	linkUp := !c.cutHappens() || c.canRedial()
	if c.fail != "r-after" {
		// a barrier call on the forwarder session makes the arrival count final
		if linkUp {
			if what := syncCall(rs, "/b/sync"); what != "" {
				o.timeout, o.barrier = true, "forwarder session (redial-enabled, after "+c.fail+"): "+what
			}
		}
	} else {
		if what := syncCall(rs, "/b/sync"); what != "" {
			o.timeout, o.barrier = true, "forwarder session (redial-enabled): "+what
		}
	}
	if !c.expectFail() {
		waitInvoked(c)
	} else if c.fail == "r-during" {
		WaitUntil(waitLong, func() bool { _, i, _ := be.snap(); return i >= 1 })
	}
	o.arrived, o.invoked, o.seen = be.snap()
	o.normNow()
	fwdRec.mu.Lock()
	o.fwdCalls, o.fwdStat = fwdRec.calls, fwdRec.statText
	o.fwdIsConn = fwdRec.stat != nil && fwdRec.stat == erpc.VerifSentinels()["statConnClosed"]
	o.labelIP, o.labelMeth = names.norm(fwdRec.label.RealIP), fwdRec.label.ServiceMethod
	fwdRec.mu.Unlock()

	if c.fail == "r-after" {
		w.at("proxied/redial: cutting the backend connection after the reply, waiting for the session to settle")
		cut()
		if !settle() {
			o.timeout, o.barrier = true, "forwarder session did not settle after the cut (status "+statusName(rs)+fmt.Sprintf(", %d redials", fp.rc.get()-redialsBefore)+")"
		}
	}
	if w.gone() {
		return o
	}
	if c.push {
		caller.Close()
		w.newCaller()
	}
	if c.canRedial() && c.cutHappens() {
		names.set("forward", rs.LocalAddr().String())
	}

	// one more proxied call over the same forwarder session
	w.at("proxied/redial: the next proxied call over the same forwarder session")
	f := &followObs{}
	chk := &reqCase{method: "/b/raw", body: []byte("again"), codec: 's', sc: &script{}}
	be.reset(&script{})
	resetFwdRec()
	fo := &obs{}
	doRequest(w.csess, chk, fo)
	f.stat, f.code, f.result, f.timeout = fo.stat, fo.code, fo.result, fo.timeout
	if linkUp && !fo.timeout {
		syncCall(rs, "/b/sync")
	}
	f.arrived, _, _ = be.snap()
	fwdRec.mu.Lock()
	f.fwdCalls = fwdRec.calls
	fwdRec.mu.Unlock()
	res.follow = f
	return o
}

// parkFirst: only the first invocation of a parking script parks (a request that reaches the
// handler a second time must not wait for a release that already happened).
func parkFirst(sc *script) bool {
	if sc.nEntered == nil {
		return true
	}
	return atomic.AddInt32(sc.nEntered, 1) == 1
}

// checkRedial is the oracle of a redial case on the implementation's own observations: a
// proxied request reaches the backend at most once whatever the forwarder session went
// through, the caller's status is the direct one or Bad Gateway, and the next proxied call
// over the same forwarder session is a plain one (or Bad Gateway when the connection is gone
// for good).
func checkRedial(st *Stats, i int, h string, c *reqCase, d, p *obs, f *followObs) {
	cfgText := fmt.Sprintf("forwarder session dialled with RedialTimes=%d, backend connection cut %s, backend reachable for a redial=%v", c.times, c.fail[2:], c.reach)
	if p.arrived > 1 || p.invoked > 1 || p.fwdCalls > 1 {
		st.Fail(i, "forwarded-twice", fmt.Sprintf("%s: the proxied request reached the backend %d times, its handler ran %d times (direct: %d), the plugin used the forwarder %d times, caller got %s; a proxied request is forwarded at most once", cfgText, p.arrived, p.invoked, d.invoked, p.fwdCalls, p.stat), h)
	}
	if !c.push && !p.timeout && p.stat != d.stat && p.code != erpc.CodeBadGateway {
		st.Fail(i, "status-neither-direct-nor-502", fmt.Sprintf("%s: caller got %s; the direct status is %s", cfgText, p.stat, d.stat), h)
	}
	if f == nil {
		return
	}
	linkUp := !c.cutHappens() || c.canRedial()
	switch {
	case f.timeout:
		st.Fail(i, "caller-never-completes", cfgText+": the next proxied call over the same forwarder session never completed", h)
	case linkUp:
		if f.stat != VS("ok") || string(f.result) != "again" || f.arrived != 1 || f.fwdCalls != 1 {
			st.Fail(i, "redial-next-call", fmt.Sprintf("%s: the next proxied call (the backend answers OK) gave %s result %s, reached the backend %d times, forwarder used %d times", cfgText, f.stat, Hx(clip(f.result)), f.arrived, f.fwdCalls), h)
		}
	default:
		if f.code != erpc.CodeBadGateway || f.arrived != 0 || f.fwdCalls != 1 {
			st.Fail(i, "redial-next-call", fmt.Sprintf("%s: the connection is gone for good, yet the next proxied call gave %s, reached the backend %d times, forwarder used %d times (want Bad Gateway, 0, 1)", cfgText, f.stat, f.arrived, f.fwdCalls), h)
		}
	}
}
