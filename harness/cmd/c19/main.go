// c19 drives the proxy plugin (plugin/proxy) metamorphically: every generated request is sent
// once directly to a backend peer and once through a peer running proxy.NewPlugin whose
// forwarder is a session to the same backend. Observed: what the caller got (status triple,
// result bytes, reply codec id, reply metadata) and what the backend saw (arrivals, handler
// invocations, body, codec, metadata, real IP), plus the package-level status sentinels.
package main

import (
	"bytes"
	"encoding/json"
	"fmt"
	"io/ioutil"
	"path/filepath"
	"regexp"
	"runtime"
	"sort"
	"strings"
	"sync"
	"time"

	. "verifharness/hlib"

	erpc "github.com/henrylee2cn/erpc/v6"
	"github.com/henrylee2cn/erpc/v6/codec"
	"github.com/henrylee2cn/erpc/v6/plugin/proxy"
	"github.com/henrylee2cn/erpc/v6/socket/example/pb"
)

// ---------------------------------------------------------------------------------------
// backend: scripted handlers
// ---------------------------------------------------------------------------------------

type metaOp struct {
	set  bool
	k, v string
}

type script struct {
	stat     *[3]string // code(dec) msg cause ; nil = OK
	hasCause bool
	reply    interface{} // nil => echo the raw argument (raw route only)
	setCodec byte
	ops      []metaOp
	block    chan struct{} // non-nil: handler parks here after signalling entered
	entered  chan struct{}
	nEntered *int32 // non-nil: only the first invocation parks
}

type seenReq struct {
	body   []byte
	codec  byte
	meta   [][2]string
	realIP string
}

type backendState struct {
	mu      sync.Mutex
	arrived int
	invoked int
	seen    *seenReq
	sc      *script
}

var be backendState

func (b *backendState) reset(sc *script) {
	b.mu.Lock()
	b.arrived, b.invoked, b.seen, b.sc = 0, 0, nil, sc
	b.mu.Unlock()
}

func (b *backendState) snap() (int, int, *seenReq) {
	b.mu.Lock()
	defer b.mu.Unlock()
	return b.arrived, b.invoked, b.seen
}

type visitCtx interface {
	VisitMeta(func(k, v []byte))
	GetBodyCodec() byte
	RealIP() string
}

type Obj struct {
	A int    `json:"a"`
	B string `json:"b"`
}

func canonObj(o *Obj) []byte      { return []byte(fmt.Sprintf("%d|%s", o.A, o.B)) }
func canonPb(p *pb.PbTest) []byte { return []byte(fmt.Sprintf("%d|%d", p.A, p.B)) }

// record notes what the handler saw and returns the script.
func (b *backendState) record(ctx visitCtx, canon []byte) *script {
	s := &seenReq{body: append([]byte(nil), canon...), codec: ctx.GetBodyCodec(), realIP: ctx.RealIP()}
	ctx.VisitMeta(func(k, v []byte) { s.meta = append(s.meta, [2]string{string(k), string(v)}) })
	b.mu.Lock()
	b.invoked++
	b.seen = s
	sc := b.sc
	b.mu.Unlock()
	return sc
}

func (b *backendState) call(ctx erpc.CallCtx, canon []byte, raw []byte) (interface{}, *erpc.Status) {
	sc := b.record(ctx, canon)
	if sc == nil {
		return nil, nil
	}
	for _, op := range sc.ops {
		if op.set {
			ctx.SetMeta(op.k, op.v)
		} else {
			ctx.AddMeta(op.k, op.v)
		}
	}
	if sc.setCodec != 0 {
		ctx.SetBodyCodec(sc.setCodec)
	}
	if sc.block != nil && parkFirst(sc) {
		close(sc.entered)
		<-sc.block
	}
	if sc.stat != nil {
		return nil, mkStatus(sc)
	}
	if sc.reply == nil {
		return append([]byte(nil), raw...), nil
	}
	return sc.reply, nil
}

func mkStatus(sc *script) *erpc.Status {
	var code int32
	fmt.Sscanf(sc.stat[0], "%d", &code)
	if sc.hasCause {
		return erpc.NewStatus(code, sc.stat[1], sc.stat[2])
	}
	return erpc.NewStatus(code, sc.stat[1], nil)
}

type B struct{ erpc.CallCtx }

func (h *B) Raw(arg *[]byte) (interface{}, *erpc.Status) { return be.call(h, *arg, *arg) }
func (h *B) Str(arg *string) (interface{}, *erpc.Status) { return be.call(h, []byte(*arg), nil) }
func (h *B) Obj(arg *Obj) (interface{}, *erpc.Status)    { return be.call(h, canonObj(arg), nil) }
func (h *B) Pb(arg *pb.PbTest) (interface{}, *erpc.Status) {
	return be.call(h, canonPb(arg), nil)
}
func (h *B) Sync(arg *[]byte) ([]byte, *erpc.Status) { return []byte("sync"), nil }

// Tag answers with its argument and with reply metadata derived from it (concurrent bursts:
// every caller must get back its own body and its own reply metadata).
func (h *B) Tag(arg *[]byte) ([]byte, *erpc.Status) {
	h.SetMeta("X-Tag", string(*arg))
	h.AddMeta("X-Pad", "p"+string(*arg))
	return append([]byte(nil), *arg...), nil
}

type Q struct{ erpc.PushCtx }

func (h *Q) push(canon []byte) *erpc.Status {
	sc := be.record(h, canon)
	if sc != nil && sc.stat != nil {
		return mkStatus(sc)
	}
	return nil
}
func (h *Q) Raw(arg *[]byte) *erpc.Status { return h.push(*arg) }
func (h *Q) Str(arg *string) *erpc.Status { return h.push([]byte(*arg)) }
func (h *Q) Obj(arg *Obj) *erpc.Status    { return h.push(canonObj(arg)) }

// arrivalPlugin counts request headers in the reader goroutine (synchronously, in arrival order).
type arrivalPlugin struct {
	name string
	mu   sync.Mutex
	n    int
}

func (a *arrivalPlugin) Name() string { return a.name }
func (a *arrivalPlugin) hit(ctx erpc.ReadCtx) *erpc.Status {
	if strings.HasSuffix(ctx.ServiceMethod(), "/sync") || strings.HasSuffix(ctx.ServiceMethod(), "/tag") {
		return nil
	}
	if a.name == "be-arrivals" {
		be.mu.Lock()
		be.arrived++
		be.mu.Unlock()
	} else {
		a.mu.Lock()
		a.n++
		a.mu.Unlock()
	}
	return nil
}
func (a *arrivalPlugin) PostReadCallHeader(ctx erpc.ReadCtx) *erpc.Status { return a.hit(ctx) }
func (a *arrivalPlugin) PostReadPushHeader(ctx erpc.ReadCtx) *erpc.Status { return a.hit(ctx) }
func (a *arrivalPlugin) get() int {
	a.mu.Lock()
	defer a.mu.Unlock()
	return a.n
}

// renamer renames accepted proxy-side sessions on request (an application that keys sessions
// by user id after login does the same): the caller's address must still be the real IP.
type renamer struct {
	mu   sync.Mutex
	next bool
	n    int
}

func (r *renamer) Name() string { return "renamer" }
func (r *renamer) PostAccept(s erpc.PreSession) *erpc.Status {
	r.mu.Lock()
	defer r.mu.Unlock()
	if r.next {
		r.n++
		s.SetID(fmt.Sprintf("user-%d", r.n))
		r.next = false
	}
	return nil
}
func (r *renamer) consumed() bool {
	r.mu.Lock()
	defer r.mu.Unlock()
	return !r.next
}
func (r *renamer) arm(on bool) {
	r.mu.Lock()
	r.next = on
	r.mu.Unlock()
}

// noiseFn, when set, runs between the completion of the forwarded call and the plugin's use
// of the call command (delayed copy): unrelated traffic in the same process that recycles
// pooled handler contexts.
var (
	noiseMu sync.Mutex
	noiseFn func()
)

func setNoise(f func()) {
	noiseMu.Lock()
	noiseFn = f
	noiseMu.Unlock()
}

func runNoise() {
	noiseMu.Lock()
	f := noiseFn
	noiseMu.Unlock()
	if f != nil {
		f()
	}
}

// proxy's own handlers (methods the proxy serves itself are not forwarded)
type P struct{ erpc.CallCtx }

func (h *P) Own(arg *[]byte) ([]byte, *erpc.Status) {
	return append([]byte("own:"), *arg...), nil
}
func (h *P) Sync(arg *[]byte) ([]byte, *erpc.Status) { return []byte("sync"), nil }

// ---------------------------------------------------------------------------------------
// forwarders
// ---------------------------------------------------------------------------------------

type fwdRecord struct {
	mu       sync.Mutex
	calls    int
	label    proxy.Label
	stat     *erpc.Status // status object returned by the forwarder (before the plugin's rewrite)
	statText string       // its fields at the time it was returned
}

var fwdRec fwdRecord

// fwdWrap wraps the real forwarder and records what the plugin got back from it.
type fwdWrap struct{ inner proxy.Forwarder }

func (f fwdWrap) Call(uri string, arg interface{}, result interface{}, setting ...erpc.MessageSetting) erpc.CallCmd {
	cmd := f.inner.Call(uri, arg, result, setting...)
	<-cmd.Done()
	fwdRec.mu.Lock()
	fwdRec.calls++
	fwdRec.stat = cmd.Status()
	fwdRec.statText = triple(cmd.Status())
	fwdRec.mu.Unlock()
	runNoise()
	return cmd
}
func (f fwdWrap) Push(uri string, arg interface{}, setting ...erpc.MessageSetting) *erpc.Status {
	st := f.inner.Push(uri, arg, setting...)
	fwdRec.mu.Lock()
	fwdRec.calls++
	fwdRec.stat = st
	fwdRec.statText = triple(st)
	fwdRec.mu.Unlock()
	return st
}

// dialFwd dials the backend for every request (as mixer/multiclient does on failure it returns
// a fake call command carrying the dial status).
type dialFwd struct {
	peer erpc.Peer
	addr string
}

func (d dialFwd) Call(uri string, arg interface{}, result interface{}, setting ...erpc.MessageSetting) erpc.CallCmd {
	sess, stat := d.peer.Dial(d.addr)
	if !stat.OK() {
		return erpc.NewFakeCallCmd(uri, arg, result, stat)
	}
	defer sess.Close()
	return sess.Call(uri, arg, result, setting...)
}
func (d dialFwd) Push(uri string, arg interface{}, setting ...erpc.MessageSetting) *erpc.Status {
	sess, stat := d.peer.Dial(d.addr)
	if !stat.OK() {
		return stat
	}
	defer sess.Close()
	return sess.Push(uri, arg, setting...)
}

var (
	curFwdMu sync.Mutex
	curFwd   proxy.Forwarder
)

func setFwd(f proxy.Forwarder) {
	curFwdMu.Lock()
	curFwd = f
	curFwdMu.Unlock()
}

func chooseFwd(l *proxy.Label) proxy.Forwarder {
	fwdRec.mu.Lock()
	fwdRec.label = *l
	fwdRec.mu.Unlock()
	curFwdMu.Lock()
	defer curFwdMu.Unlock()
	return fwdWrap{curFwd}
}

// ---------------------------------------------------------------------------------------
// rendering
// ---------------------------------------------------------------------------------------

var addrRe = regexp.MustCompile(`127\.0\.0\.1:\d+`)

// addrNames maps the local address of each CURRENT session (by slot: direct, caller, forward)
// to its role; addresses of sessions that are gone are not remembered (ports are reused).
type addrNames struct{ cur map[string]string }

var roleOf = map[string]string{"direct": "CALLER", "caller": "CALLER", "forward": "PROXY"}

func (a *addrNames) set(slot, addr string) { a.cur[slot] = addr }

func (a *addrNames) norm(s string) string {
	for _, slot := range []string{"direct", "caller", "forward"} {
		if addr := a.cur[slot]; addr != "" {
			s = strings.Replace(s, addr, roleOf[slot], -1)
		}
	}
	return addrRe.ReplaceAllString(s, "ADDR")
}

var names = &addrNames{cur: map[string]string{}}

func unq(s string) string {
	var o []byte
	for i := 0; i < len(s); i++ {
		switch {
		case s[i] == '+':
			o = append(o, ' ')
		case s[i] == '%' && i+2 < len(s):
			var b byte
			fmt.Sscanf(s[i+1:i+3], "%02x", &b)
			o = append(o, b)
			i += 2
		default:
			o = append(o, s[i])
		}
	}
	return string(o)
}

// fields returns the three stored fields of a status, taken from its wire form.
func fields(s *erpc.Status) (code int32, msg string, cause string, hasCause bool) {
	code = s.Code()
	for _, kv := range strings.Split(string(s.EncodeQuery()), "&") {
		i := strings.IndexByte(kv, '=')
		if i < 0 {
			continue
		}
		switch kv[:i] {
		case "msg":
			msg = unq(kv[i+1:])
		case "cause":
			cause, hasCause = unq(kv[i+1:]), true
		}
	}
	return
}

func triple(s *erpc.Status) string {
	if s.OK() {
		return VS("ok")
	}
	code, msg, cause, has := fields(s)
	return VL(VZ(int64(code)), VB([]byte(names.norm(msg))), VOpt([]byte(names.norm(cause)), has))
}

func metaVal(m [][2]string) string {
	items := make([]string, len(m))
	for i, kv := range m {
		items[i] = VL(VB([]byte(kv[0])), VB([]byte(names.norm(kv[1]))))
	}
	return VL(items...)
}

// firstPerKey renders a multimap as sorted (key, first value) pairs.
func firstPerKey(m [][2]string) string {
	first := map[string]string{}
	var keys []string
	for _, kv := range m {
		if _, ok := first[kv[0]]; !ok {
			first[kv[0]] = names.norm(kv[1])
			keys = append(keys, kv[0])
		}
	}
	sort.Strings(keys)
	var sb strings.Builder
	for _, k := range keys {
		fmt.Fprintf(&sb, "%q=%q;", k, first[k])
	}
	return sb.String()
}

// ---------------------------------------------------------------------------------------
// one observation (direct or proxied)
// ---------------------------------------------------------------------------------------

type obs struct {
	stat      string // triple
	code      int32
	result    []byte
	codec     byte
	meta      [][2]string
	hasReply  bool
	arrived   int
	invoked   int
	seen      *seenReq
	labelIP   string
	labelMeth string
	fwdCalls  int
	fwdStat   string
	fwdIsConn bool // the forwarder returned the shared statConnClosed object
	timeout   bool
	renamed   bool   // the proxy application renamed the caller's session
	barrier   string // why a barrier call failed
}

func (o *obs) val(push bool) string {
	var caller string
	if push {
		caller = VL(o.stat)
	} else {
		caller = VL(o.stat, VB(o.result), VN(int64(o.codec)), metaVal(o.meta))
	}
	seen := VS("none")
	if o.seen != nil {
		seen = VL(VB(o.seen.body), VN(int64(o.seen.codec)), metaVal(o.seen.meta), VB([]byte(names.norm(o.seen.realIP))))
	}
	return VL(caller, VL(VN(int64(o.arrived)), VN(int64(o.invoked)), seen))
}

type reqCase struct {
	push    bool
	method  string
	route   string // raw str obj pb none own
	body    []byte
	codec   byte
	meta    [][2]string
	sc      *script
	fail    string // none closed-local closed-remote dial during
	redial  bool   // the forwarder is a client session dialled with RedialTimes=times; fail is r-none r-before r-atwrite r-during r-after
	times   int    // PeerConfig.RedialTimes of the forward peer (0 never, -1 without limit)
	reach   bool   // the backend accepts a new connection after the cut
	noise   bool   // unrelated traffic between the forwarded call's completion and the plugin's use of it
	expInv  bool   // the backend handler is expected to run (route found and body decodable)
	decVal  string // library decode table entry
	marVal  string // library marshal table
	classes []string
}

func (c *reqCase) settings() []erpc.MessageSetting {
	st := []erpc.MessageSetting{erpc.WithBodyCodec(c.codec)}
	for _, kv := range c.meta {
		st = append(st, erpc.WithAddMeta(kv[0], kv[1]))
	}
	return st
}

const waitLong = 15 * time.Second

// pairTimeout is the watchdog for one pair (normally a few milliseconds); maxFailedPairs stops
// the run early: once the property is broken every later pair would only repeat it slowly.
const pairTimeout = 10 * time.Second
const maxFailedPairs = 6

// doRequest sends the case on sess and fills the caller part of the observation.
func doRequest(sess erpc.Session, c *reqCase, o *obs) {
	if c.push {
		st := sess.Push(c.method, c.body, c.settings()...)
		o.stat, o.code = triple(st), st.Code()
		return
	}
	var result []byte
	done := make(chan erpc.CallCmd, 1)
	go func() { done <- sess.Call(c.method, c.body, &result, c.settings()...) }()
	select {
	case cmd := <-done:
		st := cmd.Status()
		o.stat, o.code = triple(st), st.Code()
		o.result = append([]byte(nil), result...)
		o.codec = cmd.InputBodyCodec()
		if m := cmd.InputMeta(); m != nil {
			o.hasReply = true
			m.VisitAll(func(k, v []byte) { o.meta = append(o.meta, [2]string{string(k), string(v)}) })
		}
	case <-time.After(2 * waitLong):
		o.timeout = true
		o.stat = VS("timeout")
	}
}

// syncCall is a barrier: an empty call of a method that always answers OK. It returns "" or
// what went wrong.
func syncCall(sess erpc.Session, method string) string {
	var r []byte
	done := make(chan *erpc.Status, 1)
	go func() { done <- sess.Call(method, []byte{}, &r).Status() }()
	select {
	case st := <-done:
		if st.OK() {
			return ""
		}
		return "barrier call " + method + " (its handler always answers OK) returned " + triple(st)
	case <-time.After(waitLong):
		return "barrier call " + method + " did not complete"
	}
}

// ---------------------------------------------------------------------------------------
// world
// ---------------------------------------------------------------------------------------

type world struct {
	stMu    sync.Mutex
	phase   string // what the pair is doing right now (reported by the watchdog)
	aborted bool   // the watchdog gave up on this world; a late goroutine must not touch shared state

	cfg                            *RunCfg
	ren                            *renamer
	csessRenamed                   bool
	nsess                          erpc.Session // unrelated session used for noise traffic
	bePeer, pxPeer, clPeer, fwPeer erpc.Peer
	beLis, pxLis                   *Listener
	pxArr                          *arrivalPlugin
	dsess                          erpc.Session // caller -> backend
	csess                          erpc.Session // caller -> proxy
	fsess                          erpc.Session // proxy(forward peer) -> backend
	rpeers                         map[int]*redialPeer // forward peers whose sessions redial
}

func newWorld(cfg *RunCfg) *world {
	w := &world{cfg: cfg, ren: &renamer{}}
	erpc.VerifSetGate(nil)
	w.bePeer = erpc.NewPeer(erpc.PeerConfig{}, &arrivalPlugin{name: "be-arrivals"})
	w.bePeer.RouteCall(new(B))
	w.bePeer.RoutePush(new(Q))
	w.pxArr = &arrivalPlugin{name: "px-arrivals"}
	w.pxPeer = erpc.NewPeer(erpc.PeerConfig{}, w.pxArr, w.ren, proxy.NewPlugin(chooseFwd))
	w.pxPeer.RouteCall(new(P))
	w.clPeer = erpc.NewPeer(erpc.PeerConfig{})
	w.fwPeer = erpc.NewPeer(erpc.PeerConfig{})
	var err error
	w.beLis, err = Listen(w.bePeer, "")
	Must(err)
	w.pxLis, err = Listen(w.pxPeer, "")
	Must(err)
	w.dsess = w.dial(w.clPeer, w.beLis.Addr)
	w.nsess = w.dial(w.clPeer, w.beLis.Addr)
	w.csess = w.dial(w.clPeer, w.pxLis.Addr)
	names.set("direct", w.dsess.LocalAddr().String())
	names.set("caller", w.csess.LocalAddr().String())
	w.newForward()
	return w
}

func (w *world) at(phase string) {
	w.stMu.Lock()
	w.phase = phase
	w.stMu.Unlock()
}

func (w *world) where() string {
	w.stMu.Lock()
	defer w.stMu.Unlock()
	return w.phase
}

func (w *world) abort() {
	w.stMu.Lock()
	w.aborted = true
	w.stMu.Unlock()
}

func (w *world) gone() bool {
	w.stMu.Lock()
	defer w.stMu.Unlock()
	return w.aborted
}

func (w *world) dial(p erpc.Peer, addr string) erpc.Session {
	s, st := p.Dial(addr)
	if !st.OK() {
		Must(fmt.Errorf("dial %s: %s", addr, st.String()))
	}
	return s
}

func (w *world) newForward() {
	if w.gone() {
		return
	}
	w.fsess = w.dial(w.fwPeer, w.beLis.Addr)
	names.set("forward", w.fsess.LocalAddr().String())
	setFwd(w.fsess)
}

func (w *world) newCaller() {
	if w.gone() {
		return
	}
	// every other new caller session is renamed by the proxy application
	w.csessRenamed = w.cfg.Rng.Intn(2) == 0
	w.ren.arm(w.csessRenamed)
	w.csess = w.dial(w.clPeer, w.pxLis.Addr)
	names.set("caller", w.csess.LocalAddr().String())
	if w.csessRenamed {
		// the rename happens in the proxy's accept path: wait until it was done
		WaitUntil(waitLong, func() bool { return w.ren.consumed() || w.gone() })
	}
}

// noise sends unrelated calls (with their own request metadata) on a session of the same
// process, so that pooled handler contexts are taken, overwritten and returned.
func (w *world) noise() {
	var r []byte
	for k := 0; k < 6; k++ {
		w.nsess.Call("/b/sync", []byte("noise"), &r, erpc.WithAddMeta("X-Noise", "n"), erpc.WithAddMeta("X-Real-IP", "noise"))
	}
}

// burst: concurrent proxied calls from several callers, each with its own body; the backend's
// /b/tag answers with the body and reply metadata derived from it. Returns what went wrong.
func (w *world) burst(round int) []string {
	const callers, perCaller = 8, 30
	var mu sync.Mutex
	var bad []string
	var wg sync.WaitGroup
	setNoise(nil)
	for g := 0; g < callers; g++ {
		sess, st := w.clPeer.Dial(w.pxLis.Addr)
		if !st.OK() {
			return []string{"dial for the burst failed: " + st.String()}
		}
		wg.Add(1)
		go func(g int, sess erpc.Session) {
			defer wg.Done()
			defer sess.Close()
			for k := 0; k < perCaller; k++ {
				body := fmt.Sprintf("r%d-g%d-k%d", round, g, k)
				var result []byte
				cmd := sess.Call("/b/tag", []byte(body), &result, erpc.WithBodyCodec('s'), erpc.WithAddMeta("X-Req", body))
				<-cmd.Done()
				what := ""
				var m [][2]string
				if im := cmd.InputMeta(); im != nil {
					im.VisitAll(func(k, v []byte) { m = append(m, [2]string{string(k), string(v)}) })
				}
				switch {
				case !cmd.Status().OK():
					what = "status " + triple(cmd.Status())
				case string(result) != body:
					what = fmt.Sprintf("result %q", result)
				case len(m) != 2 || m[0] != [2]string{"X-Tag", body} || m[1] != [2]string{"X-Pad", "p" + body}:
					what = fmt.Sprintf("reply metadata %q", m)
				}
				if what != "" {
					mu.Lock()
					if len(bad) < 5 {
						bad = append(bad, fmt.Sprintf("concurrent proxied call with body %q got %s", body, what))
					}
					mu.Unlock()
				}
			}
		}(g, sess)
	}
	wg.Wait()
	return bad
}

// proxySessionFor returns the proxy-side session whose remote address is the caller's local one.
func (w *world) proxySessionFor(caller erpc.Session) erpc.Session {
	var found erpc.Session
	want := caller.LocalAddr().String()
	WaitUntil(waitLong, func() bool {
		w.pxPeer.RangeSession(func(s erpc.Session) bool {
			if s.RemoteAddr().String() == want && s.Health() {
				found = s
				return false
			}
			return true
		})
		return found != nil
	})
	return found
}

// waitInvoked waits until the handler-invocation count reaches what the arrivals predict.
func waitInvoked(c *reqCase) {
	WaitUntil(waitLong, func() bool {
		a, i, _ := be.snap()
		if !c.expInv {
			return true
		}
		return i >= a
	})
}

// normNow resolves addresses to their role names while the sessions that own them are still
// registered (a port is reused as soon as its session is gone).
func (o *obs) normNow() {
	if o.seen != nil {
		s := *o.seen
		s.realIP = names.norm(s.realIP)
		s.meta = normMeta(s.meta)
		o.seen = &s
	}
	o.meta = normMeta(o.meta)
}

func (w *world) runDirect(c *reqCase) *obs {
	o := &obs{}
	sc := *c.sc
	sc.block, sc.entered = nil, nil
	be.reset(&sc)
	w.at("direct: request sent, waiting for the caller to complete")
	doRequest(w.dsess, c, o)
	w.at("direct: barrier call on the direct session")
	if what := syncCall(w.dsess, "/b/sync"); what != "" {
		o.timeout, o.barrier = true, "direct session: "+what
	}
	w.at("direct: waiting for the backend handler")
	waitInvoked(c)
	o.arrived, o.invoked, o.seen = be.snap()
	o.normNow()
	return o
}

// pairResult is everything one pair observes on the live peers; the oracle works on it alone.
type pairResult struct {
	d, p         *obs
	otherStat    string // a call on an unrelated closed session (after a backend failure)
	otherCode    int32
	missingStat  string // a direct call of a missing method (after a backend failure)
	missingCode  int32
	laterChecked bool
	after        *obs // a healthy proxied call right after a proxied call that ended non-OK
	follow       *followObs // redial cases: the next proxied call over the same forwarder session
}

func (w *world) runPair(c *reqCase) *pairResult {
	res := &pairResult{}
	res.d = w.runDirect(c)
	if w.gone() {
		return res
	}
	if c.redial {
		res.p = w.runProxiedRedial(c, res)
	} else {
		res.p = w.runProxied(c)
	}
	if w.gone() || c.route == "own" {
		return res
	}
	if c.expectFail() {
		// that call only: unrelated failures still report their own codes
		w.at("follow-up: call on an unrelated closed session, direct call of a missing method")
		other := w.dial(w.clPeer, w.beLis.Addr)
		other.Close()
		var r []byte
		s1 := other.Call("/b/raw", []byte("x"), &r).Status()
		res.otherStat, res.otherCode = triple(s1), s1.Code()
		s2 := w.dsess.Call("/b/nope", []byte("x"), &r).Status()
		res.missingStat, res.missingCode = triple(s2), s2.Code()
		res.laterChecked = true
	}
	if !c.redial && (c.fail != "none" || (!c.push && res.p.code != 0)) {
		// on purpose: a proxied call that ended non-OK (backend status or Bad Gateway) is
		// followed by a proxied call the backend answers OK
		w.at("follow-up: healthy proxied call after a non-OK one")
		chk := &reqCase{method: "/b/raw", body: []byte("again"), codec: 's', sc: &script{}}
		be.reset(&script{})
		res.after = &obs{}
		doRequest(w.csess, chk, res.after)
	}
	w.at("pair done")
	return res
}

func sentinelSnapshot() string {
	m := erpc.VerifSentinels()
	ks := make([]string, 0, len(m))
	for k := range m {
		ks = append(ks, k)
	}
	sort.Strings(ks)
	var sb strings.Builder
	for _, k := range ks {
		sb.WriteString(k + "=" + string(m[k].EncodeQuery()) + ";")
	}
	return sb.String()
}

func (w *world) runProxied(c *reqCase) *obs {
	o := &obs{}
	sc := *c.sc
	if c.fail == "during" {
		sc.block, sc.entered = make(chan struct{}), make(chan struct{})
	} else {
		sc.block, sc.entered = nil, nil
	}
	be.reset(&sc)
	fwdRec.mu.Lock()
	fwdRec.calls, fwdRec.stat, fwdRec.statText, fwdRec.label = 0, nil, "", proxy.Label{}
	fwdRec.mu.Unlock()
	pxBefore := w.pxArr.get()

	// arrange the failure
	w.at("proxied: arranging the backend failure " + c.fail)
	switch c.fail {
	case "closed-local":
		w.fsess.Close()
	case "closed-remote":
		w.beLis.KillConns()
		fs := w.fsess
		WaitUntil(waitLong, func() bool { return !fs.Health() })
	case "dial":
		dead := listenLow(w.bePeer)
		dead.Close()
		setFwd(dialFwd{peer: w.fwPeer, addr: dead.Addr})
	}
	caller := w.csess
	if c.push {
		w.at("proxied: closing the previous caller session (waits for its pending calls)")
		w.csess.Close()
		w.newCaller()
		caller = w.csess
	}
	if w.gone() {
		return o
	}
	if c.noise {
		setNoise(w.noise)
	}
	o.renamed = w.csessRenamed
	w.at("proxied: request sent, waiting for the caller to complete")
	if sc.block != nil {
		go func() {
			select {
			case <-sc.entered:
				w.beLis.KillConns()
			case <-time.After(waitLong):
			}
		}()
	}
	doRequest(caller, c, o)
	setNoise(nil)
	if sc.block != nil {
		close(sc.block)
	}
	if w.gone() {
		return o
	}
	w.at("proxied: quiescence (barrier calls, graceful close of the proxy-side session)")
	if c.push {
		// quiescence: the proxy has read the push, its handler context is registered (the /p/sync
		// call is read after it by the same reader goroutine), then a graceful close of the
		// proxy-side session waits for the push handler to return.
		WaitUntil(waitLong, func() bool { return w.pxArr.get() > pxBefore })
		syncCall(caller, "/p/sync")
		if ps := w.proxySessionFor(caller); ps != nil {
			done := make(chan struct{})
			go func() { ps.Close(); close(done) }()
			select {
			case <-done:
			case <-time.After(waitLong):
				o.timeout = true
			}
		} else {
			o.timeout = true
		}
	}
	// everything the proxy forwarded has been written; a barrier call on the forward session
	// makes the backend's arrival counter final.
	if c.fail == "none" {
		if what := syncCall(w.fsess, "/b/sync"); what != "" {
			o.timeout, o.barrier = true, "forward session: "+what
		}
		waitInvoked(c)
	} else if c.fail == "during" {
		WaitUntil(waitLong, func() bool { _, i, _ := be.snap(); return i >= 1 })
	}
	o.arrived, o.invoked, o.seen = be.snap()
	o.normNow()
	fwdRec.mu.Lock()
	o.fwdCalls, o.fwdStat = fwdRec.calls, fwdRec.statText
	o.fwdIsConn = fwdRec.stat != nil && fwdRec.stat == erpc.VerifSentinels()["statConnClosed"]
	o.labelIP, o.labelMeth = names.norm(fwdRec.label.RealIP), fwdRec.label.ServiceMethod
	fwdRec.mu.Unlock()
	if w.gone() {
		return o
	}
	w.at("proxied: re-dialling sessions for the next pair")
	if c.push {
		caller.Close()
		w.newCaller()
	}
	// restore a healthy forward path for the next case
	if c.fail != "none" {
		if c.fail == "during" || c.fail == "closed-remote" {
			w.dsess = w.dial(w.clPeer, w.beLis.Addr) // KillConns cut the direct session too
			names.set("direct", w.dsess.LocalAddr().String())
			w.nsess = w.dial(w.clPeer, w.beLis.Addr)
		}
		w.newForward()
	}
	return o
}

// ---------------------------------------------------------------------------------------
// library tables (codec behaviour recorded by calling the codec package directly)
// ---------------------------------------------------------------------------------------

func libDecode(route string, id byte, body []byte) (canon []byte, errText string, ok bool) {
	if route == "raw" {
		return body, "", true
	}
	var v interface{}
	switch route {
	case "str":
		v = new(string)
	case "obj":
		v = new(Obj)
	case "pb":
		v = new(pb.PbTest)
	}
	if len(body) > 0 {
		c, err := codec.Get(id)
		if err != nil {
			return nil, err.Error(), false
		}
		if err = c.Unmarshal(body, v); err != nil {
			return nil, err.Error(), false
		}
	}
	switch x := v.(type) {
	case *string:
		return []byte(*x), "", true
	case *Obj:
		return canonObj(x), "", true
	case *pb.PbTest:
		return canonPb(x), "", true
	}
	return nil, "", true
}

func libMarshal(v interface{}, id byte) ([]byte, string, bool) {
	switch x := v.(type) {
	case []byte:
		return x, "", true
	case nil:
		return []byte{}, "", true
	}
	c, err := codec.Get(id)
	if err != nil {
		return nil, err.Error(), false
	}
	b, err := c.Marshal(v)
	if err != nil {
		return nil, err.Error(), false
	}
	return b, "", true
}

func resVal(b []byte, errText string, ok bool) string {
	if ok {
		return VL(VS("ok"), VB(b))
	}
	return VL(VS("err"), VB([]byte(errText)))
}

// ---------------------------------------------------------------------------------------
// generators
// ---------------------------------------------------------------------------------------

var keyPool = []string{"k1", "k2", "X-Trace", "a b", "k\xc3\xbc", "K1", "x-real-ip", "%41", "a&b=c", "z"}

func genText(cfg *RunCfg, max int) string {
	r := cfg.Rng
	n := r.Intn(max + 1)
	switch r.Intn(4) {
	case 0:
		const al = "abcdefghijklmnopqrstuvwxyzABCDEFGHIJKLMNOPQRSTUVWXYZ0123456789-_."
		b := make([]byte, n)
		for i := range b {
			b[i] = al[r.Intn(len(al))]
		}
		return string(b)
	case 1:
		const al = " &=%+;/?#\"'\\<>\n\t,:@"
		b := make([]byte, n)
		for i := range b {
			if r.Intn(2) == 0 {
				b[i] = al[r.Intn(len(al))]
			} else {
				b[i] = byte('a' + r.Intn(26))
			}
		}
		return string(b)
	case 2:
		return string(RandBytes(r, n))
	default:
		return strings.Repeat("v", n)
	}
}

func genMeta(cfg *RunCfg, c *reqCase) {
	r := cfg.Rng
	n := r.Intn(5)
	for i := 0; i < n; i++ {
		k := keyPool[r.Intn(len(keyPool))]
		if r.Intn(8) == 0 {
			k = "g" + genText(cfg, 6)
		}
		c.meta = append(c.meta, [2]string{k, genText(cfg, 12)})
	}
	if n >= 2 && r.Intn(3) == 0 { // force a repeated key
		c.meta[n-1][0] = c.meta[0][0]
		c.classes = append(c.classes, "reqmeta:repeated-key")
	}
	ins := func(kv [2]string) {
		at := r.Intn(len(c.meta) + 1)
		c.meta = append(c.meta[:at], append([][2]string{kv}, c.meta[at:]...)...)
	}
	switch k := r.Intn(20); {
	case k < 11:
		c.classes = append(c.classes, "realip:absent")
	case k < 16:
		ins([2]string{erpc.MetaRealIP, []string{"10.1.2.3:4567", "203.0.113.9", "::1", "x"}[r.Intn(4)]})
		c.classes = append(c.classes, "realip:present")
	case k < 18:
		ins([2]string{erpc.MetaRealIP, ""})
		c.classes = append(c.classes, "realip:empty-value")
	default:
		ins([2]string{erpc.MetaRealIP, "198.51.100.7:1"})
		ins([2]string{erpc.MetaRealIP, "198.51.100.8:2"})
		c.classes = append(c.classes, "realip:twice")
	}
	if r.Intn(6) == 0 {
		v := []string{"115", "106", "112", "999", "1", "0", "", "abc"}[r.Intn(8)]
		ins([2]string{erpc.MetaAcceptBodyCodec, v})
		c.classes = append(c.classes, "accept-codec:"+v)
	}
}

func genRawBody(cfg *RunCfg) ([]byte, string) {
	r := cfg.Rng
	switch k := r.Intn(20); {
	case k < 2:
		return []byte{}, "empty"
	case k < 5:
		b := make([]byte, 256)
		for i := range b {
			b[i] = byte(i)
		}
		if r.Intn(2) == 0 {
			r.Shuffle(len(b), func(i, j int) { b[i], b[j] = b[j], b[i] })
		}
		return b, "all-bytes"
	case k < 6:
		n := PickLen(r, []int{4096, 9000, 16384, 65535, 65536, 70000, 200000})
		if cfg.Tier != "thorough" && n > 70000 {
			n = 70000
		}
		return RandBytes(r, n), "large"
	case k < 8:
		return []byte{byte(r.Intn(256))}, "one"
	case k < 14:
		return RandBytes(r, 1+r.Intn(300)), "random"
	default:
		return []byte(genText(cfg, 200)), "text"
	}
}

var codecIDs = []byte{'j', 's', 'p', 'f', 'z', 0x01, 0xff}

func genStatus(cfg *RunCfg, sc *script) string {
	r := cfg.Rng
	k := r.Intn(100)
	if k < 60 {
		return "ok"
	}
	var code int
	class := ""
	switch {
	case k < 72:
		code, class = 1000+r.Intn(100000), "custom"
	case k < 76:
		code, class = []int{404, 400, 401, 405, 408}[r.Intn(5)], "4xx"
	case k < 80:
		code, class = []int{500, 502, 503}[r.Intn(3)], "5xx"
	case k < 84:
		code, class = []int{-1, 1, 2, 99, 200, 201, 255, 2147483647, -2147483648}[r.Intn(9)], "edge"
	default:
		code, class = []int{100, 101, 102, 104, 105, 150, 199}[r.Intn(7)], "conn-class"
	}
	msg := ""
	if r.Intn(4) != 0 {
		msg = genText(cfg, 30)
	}
	sc.stat = &[3]string{fmt.Sprint(code), msg, ""}
	switch r.Intn(4) {
	case 0: // no cause
	case 1:
		sc.hasCause = true
	default:
		sc.hasCause = true
		sc.stat[2] = genText(cfg, 40)
		if sc.stat[2] == "" {
			sc.stat[2] = "c"
		}
	}
	return class
}

func genCase(cfg *RunCfg) *reqCase {
	r := cfg.Rng
	c := &reqCase{sc: &script{}, fail: "none"}
	c.push = r.Intn(4) == 0
	// route
	k := r.Intn(100)
	switch {
	case k < 42:
		c.route = "raw"
	case k < 60:
		c.route = "str"
	case k < 70:
		c.route = "obj"
	case k < 77:
		c.route = "pb"
	case k < 95:
		c.route = "none"
	default:
		c.route = "own"
	}
	if c.push && c.route == "pb" {
		c.route = "raw"
	}
	if c.push && c.route == "own" {
		c.route = "none"
	}
	prefix := "/b/"
	if c.push {
		prefix = "/q/"
	}
	switch c.route {
	case "none":
		c.method = []string{prefix + "nope", "/x/y", "/b", "/b/raw/x", "/B/RAW", "/" + genText(cfg, 8) + "q"}[r.Intn(6)]
		if c.method == "/b/sync" || c.method == "/p/sync" || c.method == "/p/own" {
			c.method = "/x/y"
		}
	case "own":
		c.method = "/p/own"
	default:
		c.method = prefix + c.route
	}
	// body and codec
	var bclass string
	switch c.route {
	case "raw", "none", "own":
		c.body, bclass = genRawBody(cfg)
		c.codec = codecIDs[r.Intn(len(codecIDs))]
	case "str":
		s := genText(cfg, 60)
		switch r.Intn(5) {
		case 0, 1:
			c.codec, bclass = 'j', "json-valid"
			c.body, _ = json.Marshal(s)
		case 2:
			c.codec, bclass = 'j', "json-invalid"
			c.body = []byte(s + "h")
		case 3:
			c.codec, bclass = 's', "plain"
			c.body = []byte(s)
		default:
			c.codec, bclass = codecIDs[r.Intn(len(codecIDs))], "any-codec"
			c.body = []byte(s)
		}
	case "obj":
		o := Obj{A: r.Intn(2000) - 1000, B: genText(cfg, 20)}
		c.body, _ = json.Marshal(o)
		switch r.Intn(5) {
		case 0, 1, 2:
			c.codec, bclass = 'j', "json-valid"
		case 3:
			c.codec, bclass = 'j', "json-truncated"
			c.body = c.body[:r.Intn(len(c.body))]
		default:
			c.codec, bclass = codecIDs[r.Intn(len(codecIDs))], "any-codec"
		}
	case "pb":
		m := &pb.PbTest{A: int32(r.Intn(1 << 20)), B: int32(-r.Intn(100))}
		c.body, _ = codec.ProtoMarshal(m)
		switch r.Intn(4) {
		case 0, 1:
			c.codec, bclass = 'p', "pb-valid"
		case 2:
			c.codec, bclass = 'p', "pb-garbage"
			c.body = RandBytes(r, 1+r.Intn(20))
		default:
			c.codec, bclass = 'j', "pb-as-json"
			c.body, _ = json.Marshal(m)
		}
	}
	c.classes = append(c.classes, "route:"+c.route, "body:"+bclass, fmt.Sprintf("codec:%#02x", c.codec))
	genMeta(cfg, c)

	// backend script
	sc := c.sc
	c.classes = append(c.classes, "status:"+genStatus(cfg, sc))
	if !c.push {
		switch k := r.Intn(10); {
		case k < 4 && c.route == "raw":
			sc.reply = nil
			c.classes = append(c.classes, "reply:echo")
		case k < 6:
			b, cl := genRawBody(cfg)
			sc.reply = b
			c.classes = append(c.classes, "reply:raw-"+cl)
		case k < 8:
			sc.reply = genText(cfg, 80)
			c.classes = append(c.classes, "reply:string")
		case k < 9:
			sc.reply = &Obj{A: r.Intn(100), B: genText(cfg, 10)}
			c.classes = append(c.classes, "reply:obj")
		default:
			sc.reply = &pb.PbTest{A: int32(r.Intn(1000)), B: 7}
			c.classes = append(c.classes, "reply:pb")
		}
		if r.Intn(6) == 0 {
			sc.setCodec = []byte{'j', 's', 'p', 'z'}[r.Intn(4)]
			c.classes = append(c.classes, fmt.Sprintf("setcodec:%c", sc.setCodec))
		}
		n := r.Intn(4)
		for i := 0; i < n; i++ {
			sc.ops = append(sc.ops, metaOp{set: r.Intn(3) == 0, k: keyPool[r.Intn(4)], v: genText(cfg, 10)})
		}
		if n > 0 {
			c.classes = append(c.classes, "replymeta:some")
			ks := map[string]int{}
			for _, op := range sc.ops {
				ks[op.k]++
			}
			for _, v := range ks {
				if v > 1 {
					c.classes = append(c.classes, "replymeta:repeated-key")
					break
				}
			}
		}
	}
	// failure phase
	if c.route != "own" && r.Intn(8) == 0 {
		c.fail = []string{"closed-local", "closed-remote", "dial", "during"}[r.Intn(4)]
	}
	if c.route != "own" && c.fail == "none" && r.Intn(8) == 0 {
		genRedial(cfg, c)
	}
	if c.push {
		c.classes = append(c.classes, "mtype:push")
	} else {
		c.classes = append(c.classes, "mtype:call")
	}
	return c
}

// genNegotiation enumerates the reply-codec negotiation uniformly: request codec R, the caller's
// X-Accept-Body-Codec wish A (none, every registered codec, an unregistered one) and the
// backend handler's choice H (left to the default rule, or ctx.SetBodyCodec of any codec).
func genNegotiation(cfg *RunCfg) *reqCase {
	r := cfg.Rng
	regs := []byte{'j', 's', 'p', 'f', 'x'}
	c := &reqCase{sc: &script{}, fail: "none"}
	R := regs[r.Intn(len(regs))]
	c.codec = R
	c.route, c.method = "raw", "/b/raw"
	c.body = RandBytes(r, r.Intn(40))
	if r.Intn(3) == 0 && (R == 'j' || R == 's') {
		c.route, c.method = "str", "/b/str"
		txt := genText(cfg, 20)
		if R == 'j' {
			c.body, _ = json.Marshal(txt)
		} else {
			c.body = []byte(txt)
		}
	}
	n := r.Intn(3)
	for i := 0; i < n; i++ {
		c.meta = append(c.meta, [2]string{keyPool[r.Intn(len(keyPool))], genText(cfg, 8)})
	}
	accClass := "none"
	if k := r.Intn(7); k < 5 {
		A := regs[k]
		at := r.Intn(len(c.meta) + 1)
		c.meta = append(c.meta[:at], append([][2]string{{erpc.MetaAcceptBodyCodec, fmt.Sprint(int(A))}}, c.meta[at:]...)...)
		accClass = "other"
		if A == R {
			accClass = "same-as-request"
		}
	} else if k == 5 {
		c.meta = append(c.meta, [2]string{erpc.MetaAcceptBodyCodec, "122"})
		accClass = "unregistered"
	}
	hClass := "default"
	if k := r.Intn(6); k < 5 {
		c.sc.setCodec = regs[k]
		hClass = "third"
		if c.sc.setCodec == R {
			hClass = "request-codec"
		} else if a, ok := parseAccept(firstValue(c.meta, erpc.MetaAcceptBodyCodec)); ok && a == c.sc.setCodec {
			hClass = "accept-codec"
		}
	}
	if r.Intn(8) == 0 {
		genStatus(cfg, c.sc)
	}
	switch r.Intn(3) {
	case 0:
		if c.route == "raw" {
			c.sc.reply = nil
		} else {
			c.sc.reply = RandBytes(r, r.Intn(30))
		}
	case 1:
		c.sc.reply = RandBytes(r, r.Intn(30))
	default:
		c.sc.reply = genText(cfg, 30)
	}
	if r.Intn(3) == 0 {
		c.sc.ops = append(c.sc.ops, metaOp{set: r.Intn(2) == 0, k: keyPool[r.Intn(4)], v: genText(cfg, 6)})
	}
	c.classes = append(c.classes, "route:"+c.route, "negotiation:accept-"+accClass+"/handler-"+hClass,
		fmt.Sprintf("codec:%#02x", c.codec), "mtype:call")
	return c
}

func firstValue(m [][2]string, k string) string {
	for _, kv := range m {
		if kv[0] == k {
			return kv[1]
		}
	}
	return ""
}

// ---------------------------------------------------------------------------------------
// main loop
// ---------------------------------------------------------------------------------------

func main() { runC19(ParseFlags()) }

func human(c *reqCase) string {
	b := c.body
	if len(b) > 48 {
		b = b[:48]
	}
	st := "ok"
	if c.sc.stat != nil {
		st = fmt.Sprintf("%s/%q/%q(%v)", c.sc.stat[0], c.sc.stat[1], c.sc.stat[2], c.sc.hasCause)
	}
	fail := c.fail
	if c.redial {
		fail = fmt.Sprintf("%s(forwarder RedialTimes=%d, backend reachable after the cut=%v)", c.fail, c.times, c.reach)
	}
	return fmt.Sprintf("push=%v method=%q codec=%#02x body[%d]=%s meta=%q backend-status=%s setcodec=%d ops=%v fail=%s",
		c.push, c.method, c.codec, len(c.body), Hx(b), c.meta, st, c.sc.setCodec, c.sc.ops, fail)
}

func runC19(cfg *RunCfg) {
	Quiet()
	w := newWorld(cfg)
	st := NewStats("C19", cfg)
	st.Rule = "pairs = one generated request sent directly to the backend and through the proxy; classes route{raw,str,obj,pb,none,own} x body x codec id{j,s,p,f,unregistered} x request metadata (repeated keys, X-Real-IP absent/present/empty/twice, X-Accept-Body-Codec) ; 15% of the pairs enumerate reply-codec negotiation uniformly: request codec{j,s,p,f,x} x X-Accept-Body-Codec{none, each registered codec, unregistered} x handler{default rule, SetBodyCodec of each codec} x backend status{ok,custom,4xx,5xx,edge,conn-class} x reply{echo,raw,string,obj,pb} x reply codec override x reply metadata ops x mtype{call,push} x failure{none,closed-local,closed-remote,dial,during} x forwarder = client session of a peer with RedialTimes{0,1,2,3,-1} (1/8 of the pairs) with the backend connection cut {not at all, before the request is written, between write()'s status test and the bytes (gate write.prelock), after the backend handler was entered and before its reply, after the reply} x backend reachable for the redial or not, each followed by one more proxied call over the same forwarder session x caller session renamed by the proxy application (SetID in PostAccept) or not x unrelated traffic injected between the forwarded call's completion and the plugin's use of it (1/4 of the calls); every 150 pairs a burst of 8 concurrent callers x 30 proxied calls with per-call reply metadata; distinct by full rendered input; non-trivial = forwarded route (not own) with non-empty body or metadata or non-OK status or failure"
	cw := NewCaseWriter(cfg)
	distinct := DistinctSet{}
	sent0 := sentinelSnapshot()
	failedPairs, evaluated, bursts := 0, 0, 0

	for i := 0; i < cfg.N; i++ {
		var c *reqCase
		if cfg.Rng.Intn(100) < 15 {
			c = genNegotiation(cfg)
		} else {
			c = genCase(cfg)
		}
		// library tables
		canon, derr, dok := libDecode(c.route, c.codec, c.body)
		if c.route == "none" || c.route == "own" {
			canon, derr, dok = nil, "", true
		}
		c.expInv = dok && c.route != "none" && c.route != "own"
		if c.fail == "during" && (!c.expInv || c.push) {
			c.fail = "none" // the connection can only be cut mid-call while a call handler runs
		}
		if c.fail == "r-during" && (!c.expInv || c.push) {
			c.fail = "r-before"
		}
		c.classes = append(c.classes, "fail:"+c.fail)
		if c.redial {
			c.classes = append(c.classes, fmt.Sprintf("redial:times=%d", c.times), fmt.Sprintf("redial:%s/reachable=%v/enabled=%v", c.fail, c.reach, c.times != 0))
		}
		if !c.push && c.fail == "none" && c.route != "own" && cfg.Rng.Intn(4) == 0 {
			c.noise = true
			c.classes = append(c.classes, "delayed-copy:unrelated-traffic-before-the-plugin-reads-the-reply")
		}
		for _, cl := range c.classes {
			st.Count(cl)
		}
		c.decVal = resVal(canon, derr, dok)
		var mar []string
		cands := map[byte]bool{c.codec: true}
		if c.sc.setCodec != 0 {
			cands[c.sc.setCodec] = true
		}
		for _, kv := range c.meta {
			if kv[0] == erpc.MetaAcceptBodyCodec {
				if id, ok := parseAccept(kv[1]); ok {
					cands[id] = true
				}
			}
		}
		var ids []int
		for id := range cands {
			ids = append(ids, int(id))
		}
		sort.Ints(ids)
		for _, id := range ids {
			rv := c.sc.reply
			if rv == nil {
				rv = c.body
			}
			b, e, ok := libMarshal(rv, byte(id))
			_, regErr := codec.Get(byte(id))
			mar = append(mar, VL(VN(int64(id)), VBool(regErr == nil), resVal(b, e, ok)))
		}
		c.marVal = VL(mar...)

		h := human(c)
		failuresBefore := len(st.OracleFailures)
		if failedPairs >= maxFailedPairs {
			st.Count("stopped-after-failing-pairs")
			break
		}
		evaluated = i + 1
		resCh := make(chan *pairResult, 1)
		go func(w *world) { resCh <- w.runPair(c) }(w)
		var res *pairResult
		select {
		case res = <-resCh:
		case <-time.After(pairTimeout):
			st.Fail(i, "caller-never-completes", fmt.Sprintf("the pair did not finish within %s; stuck at: %s", pairTimeout, w.where()), h)
			dumpStacks(cfg, i)
			w.abort()
			w = newWorld(cfg)
			failedPairs++
			continue
		}
		d, p := res.d, res.p
		if p.renamed {
			st.Count("caller-session:renamed-by-the-proxy-application")
		} else {
			st.Count("caller-session:default-id")
		}
		sent1 := sentinelSnapshot()

		// ---- property oracle on the implementation alone ----
		if d.timeout || p.timeout {
			st.Fail(i, "barrier-call-failed", "a call on a healthy session went wrong: "+d.barrier+" "+p.barrier, h)
		}
		unchanged := sent1 == sent0
		if !unchanged {
			st.Fail(i, "global-status-modified", "a package-level status changed: "+sent1, h)
			sent0 = sent1
		}
		connClass := c.sc.stat != nil && func() bool { var n int; fmt.Sscan(c.sc.stat[0], &n); return n >= 100 && n <= 199 }()
		if c.redial {
			checkRedial(st, i, h, c, d, p, res.follow)
		}
		failBranch := c.expectFail()
		if c.redial && c.fail == "r-atwrite" && p.arrived == 1 && (c.push || p.code != erpc.CodeBadGateway) {
			// bytes written into a connection that was just cut are lost in the code as it is; an
			// implementation that delivers them once after all is judged as a plain forward
			failBranch = false
		}
		switch {
		case c.route == "own":
			if p.arrived != 0 || p.fwdCalls != 0 {
				st.Fail(i, "own-forwarded", "a method the proxy serves itself was forwarded", h)
			}
			if p.stat != VS("ok") || !bytes.Equal(p.result, append([]byte("own:"), c.body...)) {
				st.Fail(i, "own-result", "the proxy's own handler result is wrong: "+p.stat, h)
			}
		case !failBranch:
			if p.fwdCalls != 1 || p.arrived != 1 {
				st.Fail(i, "forwarded-once", fmt.Sprintf("forwarder used %d times, backend received %d requests", p.fwdCalls, p.arrived), h)
			}
			if p.invoked != d.invoked {
				st.Fail(i, "invocations", fmt.Sprintf("backend handler ran %d times via proxy, %d directly", p.invoked, d.invoked), h)
			}
			if !c.push {
				if connClass && d.code >= 100 && d.code <= 199 {
					// the documented rewrite: a connection-class code becomes Bad Gateway, same cause
					if p.code != erpc.CodeBadGateway {
						st.Fail(i, "conn-class-rewrite", "connection-class backend status not reported as 502: "+p.stat, h)
					}
				} else if p.stat != d.stat {
					st.Fail(i, "status", "status via proxy "+p.stat+" != direct "+d.stat, h)
				}
				if !bytes.Equal(p.result, d.result) {
					st.Fail(i, "body", fmt.Sprintf("result via proxy (%d bytes) != direct (%d bytes): %s vs %s", len(p.result), len(d.result), Hx(clip(p.result)), Hx(clip(d.result))), h)
				}
				if p.codec != d.codec {
					st.Fail(i, "reply-codec", fmt.Sprintf("reply codec via proxy %#02x != direct %#02x", p.codec, d.codec), h)
				}
				checkReplyMeta(st, i, h, d.meta, p.meta)
			} else if p.stat != d.stat {
				st.Fail(i, "push-status", "push status via proxy "+p.stat+" != direct "+d.stat, h)
			}
			checkSeen(st, i, h, c, d, p)
		default: // backend failure
			if !c.push {
				if p.code != erpc.CodeBadGateway {
					st.Fail(i, "bad-gateway", "backend failure ("+c.fail+") reported as "+p.stat+" (forwarder returned "+p.fwdStat+")", h)
				}
				if len(p.result) != 0 {
					st.Fail(i, "bad-gateway-body", "a failed forward produced a result body", h)
				}
			}
			wantArr := c.wantArrived()
			if p.fwdCalls != 1 || p.arrived != wantArr {
				st.Fail(i, "forwarded-once", fmt.Sprintf("failure %s: forwarder used %d times, backend received %d requests (want %d)", c.fail, p.fwdCalls, p.arrived, wantArr), h)
			}
			// that call only: unrelated failures still report their own codes
			if res.laterChecked && res.otherCode != erpc.CodeConnClosed {
				st.Fail(i, "later-failure-code", "a call on an unrelated closed session reports "+res.otherStat, h)
			}
			if res.laterChecked && res.missingCode != erpc.CodeNotFound {
				st.Fail(i, "later-failure-code", "a direct call of a missing method reports "+res.missingStat, h)
			}
		}
		// and the proxy is transparent again for the next request: a proxied call the backend
		// answers OK right after one that ended non-OK
		if res.after != nil {
			st.Count("sequence:non-ok-then-ok")
			if res.after.timeout {
				st.Fail(i, "caller-never-completes", "the healthy proxied call after a non-OK one never completed", h)
			} else if res.after.stat != VS("ok") || string(res.after.result) != "again" {
				st.Fail(i, "proxied-differs-after-error", "a proxied call the backend answers OK, sent right after a proxied call that ended "+p.stat+", gives "+res.after.stat+" result "+Hx(clip(res.after.result)), h)
			}
		}

		// ---- case line for the correspondence with the model ----
		failIn := VS(strings.Replace(c.fail, "-", "", -1))
		fwdIn := VS("none")
		if c.fail != "none" && c.route != "own" && p.fwdStat != "" {
			fwdIn = VL(VBool(p.fwdIsConn), p.fwdStat)
		}
		if c.redial {
			failIn = VL(VS("redial"), VS(c.fail[2:]), VBool(c.reach), VBool(c.times != 0))
		}
		statIn := VS("ok")
		if c.sc.stat != nil {
			var n int64
			fmt.Sscan(c.sc.stat[0], &n)
			statIn = VL(VZ(n), VB([]byte(c.sc.stat[1])), VOpt([]byte(c.sc.stat[2]), c.sc.hasCause))
		}
		var ops []string
		for _, op := range c.sc.ops {
			kind := "add"
			if op.set {
				kind = "set"
			}
			ops = append(ops, VL(VS(kind), VB([]byte(op.k)), VB([]byte(op.v))))
		}
		inputs := VL(VBool(c.push), VB([]byte(c.method)), VB(c.body), VN(int64(c.codec)), metaVal(c.meta),
			VB([]byte("CALLER")), c.decVal, statIn, VN(int64(c.sc.setCodec)), VL(ops...), c.marVal, failIn, fwdIn)
		observed := VL(d.val(c.push), p.val(c.push),
			VL(VN(int64(p.fwdCalls)), VB([]byte(p.labelIP)), VB([]byte(p.labelMeth))),
			VBool(unchanged))
		if c.redial {
			fv := VS("none")
			if res.follow != nil {
				fv = res.follow.val()
			}
			observed = VL(d.val(c.push), p.val(c.push),
				VL(VN(int64(p.fwdCalls)), VB([]byte(p.labelIP)), VB([]byte(p.labelMeth))),
				VBool(unchanged), fv)
		}
		// case lines are kept under about 120 KB (AGENT_GUIDE performance notes); pairs with
		// bigger bodies are checked by the oracle above only, not replayed through the model.
		if len(inputs)+len(observed) <= 120000 {
			cw.Add(inputs, observed)
			st.Count("model-replay:yes")
		} else {
			st.Count("model-replay:skipped-large")
		}

		if c.route != "own" && (len(c.body) > 0 || len(c.meta) > 0 || c.sc.stat != nil || c.fail != "none") {
			distinct.Add(inputs)
		}
		if len(st.Samples) < 6 {
			st.Samples = append(st.Samples, h+" => direct "+d.stat+" proxied "+p.stat)
		}
		if i%150 == 149 {
			// true concurrency: several callers at once through the proxy
			bursts++
			bch := make(chan []string, 1)
			go func(w *world, round int) { bch <- w.burst(round) }(w, bursts)
			select {
			case bad := <-bch:
				for _, b := range bad {
					st.Fail(i, "concurrent-reply-mix", b, "burst of 8 concurrent callers x 30 proxied calls of /b/tag")
				}
			case <-time.After(3 * pairTimeout):
				st.Fail(i, "caller-never-completes", "a burst of concurrent proxied calls did not finish", "burst of 8 concurrent callers x 30 proxied calls of /b/tag")
				w.abort()
				w = newWorld(cfg)
			}
			st.Count("burst:8x30-concurrent-proxied-calls")
		}
		if len(st.OracleFailures) > failuresBefore {
			failedPairs++
		}
	}
	st.Evaluations = evaluated
	st.DistinctNontrivial = len(distinct)
	st.Write(cfg, cw)
}

// dumpStacks keeps the goroutine stacks of a stuck pair next to the case file.
func dumpStacks(cfg *RunCfg, i int) {
	buf := make([]byte, 1<<22)
	n := runtime.Stack(buf, true)
	ioutil.WriteFile(filepath.Join(cfg.Out, fmt.Sprintf("stuck-%d.txt", i)), buf[:n], 0o644)
}

func clip(b []byte) []byte {
	if len(b) > 32 {
		return b[:32]
	}
	return b
}

func parseAccept(s string) (byte, bool) {
	if len(s) == 0 || len(s) > 3 {
		return 0, false
	}
	var n int
	for _, ch := range s {
		if ch < '0' || ch > '9' {
			return 0, false
		}
		n = n*10 + int(ch-'0')
	}
	if n > 255 || n == 0 {
		return 0, false
	}
	return byte(n), true
}

// checkReplyMeta: the proxied reply carries exactly the backend's keys, one value per key, and
// that value is one the backend sent for the key (equal to the direct one when it sent one).
func checkReplyMeta(st *Stats, i int, h string, d, p [][2]string) {
	dv := map[string][]string{}
	for _, kv := range d {
		dv[kv[0]] = append(dv[kv[0]], kv[1])
	}
	pv := map[string][]string{}
	for _, kv := range p {
		pv[kv[0]] = append(pv[kv[0]], kv[1])
	}
	for k, vs := range pv {
		if len(vs) != 1 {
			st.Fail(i, "reply-meta", fmt.Sprintf("reply metadata key %q has %d values via proxy", k, len(vs)), h)
		}
		ok := false
		for _, v := range dv[k] {
			if v == vs[0] {
				ok = true
			}
		}
		if !ok {
			st.Fail(i, "reply-meta", fmt.Sprintf("reply metadata %q=%q via proxy was not sent by the backend (%q)", k, vs[0], dv[k]), h)
		}
	}
	for k := range dv {
		if _, ok := pv[k]; !ok {
			st.Fail(i, "reply-meta", fmt.Sprintf("reply metadata key %q lost via proxy", k), h)
		}
	}
}

// checkSeen: the backend handler saw the same body, codec and metadata; the real IP entry is
// added exactly when the caller sent none (an empty value counts as none).
func checkSeen(st *Stats, i int, h string, c *reqCase, d, p *obs) {
	if (d.seen == nil) != (p.seen == nil) {
		st.Fail(i, "invocations", "handler ran in only one of the two runs", h)
		return
	}
	if d.seen == nil {
		return
	}
	if !bytes.Equal(d.seen.body, p.seen.body) {
		st.Fail(i, "forwarded-body", "backend saw different body bytes via proxy", h)
	}
	if d.seen.codec != p.seen.codec {
		st.Fail(i, "forwarded-codec", fmt.Sprintf("backend saw codec %#02x via proxy, %#02x directly", p.seen.codec, d.seen.codec), h)
	}
	firstIP, hasIP := "", false
	for _, kv := range c.meta {
		if kv[0] == erpc.MetaRealIP {
			firstIP, hasIP = kv[1], true
			break
		}
	}
	want := append([][2]string(nil), d.seen.meta...)
	if !hasIP {
		want = append(want, [2]string{erpc.MetaRealIP, "CALLER"})
	} else if firstIP == "" {
		for j := range want {
			if want[j][0] == erpc.MetaRealIP {
				want[j][1] = "CALLER"
				break
			}
		}
	}
	if metaVal(want) != metaVal(p.seen.meta) {
		key := "forwarded-meta"
		if countKey(p.seen.meta, erpc.MetaRealIP) != countKey(want, erpc.MetaRealIP) {
			key = "real-ip"
		}
		st.Fail(i, key, fmt.Sprintf("backend saw metadata %q via proxy, expected %q", normMeta(p.seen.meta), normMeta(want)), h)
	}
	if names.norm(d.seen.realIP) != names.norm(p.seen.realIP) {
		st.Fail(i, "real-ip", fmt.Sprintf("backend RealIP() %q via proxy, %q directly", names.norm(p.seen.realIP), names.norm(d.seen.realIP)), h)
	}
}

func countKey(m [][2]string, k string) int {
	n := 0
	for _, kv := range m {
		if kv[0] == k {
			n++
		}
	}
	return n
}

func normMeta(m [][2]string) [][2]string {
	o := make([][2]string, len(m))
	for i, kv := range m {
		o[i] = [2]string{kv[0], names.norm(kv[1])}
	}
	return o
}
