// c15 checks that the predefined (package-level) statuses of the framework and of its
// shipped plugins never change, and that the (code,msg,cause) reported for a given failure
// does not depend on what the process did before.
//
// One process hosts a backend peer (ignorecase, heartbeat pong, overloader, secure, two
// binder-validated routes), a proxy peer (plugin/proxy forwarding to the backend), an
// auth-checked peer and several client peers. A case is one random history of operations
// followed by a fixed probe set of failing operations. After every operation all predefined
// statuses are rendered through erpc.VerifSentinels() (plus auth.MultiSendErr/MultiRecvErr and
// the harness's own status shared by a binder ErrorFunc).
//
// Oracle (implementation only): every predefined status renders as it did when the process
// started; every probe reports the triple it reported when the process started; every status
// pointer handed to the application renders at the end of the history as it did when handed
// out. After a failing history the statuses are restored so that histories stay independent.
package main

import (
	"context"
	"fmt"
	"net"
	"net/http"
	"regexp"
	"sort"
	"strings"
	"sync"
	"sync/atomic"
	"time"

	. "verifharness/hlib"

	erpc "github.com/henrylee2cn/erpc/v6"
	ws "github.com/henrylee2cn/erpc/v6/mixer/websocket"
	"github.com/henrylee2cn/erpc/v6/plugin/auth"
	"github.com/henrylee2cn/erpc/v6/plugin/binder"
	"github.com/henrylee2cn/erpc/v6/plugin/heartbeat"
	"github.com/henrylee2cn/erpc/v6/plugin/ignorecase"
	"github.com/henrylee2cn/erpc/v6/plugin/overloader"
	"github.com/henrylee2cn/erpc/v6/plugin/proxy"
	"github.com/henrylee2cn/erpc/v6/plugin/secure"
	"github.com/henrylee2cn/erpc/v6/proto/httproto"
	"github.com/henrylee2cn/erpc/v6/proto/jsonproto"
	"github.com/henrylee2cn/erpc/v6/proto/pbproto"
	"github.com/henrylee2cn/erpc/v6/socket"
)

const longWait = 10 * time.Second

// ---------------------------------------------------------------- rendering

type triple struct {
	nil_     bool
	code     int32
	msg      string
	hasCause bool
	cause    string
}

var addrRe = regexp.MustCompile(`(127\.0\.0\.1|\[::1\]|localhost):\d+`)

// tripleOf reads the three stored fields: EncodeQuery writes `msg` only when the field is
// non-empty and `cause` only when the error is non-nil, which is exactly the stored state.
func tripleOf(s *erpc.Status) triple {
	if s == nil {
		return triple{nil_: true}
	}
	q := string(s.EncodeQuery())
	t := triple{code: s.Code()}
	if strings.Contains(q, "&msg=") {
		t.msg = s.Msg()
	}
	if strings.Contains(q, "&cause=") {
		t.hasCause = true
		t.cause = addrRe.ReplaceAllString(s.Cause().Error(), "ADDR")
	}
	return t
}

func (t triple) val() string {
	if t.nil_ {
		return VS("nil")
	}
	return VL(VZ(int64(t.code)), VB([]byte(t.msg)), VOpt([]byte(t.cause), t.hasCause))
}

func (t triple) String() string {
	if t.nil_ {
		return "<nil>"
	}
	c := "<nil>"
	if t.hasCause {
		c = fmt.Sprintf("%q", t.cause)
	}
	return fmt.Sprintf("(%d,%q,%s)", t.code, t.msg, c)
}

// ---------------------------------------------------------------- shared statuses under watch

type shared struct {
	pkg, name string
	p         *erpc.Status
	base      triple
	baseErr   error // the original cause value, for restoring
}

var (
	watch     []*shared
	byPointer = map[*erpc.Status]*shared{}
	// the status a user-supplied binder ErrorFunc hands out on every failure
	bindShared = erpc.NewStatus(4000, "shared invalid parameter", "shared-cause")
)

func setupWatch() {
	for name, p := range erpc.VerifSentinels() {
		watch = append(watch, &shared{pkg: "", name: name, p: p})
	}
	for name, p := range ws.VerifSentinels() {
		watch = append(watch, &shared{pkg: "mixer/websocket", name: name, p: p})
	}
	watch = append(watch,
		&shared{pkg: "plugin/auth", name: "MultiSendErr", p: auth.MultiSendErr},
		&shared{pkg: "plugin/auth", name: "MultiRecvErr", p: auth.MultiRecvErr},
		&shared{pkg: "user", name: "bindShared", p: bindShared},
	)
	sort.Slice(watch, func(i, j int) bool {
		if watch[i].pkg != watch[j].pkg {
			return watch[i].pkg < watch[j].pkg
		}
		return watch[i].name < watch[j].name
	})
	for _, s := range watch {
		s.base = tripleOf(s.p)
		if s.base.hasCause {
			s.baseErr = s.p.Cause()
		}
		byPointer[s.p] = s
	}
}

func snapshot() []triple {
	out := make([]triple, len(watch))
	for i, s := range watch {
		out[i] = tripleOf(s.p)
	}
	return out
}

func restore() {
	for _, s := range watch {
		if tripleOf(s.p) != s.base {
			s.p.SetCode(s.base.code)
			s.p.SetMsg(s.base.msg)
			if s.base.hasCause {
				s.p.SetCause(s.baseErr)
			} else {
				s.p.SetCause(nil)
			}
		}
	}
}

// ---------------------------------------------------------------- handlers

type AddArg struct{ A, B int }

type CustomArg struct {
	Code  int32
	Msg   string
	Cause string
}

var (
	slowEntered = make(chan struct{}, 16)
	slowRelease = make(chan struct{})
	pushSeen    int64
)

type Math struct{ erpc.CallCtx }

func (m *Math) Add(arg *AddArg) (int, *erpc.Status) { return arg.A + arg.B, nil }
func (m *Math) Panic(arg *string) (int, *erpc.Status) {
	panic(*arg)
}
func (m *Math) Custom(arg *CustomArg) (int, *erpc.Status) {
	return 0, erpc.NewStatus(arg.Code, arg.Msg, arg.Cause)
}
func (m *Math) Slow(arg *string) (int, *erpc.Status) {
	slowEntered <- struct{}{}
	<-slowRelease
	return 1, nil
}

type Note struct{ erpc.PushCtx }

func (n *Note) Tell(arg *string) *erpc.Status {
	atomic.AddInt64(&pushSeen, 1)
	return nil
}

type BindArg struct {
	A int `param:"<range:1:10>"`
	B int `param:"<range:1:10><stat:1777:b out of range>"`
	C int `param:"<range:1:10><stat:1888:c out of range>"`
}

type Bind struct{ erpc.CallCtx }

func (b *Bind) Check(arg *BindArg) (int, *erpc.Status) { return arg.A + arg.B + arg.C, nil }

type Bindshared struct{ erpc.CallCtx }

func (b *Bindshared) Check(arg *BindArg) (int, *erpc.Status) { return arg.A + arg.B + arg.C, nil }

// panicHandshake makes mixer/websocket's preHandshake recover a panic
// (statInternalServerError.Copy(p) of that package).
type panicHandshake struct{}

func (panicHandshake) Name() string { return "c15-panic-handshake" }
func (panicHandshake) PreHandshake(r *http.Request) *erpc.Status {
	panic("handshake boom")
}

// ---------------------------------------------------------------- the forwarder seen by plugin/proxy

type fwdResult struct {
	sent *shared // non-nil when the forwarder returned a predefined status object itself
	t    triple  // rendering at the moment the forwarder returned
}

type forwarder struct{ w *world }

func (f forwarder) record(st *erpc.Status) {
	r := fwdResult{t: tripleOf(st)}
	if st != nil {
		r.sent = byPointer[st]
	}
	f.w.fwdRes <- r
}

func (f forwarder) Call(uri string, arg interface{}, result interface{}, setting ...erpc.MessageSetting) erpc.CallCmd {
	cmd := f.w.fwdSess().Call(uri, arg, result, setting...)
	f.record(cmd.Status())
	return cmd
}

func (f forwarder) Push(uri string, arg interface{}, setting ...erpc.MessageSetting) *erpc.Status {
	st := f.w.fwdSess().Push(uri, arg, setting...)
	f.record(st)
	return st
}

// ---------------------------------------------------------------- world

type world struct {
	backend, proxyP, authP       erpc.Peer
	bl, pl, al                   *Listener
	cli, plainCli, fwdCli        erpc.Peer
	authGood, authBad, authMulti erpc.Peer
	mu                           sync.Mutex
	fwd                          erpc.Session
	direct, viaProxy             erpc.Session
	fwdRes                       chan fwdResult
	protoLis                     map[string]*Listener // backend listeners speaking another protocol
	protoFn                      map[string]erpc.ProtoFunc
	wsAddr                       string // the backend behind the websocket mixer (JSON sub-protocol)
	wsCli                        *ws.Client
	wsPanicCli                   *ws.Client
	wsPanicAddr                  string
	deadAddr                     string
}

const cipherKey = "c15-cipherkey-16"

func newWorld() *world {
	w := &world{fwdRes: make(chan fwdResult, 64)}
	// backend
	w.backend = erpc.NewPeer(erpc.PeerConfig{},
		ignorecase.NewIgnoreCase(),
		heartbeat.NewPong(),
		overloader.New(overloader.LimitConfig{MaxConn: 100000, QPSInterval: time.Second, MaxTotalQPS: 10000000}),
		secure.NewPlugin(1500, cipherKey),
	)
	w.backend.RouteCall(new(Math))
	w.backend.RoutePush(new(Note))
	w.backend.RouteCall(new(Bind), binder.NewStructArgsBinder(nil))
	w.backend.RouteCall(new(Bindshared), binder.NewStructArgsBinder(func(handlerName, paramName, reason string) *erpc.Status {
		return bindShared
	}))
	var err error
	w.bl, err = Listen(w.backend, "")
	Must(err)
	// the same backend behind the other shipped protocols (their Unpack decodes the status)
	w.protoFn = map[string]erpc.ProtoFunc{
		"json": jsonproto.NewJSONProtoFunc(), "pb": pbproto.NewPbProtoFunc(), "http": httproto.NewHTTProtoFunc(),
	}
	w.protoLis = map[string]*Listener{}
	for k, fn := range w.protoFn {
		l, err := Listen(w.backend, "", fn)
		Must(err)
		w.protoLis[k] = l
	}
	// the same backend behind the websocket mixer, and a websocket peer whose handshake plugin panics
	wl, err := net.Listen("tcp", "127.0.0.1:0")
	Must(err)
	w.wsAddr = wl.Addr().String()
	go http.Serve(wl, ws.NewJSONServeHandler(w.backend, nil))
	w.wsCli = ws.NewClient("/", erpc.PeerConfig{})
	wsPanicPeer := erpc.NewPeer(erpc.PeerConfig{}, panicHandshake{})
	wl2, err := net.Listen("tcp", "127.0.0.1:0")
	Must(err)
	w.wsPanicAddr = wl2.Addr().String()
	go http.Serve(wl2, ws.NewJSONServeHandler(wsPanicPeer, nil))
	// proxy
	w.fwdCli = erpc.NewPeer(erpc.PeerConfig{})
	w.proxyP = erpc.NewPeer(erpc.PeerConfig{}, proxy.NewPlugin(func(*proxy.Label) proxy.Forwarder { return forwarder{w} }))
	w.pl, err = Listen(w.proxyP, "")
	Must(err)
	// auth-checked peer
	w.authP = erpc.NewPeer(erpc.PeerConfig{}, auth.NewCheckerPlugin(func(sess auth.Session, fn auth.RecvOnce) (interface{}, *erpc.Status) {
		var tok string
		if stat := fn(&tok); !stat.OK() {
			return nil, stat
		}
		if tok != "good" {
			return nil, erpc.NewStatus(403, "auth fail", "bad token")
		}
		return "welcome", nil
	}))
	w.authP.RouteCall(new(Math))
	w.al, err = Listen(w.authP, "")
	Must(err)
	bearer := func(tok string, twice bool) erpc.Plugin {
		return auth.NewBearerPlugin(func(sess auth.Session, fn auth.SendOnce) *erpc.Status {
			var ret string
			stat := fn(tok, &ret)
			if twice {
				return fn(tok, &ret)
			}
			return stat
		})
	}
	w.authGood = erpc.NewPeer(erpc.PeerConfig{}, bearer("good", false))
	w.authBad = erpc.NewPeer(erpc.PeerConfig{}, bearer("evil", false))
	w.authMulti = erpc.NewPeer(erpc.PeerConfig{}, bearer("good", true))
	// clients
	w.cli = erpc.NewPeer(erpc.PeerConfig{}, secure.NewPlugin(1500, cipherKey), heartbeat.NewPing(1, true))
	w.plainCli = erpc.NewPeer(erpc.PeerConfig{})
	// an address nobody listens on
	l, err := net.Listen("tcp", "127.0.0.1:0")
	Must(err)
	w.deadAddr = l.Addr().String()
	l.Close()
	return w
}

func alive(s erpc.Session) bool { return s != nil && s.Health() }

func (w *world) fwdSess() erpc.Session {
	w.mu.Lock()
	defer w.mu.Unlock()
	return w.fwd
}

// backendUp makes sure the forwarder holds a live session to the backend.
func (w *world) backendUp() {
	w.mu.Lock()
	defer w.mu.Unlock()
	if alive(w.fwd) {
		return
	}
	s, stat := w.fwdCli.Dial(w.bl.Addr)
	if !stat.OK() {
		abort("forwarder dial: %v", stat)
	}
	w.fwd = s
}

// backendDown closes the forwarder's session (it keeps holding the closed session, as the
// proxy example in the repository does).
func (w *world) backendDown() {
	w.backendUp()
	w.mu.Lock()
	s := w.fwd
	w.mu.Unlock()
	s.Close()
}

func (w *world) directSess() erpc.Session {
	if !alive(w.direct) {
		s, stat := w.cli.Dial(w.bl.Addr)
		if !stat.OK() {
			abort("direct dial: %v", stat)
		}
		w.direct = s
	}
	return w.direct
}

func (w *world) proxySess() erpc.Session {
	if !alive(w.viaProxy) {
		s, stat := w.plainCli.Dial(w.pl.Addr)
		if !stat.OK() {
			abort("proxy dial: %v", stat)
		}
		w.viaProxy = s
	}
	return w.viaProxy
}

func (w *world) drainFwd() {
	for {
		select {
		case <-w.fwdRes:
		default:
			return
		}
	}
}

func (w *world) waitFwd() fwdResult {
	select {
	case r := <-w.fwdRes:
		return r
	case <-time.After(longWait):
		abort("the proxy never called its forwarder")
	}
	return fwdResult{}
}

// closeProxySide closes, on the proxy peer, the session whose remote address is the given
// client address; Session.Close waits for the handlers of that session to return.
func (w *world) closeProxySide(clientAddr string) { w.closeServerSide(w.proxyP, clientAddr) }

func (w *world) closeServerSide(peer erpc.Peer, clientAddr string) {
	var target erpc.Session
	WaitUntil(longWait, func() bool {
		peer.RangeSession(func(s erpc.Session) bool {
			if s.RemoteAddr().String() == clientAddr {
				target = s
				return false
			}
			return true
		})
		return target != nil
	})
	if target != nil {
		target.Close()
	}
}

// ---------------------------------------------------------------- operations

// opAbort is raised when an operation cannot even be carried out (a dial to a live listener
// fails, a handler is never entered, ...): with a framework that still works this never
// happens; it is reported as an oracle failure instead of killing the run.
type opAbort struct{ msg string }

func abort(f string, a ...interface{}) { panic(opAbort{fmt.Sprintf(f, a...)}) }

type opResult struct {
	ctorShared string   // non-empty: a public constructor handed out a predefined object
	broken     string   // non-empty: the operation could not be carried out
	kind       string   // model-level operation name
	args       []string // model-level arguments (value syntax)
	obs        triple   // what the application observed
	held       *erpc.Status
	human      string
}

func fwdVal(r fwdResult) string {
	if r.t.nil_ {
		return VS("ok")
	}
	if r.sent != nil {
		return VL(VS("sent"), VS(r.sent.pkg), VS(r.sent.name))
	}
	return VL(VS("obj"), r.t.val())
}

var opKinds = []string{
	"call_ok", "call_ok_secure", "call_404", "call_badbody", "call_panic", "call_custom",
	"call_404_json", "call_404_pb", "call_404_http", "call_panic_json", "call_panic_pb", "call_panic_http",
	"call_404_ws", "call_panic_ws", "ws_handshake_panic", "push_404", "app_custom",
	"closed_call", "closed_push", "dial_fail", "mtype_405", "unprepared", "write_failed",
	"proxy_call_up", "proxy_call_up_404", "proxy_call_up_panic", "proxy_call_up_1xx", "proxy_push_up",
	"proxy_call_down", "proxy_push_down", "proxy_call_dying",
	"binder_a", "binder_b", "binder_c", "bindshared_a", "bindshared_b", "bindshared_c",
	"auth_ok", "auth_fail", "auth_multi", "secure_fail",
}

var opWeights = map[string]int{
	"proxy_call_down": 3, "proxy_push_down": 3, "proxy_call_dying": 2, "closed_call": 2, "closed_push": 2,
	"bindshared_b": 2, "bindshared_c": 2, "app_custom": 3,
}

func (w *world) closedSession() erpc.Session {
	s, stat := w.plainCli.Dial(w.bl.Addr)
	if !stat.OK() {
		abort("dial: %v", stat)
	}
	s.Close()
	return s
}

func (w *world) run(kind string, cfg *RunCfg, tag string) (r opResult) {
	r = opResult{kind: kind}
	defer func() {
		if p := recover(); p != nil {
			a, ok := p.(opAbort)
			if !ok {
				panic(p)
			}
			r.broken = a.msg
			r.human = kind
			r.obs = triple{nil_: true}
			r.held = nil
		}
	}()
	var res int
	switch kind {
	case "call_ok":
		st := w.directSess().Call("/Math/Add", &AddArg{A: 1, B: 2}, &res).Status()
		r.obs, r.held = tripleOf(st), st
	case "call_ok_secure":
		st := w.directSess().Call("/math/add", &AddArg{A: 3, B: 4}, &res, secure.WithSecureMeta()).Status()
		r.kind = "call_ok"
		r.obs, r.held = tripleOf(st), st
	case "call_404":
		st := w.directSess().Call("/nobody/home", &AddArg{}, &res).Status()
		r.obs, r.held = tripleOf(st), st
	case "call_badbody":
		st := w.directSess().Call("/math/add", []byte("{bad json"+tag), &res, erpc.WithBodyCodec('j')).Status()
		r.obs, r.held = tripleOf(st), st
		r.args = []string{VB([]byte(r.obs.cause))} // the decoder's text is library behaviour
	case "call_panic":
		cause := "boom-" + tag
		st := w.directSess().Call("/math/panic", &cause, &res).Status()
		r.obs, r.held = tripleOf(st), st
		r.args = []string{VB([]byte(cause))}
	case "call_custom":
		a := CustomArg{Code: int32(1000 + cfg.Rng.Intn(5000)), Msg: "custom " + tag, Cause: "because " + tag}
		if cfg.Rng.Intn(4) == 0 {
			a.Code = int32(100 + cfg.Rng.Intn(100)) // a handler may use the 1xx range too
		}
		st := w.directSess().Call("/math/custom", &a, &res).Status()
		r.obs, r.held = tripleOf(st), st
		r.args = []string{VZ(int64(a.Code)), VB([]byte(a.Msg)), VB([]byte(a.Cause))}
	case "call_404_json", "call_404_pb", "call_404_http", "call_panic_json", "call_panic_pb", "call_panic_http":
		pk := kind[strings.LastIndex(kind, "_")+1:]
		s, stat := w.plainCli.Dial(w.protoLis[pk].Addr, w.protoFn[pk])
		if !stat.OK() {
			abort("dial %s: %v", pk, stat)
		}
		var st *erpc.Status
		if strings.HasPrefix(kind, "call_404") {
			st = s.Call("/nobody/home", &AddArg{}, &res).Status()
			r.kind = "call_404"
			if pk == "http" {
				r.kind = "call_404_http" // JSON form of the status on the wire
			}
		} else {
			cause := "boom-" + pk + "-" + tag
			st = s.Call("/math/panic", &cause, &res).Status()
			r.kind = "call_panic"
			if pk == "http" {
				r.kind = "call_panic_http"
			}
			r.args = []string{VB([]byte(cause))}
		}
		s.Close()
		r.obs, r.held = tripleOf(st), st
		r.human = kind
	case "call_404_ws", "call_panic_ws":
		s, stat := w.wsCli.DialJSON(w.wsAddr)
		if !stat.OK() {
			abort("websocket dial: %v", stat)
		}
		var st *erpc.Status
		if kind == "call_404_ws" {
			st = s.Call("/nobody/home", &AddArg{}, &res).Status()
			r.kind = "call_404"
		} else {
			cause := "boom-ws-" + tag
			st = s.Call("/math/panic", &cause, &res).Status()
			r.kind = "call_panic"
			r.args = []string{VB([]byte(cause))}
		}
		s.Close()
		r.obs, r.held = tripleOf(st), st
		r.human = kind
	case "ws_handshake_panic":
		// the server's handshake plugin panics; the client's upgrade fails and Dial reports it
		_, st := w.wsCli.DialJSON(w.wsPanicAddr)
		r.obs, r.held = tripleOf(st), st
		r.kind = "dial_fail"
		r.args = []string{VB([]byte(r.obs.cause))}
		r.human = kind
	case "closed_call":
		st := w.closedSession().Call("/math/add", &AddArg{}, &res).Status()
		r.obs, r.held = tripleOf(st), st
	case "closed_push":
		st := w.closedSession().Push("/note/tell", "x")
		r.obs, r.held = tripleOf(st), st
	case "dial_fail":
		_, st := w.plainCli.Dial(w.deadAddr)
		r.obs, r.held = tripleOf(st), st
		r.args = []string{VB([]byte(r.obs.cause))} // the operating system's text
	case "mtype_405":
		c, err := net.Dial("tcp", w.bl.Addr)
		Must(err)
		raw := NewRawPeer(c)
		Must(raw.Send(socket.WithBody([]byte("x")), func(m socket.Message) {
			m.SetMtype(9)
			m.SetSeq(1)
			m.SetServiceMethod("/math/add")
			m.SetBodyCodec('j')
		}))
		// the server answers by closing the connection
		_, rerr := raw.Recv(longWait)
		if rerr == nil {
			r.human = "server answered an unsupported message type"
		}
		c.Close()
		r.obs = triple{nil_: true}
	case "push_404":
		// a PUSH nobody handles: the serving side only logs statNotFound
		s, stat := w.plainCli.Dial(w.bl.Addr)
		if !stat.OK() {
			abort("dial: %v", stat)
		}
		st := s.Push("/nobody/listens", "p"+tag)
		// a CALL on the same session is read after the PUSH; Close then waits for both handlers
		s.Call("/math/add", &AddArg{A: 1, B: 1}, &res)
		w.closeServerSide(w.backend, s.LocalAddr().String())
		s.Close()
		r.obs, r.held = tripleOf(st), st
	case "app_custom":
		// application code creates a status of its own through a public constructor and
		// annotates it, as it is entitled to
		codes := []int32{erpc.CodeUnknownError, erpc.CodeInvalidOp, erpc.CodeWrongConn, erpc.CodeConnClosed,
			erpc.CodeWriteFailed, erpc.CodeDialFailed, erpc.CodeBadMessage, erpc.CodeUnauthorized, erpc.CodeNotFound,
			erpc.CodeMtypeNotAllowed, erpc.CodeHandleTimeout, erpc.CodeInternalServerError, erpc.CodeBadGateway}
		code := codes[cfg.Rng.Intn(len(codes))]
		var st *erpc.Status
		how := cfg.Rng.Intn(8)
		switch how {
		case 0:
			st = erpc.NewStatusByCodeText(code, nil, false)
		case 1:
			st = erpc.NewStatusByCodeText(code, "", false)
		case 2:
			st = erpc.NewStatusByCodeText(code, nil, true)
		case 3:
			st = erpc.NewStatus(code, erpc.CodeText(code), nil)
		case 4:
			st = erpc.NewStatusWithStack(code, erpc.CodeText(code), "")
		case 5:
			st = erpc.NewStatusFromQuery(erpc.NewStatus(code, erpc.CodeText(code), "").EncodeQuery(), false)
		case 6:
			st = socket.NewStatus(code, erpc.CodeText(code), nil)
		default:
			// Copy of a status an API handed out (here: what a closed session returns)
			st = w.closedSession().Push("/note/tell", "x").Copy(nil)
		}
		base := tripleOf(st)
		r.human = fmt.Sprintf("app_custom/%d", how)
		if sh := byPointer[st]; sh != nil {
			r.ctorShared = fmt.Sprintf("public constructor variant %d for code %d returned the predefined %s/%s object itself", how, code, sh.pkg, sh.name)
		}
		st.SetMsg("app text " + tag)
		st.SetCause("app cause " + tag)
		if cfg.Rng.Intn(3) == 0 {
			st.SetCode(7000 + int32(cfg.Rng.Intn(100)))
		}
		r.obs, r.held = tripleOf(st), st
		r.args = []string{base.val(), r.obs.val()}
	case "unprepared":
		st := w.directSess().(erpc.PreSession).PreSend(erpc.TypePush, "/note/tell", "x", nil)
		r.obs, r.held = tripleOf(st), st
	case "write_failed":
		ctx, cancel := context.WithCancel(context.Background())
		cancel()
		st := w.directSess().Call("/math/add", &AddArg{}, &res, erpc.WithContext(ctx)).Status()
		r.obs, r.held = tripleOf(st), st
	case "proxy_call_up", "proxy_call_up_404", "proxy_call_up_panic", "proxy_call_up_1xx", "proxy_call_down", "proxy_call_dying":
		if kind == "proxy_call_down" {
			w.backendDown()
		} else {
			w.backendUp()
		}
		w.drainFwd()
		var st *erpc.Status
		switch kind {
		case "proxy_call_up", "proxy_call_down":
			st = w.proxySess().Call("/math/add", &AddArg{A: 5, B: 6}, &res).Status()
		case "proxy_call_up_404":
			st = w.proxySess().Call("/nobody/home", &AddArg{}, &res).Status()
		case "proxy_call_up_panic":
			cause := "pboom-" + tag
			st = w.proxySess().Call("/math/panic", &cause, &res).Status()
		case "proxy_call_up_1xx":
			a := CustomArg{Code: int32(100 + cfg.Rng.Intn(100)), Msg: "backend says " + tag, Cause: "why " + tag}
			st = w.proxySess().Call("/math/custom", &a, &res).Status()
		case "proxy_call_dying":
			cmd := w.proxySess().AsyncCall("/math/slow", "s", &res, make(chan erpc.CallCmd, 1))
			select {
			case <-slowEntered:
			case <-time.After(longWait):
				abort("slow handler never entered")
			}
			w.bl.KillConns() // the backend drops every connection while the call is pending
			<-cmd.Done()
			// the direct client session was cut as well; it may not have noticed yet
			if w.direct != nil {
				w.direct.Close()
				w.direct = nil
			}
			st = cmd.Status()
			slowRelease <- struct{}{}
		}
		fr := w.waitFwd()
		r.obs, r.held = tripleOf(st), st
		if r.obs.code == erpc.CodeInternalServerError && strings.Contains(r.obs.cause, "nil pointer") {
			// plugin/proxy dereferences the (absent) reply meta before it looks at the
			// status: the handler panics and the framework answers 500 (see C19).
			r.kind = "proxy_call_panicked"
			r.args = []string{fwdVal(fr), VB([]byte(r.obs.cause))}
		} else {
			r.kind = "proxy_call"
			r.args = []string{fwdVal(fr)}
		}
		r.human = kind
	case "proxy_push_up", "proxy_push_down":
		if kind == "proxy_push_down" {
			w.backendDown()
		} else {
			w.backendUp()
		}
		w.drainFwd()
		s, stat := w.plainCli.Dial(w.pl.Addr)
		if !stat.OK() {
			abort("proxy dial: %v", stat)
		}
		st := s.Push("/note/tell", "p"+tag)
		fr := w.waitFwd()
		w.closeProxySide(s.LocalAddr().String()) // returns after the proxy's push handler returned
		s.Close()
		r.kind = "proxy_push"
		r.args = []string{fwdVal(fr)}
		r.obs, r.held = tripleOf(st), st
		r.human = kind
	case "binder_a", "binder_b", "binder_c", "bindshared_a", "bindshared_b", "bindshared_c":
		arg := BindArg{A: 1, B: 1, C: 1}
		switch kind[len(kind)-1] {
		case 'a':
			arg.A = 99
		case 'b':
			arg.B = 99
		case 'c':
			arg.C = 99
		}
		path := "/bind/check"
		sharedFn := strings.HasPrefix(kind, "bindshared")
		if sharedFn {
			path = "/bindshared/check"
		}
		st := w.directSess().Call(path, &arg, &res).Status()
		r.obs, r.held = tripleOf(st), st
		r.kind = "binder"
		r.args = []string{VBool(sharedFn), VS(kind[len(kind)-1:]), VB([]byte(r.obs.cause))}
		r.human = kind
	case "auth_ok":
		s, st := w.authGood.Dial(w.al.Addr)
		if st.OK() {
			st = s.Call("/math/add", &AddArg{A: 1, B: 1}, &res).Status()
			s.Close()
		}
		r.kind = "call_ok"
		r.obs, r.held = tripleOf(st), st
	case "auth_fail":
		_, st := w.authBad.Dial(w.al.Addr)
		r.obs, r.held = tripleOf(st), st
	case "auth_multi":
		_, st := w.authMulti.Dial(w.al.Addr)
		r.obs, r.held = tripleOf(st), st
	case "secure_fail":
		// a client without the secure plugin claims an encrypted body
		s, stat := w.plainCli.Dial(w.bl.Addr)
		if !stat.OK() {
			abort("dial: %v", stat)
		}
		st := s.Call("/math/add", []byte(`{"cipherversion":"bogus-`+tag+`","ciphertext":"00"}`), &res,
			erpc.WithBodyCodec('j'), secure.WithSecureMeta()).Status()
		s.Close()
		r.obs, r.held = tripleOf(st), st
		r.args = []string{r.obs.val()} // the plugin's own fresh status
	default:
		Must(fmt.Errorf("unknown op %s", kind))
	}
	if r.human == "" {
		r.human = kind
	}
	return r
}

// the fixed set of failing operations evaluated at process start and after every history
var probeSet = []string{
	"call_404", "closed_call", "closed_push", "dial_fail", "call_panic", "call_badbody", "unprepared",
	"write_failed", "binder_a", "bindshared_a", "auth_fail", "auth_multi", "proxy_call_down",
}

func pickOp(cfg *RunCfg) string {
	total := 0
	for _, k := range opKinds {
		total += 1 + opWeights[k]
	}
	x := cfg.Rng.Intn(total)
	for _, k := range opKinds {
		x -= 1 + opWeights[k]
		if x < 0 {
			return k
		}
	}
	return opKinds[0]
}

func main() {
	cfg := ParseFlags()
	Quiet()
	setupWatch()
	w := newWorld()
	st := NewStats("C15", cfg)
	st.Rule = "case = random history (2..12 operations drawn from " + fmt.Sprint(len(opKinds)) + " kinds: ok/404/400/500/custom calls, closed-session call and push, dial failure, unsupported message type, PreSend outside its phase, cancelled write, proxied call/push with the backend up, down or dying mid-call, binder failures with the default and with a status-sharing ErrorFunc, auth ok/fail/misuse, secure failure) followed by the fixed probe set of " + fmt.Sprint(len(probeSet)) + " failing operations; distinct by the sequence of operation kinds; non-trivial = history contains at least one failing operation"
	cw := NewCaseWriter(cfg)
	distinct := DistinctSet{}

	// baseline: the probe set on the pristine process
	broken := 0
	baseProbe := map[string]triple{}
	base := snapshot()
	for _, k := range probeSet {
		r := w.run(k, cfg, "probe")
		if r.broken != "" {
			broken++
			st.Fail(-1, "operation-broken", fmt.Sprintf("probe %s could not be carried out on a fresh process: %s", k, r.broken), "probe set")
		}
		baseProbe[k] = r.obs
	}
	after := snapshot()
	for i := range watch {
		if after[i] != base[i] {
			st.Fail(-1, classKey("probe", watch[i]), fmt.Sprintf("%s/%s changed from %v to %v while the probe set ran on a fresh process", watch[i].pkg, watch[i].name, base[i], after[i]), "probe set")
		}
	}
	restore()
	var names []string
	for _, s := range watch {
		names = append(names, VL(VS(s.pkg), VS(s.name)))
	}

	for i := 0; i < cfg.N; i++ {
		n := 2 + cfg.Rng.Intn(11)
		var results []opResult
		var kinds []string
		rootKey, rootUser := "", ""
		caseBroken := false
		keyFor := func(op, dflt string) string {
			if strings.HasPrefix(op, "bind") {
				if rootUser != "" {
					return rootUser
				}
				return dflt
			}
			if rootKey != "" {
				return rootKey
			}
			return dflt
		}
		prev := snapshot()
		failing := false
		step := func(k, tag string, probe bool) {
			r := w.run(k, cfg, tag)
			if r.broken != "" {
				broken++
				caseBroken = true
				st.Fail(i, "operation-broken", fmt.Sprintf("operation %s could not be carried out: %s", k, r.broken), strings.Join(kinds, " "))
			}
			if r.ctorShared != "" {
				st.Fail(i, "constructor-returns-shared", r.ctorShared, strings.Join(kinds, " "))
			}
			results = append(results, r)
			if probe {
				kinds = append(kinds, "?"+k)
			} else {
				kinds = append(kinds, k)
				st.Count("op:" + k)
				st.Count("model-op:" + r.kind)
				if !r.obs.nil_ {
					failing = true
				}
			}
			now := snapshot()
			for j := range watch {
				if now[j] != prev[j] {
					key := classKey(r.human, watch[j])
					if watch[j].pkg == "user" {
						if rootUser == "" {
							rootUser = key
						}
					} else if rootKey == "" {
						rootKey = key
					}
					st.Fail(i, key, fmt.Sprintf("predefined status %s/%s changed from %v to %v during operation %s", watch[j].pkg, watch[j].name, prev[j], now[j], r.human), strings.Join(kinds, " "))
				}
			}
			prev = now
			if probe {
				if want := baseProbe[k]; r.obs != want {
					key := keyFor(k, "failure-triple-changed")
					st.Fail(i, key, fmt.Sprintf("failing operation %s reports %v after this history; on a fresh process it reports %v", k, r.obs, want), strings.Join(kinds, " "))
				}
			}
		}
		for j := 0; j < n; j++ {
			step(pickOp(cfg), fmt.Sprintf("%d-%d", i, j), false)
		}
		for _, k := range probeSet {
			step(k, "probe", true)
		}
		// statuses handed to the application must still read as they did
		var heldVals []string
		for _, r := range results {
			if r.held == nil {
				continue
			}
			now := tripleOf(r.held)
			heldVals = append(heldVals, now.val())
			if now != r.obs {
				key := keyFor(r.human, "held-status-changed")
				st.Fail(i, key, fmt.Sprintf("the status returned by %s read %v when returned and reads %v at the end of the history", r.human, r.obs, now), strings.Join(kinds, " "))
			}
		}
		final := snapshot()
		var ops, obs, snap []string
		for _, r := range results {
			ops = append(ops, VL(append([]string{VS(r.kind)}, r.args...)...))
			obs = append(obs, r.obs.val())
		}
		for _, t := range final {
			snap = append(snap, t.val())
		}
		if !caseBroken {
			cw.Add(VL(VL(ops...), VL(names...)), VL(VL(obs...), VL(heldVals...), VL(snap...)))
		}
		restore()
		if broken >= 3 {
			st.Evaluations = i + 1
			st.DistinctNontrivial = len(distinct)
			st.Write(cfg, cw)
			return
		}
		if failing {
			distinct.Add(strings.Join(kinds[:n], " "))
		}
		st.Count(fmt.Sprintf("history-length:%02d", n))
		if len(st.Samples) < 5 {
			st.Samples = append(st.Samples, strings.Join(kinds[:n], " "))
		}
	}
	st.Evaluations = cfg.N
	st.DistinctNontrivial = len(distinct)
	st.Extra = map[string]interface{}{"watched_statuses": len(watch), "probe_set": probeSet}
	st.Write(cfg, cw)
}

// classKey names the failure class: which component altered which kind of shared status
// (plugin/proxy's rewrite is recognised by the Bad Gateway code it stores).
func classKey(op string, s *shared) string {
	switch {
	case strings.HasPrefix(op, "app_custom") && s.pkg != "user":
		return "constructor-returns-shared"
	case strings.HasPrefix(op, "proxy") && s.pkg != "user" && s.p.Code() == erpc.CodeBadGateway:
		return "proxy-mutates-sentinel"
	case s.pkg == "user":
		return "binder-mutates-errfunc-status"
	default:
		return "sentinel-mutated"
	}
}
