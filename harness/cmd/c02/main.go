// c02 drives one client session against a scripted server; -proto raw (default) or http.
package main

import (
	"fmt"
	"strings"

	"verifharness/c02eng"

	erpc "github.com/henrylee2cn/erpc/v6"
	"github.com/henrylee2cn/erpc/v6/proto/httproto"
	"github.com/henrylee2cn/erpc/v6/socket"
	"github.com/henrylee2cn/erpc/v6/xfer/gzip"
)

func rawFamily() *c02eng.Family {
	var cls [][2]string
	for _, c := range []string{"ok", "ok", "ok", "remote", "undec", "undec0", "hook", "panic"} {
		cls = append(cls, [2]string{c, c})
	}
	return &c02eng.Family{
		Name:      "raw",
		NewResult: func() interface{} { return new(string) },
		ResultOK:  func(r interface{}) bool { return *(r.(*string)) == "r" },
		Reply: func(seq int32, c string) []byte {
			return c02eng.FrameBytes(nil, c02eng.RawReplySettings(seq, c)...)
		},
		Classes: cls,
		Bad:     [][]byte{{0, 0, 0, 2, 0, 0}, {0, 0, 0, 9, 0, 0xff, 0xff, 0xff, 0xff}, {0, 0, 0, 6, 200, 1}},
		Arg:     "x",
		Relay: func() []byte {
			return c02eng.FrameBytes(nil, func(m socket.Message) {
				m.SetMtype(erpc.TypePush)
				m.SetSeq(88)
				m.SetServiceMethod("/relay/go")
				m.SetBodyCodec('j')
				m.SetBody([]byte(`"x"`))
			})
		},
		Other: func() []byte {
			return c02eng.FrameBytes(nil, func(m socket.Message) { m.SetMtype(9); m.SetSeq(77); m.SetServiceMethod("/x") })
		},
	}
}

// ---- HTTP-style protocol: every response is written by hand ----

func httpResp(code string, seq int32, headers []string, body string) []byte {
	var b strings.Builder
	b.WriteString("HTTP/1.1 " + code + "\r\n")
	for _, h := range headers {
		b.WriteString(h + "\r\n")
	}
	b.WriteString(fmt.Sprintf("X-Mtype: 2\r\nX-Seq: %d\r\n\r\n", seq))
	b.WriteString(body)
	return []byte(b.String())
}

func cl(n int) string { return fmt.Sprintf("Content-Length: %d", n) }

const ctJSON = "Content-Type: application/json;charset=utf-8"

func httpFamily() *c02eng.Family {
	gzip.Reg('g', "gzip", 5)
	goodStatus := `{"code":500,"msg":"boom","cause":"c"}`
	cutStatus := `{"code":500,"msg":"bo`
	reply := func(seq int32, c string) []byte {
		switch c {
		case "200":
			return httpResp("200 OK", seq, []string{cl(3), ctJSON}, `"r"`)
		case "299-status":
			return httpResp("299 Business Error", seq, []string{cl(len(goodStatus)), ctJSON}, goodStatus)
		case "299-truncated-status":
			return httpResp("299 Business Error", seq, []string{cl(len(cutStatus)), ctJSON}, cutStatus)
		case "299-truncated-status-no-content-type":
			return httpResp("299 Business Error", seq, []string{cl(len(cutStatus))}, cutStatus)
		case "200-undecodable-body":
			return httpResp("200 OK", seq, []string{cl(3), ctJSON}, `{{{`)
		case "200-no-content-type":
			return httpResp("200 OK", seq, []string{cl(3)}, `zzz`)
		case "200-hook":
			return httpResp("200 OK", seq, []string{cl(3), ctJSON, "x-verif: hook"}, `"r"`)
		case "200-panic":
			return httpResp("200 OK", seq, []string{cl(3), ctJSON, "x-verif: panic"}, `"r"`)
		case "200-bad-gzip-body":
			// the body cannot be inflated: on HEAD xfer/gzip.OnUnpack dereferences a nil reader in its
			// deferred Close (recovered by the read loop): the session disconnects before the frame is bound
			return httpResp("200 OK", seq, []string{cl(5), ctJSON, "X-Content-Encoding: gzip"}, `zzzzz`)
		case "bad-content-length":
			return httpResp("200 OK", seq, []string{"Content-Length: abc", ctJSON}, `"r"`)
		case "unknown-content-encoding":
			return httpResp("200 OK", seq, []string{cl(3), "X-Content-Encoding: nosuchfilter", ctJSON}, `"r"`)
		case "unsupported-status-code":
			return httpResp("404 Not Found", seq, []string{cl(3), ctJSON}, `"r"`)
		}
		panic("class " + c)
	}
	return &c02eng.Family{
		Name:      "http",
		Proto:     httproto.NewHTTProtoFunc(),
		NewResult: func() interface{} { return new(string) },
		ResultOK:  func(r interface{}) bool { return *(r.(*string)) == "r" },
		Reply:     reply,
		Classes: [][2]string{
			{"200", "ok"}, {"200", "ok"}, {"200", "ok"},
			{"299-status", "remote"},
			{"299-truncated-status", "undec"},
			{"299-truncated-status-no-content-type", "undec0"},
			{"200-undecodable-body", "undec"},
			{"200-no-content-type", "undec0"},
			{"200-hook", "hook"}, {"200-panic", "panic"},
			{"200-bad-gzip-body", "bad"},
			{"bad-content-length", "bad"}, {"unknown-content-encoding", "bad"}, {"unsupported-status-code", "bad"},
		},
		Bad:       [][]byte{[]byte("HTTP/1.1 200 OK\r\nno colon here\r\n\r\n"), []byte("GARBAGE\r\n\r\nmore garbage\r\n"), []byte("HTTP/1.1\r\n\r\n\r\n")},
		Arg:       "x",
		OnlyFresh: map[string]string{"299-truncated-status-no-content-type": "299-truncated-status"},
	}
}

func main() {
	p0 := "raw"
	proto := &p0
	_ = erpc.TypeReply
	// flag.Parse happens in the engine (ParseFlags); peek at -proto by hand
	for i, a := range flagArgs() {
		if (a == "-proto" || a == "--proto" || a == "-mode" || a == "--mode") && i+1 < len(flagArgs()) {
			*proto = flagArgs()[i+1]
		}
	}
	if *proto == "http" {
		c02eng.Run(httpFamily())
	} else {
		c02eng.Run(rawFamily())
	}
}

func flagArgs() []string { return osArgs[1:] }
