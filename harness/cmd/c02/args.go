package main

import "os"

var osArgs = os.Args
