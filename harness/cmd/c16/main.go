// c16 drives the accept path of a server peer carrying the auth checker plugin with a
// scripted raw client: every class of first client action x every checker behaviour x
// several splits of the byte stream, with pipelined application frames behind it.
// A second family (first-action class "bearer") dials with the real auth bearer plugin
// against the same server and against a scripted server. Overlap family: two connections pending in
// the checker's read at once. Gated family (gated.go): 2..4 connections under a drawn schedule whose
// checkers are parked between RecvOnce and their verdict.
package main

import (
	"bytes"
	"encoding/binary"
	"flag"
	"fmt"
	"net"
	"sort"
	"strconv"
	"sync"
	"sync/atomic"
	"time"

	. "verifharness/hlib"

	erpc "github.com/henrylee2cn/erpc/v6"
	"github.com/henrylee2cn/erpc/v6/plugin/auth"
	"github.com/henrylee2cn/erpc/v6/socket"
)

const (
	callPath  = "/app/echo"
	pushPath  = "/note/tell"
	sizeLimit = 1 << 16
	nStages   = 16
	longWait  = 8 * time.Second
	settle    = 40 * time.Millisecond
)

// ---- per-connection record (keyed by the client's address = the server session's remote address)

type connRec struct {
	hooks                   [nStages]int
	postAccept              int
	otherBefore, otherAfter int
	fnCalls, fnMulti        int
	ckSaidOK, otherFailed   bool
	disc                    int
	calls                   []int32
	pushes                  []int32
}

var (
	recMu sync.Mutex
	recs  = map[string]*connRec{}
)

func recOf(addr string) *connRec {
	r := recs[addr]
	if r == nil {
		r = &connRec{}
		recs[addr] = r
	}
	return r
}

func hook(addr string, stage int) {
	recMu.Lock()
	recOf(addr).hooks[stage]++
	recMu.Unlock()
}

// recorder implements every per-message stage plus PostAccept / PostDisconnect.
type recorder struct{}

func (recorder) Name() string { return "c16-recorder" }
func (recorder) PostAccept(s erpc.PreSession) *erpc.Status {
	recMu.Lock()
	recOf(s.RemoteAddr().String()).postAccept++
	recMu.Unlock()
	return nil
}
func (recorder) PostDisconnect(s erpc.BaseSession) *erpc.Status {
	recMu.Lock()
	recOf(s.RemoteAddr().String()).disc++
	recMu.Unlock()
	return nil
}
func (recorder) PreReadHeader(c erpc.PreCtx) error { hook(c.IP(), 0); return nil }
func (recorder) PostReadCallHeader(c erpc.ReadCtx) *erpc.Status {
	hook(c.IP(), 1)
	return nil
}
func (recorder) PreReadCallBody(c erpc.ReadCtx) *erpc.Status  { hook(c.IP(), 2); return nil }
func (recorder) PostReadCallBody(c erpc.ReadCtx) *erpc.Status { hook(c.IP(), 3); return nil }
func (recorder) PostReadPushHeader(c erpc.ReadCtx) *erpc.Status {
	hook(c.IP(), 4)
	return nil
}
func (recorder) PreReadPushBody(c erpc.ReadCtx) *erpc.Status  { hook(c.IP(), 5); return nil }
func (recorder) PostReadPushBody(c erpc.ReadCtx) *erpc.Status { hook(c.IP(), 6); return nil }
func (recorder) PostReadReplyHeader(c erpc.ReadCtx) *erpc.Status {
	hook(c.IP(), 7)
	return nil
}
func (recorder) PreReadReplyBody(c erpc.ReadCtx) *erpc.Status  { hook(c.IP(), 8); return nil }
func (recorder) PostReadReplyBody(c erpc.ReadCtx) *erpc.Status { hook(c.IP(), 9); return nil }
func (recorder) PreWriteReply(c erpc.WriteCtx) *erpc.Status    { hook(c.IP(), 10); return nil }
func (recorder) PostWriteReply(c erpc.WriteCtx) *erpc.Status   { hook(c.IP(), 11); return nil }
func (recorder) PreWriteCall(c erpc.WriteCtx) *erpc.Status     { hook(c.IP(), 12); return nil }
func (recorder) PostWriteCall(c erpc.WriteCtx) *erpc.Status    { hook(c.IP(), 13); return nil }
func (recorder) PreWritePush(c erpc.WriteCtx) *erpc.Status     { hook(c.IP(), 14); return nil }
func (recorder) PostWritePush(c erpc.WriteCtx) *erpc.Status    { hook(c.IP(), 15); return nil }

// ---- handlers

type App struct{ erpc.CallCtx }

func (a *App) Echo(arg *[]byte) ([]byte, *erpc.Status) {
	recMu.Lock()
	r := recOf(a.IP())
	r.calls = append(r.calls, a.Seq())
	recMu.Unlock()
	return append([]byte("re:"), (*arg)...), nil
}

type Note struct{ erpc.PushCtx }

func (n *Note) Tell(arg *[]byte) *erpc.Status {
	recMu.Lock()
	r := recOf(n.IP())
	r.pushes = append(r.pushes, n.Seq())
	recMu.Unlock()
	return nil
}

// ---- the checker whose behaviour is set per case

type checkerCfg struct {
	recvs     int    // how many times the checker calls RecvOnce (0,1,2)
	propagate bool   // recvs==2: return the second call's status when it is not OK
	mode      string // verdict on the received info: eq | all | none
	token     []byte
	panicAt   int    // 0 never; 1 the checker function panics at once; 2 it panics after its RecvOnce calls (verify code)
	before    string // a PostAccept plugin registered before the checker: "" absent | ok | reject | panic
	after     string // ... and one registered behind it
	setID     string // "" never | pre: sess.SetID(claimedID) before anything is verified | post: only once the verdict is OK
}

// otherAccept is a second PostAccept plugin; its behaviour is set per case.
type otherAccept struct{ after bool }

func (o otherAccept) Name() string {
	if o.after {
		return "c16-other-after"
	}
	return "c16-other-before"
}

func (o otherAccept) PostAccept(s erpc.PreSession) *erpc.Status {
	b := curCk.before
	if o.after {
		b = curCk.after
	}
	if b == "" {
		return nil
	}
	recMu.Lock()
	if o.after {
		recOf(s.RemoteAddr().String()).otherAfter++
	} else {
		recOf(s.RemoteAddr().String()).otherBefore++
	}
	recMu.Unlock()
	if b != "ok" {
		recMu.Lock()
		recOf(s.RemoteAddr().String()).otherFailed = true
		recMu.Unlock()
	}
	switch b {
	case "reject":
		return erpc.NewStatus(451, "other plugin says no", "")
	case "panic":
		var parts []string
		_ = parts[1] // index out of range, like a verify function that trusts its input
	}
	return nil
}

// curCk is the behaviour of the checker and of the other plugins for the connections of the
// current case. The ground truth of an exchange is recorded per connection by the harness' own
// plugins (connRec.ckSaidOK: the checker function returned (ret, nil); connRec.otherFailed: another
// PostAccept plugin returned a non-OK status or panicked).
var curCk checkerCfg

func bump(addr string, f func(r *connRec)) {
	recMu.Lock()
	f(recOf(addr))
	recMu.Unlock()
}

func verdict(c checkerCfg, info []byte) bool {
	switch c.mode {
	case "all":
		return true
	case "none":
		return false
	}
	return bytes.Equal(info, c.token)
}

var theChecker = auth.NewCheckerPlugin(
	func(sess auth.Session, fn auth.RecvOnce) (interface{}, *erpc.Status) {
		c := curCk
		addr := sess.RemoteAddr().String()
		if g := gateFor(addr); g != nil {
			// gated family (gated.go): behaviour set per connection, checker parked between RecvOnce and its verdict
			return gatedCheck(sess, fn, g)
		}
		var info string
		var s1 *erpc.Status
		if c.panicAt == 1 {
			panic("checker function panics before reading")
		}
		if c.setID == "pre" {
			// names the session after the user it CLAIMS to be, before anything is verified
			sess.SetID(claimedID)
		}
		if c.recvs >= 1 {
			bump(addr, func(r *connRec) { r.fnCalls++ })
			s1 = fn(&info)
		}
		var s2 *erpc.Status
		if c.recvs >= 2 {
			var dummy string
			bump(addr, func(r *connRec) { r.fnCalls++ })
			s2 = fn(&dummy)
			if s2 == auth.MultiRecvErr {
				bump(addr, func(r *connRec) { r.fnMulti++ })
			}
		}
		if c.panicAt == 2 {
			parts := bytes.Split([]byte(info), []byte(":"))
			_ = parts[len(parts)+1] // verify code that indexes past what it was given
		}
		if c.recvs >= 2 && c.propagate && !s2.OK() {
			return nil, s2
		}
		if !s1.OK() {
			return nil, s1
		}
		if !verdict(c, []byte(info)) {
			return nil, erpc.NewStatus(403, "auth fail", "auth fail detail")
		}
		if c.setID == "post" {
			sess.SetID(claimedID)
		}
		bump(addr, func(r *connRec) { r.ckSaidOK = true })
		return "pass", nil
	},
	erpc.WithBodyCodec('s'),
)

// ---- frames

type rawFrame struct {
	seq    string
	mtype  byte
	sm     string
	status []byte
	meta   []byte
	codec  byte
	body   []byte
	// overrides (negative = natural value)
	size, xferLen, seqLen, smLen, statusLen, metaLen int
	cutAfterMeta                                     bool
}

func natural(f rawFrame) rawFrame {
	if f.status == nil {
		f.status = []byte("code=0") // what rawProto.Pack writes for an OK status
	}
	f.size, f.xferLen, f.seqLen, f.smLen, f.statusLen, f.metaLen = -1, -1, -1, -1, -1, -1
	return f
}

func pick(v, nat int) int {
	if v >= 0 {
		return v
	}
	return nat
}

// encode writes the raw protocol layout (socket/protocol.go rawProto.Pack) with overrides.
func encode(f rawFrame) []byte {
	var b []byte
	b = append(b, 0, 0, 0, 0)
	b = append(b, byte(pick(f.xferLen, 0)))
	b = append(b, byte(pick(f.seqLen, len(f.seq))))
	b = append(b, f.seq...)
	b = append(b, f.mtype)
	b = append(b, byte(pick(f.smLen, len(f.sm))))
	b = append(b, f.sm...)
	var l2 [2]byte
	binary.BigEndian.PutUint16(l2[:], uint16(pick(f.statusLen, len(f.status))))
	b = append(b, l2[:]...)
	b = append(b, f.status...)
	binary.BigEndian.PutUint16(l2[:], uint16(pick(f.metaLen, len(f.meta))))
	b = append(b, l2[:]...)
	b = append(b, f.meta...)
	if !f.cutAfterMeta {
		b = append(b, f.codec)
		b = append(b, f.body...)
	}
	binary.BigEndian.PutUint32(b, uint32(len(b)))
	if f.size >= 0 {
		binary.BigEndian.PutUint32(b, uint32(f.size))
	}
	return b
}

type bufConn struct{ bytes.Buffer }

func (*bufConn) Close() error                     { return nil }
func (*bufConn) LocalAddr() net.Addr              { return &net.TCPAddr{} }
func (*bufConn) RemoteAddr() net.Addr             { return &net.TCPAddr{} }
func (*bufConn) SetDeadline(time.Time) error      { return nil }
func (*bufConn) SetReadDeadline(time.Time) error  { return nil }
func (*bufConn) SetWriteDeadline(time.Time) error { return nil }

// realPack builds the same frame with the repository's protocol code.
func realPack(f rawFrame) []byte {
	bc := &bufConn{}
	s := socket.NewSocket(bc)
	m := socket.NewMessage()
	seq, err := strconv.ParseInt(f.seq, 36, 32)
	Must(err)
	m.SetSeq(int32(seq))
	m.SetMtype(f.mtype)
	m.SetServiceMethod(f.sm)
	if len(f.status) > 0 {
		st := new(erpc.Status)
		st.DecodeQuery(f.status)
		m.SetStatus(st)
	}
	if len(f.meta) > 0 {
		m.Meta().ParseBytes(f.meta)
	}
	m.SetBodyCodec(f.codec)
	m.SetBody(f.body)
	Must(s.WriteMessage(m))
	return append([]byte(nil), bc.Bytes()...)
}

func frame(seq int, mtype byte, sm string, codec byte, body []byte) rawFrame {
	return natural(rawFrame{seq: strconv.FormatInt(int64(seq), 36), mtype: mtype, sm: sm, codec: codec, body: body})
}

// needMore mirrors only the length-prefix logic of rawProto.readMessage; it is used as a
// waiting hint (is the server expected to sit in a blocking read?), never as an observation.
func needMore(s []byte) bool {
	if len(s) < 4 {
		return true
	}
	size := int(binary.BigEndian.Uint32(s))
	if size > sizeLimit || size < 4 {
		return false
	}
	if len(s) < 5 {
		return true
	}
	xl := int(s[4])
	if xl > 0 {
		return len(s)-5 < xl
	}
	if size == 4 {
		return false
	}
	return len(s) < size
}

// waitFor is WaitUntil with a budget: once several long waits have expired (the implementation is
// already failing the oracle, e.g. it no longer closes rejected connections) the remaining cases
// wait only briefly, so that a broken tree is reported in minutes instead of hours.
var expired int

func waitFor(cond func() bool) bool {
	d := longWait
	if expired >= 4 {
		d = 300 * time.Millisecond
	}
	ok := WaitUntil(d, cond)
	if !ok {
		expired++
	}
	return ok
}

// ---- one case

type script struct {
	ck        checkerCfg
	chunks    [][]byte
	pauseAt   int    // index of the chunk after which the client waits for the server (-1 none)
	repliesAt int    // index of the chunk after which the client waits for the expected replies (-1 none)
	entry     string // serveconn | listener
	order     string // how the server's plugin chain was configured (serverOrders)
	human     string
	class     string
	split     string
	sufClass  string
	// waiting hints
	expectAccept  bool
	expectReplies int
	expectExit    bool
	// gated family: the info this connection's own auth frame carries (hasOwn: its first frame is a
	// well-formed AUTH_CALL whose info the checker's receiver can decode), and whether it is the right one
	hasOwn   bool
	ownInfo  []byte
	ownRight bool
}

type snapshot struct {
	served  string
	indexed int
	listed  bool
}

type outcome struct {
	mid, fin     snapshot
	eofBefore    bool
	eofAfter     bool
	fnCalls      int
	fnMulti      int
	authReplies  []int // status codes of AUTH_REPLY frames received
	otherFrames  int   // frames that are neither AUTH_REPLY nor REPLY
	replies      [][2]int
	rec          connRec
	recPostAcc   int
	servedInTime bool
	resMid       string // state of the resident session holding claimedID (SetID cases): alive | displaced | ...
	resFin       string
	authOK       bool // the harness' own plugins: checker verdict OK and nobody else in the chain failed
	// gated family: what the checker held right after RecvOnce returned OK, and when it took its verdict
	gated     bool
	infoOK    bool
	atRecv    []byte
	atVerdict []byte
	saidOK    bool // the checker function returned (ret, nil)
}

// server is one server peer (one way of configuring the plugin chain) with its listener address.
type server struct {
	peer       erpc.Peer
	listenAddr string
	order      string
}

const claimedID = "claimed-user"

// liveConn is one scripted client connection to a server, driven in three phases so that two
// connections can be overlapped: open, sendAll (ends with the snapshot before the half-close), finish.
type liveConn struct {
	sv      *server
	sc      *script
	cc      net.Conn
	addr    string
	sessOK  int32
	served  int32
	sess    erpc.Session
	rmu     sync.Mutex
	frames  []socket.Message
	eof     int32
	o       *outcome
	overlap bool         // another connection is alive: look only at this connection's own listing
	res     *liveConn    // the resident session holding claimedID (SetID cases), if any
	resSess erpc.Session // ... its server-side session
	gate    *gateCfg     // gated family: this connection's checker behaviour and gate
	sent    []byte
}

func (l *liveConn) isServed() bool {
	if l.sc.entry == "listener" {
		// no return value to look at: "served" = the last PostAccept plugin of the chain ran (the
		// chain let the connection through) or PostDisconnect ran (refused and closed)
		recMu.Lock()
		defer recMu.Unlock()
		r := recOf(l.addr)
		if r.postAccept > 0 {
			atomic.StoreInt32(&l.sessOK, 1)
		}
		return r.postAccept > 0 || r.disc > 0
	}
	return atomic.LoadInt32(&l.served) == 1
}
func (l *liveConn) hasSess() bool { return atomic.LoadInt32(&l.sessOK) == 1 }
func (l *liveConn) isEOF() bool   { return atomic.LoadInt32(&l.eof) == 1 }
func (l *liveConn) nReplies() int {
	l.rmu.Lock()
	defer l.rmu.Unlock()
	n := 0
	for _, m := range l.frames {
		if m.Mtype() == erpc.TypeReply {
			n++
		}
	}
	return n
}

func openConn(sv *server, sc *script, g *gateCfg) *liveConn {
	l := &liveConn{sv: sv, sc: sc, o: &outcome{}, gate: g}
	if sc.entry == "listener" {
		c := dialFresh(sv.listenAddr)
		l.cc = c
		l.addr = c.LocalAddr().String()
		claimAddr(l.addr)
		registerGate(l.addr, g) // the checker of a gated case waits for this entry
	} else {
		c, sconn := TCPPair()
		// every pair has a listener of its own, so two live pairs (the resident of a SetID case and
		// the connection under test, the connections of a gated case) may get the same client port:
		// the records are keyed by the client address, take another pair then
		for addrLive(c.LocalAddr().String()) {
			c.Close()
			sconn.Close()
			c, sconn = TCPPair()
		}
		l.cc = c
		l.addr = c.LocalAddr().String()
		claimAddr(l.addr)
		registerGate(l.addr, g)
		go func() {
			s, _ := sv.peer.ServeConn(sconn)
			if s != nil {
				l.sess = s
				atomic.StoreInt32(&l.sessOK, 1)
			}
			atomic.StoreInt32(&l.served, 1)
		}()
	}
	if g == nil {
		l.startReader()
	}
	return l
}

// Client addresses are the key of the per-connection records, so the live connections of the
// harness must have distinct ones. Connections to ONE listener always have; a ServeConn pair has a
// listener of its own, and the kernel may give the same ephemeral port to two sockets connected to
// different listeners. liveAddrs holds the client addresses in use (recMu).
var liveAddrs = map[string]bool{}

func addrLive(a string) bool {
	recMu.Lock()
	defer recMu.Unlock()
	return liveAddrs[a]
}
func claimAddr(a string) {
	recMu.Lock()
	liveAddrs[a] = true
	recMu.Unlock()
}

// dialFresh connects to the server's listener from an explicitly bound local port that no live socket
// of the machine uses (a port the kernel just handed to a throw-away listener): an explicitly bound
// port is never shared with a socket that gets its port at connect time, in either order.
func dialFresh(to string) net.Conn {
	for i := 0; ; i++ {
		pl, err := net.Listen("tcp", "127.0.0.1:0")
		Must(err)
		la := pl.Addr().(*net.TCPAddr)
		pl.Close()
		if addrLive(la.String()) {
			continue
		}
		d := net.Dialer{LocalAddr: &net.TCPAddr{IP: la.IP, Port: la.Port}, Timeout: 5 * time.Second}
		c, err := d.Dial("tcp", to)
		if err == nil {
			return c
		}
		if i > 50 {
			Must(err)
		}
	}
}

// startReader reads everything the server writes to this client. (It goes through the repository's
// protocol code, which takes a pooled byte buffer per read: in the gated family it is started only
// once the verdicts are in, so that the only users of the pool during the exchange are the
// server-side reads of the connections of the case.)
func (l *liveConn) startReader() {
	rp := NewRawPeer(l.cc)
	go func() {
		for {
			m := socket.NewMessage(socket.WithNewBody(func(socket.Header) interface{} { return new([]byte) }))
			if err := rp.Sock.ReadMessage(m); err != nil {
				atomic.StoreInt32(&l.eof, 1)
				return
			}
			l.rmu.Lock()
			l.frames = append(l.frames, m)
			l.rmu.Unlock()
		}
	}()
}

// listedSelf: is THIS connection's session in the index (under its address, or under the id its
// checker gave it)?
func (l *liveConn) listedSelf() bool {
	srv := l.sv.peer
	if _, ok := srv.GetSession(l.addr); ok {
		return true
	}
	if l.sc.ck.setID != "" {
		if s, ok := srv.GetSession(claimedID); ok && (l.resSess == nil || s != l.resSess) {
			return true
		}
	}
	return false
}

func (l *liveConn) residentListed() bool {
	if l.resSess == nil {
		return false
	}
	s, ok := l.sv.peer.GetSession(claimedID)
	return ok && s == l.resSess
}

func (l *liveConn) snap() snapshot {
	s := snapshot{served: "blocked"}
	if l.isServed() {
		if l.hasSess() {
			s.served = "accepted"
		} else {
			s.served = "rejected"
		}
	}
	s.listed = l.listedSelf()
	if l.overlap {
		if s.listed {
			s.indexed = 1
		}
	} else {
		s.indexed = l.sv.peer.CountSession()
		if l.residentListed() {
			s.indexed--
		}
	}
	return s
}

func (l *liveConn) sendAll() {
	l.writeChunks()
	l.afterWrite()
}

// waitServer: the server has decided on this connection, or it sits in a blocking read
func (l *liveConn) waitServer() {
	sc := l.sc
	if needMore(l.sent) && sc.ck.recvs > 0 && sc.ck.panicAt != 1 && (sc.ck.before == "" || sc.ck.before == "ok") {
		time.Sleep(settle)
		return
	}
	if l.gate != nil {
		waitFor(func() bool { return l.isServed() || l.gate.isParked() })
		return
	}
	waitFor(l.isServed)
}

func (l *liveConn) writeChunks() {
	sc := l.sc
	waitServer := l.waitServer
	for i, ch := range sc.chunks {
		if len(ch) > 0 {
			if _, err := l.cc.Write(ch); err != nil {
				break
			}
			l.sent = append(l.sent, ch...)
		}
		if i == sc.pauseAt {
			waitServer()
		}
		if i == sc.repliesAt {
			// replies of calls still in flight when the loop meets a broken frame are dropped by
			// design (the session is passively closing): let them arrive first
			waitFor(func() bool { return l.isEOF() || l.nReplies() >= sc.expectReplies })
			time.Sleep(2 * time.Millisecond)
		}
	}
	waitServer()
}

func (l *liveConn) afterWrite() {
	sc := l.sc
	if l.isServed() {
		waitFor(func() bool {
			if l.isEOF() {
				return true
			}
			return l.hasSess() && !sc.expectExit && l.nReplies() >= sc.expectReplies
		})
		if l.hasSess() && sc.entry == "listener" {
			// serveListener indexes the session right after the chain; give that step its time
			WaitUntil(300*time.Millisecond, func() bool { return l.listedSelf() || l.isEOF() })
		}
		if l.hasSess() && !sc.expectExit {
			time.Sleep(2 * time.Millisecond)
		}
	}
	l.o.eofBefore = l.isEOF()
	l.o.mid = l.snap()
	if l.res != nil {
		l.o.resMid = l.residentState()
	}
}

// residentState: listed under its id and its connection still open?
func (l *liveConn) residentState() string {
	if l.residentListed() && !l.res.isEOF() {
		return "alive"
	}
	if !l.residentListed() && l.res.isEOF() {
		return "displaced"
	}
	if l.residentListed() {
		return "listed-but-closed"
	}
	return "unlisted-but-open"
}

func (l *liveConn) finish() *outcome {
	o := l.o
	// client half-closes; everything the server still writes is read until the server closes
	l.cc.(*net.TCPConn).CloseWrite()
	o.eofAfter = waitFor(l.isEOF)
	o.servedInTime = waitFor(l.isServed)
	waitFor(func() bool {
		recMu.Lock()
		defer recMu.Unlock()
		return recOf(l.addr).disc >= 1
	})
	// a session removes itself from the index before PostDisconnect; allow the map to settle
	WaitUntil(200*time.Millisecond, func() bool { return !l.listedSelf() })
	o.fin = l.snap()
	if l.res != nil {
		// a displaced resident is closed by the hub in a goroutine of its own: give it its time
		if !l.residentListed() {
			WaitUntil(500*time.Millisecond, l.res.isEOF)
		}
		o.resFin = l.residentState()
	}
	l.cc.Close()
	l.rmu.Lock()
	for _, m := range l.frames {
		code := int(m.Status().Code())
		switch m.Mtype() {
		case erpc.TypeAuthReply:
			o.authReplies = append(o.authReplies, code)
		case erpc.TypeReply:
			o.replies = append(o.replies, [2]int{int(m.Seq()), code})
		default:
			o.otherFrames++
		}
	}
	l.rmu.Unlock()
	sort.Slice(o.replies, func(i, j int) bool {
		if o.replies[i][0] != o.replies[j][0] {
			return o.replies[i][0] < o.replies[j][0]
		}
		return o.replies[i][1] < o.replies[j][1]
	})
	recMu.Lock()
	o.rec = *recOf(l.addr)
	o.rec.calls = append([]int32(nil), o.rec.calls...)
	o.rec.pushes = append([]int32(nil), o.rec.pushes...)
	delete(recs, l.addr)
	delete(liveAddrs, l.addr)
	recMu.Unlock()
	o.fnCalls, o.fnMulti = o.rec.fnCalls, o.rec.fnMulti
	o.authOK = o.rec.ckSaidOK && !o.rec.otherFailed
	if g := l.gate; g != nil {
		o.gated, o.saidOK = true, o.rec.ckSaidOK
		o.infoOK, o.atRecv, o.atVerdict = g.observed()
		// ground truth of the gated family: the exchange succeeded only if the auth frame THIS
		// connection sent carried the right credential (whatever the checker function concluded)
		o.authOK = o.authOK && l.sc.ownRight
		unregisterGate(l.addr)
	}
	sort.Slice(o.rec.calls, func(i, j int) bool { return o.rec.calls[i] < o.rec.calls[j] })
	sort.Slice(o.rec.pushes, func(i, j int) bool { return o.rec.pushes[i] < o.rec.pushes[j] })
	return o
}

// openResident establishes an authenticated session that holds claimedID (its checker accepts
// without an exchange and names the session after accepting), through ServeConn.
func openResident(sv *server) *liveConn {
	curCk = checkerCfg{recvs: 0, mode: "all", setID: "post"}
	r := openConn(sv, &script{entry: "serveconn", pauseAt: -1, repliesAt: -1}, nil)
	waitFor(r.isServed)
	if r.sess == nil {
		Must(fmt.Errorf("could not establish the resident session"))
	}
	waitFor(func() bool { s, ok := sv.peer.GetSession(claimedID); return ok && s == r.sess })
	return r
}

func closeResident(sv *server, r *liveConn) {
	r.cc.Close()
	waitFor(func() bool {
		recMu.Lock()
		defer recMu.Unlock()
		return recOf(r.addr).disc >= 1
	})
	recMu.Lock()
	delete(recs, r.addr)
	delete(liveAddrs, r.addr)
	recMu.Unlock()
	waitFor(func() bool { return sv.peer.CountSession() == 0 })
}

func runCase(sv *server, sc *script) *outcome {
	var res *liveConn
	if sc.ck.setID != "" {
		res = openResident(sv)
	}
	curCk = sc.ck
	l := openConn(sv, sc, nil)
	if res != nil {
		l.res, l.resSess = res, res.sess
	}
	l.sendAll()
	o := l.finish()
	if res != nil {
		closeResident(sv, res)
	}
	return o
}

// runOverlap: two connections through the listener whose accept phases overlap: both are
// connected (and pending in the checker's read) before either sends anything; then A sends its
// stream, then B. Each must behave exactly as it would alone.
func runOverlap(sv *server, a, b *script) (*outcome, *outcome) {
	curCk = a.ck
	la := openConn(sv, a, nil)
	lb := openConn(sv, b, nil)
	la.overlap, lb.overlap = true, true
	time.Sleep(settle) // both connections accepted by the listener, both checkers waiting for a frame
	la.sendAll()
	lb.sendAll()
	oa := la.finish()
	ob := lb.finish()
	waitFor(func() bool { return sv.peer.CountSession() == 0 })
	return oa, ob
}

// ---- rendering

func vsnap(s snapshot) string {
	return VL(VS(s.served), VN(int64(s.indexed)), VBool(s.listed))
}

func vints32(a []int32) string {
	var it []string
	for _, x := range a {
		it = append(it, VZ(int64(x)))
	}
	return VL(it...)
}

func render(o *outcome) string {
	var hooks, ar, rep []string
	for _, h := range o.rec.hooks {
		hooks = append(hooks, VN(int64(h)))
	}
	for _, c := range o.authReplies {
		// statConnClosed (read error) and statBadMessage (recovered panic) are one class: which
		// of the two a too-long length field yields depends on stale buffer capacity
		if c == 102 || c == 400 {
			c = -1
		}
		ar = append(ar, VZ(int64(c)))
	}
	for _, r := range o.replies {
		rep = append(rep, VL(VZ(int64(r[0])), VZ(int64(r[1]))))
	}
	return VL(vsnap(o.mid), VBool(o.eofBefore), vsnap(o.fin),
		VL(VN(int64(o.fnCalls)), VN(int64(o.fnMulti))),
		VL(ar...), VL(VN(int64(o.rec.otherBefore)), VN(int64(o.rec.otherAfter))), VN(int64(o.rec.postAccept)), VN(int64(o.rec.disc)),
		VL(hooks...), vints32(o.rec.calls), vints32(o.rec.pushes), VL(rep...), VN(int64(o.otherFrames)),
		VL(resSym(o.resMid), resSym(o.resFin)))
}

func resSym(s string) string {
	if s == "" {
		return VS("none")
	}
	return VS(s)
}

func vcase(sc *script) string {
	var ch []string
	for _, c := range sc.chunks {
		ch = append(ch, VB(c))
	}
	hb := func(b string) string {
		if b == "" {
			return VS("none")
		}
		return VS(b)
	}
	return VL(VN(sizeLimit), VL(VN(int64(sc.ck.recvs)), VBool(sc.ck.propagate), VS(sc.ck.mode), VB(sc.ck.token),
		VN(int64(sc.ck.panicAt)), hb(sc.ck.before), hb(sc.ck.after), hb(sc.ck.setID)), VL(ch...), VS(sc.entry), VS(sc.order))
}

// ---- oracle on the implementation's own observations

func oracle(st *Stats, i int, sc *script, o *outcome) {
	h := sc.human
	hookSum := 0
	for _, x := range o.rec.hooks {
		hookSum += x
	}
	handled := len(o.rec.calls) + len(o.rec.pushes)
	accepted := o.fin.served == "accepted" || o.mid.served == "accepted"
	okReplies := 0
	for _, c := range o.authReplies {
		if c == 0 {
			okReplies++
		}
	}
	if !o.eofAfter || !o.servedInTime {
		st.Fail(i, "not-quiescent", "server did not finish the connection after the client's EOF", h)
	}
	if o.gated {
		// the verdict is a function of THIS connection's own auth frame
		if o.infoOK && !(sc.hasOwn && bytes.Equal(o.atRecv, sc.ownInfo)) {
			st.Fail(i, "auth-info-not-own-frame", Fmt("RecvOnce handed the checker %q, the connection's own auth frame carried %q (has one: %v)", o.atRecv, sc.ownInfo, sc.hasOwn), h)
		}
		if o.infoOK && !bytes.Equal(o.atVerdict, o.atRecv) {
			st.Fail(i, "auth-info-changed-before-verdict", Fmt("the info the checker received (%q) read %q when it took its verdict: reads on other connections changed it", o.atRecv, o.atVerdict), h)
		}
		if o.saidOK != (o.infoOK && sc.ownRight) {
			st.Fail(i, "verdict-not-from-own-frame", Fmt("checker verdict ok=%v on a connection whose own auth frame carried the right credential=%v (info %q)", o.saidOK, sc.ownRight, sc.ownInfo), h)
		}
		if accepted && !sc.ownRight {
			st.Fail(i, "accepted-without-own-credential", "connection accepted although the auth frame it sent itself never carried the right credential", h)
		}
	}
	if accepted && !o.authOK && !(o.gated && o.saidOK && !o.rec.otherFailed) {
		st.Fail(i, "accepted-without-auth", "ServeConn returned a session although the checker did not return OK or another PostAccept plugin refused / panicked", h)
	}
	if !accepted || !o.authOK {
		if handled > 0 {
			st.Fail(i, "handler-before-auth", Fmt("%d handler invocation(s) on a connection whose authentication did not succeed", handled), h)
		}
		if hookSum > 0 {
			st.Fail(i, "hook-before-auth", Fmt("%d per-message hook invocation(s) on a connection whose authentication did not succeed", hookSum), h)
		}
		if o.rec.postAccept > 0 {
			st.Fail(i, "later-accept-hook-ran", "a PostAccept plugin placed after the checker ran on a rejected connection", h)
		}
		if len(o.replies) > 0 || o.otherFrames > 0 {
			st.Fail(i, "app-bytes-to-unauthenticated", "the server wrote application frames to a connection that was never accepted", h)
		}
		if okReplies > 0 && (sc.ck.after == "" || sc.ck.after == "ok") {
			st.Fail(i, "ok-reply-but-rejected", "AUTH_REPLY with OK status on a rejected connection", h)
		}
		if o.mid.indexed != 0 || o.mid.listed || o.fin.indexed != 0 || o.fin.listed {
			st.Fail(i, "rejected-listed", "a connection that was never accepted is listed as a session", h)
		}
		if o.mid.served == "rejected" && !o.eofBefore {
			st.Fail(i, "rejected-not-closed", "rejected connection was not closed by the server", h)
		}
	}
	if accepted {
		if okReplies != 1 || len(o.authReplies) != 1 {
			st.Fail(i, "exchange-not-once", Fmt("accepted connection saw AUTH_REPLY codes %v (want exactly one, OK)", o.authReplies), h)
		}
	}
	if o.resFin != "" && !(accepted && o.authOK) && (o.resMid != "alive" || o.resFin != "alive") {
		st.Fail(i, "unauthenticated-displaced-session", Fmt("a connection that did not authenticate claimed an id during the exchange and the authenticated session holding it is %s / %s", o.resMid, o.resFin), h)
	}
	if len(o.authReplies) > 1 {
		st.Fail(i, "exchange-not-once", Fmt("more than one AUTH_REPLY on one connection: %v", o.authReplies), h)
	}
	reads := o.fnCalls - o.fnMulti
	if reads > 1 {
		st.Fail(i, "exchange-not-once", Fmt("RecvOnce read %d frames", reads), h)
	}
	if o.fin.indexed != 0 || o.fin.listed {
		st.Fail(i, "listed-after-close", "session still listed after the connection is gone", h)
	}
	// pipelined frames: with a well-formed stream every CALL behind an accepted exchange is
	// answered exactly once (the expectation is the generator's own labelling of the stream)
	if accepted && !sc.expectExit && sc.expectAccept && len(o.replies) != sc.expectReplies {
		st.Fail(i, "pipelined-not-processed", Fmt("accepted connection answered %d of %d pipelined CALL frames", len(o.replies), sc.expectReplies), h)
	}
}

// ---- generators

func genToken(cfg *RunCfg) []byte {
	r := cfg.Rng
	n := 1 + r.Intn(24)
	t := make([]byte, n)
	for i := range t {
		t[i] = byte('a' + r.Intn(26))
	}
	return t
}

type sufFrame struct {
	b      []byte
	isCall bool
	exit   bool // makes the read loop return by itself
	label  string
}

func genSuffixFrame(cfg *RunCfg, seq int) sufFrame {
	r := cfg.Rng
	body := RandBytes(r, r.Intn(20))
	switch r.Intn(9) {
	case 0, 1, 2:
		return sufFrame{b: realPack(frame(seq, erpc.TypeCall, callPath, 's', body)), isCall: true, label: "call"}
	case 3, 4:
		return sufFrame{b: realPack(frame(seq, erpc.TypePush, pushPath, 's', body)), label: "push"}
	case 5:
		return sufFrame{b: realPack(frame(seq, erpc.TypeCall, "/no/such", 's', body)), isCall: true, label: "call404"}
	case 6:
		return sufFrame{b: realPack(frame(seq, erpc.TypePush, "/no/such", 's', body)), label: "push404"}
	case 7:
		return sufFrame{b: realPack(frame(seq, erpc.TypeReply, "", 's', body)), label: "reply"}
	default:
		return sufFrame{b: realPack(frame(seq, erpc.TypeCall, "", 's', body)), isCall: true, label: "call-nosm"}
	}
}

// mutate returns a malformed variant of a valid AUTH_CALL frame.
func mutate(cfg *RunCfg, f rawFrame) ([]byte, string) {
	r := cfg.Rng
	base := encode(f)
	last := len(base) - 4
	switch k := r.Intn(18); k {
	case 0:
		f.size = r.Intn(4)
		return encode(f), "size<4"
	case 1:
		f.size = 4
		return encode(f), "size=4"
	case 2:
		if r.Intn(2) == 0 {
			f.size = sizeLimit + 1 + r.Intn(1000)
		} else {
			f.size = 0x7fffffff
		}
		return encode(f), "oversize"
	case 3:
		f.size = len(base) - 1 - r.Intn(len(base)-5)
		return encode(f), "size-short"
	case 4:
		f.size = len(base) + 1 + r.Intn(40)
		return encode(f), "size-long"
	case 5:
		f.xferLen = 1 + r.Intn(last-1)
		return encode(f), "xfer"
	case 6:
		f.seqLen = 200 + r.Intn(55)
		return encode(f), "seqlen"
	case 7:
		f.seq = string([]byte{"!_ ~-+"[r.Intn(6)]})
		return encode(f), "seq-char"
	case 8:
		f.seq = "zzzzzzz"
		return encode(f), "seq-range"
	case 9:
		f.smLen = 100 + r.Intn(155)
		return encode(f), "smlen"
	case 10:
		f.statusLen = 0xfff0 + r.Intn(15)
		return encode(f), "statuslen"
	case 11:
		f.metaLen = 0xfff0 + r.Intn(15)
		return encode(f), "metalen"
	case 12:
		f.codec = 0
		return encode(f), "codec0"
	case 13:
		f.codec = 0x7f
		return encode(f), "codec-unreg"
	case 14:
		g := RandBytes(r, 4+r.Intn(40))
		g[0] |= 0x80
		return g, "garbage"
	case 15:
		f.cutAfterMeta = true
		return encode(f), "no-codec"
	case 16:
		f.seq = ""
		return encode(f), "seq-empty"
	default:
		g := RandBytes(r, 5+r.Intn(30))
		binary.BigEndian.PutUint32(g, uint32(len(g)))
		g[4] = 0
		return g, "garbage-sized"
	}
}

// loopSafe: mutations whose effect inside the read loop is deterministic. The others either wait
// for more bytes, or leave a valid AUTH_CALL frame: the loop answers a type it does not allow with
// "go sess.Close()", whose interleaving with the next loop iteration is a race in the code itself.
func loopSafe(lab string) bool {
	switch lab {
	case "size-long", "xfer", "size=4", "codec0", "codec-unreg", "size-short":
		return false
	}
	return true
}

func split(cfg *RunCfg, first, rest []byte, _ bool) ([][]byte, int, string) {
	r := cfg.Rng
	all := append(append([]byte(nil), first...), rest...)
	k := r.Intn(4)
	switch k {
	case 0:
		return [][]byte{all}, -1, "one-write"
	case 1:
		return [][]byte{first, rest}, 0, "pause-after-first"
	case 2:
		var ch [][]byte
		for i := 0; i < len(all); {
			n := 1
			if len(all) > 120 {
				n = 1 + r.Intn(4)
			}
			if i+n > len(all) {
				n = len(all) - i
			}
			ch = append(ch, all[i:i+n])
			i += n
		}
		return ch, -1, "byte-by-byte"
	default:
		if len(all) < 2 {
			return [][]byte{all}, -1, "one-write"
		}
		c := 1 + r.Intn(len(all)-1)
		return [][]byte{all[:c], all[c:]}, 0, "pause-at-random-offset"
	}
}

// genCase draws one connection's case. With force != nil the checker behaviour is given (the
// overlap family runs two connections under one behaviour) and forceClass, if set, the first action.
func genCase(cfg *RunCfg, force *checkerCfg, forceClass string) *script {
	r := cfg.Rng
	sc := &script{pauseAt: -1, repliesAt: -1}
	token := genToken(cfg)
	ck := checkerCfg{recvs: 1, mode: "eq", token: token}
	kk := r.Intn(20)
	if force != nil {
		kk = 0
	}
	switch k := kk; {
	case k < 11:
	case k < 13:
		ck.mode = "none"
	case k < 15:
		ck.mode = "all"
	case k < 17:
		ck.recvs = 2
		ck.propagate = r.Intn(2) == 0
		ck.mode = []string{"eq", "all"}[r.Intn(2)]
	case k < 19:
		ck.recvs = 0
		ck.mode = "none"
	default:
		ck.recvs = 0
		ck.mode = "all"
	}
	// the rest of the PostAccept chain and faults inside the checker
	kc := r.Intn(16)
	if force != nil {
		kc = 0
	}
	switch k := kc; {
	case k < 9:
	case k == 9:
		ck.panicAt = 1
	case k == 10 || k == 11:
		ck.panicAt = 2
	case k == 12:
		ck.before = []string{"ok", "reject", "panic"}[r.Intn(3)]
	case k == 13 || k == 14:
		ck.after = []string{"ok", "reject", "panic"}[r.Intn(3)]
	default:
		ck.before = []string{"ok", "reject", "panic"}[r.Intn(3)]
		ck.after = []string{"ok", "reject", "panic"}[r.Intn(3)]
	}
	if force != nil {
		ck = *force
		token = ck.token
	} else if r.Intn(5) == 0 {
		ck.setID = []string{"pre", "pre", "post"}[r.Intn(3)]
	}
	chainOK := ck.panicAt == 0 && (ck.before == "" || ck.before == "ok") && (ck.after == "" || ck.after == "ok")
	loopFirst := ck.recvs == 0 && ck.mode == "all" && chainOK // every byte goes to the read loop

	authF := natural(rawFrame{seq: strconv.FormatInt(int64(1+r.Intn(40000)), 36), mtype: erpc.TypeAuthCall, codec: 's', body: token})
	var first []byte
	firstIsAuth, firstOK := false, false // well-formed AUTH_CALL / and acceptable to mode eq
	firstExit, firstIsCall, firstBlocks := false, false, false
	classes := []string{"auth-ok", "auth-ok", "auth-ok", "auth-ok", "auth-wrong", "auth-wrong", "call", "call", "push", "reply",
		"unknown-type", "malformed", "malformed", "truncated", "nothing", "auth-status", "auth-codec"}
	if loopFirst {
		classes = []string{"call", "push", "reply", "nothing", "truncated", "malformed"}
	}
	cl := classes[r.Intn(len(classes))]
	if forceClass != "" {
		cl = forceClass
	}
	if cl == "malformed" && ck.mode == "all" && !loopFirst {
		cl = "auth-wrong"
	}
	sc.class = cl
	switch cl {
	case "auth-ok":
		first = realPack(authF)
		firstIsAuth, firstOK = true, true
	case "auth-wrong":
		f := authF
		switch r.Intn(4) {
		case 0:
			f.body = nil
		case 1:
			f.body = token[:len(token)-1]
		case 2:
			f.body = append(append([]byte(nil), token...), 'x')
		default:
			f.body = genToken(cfg)
			if bytes.Equal(f.body, token) {
				f.body = append(f.body, 'y')
			}
		}
		first = realPack(f)
		firstIsAuth = true
	case "call":
		first = realPack(frame(1+r.Intn(100), erpc.TypeCall, callPath, 's', token))
		firstIsCall = true
	case "push":
		first = realPack(frame(1+r.Intn(100), erpc.TypePush, pushPath, 's', token))
	case "reply":
		first = realPack(frame(1+r.Intn(100), erpc.TypeReply, "", 's', token))
	case "unknown-type":
		f := authF
		f.mtype = []byte{0, 5, 6, 7, 100, 255}[r.Intn(6)]
		first = realPack(f)
	case "malformed":
		var lab string
		first, lab = mutate(cfg, authF)
		for loopFirst && !loopSafe(lab) {
			first, lab = mutate(cfg, authF)
		}
		sc.class = "malformed:" + lab
		firstExit = true
	case "truncated":
		full := realPack(authF)
		if loopFirst {
			full = realPack(frame(1+r.Intn(100), erpc.TypeCall, callPath, 's', token))
		}
		first = full[:1+r.Intn(len(full)-1)]
		firstBlocks = true
	case "nothing":
		first = nil
		firstBlocks = true
	case "auth-status":
		f := authF
		f.status = erpc.NewStatus(int32(1+r.Intn(600)), "client says", "").EncodeQuery()
		first = realPack(f)
	case "auth-codec":
		f := authF
		f.codec = []byte{0, 0x7f}[r.Intn(2)]
		if r.Intn(3) == 0 {
			f.body = nil
			f.codec = 0
			firstIsAuth = true // an empty body is never decoded: a valid AUTH_CALL with empty info
		}
		first = encode(f)
	}

	// pipelined suffix
	var rest, tail []byte
	nCalls := 0
	exit := false
	var labels string
	if !firstBlocks {
		n := r.Intn(5)
		seq := 100 + r.Intn(1000)
		for j := 0; j < n; j++ {
			seq += 1 + r.Intn(5)
			sf := genSuffixFrame(cfg, seq)
			rest = append(rest, sf.b...)
			if sf.isCall {
				nCalls++
			}
			labels += sf.label + ","
		}
		switch r.Intn(8) {
		case 0: // a truncated last frame: the loop blocks on it until the client's EOF
			full := realPack(frame(seq+9, erpc.TypeCall, callPath, 's', token))
			rest = append(rest, full[:1+r.Intn(len(full)-1)]...)
			labels += "truncated,"
		case 1: // a malformed frame makes the loop return; only sent after the pause (see notes)
			g, lab := mutate(cfg, authF)
			if loopSafe(lab) {
				tail = g
				labels += "malformed:" + lab + ","
				exit = true
			}
		}
	}
	sc.sufClass = labels

	accept := false
	switch {
	case ck.recvs == 0:
		accept = ck.mode == "all"
	case ck.recvs == 2 && ck.propagate:
		accept = false
	default:
		accept = firstIsAuth && (firstOK || ck.mode == "all") && ck.mode != "none"
	}
	accept = accept && chainOK
	sc.expectAccept = accept
	if accept {
		sc.expectReplies = nCalls
		sc.expectExit = exit
		if loopFirst {
			if firstIsCall {
				sc.expectReplies++
			}
			if firstExit {
				// the loop returns at the first frame: nothing behind it is processed
				sc.expectExit = true
				sc.expectReplies = 0
			}
		}
	}
	// streams that make an accepted session's read loop return by itself are only sent once
	// ServeConn has returned (pause), otherwise the session index race of C07 is observed
	forcePause := accept && (exit || (loopFirst && firstExit))
	switch {
	case loopFirst && forcePause && firstExit:
		sc.chunks, sc.pauseAt, sc.split = [][]byte{nil, append(append(append([]byte(nil), first...), rest...), tail...)}, 0, "pause-before-all"
	case loopFirst && forcePause:
		sc.chunks, sc.pauseAt, sc.repliesAt, sc.split = [][]byte{nil, append(append([]byte(nil), first...), rest...), tail}, 0, 1, "pause-before-all-and-tail"
	case forcePause:
		sc.chunks, sc.pauseAt, sc.repliesAt, sc.split = [][]byte{first, rest, tail}, 0, 1, "pause-after-first-and-before-tail"
	default:
		rest = append(rest, tail...)
		sc.chunks, sc.pauseAt, sc.split = split(cfg, first, rest, false)
	}
	sc.ck = ck
	sc.entry = []string{"serveconn", "listener"}[r.Intn(2)]
	sc.order = serverOrders[r.Intn(len(serverOrders))]
	if force != nil {
		sc.entry = "listener"
	}
	sc.human = fmt.Sprintf("entry=%s config-order=%s set-id=%q chain(before=%q panic-at=%d after=%q) checker(recvs=%d propagate=%v mode=%s token=%q) first=%s suffix=[%s] split=%s stream=%s",
		sc.entry, sc.order, ck.setID, ck.before, ck.panicAt, ck.after, ck.recvs, ck.propagate, ck.mode, token, sc.class, labels, sc.split, Hx(append(append(append([]byte(nil), first...), rest...), tail...)))
	return sc
}

// serverOrders: three ways of putting the same plugin chain on a server peer. The accept path must not
// depend on it.
var serverOrders = []string{"newpeer", "append-right-after-routes", "append-left-before-routes"}

func newServerPeer(order string) *server {
	// the listener of the ListenAndServe entry point is opened here and handed to the accept path
	// (erpc.VerifServeListener = peer.serveListener): ListenAndServe itself opens the configured
	// address and ends the process, silently with the logger off, when another process of this busy
	// machine took the port in the meantime
	pl, err := net.Listen("tcp", "127.0.0.1:0")
	Must(err)
	port := pl.Addr().(*net.TCPAddr).Port
	sv := &server{order: order, listenAddr: Fmt("127.0.0.1:%d", port)}
	pc := erpc.PeerConfig{LocalIP: "127.0.0.1", ListenPort: uint16(port)}
	chain := []erpc.Plugin{otherAccept{after: false}, theChecker, otherAccept{after: true}, recorder{}}
	switch order {
	case "newpeer":
		sv.peer = erpc.NewPeer(pc, chain...)
		sv.peer.RouteCall(new(App))
		sv.peer.RoutePush(new(Note))
	case "append-right-after-routes":
		sv.peer = erpc.NewPeer(pc)
		sv.peer.RouteCall(new(App))
		sv.peer.RoutePush(new(Note))
		sv.peer.PluginContainer().AppendRight(chain...)
	default: // append-left-before-routes
		sv.peer = erpc.NewPeer(pc)
		sv.peer.PluginContainer().AppendLeft(chain...)
		sv.peer.RouteCall(new(App))
		sv.peer.RoutePush(new(Note))
	}
	go erpc.VerifServeListener(sv.peer, pl)
	if !WaitUntil(longWait, func() bool {
		c, err := net.DialTimeout("tcp", sv.listenAddr, time.Second)
		if err != nil {
			return false
		}
		c.Close()
		return true
	}) {
		Must(fmt.Errorf("the listener did not come up"))
	}
	// the probe connection was served by the chain (it sent nothing); let it drain
	WaitUntil(longWait, func() bool { return sv.peer.CountSession() == 0 })
	time.Sleep(20 * time.Millisecond)
	return sv
}

var modeFlag = flag.String("mode", "server", "server | bearer")

func main() {
	cfg := ParseFlags()
	Quiet()
	socket.SetMessageSizeLimit(sizeLimit)
	// the harness' own encoder must agree with the repository's protocol on valid frames
	probe := frame(77, erpc.TypeCall, callPath, 's', []byte("probe"))
	probe.meta = []byte("k=v")
	if !bytes.Equal(encode(probe), realPack(probe)) {
		Must(fmt.Errorf("harness frame encoder disagrees with rawProto.Pack: %x vs %x", encode(probe), realPack(probe)))
	}
	if *modeFlag == "bearer" {
		runBearer(cfg)
		return
	}
	servers := map[string]*server{}
	for _, order := range serverOrders {
		servers[order] = newServerPeer(order)
	}
	recMu.Lock()
	recs = map[string]*connRec{}
	recMu.Unlock()

	st := NewStats("C16", cfg)
	st.Rule = "gated family: 2..4 connections x schedule of open/send/verdict steps (random, all-open-first, staggered) x info receiver {*string plain codec, *[]byte, json struct} x first action {right token, wrong token of equal length, other length, call, push, truncated, nothing} x GOMAXPROCS {1, default}, checker parked between RecvOnce and its verdict; other families: case = (checker behaviour, client byte stream, split); first action in {auth-ok, auth-wrong, call, push, reply, unknown-type, malformed:*, truncated, nothing, auth-status, auth-codec} x checker {recv once eq/all/none, recv twice propagate/ignore, no recv accept/reject} x split {one-write, pause-after-first, byte-by-byte, pause-at-random-offset} x 0..4 pipelined frames (+ truncated/malformed tail); distinct by (checker, stream, split); non-trivial = stream non-empty"
	w := NewCaseWriter(cfg)
	distinct := DistinctSet{}
	done := 0
	for i := 0; i < cfg.N; i++ {
		if len(st.OracleFailures) >= 50 {
			break // the tree already fails the oracle many times over; do not sit through every timeout
		}
		done++
		record := func(sc *script, o *outcome) {
			st.Count("first:" + sc.class)
			st.Count("split:" + sc.split)
			st.Count("entry:" + sc.entry)
			st.Count("config-order:" + sc.order)
			st.Count(Fmt("checker:recvs=%d,propagate=%v,mode=%s", sc.ck.recvs, sc.ck.propagate, sc.ck.mode))
			st.Count(Fmt("chain:before=%s,panic-at=%d,after=%s", sc.ck.before, sc.ck.panicAt, sc.ck.after))
			st.Count("set-id:" + sc.ck.setID)
			st.Count("outcome:" + o.mid.served + "->" + o.fin.served)
			if sc.sufClass != "" {
				st.Count("suffix:nonempty")
			} else {
				st.Count("suffix:empty")
			}
			oracle(st, i, sc, o)
			var all []byte
			for _, c := range sc.chunks {
				all = append(all, c...)
			}
			if len(all) > 0 {
				distinct.Add(Fmt("%d/%v/%s/%d/%s/%s/%s/%x/%s", sc.ck.recvs, sc.ck.propagate, sc.ck.mode, sc.ck.panicAt, sc.ck.before, sc.ck.after, sc.ck.setID, all, sc.split+sc.entry+sc.order))
			}
			if len(st.Samples) < 6 {
				st.Samples = append(st.Samples, sc.human+" => "+render(o))
			}
		}
		fam := cfg.Rng.Intn(16)
		if fam >= 2 && fam < 5 {
			// 2..4 connections under a drawn schedule, every checker parked between RecvOnce and its verdict
			gc := genGated(cfg)
			os := runGated(servers[gc.order], gc)
			st.Count("family:gated")
			st.Count("gated-receiver:" + gc.kind)
			st.Count("gated-schedule:" + gc.pat)
			st.Count(Fmt("gated-procs:%d", gc.procs))
			st.Count(Fmt("gated-connections:%d", len(gc.conns)))
			for c, sc := range gc.conns {
				record(sc, os[c])
			}
			w.Add(vgated(gc), renderGated(os))
			continue
		}
		if fam < 2 {
			// two connections whose accept phases overlap (listener entry)
			ck := checkerCfg{recvs: 1, mode: "eq", token: genToken(cfg)}
			classA := ""
			if cfg.Rng.Intn(3) != 0 {
				classA = "auth-ok"
			}
			a := genCase(cfg, &ck, classA)
			b := genCase(cfg, &ck, "")
			b.order = a.order
			a.human, b.human = "overlap A: "+a.human, "overlap B (connected while A was pending): "+b.human
			oa, ob := runOverlap(servers[a.order], a, b)
			st.Count("family:overlap")
			record(a, oa)
			record(b, ob)
			w.Add(VL(VS("overlap"), vcase(a), vcase(b)), VL(render(oa), render(ob)))
			continue
		}
		sc := genCase(cfg, nil, "")
		o := runCase(servers[sc.order], sc)
		st.Count("family:single")
		record(sc, o)
		w.Add(vcase(sc), render(o))
	}
	st.Evaluations = done
	st.DistinctNontrivial = len(distinct)
	st.Write(cfg, w)
}
