// Gated family: 2..4 connections whose accept phases overlap under a drawn schedule of
// open / send / verdict steps. The checker of every connection is parked between RecvOnce returning
// and its comparison (a user-store lookup stands there in real checkers) while the other
// connections connect, send their auth frames and are decided. The info receiver of the checker is
// drawn per case: a *string through the plain codec, a *[]byte, a struct through the json codec.
// Oracle: the verdict is a function of THIS connection's own auth frame - the info seen when the
// verdict is taken is byte for byte what this connection sent, and the connection is accepted iff
// that was the right credential.
package main

import (
	"bytes"
	"fmt"
	"runtime"
	"runtime/debug"
	"strconv"
	"strings"
	"sync"
	"sync/atomic"
	"time"

	. "verifharness/hlib"

	erpc "github.com/henrylee2cn/erpc/v6"
	"github.com/henrylee2cn/erpc/v6/plugin/auth"
)

// gateCfg: behaviour and observations of the checker of ONE connection of a gated case.
type gateCfg struct {
	kind    string // info receiver of the checker: string | bytes | json
	token   []byte // the credential the server accepts
	parked  chan struct{}
	release chan struct{}

	mu        sync.Mutex
	entered   bool // the checker is about to call RecvOnce
	isPark    bool
	released  bool
	infoOK    bool
	atRecv    []byte
	atVerdict []byte
}

func newGate(kind string, token []byte) *gateCfg {
	return &gateCfg{kind: kind, token: token, parked: make(chan struct{}), release: make(chan struct{})}
}

func (g *gateCfg) isParked() bool {
	g.mu.Lock()
	defer g.mu.Unlock()
	return g.isPark
}

func (g *gateCfg) hasEntered() bool {
	g.mu.Lock()
	defer g.mu.Unlock()
	return g.entered
}

func (g *gateCfg) open() {
	g.mu.Lock()
	if !g.released {
		g.released = true
		close(g.release)
	}
	g.mu.Unlock()
}

func (g *gateCfg) observed() (bool, []byte, []byte) {
	g.mu.Lock()
	defer g.mu.Unlock()
	return g.infoOK, g.atRecv, g.atVerdict
}

var (
	gatedMode int32 // 1 while a gated case runs: every connection's checker looks its gate up
	gateMu    sync.Mutex
	gates     = map[string]*gateCfg{}
)

func registerGate(addr string, g *gateCfg) {
	if g == nil {
		return
	}
	gateMu.Lock()
	gates[addr] = g
	gateMu.Unlock()
}

func unregisterGate(addr string) {
	gateMu.Lock()
	delete(gates, addr)
	gateMu.Unlock()
}

// gateFor: outside gated cases nil at once; inside, the entry of this connection (a connection made
// through the listener may reach its checker before the harness has stored the entry: wait for it).
func gateFor(addr string) *gateCfg {
	if atomic.LoadInt32(&gatedMode) == 0 {
		return nil
	}
	var g *gateCfg
	WaitUntil(longWait, func() bool {
		gateMu.Lock()
		g = gates[addr]
		gateMu.Unlock()
		return g != nil || atomic.LoadInt32(&gatedMode) == 0
	})
	return g
}

type tokenInfo struct {
	Token string `json:"token"`
}

// gatedCheck is the checker function of a gated connection: the shape of the library's own example
// (receive the info, look the user up, compare), with the look-up replaced by the harness' gate.
func gatedCheck(sess auth.Session, fn auth.RecvOnce, g *gateCfg) (interface{}, *erpc.Status) {
	addr := sess.RemoteAddr().String()
	var sInfo string
	var bInfo []byte
	var jInfo tokenInfo
	// a fresh copy of what the receiver holds NOW
	cur := func() []byte {
		switch g.kind {
		case "string":
			return []byte(sInfo)
		case "bytes":
			return append([]byte(nil), bInfo...)
		}
		return []byte(jInfo.Token)
	}
	bump(addr, func(r *connRec) { r.fnCalls++ })
	g.mu.Lock()
	g.entered = true
	g.mu.Unlock()
	var s1 *erpc.Status
	switch g.kind {
	case "string":
		s1 = fn(&sInfo)
	case "bytes":
		s1 = fn(&bInfo)
	default:
		s1 = fn(&jInfo)
	}
	if !s1.OK() {
		return nil, s1
	}
	g.mu.Lock()
	g.infoOK, g.atRecv = true, cur()
	g.isPark = true
	g.mu.Unlock()
	close(g.parked)
	select {
	case <-g.release:
	case <-time.After(4 * longWait):
	}
	at := cur()
	g.mu.Lock()
	g.atVerdict = at
	g.mu.Unlock()
	// the comparison is made on the value the receiver holds, as user code does
	ok := false
	switch g.kind {
	case "string":
		ok = sInfo == string(g.token)
	case "bytes":
		ok = bytes.Equal(bInfo, g.token)
	default:
		ok = jInfo.Token == string(g.token)
	}
	if !ok {
		return nil, erpc.NewStatus(403, "auth fail", "auth fail detail")
	}
	bump(addr, func(r *connRec) { r.ckSaidOK = true })
	return "pass", nil
}

// ---- generation

type gatedStep struct {
	op   string // open | send | release
	conn int
}

type gatedCase struct {
	kind   string
	token  []byte
	procs  int // GOMAXPROCS while the case runs (0 = as the process was started)
	order  string
	conns  []*script
	sched  []gatedStep
	pat    string
	humans string
}

// encodeInfo: how a bearer would put the info on the wire for the checker's receiver kind
func encodeInfo(cfg *RunCfg, kind string, info []byte) (byte, []byte) {
	switch kind {
	case "string":
		return 's', info
	case "bytes":
		// message.UnmarshalBody copies into a *[]byte whatever codec id the frame names
		return []byte{'s', 's', 'j', 0x7f}[cfg.Rng.Intn(4)], info
	}
	return 'j', []byte(`{"token":"` + string(info) + `"}`)
}

func sameLenOther(cfg *RunCfg, token []byte) []byte {
	for {
		t := make([]byte, len(token))
		for i := range t {
			t[i] = byte('a' + cfg.Rng.Intn(26))
		}
		if !bytes.Equal(t, token) {
			return t
		}
	}
}

func genGatedConn(cfg *RunCfg, gc *gatedCase, seq int) *script {
	r := cfg.Rng
	sc := &script{pauseAt: -1, repliesAt: -1, order: gc.order}
	sc.ck = checkerCfg{recvs: 1, mode: "eq", token: gc.token}
	classes := []string{"auth-ok", "auth-ok", "auth-ok", "auth-ok", "auth-wrong-eqlen", "auth-wrong-eqlen", "auth-wrong-eqlen", "auth-wrong-eqlen",
		"auth-wrong-len", "call", "push", "truncated", "nothing"}
	cl := classes[r.Intn(len(classes))]
	sc.class = "gated:" + cl
	var first []byte
	blocks := false
	mk := func(info []byte) []byte {
		codec, body := encodeInfo(cfg, gc.kind, info)
		f := natural(rawFrame{seq: strconv.FormatInt(int64(seq), 36), mtype: erpc.TypeAuthCall, codec: codec, body: body})
		sc.hasOwn, sc.ownInfo, sc.ownRight = true, info, bytes.Equal(info, gc.token)
		if codec == 's' || codec == 'j' {
			return realPack(f)
		}
		return encode(f)
	}
	switch cl {
	case "auth-ok":
		first = mk(gc.token)
	case "auth-wrong-eqlen":
		first = mk(sameLenOther(cfg, gc.token))
	case "auth-wrong-len":
		switch r.Intn(3) {
		case 0:
			first = mk(nil)
		case 1:
			first = mk(gc.token[:len(gc.token)-1])
		default:
			first = mk(append(append([]byte(nil), gc.token...), byte('a'+r.Intn(26))))
		}
	case "call":
		first = realPack(frame(seq, erpc.TypeCall, callPath, 's', gc.token))
	case "push":
		first = realPack(frame(seq, erpc.TypePush, pushPath, 's', gc.token))
	case "truncated":
		full := mk(gc.token)
		sc.hasOwn, sc.ownInfo, sc.ownRight = false, nil, false
		first = full[:1+r.Intn(len(full)-1)]
		blocks = true
	case "nothing":
		blocks = true
	}
	var rest []byte
	nCalls := 0
	var labels string
	if !blocks {
		n := r.Intn(3)
		if cl == "auth-wrong-eqlen" && n == 0 {
			n = 1 // something to handle, should a wrong credential ever be accepted
		}
		s := 100 + r.Intn(1000)
		for j := 0; j < n; j++ {
			s += 1 + r.Intn(5)
			sf := genSuffixFrame(cfg, s)
			rest = append(rest, sf.b...)
			if sf.isCall {
				nCalls++
			}
			labels += sf.label + ","
		}
	}
	sc.sufClass = labels
	sc.expectAccept = sc.ownRight
	if sc.expectAccept {
		sc.expectReplies = nCalls
	}
	if len(rest) > 0 && r.Intn(3) == 0 {
		sc.chunks, sc.split = [][]byte{first, rest}, "two-writes"
	} else {
		sc.chunks, sc.split = [][]byte{append(append([]byte(nil), first...), rest...)}, "one-write"
	}
	sc.entry = []string{"serveconn", "listener"}[r.Intn(2)]
	sc.human = fmt.Sprintf("entry=%s first=%s own-info=%q suffix=[%s] split=%s stream=%s", sc.entry, sc.class, sc.ownInfo, labels, sc.split,
		Hx(append(append([]byte(nil), first...), rest...)))
	return sc
}

func genGated(cfg *RunCfg) *gatedCase {
	r := cfg.Rng
	gc := &gatedCase{kind: []string{"string", "string", "bytes", "json"}[r.Intn(4)], token: genToken(cfg)}
	gc.order = serverOrders[r.Intn(len(serverOrders))]
	if r.Intn(4) != 0 {
		gc.procs = 1 // a busy server: every goroutine shares one P and its pool cache
	}
	k := 2 + r.Intn(3)
	// sequence numbers of one case mostly have the same number of base-36 digits (same frame layout)
	base := 1296 + r.Intn(40000)
	for c := 0; c < k; c++ {
		seq := base + c
		if r.Intn(6) == 0 {
			seq = 1 + r.Intn(40000)
		}
		gc.conns = append(gc.conns, genGatedConn(cfg, gc, seq))
	}
	// schedule: a linear extension of open_c < send_c < release_c
	switch r.Intn(6) {
	case 0: // any interleaving
		gc.pat = "random"
		next := make([]int, k)
		for left := 3 * k; left > 0; left-- {
			c := r.Intn(k)
			for next[c] == 3 {
				c = (c + 1) % k
			}
			gc.sched = append(gc.sched, gatedStep{[]string{"open", "send", "release"}[next[c]], c})
			next[c]++
		}
	case 1: // everybody pending in the read first, then the frames, then the verdicts
		gc.pat = "all-open-first"
		for c := 0; c < k; c++ {
			gc.sched = append(gc.sched, gatedStep{"open", c})
		}
		for _, c := range r.Perm(k) {
			gc.sched = append(gc.sched, gatedStep{"send", c})
		}
		for _, c := range r.Perm(k) {
			gc.sched = append(gc.sched, gatedStep{"release", c})
		}
	case 2, 3: // every checker is parked exactly while the next connection connects and sends its auth frame
		gc.pat = "handover"
		for c := 0; c < k; c++ {
			gc.sched = append(gc.sched, gatedStep{"open", c}, gatedStep{"send", c})
			if c > 0 {
				gc.sched = append(gc.sched, gatedStep{"release", c - 1})
			}
		}
		gc.sched = append(gc.sched, gatedStep{"release", k - 1})
	default: // one after the other connects and sends while the earlier checkers are parked
		gc.pat = "staggered"
		for c := 0; c < k; c++ {
			gc.sched = append(gc.sched, gatedStep{"open", c}, gatedStep{"send", c})
			if c > 0 && r.Intn(4) == 0 {
				gc.sched = append(gc.sched, gatedStep{"release", c})
			}
		}
		for _, c := range r.Perm(k) {
			done := false
			for _, s := range gc.sched {
				if s.op == "release" && s.conn == c {
					done = true
				}
			}
			if !done {
				gc.sched = append(gc.sched, gatedStep{"release", c})
			}
		}
	}
	var hs []string
	for _, s := range gc.sched {
		hs = append(hs, s.op+strconv.Itoa(s.conn))
	}
	gc.humans = fmt.Sprintf("gated: receiver=%s token=%q procs=%d config-order=%s schedule(%s)=[%s]", gc.kind, gc.token, gc.procs, gc.order, gc.pat, strings.Join(hs, " "))
	for c, sc := range gc.conns {
		sc.human = gc.humans + fmt.Sprintf(" | connection %d: ", c) + sc.human
	}
	return gc
}

// ---- execution

func runGated(sv *server, gc *gatedCase) []*outcome {
	// the other PostAccept plugins of the chain are absent in this family (they read curCk)
	curCk = checkerCfg{recvs: 1, mode: "eq", token: gc.token}
	atomic.StoreInt32(&gatedMode, 1)
	defer atomic.StoreInt32(&gatedMode, 0)
	if gc.procs > 0 {
		old := runtime.GOMAXPROCS(gc.procs)
		defer runtime.GOMAXPROCS(old)
	}
	// the pool of read buffers is a sync.Pool: a collection in the middle of the exchange empties it
	oldGC := debug.SetGCPercent(-1)
	defer debug.SetGCPercent(oldGC)

	k := len(gc.conns)
	ls := make([]*liveConn, k)
	gs := make([]*gateCfg, k)
	for c := range gs {
		gs[c] = newGate(gc.kind, gc.token)
	}
	for _, s := range gc.sched {
		c := s.conn
		switch s.op {
		case "open":
			ls[c] = openConn(sv, gc.conns[c], gs[c])
			ls[c].overlap = true
			// the checker has called RecvOnce: its read is posted (and holds its read buffer)
			waitFor(gs[c].hasEntered)
			time.Sleep(time.Millisecond)
		case "send":
			ls[c].writeChunks()
		case "release":
			wasParked := gs[c].isParked()
			gs[c].open()
			if wasParked {
				waitFor(ls[c].isServed)
			}
		}
	}
	for _, l := range ls {
		l.startReader()
	}
	for _, l := range ls {
		l.afterWrite()
	}
	var os []*outcome
	for _, l := range ls {
		os = append(os, l.finish())
	}
	waitFor(func() bool { return sv.peer.CountSession() == 0 })
	return os
}

// ---- rendering

func vgated(gc *gatedCase) string {
	var cs, ss []string
	for _, sc := range gc.conns {
		cs = append(cs, vcase(sc))
	}
	for _, s := range gc.sched {
		ss = append(ss, VL(VS(s.op), VN(int64(s.conn))))
	}
	return VL(VS("gated"), VS(gc.kind), VB(gc.token), VN(int64(gc.procs)), VL(cs...), VL(ss...))
}

func renderGated(os []*outcome) string {
	var it []string
	for _, o := range os {
		it = append(it, VL(render(o), VOpt(o.atRecv, o.infoOK), VOpt(o.atVerdict, o.infoOK)))
	}
	return VL(it...)
}
