// Bearer family of c16 (-mode bearer): a real client peer carrying the auth bearer plugin dials a
// scripted server that answers the AUTH_CALL with every class of reply; behind an accepted
// (or rejected) reply the server pipelines PUSH frames for the client's read loop.
package main

import (
	"bytes"
	"net"
	"strconv"
	"sync"
	"sync/atomic"
	"time"

	. "verifharness/hlib"

	erpc "github.com/henrylee2cn/erpc/v6"
	"github.com/henrylee2cn/erpc/v6/plugin/auth"
	"github.com/henrylee2cn/erpc/v6/socket"
)

type bearerCfg struct {
	sends     int
	propagate bool
	token     []byte
}

var (
	curB      bearerCfg
	sendCalls int32
	sendMulti int32
)

var theBearer = auth.NewBearerPlugin(
	func(sess auth.Session, fn auth.SendOnce) *erpc.Status {
		c := curB
		var ret string
		var s1 *erpc.Status
		if c.sends >= 1 {
			atomic.AddInt32(&sendCalls, 1)
			s1 = fn(string(c.token), &ret)
		}
		if c.sends >= 2 {
			var ret2 string
			atomic.AddInt32(&sendCalls, 1)
			s2 := fn(string(c.token), &ret2)
			if s2 == auth.MultiSendErr {
				atomic.AddInt32(&sendMulti, 1)
			}
			if c.propagate && !s2.OK() {
				return s2
			}
		}
		return s1
	},
	erpc.WithBodyCodec('s'),
)

// laterDial is a PostDial plugin registered behind the bearer: it runs only when the bearer let
// the dial through.
type laterDial struct{ n int32 }

func (*laterDial) Name() string { return "c16-later-postdial" }
func (l *laterDial) PostDial(erpc.PreSession, bool) *erpc.Status {
	atomic.AddInt32(&l.n, 1)
	return nil
}

type bearerCase struct {
	cfg      bearerCfg
	reply    []byte // what the scripted server writes after the first frame it receives
	closeAft bool   // ... and whether it then closes its side
	nPush    int    // PUSH frames inside reply behind the first frame (waiting hint)
	class    string
	human    string
}

type bearerOut struct {
	ok        bool
	sessions  int
	authCalls int
	otherIn   int
	sawEOF    bool
	later     int
	sendCalls int
	sendMulti int
	hooks     [nStages]int
}

func runBearerCase(cli erpc.Peer, later *laterDial, bc *bearerCase) *bearerOut {
	curB = bc.cfg
	atomic.StoreInt32(&sendCalls, 0)
	atomic.StoreInt32(&sendMulti, 0)
	atomic.StoreInt32(&later.n, 0)
	lis, err := net.Listen("tcp", "127.0.0.1:0")
	Must(err)
	defer lis.Close()
	addr := lis.Addr().String()
	recMu.Lock()
	delete(recs, addr)
	recMu.Unlock()
	var (
		mu        sync.Mutex
		authCalls int
		otherIn   int
		eof       int32
		sconn     net.Conn
	)
	go func() {
		c, err := lis.Accept()
		if err != nil {
			return
		}
		mu.Lock()
		sconn = c
		mu.Unlock()
		rp := NewRawPeer(c)
		first := true
		for {
			m := socket.NewMessage(socket.WithNewBody(func(socket.Header) interface{} { return new([]byte) }))
			if err := rp.Sock.ReadMessage(m); err != nil {
				atomic.StoreInt32(&eof, 1)
				return
			}
			mu.Lock()
			if m.Mtype() == erpc.TypeAuthCall {
				authCalls++
			} else {
				otherIn++
			}
			mu.Unlock()
			if first {
				first = false
				if len(bc.reply) > 0 {
					c.Write(bc.reply)
				}
				if bc.closeAft {
					c.(*net.TCPConn).CloseWrite()
				}
			}
		}
	}()
	o := &bearerOut{}
	sess, stat := cli.Dial(addr)
	o.ok = stat.OK() && sess != nil
	if o.ok {
		// let the client's read loop take the pipelined frames (hint: how many PUSH frames)
		waitFor(func() bool {
			recMu.Lock()
			defer recMu.Unlock()
			// ... and has reached the read it will block in (PreReadHeader precedes every read)
			return recOf(addr).hooks[4] >= bc.nPush && recOf(addr).hooks[0] >= bc.nPush+1
		})
		time.Sleep(2 * time.Millisecond)
		if !bc.closeAft {
			o.sessions = cli.CountSession()
		}
		sess.Close()
	} else if !bc.closeAft {
		o.sessions = cli.CountSession()
	}
	o.sawEOF = waitFor(func() bool { return atomic.LoadInt32(&eof) == 1 })
	waitFor(func() bool { return cli.CountSession() == 0 })
	mu.Lock()
	o.authCalls, o.otherIn = authCalls, otherIn
	if sconn != nil {
		sconn.Close()
	}
	mu.Unlock()
	o.later = int(atomic.LoadInt32(&later.n))
	o.sendCalls = int(atomic.LoadInt32(&sendCalls))
	o.sendMulti = int(atomic.LoadInt32(&sendMulti))
	recMu.Lock()
	o.hooks = recOf(addr).hooks
	delete(recs, addr)
	recMu.Unlock()
	return o
}

func genBearerCase(cfg *RunCfg) *bearerCase {
	r := cfg.Rng
	bc := &bearerCase{}
	bc.cfg.token = genToken(cfg)
	switch k := r.Intn(10); {
	case k < 6:
		bc.cfg.sends = 1
	case k < 8:
		bc.cfg.sends = 2
		bc.cfg.propagate = r.Intn(2) == 0
	default:
		bc.cfg.sends = 0
	}
	seq := strconv.FormatInt(int64(1+r.Intn(30000)), 36)
	okReply := natural(rawFrame{seq: seq, mtype: erpc.TypeAuthReply, codec: 's', body: []byte("pass")})
	var first []byte
	accept := false
	switch k := r.Intn(12); {
	case k < 4:
		first, bc.class, accept = realPack(okReply), "auth-reply-ok", true
	case k < 6:
		f := okReply
		f.status = erpc.NewStatus(int32(1+r.Intn(600)), "no", "").EncodeQuery()
		f.body = nil
		first, bc.class = realPack(f), "auth-reply-refused"
	case k < 8:
		f := okReply
		f.mtype = []byte{erpc.TypeReply, erpc.TypeCall, erpc.TypePush, erpc.TypeAuthCall, 0, 9}[r.Intn(6)]
		first, bc.class = realPack(f), "wrong-type"
	case k < 10:
		var lab string
		first, lab = mutate(cfg, okReply)
		for lab == "size-long" || lab == "xfer" || lab == "size=4" || lab == "size-short" || lab == "codec0" || lab == "codec-unreg" {
			first, lab = mutate(cfg, okReply)
		}
		bc.class = "malformed:" + lab
	case k < 11:
		first, bc.class = nil, "close-without-reply"
		bc.closeAft = true
	default:
		full := realPack(okReply)
		first, bc.class = full[:1+r.Intn(len(full)-1)], "truncated"
		bc.closeAft = true
	}
	bc.reply = first
	if !bc.closeAft || len(first) == 0 {
		// nothing
	}
	if len(first) > 0 && bc.class != "truncated" {
		n := r.Intn(4)
		for j := 0; j < n; j++ {
			bc.reply = append(bc.reply, realPack(frame(200+j, erpc.TypePush, "/no/such", 's', RandBytes(r, r.Intn(12))))...)
		}
		if accept && bc.cfg.sends >= 1 && !(bc.cfg.sends == 2 && bc.cfg.propagate) {
			bc.nPush = n
		}
		if r.Intn(3) == 0 {
			bc.closeAft = true
		}
	}
	if bc.cfg.sends == 0 {
		// the client never sends anything: the scripted server never gets to reply
		bc.nPush = 0
	}
	bc.human = Fmt("bearer(sends=%d propagate=%v) server-reply=%s close-after=%v reply-bytes=%s", bc.cfg.sends, bc.cfg.propagate, bc.class, bc.closeAft, Hx(bc.reply))
	return bc
}

func runBearer(cfg *RunCfg) {
	later := &laterDial{}
	cli := erpc.NewPeer(erpc.PeerConfig{}, theBearer, later, recorder{})
	st := NewStats("C16", cfg)
	st.Rule = "bearer family: case = (bearer behaviour {SendOnce 0/1/2 times, propagate}, scripted server reply {auth-reply-ok, auth-reply-refused, wrong-type, malformed:*, close-without-reply, truncated} + 0..3 pipelined PUSH frames, server closes afterwards or not); distinct by all of these; non-trivial = bearer sends"
	w := NewCaseWriter(cfg)
	distinct := DistinctSet{}
	done := 0
	for i := 0; i < cfg.N; i++ {
		if len(st.OracleFailures) >= 50 {
			break
		}
		done++
		bc := genBearerCase(cfg)
		o := runBearerCase(cli, later, bc)
		st.Count("bearer-reply:" + bc.class)
		st.Count(Fmt("bearer:sends=%d,propagate=%v", bc.cfg.sends, bc.cfg.propagate))
		st.Count(Fmt("dial-ok:%v", o.ok))
		hookSum := 0
		var hooks []string
		for _, h := range o.hooks {
			hookSum += h
			hooks = append(hooks, VN(int64(h)))
		}
		// oracle on the implementation alone
		if !o.ok {
			if hookSum > 0 {
				st.Fail(i, "client-hook-after-failed-auth", Fmt("%d per-message hook invocation(s) on a dial whose authentication failed", hookSum), bc.human)
			}
			if o.later > 0 {
				st.Fail(i, "later-postdial-ran", "a PostDial plugin behind the bearer ran although the bearer failed", bc.human)
			}
			if o.sessions != 0 {
				st.Fail(i, "failed-dial-listed", "a failed dial left a session listed", bc.human)
			}
			if !o.sawEOF {
				st.Fail(i, "failed-dial-not-closed", "the client did not close the connection of a failed dial", bc.human)
			}
		}
		if o.authCalls > 1 {
			st.Fail(i, "auth-call-not-once", Fmt("the client wrote %d AUTH_CALL frames on one connection", o.authCalls), bc.human)
		}
		if o.ok && bc.cfg.sends >= 1 && !bytes.HasPrefix([]byte(bc.class), []byte("auth-reply-ok")) {
			st.Fail(i, "dial-ok-without-ok-auth-reply", "the dial succeeded although the server did not answer AUTH_REPLY with OK status", bc.human)
		}
		w.Add(VL(VS("bearer"), VN(sizeLimit), VN(int64(bc.cfg.sends)), VBool(bc.cfg.propagate), VB(bc.reply), VBool(bc.closeAft)),
			VL(VBool(o.ok), VN(int64(o.sessions)), VN(int64(o.authCalls)), VN(int64(o.otherIn)), VBool(o.sawEOF), VN(int64(o.later)),
				VL(VN(int64(o.sendCalls)), VN(int64(o.sendMulti))), VL(hooks...)))
		if bc.cfg.sends > 0 {
			distinct.Add(bc.human)
		}
		if len(st.Samples) < 6 {
			st.Samples = append(st.Samples, bc.human+Fmt(" => ok=%v sessions=%d auth-calls=%d hooks=%d", o.ok, o.sessions, o.authCalls, hookSum))
		}
	}
	st.Evaluations = done
	st.DistinctNontrivial = len(distinct)
	st.Write(cfg, w)
}
