package main

import (
	"runtime/debug"
	"fmt"
	"time"

	. "verifharness/hlib"

	erpc "github.com/henrylee2cn/erpc/v6"
	"github.com/henrylee2cn/erpc/v6/socket"
)

func main() {
	erpc.SetLoggerLevel("DEBUG")
	cli := erpc.NewPeer(erpc.PeerConfig{})
	cc, sc := TCPPair()
	raw := NewRawPeer(sc)
	sess, _ := cli.ServeConn(cc)
	g := NewGateCtl()
	erpc.VerifSetStatusObserver(func(s erpc.Session, to int32) { fmt.Println("STATUS->", erpc.VerifStatusName(to)); debug.PrintStack() })
	g.Arm("reply.predone", sess)
	var res string
	ch := make(chan erpc.CallCmd, 4)
	cmd := sess.AsyncCall("/a/b", "hello", &res, ch)
	m, _ := raw.Recv(2 * time.Second)
	reply := func() error {
		return raw.Send(socket.WithBody("\"r\""), func(mm socket.Message) { mm.SetMtype(erpc.TypeReply); mm.SetSeq(m.Seq()); mm.SetBodyCodec('j') })
	}
	fmt.Println("send1", reply())
	fmt.Println("parked predone", g.AwaitParked("reply.predone", sess, 1, 2*time.Second))
	fmt.Println("send2", reply())
	fmt.Println("reader blocked in bindReply:", WaitUntil(2*time.Second, func() bool { return GoroutinesMatching("bindReply", "sync.(*Mutex).Lock") == 1 }))
	g.Release("reply.predone", sess)
	fmt.Println("second parked predone", g.AwaitParked("reply.predone", sess, 1, 2*time.Second))
	g.Release("reply.predone", sess)
	time.Sleep(300 * time.Millisecond)
	<-cmd.Done()
	fmt.Println("deliveries on completion channel:", len(ch), "status", cmd.Status(), "health", sess.Health(), "pending", erpc.VerifPendingCalls(sess), erpc.VerifStatusName(erpc.VerifSessionStatus(sess)))
}
