// c05thrift drives proto/thriftproto (-mode bin | struct): Pack into a buffer, Unpack through
// readers delivering the bytes in different chunkings, back-to-back frame streams. The
// package's init switches the global service method mapper and default codec, hence its own
// binary. The THeader framing is a library: frames are compared field by field, sizes
// against the byte length of the frame the implementation itself wrote.
package main

import (
	"flag"
	"fmt"
	"log"

	"verifharness/c05lib"
	. "verifharness/hlib"

	"git.apache.org/thrift.git/lib/go/thrift"
	"github.com/henrylee2cn/erpc/v6"
	"github.com/henrylee2cn/erpc/v6/proto/thriftproto"
	"github.com/henrylee2cn/erpc/v6/socket"
)

var modeFlag = flag.String("mode", "bin", "bin | struct")

// blob is the thrift struct used as body in struct mode: one binary field.
type blob struct{ B []byte }

func (p *blob) Read(ip thrift.TProtocol) error {
	if _, err := ip.ReadStructBegin(); err != nil {
		return err
	}
	for {
		_, ft, id, err := ip.ReadFieldBegin()
		if err != nil {
			return err
		}
		if ft == thrift.STOP {
			break
		}
		if id == 1 && ft == thrift.STRING {
			if p.B, err = ip.ReadBinary(); err != nil {
				return err
			}
		} else if err = ip.Skip(ft); err != nil {
			return err
		}
		if err = ip.ReadFieldEnd(); err != nil {
			return err
		}
	}
	return ip.ReadStructEnd()
}

func (p *blob) Write(op thrift.TProtocol) error {
	if err := op.WriteStructBegin("blob"); err != nil {
		return err
	}
	if err := op.WriteFieldBegin("b", thrift.STRING, 1); err != nil {
		return err
	}
	if err := op.WriteBinary(p.B); err != nil {
		return err
	}
	if err := op.WriteFieldEnd(); err != nil {
		return err
	}
	if err := op.WriteFieldStop(); err != nil {
		return err
	}
	return op.WriteStructEnd()
}

func (p *blob) String() string { return fmt.Sprintf("blob(%x)", p.B) }

var structMode bool

func newMessage(g *c05lib.GenMsg, ids []byte) socket.Message {
	m := g.NewMessage(ids)
	if structMode {
		m.SetBody(&blob{B: g.Body})
	}
	return m
}

func packOne(pf socket.ProtoFunc, g *c05lib.GenMsg, ids []byte) (out []byte, res string, writes int, size uint32) {
	rw := &c05lib.ChunkRW{}
	defer func() {
		if e := recover(); e != nil {
			out, res, writes = nil, "panic", rw.Writes
		}
	}()
	p := pf(rw)
	m := newMessage(g, ids)
	if err := p.Pack(m); err != nil {
		return append([]byte(nil), rw.W.Bytes()...), "err", rw.Writes, 0
	}
	return append([]byte(nil), rw.W.Bytes()...), "ok", rw.Writes, m.Size()
}

type unpacked struct {
	ok     bool
	fields string // (zSEQ xMT xMETHOD xSTATUS META xCODEC xBODY xIDS)
	size   uint32
}

func unpackOne(p socket.Proto) (u unpacked) {
	defer func() {
		if e := recover(); e != nil {
			c05lib.Panics++
			u = unpacked{}
		}
	}()
	m := socket.NewMessage(socket.WithNewBody(func(socket.Header) interface{} {
		if structMode {
			return &blob{}
		}
		return new([]byte)
	}))
	if err := p.Unpack(m); err != nil {
		return unpacked{}
	}
	var kv []string
	m.Meta().VisitAll(func(k, v []byte) { kv = append(kv, VL(VB(k), VB(v))) })
	var body []byte
	switch b := m.Body().(type) {
	case *[]byte:
		if b != nil {
			body = *b
		}
	case *blob:
		body = b.B
	}
	return unpacked{ok: true, size: m.Size(), fields: VL(
		VZ(int64(m.Seq())), VB([]byte{m.Mtype()}), VB([]byte(m.ServiceMethod())),
		VB(m.Status(true).EncodeQuery()), VL(kv...), VB([]byte{m.BodyCodec()}), VB(body),
		VB(m.XferPipe().IDs()))}
}

// decodeStream decodes frames from ONE protocol instance until the reader is exhausted.
func decodeStream(pf socket.ProtoFunc, chunks [][]byte) (frames []string, end string, sizes []uint32) {
	rw := &c05lib.ChunkRW{Chunks: chunks}
	p := pf(rw)
	for n := 0; ; n++ {
		rw.Skip()
		if len(rw.Chunks) == 0 && n > 0 {
			// the header transport may hold further complete frames in its own buffer:
			// keep reading until it reports the end of the stream
		}
		u := unpackOne(p)
		if !u.ok {
			rw.Skip()
			if len(rw.Chunks) == 0 {
				return frames, "sok", sizes // end of stream (or a failing frame: told apart by the count)
			}
			return frames, "sfail", sizes
		}
		frames = append(frames, VL(VS("ok"), u.fields))
		sizes = append(sizes, u.size)
	}
}

func main() {
	cfg := ParseFlags()
	log.SetFlags(0)
	erpc.SetLoggerLevel("OFF")
	r := cfg.Rng
	gz := RegTestFilters()
	st := NewStats("C05", cfg)
	structMode = *modeFlag == "struct"
	name := "thrift-" + *modeFlag
	var pf socket.ProtoFunc
	prof := &c05lib.Profile{
		MethodClasses: []int{c05lib.ClsText, c05lib.ClsText, c05lib.ClsASCII, c05lib.ClsUTF8, c05lib.ClsAll},
		MethodLens:    []int{0, 1, 7, 20, 255, 256, 1000},
		BodyClasses:   []int{c05lib.ClsAll, c05lib.ClsAll, c05lib.ClsJSON, c05lib.ClsSep},
		BodyLens:      []int{0, 0, 1, 16, 255, 256, 1000, 5000},
		Mtypes:        []byte{1, 2, 3}, AnyMtype: true, BigFields: true,
	}
	if structMode {
		pf = thriftproto.NewStructProtoFunc()
		prof.Codecs = []byte{'t', 't', 't', 0, 'j'}
	} else {
		pf = thriftproto.NewBinaryProtoFunc()
	}
	inLimits := func(g *c05lib.GenMsg, ids []byte) bool {
		if g.Mtype < 1 || g.Mtype > 3 {
			return false // the thrift message types are CALL, REPLY and ONEWAY only
		}
		if structMode {
			return g.Codec == 't' && len(ids) == 0
		}
		return g.Codec < 0x80 // Tp-BodyCodec carries string(rune(codec)); read back is its first byte
	}
	st.Rule = name + ": (a) pack/unpack of generated messages (all byte values in method/meta/status/body; lengths 0,1,255,256,65535,65536; seq extremes; every codec id (bin) / the codec restriction (struct); pipes over xor/rev/lenp/md5/gzip) under a size limit (sometimes at / one below the frame size), unpacked through 3 chunkings; (b) streams of 1-6 back-to-back frames through one protocol instance, 3 chunkings, sizes compared with each frame's own length; (c) frames decoded under a limit below their size. The THeader framing itself is the library's"
	w := NewCaseWriter(cfg)
	distinct := DistinctSet{}
	kind := VS(*modeFlag)

	for i := 0; i < cfg.N; i++ {
		gz.ResetTab()
		mode := r.Intn(20)
		switch {
		case mode < 12:
			st.Count("mode:pack")
			g := c05lib.GenMessage(r, st, prof)
			tight := r.Intn(5) == 0
			ids := c05lib.GenIds(r, !tight)
			if structMode && r.Intn(4) > 0 {
				ids = nil
			}
			socket.SetMessageSizeLimit(c05lib.BigLim)
			probe, pres, _, _ := packOne(pf, g, ids)
			packLim, unpackLim := uint32(c05lib.BigLim), uint32(c05lib.BigLim)
			if pres == "ok" && tight {
				switch r.Intn(3) {
				case 0:
					packLim = uint32(len(probe)) - uint32(r.Intn(2))
					st.Count("limit:tight-pack")
				default:
					unpackLim = uint32(len(probe)) - uint32(r.Intn(2))
					st.Count("limit:tight-unpack")
				}
			}
			gz.ResetTab()
			socket.SetMessageSizeLimit(packLim)
			out, res, _, size := packOne(pf, g, ids)
			human := c05lib.Clip(fmt.Sprintf("%s pack packlim=%d unpacklim=%d ids=%x msg=%s", name, packLim, unpackLim, ids, g.Val()))
			st.Count("pack:" + res)
			inl := inLimits(g, ids)
			if inl {
				st.Count("guard:within-limits")
			} else {
				st.Count("guard:outside-limits")
			}
			packObs, unpObs := "s"+res, "snone"
			if res == "ok" {
				sizeFlag := "sown"
				if int(size) != len(out) {
					sizeFlag = "sother"
					st.Fail(i, "size-not-own", fmt.Sprintf("Pack reports size %d for a frame of %d bytes", size, len(out)), human)
				}
				packObs = VL(VS("ok"), sizeFlag)
				socket.SetMessageSizeLimit(unpackLim)
				var first string
				for ci, ch := range c05lib.Chunkings(r, out) {
					fr, end, sizes := decodeStream(pf, ch)
					cur := "sfail"
					if len(fr) == 1 && end == "sok" {
						cur = fr[0]
					}
					if ci == 0 {
						first, unpObs = cur, cur
						if inl && packLim == c05lib.BigLim && unpackLim == c05lib.BigLim {
							want := c05lib.DefaultExpect(g, ids, 0)
							var kv []string
							for _, p := range want.Meta {
								kv = append(kv, VL(VB(p[0]), VB(p[1])))
							}
							w := VL(VS("ok"), VL(VZ(int64(want.Seq)), VB([]byte{want.Mtype}), VB(want.Method), VB(want.Status), VL(kv...), VB([]byte{want.Codec}), VB(want.Body), VB(ids)))
							if cur != w {
								st.Fail(i, "roundtrip", "unpack(pack(m)) differs from m: got "+cur+" want "+w, human)
							}
						}
					} else if cur != first {
						st.Fail(i, "chunking", fmt.Sprintf("chunking %d decodes differently", ci), human)
					}
					if len(sizes) == 1 && int(sizes[0]) != len(out) {
						st.Fail(i, "size-not-own", fmt.Sprintf("chunking %d: Unpack reports size %d for a frame of %d bytes", ci, sizes[0], len(out)), human)
					}
				}
			}
			fits := func(lim uint32) int64 {
				if uint32(len(out)) <= lim {
					return 1
				}
				return 0
			}
			w.Add(VL(VS("pack"), kind, VN(fits(packLim)), VN(fits(unpackLim)), VB(ids), gz.TabVal(), g.Val()), VL(packObs, unpObs))
			distinct.Add(human)
		case mode >= 17: // one frame arriving in chunks while the SAME protocol instance packs
			st.Count("mode:duplex")
			socket.SetMessageSizeLimit(c05lib.BigLim)
			g := c05lib.GenMessage(r, st, prof)
			if len(g.Body) > 20000 {
				g.Body = g.Body[:20000]
			}
			ids := c05lib.GenIds(r, false)
			if structMode {
				ids = nil
				g.Codec = 't'
			}
			if g.Mtype < 1 || g.Mtype > 3 {
				g.Mtype = 1
			}
			out, res, _, _ := packOne(pf, g, ids)
			if res != "ok" {
				w.Add(VL(VS("stream"), kind, gz.TabVal(), VL()), VL(VL(), "sok"))
				break
			}
			render := func(u unpacked) string {
				if !u.ok {
					return "sfail"
				}
				return VL(VS("ok"), u.fields) + " " + VN(int64(u.size))
			}
			rwA := &c05lib.ChunkRW{Chunks: [][]byte{append([]byte(nil), out...)}}
			alone := render(unpackOne(pf(rwA)))
			og := c05lib.GenMessage(r, st, prof)
			if len(og.Body) > 2000 {
				og.Body = og.Body[:2000]
			}
			og.Mtype = 3
			if structMode {
				og.Codec = 't'
			}
			var busyU unpacked
			busy, ok := c05lib.Duplex(pf, c05lib.Cuts(r, out), false,
				func(pr socket.Proto) string { busyU = unpackOne(pr); return render(busyU) },
				func(pr socket.Proto) {
					defer func() { recover() }()
					pr.Pack(newMessage(og, nil))
				})
			human := c05lib.Clip(fmt.Sprintf("%s duplex frame=%x", name, out))
			c05lib.DuplexOracle(st, i, alone, busy, ok, human)
			if ok && busyU.ok && int(busyU.size) != len(out) {
				st.Fail(i, "size-not-own", fmt.Sprintf("a frame of %d bytes is reported with size %d when the same protocol instance sends while it arrives", len(out), busyU.size), human)
			}
			obs := VL(VL(), "sfail")
			if ok && busyU.ok {
				obs = VL(VL(VL(VS("ok"), busyU.fields)), "sok")
			}
			w.Add(VL(VS("stream"), kind, gz.TabVal(), VL(VL(VB(ids), g.Val()))), obs)
			distinct.Add(human)
		default:
			st.Count("mode:stream")
			socket.SetMessageSizeLimit(c05lib.BigLim)
			k := 1 + r.Intn(6)
			var all []byte
			var lens []int
			var items []string
			var alone []string
			for j := 0; j < k; j++ {
				g := c05lib.GenMessage(r, st, prof)
				if len(g.Body) > 20000 {
					g.Body = g.Body[:20000]
				}
				ids := c05lib.GenIds(r, false)
				if structMode {
					ids = nil
				}
				out, res, _, _ := packOne(pf, g, ids)
				if res != "ok" {
					continue
				}
				fr, _, _ := decodeStream(pf, [][]byte{append([]byte(nil), out...)})
				if len(fr) != 1 {
					continue
				}
				alone = append(alone, fr[0])
				all = append(all, out...)
				lens = append(lens, len(out))
				items = append(items, VL(VB(ids), g.Val()))
			}
			human := c05lib.Clip(fmt.Sprintf("%s stream frames=%d bytes=%x", name, len(lens), all))
			var first string
			for ci, ch := range c05lib.Chunkings(r, all) {
				fr, end, sizes := decodeStream(pf, ch)
				cur := VL(VL(fr...), end)
				if ci == 0 {
					first = cur
					if end != "sok" || len(fr) != len(lens) {
						st.Fail(i, "stream-sync", fmt.Sprintf("stream of %d frames decoded to %d frames, end=%s", len(lens), len(fr), end), human)
					}
					for j := range fr {
						if j < len(alone) && fr[j] != alone[j] {
							st.Fail(i, "stream-sync", fmt.Sprintf("frame %d decodes differently in the stream than alone", j), human)
						}
					}
				} else if cur != first {
					st.Fail(i, "chunking", fmt.Sprintf("chunking %d decodes differently", ci), human)
				}
				for j := range sizes {
					if j < len(lens) && int(sizes[j]) != lens[j] {
						st.Fail(i, "size-not-own", fmt.Sprintf("chunking %d: frame %d reports size %d, its own length is %d (stream of %d frames)", ci, j, sizes[j], lens[j], len(lens)), human)
						break
					}
				}
			}
			w.Add(VL(VS("stream"), kind, gz.TabVal(), VL(items...)), first)
			distinct.Add(human)
		}
		if len(st.Samples) < 6 && i%7 == 0 {
			st.Samples = append(st.Samples, fmt.Sprintf("%s case %d mode=%d", name, i, mode))
		}
	}
	st.Distribution["unpack-panics"] = c05lib.Panics
	st.Evaluations = cfg.N
	st.DistinctNontrivial = len(distinct)
	st.Write(cfg, w)
}
