// c05thrift drives proto/thriftproto (-mode bin | struct): Pack into a buffer, Unpack through
// readers delivering the bytes in different chunkings, back-to-back frame streams. The
// package's init switches the global service method mapper and default codec, hence its own
// binary. The THeader framing is a library: frames are compared field by field, sizes
// against the byte length of the frame the implementation itself wrote.
package main

import (
	"bytes"
	"flag"
	"fmt"
	"log"

	"verifharness/c05lib"
	. "verifharness/hlib"

	"git.apache.org/thrift.git/lib/go/thrift"
	"github.com/henrylee2cn/erpc/v6"
	"github.com/henrylee2cn/erpc/v6/proto/thriftproto"
	"github.com/henrylee2cn/erpc/v6/socket"
)

var modeFlag = flag.String("mode", "bin", "bin | struct")

// blob is the thrift struct used as body in struct mode: one binary field.
type blob struct{ B []byte }

func (p *blob) Read(ip thrift.TProtocol) error {
	if _, err := ip.ReadStructBegin(); err != nil {
		return err
	}
	for {
		_, ft, id, err := ip.ReadFieldBegin()
		if err != nil {
			return err
		}
		if ft == thrift.STOP {
			break
		}
		if id == 1 && ft == thrift.STRING {
			if p.B, err = ip.ReadBinary(); err != nil {
				return err
			}
		} else if err = ip.Skip(ft); err != nil {
			return err
		}
		if err = ip.ReadFieldEnd(); err != nil {
			return err
		}
	}
	return ip.ReadStructEnd()
}

func (p *blob) Write(op thrift.TProtocol) error {
	if err := op.WriteStructBegin("blob"); err != nil {
		return err
	}
	if err := op.WriteFieldBegin("b", thrift.STRING, 1); err != nil {
		return err
	}
	if err := op.WriteBinary(p.B); err != nil {
		return err
	}
	if err := op.WriteFieldEnd(); err != nil {
		return err
	}
	if err := op.WriteFieldStop(); err != nil {
		return err
	}
	return op.WriteStructEnd()
}

func (p *blob) String() string { return fmt.Sprintf("blob(%x)", p.B) }

var structMode bool

func newMessage(g *c05lib.GenMsg, ids []byte) socket.Message {
	m := g.NewMessage(ids)
	if structMode {
		m.SetBody(&blob{B: g.Body})
	}
	return m
}

func packOne(pf socket.ProtoFunc, g *c05lib.GenMsg, ids []byte) (out []byte, res string, writes int, size uint32) {
	rw := &c05lib.ChunkRW{}
	defer func() {
		if e := recover(); e != nil {
			out, res, writes = nil, "panic", rw.Writes
		}
	}()
	p := pf(rw)
	m := newMessage(g, ids)
	if err := p.Pack(m); err != nil {
		return append([]byte(nil), rw.W.Bytes()...), "err", rw.Writes, 0
	}
	return append([]byte(nil), rw.W.Bytes()...), "ok", rw.Writes, m.Size()
}

type unpacked struct {
	ok     bool
	fields string // (zSEQ xMT xMETHOD xSTATUS META xCODEC xBODY xIDS)
	size   uint32
}

func unpackOne(p socket.Proto) (u unpacked) {
	defer func() {
		if e := recover(); e != nil {
			c05lib.Panics++
			u = unpacked{}
		}
	}()
	m := socket.NewMessage(socket.WithNewBody(func(socket.Header) interface{} {
		if structMode {
			return &blob{}
		}
		return new([]byte)
	}))
	if err := p.Unpack(m); err != nil {
		return unpacked{}
	}
	var kv []string
	m.Meta().VisitAll(func(k, v []byte) { kv = append(kv, VL(VB(k), VB(v))) })
	var body []byte
	switch b := m.Body().(type) {
	case *[]byte:
		if b != nil {
			body = *b
		}
	case *blob:
		body = b.B
	}
	return unpacked{ok: true, size: m.Size(), fields: VL(
		VZ(int64(m.Seq())), VB([]byte{m.Mtype()}), VB([]byte(m.ServiceMethod())),
		VB(m.Status(true).EncodeQuery()), VL(kv...), VB([]byte{m.BodyCodec()}), VB(body),
		VB(m.XferPipe().IDs()))}
}

// decodeStream decodes frames from ONE protocol instance until the reader is exhausted.
func decodeStream(pf socket.ProtoFunc, chunks [][]byte) (frames []string, end string, sizes []uint32) {
	rw := &c05lib.ChunkRW{Chunks: chunks}
	p := pf(rw)
	for n := 0; ; n++ {
		rw.Skip()
		if len(rw.Chunks) == 0 && n > 0 {
			// the header transport may hold further complete frames in its own buffer:
			// keep reading until it reports the end of the stream
		}
		u := unpackOne(p)
		if !u.ok {
			rw.Skip()
			if len(rw.Chunks) == 0 {
				return frames, "sok", sizes // end of stream (or a failing frame: told apart by the count)
			}
			return frames, "sfail", sizes
		}
		frames = append(frames, VL(VS("ok"), u.fields))
		sizes = append(sizes, u.size)
	}
}

func main() {
	cfg := ParseFlags()
	log.SetFlags(0)
	erpc.SetLoggerLevel("OFF")
	r := cfg.Rng
	gz := RegTestFilters()
	st := NewStats("C05", cfg)
	structMode = *modeFlag == "struct"
	name := "thrift-" + *modeFlag
	var pf socket.ProtoFunc
	prof := &c05lib.Profile{
		MethodClasses: []int{c05lib.ClsText, c05lib.ClsText, c05lib.ClsASCII, c05lib.ClsUTF8, c05lib.ClsAll},
		MethodLens:    []int{0, 1, 7, 20, 255, 256, 1000},
		BodyClasses:   []int{c05lib.ClsAll, c05lib.ClsAll, c05lib.ClsJSON, c05lib.ClsSep},
		BodyLens:      []int{0, 0, 1, 16, 255, 256, 1000, 5000},
		Mtypes:        []byte{1, 2, 3}, AnyMtype: true, BigFields: true,
	}
	if structMode {
		pf = thriftproto.NewStructProtoFunc()
		prof.Codecs = []byte{'t', 't', 't', 0, 'j'}
	} else {
		pf = thriftproto.NewBinaryProtoFunc()
	}
	inLimits := func(g *c05lib.GenMsg, ids []byte) bool {
		if g.Mtype < 1 || g.Mtype > 3 {
			return false // the thrift message types are CALL, REPLY and ONEWAY only
		}
		if structMode {
			return g.Codec == 't' && len(ids) == 0
		}
		return g.Codec < 0x80 // Tp-BodyCodec carries string(rune(codec)); read back is its first byte
	}
	st.Rule = name + ": (a) pack/unpack of generated messages (all byte values in method/meta/status/body; lengths 0,1,255,256,65535,65536; seq extremes; every codec id (bin) / the codec restriction (struct); pipes over xor/rev/lenp/md5/gzip) under a size limit (sometimes at / one below the frame size), unpacked through 3 chunkings; (b) streams of 1-6 back-to-back frames through one protocol instance, 3 chunkings, sizes compared with each frame's own length; (c) frames decoded under a limit below their size; (d) duplex: a Pack between two chunks of an inbound frame; (e) cross: 1-3 Packs and 1-3 Unpacks on ONE protocol instance over a connection whose every Write and Read is gated by the harness, interleaved by a random schedule with exact quiescence between steps (an Unpack begins / proceeds / ends between any two Writes of a Pack and vice versa); oracle: every Size() equals the byte length of the message's own frame and everything equals the quiet-connection reference; the event trace goes to the model's counter machine. The THeader framing itself is the library's"
	w := NewCaseWriter(cfg)
	distinct := DistinctSet{}
	kind := VS(*modeFlag)

	for i := 0; i < cfg.N; i++ {
		gz.ResetTab()
		mode := r.Intn(24)
		switch {
		case mode < 12:
			st.Count("mode:pack")
			g := c05lib.GenMessage(r, st, prof)
			tight := r.Intn(5) == 0
			ids := c05lib.GenIds(r, !tight)
			if structMode && r.Intn(4) > 0 {
				ids = nil
			}
			socket.SetMessageSizeLimit(c05lib.BigLim)
			probe, pres, _, _ := packOne(pf, g, ids)
			packLim, unpackLim := uint32(c05lib.BigLim), uint32(c05lib.BigLim)
			if pres == "ok" && tight {
				switch r.Intn(3) {
				case 0:
					packLim = uint32(len(probe)) - uint32(r.Intn(2))
					st.Count("limit:tight-pack")
				default:
					unpackLim = uint32(len(probe)) - uint32(r.Intn(2))
					st.Count("limit:tight-unpack")
				}
			}
			gz.ResetTab()
			socket.SetMessageSizeLimit(packLim)
			out, res, _, size := packOne(pf, g, ids)
			human := c05lib.Clip(fmt.Sprintf("%s pack packlim=%d unpacklim=%d ids=%x msg=%s", name, packLim, unpackLim, ids, g.Val()))
			st.Count("pack:" + res)
			inl := inLimits(g, ids)
			if inl {
				st.Count("guard:within-limits")
			} else {
				st.Count("guard:outside-limits")
			}
			packObs, unpObs := "s"+res, "snone"
			if res == "ok" {
				sizeFlag := "sown"
				if int(size) != len(out) {
					sizeFlag = "sother"
					st.Fail(i, "size-not-own", fmt.Sprintf("Pack reports size %d for a frame of %d bytes", size, len(out)), human)
				}
				packObs = VL(VS("ok"), sizeFlag)
				socket.SetMessageSizeLimit(unpackLim)
				var first string
				for ci, ch := range c05lib.Chunkings(r, out) {
					fr, end, sizes := decodeStream(pf, ch)
					cur := "sfail"
					if len(fr) == 1 && end == "sok" {
						cur = fr[0]
					}
					if ci == 0 {
						first, unpObs = cur, cur
						if inl && packLim == c05lib.BigLim && unpackLim == c05lib.BigLim {
							want := c05lib.DefaultExpect(g, ids, 0)
							var kv []string
							for _, p := range want.Meta {
								kv = append(kv, VL(VB(p[0]), VB(p[1])))
							}
							w := VL(VS("ok"), VL(VZ(int64(want.Seq)), VB([]byte{want.Mtype}), VB(want.Method), VB(want.Status), VL(kv...), VB([]byte{want.Codec}), VB(want.Body), VB(ids)))
							if cur != w {
								st.Fail(i, "roundtrip", "unpack(pack(m)) differs from m: got "+cur+" want "+w, human)
							}
						}
					} else if cur != first {
						st.Fail(i, "chunking", fmt.Sprintf("chunking %d decodes differently", ci), human)
					}
					if len(sizes) == 1 && int(sizes[0]) != len(out) {
						st.Fail(i, "size-not-own", fmt.Sprintf("chunking %d: Unpack reports size %d for a frame of %d bytes", ci, sizes[0], len(out)), human)
					}
				}
			}
			fits := func(lim uint32) int64 {
				if uint32(len(out)) <= lim {
					return 1
				}
				return 0
			}
			w.Add(VL(VS("pack"), kind, VN(fits(packLim)), VN(fits(unpackLim)), VB(ids), gz.TabVal(), g.Val()), VL(packObs, unpObs))
			distinct.Add(human)
		case mode >= 20: // Packs and Unpacks of ONE protocol instance under a forced interleaving
			st.Count("mode:cross")
			socket.SetMessageSizeLimit(c05lib.BigLim)
			genIn := func(maxBody int) (*c05lib.GenMsg, []byte) {
				g := c05lib.GenMessage(r, st, prof)
				if len(g.Body) > maxBody {
					g.Body = g.Body[:maxBody]
				}
				ids := c05lib.GenIds(r, false)
				if structMode {
					ids = nil
					g.Codec = 't'
				}
				if g.Mtype < 1 || g.Mtype > 3 {
					g.Mtype = byte(1 + r.Intn(3))
				}
				return g, ids
			}
			render := func(u unpacked) string {
				if !u.ok {
					return "sfail"
				}
				return VL(VS("ok"), u.fields) + " " + VN(int64(u.size))
			}
			// the inbound frames, each packed and decoded on a quiet connection
			var frames [][]byte
			var items []string
			decAlone := func(f []byte) string {
				return render(unpackOne(pf(&c05lib.ChunkRW{Chunks: [][]byte{append([]byte(nil), f...)}})))
			}
			q := &c05lib.XQuiet{Same: func(got, want []byte) bool {
				return len(got) == len(want) && decAlone(got) == decAlone(want)
			}}
			for j, k := 0, 1+r.Intn(3); j < k; j++ {
				g, ids := genIn(5000)
				out, res, _, _ := packOne(pf, g, ids)
				if res != "ok" {
					continue
				}
				a := unpackOne(pf(&c05lib.ChunkRW{Chunks: [][]byte{append([]byte(nil), out...)}}))
				if !a.ok {
					continue
				}
				frames = append(frames, out)
				items = append(items, VL(VB(ids), g.Val()))
				q.Unp = append(q.Unp, render(a))
			}
			tab := gz.TabVal()
			// the outgoing messages, each packed on a quiet connection
			type outMsg struct {
				g   *c05lib.GenMsg
				ids []byte
			}
			var outs []outMsg
			for j, k := 0, 1+r.Intn(3); j < k; j++ {
				g, ids := genIn(2000)
				out, res, _, size := packOne(pf, g, ids)
				if res != "ok" {
					continue
				}
				outs = append(outs, outMsg{g, ids})
				q.PackFrame = append(q.PackFrame, out)
				q.PackRes = append(q.PackRes, fmt.Sprintf("ok size=%d", size))
			}
			packSize := make([]uint32, len(outs))
			unp := make([]unpacked, len(frames))
			x := c05lib.Cross(r, pf, frames, false, len(outs),
				func(pr socket.Proto, j int) (res string) {
					defer func() {
						if e := recover(); e != nil {
							res = "panic"
						}
					}()
					m := newMessage(outs[j].g, outs[j].ids)
					if err := pr.Pack(m); err != nil {
						return "err"
					}
					packSize[j] = m.Size()
					return fmt.Sprintf("ok size=%d", m.Size())
				},
				func(pr socket.Proto, j int) string { unp[j] = unpackOne(pr); return render(unp[j]) })
			c05lib.CountCross(st, x)
			human := c05lib.Clip(fmt.Sprintf("%s cross inbound=%d frames %x outgoing=%d messages", name, len(frames), bytes.Join(frames, nil), len(outs)))
			c05lib.CrossOracle(st, i, x, q, human)
			allOK := x.OK
			if x.OK {
				// the protocol's own statement: Size() = the bytes of the message's own frame
				for j := range outs {
					if x.PackRes[j] != "err" && x.PackRes[j] != "panic" && int(packSize[j]) != len(x.PackFrame[j]) {
						st.Fail(i, "size-not-own", fmt.Sprintf("outgoing message %d: Pack reports size %d for the %d bytes it wrote, while an Unpack runs on the same protocol instance", j, packSize[j], len(x.PackFrame[j])), human+" schedule: "+x.Sched)
					}
					if x.PackRes[j] == "err" || x.PackRes[j] == "panic" {
						allOK = false
					}
				}
				for j := range frames {
					if unp[j].ok && int(unp[j].size) != len(frames[j]) {
						st.Fail(i, "size-not-own", fmt.Sprintf("inbound frame %d of %d bytes is reported with size %d, while a Pack runs on the same protocol instance", j, len(frames[j]), unp[j].size), human+" schedule: "+x.Sched)
					}
					if !unp[j].ok {
						allOK = false
					}
				}
			}
			if !allOK {
				// (reported by the oracle above; nothing the model could be compared on)
				w.Add(VL(VS("stream"), kind, tab, VL()), VL(VL(), "sok"))
				distinct.Add(human)
				break
			}
			var frs, sizes []string
			for j := range frames {
				frs = append(frs, VL(VS("ok"), unp[j].fields))
			}
			pj, uj := 0, 0
			for _, e := range x.Trace {
				switch e.K {
				case "pe":
					sizes = append(sizes, VL(VS("p"), VN(int64(packSize[pj]))))
					pj++
				case "ue":
					sizes = append(sizes, VL(VS("u"), VN(int64(unp[uj].size))))
					uj++
				}
			}
			w.Add(VL(VS("cross"), kind, tab, VL(items...), x.TraceVal()), VL(VL(frs...), "sok", VL(sizes...)))
			distinct.Add(human + x.Sched)
		case mode >= 17: // one frame arriving in chunks while the SAME protocol instance packs
			st.Count("mode:duplex")
			socket.SetMessageSizeLimit(c05lib.BigLim)
			g := c05lib.GenMessage(r, st, prof)
			if len(g.Body) > 20000 {
				g.Body = g.Body[:20000]
			}
			ids := c05lib.GenIds(r, false)
			if structMode {
				ids = nil
				g.Codec = 't'
			}
			if g.Mtype < 1 || g.Mtype > 3 {
				g.Mtype = 1
			}
			out, res, _, _ := packOne(pf, g, ids)
			if res != "ok" {
				w.Add(VL(VS("stream"), kind, gz.TabVal(), VL()), VL(VL(), "sok"))
				break
			}
			render := func(u unpacked) string {
				if !u.ok {
					return "sfail"
				}
				return VL(VS("ok"), u.fields) + " " + VN(int64(u.size))
			}
			rwA := &c05lib.ChunkRW{Chunks: [][]byte{append([]byte(nil), out...)}}
			alone := render(unpackOne(pf(rwA)))
			og := c05lib.GenMessage(r, st, prof)
			if len(og.Body) > 2000 {
				og.Body = og.Body[:2000]
			}
			og.Mtype = 3
			if structMode {
				og.Codec = 't'
			}
			var busyU unpacked
			busy, ok := c05lib.Duplex(pf, c05lib.Cuts(r, out), false,
				func(pr socket.Proto) string { busyU = unpackOne(pr); return render(busyU) },
				func(pr socket.Proto) {
					defer func() { recover() }()
					pr.Pack(newMessage(og, nil))
				})
			human := c05lib.Clip(fmt.Sprintf("%s duplex frame=%x", name, out))
			c05lib.DuplexOracle(st, i, alone, busy, ok, human)
			if ok && busyU.ok && int(busyU.size) != len(out) {
				st.Fail(i, "size-not-own", fmt.Sprintf("a frame of %d bytes is reported with size %d when the same protocol instance sends while it arrives", len(out), busyU.size), human)
			}
			obs := VL(VL(), "sfail")
			if ok && busyU.ok {
				obs = VL(VL(VL(VS("ok"), busyU.fields)), "sok")
			}
			w.Add(VL(VS("stream"), kind, gz.TabVal(), VL(VL(VB(ids), g.Val()))), obs)
			distinct.Add(human)
		default:
			st.Count("mode:stream")
			socket.SetMessageSizeLimit(c05lib.BigLim)
			k := 1 + r.Intn(6)
			var all []byte
			var lens []int
			var items []string
			var alone []string
			for j := 0; j < k; j++ {
				g := c05lib.GenMessage(r, st, prof)
				if len(g.Body) > 20000 {
					g.Body = g.Body[:20000]
				}
				ids := c05lib.GenIds(r, false)
				if structMode {
					ids = nil
				}
				out, res, _, _ := packOne(pf, g, ids)
				if res != "ok" {
					continue
				}
				fr, _, _ := decodeStream(pf, [][]byte{append([]byte(nil), out...)})
				if len(fr) != 1 {
					continue
				}
				alone = append(alone, fr[0])
				all = append(all, out...)
				lens = append(lens, len(out))
				items = append(items, VL(VB(ids), g.Val()))
			}
			human := c05lib.Clip(fmt.Sprintf("%s stream frames=%d bytes=%x", name, len(lens), all))
			var first string
			for ci, ch := range c05lib.Chunkings(r, all) {
				fr, end, sizes := decodeStream(pf, ch)
				cur := VL(VL(fr...), end)
				if ci == 0 {
					first = cur
					if end != "sok" || len(fr) != len(lens) {
						st.Fail(i, "stream-sync", fmt.Sprintf("stream of %d frames decoded to %d frames, end=%s", len(lens), len(fr), end), human)
					}
					for j := range fr {
						if j < len(alone) && fr[j] != alone[j] {
							st.Fail(i, "stream-sync", fmt.Sprintf("frame %d decodes differently in the stream than alone", j), human)
						}
					}
				} else if cur != first {
					st.Fail(i, "chunking", fmt.Sprintf("chunking %d decodes differently", ci), human)
				}
				for j := range sizes {
					if j < len(lens) && int(sizes[j]) != lens[j] {
						st.Fail(i, "size-not-own", fmt.Sprintf("chunking %d: frame %d reports size %d, its own length is %d (stream of %d frames)", ci, j, sizes[j], lens[j], len(lens)), human)
						break
					}
				}
			}
			w.Add(VL(VS("stream"), kind, gz.TabVal(), VL(items...)), first)
			distinct.Add(human)
		}
		if len(st.Samples) < 6 && i%7 == 0 {
			st.Samples = append(st.Samples, fmt.Sprintf("%s case %d mode=%d", name, i, mode))
		}
	}
	st.Distribution["unpack-panics"] = c05lib.Panics
	st.Evaluations = cfg.N
	st.DistinctNontrivial = len(distinct)
	st.Write(cfg, w)
}
