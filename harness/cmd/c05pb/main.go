// c05pb drives proto/pbproto: Pack into a buffer, Unpack through readers delivering the bytes
// in different chunkings, back-to-back frame streams, hostile protobuf payloads.
package main

import (
	"unicode/utf8"

	"verifharness/c05lib"
	. "verifharness/hlib"

	"github.com/henrylee2cn/erpc/v6/proto/pbproto"
)

func main() {
	cfg := ParseFlags()
	p := &c05lib.Prefixed{
		Prop: "C05", Name: "pb", PF: pbproto.NewPbProtoFunc(),
		Profile: &c05lib.Profile{
			MethodClasses: []int{c05lib.ClsText, c05lib.ClsText, c05lib.ClsASCII, c05lib.ClsUTF8, c05lib.ClsUTF8, c05lib.ClsAll, c05lib.ClsHigh},
			MethodLens:    []int{0, 1, 7, 20, 127, 128, 255, 256, 1000},
			BodyClasses:   []int{c05lib.ClsAll, c05lib.ClsAll, c05lib.ClsJSON, c05lib.ClsSep, c05lib.ClsUTF8},
			BodyLens:      []int{0, 0, 1, 16, 127, 128, 255, 256, 1000, 5000, 16383, 16384},
			Mtypes:        []byte{0, 1, 2, 3, 4, 5}, AnyMtype: true, BigFields: true,
		},
		InLimits:       func(g *c05lib.GenMsg) bool { return utf8.Valid(g.Method) },
		HostilePayload: c05lib.HostilePB,
		Rule:           "pbproto: (a) pack/unpack of generated messages (all byte values in meta/status/body, service methods: text, ASCII, valid multi-byte UTF-8, arbitrary bytes (invalid UTF-8 is refused by Pack); lengths 0,1,127,128,255,256,16383,16384,65535,65536; seq extremes and negatives (10-byte varints); zero-valued fields (omitted on the wire); every codec id; pipes over xor/rev/lenp/md5/gzip) under a size limit (sometimes exactly at / one below the frame size), unpacked through 3 chunkings; (b) streams of 1-6 back-to-back frames; (c) hostile frames: payloads built from wire types 0,1,2,5 with unknown / repeated / wrongly typed fields, non-canonical and overlong varints, invalid UTF-8, lengths beyond the input, truncation, rewritten size / pipe-length fields, empty frames",
	}
	p.Run(cfg)
}
