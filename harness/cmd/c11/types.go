// Fixed family of Go types the C11 harness renders both as Go values (reflection) and as
// case lines for the model (describe*).  No floats here: floats are test-only (libs.go).
package main

import (
	"fmt"
	"math/rand"
	"reflect"
	"unsafe"

	. "verifharness/hlib"
)

type (
	S   string
	I32 int32
	BS  []byte
	U8  uint8
	Bo  bool
)

type Scalars struct {
	S   string
	B   bool
	I   int
	I8  int8
	I16 int16
	I32 int32
	I64 int64
	U   uint
	U8  uint8
	U16 uint16
	U32 uint32
	U64 uint64
}

type Tagged struct {
	A string   `form:"a"`
	B int32    `form:"b"`
	C []string `form:"c"`
	D [2]int   `form:"d"`
	E bool     `form:"e e"`
	F uint64   `form:"x&y=z;%"`
	G []bool   `form:"ü世"`
	H int8     `form:"+"`
	J []uint8  `json:"j" form:"Jj"`
	K string   `json:"k"`
}

type Slices struct {
	Ss   []string
	Bs   []bool
	Is   []int
	I8s  []int8
	I16s []int16
	I32s []int32
	I64s []int64
	Us   []uint
	U8s  []uint8
	U16s []uint16
	U32s []uint32
	U64s []uint64
}

type Arrays struct {
	S3  [3]string
	B2  [2]bool
	I0  [0]int
	I1  [1]int64
	I84 [4]int8
	U5  [5]uint16
	U2  [2]uint64
	By  [3]byte
	I2  [2]int32 `form:"i2"`
}

type Inner struct {
	X int
	Y []string `form:"y"`
}

type Inner2 struct {
	P uint8
	Q [2]string
	R struct {
		T bool
		U []int16 `form:"uu"`
	}
}

type Nested struct {
	Inner
	In2  Inner2
	Z    string
	Deep struct {
		W [2]uint8
		V struct{ Qq bool }
	}
}

type Named struct {
	S  S
	I  I32
	Bs BS
	U  []U8
	B  Bo
	A  [2]S
}

type Empty struct{}

// tags in the option syntax of other tag readers: for the form codec the whole tag is the key
type CommaInner struct {
	City string  `form:"city,omitempty"`
	Zip  []int32 `form:",omitempty"`
}

type CommaTags struct {
	Name  string     `form:"name,omitempty"`
	Age   uint8      `form:"age"`
	Tags  []string   `form:"tags,omitempty,string"`
	Pair  [2]uint64  `form:"pair,string"`
	Dash  int        `form:"-"`
	Opt   bool       `form:",inline"`
	Inner CommaInner `form:""`
	J     int16      `json:"j,omitempty" form:"jj," xml:"j,attr"`
	K     []bool     `json:"k,omitempty"`
}

type OneSlice struct {
	A []int `form:"a"`
}

type OneArray struct {
	B [2]string `form:"b"`
}

// ---- outside the round-trip domain (still modelled, still must not panic) ----

type Ptrs struct {
	N int
	P *int
	Q *string
	R **int8
	L []*int
	T *Inner
}

type Dup struct {
	A int      `form:"k"`
	B int      `form:"k"`
	C []string `form:"k"`
	D string
}

type DupNested struct {
	X  int
	In Inner
	Y  []string
}

type Unexp struct {
	a  int
	B  string
	c  []string
	in Inner
	D  [2]int
	e  [2]int
}

type TaggedStruct struct {
	In Inner `form:"in"`
	N  int
	M  struct{ Z int } `form:"N"`
}

type Opaque struct {
	M  map[string]int
	Fn func()
	C  chan int
	If interface{}
	SS []Inner
	LL [][]int
	BB [][]byte
	AA [][2]int
	AS [2]Inner
	N  int
}

type formType struct {
	name      string
	typ       reflect.Type
	supported bool // within the round-trip domain of the property
}

var formTypes = []formType{
	{"Scalars", reflect.TypeOf(Scalars{}), true},
	{"Tagged", reflect.TypeOf(Tagged{}), true},
	{"Slices", reflect.TypeOf(Slices{}), true},
	{"Arrays", reflect.TypeOf(Arrays{}), true},
	{"Nested", reflect.TypeOf(Nested{}), true},
	{"Named", reflect.TypeOf(Named{}), true},
	{"Empty", reflect.TypeOf(Empty{}), true},
	{"OneSlice", reflect.TypeOf(OneSlice{}), true},
	{"OneArray", reflect.TypeOf(OneArray{}), true},
	{"CommaTags", reflect.TypeOf(CommaTags{}), true},
	{"Ptrs", reflect.TypeOf(Ptrs{}), false},
	{"Dup", reflect.TypeOf(Dup{}), false},
	{"DupNested", reflect.TypeOf(DupNested{}), false},
	{"Unexp", reflect.TypeOf(Unexp{}), false},
	{"TaggedStruct", reflect.TypeOf(TaggedStruct{}), false},
	{"Opaque", reflect.TypeOf(Opaque{}), false},
}

// leaf types for the plain codec (reflect path), value side and destination side
var plainLeafTypes = []reflect.Type{
	reflect.TypeOf(""), reflect.TypeOf(S("")), reflect.TypeOf(true), reflect.TypeOf(Bo(false)),
	reflect.TypeOf(int(0)), reflect.TypeOf(int8(0)), reflect.TypeOf(int16(0)), reflect.TypeOf(int32(0)), reflect.TypeOf(int64(0)),
	reflect.TypeOf(uint(0)), reflect.TypeOf(uint8(0)), reflect.TypeOf(uint16(0)), reflect.TypeOf(uint32(0)), reflect.TypeOf(uint64(0)),
	reflect.TypeOf(I32(0)), reflect.TypeOf(U8(0)), reflect.TypeOf(BS(nil)), reflect.TypeOf([]U8(nil)),
	reflect.TypeOf((*int)(nil)), reflect.TypeOf((**int8)(nil)), reflect.TypeOf((*S)(nil)), reflect.TypeOf((**string)(nil)),
	reflect.TypeOf((*BS)(nil)), reflect.TypeOf((*uint64)(nil)),
}

var plainOpaqueTypes = []reflect.Type{
	reflect.TypeOf([]int(nil)), reflect.TypeOf(Inner{}), reflect.TypeOf(map[string]int(nil)), reflect.TypeOf([2]int{}),
	reflect.TypeOf((*Inner)(nil)), reflect.TypeOf([]string(nil)),
}

// ---------------------------------------------------------------- describe

func bitsOf(k reflect.Kind) int64 {
	switch k {
	case reflect.Int8, reflect.Uint8:
		return 8
	case reflect.Int16, reflect.Uint16:
		return 16
	case reflect.Int32, reflect.Uint32:
		return 32
	case reflect.Int64, reflect.Uint64:
		return 64
	}
	return 0
}

func descLeaf(v reflect.Value) string {
	switch v.Kind() {
	case reflect.String:
		return VL(VS("str"), VB([]byte(v.String())))
	case reflect.Bool:
		return VL(VS("bool"), VBool(v.Bool()))
	case reflect.Int, reflect.Int8, reflect.Int16, reflect.Int32, reflect.Int64:
		return VL(VS("int"), VN(bitsOf(v.Kind())), fmt.Sprintf("z%d", v.Int()))
	case reflect.Uint, reflect.Uint8, reflect.Uint16, reflect.Uint32, reflect.Uint64:
		return VL(VS("uint"), VN(bitsOf(v.Kind())), fmt.Sprintf("n%d", v.Uint()))
	case reflect.Slice:
		if v.Type().Elem().Kind() == reflect.Uint8 {
			b := make([]byte, v.Len())
			for i := range b {
				b[i] = byte(v.Index(i).Uint())
			}
			return VL(VS("bytes"), VB(b))
		}
		return VS("opaque")
	case reflect.Ptr:
		if v.IsNil() {
			return VL(VS("ptr"), VS("nil"))
		}
		return VL(VS("ptr"), descLeaf(v.Elem()))
	}
	return VS("opaque")
}

func descField(v reflect.Value) string {
	switch v.Kind() {
	case reflect.Struct:
		t := v.Type()
		fs := make([]string, 0, t.NumField())
		for i := 0; i < t.NumField(); i++ {
			tf := t.Field(i)
			fs = append(fs, VL(VB([]byte(tf.Name)), VB([]byte(tf.Tag.Get("form"))), VBool(tf.PkgPath == ""), descField(v.Field(i))))
		}
		return VL(VS("struct"), VL(fs...))
	case reflect.Slice, reflect.Array:
		es := make([]string, 0, v.Len())
		for i := 0; i < v.Len(); i++ {
			es = append(es, descLeaf(v.Index(i)))
		}
		tag := "slice"
		if v.Kind() == reflect.Array {
			tag = "array"
		}
		return VL(VS(tag), descLeaf(reflect.Zero(v.Type().Elem())), VL(es...))
	}
	return VL(VS("leaf"), descLeaf(v))
}

// ---------------------------------------------------------------- generators

var specials = []string{"", " ", "&", "=", ";", "%", "+", "a b", "a&b=c", "%41", "%zz", "100%", "x;y", "a+b", "/?#[]@!$'()*,:", "~-_.", "\x00", "\xff\xfe", "é世界", "true", "0", "-1", "007"}

var spaces = []string{" ", "\t", "\n", "\r", "\v", "\f", "\u0085", "\u00a0", "\u2003", "\r\n", "  "}

func genString(r *rand.Rand) string {
	if r.Intn(8) == 0 {
		// leading / trailing white space must survive every codec
		core := genString(r)
		if r.Intn(2) == 0 {
			core = spaces[r.Intn(len(spaces))] + core
		}
		if r.Intn(2) == 0 {
			core += spaces[r.Intn(len(spaces))]
		}
		return core
	}
	switch r.Intn(9) {
	case 0:
		return ""
	case 1:
		return specials[r.Intn(len(specials))]
	case 2:
		return string(RandBytes(r, 1+r.Intn(12)))
	case 3:
		n := 1 + r.Intn(8)
		rs := make([]rune, n)
		for i := range rs {
			rs[i] = rune(0x20 + r.Intn(0x3000))
		}
		return string(rs)
	case 4:
		return string(RandBytes(r, 60+r.Intn(200)))
	case 5:
		return fmt.Sprintf("%d", r.Int63()-r.Int63())
	default:
		const al = "abcdefghijklmnopqrstuvwxyzABCDEFGHIJKLMNOPQRSTUVWXYZ0123456789 &=%+;-_.~"
		n := 1 + r.Intn(10)
		b := make([]byte, n)
		for i := range b {
			b[i] = al[r.Intn(len(al))]
		}
		return string(b)
	}
}

func realBits(k reflect.Kind) uint {
	b := bitsOf(k)
	if b == 0 {
		return 64
	}
	return uint(b)
}

func genInt(r *rand.Rand, bits uint) int64 {
	min := int64(-1) << (bits - 1)
	max := -(min + 1)
	switch r.Intn(10) {
	case 0:
		return min
	case 1:
		return max
	case 2:
		return 0
	case 3:
		return -1
	case 4:
		return 1
	case 5:
		return min + 1
	case 6:
		return max - 1
	case 7:
		return int64(r.Intn(200) - 100)
	default:
		return int64(r.Uint64()) >> (64 - bits)
	}
}

func genUint(r *rand.Rand, bits uint) uint64 {
	max := ^uint64(0) >> (64 - bits)
	switch r.Intn(8) {
	case 0:
		return max
	case 1:
		return 0
	case 2:
		return 1
	case 3:
		return max - 1
	case 4:
		return max/2 + 1
	case 5:
		return uint64(r.Intn(200))
	default:
		return r.Uint64() >> (64 - bits)
	}
}

func genLen(r *rand.Rand) int {
	switch r.Intn(10) {
	case 0, 1:
		return 0
	case 2:
		return 1
	case 3:
		return 10 + r.Intn(30)
	default:
		return 2 + r.Intn(4)
	}
}

// settable returns a settable view of v even for unexported struct fields.
func settable(v reflect.Value) reflect.Value {
	if v.CanSet() {
		return v
	}
	return reflect.NewAt(v.Type(), unsafe.Pointer(v.UnsafeAddr())).Elem()
}

// fillAny fills the addressable value v with generated content.
func fillAny(v reflect.Value, r *rand.Rand, depth int) {
	v = settable(v)
	switch v.Kind() {
	case reflect.String:
		v.SetString(genString(r))
	case reflect.Bool:
		v.SetBool(r.Intn(2) == 0)
	case reflect.Int, reflect.Int8, reflect.Int16, reflect.Int32, reflect.Int64:
		v.SetInt(genInt(r, realBits(v.Kind())))
	case reflect.Uint, reflect.Uint8, reflect.Uint16, reflect.Uint32, reflect.Uint64:
		v.SetUint(genUint(r, realBits(v.Kind())))
	case reflect.Struct:
		for i := 0; i < v.NumField(); i++ {
			fillAny(v.Field(i), r, depth+1)
		}
	case reflect.Slice:
		n := genLen(r)
		if v.Type().Elem().Kind() != reflect.Uint8 && depth > 2 {
			n = r.Intn(3)
		}
		s := reflect.MakeSlice(v.Type(), n, n+r.Intn(3))
		for i := 0; i < n; i++ {
			fillAny(s.Index(i), r, depth+1)
		}
		if n == 0 && r.Intn(2) == 0 {
			s = reflect.Zero(v.Type())
		}
		v.Set(s)
	case reflect.Array:
		for i := 0; i < v.Len(); i++ {
			fillAny(v.Index(i), r, depth+1)
		}
	case reflect.Ptr:
		if r.Intn(3) == 0 {
			v.Set(reflect.Zero(v.Type()))
			return
		}
		p := reflect.New(v.Type().Elem())
		fillAny(p.Elem(), r, depth+1)
		v.Set(p)
	case reflect.Map:
		if r.Intn(2) == 0 && v.Type().Key().Kind() == reflect.String && v.Type().Elem().Kind() == reflect.Int {
			m := reflect.MakeMap(v.Type())
			m.SetMapIndex(reflect.ValueOf("k"), reflect.ValueOf(r.Intn(5)))
			v.Set(m)
		}
	case reflect.Interface:
		if r.Intn(2) == 0 {
			v.Set(reflect.ValueOf(r.Intn(5)))
		}
	}
}

// formKey is one effective form key of a struct type with the kind the decoder will parse.
type formKey struct {
	name string
	kind reflect.Kind
	n    int // array length, -1 otherwise
}

func formKeys(t reflect.Type, out []formKey) []formKey {
	for i := 0; i < t.NumField(); i++ {
		f := t.Field(i)
		name := f.Tag.Get("form")
		if name == "" {
			if f.Type.Kind() == reflect.Struct {
				out = formKeys(f.Type, out)
				continue
			}
			name = f.Name
		}
		k := f.Type.Kind()
		n := -1
		if k == reflect.Slice || k == reflect.Array {
			if k == reflect.Array {
				n = f.Type.Len()
			}
			k = f.Type.Elem().Kind()
		}
		out = append(out, formKey{name, k, n})
	}
	return out
}
