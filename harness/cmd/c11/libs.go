// libs mode: json / xml / protobuf / thrift codecs are thin delegations to libraries; their
// round trip and panic-freedom are a tested contract (oracle only, no model run).  The
// repository's own logic here is the dispatch on nil / struct{} / *struct{} / other types.
package main

import (
	"context"
	"fmt"
	"math"
	"math/rand"
	"reflect"
	"strings"
	"unicode/utf8"

	. "verifharness/hlib"

	"git.apache.org/thrift.git/lib/go/thrift"
	"github.com/henrylee2cn/erpc/v6/codec"
	"github.com/henrylee2cn/erpc/v6/proto/pbproto/pb"
)

// ---- value families (exported fields only; strings restricted per codec) ----

type LScalars struct {
	S   string
	B   bool
	I   int
	I8  int8
	I16 int16
	I32 int32
	I64 int64
	U   uint
	U8  uint8
	U16 uint16
	U32 uint32
	U64 uint64
	F32 float32
	F64 float64
}

type LInner struct {
	X  int
	Ys []string
}

type LJSON struct {
	Sc  LScalars
	Ss  []string
	Is  []int64
	Us  []uint64
	Fs  []float64
	Bs  []bool
	By  []byte
	A3  [3]int16
	AS  [2]string
	In  LInner
	Ins []LInner
	P   *LInner
	M   map[string]int
}

type LXML struct {
	Sc  LScalars
	Ss  []string
	Is  []int64
	Us  []uint64
	Fs  []float64
	Bs  []bool
	In  LInner
	Ins []LInner
}

// TRec is a hand-written thrift struct (binary protocol): 1:string 2:i32 3:i64 4:bool 5:binary 6:list<i64> 7:double
type TRec struct {
	S  string
	I  int32
	L  int64
	B  bool
	Bi []byte
	Li []int64
	D  float64
}

func (p *TRec) Write(o thrift.TProtocol) error {
	if err := o.WriteStructBegin("TRec"); err != nil {
		return err
	}
	w := func(name string, t thrift.TType, id int16, f func() error) error {
		if err := o.WriteFieldBegin(name, t, id); err != nil {
			return err
		}
		if err := f(); err != nil {
			return err
		}
		return o.WriteFieldEnd()
	}
	if err := w("s", thrift.STRING, 1, func() error { return o.WriteString(p.S) }); err != nil {
		return err
	}
	if err := w("i", thrift.I32, 2, func() error { return o.WriteI32(p.I) }); err != nil {
		return err
	}
	if err := w("l", thrift.I64, 3, func() error { return o.WriteI64(p.L) }); err != nil {
		return err
	}
	if err := w("b", thrift.BOOL, 4, func() error { return o.WriteBool(p.B) }); err != nil {
		return err
	}
	if err := w("bi", thrift.STRING, 5, func() error { return o.WriteBinary(p.Bi) }); err != nil {
		return err
	}
	if err := w("li", thrift.LIST, 6, func() error {
		if err := o.WriteListBegin(thrift.I64, len(p.Li)); err != nil {
			return err
		}
		for _, x := range p.Li {
			if err := o.WriteI64(x); err != nil {
				return err
			}
		}
		return o.WriteListEnd()
	}); err != nil {
		return err
	}
	if err := w("d", thrift.DOUBLE, 7, func() error { return o.WriteDouble(p.D) }); err != nil {
		return err
	}
	if err := o.WriteFieldStop(); err != nil {
		return err
	}
	return o.WriteStructEnd()
}

func (p *TRec) Read(in thrift.TProtocol) error {
	if _, err := in.ReadStructBegin(); err != nil {
		return err
	}
	for {
		_, ft, id, err := in.ReadFieldBegin()
		if err != nil {
			return err
		}
		if ft == thrift.STOP {
			break
		}
		switch {
		case id == 1 && ft == thrift.STRING:
			p.S, err = in.ReadString()
		case id == 2 && ft == thrift.I32:
			p.I, err = in.ReadI32()
		case id == 3 && ft == thrift.I64:
			p.L, err = in.ReadI64()
		case id == 4 && ft == thrift.BOOL:
			p.B, err = in.ReadBool()
		case id == 5 && ft == thrift.STRING:
			p.Bi, err = in.ReadBinary()
		case id == 6 && ft == thrift.LIST:
			var et thrift.TType
			var n int
			et, n, err = in.ReadListBegin()
			if err == nil && et != thrift.I64 {
				err = fmt.Errorf("bad list element type")
			}
			if err == nil {
				p.Li = make([]int64, 0, 8)
				for i := 0; i < n; i++ {
					var x int64
					if x, err = in.ReadI64(); err != nil {
						break
					}
					p.Li = append(p.Li, x)
				}
			}
			if err == nil {
				err = in.ReadListEnd()
			}
		case id == 7 && ft == thrift.DOUBLE:
			p.D, err = in.ReadDouble()
		default:
			err = in.Skip(ft)
		}
		if err != nil {
			return err
		}
		if err = in.ReadFieldEnd(); err != nil {
			return err
		}
	}
	return in.ReadStructEnd()
}

var _ = context.Background

// ---- generators ----

func utf8String(r *rand.Rand, xmlSafe bool) string {
	for {
		s := genString(r)
		if !utf8.ValidString(s) {
			s = strings.ToValidUTF8(s, "?")
		}
		if xmlSafe {
			var b strings.Builder
			for _, c := range s {
				// XML 1.0 Char minus CR (normalised by parsers) and minus U+FFFD (escape target)
				if c == 0x9 || c == 0xA || (c >= 0x20 && c <= 0xD7FF) || (c >= 0xE000 && c < 0xFFFD) || (c >= 0x10000 && c <= 0x10FFFF) {
					b.WriteRune(c)
				}
			}
			s = b.String()
		}
		return s
	}
}

var hardFloats = []float64{math.Pi, -math.Pi, 1.0 / 3, 1.0000000001, 123456789.125, math.MaxFloat64, -math.MaxFloat64,
	math.SmallestNonzeroFloat64, 2.2250738585072014e-308, 2.225073858507201e-308, 4.9e-324, 1e-320, 3.4028234663852886e38 * 1.0000001,
	3.4028235677973366e38, 1e39, 1.401298464324817e-45 / 3, 1e-46, 0.1, 16777217, 9007199254740993, math.Inf(1), math.Inf(-1),
	math.Copysign(0, -1), 1e23, 8.41e21, 5e-324, 1.7976931348623157e308}

// libNoInf: encoding/json refuses +-Inf ("unsupported value"), so the json family stays finite.
var libNoInf bool

func genFloat(r *rand.Rand, bits int) float64 {
	var f float64
	if bits == 64 && r.Intn(3) == 0 {
		if h := hardFloats[r.Intn(len(hardFloats))]; !(libNoInf && math.IsInf(h, 0)) {
			return h
		}
	}
	switch r.Intn(10) {
	case 0:
		f = 0
	case 1:
		f = math.MaxFloat64
	case 2:
		f = math.SmallestNonzeroFloat64
	case 3:
		f = -1.5
	case 4:
		f = 1e21
	case 5:
		f = 1e-7
	case 6:
		f = float64(r.Int63())
	default:
		f = math.Float64frombits(r.Uint64())
	}
	if bits == 32 {
		switch {
		case r.Intn(8) == 0:
			f = math.MaxFloat32
		case r.Intn(8) == 0:
			f = math.SmallestNonzeroFloat32
		default:
			f = float64(math.Float32frombits(r.Uint32()))
		}
	}
	if math.IsNaN(f) || (libNoInf && math.IsInf(f, 0)) {
		f = 0.25
	}
	if bits == 32 {
		f = float64(float32(f))
		if math.IsInf(f, 0) && libNoInf {
			f = 0.5
		}
	}
	return f
}

// fillLib fills v like fillAny but with floats, maps and codec-appropriate strings.
func fillLib(v reflect.Value, r *rand.Rand, xmlSafe bool, depth int) {
	switch v.Kind() {
	case reflect.String:
		v.SetString(utf8String(r, xmlSafe))
	case reflect.Float32:
		v.SetFloat(genFloat(r, 32))
	case reflect.Float64:
		v.SetFloat(genFloat(r, 64))
	case reflect.Struct:
		for i := 0; i < v.NumField(); i++ {
			fillLib(v.Field(i), r, xmlSafe, depth+1)
		}
	case reflect.Slice:
		n := genLen(r)
		if depth > 1 && n > 6 {
			n = 3
		}
		if n == 0 {
			v.Set(reflect.Zero(v.Type()))
			return
		}
		s := reflect.MakeSlice(v.Type(), n, n)
		for i := 0; i < n; i++ {
			fillLib(s.Index(i), r, xmlSafe, depth+1)
		}
		v.Set(s)
	case reflect.Array:
		for i := 0; i < v.Len(); i++ {
			fillLib(v.Index(i), r, xmlSafe, depth+1)
		}
	case reflect.Ptr:
		if r.Intn(3) == 0 {
			v.Set(reflect.Zero(v.Type()))
			return
		}
		p := reflect.New(v.Type().Elem())
		fillLib(p.Elem(), r, xmlSafe, depth+1)
		v.Set(p)
	case reflect.Map:
		n := r.Intn(4)
		if n == 0 {
			v.Set(reflect.Zero(v.Type()))
			return
		}
		m := reflect.MakeMap(v.Type())
		for i := 0; i < n; i++ {
			m.SetMapIndex(reflect.ValueOf(utf8String(r, xmlSafe)), reflect.ValueOf(r.Intn(100)-50))
		}
		v.Set(m)
	default:
		fillAny(v, r, depth)
	}
}

// canon prints a value element-wise: nil and empty slices/maps are identified, floats by bits.
func canon(v reflect.Value) string {
	switch v.Kind() {
	case reflect.Float32, reflect.Float64:
		return fmt.Sprintf("f%x", math.Float64bits(v.Float()))
	case reflect.Struct:
		var b strings.Builder
		b.WriteString("{")
		for i := 0; i < v.NumField(); i++ {
			if v.Type().Field(i).PkgPath != "" || strings.HasPrefix(v.Type().Field(i).Name, "XXX_") {
				continue
			}
			b.WriteString(v.Type().Field(i).Name + ":" + canon(v.Field(i)) + " ")
		}
		return b.String() + "}"
	case reflect.Slice, reflect.Array:
		var b strings.Builder
		b.WriteString("[")
		for i := 0; i < v.Len(); i++ {
			b.WriteString(canon(v.Index(i)) + " ")
		}
		return b.String() + "]"
	case reflect.Ptr:
		if v.IsNil() {
			return "nil"
		}
		return "&" + canon(v.Elem())
	case reflect.Map:
		keys := v.MapKeys()
		strs := make([]string, 0, len(keys))
		for _, k := range keys {
			strs = append(strs, fmt.Sprintf("%q=%s", k.String(), canon(v.MapIndex(k))))
		}
		// order-insensitive
		for i := range strs {
			for j := i + 1; j < len(strs); j++ {
				if strs[j] < strs[i] {
					strs[i], strs[j] = strs[j], strs[i]
				}
			}
		}
		return "map[" + strings.Join(strs, " ") + "]"
	case reflect.String:
		return fmt.Sprintf("%q", v.String())
	}
	return fmt.Sprintf("%v", v.Interface())
}

// ---- one codec family ----

type libFamily struct {
	name  string
	c     codec.Codec
	fresh func(r *rand.Rand) (filled reflect.Value, zero reflect.Value) // pointers
	// expectDirty: canonical print of what decoding the encoding of v into a destination that
	// already holds old must give, per the codec's DOCUMENTED merge semantics (nil: exactly v)
	expectDirty func(old, v reflect.Value) string
}

// float families for the repository's own codecs (floats are outside the Coq model)
type F32 float32

type FFloats struct {
	F32 float32
	F64 float64
	Fs  []float64
	F3s []float32
	A   [2]float64
	N   F32 `form:"n"`
	In  struct {
		G  float64   `form:"g"`
		Gs []float64 `form:"g s"`
	}
	S string
	I int16
}

// encoding/json (documented): "To unmarshal a JSON object into a map, Unmarshal ... reuses the
// existing map, keeping existing entries"; slices are reset to length zero, arrays overwritten,
// null sets slices/maps/pointers to nil, and every struct field our encoder emits is overwritten.
func jsonExpectDirty(old, v reflect.Value) string {
	exp := reflect.New(v.Type()).Elem()
	exp.Set(v)
	var walk func(e, o reflect.Value)
	walk = func(e, o reflect.Value) {
		switch e.Kind() {
		case reflect.Struct:
			for i := 0; i < e.NumField(); i++ {
				walk(e.Field(i), o.Field(i))
			}
		case reflect.Ptr:
			if !e.IsNil() && !o.IsNil() {
				c := reflect.New(e.Type().Elem())
				c.Elem().Set(e.Elem())
				walk(c.Elem(), o.Elem())
				e.Set(c)
			}
		case reflect.Map:
			if !e.IsNil() && !o.IsNil() {
				m := reflect.MakeMap(e.Type())
				for _, k := range o.MapKeys() {
					m.SetMapIndex(k, o.MapIndex(k))
				}
				for _, k := range e.MapKeys() {
					m.SetMapIndex(k, e.MapIndex(k))
				}
				e.Set(m)
			}
		}
	}
	walk(exp, old)
	return canon(exp)
}

// encoding/xml (documented): "Unmarshal maps an XML element to a slice by extending the length of
// the slice and mapping the element to the newly created value" - slices are appended to; every
// other field our encoder emits is overwritten.
func xmlExpectDirty(old, v reflect.Value) string {
	exp := reflect.New(v.Type()).Elem()
	exp.Set(v)
	var walk func(e, o reflect.Value)
	walk = func(e, o reflect.Value) {
		switch e.Kind() {
		case reflect.Struct:
			for i := 0; i < e.NumField(); i++ {
				walk(e.Field(i), o.Field(i))
			}
		case reflect.Slice:
			if e.Type().Elem().Kind() != reflect.Uint8 {
				e.Set(reflect.AppendSlice(reflect.AppendSlice(reflect.MakeSlice(e.Type(), 0, o.Len()+e.Len()), o), e))
			}
		}
	}
	walk(exp, old)
	return canon(exp)
}

func formFloatExpectDirty(old, v reflect.Value) string { return canon(formExpectDirty(old, v)) }

func runLibs(cfg *RunCfg) {
	r := cfg.Rng
	st := NewStats("C11", cfg)
	st.Rule = "libs: per codec {json, xml, protobuf, thrift, plain on float32/float64 scalars and pointers, form on a struct with float32/float64 fields, slices, arrays, nested}: round trip of generated values (ints at width extremes, floats incl. pi, 1/3, >7 and 17 significant digits, MaxFloat64, above MaxFloat32, subnormals of both widths, +-Inf, -0, random bit patterns (NaN excluded: NaN != NaN), each encoder result kept alive UNCOPIED across later encodes (same and other codecs) and compared with its snapshot, the first result decoded only after two later encodes, each followed by a decode of the same bytes into a DIRTY destination (holding another decoded value) compared modulo the documented merge semantics, valid UTF-8 strings (XML: XML chars), slices/arrays/maps/nested/pointers as the library supports) compared element-wise; nil / struct{} / *struct{} / foreign types through the repository's dispatch; random bytes and mutated valid encodings into every destination must yield value or error, never a panic; distinct by (codec, encoded bytes or garbage)"
	distinct := DistinctSet{}
	jsonT := []reflect.Type{reflect.TypeOf(LJSON{}), reflect.TypeOf(LScalars{}), reflect.TypeOf(Slices{}), reflect.TypeOf(Arrays{}), reflect.TypeOf(Nested{}), reflect.TypeOf(Named{})}
	xmlT := []reflect.Type{reflect.TypeOf(LXML{}), reflect.TypeOf(LScalars{}), reflect.TypeOf(LInner{})}
	mk := func(ts []reflect.Type, xmlSafe bool) func(r *rand.Rand) (reflect.Value, reflect.Value) {
		return func(r *rand.Rand) (reflect.Value, reflect.Value) {
			t := ts[r.Intn(len(ts))]
			v := reflect.New(t)
			fillLib(v.Elem(), r, xmlSafe, 0)
			return v, reflect.New(t)
		}
	}
	plainFloatT := []reflect.Type{reflect.TypeOf(float64(0)), reflect.TypeOf(float32(0)), reflect.TypeOf(F32(0)), reflect.TypeOf((*float64)(nil)), reflect.TypeOf((**float32)(nil))}
	fams := []libFamily{
		{"json", codec.JSONCodec{}, mk(jsonT, false), jsonExpectDirty},
		{"xml", codec.XMLCodec{}, mk(xmlT, true), xmlExpectDirty},
		{"plain-float", codec.PlainCodec{}, func(r *rand.Rand) (reflect.Value, reflect.Value) {
			t := plainFloatT[r.Intn(len(plainFloatT))]
			v, z := reflect.New(t), reflect.New(t)
			fillLib(v.Elem(), r, false, 0)
			for e := v.Elem(); e.Kind() == reflect.Ptr; e = e.Elem() { // no nil pointers inside
				if e.IsNil() {
					e.Set(reflect.New(e.Type().Elem()))
					fillLib(e.Elem(), r, false, 0)
				}
			}
			zeroPtrs(z.Elem())
			return v, z
		}, nil},
		{"form-float", codec.FormCodec{}, mk([]reflect.Type{reflect.TypeOf(FFloats{})}, false), formFloatExpectDirty},
		{"protobuf", codec.ProtoCodec{}, func(r *rand.Rand) (reflect.Value, reflect.Value) {
			p := &pb.Payload{Seq: int32(genInt(r, 32)), Mtype: int32(genInt(r, 32)), ServiceMethod: utf8String(r, false),
				Status: RandBytes(r, genLen(r)), Meta: RandBytes(r, genLen(r)), BodyCodec: int32(genInt(r, 32)), Body: RandBytes(r, genLen(r))}
			return reflect.ValueOf(p), reflect.ValueOf(&pb.Payload{})
		}, nil},
		{"thrift", codec.ThriftCodec{}, func(r *rand.Rand) (reflect.Value, reflect.Value) {
			t := &TRec{S: genString(r), I: int32(genInt(r, 32)), L: genInt(r, 64), B: r.Intn(2) == 0, Bi: RandBytes(r, genLen(r)), D: genFloat(r, 64)}
			n := genLen(r)
			for i := 0; i < n; i++ {
				t.Li = append(t.Li, genInt(r, 64))
			}
			return reflect.ValueOf(t), reflect.ValueOf(&TRec{})
		}, nil},
	}
	for i := 0; i < cfg.N; i++ {
		f := fams[r.Intn(len(fams))]
		libNoInf = f.name == "json"
		flushStability(st, i)
		if r.Intn(8) == 0 {
			st.Count(f.name + ":message-body")
			bodyLibStep(r, st, i, f)
			continue
		}
		switch c := r.Intn(10); {
		case c < 5: // round trip
			st.Count(f.name + ":roundtrip")
			v, z := f.fresh(r)
			human := fmt.Sprintf("%s %s", f.name, canon(v.Elem()))
			if len(human) > 500 {
				human = human[:500] + "..."
			}
			enc, eo, emsg := guardedMarshal(f.c, v.Interface())
			if eo != oOK {
				st.Fail(i, f.name+"-encode", "encoder failed/panicked on a supported value: "+emsg, human)
				continue
			}
			do, dmsg := guardedUnmarshal(f.c, enc, z.Interface())
			if do == oPanic {
				st.Fail(i, f.name+"-decode-panic", "decoder panicked on its own encoding: "+dmsg, human)
			} else if do != oOK || canon(z.Elem()) != canon(v.Elem()) {
				st.Fail(i, f.name+"-roundtrip", fmt.Sprintf("decode(encode(v)) != v: %s got %s", dmsg, canon(z.Elem())), human)
			}
			// decode into a DIRTY destination: another value of the type was decoded into it before
			// (a reused reply/argument object).  Result = decoding into a fresh destination, modulo the
			// codec's documented merge semantics (json: map entries kept; xml: slices appended;
			// form: fields whose key is absent kept; plain, protobuf, thrift: none).
			a, d := f.fresh(r)
			for try := 0; try < 12 && a.Type() != v.Type(); try++ {
				a, d = f.fresh(r)
			}
			if a.Type() == v.Type() {
				encA, eoA, _ := guardedMarshal(f.c, a.Interface())
				if eoA == oOK {
					if doA, _ := guardedUnmarshal(f.c, encA, d.Interface()); doA == oOK {
						st.Count(f.name + ":dirty-destination")
						old := reflect.New(d.Elem().Type()).Elem()
						old.Set(d.Elem())
						oldS := canon(old)
						want := canon(v.Elem())
						if f.expectDirty != nil {
							want = f.expectDirty(old, v.Elem())
						}
						do2, msg2 := guardedUnmarshal(f.c, enc, d.Interface())
						if do2 == oPanic {
							st.Fail(i, f.name+"-decode-panic", "decoder panicked on a dirty destination: "+msg2, human)
						} else if do2 != oOK || canon(d.Elem()) != want {
							g := canon(d.Elem())
							if len(g) > 400 {
								g = g[:400] + "..."
							}
							if len(oldS) > 300 {
								oldS = oldS[:300] + "..."
							}
							st.Fail(i, f.name+"-dirty-destination", fmt.Sprintf("decoding into a destination that held %s gives %s %s", oldS, g, msg2), human)
						}
					}
				}
			}
			// encode several values before decoding any: the FIRST encoder result, never copied, is
			// decoded only after another value went through the same codec and one through another codec
			if raw1, ok := rawMarshal(f.c, v.Interface()); ok {
				v2, _ := f.fresh(r)
				rawMarshal(f.c, v2.Interface())
				g := fams[r.Intn(len(fams))]
				v3, _ := g.fresh(r)
				rawMarshal(g.c, v3.Interface())
				_, z1 := f.fresh(r)
				for try := 0; try < 12 && z1.Type() != v.Type(); try++ {
					_, z1 = f.fresh(r)
				}
				if z1.Type() == v.Type() {
					st.Count(f.name + ":decode-after-later-encodes")
					if do3, msg3 := guardedUnmarshal(f.c, raw1, z1.Interface()); do3 != oOK || canon(z1.Elem()) != canon(v.Elem()) {
						gs := canon(z1.Elem())
						if len(gs) > 300 {
							gs = gs[:300] + "..."
						}
						st.Fail(i, f.name+"-encoding-overwritten", "decode(encode(v1)) after encode(v2) != v1: "+msg3+" got "+gs, human)
					}
				}
			}
			distinct.Add(f.name + Hx(enc))
			if len(st.Samples) < 4 {
				st.Samples = append(st.Samples, fmt.Sprintf("%s -> %d bytes", human, len(enc)))
			}
		case c < 9: // garbage
			var data []byte
			if r.Intn(2) == 0 {
				st.Count(f.name + ":garbage-random")
				data = RandBytes(r, r.Intn(60))
			} else {
				st.Count(f.name + ":garbage-mutated")
				v, _ := f.fresh(r)
				enc, _, _ := guardedMarshal(f.c, v.Interface())
				data = mutate(r, enc)
			}
			_, z := f.fresh(r)
			do, dmsg := guardedUnmarshal(f.c, data, z.Interface())
			if do == oPanic {
				st.Fail(i, f.name+"-decode-panic", "decoder panicked: "+dmsg, fmt.Sprintf("%s %q", f.name, data))
			}
			st.Count(fmt.Sprintf("%s:garbage-outcome-%d", f.name, do))
			distinct.Add(f.name + "g" + Hx(data))
		default: // the repository's dispatch: nil, struct{}, *struct{}, foreign type
			st.Count(f.name + ":dispatch")
			units := []interface{}{nil, struct{}{}, &struct{}{}}
			u := units[r.Intn(3)]
			enc, eo, emsg := guardedMarshal(f.c, u)
			human := fmt.Sprintf("%s unit value %T", f.name, u)
			if f.name == "protobuf" || f.name == "thrift" {
				var empty interface{} = codec.PbEmptyStruct
				if f.name == "thrift" {
					empty = codec.ThriftEmptyStruct
				}
				want, _, _ := guardedMarshal(f.c, empty)
				if eo != oOK || string(enc) != string(want) {
					st.Fail(i, f.name+"-unit", "nil/struct{} is not encoded as the empty message: "+emsg, human)
				}
				if do, dmsg := guardedUnmarshal(f.c, RandBytes(r, r.Intn(20)), u); do != oOK {
					st.Fail(i, f.name+"-unit", "decoding into nil/struct{} is not a no-op: "+dmsg, human)
				}
				if _, eo2, _ := guardedMarshal(f.c, 42); eo2 != oErr {
					st.Fail(i, f.name+"-foreign", "foreign type not refused by Marshal", human)
				}
				x := 0
				if do, _ := guardedUnmarshal(f.c, enc, &x); do != oErr {
					st.Fail(i, f.name+"-foreign", "foreign type not refused by Unmarshal", human)
				}
			} else if eo == oPanic {
				st.Fail(i, f.name+"-encode", "encoder panicked on "+human, human)
			}
		}
	}
	flushStability(st, cfg.N-1)
	st.Extra = map[string]interface{}{"encodings_kept_alive_libs": stabilityHits}
	st.Evaluations = cfg.N
	st.DistinctNontrivial = len(distinct)
	st.Write(cfg, nil)
}
