// libs mode: json / xml / protobuf / thrift codecs are thin delegations to libraries; their
// round trip is a tested contract (oracle only, no model run).
package main

import (
	. "verifharness/hlib"
)

func runLibs(cfg *RunCfg) {
	st := NewStats("C11", cfg)
	st.Rule = "libs: placeholder"
	st.Write(cfg, nil)
}
