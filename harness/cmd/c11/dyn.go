// Struct types generated at run time (reflect.StructOf) for the form codec: the fixed family in
// types.go has a handful of hand-written tags; here the SHAPE of the type is an input drawn from
// cfg.Rng - number of fields, kinds, nesting, and above all the `form` tag of every field:
// absent, empty, plain, with options after a comma, with an empty name before the comma, a lone
// comma, "-", spaces, characters reserved in a query, quotes and backslashes, control bytes,
// invalid UTF-8, the field's own name, other keys (json, xml) before and after the form key,
// tags that are not in the conventional key:"value" format.  The form codec documents no option
// syntax: the value of Tag.Get("form") is the key, at the encoding site and at the decoding site.
package main

import (
	"fmt"
	"math/rand"
	"reflect"
	"strconv"
	"strings"
)

var dynScalars = []reflect.Type{
	reflect.TypeOf(""), reflect.TypeOf(true),
	reflect.TypeOf(int(0)), reflect.TypeOf(int8(0)), reflect.TypeOf(int16(0)), reflect.TypeOf(int32(0)), reflect.TypeOf(int64(0)),
	reflect.TypeOf(uint(0)), reflect.TypeOf(uint8(0)), reflect.TypeOf(uint16(0)), reflect.TypeOf(uint32(0)), reflect.TypeOf(uint64(0)),
	reflect.TypeOf(S("")), reflect.TypeOf(I32(0)), reflect.TypeOf(U8(0)), reflect.TypeOf(Bo(false)),
}

// kinds outside the round-trip domain (the decoder must still fail cleanly on them)
var dynOpaque = []reflect.Type{
	reflect.TypeOf((*int)(nil)), reflect.TypeOf(map[string]int(nil)), reflect.TypeOf([]Inner(nil)),
	reflect.TypeOf([][]byte(nil)), reflect.TypeOf((*Inner)(nil)), reflect.TypeOf([2]Inner{}),
}

var tagOptions = []string{"omitempty", "string", "omitempty,string", "inline", "required", "", " omitempty", "omitempty ", "-", "a=b", "x y", "ü"}

// genFormTagValue returns the value of the form tag of field number i (Go name `name`) and the
// class of its shape.  Every base name carries the field number, so that the keys of a type stay
// pairwise distinct however a reader splits the tag; the few shapes without a base name can
// collide, in which case the type is classed outside the round-trip domain (dynSupported).
func genFormTagValue(r *rand.Rand, i int, name string) (string, string) {
	var base string
	switch r.Intn(12) {
	case 0:
		base = strings.ToLower(name)
	case 1:
		base = name // the tag spells the field's own name
	case 2:
		base = fmt.Sprintf("k%d ü世", i)
	case 3:
		base = fmt.Sprintf("a&b=c;%%+%d", i)
	case 4:
		base = fmt.Sprintf("x y%d", i)
	case 5:
		base = fmt.Sprintf("q\"\\`%d", i)
	case 6:
		base = fmt.Sprintf("a:b%d", i)
	case 7:
		base = fmt.Sprintf("\x00\n\t%d", i)
	case 8:
		base = fmt.Sprintf("\xff\xfe%d", i)
	default:
		base = fmt.Sprintf("f%d", i)
	}
	opt := tagOptions[r.Intn(len(tagOptions))]
	switch r.Intn(20) {
	case 0, 1, 2, 3:
		return base, "plain"
	case 4, 5, 6, 7, 8, 9:
		return base + "," + opt, "name,options"
	case 10:
		return "," + opt, ",options"
	case 11:
		return fmt.Sprintf(",%s%d", opt, i), ",options"
	case 12:
		return []string{",", ",,", ", "}[r.Intn(3)], "commas-only"
	case 13:
		return []string{"-", "-,", "-," + opt}[r.Intn(3)], "dash"
	case 14:
		return " " + base, "leading-space"
	case 15:
		return base + " ", "trailing-space"
	case 16:
		return base + ",," + opt, "name,,options"
	case 17:
		return base + "," + opt + "," + fmt.Sprint(i), "name,options"
	case 18:
		return base + ",", "name,"
	default:
		return base, "plain"
	}
}

// genStructTag builds the whole tag string of a field.
func genStructTag(r *rand.Rand, i int, name string, st *dynStats) reflect.StructTag {
	var parts []string
	jsonPart := func() string {
		return "json:" + strconv.Quote([]string{strings.ToLower(name), "j,omitempty", "-", name + ",string"}[r.Intn(4)])
	}
	if r.Intn(4) == 0 {
		parts = append(parts, jsonPart())
	}
	switch c := r.Intn(20); {
	case c < 3:
		st.count("absent")
	case c == 3:
		st.count("empty")
		parts = append(parts, `form:""`)
	case c == 4:
		// not in the conventional format: Tag.Get gives ""
		st.count("unconventional")
		parts = append(parts, []string{"form:" + strings.ToLower(name), `form: "x"`, `form="x"`, `form`, `form:'x,y'`}[r.Intn(5)])
		return reflect.StructTag(strings.Join(parts, " "))
	case c == 5:
		// two form keys: the first one counts
		st.count("twice")
		v1, _ := genFormTagValue(r, i, name)
		v2, _ := genFormTagValue(r, i+100, name)
		parts = append(parts, "form:"+strconv.Quote(v1), "form:"+strconv.Quote(v2))
	default:
		v, class := genFormTagValue(r, i, name)
		st.count(class)
		parts = append(parts, "form:"+strconv.Quote(v))
	}
	if r.Intn(4) == 0 {
		parts = append(parts, "xml:"+strconv.Quote(strings.ToLower(name)+",attr"))
	}
	if r.Intn(6) == 0 {
		parts = append(parts, jsonPart())
	}
	sep := " "
	if r.Intn(8) == 0 {
		sep = "  "
	}
	return reflect.StructTag(strings.Join(parts, sep))
}

type dynStats struct{ counts map[string]int }

func (d *dynStats) count(k string) {
	if d.counts == nil {
		d.counts = map[string]int{}
	}
	d.counts[k]++
}

var dynFieldNames = []string{"F", "Name", "Age", "Tags", "Pair", "City", "Zip", "X", "Y", "Äb", "Z_9", "ID", "Value"}

// genDynStruct draws a struct type.  domain = stay inside the kinds of the round-trip domain.
func genDynStruct(r *rand.Rand, depth int, domain bool, st *dynStats) reflect.Type {
	n := 1 + r.Intn(5)
	if r.Intn(12) == 0 {
		n = 6 + r.Intn(6)
	}
	fields := make([]reflect.StructField, 0, n)
	for i := 0; i < n; i++ {
		name := fmt.Sprintf("%s%d", dynFieldNames[r.Intn(len(dynFieldNames))], i)
		var ft reflect.Type
		nested := false
		switch c := r.Intn(20); {
		case c < 9:
			ft = dynScalars[r.Intn(len(dynScalars))]
		case c < 13:
			ft = reflect.SliceOf(dynScalars[r.Intn(len(dynScalars))])
		case c < 16:
			ft = reflect.ArrayOf(r.Intn(5), dynScalars[r.Intn(len(dynScalars))])
		case c < 18 && depth < 2:
			ft = genDynStruct(r, depth+1, domain, st)
			nested = true
		case c == 18 && !domain:
			ft = dynOpaque[r.Intn(len(dynOpaque))]
		default:
			ft = dynScalars[r.Intn(len(dynScalars))]
		}
		f := reflect.StructField{Name: name, Type: ft}
		if nested && (domain || r.Intn(4) != 0) {
			// a nested struct is flattened only when the form tag reads empty
			switch r.Intn(4) {
			case 0:
				f.Tag = `form:""`
			case 1:
				f.Tag = reflect.StructTag("json:" + strconv.Quote(strings.ToLower(name)+",omitempty"))
			case 2:
				f.Tag = reflect.StructTag("form:" + strings.ToLower(name)) // unconventional: reads empty
			}
		} else {
			f.Tag = genStructTag(r, i+10*depth, name, st)
		}
		fields = append(fields, f)
	}
	return reflect.StructOf(fields)
}

// dynSupported: is the type inside the round-trip domain of the form codec?  Exported fields of
// the supported kinds, nested structs untagged, and the keys of the flattened struct - the value
// of the form tag, or the field name when it is empty - pairwise distinct.
func dynSupported(t reflect.Type) bool {
	var kindsOK func(t reflect.Type) bool
	scalar := func(k reflect.Kind) bool {
		return k == reflect.String || k == reflect.Bool || (k >= reflect.Int && k <= reflect.Int64) || (k >= reflect.Uint && k <= reflect.Uint64)
	}
	kindsOK = func(t reflect.Type) bool {
		for i := 0; i < t.NumField(); i++ {
			f := t.Field(i)
			if f.PkgPath != "" {
				return false
			}
			switch k := f.Type.Kind(); {
			case k == reflect.Struct:
				if f.Tag.Get("form") != "" || !kindsOK(f.Type) {
					return false
				}
			case k == reflect.Slice || k == reflect.Array:
				if !scalar(f.Type.Elem().Kind()) {
					return false
				}
			case !scalar(k):
				return false
			}
		}
		return true
	}
	if !kindsOK(t) {
		return false
	}
	seen := map[string]bool{}
	for _, k := range formKeys(t, nil) {
		if seen[k.name] {
			return false
		}
		seen[k.name] = true
	}
	return true
}

var dynTagStats dynStats

// pickFormType: a type of the fixed family or a freshly generated one.
func pickFormType(r *rand.Rand) formType {
	if r.Intn(5) < 3 {
		return formTypes[r.Intn(len(formTypes))]
	}
	domain := r.Intn(4) != 0
	t := genDynStruct(r, 0, domain, &dynTagStats)
	if dynSupported(t) {
		return formType{"Dyn", t, true}
	}
	return formType{"DynOutside", t, false}
}

// typeHuman prints a generated type with its tags (bounded).
func typeHuman(ft formType) string {
	if !strings.HasPrefix(ft.name, "Dyn") {
		return ft.name
	}
	s := ft.name + " " + ft.typ.String()
	if len(s) > 600 {
		s = s[:600] + "..."
	}
	return s
}

// differingFields names the fields (flattened, with their form tags) whose content after the
// round trip differs from the source: the key a field travels under is the first suspect.
func differingFields(src, got reflect.Value) string {
	var out []string
	var walk func(a, b reflect.Value, prefix string)
	walk = func(a, b reflect.Value, prefix string) {
		for i := 0; i < a.NumField(); i++ {
			f := a.Type().Field(i)
			if f.Type.Kind() == reflect.Struct && f.Tag.Get("form") == "" {
				walk(a.Field(i), b.Field(i), prefix+f.Name+".")
				continue
			}
			x, y := a.Field(i), b.Field(i)
			if (x.Kind() == reflect.Slice || x.Kind() == reflect.Array) && x.Len() == 0 && y.Len() == 0 {
				continue
			}
			if deepPrint(x) != deepPrint(y) && len(out) < 4 {
				out = append(out, fmt.Sprintf("%s%s (form tag %q): %s came back as %s", prefix, f.Name, f.Tag.Get("form"), clipStr(deepPrint(x), 60), clipStr(deepPrint(y), 60)))
			}
		}
	}
	walk(src, got, "")
	if len(out) == 0 {
		return ""
	}
	return "; differing fields: " + strings.Join(out, "; ")
}

func clipStr(s string, n int) string {
	if len(s) > n {
		return s[:n] + "..."
	}
	return s
}
