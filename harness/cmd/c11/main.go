// c11 drives the body codecs of /repo/codec.
//   -mode model (default): plain and form codecs on generated values and on garbage; every case is
//                          also run through the Coq model (Corr/C11.v).
//   -mode libs:            json / xml / protobuf / thrift delegations (tested contract, oracle only).
package main

import (
	"bytes"
	"flag"
	"fmt"
	"io"
	"math/rand"
	"net/url"
	"reflect"
	"sort"
	"strings"

	. "verifharness/hlib"

	"github.com/henrylee2cn/erpc/v6/codec"
)

var mode = flag.String("mode", "model", "model|libs")

func main() {
	cfg := ParseFlags()
	if *mode == "libs" {
		runLibs(cfg)
		return
	}
	runModel(cfg)
}

// ---------------------------------------------------------------- guarded codec calls

type outcome int

const (
	oOK outcome = iota
	oErr
	oPanic
)

func guardedMarshal(c codec.Codec, v interface{}) (b []byte, o outcome, msg string) {
	defer func() {
		if e := recover(); e != nil {
			b, o, msg = nil, oPanic, fmt.Sprint(e)
		}
	}()
	out, err := c.Marshal(v)
	if err != nil {
		return nil, oErr, err.Error()
	}
	trackEncoding(c.Name(), out) // kept alive, uncopied: a later encode must not change it
	return append([]byte{}, out...), oOK, ""
}

// rawMarshal returns exactly what the encoder returned (no copy) for steps that decode an
// encoding only after further values have been encoded.
func rawMarshal(c codec.Codec, v interface{}) (b []byte, ok bool) {
	defer func() {
		if e := recover(); e != nil {
			b, ok = nil, false
		}
	}()
	out, err := c.Marshal(v)
	if err != nil {
		return nil, false
	}
	trackEncoding(c.Name(), out)
	return out, true
}

func guardedUnmarshal(c codec.Codec, data []byte, v interface{}) (o outcome, msg string) {
	defer func() {
		if e := recover(); e != nil {
			o, msg = oPanic, fmt.Sprint(e)
		}
	}()
	if err := c.Unmarshal(append([]byte{}, data...), v); err != nil {
		return oErr, err.Error()
	}
	return oOK, ""
}

func encObs(b []byte, o outcome) string {
	switch o {
	case oOK:
		return VL(VS("ok"), VB(b))
	case oErr:
		return VS("err")
	}
	return VS("panic")
}

// decObsState is decObs for struct destinations of the form codec: the content afterwards is
// observed on error too (fields and array elements written before the failing one).
func decObsState(o outcome, val string) string {
	if o == oErr {
		return VL(VS("err"), val)
	}
	return decObs(o, val)
}

func decObs(o outcome, val string) string {
	switch o {
	case oOK:
		return VL(VS("val"), val)
	case oErr:
		return VS("err")
	}
	return VS("panic")
}

var (
	formC  = codec.FormCodec{}
	plainC = codec.PlainCodec{}
)

// ---------------------------------------------------------------- url.Values rendering

func descValues(m map[string][]string) string {
	ks := make([]string, 0, len(m))
	for k := range m {
		ks = append(ks, k)
	}
	sort.Strings(ks)
	es := make([]string, 0, len(ks))
	for _, k := range ks {
		vs := make([]string, 0, len(m[k]))
		for _, v := range m[k] {
			vs = append(vs, VB([]byte(v)))
		}
		es = append(es, VL(VB([]byte(k)), VL(vs...)))
	}
	return VL(VS("vals"), VL(es...))
}

func genValues(r *rand.Rand) url.Values {
	m := url.Values{}
	n := r.Intn(5)
	for i := 0; i < n; i++ {
		k := genString(r)
		if r.Intn(3) == 0 {
			k = fmt.Sprintf("k%d", r.Intn(4))
		}
		nv := 1 + r.Intn(3)
		if r.Intn(8) == 0 {
			nv = 0
		}
		vs := make([]string, 0, nv)
		for j := 0; j < nv; j++ {
			vs = append(vs, genString(r))
		}
		m[k] = vs
	}
	return m
}

// ---------------------------------------------------------------- garbage for the form decoder

func garbageValue(r *rand.Rand, k reflect.Kind) string {
	bits := realBits(k)
	signed := k >= reflect.Int && k <= reflect.Int64
	switch r.Intn(14) {
	case 0:
		return ""
	case 1:
		if r.Intn(3) == 0 { // a valid literal wrapped in white space: strconv rejects it
			core := []string{"1", "0", "-5", "true", "false", "255", "t"}[r.Intn(7)]
			return spaces[r.Intn(len(spaces))] + core + []string{"", spaces[r.Intn(len(spaces))]}[r.Intn(2)]
		}
		return []string{"abc", "1e3", " 1", "1 ", "0x10", "1_0", "+", "-", "--1", "+-1", "１", "1.0", "NaN"}[r.Intn(13)]
	case 2:
		return []string{"+1", "-0", "+0", "007", "-007", "+0000000000000000000000000000042", "00000000000000000000000000000000000000000000000000000255"}[r.Intn(7)]
	case 3:
		return []string{"true", "false", "1", "0", "t", "f", "T", "F", "TRUE", "FALSE", "True", "False", "yes", "tRue", "no", "2"}[r.Intn(16)]
	case 4, 5:
		// boundaries of the width
		var cands []string
		if signed {
			min := int64(-1) << (bits - 1)
			max := -(min + 1)
			cands = []string{fmt.Sprint(min), fmt.Sprint(max), fmt.Sprint(uint64(max) + 1), "-" + fmt.Sprint(uint64(max)+2), fmt.Sprint(min + 1), fmt.Sprint(max - 1)}
		} else {
			max := ^uint64(0) >> (64 - bits)
			cands = []string{fmt.Sprint(max), fmt.Sprint(max - 1), "0", "-1", "-0"}
			if bits < 64 {
				cands = append(cands, fmt.Sprint(max+1))
			}
		}
		cands = append(cands, "18446744073709551615", "18446744073709551616", "9223372036854775807", "9223372036854775808", "-9223372036854775808", "-9223372036854775809", "99999999999999999999999999", "-99999999999999999999999999", "128", "127", "-128", "-129", "255", "256", "65535", "65536", "32767", "32768", "4294967295", "4294967296", "2147483647", "2147483648", "-2147483648", "-2147483649")
		return cands[r.Intn(len(cands))]
	case 6:
		return string(RandBytes(r, 1+r.Intn(6)))
	case 7:
		return genString(r)
	default:
		if signed {
			return fmt.Sprint(genInt(r, bits))
		}
		if k >= reflect.Uint && k <= reflect.Uint64 {
			return fmt.Sprint(genUint(r, bits))
		}
		if k == reflect.Bool {
			return []string{"true", "false"}[r.Intn(2)]
		}
		return genString(r)
	}
}

func rawEscape(r *rand.Rand, s string) string {
	switch r.Intn(6) {
	case 0:
		return s // raw, unescaped
	case 1:
		// escape everything as %xx with random hex case
		var b strings.Builder
		for i := 0; i < len(s); i++ {
			if r.Intn(2) == 0 {
				fmt.Fprintf(&b, "%%%02x", s[i])
			} else {
				fmt.Fprintf(&b, "%%%02X", s[i])
			}
		}
		return b.String()
	default:
		return url.QueryEscape(s)
	}
}

func garbageQuery(r *rand.Rand, t reflect.Type) ([]byte, string) {
	keys := formKeys(t, nil)
	switch c := r.Intn(20); {
	case c == 0:
		return RandBytes(r, r.Intn(40)), "random-bytes"
	case c == 1:
		frag := []string{"%", "%4", "%zz", "%4g", ";", "a;b=1", "&&", "=", "==", "&=&", "%00", "+", "a=%", "a=%f", "=x", "%41=%42"}
		n := 1 + r.Intn(4)
		var parts []string
		for i := 0; i < n; i++ {
			parts = append(parts, frag[r.Intn(len(frag))])
		}
		return []byte(strings.Join(parts, []string{"&", "", "="}[r.Intn(3)])), "escape-garbage"
	case c == 2 || len(keys) == 0:
		return []byte(genValues(r).Encode()), "foreign-keys"
	}
	var parts []string
	nk := 1 + r.Intn(len(keys)+1)
	for i := 0; i < nk; i++ {
		k := keys[r.Intn(len(keys))]
		nv := 1
		switch r.Intn(5) {
		case 0:
			nv = 1 + r.Intn(7)
		case 1:
			if k.n >= 0 {
				nv = k.n + r.Intn(3)
			} else {
				nv = 2
			}
		}
		name := k.name
		if r.Intn(25) == 0 {
			name = strings.ToLower(name)
		}
		for j := 0; j < nv; j++ {
			if r.Intn(30) == 0 {
				parts = append(parts, rawEscape(r, name)) // key without '='
				continue
			}
			parts = append(parts, rawEscape(r, name)+"="+rawEscape(r, garbageValue(r, k.kind)))
		}
	}
	if r.Intn(3) == 0 {
		r.Shuffle(len(parts), func(i, j int) { parts[i], parts[j] = parts[j], parts[i] })
	}
	return []byte(strings.Join(parts, "&")), "typed-keys"
}

func mutate(r *rand.Rand, b []byte) []byte {
	b = append([]byte{}, b...)
	n := 1 + r.Intn(3)
	for i := 0; i < n; i++ {
		switch r.Intn(5) {
		case 0:
			if len(b) > 0 {
				b[r.Intn(len(b))] = byte(r.Intn(256))
			}
		case 1:
			if len(b) > 0 {
				b = b[:r.Intn(len(b))]
			}
		case 2:
			p := r.Intn(len(b) + 1)
			ins := []string{"%", ";", "&", "=", "%G1", "+", "9", "-"}[r.Intn(8)]
			b = append(b[:p], append([]byte(ins), b[p:]...)...)
		case 3:
			if len(b) > 1 {
				p := r.Intn(len(b) - 1)
				b = append(b[:p], b[p+1:]...)
			}
		case 4:
			if len(b) > 0 {
				p := r.Intn(len(b))
				b = append(b, b[p:]...)
			}
		}
	}
	return b
}

// ---------------------------------------------------------------- form cases

func formRoundtripCase(cfg *RunCfg, st *Stats, w *CaseWriter, idx int, distinct DistinctSet) {
	r := cfg.Rng
	switch r.Intn(12) {
	case 0: // url.Values in, url.Values out
		st.Count("form:values")
		m := genValues(r)
		var src interface{} = m
		switch r.Intn(4) {
		case 0:
			src = &m
		case 1:
			src = map[string][]string(m)
		case 2:
			mm := map[string][]string(m)
			src = &mm
		}
		enc, eo, _ := guardedMarshal(formC, src)
		dec := VS("skip")
		human := fmt.Sprintf("form url.Values %q", m)
		if eo == oOK {
			var out interface{}
			var got *url.Values
			switch r.Intn(3) {
			case 0:
				got = &url.Values{}
				out = got
			case 1:
				mm := map[string][]string{}
				got = (*url.Values)(&mm)
				out = &mm
			default:
				var iface interface{}
				out = &iface
			}
			do, msg := guardedUnmarshal(formC, enc, out)
			var gm map[string][]string
			if got != nil {
				gm = *got
			} else if do == oOK {
				gm, _ = (*(out.(*interface{}))).(url.Values)
			}
			dec = decObs(do, descValues(gm))
			if do == oPanic {
				st.Fail(idx, "form-decode-panic", "form decoder panicked: "+msg, human)
			}
			// oracle: keys with at least one value survive with their values in order
			want := map[string][]string{}
			for k, vs := range m {
				if len(vs) > 0 {
					want[k] = vs
				}
			}
			if do != oOK || descValues(gm) != descValues(want) {
				st.Fail(idx, "values-roundtrip", "url.Values did not survive encode/decode", human)
			}
		} else {
			st.Fail(idx, "form-encode-error", "form encoder failed on url.Values", human)
		}
		in := VL(VS("form"), descValues(m), VS("values"))
		w.Add(in, VL(encObs(enc, eo), dec))
		if len(m) > 0 {
			distinct.Add(in)
		}
		return
	case 1: // nil / unsupported top-level values
		st.Count("form:toplevel-other")
		var src interface{}
		srcD := VS("nil")
		if r.Intn(2) == 0 {
			src, srcD = []interface{}{42, "str", []int{1}, new(int)}[r.Intn(4)], VS("other")
		}
		enc, eo, _ := guardedMarshal(formC, src)
		dec := VS("skip")
		dstD := VS("nil")
		if eo == oOK {
			var dst interface{}
			if r.Intn(2) == 0 {
				dst, dstD = new(int), VS("other")
			}
			do, msg := guardedUnmarshal(formC, enc, dst)
			dec = decObs(do, VS("nil"))
			if do == oPanic {
				st.Fail(idx, "form-decode-panic", "form decoder panicked: "+msg, "top-level "+dstD)
			}
		}
		w.Add(VL(VS("form"), srcD, dstD), VL(encObs(enc, eo), dec))
		return
	}
	ft := pickFormType(r)
	st.Count("form:" + ft.name)
	src := reflect.New(ft.typ)
	fillAny(src.Elem(), r, 0)
	srcD := descField(src.Elem())
	var arg interface{} = src.Interface()
	if r.Intn(2) == 0 {
		arg = src.Elem().Interface()
	}
	human := fmt.Sprintf("form %s %+v", typeHuman(ft), src.Elem().Interface())
	if len(human) > 1000 {
		human = human[:1000] + "..."
	}
	enc, eo, emsg := guardedMarshal(formC, arg)
	dec := VS("skip")
	// destination: zero value of the same type (round trip); sometimes another type
	dt := ft
	if r.Intn(12) == 0 {
		dt = pickFormType(r)
		st.Count("form:cross-type")
	}
	dst, guard := inArray(r, dt.typ)
	want := srcD
	if r.Intn(3) == 0 {
		// dirty destination: a value decoded earlier is still in it
		st.Count("form:dirty-destination")
		fillAny(dst.Elem(), r, 0)
		guard = joinGuards(guard, guardSlices(r, dst.Elem()))
		if ft.supported && dt.typ == ft.typ {
			old := reflect.New(dt.typ).Elem()
			old.Set(dst.Elem())
			want = descField(formExpectDirty(old, src.Elem()))
		}
		human += fmt.Sprintf(" | into %+v", dst.Elem().Interface())
		if len(human) > 1400 {
			human = human[:1400] + "..."
		}
	}
	dstD := descField(dst.Elem())
	if eo == oOK {
		do, msg := guardedUnmarshal(formC, enc, dst.Interface())
		got := descField(dst.Elem())
		dec = decObsState(do, got)
		human += fmt.Sprintf(" | encoded %q", enc)
		if do == oPanic {
			st.Fail(idx, "form-decode-panic", "form decoder panicked: "+msg, human)
		}
		if g := guard(); g != "" {
			st.Fail(idx, "form-write-outside", "form decoder wrote outside the destination: "+g, human)
		}
		if ft.supported && dt.typ == ft.typ && (do != oOK || got != want) {
			what := "decode(encode(v)) != v"
			if do == oErr {
				what = "decode(encode(v)) failed: " + msg
			} else if do == oOK {
				g := fmt.Sprintf("%+v", dst.Elem().Interface())
				if len(g) > 300 {
					g = g[:300] + "..."
				}
				what += " (got " + g + ")"
				if want == srcD {
					what += differingFields(src.Elem(), dst.Elem())
				}
			}
			st.Fail(idx, "form-roundtrip", what, human)
		}
	} else if ft.supported {
		st.Fail(idx, "form-encode-error", "form encoder failed: "+emsg, human)
	}
	in := VL(VS("form"), srcD, dstD)
	w.Add(in, VL(encObs(enc, eo), dec))
	if len(enc) > 0 {
		distinct.Add(in)
	}
	if len(st.Samples) < 3 {
		st.Samples = append(st.Samples, human)
	}
}

func formGarbageCase(cfg *RunCfg, st *Stats, w *CaseWriter, idx int, distinct DistinctSet) {
	r := cfg.Rng
	ft := pickFormType(r)
	var data []byte
	var class string
	if r.Intn(4) == 0 {
		// a valid encoding of some value of some type, mutated
		st0 := pickFormType(r)
		if r.Intn(2) == 0 {
			st0 = ft
		}
		v := reflect.New(st0.typ)
		fillAny(v.Elem(), r, 0)
		enc, _, _ := guardedMarshal(formC, v.Interface())
		data, class = mutate(r, enc), "mutated-valid"
	} else {
		data, class = garbageQuery(r, ft.typ)
	}
	st.Count("formdec:" + class)
	if r.Intn(15) == 0 {
		// into url.Values
		st.Count("formdec:into-values")
		got := url.Values{}
		do, msg := guardedUnmarshal(formC, data, &got)
		if do == oPanic {
			st.Fail(idx, "form-decode-panic", "form decoder panicked: "+msg, fmt.Sprintf("%q into url.Values", data))
		}
		in := VL(VS("formdec"), VS("values"), VB(data))
		w.Add(in, decObs(do, descValues(got)))
		distinct.Add(in)
		return
	}
	if r.Intn(25) == 0 {
		// pointer to an interface: *io.Reader (url.Values not assignable), **interface{} (assignable)
		assignable := r.Intn(2) == 0
		st.Count(fmt.Sprintf("formdec:into-interface-%v", assignable))
		var rd io.Reader
		var e interface{}
		pe := &e
		var dst interface{} = &rd
		if assignable {
			dst = &pe
		}
		do, msg := guardedUnmarshal(formC, data, dst)
		if do == oPanic {
			st.Fail(idx, "form-decode-panic", "form decoder panicked: "+msg, fmt.Sprintf("%q into %T", data, dst))
		}
		got, _ := e.(url.Values)
		in := VL(VS("formdec"), VL(VS("iface"), VBool(assignable)), VB(data))
		w.Add(in, decObs(do, descValues(got)))
		distinct.Add(in)
		return
	}
	st.Count("formdec:" + ft.name)
	dst, guard := inArray(r, ft.typ)
	if r.Intn(3) == 0 {
		fillAny(dst.Elem(), r, 0) // pre-filled destination: untouched fields must be retained
		guard = joinGuards(guard, guardSlices(r, dst.Elem()))
	}
	dstD := descField(dst.Elem())
	human := fmt.Sprintf("form decode %q into %s %+v", data, typeHuman(ft), dst.Elem().Interface())
	if len(human) > 1000 {
		human = human[:1000] + "..."
	}
	do, msg := guardedUnmarshal(formC, data, dst.Interface())
	if do == oPanic {
		st.Fail(idx, "form-decode-panic", "form decoder panicked: "+msg, human)
	}
	if g := guard(); g != "" {
		st.Fail(idx, "form-write-outside", "form decoder wrote outside the destination: "+g, human)
	}
	st.Count(fmt.Sprintf("formdec-outcome:%d", do))
	in := VL(VS("formdec"), dstD, VB(data))
	w.Add(in, decObsState(do, descField(dst.Elem())))
	if len(data) > 0 {
		distinct.Add(in)
	}
	if len(st.Samples) < 5 && class == "typed-keys" {
		st.Samples = append(st.Samples, human)
	}
}

// ---------------------------------------------------------------- plain cases

// a plain destination: the Go value handed to Unmarshal, its description, and a reader of the result
type plainDst struct {
	arg   interface{}
	desc  string
	read  func() string
	guard guardFn
}

func (d plainDst) check() string {
	if d.guard == nil {
		return ""
	}
	return d.guard()
}

func sliceDst(r *rand.Rand, n int) plainDst {
	old, g := byteWindow(r, n, "len")
	return plainDst{old, VL(VS("dslice"), VB(old)), func() string { return VL(VS("bytes"), VB(old)) }, g}
}

func bytesPtrDst(r *rand.Rand, n int) plainDst {
	b, g := byteWindow(r, n, "cap")
	return plainDst{&b, VS("dbytes"), func() string { return VL(VS("bytes"), VB(b)) }, g}
}

func mkPlainDst(r *rand.Rand, t reflect.Type, fill bool) plainDst {
	// reflect path: a pointer to a fresh (zero or filled) value of type t
	p, g := inArray(r, t)
	if fill {
		fillAny(p.Elem(), r, 0)
	}
	return plainDst{p.Interface(), VL(VS("refl"), descLeaf(p)), func() string { return descLeaf(p) }, g}
}

func randPlainDst(r *rand.Rand) plainDst {
	switch r.Intn(21) {
	case 18, 19:
		return sliceDst(r, r.Intn(12))
	case 20:
		return bytesPtrDst(r, r.Intn(8))
	case 16:
		return plainDst{(*string)(nil), VS("dstrnil"), func() string { return VS("nil") }, nil}
	case 17:
		return plainDst{(*[]byte)(nil), VS("dbytesnil"), func() string { return VS("nil") }, nil}
	case 0:
		return plainDst{nil, VS("nil"), func() string { return VS("nil") }, nil}
	case 1:
		sp, g := inArray(r, reflect.TypeOf(""))
		s := sp.Interface().(*string)
		if r.Intn(2) == 0 {
			*s = genString(r)
		}
		return plainDst{s, VS("dstr"), func() string { return VL(VS("str"), VB([]byte(*s))) }, g}
	case 2:
		return sliceDst(r, r.Intn(12))
	case 3:
		return bytesPtrDst(r, r.Intn(8))
	case 4:
		// non-pointer or nil-pointer destinations on the reflect path
		t := plainLeafTypes[r.Intn(len(plainLeafTypes))]
		v := reflect.New(t).Elem()
		fillAny(v, r, 0)
		vv := reflect.ValueOf(v.Interface())
		if !vv.IsValid() {
			return plainDst{nil, VS("nil"), func() string { return VS("nil") }, nil}
		}
		switch v.Interface().(type) {
		case *string, []byte, *[]byte, string:
			// these hit the direct cases of the type switch; covered above
			return mkPlainDst(r, t, false)
		}
		return plainDst{v.Interface(), VL(VS("refl"), descLeaf(v)), func() string { return descLeaf(v) }, nil}
	case 5:
		return mkPlainDst(r, plainOpaqueTypes[r.Intn(len(plainOpaqueTypes))], false)
	default:
		return mkPlainDst(r, plainLeafTypes[r.Intn(len(plainLeafTypes))], r.Intn(3) == 0)
	}
}

func plainGarbage(r *rand.Rand) ([]byte, string) {
	switch r.Intn(6) {
	case 0:
		return RandBytes(r, r.Intn(30)), "random-bytes"
	case 1:
		return []byte(genString(r)), "string"
	default:
		k := []reflect.Kind{reflect.Int, reflect.Int8, reflect.Int16, reflect.Int32, reflect.Int64, reflect.Uint, reflect.Uint8, reflect.Uint16, reflect.Uint32, reflect.Uint64, reflect.Bool}[r.Intn(11)]
		return []byte(garbageValue(r, k)), "typed"
	}
}

func plainCase(cfg *RunCfg, st *Stats, w *CaseWriter, idx int, distinct DistinctSet, garbage bool) {
	r := cfg.Rng
	if garbage {
		data, class := plainGarbage(r)
		st.Count("plaindec:" + class)
		d := randPlainDst(r)
		human := fmt.Sprintf("plain decode %q into %s", data, d.desc)
		do, msg := guardedUnmarshal(plainC, data, d.arg)
		if do == oPanic {
			st.Fail(idx, "plain-decode-panic", "plain decoder panicked: "+msg, human)
		}
		if g := d.check(); g != "" {
			st.Fail(idx, "plain-write-outside", "plain decoder wrote outside the destination: "+g, human)
		}
		in := VL(VS("plaindec"), d.desc, VB(data))
		w.Add(in, decObs(do, d.read()))
		distinct.Add(in)
		return
	}
	// round trip
	var src interface{}
	var srcD string
	var d plainDst
	var want string // expected destination content for the round-trip oracle ("" = none)
	switch c := r.Intn(12); {
	case c == 0:
		st.Count("plain:nil")
		src, srcD = nil, VS("nil")
		d = randPlainDst(r)
	case c == 1 || c == 2:
		st.Count("plain:direct-string")
		s := genString(r)
		if r.Intn(2) == 0 {
			src, srcD = s, VL(VS("dstr"), VBool(false), VB([]byte(s)))
		} else {
			src, srcD = &s, VL(VS("dstr"), VBool(true), VB([]byte(s)))
		}
		out := new(string)
		if r.Intn(2) == 0 {
			*out = genString(r) // dirty destination
		}
		d = plainDst{out, VS("dstr"), func() string { return VL(VS("str"), VB([]byte(*out))) }, nil}
		want = VL(VS("str"), VB([]byte(s)))
	case c == 3 || c == 4:
		st.Count("plain:direct-bytes")
		b := RandBytes(r, genLen(r))
		if r.Intn(2) == 0 {
			src, srcD = b, VL(VS("dbytes"), VBool(false), VB(b))
		} else {
			src, srcD = &b, VL(VS("dbytes"), VBool(true), VB(b))
		}
		if r.Intn(3) == 0 {
			d = sliceDst(r, len(b))
		} else {
			d = bytesPtrDst(r, r.Intn(2*len(b)+2))
		}
		want = VL(VS("bytes"), VB(b))
	case c == 5:
		st.Count("plain:opaque")
		t := plainOpaqueTypes[r.Intn(len(plainOpaqueTypes))]
		v := reflect.New(t).Elem()
		fillAny(v, r, 0)
		src, srcD = v.Interface(), VL(VS("refl"), descLeaf(v))
		d = randPlainDst(r)
	default:
		t := plainLeafTypes[r.Intn(len(plainLeafTypes))]
		st.Count("plain:" + t.String())
		v := reflect.New(t).Elem()
		fillAny(v, r, 0)
		// hand over either the value or a pointer to it
		hand := v
		if r.Intn(2) == 0 {
			hand = v.Addr()
		}
		src, srcD = hand.Interface(), VL(VS("refl"), descLeaf(hand))
		switch src.(type) {
		case string, *string, []byte, *[]byte:
			// the type switch takes these; describe them as what they are
			hand = v.Addr()
			src, srcD = hand.Interface(), VL(VS("refl"), descLeaf(hand))
			switch s := src.(type) {
			case *string:
				srcD = VL(VS("dstr"), VBool(true), VB([]byte(*s)))
			case *[]byte:
				srcD = VL(VS("dbytes"), VBool(true), VB(*s))
			}
		}
		// destination: pointer to a zero value of the same type, nil pointers inside replaced
		dp, g := inArray(r, t)
		if r.Intn(2) == 0 {
			st.Count("plain:dirty-destination")
			fillNoNil(dp.Elem(), r)
		} else {
			zeroPtrs(dp.Elem())
		}
		d = plainDst{dp.Interface(), VL(VS("refl"), descLeaf(dp)), func() string { return descLeaf(dp) }, g}
		switch s := d.arg.(type) {
		case *string:
			d = plainDst{s, VS("dstr"), func() string { return VL(VS("str"), VB([]byte(*s))) }, g}
		case *[]byte:
			d = plainDst{s, VS("dbytes"), func() string { return VL(VS("bytes"), VB(*s)) }, g}
		}
		if noNil(v) {
			want = coreDesc(v)
		}
	}
	human := fmt.Sprintf("plain %s -> %s", srcD, d.desc)
	enc, eo, _ := guardedMarshal(plainC, src)
	dec := VS("skip")
	if eo == oOK {
		do, msg := guardedUnmarshal(plainC, enc, d.arg)
		dec = decObs(do, d.read())
		if do == oPanic {
			st.Fail(idx, "plain-decode-panic", "plain decoder panicked: "+msg, human)
		}
		if g := d.check(); g != "" {
			st.Fail(idx, "plain-write-outside", "plain decoder wrote outside the destination: "+g, human)
		}
		if want != "" {
			got := d.read()
			if do != oOK || !strings.HasSuffix(stripPtrs(got), want) {
				st.Fail(idx, "plain-roundtrip", fmt.Sprintf("decode(encode(v)) != v: encoded %q, got %s", enc, got), human)
			}
		}
	} else if want != "" {
		st.Fail(idx, "plain-encode-error", "plain encoder failed on a supported value", human)
	}
	in := VL(VS("plain"), srcD, d.desc)
	w.Add(in, VL(encObs(enc, eo), dec))
	distinct.Add(in)
	if len(st.Samples) < 8 && want != "" {
		st.Samples = append(st.Samples, human+fmt.Sprintf(" encoded %q", enc))
	}
}

// zeroPtrs makes every pointer level of v point to a fresh zero value.
func zeroPtrs(v reflect.Value) {
	for v.Kind() == reflect.Ptr {
		v.Set(reflect.New(v.Type().Elem()))
		v = v.Elem()
	}
}

func noNil(v reflect.Value) bool {
	for v.Kind() == reflect.Ptr {
		if v.IsNil() {
			return false
		}
		v = v.Elem()
	}
	return true
}

func coreDesc(v reflect.Value) string {
	for v.Kind() == reflect.Ptr {
		v = v.Elem()
	}
	return descLeaf(v)
}

// stripPtrs removes the "(sptr " wrappers of a leaf description.
func stripPtrs(s string) string {
	for strings.HasPrefix(s, "(sptr ") {
		s = strings.TrimSuffix(strings.TrimPrefix(s, "(sptr "), ")")
	}
	return s
}

// ---------------------------------------------------------------- main loop

func runModel(cfg *RunCfg) {
	st := NewStats("C11", cfg)
	st.Rule = "cases = {form round trip over 16 fixed struct types and struct types generated at run time (reflect.StructOf: 1..11 fields, scalar/slice/array/nested kinds, form tags of every shape - absent, empty, plain, name+options after a comma, empty name before the comma, commas only, dash, leading/trailing space, reserved characters, quotes, control bytes, invalid UTF-8, the field's own name, json/xml keys around the form key, two form keys, unconventional format) x generated field values (ints at width extremes, strings over all bytes/UTF-8/reserved characters, slices/arrays of length 0..40, nested/tagged/untagged/unexported/pointer fields), url.Values round trip, form decode of typed-key garbage / escape garbage / random bytes / mutated valid encodings into every type (zero or pre-filled), plain round trip over 30 leaf types x {value, pointer}, plain decode of garbage into every destination, socket.Message MarshalBody/UnmarshalBody with every codec id x body {nil, []byte, *[]byte fresh / dirty-longer / dirty-shorter / equal / spare capacity / nil pointer, typed via plain codec or unknown id} x payload {empty, 1 byte, up to 24 bytes} x newBodyFunc}; every destination inside guard zones; distinct by case line; non-trivial = non-empty encoding or non-empty decoder input"
	w := NewCaseWriter(cfg)
	distinct := DistinctSet{}
	for i := 0; i < cfg.N; i++ {
		flushStability(st, i)
		switch c := cfg.Rng.Intn(23); {
		case c >= 20:
			bodyCase(cfg, st, w, i, distinct)
		case c < 7:
			formRoundtripCase(cfg, st, w, i, distinct)
		case c < 13:
			formGarbageCase(cfg, st, w, i, distinct)
		case c < 17:
			plainCase(cfg, st, w, i, distinct, false)
		default:
			plainCase(cfg, st, w, i, distinct, true)
		}
	}
	flushStability(st, cfg.N-1)
	for k, n := range dynTagStats.counts {
		st.Distribution["formtag:"+k] += n
	}
	st.Extra = map[string]interface{}{"encodings_kept_alive_model": stabilityHits}
	st.Evaluations = cfg.N
	st.DistinctNontrivial = len(distinct)
	st.Write(cfg, w)
}

var _ = bytes.Equal
var _ = rand.Int
