// socket.Message.MarshalBody / UnmarshalBody: []byte and *[]byte bodies bypass every codec
// ("when the body is a stream of bytes, no unmarshalling is done"); other bodies go through the
// codec named by the message's body codec id.
package main

import (
	"bytes"
	"fmt"
	"math/rand"
	"reflect"

	. "verifharness/hlib"

	"github.com/henrylee2cn/erpc/v6/codec"
	"github.com/henrylee2cn/erpc/v6/socket"
)

var allCodecIDs = []byte{codec.ID_PLAIN, codec.ID_FORM, codec.ID_JSON, codec.ID_XML, codec.ID_PROTOBUF, codec.ID_THRIFT, codec.NilCodecID, 200, 1}

func guardedMarshalBody(m socket.Message) (b []byte, o outcome, msg string) {
	defer func() {
		if e := recover(); e != nil {
			b, o, msg = nil, oPanic, fmt.Sprint(e)
		}
	}()
	out, err := m.MarshalBody()
	if err != nil {
		return nil, oErr, err.Error()
	}
	trackEncoding("message-body", out)
	return append([]byte{}, out...), oOK, ""
}

func guardedUnmarshalBody(m socket.Message, data []byte) (o outcome, msg string) {
	defer func() {
		if e := recover(); e != nil {
			o, msg = oPanic, fmt.Sprint(e)
		}
	}()
	if err := m.UnmarshalBody(append([]byte{}, data...)); err != nil {
		return oErr, err.Error()
	}
	return oOK, ""
}

// a body destination: the value handed to SetBody (or returned by newBodyFunc), its description
// for the model, a reader of the message's body afterwards, and the guard around it
type bodyDst struct {
	arg   interface{}
	desc  string
	guard guardFn
	ptr   *[]byte // set for *[]byte destinations
}

// bytesBodyDst: a *[]byte destination in one of the states fresh / dirty-longer / dirty-shorter /
// spare capacity, inside a guarded buffer (the callee may write up to cap).
func bytesBodyDst(r *rand.Rand, payloadLen int) bodyDst {
	n := 0
	switch r.Intn(6) {
	case 0: // fresh
	case 1, 2: // dirty, longer than the payload
		n = payloadLen + 1 + r.Intn(8)
	case 3: // dirty, shorter
		if payloadLen > 0 {
			n = r.Intn(payloadLen)
		}
	case 4:
		n = payloadLen
	default:
		n = r.Intn(12)
	}
	if n == 0 && r.Intn(2) == 0 {
		var b []byte
		if r.Intn(2) == 0 {
			b = []byte{}
		}
		return bodyDst{&b, VL(VS("ptr"), VB(nil), VB(nil)), noGuard, &b}
	}
	w, g := byteWindow(r, n, "cap")
	spare := w[len(w):cap(w)]
	return bodyDst{&w, VL(VS("ptr"), VB(w), VB(spare)), g, &w}
}

func descBodyAfter(body interface{}, typedRead func() string) string {
	switch b := body.(type) {
	case nil:
		return VS("nil")
	case *[]byte:
		if b == nil {
			return VS("ptrnil")
		}
		return VL(VS("ptr"), VB(*b))
	}
	if typedRead != nil {
		return VL(VS("typed"), typedRead())
	}
	return VS("typed")
}

// bodyCase: one modelled MarshalBody or UnmarshalBody case.
func bodyCase(cfg *RunCfg, st *Stats, w *CaseWriter, idx int, distinct DistinctSet) {
	r := cfg.Rng
	id := allCodecIDs[r.Intn(len(allCodecIDs))]
	if r.Intn(4) == 0 {
		// ---- MarshalBody
		var body interface{}
		var desc string
		var want []byte
		hasWant := false
		switch r.Intn(6) {
		case 0:
			body, desc, want, hasWant = nil, VS("nil"), nil, true
		case 1:
			b := RandBytes(r, genLen(r))
			body, desc, want, hasWant = b, VL(VS("val"), VB(b)), b, true
		case 2:
			b := RandBytes(r, genLen(r))
			body, desc, want, hasWant = &b, VL(VS("ptr"), VB(b)), b, true
		case 3:
			body, desc, want, hasWant = (*[]byte)(nil), VS("ptrnil"), nil, true
		default:
			// typed body through the plain codec or an unknown codec id (both in the model)
			id = []byte{codec.ID_PLAIN, codec.ID_PLAIN, codec.NilCodecID, 200}[r.Intn(4)]
			t := plainLeafTypes[r.Intn(len(plainLeafTypes))]
			v := reflect.New(t).Elem()
			fillAny(v, r, 0)
			hand := v.Addr()
			body, desc = hand.Interface(), VL(VS("typed"), VL(VS("refl"), descLeaf(hand)))
			switch s := body.(type) {
			case *string:
				desc = VL(VS("typed"), VL(VS("dstr"), VBool(true), VB([]byte(*s))))
			case *[]byte: // BS etc. are named types; a plain *[]byte would be the bypass
				desc = VL(VS("ptr"), VB(*s))
			}
		}
		st.Count("body:marshal")
		m := socket.NewMessage(socket.WithBody(body))
		m.SetBodyCodec(id)
		enc, eo, msg := guardedMarshalBody(m)
		human := fmt.Sprintf("MarshalBody codec %d body %s", id, desc)
		if eo == oPanic {
			st.Fail(idx, "body-marshal-panic", "MarshalBody panicked: "+msg, human)
		}
		if hasWant && (eo != oOK || !bytes.Equal(enc, want)) {
			st.Fail(idx, "body-bytes-bypass", fmt.Sprintf("a byte-stream body was not handed through unchanged: got %x", enc), human)
		}
		in := VL(VS("body"), VN(int64(id)), desc)
		w.Add(in, encObs(enc, eo))
		distinct.Add(in)
		return
	}
	// ---- UnmarshalBody
	var data []byte
	switch r.Intn(8) {
	case 0:
		data = []byte{}
	case 1:
		data = RandBytes(r, 1)
	default:
		data = RandBytes(r, 1+r.Intn(24))
	}
	var d bodyDst
	var typedRead func() string
	typed := false
	switch r.Intn(10) {
	case 0:
		d = bodyDst{nil, VS("nil"), noGuard, nil}
	case 1:
		d = bodyDst{(*[]byte)(nil), VS("ptrnil"), noGuard, nil}
	case 2, 3:
		// typed destination through the plain codec / an unknown id: reflective leaf or []byte by value
		id = []byte{codec.ID_PLAIN, codec.ID_PLAIN, codec.ID_PLAIN, codec.NilCodecID, 200}[r.Intn(5)]
		typed = true
		if r.Intn(3) == 0 {
			pd := sliceDst(r, r.Intn(12))
			d = bodyDst{pd.arg, VL(VS("typed"), pd.desc), pd.guard, nil}
			typedRead = pd.read
		} else {
			var pd plainDst
			for {
				pd = mkPlainDst(r, plainLeafTypes[r.Intn(len(plainLeafTypes))], r.Intn(2) == 0)
				if _, isStr := pd.arg.(*string); !isStr {
					if _, isB := pd.arg.(*[]byte); !isB {
						break
					}
				}
			}
			d = bodyDst{pd.arg, VL(VS("typed"), pd.desc), pd.guard, nil}
			typedRead = pd.read
			if r.Intn(3) == 0 {
				data = []byte(garbageValue(r, reflect.Int16))
			}
		}
	default:
		d = bytesBodyDst(r, len(data))
	}
	// newBodyFunc: only consulted when the body is nil
	nbDesc := VS("none")
	var nb *bodyDst
	if r.Intn(4) == 0 {
		x := bytesBodyDst(r, len(data))
		nb, nbDesc = &x, x.desc
	}
	st.Count("body:unmarshal")
	if d.ptr != nil {
		switch {
		case len(*d.ptr) > len(data):
			st.Count("body:dst-longer")
		case len(*d.ptr) < len(data):
			st.Count("body:dst-shorter")
		}
	}
	m := socket.NewMessage(socket.WithBody(d.arg))
	m.SetBodyCodec(id)
	if nb != nil {
		m.SetNewBody(func(socket.Header) interface{} { return nb.arg })
	}
	human := fmt.Sprintf("UnmarshalBody codec %d payload %x into %s (newBodyFunc %s)", id, data, d.desc, nbDesc)
	do, msg := guardedUnmarshalBody(m, data)
	if do == oPanic {
		st.Fail(idx, "body-decode-panic", "UnmarshalBody panicked: "+msg, human)
	}
	eff := d
	if d.arg == nil && nb != nil {
		eff = *nb
	}
	if g := joinGuards(d.guard, func() string {
		if nb != nil {
			return nb.guard()
		}
		return ""
	})(); g != "" {
		st.Fail(idx, "body-write-outside", "UnmarshalBody wrote outside the destination: "+g, human)
	}
	// oracle: a byte-stream destination holds exactly the payload afterwards (length included),
	// whatever it held before and whatever the codec id; an empty payload leaves the body alone.
	if eff.ptr != nil && len(data) > 0 {
		if do != oOK || !bytes.Equal(*eff.ptr, data) {
			st.Fail(idx, "body-bytes-exact", fmt.Sprintf("the *[]byte body is %x (len %d) after decoding a %d-byte payload", *eff.ptr, len(*eff.ptr), len(data)), human)
		}
	}
	_ = typed
	in := VL(VS("bodydec"), VN(int64(id)), d.desc, nbDesc, VB(data))
	w.Add(in, decObs(do, descBodyAfter(m.Body(), typedRead)))
	distinct.Add(in)
	if len(st.Samples) < 10 && d.ptr != nil && len(*d.ptr) != len(data) && idx%7 == 0 {
		st.Samples = append(st.Samples, human)
	}
}

// bodyLibStep (libs mode): a typed body with every codec id must behave exactly like the codec
// called directly (differential oracle on the implementation alone), including a reused body.
func bodyLibStep(r *rand.Rand, st *Stats, i int, f libFamily) {
	id := f.c.ID()
	v, z := f.fresh(r)
	human := fmt.Sprintf("message body via codec %q: %s", f.name, canon(v.Elem()))
	if len(human) > 400 {
		human = human[:400] + "..."
	}
	direct, eoD, _ := guardedMarshal(f.c, v.Interface())
	m := socket.NewMessage(socket.WithBody(v.Interface()))
	m.SetBodyCodec(id)
	enc, eo, msg := guardedMarshalBody(m)
	if eo != eoD || !bytes.Equal(enc, direct) {
		st.Fail(i, "body-typed-marshal", "MarshalBody differs from the codec called directly: "+msg, human)
		return
	}
	if eo != oOK {
		return
	}
	in := socket.NewMessage(socket.WithBody(z.Interface()))
	in.SetBodyCodec(id)
	do, dmsg := guardedUnmarshalBody(in, enc)
	if do == oPanic {
		st.Fail(i, "body-decode-panic", "UnmarshalBody panicked: "+dmsg, human)
		return
	}
	if len(enc) > 0 && (do != oOK || canon(z.Elem()) != canon(v.Elem())) {
		st.Fail(i, "body-typed-roundtrip", "UnmarshalBody(MarshalBody(v)) != v: "+dmsg+" got "+canon(z.Elem()), human)
	}
	// unknown codec id: refused both ways (non-empty payload)
	bad := socket.NewMessage(socket.WithBody(z.Interface()))
	bad.SetBodyCodec(201)
	if _, eoB, _ := guardedMarshalBody(bad); eoB != oErr {
		st.Fail(i, "body-unknown-codec", "MarshalBody with an unregistered codec id did not fail", human)
	}
	if doB, _ := guardedUnmarshalBody(bad, []byte("x")); doB != oErr {
		st.Fail(i, "body-unknown-codec", "UnmarshalBody with an unregistered codec id did not fail", human)
	}
}
