// Guard zones: every destination handed to a decoder lives inside a larger allocation whose
// surrounding memory (neighbouring array elements, bytes of the backing array before the slice and
// beyond its length/capacity) is filled with a pattern and compared after the call - successful
// or not.  "never writes outside the destination value".
package main

import (
	"bytes"
	"fmt"
	"math/rand"
	"reflect"
)

type guardFn func() string // "" = untouched, else what changed

func noGuard() string { return "" }

func joinGuards(gs ...guardFn) guardFn {
	return func() string {
		for _, g := range gs {
			if g != nil {
				if s := g(); s != "" {
					return s
				}
			}
		}
		return ""
	}
}

// byteWindow returns a []byte window of length n (contents random) into a larger buffer.
// limit = how far the callee may legitimately write: "len" for a slice handed over by value,
// "cap" for a slice whose header the callee can replace (*[]byte).
func byteWindow(r *rand.Rand, n int, limit string) ([]byte, guardFn) {
	off, extra, tail := r.Intn(5), r.Intn(8), 1+r.Intn(6)
	buf := RandBytes2(r, off+n+extra+tail)
	var w []byte
	if r.Intn(2) == 0 {
		w = buf[off : off+n] // capacity runs to the end of the buffer
	} else {
		w = buf[off : off+n : off+n+extra]
	}
	allowed := n
	if limit == "cap" {
		allowed = cap(w)
	}
	snap := append([]byte{}, buf...)
	return w, func() string {
		if !bytes.Equal(buf[:off], snap[:off]) {
			return fmt.Sprintf("bytes before the destination changed: %x -> %x", snap[:off], buf[:off])
		}
		if !bytes.Equal(buf[off+allowed:], snap[off+allowed:]) {
			return fmt.Sprintf("bytes beyond the destination's %s changed: %x -> %x", limit, snap[off+allowed:], buf[off+allowed:])
		}
		return ""
	}
}

func RandBytes2(r *rand.Rand, n int) []byte {
	b := make([]byte, n)
	r.Read(b)
	return b
}

// inArray allocates [3]T, fills the neighbours, and returns a pointer to the middle element.
func inArray(r *rand.Rand, t reflect.Type) (reflect.Value, guardFn) {
	arr := reflect.New(reflect.ArrayOf(3, t)).Elem()
	fillAny(arr.Index(0), r, 1)
	fillAny(arr.Index(2), r, 1)
	snap0, snap2 := deepPrint(arr.Index(0)), deepPrint(arr.Index(2))
	return arr.Index(1).Addr(), func() string {
		if deepPrint(arr.Index(0)) != snap0 || deepPrint(arr.Index(2)) != snap2 {
			return "a neighbour of the destination in the same array changed"
		}
		return ""
	}
}

// deepPrint prints any value (unexported fields included) without calling Interface().
func deepPrint(v reflect.Value) string {
	switch v.Kind() {
	case reflect.Struct:
		s := "{"
		for i := 0; i < v.NumField(); i++ {
			s += deepPrint(v.Field(i)) + " "
		}
		return s + "}"
	case reflect.Slice, reflect.Array:
		s := fmt.Sprintf("[%d:", v.Len())
		for i := 0; i < v.Len(); i++ {
			s += deepPrint(v.Index(i)) + " "
		}
		return s + "]"
	case reflect.Ptr, reflect.Interface:
		if v.IsNil() {
			return "nil"
		}
		return "&" + deepPrint(v.Elem())
	case reflect.Map:
		return fmt.Sprintf("map%d", v.Len())
	case reflect.String:
		return fmt.Sprintf("%q", v.String())
	case reflect.Bool:
		return fmt.Sprint(v.Bool())
	case reflect.Int, reflect.Int8, reflect.Int16, reflect.Int32, reflect.Int64:
		return fmt.Sprint(v.Int())
	case reflect.Uint, reflect.Uint8, reflect.Uint16, reflect.Uint32, reflect.Uint64:
		return fmt.Sprint(v.Uint())
	case reflect.Float32, reflect.Float64:
		return fmt.Sprintf("%x", v.Float())
	}
	return v.Kind().String()
}

// guardSlices re-homes every slice reachable through struct fields of v into a window (cap = len)
// of a larger slice whose other elements carry a pattern; returns the check.
func guardSlices(r *rand.Rand, v reflect.Value) guardFn {
	var gs []guardFn
	var walk func(v reflect.Value)
	walk = func(v reflect.Value) {
		v = settable(v)
		switch v.Kind() {
		case reflect.Struct:
			for i := 0; i < v.NumField(); i++ {
				walk(v.Field(i))
			}
		case reflect.Slice:
			n := v.Len()
			if v.IsNil() && r.Intn(2) == 0 {
				return
			}
			big := reflect.MakeSlice(v.Type(), n+4, n+4)
			for _, i := range []int{0, 1, n + 2, n + 3} {
				fillAny(big.Index(i), r, 2)
			}
			reflect.Copy(big.Slice(2, 2+n), v)
			v.Set(big.Slice3(2, 2+n, 2+n))
			snap := deepPrint(big.Slice(0, 2)) + deepPrint(big.Slice(n+2, n+4))
			gs = append(gs, func() string {
				if deepPrint(big.Slice(0, 2))+deepPrint(big.Slice(n+2, n+4)) != snap {
					return "elements of the backing array outside a slice field of the destination changed"
				}
				return ""
			})
		}
	}
	walk(v)
	return joinGuards(gs...)
}

// fillNoNil fills v and then makes every nil pointer on the top-level pointer chain non-nil.
func fillNoNil(v reflect.Value, r *rand.Rand) {
	fillAny(v, r, 0)
	for v.Kind() == reflect.Ptr {
		if v.IsNil() {
			v.Set(reflect.New(v.Type().Elem()))
		}
		v = v.Elem()
	}
}

// formExpectDirty: what decoding the encoding of src into a destination that already holds old
// must give.  The form codec leaves a field untouched when its key is absent from the query,
// and an empty slice / zero-length array emits no key; everything else is overwritten.
func formExpectDirty(old, src reflect.Value) reflect.Value {
	exp := reflect.New(src.Type()).Elem()
	exp.Set(src)
	var walk func(e, o reflect.Value)
	walk = func(e, o reflect.Value) {
		for i := 0; i < e.NumField(); i++ {
			f := e.Type().Field(i)
			switch {
			case f.Type.Kind() == reflect.Struct && f.Tag.Get("form") == "":
				walk(e.Field(i), o.Field(i))
			case (f.Type.Kind() == reflect.Slice || f.Type.Kind() == reflect.Array) && e.Field(i).Len() == 0:
				e.Field(i).Set(o.Field(i))
			}
		}
	}
	walk(exp, old)
	return exp
}
