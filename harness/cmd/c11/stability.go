// Encoding stability: the []byte an encoder returns is a VALUE.  It must not change when further
// values are encoded afterwards (by the same or any other codec), and it must still decode to the
// value it was made from.  The harness therefore never copies an encoder's result right away:
// every result stays alive, uncopied, in a ring next to a snapshot, and all live results are
// compared with their snapshots after every later encode.
package main

import (
	"bytes"
	"fmt"

	. "verifharness/hlib"
)

type liveEnc struct {
	codec string
	raw   []byte // exactly what the encoder returned
	snap  []byte
}

var (
	liveRing      []liveEnc
	stabilityBad  []string // "key\x00what\x00case", flushed into Stats by the main loops
	stabilityHits int
)

const liveRingSize = 24

// trackEncoding is called with every encoder result, before anything else is done with it.
func trackEncoding(codecName string, raw []byte) {
	for i := range liveRing {
		e := &liveRing[i]
		if !bytes.Equal(e.raw, e.snap) {
			stabilityBad = append(stabilityBad, fmt.Sprintf("%s-encoding-overwritten\x00an earlier %s encoding changed after a later %s encode: was %x, is now %x\x00%s encoding of %d bytes kept alive across later encodes",
				e.codec, e.codec, codecName, clip(e.snap), clip(e.raw), e.codec, len(e.snap)))
			e.snap = append([]byte{}, e.raw...)
		}
	}
	if len(raw) == 0 {
		return
	}
	stabilityHits++
	liveRing = append(liveRing, liveEnc{codecName, raw, append([]byte{}, raw...)})
	if len(liveRing) > liveRingSize {
		liveRing = liveRing[len(liveRing)-liveRingSize:]
	}
}

func clip(b []byte) []byte {
	if len(b) > 48 {
		return b[:48]
	}
	return b
}

func flushStability(st *Stats, idx int) {
	for _, s := range stabilityBad {
		var parts [3]string
		j := 0
		cur := ""
		for _, c := range s {
			if c == 0 && j < 2 {
				parts[j] = cur
				cur = ""
				j++
				continue
			}
			cur += string(c)
		}
		parts[j] = cur
		st.Fail(idx, parts[0], parts[1], parts[2])
	}
	stabilityBad = stabilityBad[:0]
}
