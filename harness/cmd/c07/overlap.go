package main

import (
	"fmt"
	"net"
	"strings"
	"sync"
	"time"

	. "verifharness/hlib"

	erpc "github.com/henrylee2cn/erpc/v6"
)

// Overlap mode: accepts (through ServeConn and through the listener path) whose goroutine
// stays parked inside the index insert - the session they displace has a handler running -
// while further accepts take the same id over; every history ends with all handlers released.
// Sessions are numbered in the order their accept hooks ran.

var holdMu sync.Mutex
var holdCh = map[interface{}]chan struct{}{}
var holdIn = map[interface{}]chan struct{}{}

func holdChans(k interface{}) (chan struct{}, chan struct{}) {
	holdMu.Lock()
	defer holdMu.Unlock()
	if holdCh[k] == nil {
		holdCh[k] = make(chan struct{})
		holdIn[k] = make(chan struct{}, 16)
	}
	return holdCh[k], holdIn[k]
}

// hold is the PUSH handler /hold: it parks until the session's channel is closed.
func hold(ctx erpc.PushCtx, arg *string) *erpc.Status {
	k := interface{}(ctx.Session())
	recMu.Lock()
	r := recOf[ctx.Peer()]
	recMu.Unlock()
	if r != nil {
		r.mu.Lock()
		r.starts[k]++
		r.mu.Unlock()
	}
	rel, in := holdChans(k)
	in <- struct{}{}
	<-rel
	return nil
}

type oworld struct {
	*world
	port     int
	qsess    []erpc.Session // remote ends, by session number
	displace map[int]int    // session n's accept displaced session m (its goroutine parks in m's Close)
}

func busyLib(d []string) bool {
	for _, g := range d {
		if !strings.Contains(g, "henrylee2cn/erpc") || strings.Contains(g, "GoroutineDump") {
			continue
		}
		nl := strings.IndexByte(g, '\n')
		if nl < 0 {
			continue
		}
		h := g[:nl]
		if strings.Contains(h, "[running") || strings.Contains(h, "[runnable") || strings.Contains(h, "[sleep") {
			return true
		}
	}
	return false
}

func (w *oworld) settleO(sample func() string) (string, bool) {
	var s1 string
	calm := 0
	ok := WaitUntil(4*time.Second, func() bool {
		if busyLib(GoroutineDump()) {
			calm = 0
			return false
		}
		s := sample()
		if calm > 0 && s != s1 {
			calm = 0
		}
		s1 = s
		calm++
		if calm < 4 {
			time.Sleep(time.Millisecond)
			return false
		}
		return true
	})
	return s1, ok
}

func runOverlapCase(st *Stats, idx int, script []string) (string, string) {
	w := &oworld{world: newWorld(), displace: map[int]int{}}
	w.rec.setID = true
	w.P.RoutePushFunc(hold)
	// listener path of P
	l0, err := net.Listen("tcp", "127.0.0.1:0")
	Must(err)
	w.port = l0.Addr().(*net.TCPAddr).Port
	// the listener stays open and is handed to the accept path itself (ListenAndServe would open
	// its own on the configured port - which somebody else may take in between - and end the
	// process on failure)
	LP := erpc.NewPeer(erpc.PeerConfig{LocalIP: "127.0.0.1", ListenPort: uint16(w.port)}, w.rec)
	LP.RoutePushFunc(hold)
	recMu.Lock()
	recOf[LP] = w.rec
	recMu.Unlock()
	go erpc.VerifServeListener(LP, l0)
	addr := fmt.Sprintf("127.0.0.1:%d", w.port)
	WaitUntil(3*time.Second, func() bool {
		c, e := net.Dial("tcp", addr)
		if e == nil {
			c.Close()
			return true
		}
		return false
	})
	// the probe connection above becomes a session of its own on the listener peer: wait until
	// its accept hook has run and it has died again, then forget it
	WaitUntil(3*time.Second, func() bool {
		w.rec.mu.Lock()
		n := len(w.rec.hooked)
		w.rec.mu.Unlock()
		return n >= 1 && LP.CountSession() == 0 && GoroutinesMatching("readDisconnected") == 0 && GoroutinesMatching("serveListener.func") == 0
	})
	w.rec.mu.Lock()
	w.rec.hooked = nil
	w.rec.mu.Unlock()
	var released []interface{}
	defer func() {
		for _, k := range released {
			_ = k
		}
		holdMu.Lock()
		for k, c := range holdCh {
			select {
			case <-c:
			default:
				close(c)
			}
			delete(holdCh, k)
			delete(holdIn, k)
		}
		holdMu.Unlock()
		for _, q := range w.qsess {
			if q != nil {
				q.Close()
			}
		}
		fin := make(chan struct{})
		go func() { LP.Close(); w.destroy(); close(fin) }()
		select {
		case <-fin:
		case <-time.After(3 * time.Second):
		}
		recMu.Lock()
		delete(recOf, LP)
		recMu.Unlock()
	}()
	var ins, outs []string
	human := strings.Join(script, " ")
	listener := strings.HasPrefix(script[0], "L")
	if listener {
		script = script[1:]
	}
	peerOf := w.P
	if listener {
		peerOf = LP
	}
	sample := func() string { return w.observeOn(peerOf, nil, 0, "") }
	for _, ev := range script {
		f := strings.Split(ev, ":")
		var in string
		var a int
		fmt.Sscanf(f[1], "%d", &a)
		switch f[0] {
		case "acch":
			n := len(w.pairs)
			w.rec.mu.Lock()
			w.rec.nextID = fmt.Sprintf("user-%d", a)
			w.rec.mu.Unlock()
			w.idStr[int64(a)] = fmt.Sprintf("user-%d", a)
			w.addID(int64(a))
			// which session holds that id now? the new one's accept goroutine will park in its Close
			if cur, ok := peerOf.GetSession(fmt.Sprintf("user-%d", a)); ok {
				if m := w.numberOf(cur); m >= 0 {
					w.displace[n] = m
				}
			}
			var q erpc.Session
			if listener {
				q, _ = w.Q.Dial(addr)
			} else {
				cc, sc := TCPPair()
				go w.P.ServeConn(sc)
				q, _ = w.Q.ServeConn(cc)
			}
			w.qsess = append(w.qsess, q)
			// the session exists once its accept hook has run
			var key interface{}
			WaitUntil(4*time.Second, func() bool {
				w.rec.mu.Lock()
				defer w.rec.mu.Unlock()
				if len(w.rec.hooked) > n {
					key = w.rec.hooked[n]
					return true
				}
				return false
			})
			if key == nil {
				st.Fail(idx, "quiescence", "accept hook did not run", human)
				return VL(VS("overlap"), VL(ins...)), VL(outs...)
			}
			w.pairs = append(w.pairs, &pair{n: n, p: key.(erpc.Session), key: key, q: q})
			in = VL(VS("acch"), VN(int64(a)))
		case "hold":
			if a < len(w.pairs) {
				pr := w.pairs[a]
				_, inCh := holdChans(pr.key)
				parked := false
				if m, ok := w.displace[a]; ok && !isClosed(w.pairs[m].p) {
					parked = true // its accept has not returned: its read loop is not running yet
				}
				if w.qsess[a] != nil && w.qsess[a].Health() && pr.p.Health() && !parked {
					go w.qsess[a].Push("/hold", "x")
					select {
					case <-inCh:
					case <-time.After(4 * time.Second):
						st.Fail(idx, "quiescence", "held handler was not entered", human)
					}
				}
			}
			in = VL(VS("hold"), VN(int64(a)))
		case "rel":
			if a < len(w.pairs) {
				rel, _ := holdChans(w.pairs[a].key)
				select {
				case <-rel:
				default:
					close(rel)
				}
				// later handlers of this session park on a fresh channel
				holdMu.Lock()
				delete(holdCh, w.pairs[a].key)
				delete(holdIn, w.pairs[a].key)
				holdMu.Unlock()
			}
			in = VL(VS("rel"), VN(int64(a)))
		case "close":
			if a < len(w.pairs) {
				go w.pairs[a].p.Close()
			}
			in = VL(VS("close"), VN(int64(a)))
		}
		_, ok := w.settleO(sample)
		if !ok {
			st.Fail(idx, "quiescence", "no quiescent state within the watchdog after "+ev, human)
			break
		}
		ins = append(ins, in)
		outs = append(outs, "("+VS("none")+" "+w.observeOn(peerOf, st, idx, human)+")")
	}
	return VL(VS("overlap"), VL(ins...)), VL(outs...)
}

func genOverlap(cfg *RunCfg, st *Stats) []string {
	r := cfg.Rng
	var s []string
	if r.Intn(2) == 0 {
		s = append(s, "L")
		st.Count("overlap:listener-path")
	} else {
		st.Count("overlap:serveconn-path")
	}
	n := 0
	held := map[int]bool{}
	steps := 4 + r.Intn(7)
	for e := 0; e < steps; e++ {
		k := r.Intn(100)
		switch {
		case n == 0 || (k < 40 && n < 5):
			s = append(s, fmt.Sprintf("acch:%d", 7+r.Intn(2)))
			n++
			st.Count("ev:accept-colliding-id")
		case k < 65:
			i := r.Intn(n)
			s = append(s, fmt.Sprintf("hold:%d", i))
			held[i] = true
			st.Count("ev:handler-parks")
		case k < 85:
			i := r.Intn(n)
			s = append(s, fmt.Sprintf("rel:%d", i))
			delete(held, i)
			st.Count("ev:handler-released")
		default:
			s = append(s, fmt.Sprintf("close:%d", r.Intn(n)))
			st.Count("ev:close")
		}
	}
	for i := 0; i < n; i++ {
		s = append(s, fmt.Sprintf("rel:%d", i))
	}
	return s
}

func runOverlap(cfg *RunCfg) {
	st := NewStats("C07", cfg)
	st.Rule = "overlap: accepts under colliding ids (hook sets the id) through ServeConn or through the listener path, handlers parked on chosen sessions so that an accept stays blocked inside the index insert while further accepts and Closes run; fixed part: the three-session takeover O/A/B on both paths; distinct by script"
	cw := NewCaseWriter(cfg)
	distinct := DistinctSet{}
	scripts := [][]string{
		{"acch:7", "hold:0", "acch:7", "acch:7", "rel:0", "rel:1", "rel:2"},
		{"L", "acch:7", "hold:0", "acch:7", "acch:7", "rel:0", "rel:1", "rel:2"},
		{"acch:7", "hold:0", "acch:7", "close:1", "acch:7", "rel:0"},
		{"L", "acch:7", "hold:0", "acch:7", "hold:1", "acch:7", "rel:1", "rel:0"},
	}
	for len(scripts) < cfg.N {
		scripts = append(scripts, genOverlap(cfg, st))
	}
	scripts = scripts[:cfg.N]
	for i, sc := range scripts {
		in, out := runOverlapCase(st, i, sc)
		cw.Add(in, out)
		distinct.Add(strings.Join(sc, " "))
		if len(st.Samples) < 3 {
			st.Samples = append(st.Samples, strings.Join(sc, " "))
		}
	}
	st.Evaluations = len(scripts)
	st.DistinctNontrivial = len(distinct)
	st.Write(cfg, cw)
}
