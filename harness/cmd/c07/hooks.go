package main

import (
	"errors"
	"fmt"
	"math/rand"
	"strings"
	"sync"

	. "verifharness/hlib"

	erpc "github.com/henrylee2cn/erpc/v6"
)

// Accept / dial hooks with a programmable outcome per plugin: the peer P of a history carries
// k plugins (the recording plugin at position pos, hookPlugs around it); for every accept the
// harness says what each of them does when it is called: return nil, return a status object
// (code 0 = an OK status), or panic with a value of some kind.

type hookOut struct {
	kind string // "ok" | "stat" | "panic"
	code int32  // for "stat"
	pk   string // for "panic": str | err | stat | int | rt
}

func (o hookOut) val() string {
	switch o.kind {
	case "stat":
		return VL(VS("stat"), VZ(int64(o.code)))
	case "panic":
		return VL(VS("panic"), VS(o.pk))
	}
	return VS("ok")
}

func (o hookOut) isOK() bool { return o.kind == "ok" || (o.kind == "stat" && o.code == 0) }

func (o hookOut) String() string {
	switch o.kind {
	case "stat":
		return fmt.Sprintf("returned a status with code %d", o.code)
	case "panic":
		return fmt.Sprintf("panicked (%s value)", o.pk)
	}
	return "returned nil"
}

// act is what the plugin does, outside the recorder's lock.
func (o hookOut) act() *erpc.Status {
	switch o.kind {
	case "stat":
		return erpc.NewStatus(o.code, "said by the hook", nil)
	case "panic":
		switch o.pk {
		case "err":
			panic(errors.New("hook error value"))
		case "stat":
			panic(erpc.NewStatus(403, "thrown by the hook", ""))
		case "int":
			panic(42)
		case "rt":
			var m map[string]int
			m["x"] = 1 // a runtime.Error
		}
		panic("hook panic")
	}
	return nil
}

// hookPlug is one more PostAccept/PostDial plugin in front of or behind the recording plugin.
type hookPlug struct {
	r   *recPlugin
	idx int
}

func (h *hookPlug) Name() string { return fmt.Sprintf("c07hook%d", h.idx) }
func (h *hookPlug) PostAccept(s erpc.PreSession) *erpc.Status {
	return h.r.hookAt(h.idx, s, s.RemoteAddr().String())
}
func (h *hookPlug) PostDial(s erpc.PreSession, isRedial bool) *erpc.Status {
	return h.r.hookAt(h.idx, s, s.LocalAddr().String())
}

// hookAt records the call of plugin idx for session s and produces the programmed outcome.
func (r *recPlugin) hookAt(idx int, s erpc.PreSession, id string) *erpc.Status {
	r.mu.Lock()
	k := interface{}(s)
	r.last = k
	r.lastID = id
	if len(r.hooked) == 0 || r.hooked[len(r.hooked)-1] != k {
		r.hooked = append(r.hooked, k)
	}
	if idx == r.pos && r.setID && r.nextID != "" {
		s.SetID(r.nextID)
	}
	out := hookOut{kind: "ok"}
	if idx < len(r.outs) {
		out = r.outs[idx]
	}
	if idx == r.pos && r.reject {
		out = hookOut{kind: "stat", code: 403}
	}
	for len(r.ran) <= idx {
		r.ran = append(r.ran, 0)
	}
	r.ran[idx]++
	r.did = append(r.did, didOut{idx, out})
	r.mu.Unlock()
	return out.act()
}

type didOut struct {
	idx int
	out hookOut
}

// program sets the outcomes of the next accept / dial and clears what the last one left.
func (r *recPlugin) program(outs []hookOut) {
	r.mu.Lock()
	r.outs = outs
	r.ran = make([]int, len(outs))
	r.did = nil
	r.last = nil
	r.mu.Unlock()
}

// failure describes the first call of this accept that did not return an OK status ("" = none).
func (r *recPlugin) failure() string {
	r.mu.Lock()
	defer r.mu.Unlock()
	for _, d := range r.did {
		if !d.out.isOK() {
			return fmt.Sprintf("its hook (plugin %d) %s", d.idx, d.out)
		}
	}
	return ""
}

func (r *recPlugin) ranVal(k int) string {
	r.mu.Lock()
	defer r.mu.Unlock()
	var l []string
	for i := 0; i < k; i++ {
		n := 0
		if i < len(r.ran) {
			n = r.ran[i]
		}
		l = append(l, VN(int64(n)))
	}
	return VL(l...)
}

// sessions that were ever switched to ok (status observer), for the listener path, which hands
// no session back
var everOkMu sync.Mutex
var everOk = map[interface{}]bool{}

func watchOk() {
	erpc.VerifSetStatusObserver(func(s erpc.Session, to int32) {
		if erpc.VerifStatusName(to) == "ok" {
			everOkMu.Lock()
			everOk[interface{}(s)] = true
			everOkMu.Unlock()
		}
	})
}

// forgetOk drops the record at the end of a history (it would keep every session alive).
func forgetOk() {
	everOkMu.Lock()
	everOk = map[interface{}]bool{}
	everOkMu.Unlock()
}

func wasOk(k interface{}) bool {
	everOkMu.Lock()
	defer everOkMu.Unlock()
	return everOk[k]
}

var failCodes = []int32{403, 500, 1001, -1, 1, 102, 105, 404}
var panicKinds = []string{"str", "err", "stat", "int", "rt"}

func genOK(r *rand.Rand) hookOut {
	if r.Intn(4) == 0 {
		return hookOut{kind: "stat", code: 0}
	}
	return hookOut{kind: "ok"}
}

func genFail(r *rand.Rand) hookOut {
	if r.Intn(2) == 0 {
		return hookOut{kind: "panic", pk: panicKinds[r.Intn(len(panicKinds))]}
	}
	return hookOut{kind: "stat", code: failCodes[r.Intn(len(failCodes))]}
}

// genOuts: outcomes for the k plugins of one accept; with fail, the plugin at a random position
// is the first that does not agree, and the ones behind it do anything (they must not be called).
func genOuts(r *rand.Rand, k int, fail bool) []hookOut {
	outs := make([]hookOut, k)
	f := k
	if fail {
		f = r.Intn(k)
	}
	for i := range outs {
		switch {
		case i < f:
			outs[i] = genOK(r)
		case i == f:
			outs[i] = genFail(r)
		default:
			if r.Intn(2) == 0 {
				outs[i] = genOK(r)
			} else {
				outs[i] = genFail(r)
			}
		}
	}
	return outs
}

func outsVal(outs []hookOut) string {
	var l []string
	for _, o := range outs {
		l = append(l, o.val())
	}
	return VL(l...)
}

func outsKind(outs []hookOut) string {
	for _, o := range outs {
		if !o.isOK() {
			return "-rej-" + o.kind
		}
	}
	return ""
}

// acceptBusy: an accept goroutine of the listener path has not reached its read loop yet.
func acceptBusy() bool {
	for _, g := range GoroutineDump() {
		if strings.Contains(g, "serveListener.func") && !strings.Contains(g, "startReadAndHandle") {
			return true
		}
	}
	return false
}
