// c07 drives live peers through lifecycle histories (-mode hist) and forces every
// interleaving of closeLocked against readDisconnected through the gates (-mode race).
package main

import (
	"flag"
	"fmt"
	"net"
	"os"
	"sort"
	"strings"
	"sync"
	"time"

	. "verifharness/hlib"

	erpc "github.com/henrylee2cn/erpc/v6"
)

const settleTimeout = 15 * time.Second

// ---- recording plugin: hook verdicts, disconnect-hook counter, session identities ----

type recPlugin struct {
	mu     sync.Mutex
	reject bool
	setID  bool // overlap mode: the accept hook sets nextID as the session id
	nextID string
	hooked []interface{} // sessions in the order their accept hooks ran
	last   interface{}   // the session seen by the last PostAccept/PostDial
	lastID string
	discs  map[interface{}]int
	starts map[interface{}]int
	pos    int       // position of this plugin among the accept/dial plugins of its peer
	outs   []hookOut // programmed outcome per plugin for the next accept / dial (hooks.go)
	ran    []int     // calls per plugin since the last program()
	did    []didOut  // outcomes produced since the last program(), in call order
}

func newRec() *recPlugin {
	return &recPlugin{discs: map[interface{}]int{}, starts: map[interface{}]int{}}
}
func (r *recPlugin) Name() string { return "c07rec" }
func (r *recPlugin) PostAccept(s erpc.PreSession) *erpc.Status {
	return r.hookAt(r.pos, s, s.RemoteAddr().String())
}
func (r *recPlugin) PostDial(s erpc.PreSession, isRedial bool) *erpc.Status {
	return r.hookAt(r.pos, s, s.LocalAddr().String())
}
func (r *recPlugin) PostDisconnect(s erpc.BaseSession) *erpc.Status {
	r.mu.Lock()
	r.discs[interface{}(s)]++
	r.mu.Unlock()
	return nil
}
func (r *recPlugin) discCount(k interface{}) int {
	r.mu.Lock()
	defer r.mu.Unlock()
	return r.discs[k]
}
func (r *recPlugin) startCount(k interface{}) int {
	r.mu.Lock()
	defer r.mu.Unlock()
	return r.starts[k]
}

// T is the call controller registered on both peers: /t/echo.
type T struct{ erpc.CallCtx }

var recOf = map[erpc.Peer]*recPlugin{}
var recMu sync.Mutex

func (t *T) Echo(arg *string) (string, *erpc.Status) {
	recMu.Lock()
	r := recOf[t.Peer()]
	recMu.Unlock()
	if r != nil {
		r.mu.Lock()
		r.starts[interface{}(t.Session())]++
		r.mu.Unlock()
	}
	return *arg, nil
}

func classOf(st *erpc.Status) string {
	if st.OK() {
		return "ok"
	}
	switch st.Code() {
	case erpc.CodeConnClosed:
		return "connclosed"
	case erpc.CodeWriteFailed:
		return "writefailed"
	case erpc.CodeBadMessage:
		return "badmsg"
	}
	return fmt.Sprintf("code%d", st.Code())
}

// ---- one history ----

type pair struct {
	n             int
	p             erpc.Session // nil when the hooks refused it
	key           interface{}  // identity of the P-side session (also for refused ones)
	obj           erpc.Session // the P-side session object as its hooks saw it (also for refused ones)
	hookFail      string       // what the first accept/dial hook that did not return OK did ("" = all agreed)
	q             erpc.Session
	qconn         net.Conn
	pconn         net.Conn // nil for dialled sessions
	dead          bool     // was seen unhealthy
	startsAtDeath int
}

type world struct {
	P, Q  erpc.Peer
	rec   *recPlugin
	qrec  *recPlugin
	pairs []*pair
	idStr map[int64]string
	ids   []int64
	lis   net.Listener
	k     int          // number of accept/dial plugins of P
	plis  net.Listener // listener served by P itself (listener accept path), opened on first use
	paddr string
	pdown bool // P.Close() was called
}

func newWorld() *world { return newWorldK(1, 0) }

// newWorldK: P carries k accept/dial plugins, the recording plugin at position pos.
func newWorldK(k, pos int) *world {
	w := &world{rec: newRec(), qrec: newRec(), idStr: map[int64]string{}, k: k}
	w.rec.pos = pos
	var plugs []erpc.Plugin
	for i := 0; i < k; i++ {
		if i == pos {
			plugs = append(plugs, w.rec)
		} else {
			plugs = append(plugs, &hookPlug{w.rec, i})
		}
	}
	w.P = erpc.NewPeer(erpc.PeerConfig{}, plugs...)
	w.Q = erpc.NewPeer(erpc.PeerConfig{}, w.qrec)
	w.P.RouteCall(new(T))
	w.Q.RouteCall(new(T))
	recMu.Lock()
	recOf[w.P] = w.rec
	recOf[w.Q] = w.qrec
	recMu.Unlock()
	var err error
	w.lis, err = net.Listen("tcp", "127.0.0.1:0")
	Must(err)
	return w
}

// ensureListener opens a listener and hands it to P's own accept loop (serveListener).
func (w *world) ensureListener() {
	if w.plis != nil {
		return
	}
	l, err := net.Listen("tcp", "127.0.0.1:0")
	Must(err)
	w.plis, w.paddr = l, l.Addr().String()
	go erpc.VerifServeListener(w.P, l)
}

func (w *world) destroy() {
	w.lis.Close()
	if w.plis != nil {
		w.plis.Close()
	}
	for _, pr := range w.pairs {
		if pr.p != nil {
			pr.p.Close()
		}
		if pr.q != nil {
			pr.q.Close()
		}
		if pr.qconn != nil {
			pr.qconn.Close()
		}
	}
	recMu.Lock()
	delete(recOf, w.P)
	delete(recOf, w.Q)
	recMu.Unlock()
	w.P.Close()
	w.Q.Close()
}

func transient(s erpc.Session) bool {
	switch erpc.VerifStatusName(erpc.VerifSessionStatus(s)) {
	case "active-closing", "passive-closing", "preparing", "redialing":
		return true
	}
	return false
}

func isClosed(s erpc.Session) bool {
	switch erpc.VerifStatusName(erpc.VerifSessionStatus(s)) {
	case "active-closed", "passive-closed":
		return true
	}
	return false
}

// settle waits for quiescence: no closing procedure on any stack, no session in a
// transient status, and both ends of every connection agree on dead/alive.
func (w *world) settle() bool {
	return WaitUntil(settleTimeout, func() bool {
		for _, pr := range w.pairs {
			if pr.p != nil && transient(pr.p) {
				return false
			}
			if pr.q != nil && transient(pr.q) {
				return false
			}
			pdead := pr.p == nil || isClosed(pr.p)
			qdead := pr.q == nil || isClosed(pr.q)
			if pdead != qdead {
				return false
			}
		}
		d := GoroutineDump()
		return CountIn(d, "closeLocked") == 0 && CountIn(d, "readDisconnected") == 0
	})
}

// unsettled says what keeps the world from being quiescent (for the quiescence report).
func (w *world) unsettled() string {
	var l []string
	name := func(s erpc.Session) string {
		if s == nil {
			return "none"
		}
		return erpc.VerifStatusName(erpc.VerifSessionStatus(s))
	}
	for _, pr := range w.pairs {
		pdead := pr.p == nil || isClosed(pr.p)
		qdead := pr.q == nil || isClosed(pr.q)
		if pdead != qdead || (pr.p != nil && transient(pr.p)) || (pr.q != nil && transient(pr.q)) {
			l = append(l, fmt.Sprintf("session %d: local %s, remote end %s", pr.n, name(pr.p), name(pr.q)))
		}
	}
	d := GoroutineDump()
	l = append(l, fmt.Sprintf("goroutines in closeLocked: %d, in readDisconnected: %d", CountIn(d, "closeLocked"), CountIn(d, "readDisconnected")))
	return strings.Join(l, "; ")
}

func (w *world) addID(id int64) {
	for _, x := range w.ids {
		if x == id {
			return
		}
	}
	w.ids = append(w.ids, id)
}

// accept runs one accept / dial on P with the given outcome per plugin; path = acc (ServeConn),
// lis (P's own accept loop on a listener), dial (P.Dial).  It returns the id number of the new
// session's default id - 1000+n, or the number already given to the same string (the OS may reuse
// an address of an earlier connection) - and the event's own result: the code of the status the
// call returned (none on the listener path) and the number of calls of every plugin.
func (w *world) accept(path string, outs []hookOut, fail func(key, what string)) (int64, string) {
	n := len(w.pairs)
	pr := &pair{n: n}
	w.rec.program(outs)
	w.rec.mu.Lock()
	nh := len(w.rec.hooked)
	w.rec.mu.Unlock()
	var got erpc.Session
	var ret *erpc.Status
	retKnown := true
	var wg sync.WaitGroup
	switch path {
	case "dial":
		wg.Add(1)
		go func() {
			defer wg.Done()
			c, err := w.lis.Accept()
			Must(err)
			pr.qconn = c
			pr.q, _ = w.Q.ServeConn(c)
		}()
		if s, st := w.P.Dial(w.lis.Addr().String()); s != nil {
			got, ret = s, st
		} else {
			ret = st
		}
		wg.Wait()
	case "lis":
		retKnown = false
		w.ensureListener()
		c, err := net.Dial("tcp", w.paddr)
		Must(err)
		pr.qconn = c
		// on Q's side every connection to P's listener has the same remote address: its accept
		// hook gives the session an id of its own, otherwise it would take over (and close) the
		// previous one
		w.qrec.mu.Lock()
		w.qrec.setID, w.qrec.nextID = true, fmt.Sprintf("q-lis-%d", n)
		w.qrec.mu.Unlock()
		pr.q, _ = w.Q.ServeConn(c)
		w.qrec.mu.Lock()
		w.qrec.setID, w.qrec.nextID = false, ""
		w.qrec.mu.Unlock()
		// the session exists once its first accept hook has run; the accept is over when the
		// session has left preparing and its goroutine is in the read loop or gone
		var key interface{}
		WaitUntil(settleTimeout, func() bool {
			w.rec.mu.Lock()
			defer w.rec.mu.Unlock()
			if len(w.rec.hooked) > nh {
				key = w.rec.hooked[nh]
				return true
			}
			return false
		})
		if key == nil {
			fail("quiescence", "listener path: the accept hook did not run")
		} else {
			ks := key.(erpc.Session)
			WaitUntil(settleTimeout, func() bool {
				return erpc.VerifStatusName(erpc.VerifSessionStatus(ks)) != "preparing" && !acceptBusy()
			})
			if wasOk(key) {
				got = ks // the listener path hands nothing back: accepted = was switched to ok
			}
		}
	default:
		cc, sc := TCPPair()
		pr.qconn, pr.pconn = cc, sc
		wg.Add(2)
		go func() { defer wg.Done(); pr.q, _ = w.Q.ServeConn(cc) }()
		go func() {
			defer wg.Done()
			if s, st := w.P.ServeConn(sc); s != nil {
				got, ret = s, st
			} else {
				ret = st
			}
		}()
		wg.Wait()
	}
	w.rec.mu.Lock()
	pr.key = w.rec.last
	lastID := w.rec.lastID
	w.rec.reject = false
	w.rec.mu.Unlock()
	pr.hookFail = w.rec.failure()
	if pr.key != nil {
		pr.obj, _ = pr.key.(erpc.Session)
	}
	idn := int64(1000 + n)
	for k, v := range w.idStr {
		if v == lastID {
			idn = k
		}
	}
	w.idStr[idn] = lastID
	if got != nil {
		pr.p = got
		pr.key = interface{}(got)
		pr.obj = got
	}
	w.pairs = append(w.pairs, pr)
	w.addID(idn)
	retv := VS("none")
	if retKnown {
		retv = VZ(int64(ret.Code()))
		if pr.hookFail != "" && (got != nil || ret.OK()) {
			fail("hooks", fmt.Sprintf("session %d (%s): the call returned a session / an OK status although %s", n, path, pr.hookFail))
		}
	}
	return idn, VL(retv, w.rec.ranVal(w.k))
}

func (w *world) numberOf(s erpc.Session) int {
	for _, pr := range w.pairs {
		if pr.p != nil && interface{}(pr.p) == interface{}(s) {
			return pr.n
		}
	}
	return -1
}

// observe returns the observation entry (without the event's own result) and runs the
// property oracles on the implementation's own answers.
func (w *world) observe(st *Stats, idx int, human string) string {
	return w.observeOn(w.P, st, idx, human)
}

// observeOn observes the sessions and the index of peer P; with st == nil nothing is judged.
func (w *world) observeOn(P erpc.Peer, st *Stats, idx int, human string) string {
	fail := func(key, what string) {
		if st != nil {
			st.Fail(idx, key, what, human)
		}
	}
	var so []string
	healthy := map[int]bool{}
	for _, pr := range w.pairs {
		if pr.hookFail != "" && pr.obj != nil {
			// healthy / indexed / handling messages only after the accept or dial hooks succeeded
			if pr.obj.Health() {
				fail("hooks", fmt.Sprintf("session %d is healthy although %s", pr.n, pr.hookFail))
			}
			if x, ok := P.GetSession(pr.obj.ID()); ok && interface{}(x) == interface{}(pr.obj) {
				fail("hooks", fmt.Sprintf("session %d is in the index although %s", pr.n, pr.hookFail))
			}
			if w.rec.startCount(pr.key) > 0 {
				fail("hooks", fmt.Sprintf("session %d: a handler started although %s", pr.n, pr.hookFail))
			}
		}
		if pr.p == nil {
			so = append(so, VL(VS("rej"), VN(int64(w.rec.discCount(pr.key)))))
			continue
		}
		h := pr.p.Health()
		fired := false
		select {
		case <-pr.p.CloseNotify():
			fired = true
		default:
		}
		hooks := w.rec.discCount(pr.key)
		starts := w.rec.startCount(pr.key)
		hs, fs := "u", "quiet"
		if h {
			hs = "h"
			healthy[pr.n] = true
		}
		if fired {
			fs = "fired"
		}
		so = append(so, VL(VS(hs), VS(fs), VN(int64(hooks)), VN(int64(starts))))
		// oracles
		if h && pr.dead {
			fail("absorbing", fmt.Sprintf("session %d healthy again after it was closed", pr.n))
		}
		if !h {
			if !pr.dead {
				pr.dead = true
				pr.startsAtDeath = starts
			}
			if !fired {
				fail("notify", fmt.Sprintf("session %d closed but CloseNotify has not fired", pr.n))
			}
			if isClosed(pr.p) && hooks != 1 {
				fail("hook-once", fmt.Sprintf("session %d closed, disconnect hook ran %d times", pr.n, hooks))
			}
			if hooks > 1 {
				fail("hook-once", fmt.Sprintf("session %d: disconnect hook ran %d times", pr.n, hooks))
			}
			if starts != pr.startsAtDeath {
				fail("handler-after-close", fmt.Sprintf("session %d: a handler started after close", pr.n))
			}
		} else {
			if fired {
				fail("notify", fmt.Sprintf("session %d healthy but CloseNotify fired", pr.n))
			}
			if hooks != 0 {
				fail("hook-once", fmt.Sprintf("session %d healthy but disconnect hook ran %d times", pr.n, hooks))
			}
			if x, ok := P.GetSession(pr.p.ID()); !ok || interface{}(x) != interface{}(pr.p) {
				fail("index", fmt.Sprintf("live session %d is not in the index under its id %q", pr.n, pr.p.ID()))
			}
		}
	}
	var io []string
	for _, id := range w.ids {
		s, ok := P.GetSession(w.idStr[id])
		if !ok {
			io = append(io, VS("none"))
			continue
		}
		k := w.numberOf(s)
		io = append(io, VN(int64(k)))
		if k < 0 || !s.Health() || s.ID() != w.idStr[id] {
			fail("index", fmt.Sprintf("index entry %q is not a live session with that id (session %d)", w.idStr[id], k))
		}
	}
	cnt := P.CountSession()
	var rng []int
	P.RangeSession(func(s erpc.Session) bool {
		rng = append(rng, w.numberOf(s))
		for _, pr := range w.pairs {
			if pr.hookFail != "" && pr.obj != nil && interface{}(pr.obj) == interface{}(s) {
				fail("hooks", fmt.Sprintf("RangeSession yields session %d although %s", pr.n, pr.hookFail))
			}
		}
		return true
	})
	sort.Ints(rng)
	var ro []string
	for _, k := range rng {
		ro = append(ro, VN(int64(k)))
		if !healthy[k] {
			fail("index", fmt.Sprintf("RangeSession yields session %d which is not live", k))
		}
	}
	if cnt != len(healthy) || len(rng) != len(healthy) {
		fail("index", fmt.Sprintf("CountSession=%d RangeSession=%d but %d sessions are live", cnt, len(rng), len(healthy)))
	}
	return strings.Join([]string{VL(so...), VL(io...), VN(int64(cnt)), VL(ro...)}, " ")
}

func runHist(cfg *RunCfg) {
	st := NewStats("C07", cfg)
	st.Rule = "hist: random histories (8..22 events, <= 6 sessions) over {accept through ServeConn / through P's own listener loop / dial, each with an outcome per accept/dial plugin of P (1..3 plugins: nil, OK status object, non-OK status of 8 codes, panic with a string/error/status/int/runtime-error value; the plugins behind the first failure do anything), SetID fresh/colliding/swapping, call, push, local Close, remote close, cut, peer Close, remote call (also to refused sessions)}; distinct by event-kind sequence; non-trivial = contains a close-like event and a later event on some session, or a refused accept/dial and a later event"
	cw := NewCaseWriter(cfg)
	distinct := DistinctSet{}
	r := cfg.Rng
	watchOk()
	for i := 0; i < cfg.N; i++ {
		nplug := 1 + r.Intn(3)
		w := newWorldK(nplug, r.Intn(nplug))
		st.Count(fmt.Sprintf("plugins:%d", nplug))
		var evIn, evObs, kinds []string
		human := ""
		nEv := 8 + r.Intn(15)
		pclosed := false
		closeSeen, nontrivial := false, false
		est := func() []*pair {
			var l []*pair
			for _, pr := range w.pairs {
				if pr.p != nil {
					l = append(l, pr)
				}
			}
			return l
		}
		for e := 0; e < nEv; e++ {
			es := est()
			k := r.Intn(100)
			var in, res, kind string
			res = VS("none")
			switch {
			case len(w.pairs) == 0 || (k < 18 && len(w.pairs) < 6):
				outs := genOuts(r, w.k, r.Intn(4) == 0)
				path := "acc"
				switch x := r.Intn(12); {
				case x < 4:
					path = "dial"
				case x < 7 && !pclosed:
					path = "lis"
				}
				var idn int64
				idn, res = w.accept(path, outs, func(key, what string) { st.Fail(i, key, what, human) })
				kind = path + outsKind(outs)
				in = VL(VS(path), VN(idn), outsVal(outs))
			case len(es) == 0:
				e--
				if len(w.pairs) >= 6 {
					e = nEv
				}
				continue
			case k < 36:
				pr := es[r.Intn(len(es))]
				var id int64
				switch r.Intn(4) {
				case 0, 1:
					id = int64(1 + r.Intn(3))
					kind = "setid-pool"
				default:
					o := w.pairs[r.Intn(len(w.pairs))]
					id = int64(1000 + o.n)
					kind = "setid-default"
				}
				if _, ok := w.idStr[id]; !ok {
					w.idStr[id] = fmt.Sprintf("id%d", id)
				}
				w.addID(id)
				pr.p.SetID(w.idStr[id])
				in = VL(VS("setid"), VN(int64(pr.n)), VN(id))
			case k < 50:
				pr := es[r.Intn(len(es))]
				var out string
				cmd := pr.p.Call("/t/echo", "x", &out)
				res = VS(classOf(cmd.Status()))
				kind = "call"
				if pr.dead {
					kind = "call-closed"
					if res != VS("connclosed") {
						st.Fail(i, "fail-fast", "call on a closed session did not fail with connection-closed: "+res, human)
					}
				}
				in = VL(VS("call"), VN(int64(pr.n)))
			case k < 60:
				pr := es[r.Intn(len(es))]
				res = VS(classOf(pr.p.Push("/t/nohandler", "x")))
				kind = "push"
				if pr.dead {
					kind = "push-closed"
					if res != VS("connclosed") {
						st.Fail(i, "fail-fast", "push on a closed session did not fail with connection-closed: "+res, human)
					}
				}
				in = VL(VS("push"), VN(int64(pr.n)))
			case k < 72:
				pr := es[r.Intn(len(es))]
				pr.p.Close()
				kind = "close"
				in = VL(VS("close"), VN(int64(pr.n)))
			case k < 80:
				pr := es[r.Intn(len(es))]
				if pr.q != nil {
					pr.q.Close()
				} else if pr.qconn != nil {
					pr.qconn.Close()
				}
				kind = "rclose"
				in = VL(VS("rclose"), VN(int64(pr.n)))
				WaitUntil(settleTimeout, func() bool { return !pr.p.Health() }) // the loss has to be noticed first
			case k < 87:
				pr := es[r.Intn(len(es))]
				if pr.pconn != nil {
					pr.pconn.Close()
				} else {
					pr.qconn.Close()
				}
				kind = "cut"
				in = VL(VS("cut"), VN(int64(pr.n)))
				WaitUntil(settleTimeout, func() bool { return !pr.p.Health() }) // the loss has to be noticed first
			case k < 90 && !pclosed:
				pclosed = true
				w.P.Close()
				kind = "pclose"
				in = VL(VS("pclose"))
			default:
				// the remote end calls: also on a connection whose session was refused
				pr := w.pairs[r.Intn(len(w.pairs))]
				kind = "rcall"
				if pr.q == nil {
					e--
					continue
				}
				if pr.hookFail != "" {
					kind = "rcall-refused"
				}
				var out string
				cmd := pr.q.Call("/t/echo", "y", &out)
				res = VS(classOf(cmd.Status()))
				in = VL(VS("rcall"), VN(int64(pr.n)))
			}
			human += in + " "
			if !w.settle() {
				st.Fail(i, "quiescence", "no quiescent state within the watchdog after "+in+" ("+w.unsettled()+")", human)
			}
			if closeSeen {
				nontrivial = true
			}
			switch kind {
			case "close", "rclose", "cut", "pclose":
				closeSeen = true
			}
			if strings.Contains(kind, "-rej-") {
				closeSeen = true
			}
			st.Count("ev:" + kind)
			kinds = append(kinds, kind)
			evIn = append(evIn, in)
			evObs = append(evObs, "("+res+" "+w.observe(st, i, human)+")")
		}
		cw.Add(VL(VS("hist"), VL(evIn...)), VL(evObs...))
		if nontrivial {
			distinct.Add(strings.Join(kinds, ","))
		}
		if len(st.Samples) < 4 {
			st.Samples = append(st.Samples, human)
		}
		w.destroy()
		forgetOk()
	}
	st.Evaluations = cfg.N
	st.DistinctNontrivial = len(distinct)
	st.Write(cfg, cw)
}

func main() {
	mode := flag.String("mode", "hist", "hist|race|overlap|redial")
	cfg := ParseFlags()
	Quiet()
	switch *mode {
	case "hist":
		runHist(cfg)
	case "race":
		runRace(cfg)
	case "overlap":
		runOverlap(cfg)
	case "redial":
		runRedial(cfg)
	default:
		fmt.Fprintln(os.Stderr, "unknown mode")
		os.Exit(2)
	}
}
