package main

import (
	"fmt"
	"runtime"
	"strings"
	"time"

	. "verifharness/hlib"

	erpc "github.com/henrylee2cn/erpc/v6"
)

// Race mode: one session whose remote end is a scripted raw peer; Close() (actor c) and
// the disconnect path of the read loop (actor d) are stepped gate by gate in a given order.
// Letter c: start Close() / release the gate closeLocked is parked at.
// Letter d: cut the connection / release the gate readDisconnected is parked at.
// After each letter the position of that actor is recorded: the gate it is parked at,
// "done", or "blocked" (did not arrive anywhere within the watchdog).

const raceWatchdog = 2 * time.Second

var closerGates = []string{"close.cas", "close.ctxwaited", "close.callwaited", "close.presock"}
var closerSyms = []string{"c1", "c4", "c5", "c6"}
var discGates = []string{"disc.read", "disc.stored", "disc.precancel", "disc.presock"}
var discSyms = []string{"d1", "d2", "d4", "d6"}

// interleavings of a copies of 'c' and b copies of 'd'
func interleavings(a, b int) []string {
	if a == 0 {
		return []string{strings.Repeat("d", b)}
	}
	if b == 0 {
		return []string{strings.Repeat("c", a)}
	}
	var out []string
	for _, s := range interleavings(a-1, b) {
		out = append(out, "c"+s)
	}
	for _, s := range interleavings(a, b-1) {
		out = append(out, "d"+s)
	}
	return out
}

type raceRun struct {
	g        *GateCtl
	sess     erpc.Session
	closed   chan struct{}
	cStarted bool
	dStarted bool
}

func (rr *raceRun) closerAt() string {
	if !rr.cStarted {
		return "idle"
	}
	select {
	case <-rr.closed:
		return "done"
	default:
	}
	for i, p := range closerGates {
		if rr.g.Parked(p, rr.sess) > 0 {
			return closerSyms[i]
		}
	}
	if CountIn(GoroutineDump(), "closeLocked", "Group).Wait") > 0 {
		return "blocked"
	}
	return ""
}

func readerGone() bool { return CountIn(GoroutineDump(), "startReadAndHandle") == 0 }

func (rr *raceRun) discAt() string {
	if !rr.dStarted {
		return "reading"
	}
	for i, p := range discGates {
		if rr.g.Parked(p, rr.sess) > 0 {
			return discSyms[i]
		}
	}
	if readerGone() {
		return "done"
	}
	if CountIn(GoroutineDump(), "readDisconnected", "Group).Wait") > 0 || CountIn(GoroutineDump(), "readDisconnected", "sync.(*Mutex).Lock") > 0 {
		return "blocked"
	}
	return ""
}

// settle waits until both actors are parked at a gate, finished, or blocked inside a wait,
// and stay so over two samples; a goroutine still in flight after the watchdog counts as
// blocked.
func (rr *raceRun) settle() (string, string) {
	var c, d string
	WaitUntil(settleTimeout, func() bool {
		c, d = rr.closerAt(), rr.discAt()
		if c == "" || d == "" {
			return false
		}
		time.Sleep(8 * time.Millisecond)
		return rr.closerAt() == c && rr.discAt() == d
	})
	if c == "" {
		c = "blocked"
	}
	if d == "" {
		d = "blocked"
	}
	return c, d
}

func runOneRace(pending bool, sched string, st *Stats, idx int) (string, string) {
	rec := newRec()
	P := erpc.NewPeer(erpc.PeerConfig{}, rec)
	cc, sc := TCPPair()
	raw := NewRawPeer(sc)
	sess, _ := P.ServeConn(cc)
	g := NewGateCtl()
	rr := &raceRun{g: g, sess: sess, closed: make(chan struct{})}
	for _, p := range closerGates {
		g.Arm(p, sess)
	}
	for _, p := range discGates {
		g.Arm(p, sess)
	}
	ch := make(chan erpc.CallCmd, 8)
	var cmd erpc.CallCmd
	if pending {
		var out string
		cmd = sess.AsyncCall("/t/echo", "x", &out, ch)
		raw.Recv(5 * time.Second)
	}
	var pos []string
	c, d := rr.settle()
	for _, l := range sched {
		if l == 'c' {
			if !rr.cStarted {
				rr.cStarted = true
				go func() { sess.Close(); close(rr.closed) }()
			} else {
				for i, sy := range closerSyms {
					if sy == c {
						g.Release(closerGates[i], sess)
					}
				}
			}
			c, d = rr.settle()
			pos = append(pos, VS(c))
		} else {
			if !rr.dStarted {
				rr.dStarted = true
				sc.Close()
			} else {
				for i, sy := range discSyms {
					if sy == d {
						g.Release(discGates[i], sess)
					}
				}
			}
			c, d = rr.settle()
			pos = append(pos, VS(d))
		}
	}
	// end of schedule: disarm everything, let both actors finish
	for _, p := range closerGates {
		g.Disarm(p, sess)
	}
	for _, p := range discGates {
		g.Disarm(p, sess)
	}
	cfin := "blocked"
	select {
	case <-rr.closed:
		cfin = "done"
	case <-time.After(settleTimeout):
	}
	dfin := "blocked"
	if WaitUntil(settleTimeout, readerGone) {
		dfin = "done"
	}
	g.Uninstall()
	fired := "quiet"
	select {
	case <-sess.CloseNotify():
		fired = "fired"
	default:
	}
	hooks := rec.discCount(interface{}(sess))
	var calls []string
	if cmd != nil {
		select {
		case <-cmd.Done():
			calls = append(calls, VS(classOf(cmd.Status())))
		case <-time.After(raceWatchdog):
			calls = append(calls, VS("pending"))
		}
	}
	stName := erpc.VerifStatusName(erpc.VerifSessionStatus(sess))
	human := fmt.Sprintf("pending=%v schedule=%s", pending, sched)
	// oracles on the implementation alone
	if hooks != 1 {
		st.Fail(idx, "hook-once", fmt.Sprintf("disconnect hook ran %d times", hooks), human)
	}
	if fired != "fired" {
		st.Fail(idx, "notify", "CloseNotify did not fire", human)
	}
	if stName != "active-closed" && stName != "passive-closed" {
		st.Fail(idx, "absorbing", "session did not reach a closed status: "+stName, human)
	}
	if cfin != "done" || dfin != "done" {
		st.Fail(idx, "quiescence", "Close or the read loop did not finish: close="+cfin+" reader="+dfin, human)
	}
	if cmd != nil && (len(ch) != 1 || calls[0] == "pending") {
		st.Fail(idx, "call-once", fmt.Sprintf("pending call: %d deliveries, status %s", len(ch), calls[0]), human)
	}
	if _, ok := P.GetSession(sess.ID()); ok || P.CountSession() != 0 {
		st.Fail(idx, "index", "closed session still in the index", human)
	}
	obs := VL(VL(pos...), VL(VS(stName), VS(fired), VN(int64(hooks)), VS(cfin), VS(dfin), VL(calls...), VN(int64(len(ch)))))
	var letters []string
	for _, l := range sched {
		letters = append(letters, VS(string(l)))
	}
	pn := int64(0)
	if pending {
		pn = 1
	}
	in := VL(VS("race"), VN(pn), VL(letters...))
	runtime.KeepAlive(raw)
	sc.Close()
	P.Close()
	return in, obs
}

func runRace(cfg *RunCfg) {
	st := NewStats("C07", cfg)
	st.Rule = "race: interleavings of 5 closer releases (start, close.cas, close.ctxwaited, close.callwaited, close.presock) and 6 disconnect releases (cut, disc.read x2, disc.stored, disc.precancel, disc.presock), without and with one pending call; distinct by (pending, schedule); all are non-trivial"
	cw := NewCaseWriter(cfg)
	all := interleavings(5, 6)
	type job struct {
		pending bool
		sched   string
	}
	var jobs []job
	for _, s := range all {
		jobs = append(jobs, job{false, s})
	}
	for _, s := range all {
		jobs = append(jobs, job{true, s})
	}
	// quick tier: every schedule without a pending call would be 462 runs; -n bounds the run:
	// a deterministic prefix order would always test the same ones, so sample by seed.
	cfg.Rng.Shuffle(len(jobs), func(i, j int) { jobs[i], jobs[j] = jobs[j], jobs[i] })
	if cfg.N < len(jobs) {
		jobs = jobs[:cfg.N]
	}
	distinct := DistinctSet{}
	for i, j := range jobs {
		in, obs := runOneRace(j.pending, j.sched, st, i)
		cw.Add(in, obs)
		distinct.Add(in)
		if j.pending {
			st.Count("race:pending-call")
		} else {
			st.Count("race:idle")
		}
		if len(st.Samples) < 3 {
			st.Samples = append(st.Samples, in+" -> "+obs)
		}
	}
	st.Evaluations = len(jobs)
	st.DistinctNontrivial = len(distinct)
	st.Write(cfg, cw)
}
