package main

// -mode redial: the index of a client peer whose sessions redial by themselves. The machine
// has no redial (that is C13's ground), so this mode sends nothing to the model; it checks
// C07's index clause on the implementation alone: after every step the index (RangeSession,
// GetSession, CountSession) is exactly the set of sessions in status ok under their current ids -
// a session that redialled from a new local port has a new default id and must not stay
// listed under the old one - and after the last Close it is empty. (Health() is not used: for
// a session that can redial it also answers true in passive-closed.)
// Round 5: the PostDial hook of a REDIAL can be made to fail (veto: a non-OK status or a panic,
// allow: back to nil); a session whose last redial hook did not return OK must not be in status
// ok nor in the index (oracle hooks) - it ends in redial-failed after RedialTimes attempts, and a
// later call tries again.

import (
	"fmt"
	"sort"
	"strings"
	"sync"
	"time"

	erpc "github.com/henrylee2cn/erpc/v6"
	. "verifharness/hlib"
)

const redialWatchdog = 4 * time.Second

type rsess struct {
	s    erpc.Session
	ids  map[string]bool // every id the session has had
	addr string          // local address when last seen settled
}

// redialCount counts the successful redials of each session (PostDial with isRedial): "the
// session has moved to a new connection" must not be read off the local port, which the OS may
// hand out again at once.
type redialCount struct {
	mu     sync.Mutex
	n      map[interface{}]int
	veto   hookOut                 // what PostDial does on a redial (kind "" or "ok" = nil)
	failed map[interface{}]hookOut // sessions whose last redial hook did not return OK, and what it did
}

func (c *redialCount) Name() string { return "c07redial" }
func (c *redialCount) PostDial(s erpc.PreSession, isRedial bool) *erpc.Status {
	if isRedial {
		k := interface{}(s.(erpc.Session))
		c.mu.Lock()
		v := c.veto
		if v.kind == "" || v.isOK() {
			c.n[k]++
			delete(c.failed, k)
		} else {
			c.failed[k] = v
		}
		c.mu.Unlock()
		return v.act()
	}
	return nil
}
func (c *redialCount) lastFailed(s erpc.Session) (hookOut, bool) {
	c.mu.Lock()
	defer c.mu.Unlock()
	v, ok := c.failed[interface{}(s)]
	return v, ok
}
func (c *redialCount) of(s erpc.Session) int {
	c.mu.Lock()
	defer c.mu.Unlock()
	return c.n[interface{}(s)]
}

type rworld struct {
	srv, cli erpc.Peer
	lis      *Listener
	down     bool
	ss       []*rsess
	rc       *redialCount
}

func rstatus(s erpc.Session) string { return erpc.VerifStatusName(erpc.VerifSessionStatus(s)) }

func rterminal(s erpc.Session) bool {
	switch rstatus(s) {
	case "active-closed", "passive-closed", "redial-failed":
		return true
	}
	return false
}

// settled: every session is either finished or healthy on a connection that answers; after a
// cut a healthy session must have moved to a new connection first.
func (w *rworld) settle(cutAddrs map[*rsess]int) bool {
	ok := WaitUntil(redialWatchdog, func() bool {
		for _, r := range w.ss {
			if rterminal(r.s) {
				continue
			}
			if rstatus(r.s) != "ok" {
				return false
			}
			if _, bad := w.rc.lastFailed(r.s); bad {
				continue // ok although its redial hook failed: nothing to wait for, checkIndex reports it
			}
			if old, was := cutAddrs[r]; was && w.rc.of(r.s) == old {
				return false
			}
			var res string
			if !r.s.Call("/t/echo", "x", &res).Status().OK() {
				return false
			}
		}
		return true
	})
	for _, r := range w.ss {
		r.ids[r.s.ID()] = true
		r.addr = r.s.LocalAddr().String()
	}
	return ok
}

func (w *rworld) checkIndex(st *Stats, idx int, after, human string) {
	for i, r := range w.ss {
		if v, bad := w.rc.lastFailed(r.s); bad {
			st.Count("vetoed-redial:session-" + rstatus(r.s))
			if rstatus(r.s) == "ok" {
				st.Fail(idx, "hooks", fmt.Sprintf("after %s: session %d is in status ok although the PostDial hook of its last redial %s", after, i, v), human)
			}
			if g, ok := w.cli.GetSession(r.s.ID()); ok && g == r.s {
				st.Fail(idx, "hooks", fmt.Sprintf("after %s: session %d is in the index although the PostDial hook of its last redial %s", after, i, v), human)
			}
		}
	}
	live := map[string]*rsess{}
	for _, r := range w.ss {
		if rstatus(r.s) == "ok" {
			if o, dup := live[r.s.ID()]; dup && o != r {
				continue // two live sessions under one id cannot be: reported by the listing below
			}
			live[r.s.ID()] = r
		}
	}
	var listed []string
	w.cli.RangeSession(func(s erpc.Session) bool {
		listed = append(listed, s.ID())
		return true
	})
	sort.Strings(listed)
	var want []string
	for id := range live {
		want = append(want, id)
	}
	sort.Strings(want)
	if strings.Join(listed, ",") != strings.Join(want, ",") {
		st.Fail(idx, "index", fmt.Sprintf("after %s: the index lists %q, the sessions in status ok are %q", after, listed, want), human)
	}
	if n := w.cli.CountSession(); n != len(live) {
		st.Fail(idx, "index", fmt.Sprintf("after %s: CountSession()=%d with %d sessions in status ok", after, n, len(live)), human)
	}
	for id, r := range live {
		if g, ok := w.cli.GetSession(id); !ok || g != r.s {
			st.Fail(idx, "index", fmt.Sprintf("after %s: session in status ok not found under its current id %q", after, id), human)
		}
	}
	for _, r := range w.ss {
		for id := range r.ids {
			if _, cur := live[id]; cur {
				continue
			}
			if g, ok := w.cli.GetSession(id); ok {
				st.Fail(idx, "index", fmt.Sprintf("after %s: the index still has an entry under the former id %q (the session there has id %q, status %s)", after, id, g.ID(), rstatus(g)), human)
			}
		}
	}
}

func runRedialCase(st *Stats, idx int, script []string) {
	human := strings.Join(script, " ")
	w := &rworld{rc: &redialCount{n: map[interface{}]int{}, failed: map[interface{}]hookOut{}}}
	w.srv = erpc.NewPeer(erpc.PeerConfig{})
	w.cli = erpc.NewPeer(erpc.PeerConfig{RedialTimes: 3, RedialInterval: 10 * time.Millisecond}, w.rc)
	w.srv.RouteCall(new(T))
	var err error
	w.lis, err = Listen(w.srv, "")
	Must(err)
	defer func() {
		for _, r := range w.ss {
			r.s.Close()
		}
		w.lis.Close()
		w.lis.KillConns()
		w.cli.Close()
		w.srv.Close()
	}()
	for _, ev := range script {
		f := strings.Split(ev, ":")
		k := 0
		if len(f) > 1 {
			fmt.Sscanf(f[1], "%d", &k)
		}
		var pick *rsess
		if len(w.ss) > 0 {
			pick = w.ss[k%len(w.ss)]
		}
		cutAddrs := map[*rsess]int{}
		switch f[0] {
		case "dial":
			if w.down {
				break
			}
			s, stat := w.cli.Dial(w.lis.Addr)
			if !stat.OK() {
				st.Fail(idx, "harness", "dial failed: "+stat.String(), human)
				return
			}
			w.ss = append(w.ss, &rsess{s: s, ids: map[string]bool{s.ID(): true}})
		case "down", "cut":
			if f[0] == "down" {
				w.lis.Close()
				w.down = true
			}
			for _, r := range w.ss {
				if rstatus(r.s) == "ok" {
					cutAddrs[r] = w.rc.of(r.s)
				}
			}
			w.lis.KillConns()
			if f[0] == "down" {
				// nothing to move to: wait until every cut session has given up
				WaitUntil(redialWatchdog, func() bool {
					for r := range cutAddrs {
						if !rterminal(r.s) {
							return false
						}
					}
					return true
				})
				cutAddrs = map[*rsess]int{}
			}
		case "veto":
			v := hookOut{kind: "stat", code: failCodes[k%len(failCodes)]}
			if k >= 100 {
				v = hookOut{kind: "panic", pk: panicKinds[k%len(panicKinds)]}
			}
			w.rc.mu.Lock()
			w.rc.veto = v
			w.rc.mu.Unlock()
		case "allow":
			w.rc.mu.Lock()
			w.rc.veto = hookOut{}
			w.rc.mu.Unlock()
		case "setid":
			if pick != nil && rstatus(pick.s) == "ok" {
				id := fmt.Sprintf("custom-%d", k%3) // may collide with another session's id: a take-over
				pick.s.SetID(id)
				pick.ids[id] = true
			}
		case "close":
			if pick != nil {
				pick.s.Close()
			}
		case "call":
			if pick != nil {
				var res string
				pick.s.Call("/t/echo", "y", &res)
			}
		}
		if !w.settle(cutAddrs) {
			var sts []string
			for _, r := range w.ss {
				sts = append(sts, rstatus(r.s))
			}
			st.Fail(idx, "quiescence", fmt.Sprintf("after %s the sessions did not settle (healthy on a new connection, or finished): %v", ev, sts), human)
			return
		}
		w.checkIndex(st, idx, ev, human)
	}
	for _, r := range w.ss {
		r.s.Close()
	}
	WaitUntil(redialWatchdog, func() bool {
		for _, r := range w.ss {
			if !rterminal(r.s) {
				return false
			}
		}
		return true
	})
	w.checkIndex(st, idx, "the final Close of every session", human)
	if n := w.cli.CountSession(); n != 0 {
		st.Fail(idx, "index", fmt.Sprintf("CountSession()=%d after every session was closed", n), human)
	}
}

func redialScripts(cfg *RunCfg) [][]string {
	scripts := [][]string{
		{"dial", "call:0", "cut", "call:0"},
		{"dial", "cut", "cut", "close:0"},
		{"dial", "dial", "cut", "close:1", "cut"},
		{"dial", "setid:0", "cut", "call:0"},
		{"dial", "dial", "setid:0", "cut", "setid:1", "cut"},
		{"dial", "cut", "down"},
		{"dial", "dial", "setid:1", "down"},
		{"dial", "cut", "setid:0", "cut", "close:0"},
		{"dial", "veto:100", "cut", "call:0", "allow", "call:0", "cut"},
		{"dial", "dial", "veto:3", "cut", "allow", "call:1", "close:0"},
	}
	r := cfg.Rng
	for len(scripts) < cfg.N {
		s := []string{"dial"}
		n := 3 + r.Intn(5)
		for i := 0; i < n; i++ {
			switch k := r.Intn(100); {
			case k < 15:
				s = append(s, "dial")
			case k < 50:
				s = append(s, "cut")
			case k < 62:
				s = append(s, fmt.Sprintf("setid:%d", r.Intn(6)))
			case k < 75:
				s = append(s, fmt.Sprintf("close:%d", r.Intn(3)))
			case k < 88:
				s = append(s, fmt.Sprintf("call:%d", r.Intn(3)))
			case k < 93:
				s = append(s, fmt.Sprintf("veto:%d", r.Intn(2)*100+r.Intn(40)), "cut")
			case k < 96:
				s = append(s, "allow")
			default:
				s = append(s, "down")
			}
		}
		scripts = append(scripts, s)
	}
	return scripts[:cfg.N]
}

func runRedial(cfg *RunCfg) {
	st := NewStats("C07", cfg)
	st.Rule = "redial: a client peer with RedialTimes=3 dials a listener; timelines over {dial another session, the server cuts every connection (the sessions redial from new local ports and get new default ids), the listener goes away and the connections are cut (redial fails), SetID to a custom and possibly colliding id, Close, call, veto (from now on the PostDial hook of every redial returns a non-OK status or panics; a cut follows), allow}; after every step the index is compared with the sessions in status ok under their current and former ids; no model prediction (the machine has no redial); distinct by script"
	distinct := DistinctSet{}
	scripts := redialScripts(cfg)
	for i, sc := range scripts {
		runRedialCase(st, i, sc)
		distinct.Add(strings.Join(sc, " "))
		if len(st.Samples) < 3 {
			st.Samples = append(st.Samples, strings.Join(sc, " "))
		}
	}
	st.Evaluations = len(scripts)
	st.DistinctNontrivial = len(distinct)
	st.Write(cfg, nil)
}
