package main

import (
	"fmt"
	"sync"
	"time"

	. "verifharness/hlib"

	erpc "github.com/henrylee2cn/erpc/v6"
	"github.com/henrylee2cn/erpc/v6/socket"
)

// -mode replies: the hostile side is the SERVER. A real client session issues calls; a scripted
// raw peer answers with every class of reply stream (well-formed, duplicated, wrong sequence
// number, error status, undecodable body, garbage or an oversize header behind the reply,
// truncated) and then ends the stream. A gate at `reply.predone` widens the window between the
// binding of a reply and the completion of its call, so that a duplicate reply is read while the
// first one is still being handled. Oracle: no crash, every caller completes exactly once within
// the watchdog, the session ends after the input is exhausted, the control session keeps working.
// a handler of the session under test that makes a call of its own on the same session
// (both ends of a session are peers: a handler calling back is ordinary use)
var cbDone = make(chan int32, 64)

func callbackHandler(ctx erpc.CallCtx, arg *string) (string, *erpc.Status) {
	var res string
	stt := ctx.Session().Call("/srv/never", "from-handler", &res).Status()
	cbDone <- stt.Code()
	return "done", nil
}

func runReplies(cfg *RunCfg) {
	r := cfg.Rng
	Quiet()
	st := NewStats("C06", cfg)
	st.Rule = "hostile reply streams against a real calling session (raw protocol): classes ok / duplicate x2 / duplicate x3 / wrong seq / error status / undecodable body / reply+garbage / reply+oversize header / truncated reply / nothing; 1-3 concurrent calls; distinct by (class, calls, bytes); non-trivial = at least one reply frame"
	srv := erpc.NewPeer(erpc.PeerConfig{})
	callName := srv.RouteCallFunc(echo)
	ctl := erpc.NewPeer(erpc.PeerConfig{})
	control := ServePair(srv, ctl)
	var holdMu sync.Mutex
	var holdArmed bool
	var holdReached, holdRelease chan struct{}
	erpc.VerifSetGate(func(point string, s erpc.Session) {
		if point == "reply.predone" {
			time.Sleep(15 * time.Millisecond)
		}
		if point == "call.stored" {
			holdMu.Lock()
			armed, reached, release := holdArmed, holdReached, holdRelease
			holdArmed = false
			holdMu.Unlock()
			if armed {
				close(reached)
				<-release
			}
		}
	})
	defer erpc.VerifSetGate(nil)
	distinct := DistinctSet{}
	classes := []string{"ok", "dup2", "dup3", "wrong-seq", "error-status", "bad-body", "reply+garbage", "reply+oversize", "truncated", "nothing", "close-then-eof", "close-then-oversize", "close-then-reply", "eof-in-asynccall", "garbage-in-asynccall", "eof-in-handler-callback"}
	for i := 0; i < cfg.N; i++ {
		if len(st.OracleFailures) >= 6 {
			st.Count("stopped-early-after-failures")
			break // every failing case costs its watchdogs; six precise failures are enough
		}
		erpc.SetReadLimit(65536)
		class := classes[r.Intn(len(classes))]
		ncalls := 1 + r.Intn(3)
		st.Count("replies:" + class)
		cli := erpc.NewPeer(erpc.PeerConfig{})
		cbName := cli.RouteCallFunc(callbackHandler)
		cc, sc := MemPair()
		var sess erpc.Session
		done := make(chan struct{})
		go func() { sess, _ = cli.ServeConn(cc); close(done) }()
		<-done
		if sess == nil {
			st.Fail(i, "serve-failed", "ServeConn refused an in-memory conn", class)
			continue
		}
		rp := NewRawPeer(sc)
		human := fmt.Sprintf("replies class=%s calls=%d", class, ncalls)
		distinct.Add(fmt.Sprintf("%s/%d/%d", class, ncalls, i%7))
		ch := make(chan erpc.CallCmd, 16)
		var cmds []erpc.CallCmd
		if class == "eof-in-handler-callback" {
			// the peer sends a CALL whose handler calls back on the same session; the peer reads that
			// request, never answers it, and ends the stream: the handler's call must complete (the
			// connection is gone), the handler return and the session end
			ncalls = 0
			m := socket.NewMessage(socket.WithServiceMethod(cbName), socket.WithBody([]byte(`"go"`)), socket.WithBodyCodec('j'))
			m.SetMtype(erpc.TypeCall)
			m.SetSeq(77)
			rp.Sock.WriteMessage(m)
			if _, err := rp.Recv(5 * time.Second); err != nil {
				st.Fail(i, "callback-not-sent", "the handler's own call never reached the peer: "+err.Error(), human)
			}
			sc.CloseWrite()
			select {
			case <-cbDone:
			case <-time.After(8 * time.Second):
				st.Fail(i, "caller-blocked", "a handler's own call on the session never completed after the peer ended the stream (the disconnect path waits for the handler, the handler waits for its call)", human)
			}
		} else if class == "eof-in-asynccall" || class == "garbage-in-asynccall" {
			// the stream ends (or turns to garbage) while a caller is INSIDE AsyncCall: stored in
			// the pending table, holding the call's mutex, request not yet written
			ncalls = 1
			holdMu.Lock()
			holdArmed, holdReached, holdRelease = true, make(chan struct{}), make(chan struct{})
			reached, release := holdReached, holdRelease
			holdMu.Unlock()
			got := make(chan erpc.CallCmd, 1)
			go func() {
				var res string
				got <- sess.AsyncCall("/x/y", "arg-held", &res, ch)
			}()
			select {
			case <-reached:
			case <-time.After(5 * time.Second):
			}
			if class == "garbage-in-asynccall" {
				sc.Write([]byte{0, 0, 0, 3, 9, 9, 9})
			}
			sc.CloseWrite()
			time.Sleep(30 * time.Millisecond) // let the disconnect path reach the call's mutex
			close(release)
			select {
			case c := <-got:
				cmds = append(cmds, c)
			case <-time.After(8 * time.Second):
				st.Fail(i, "caller-blocked", "AsyncCall did not return after the stream ended while it was issuing the call", human)
			}
		} else {
			for k := 0; k < ncalls; k++ {
				var res string
				cmds = append(cmds, sess.AsyncCall("/x/y", fmt.Sprintf("arg-%d", k), &res, ch))
			}
		}
		// the scripted server reads the requests and answers
		var seqs []int32
		for k := 0; k < ncalls && class != "eof-in-asynccall" && class != "garbage-in-asynccall"; k++ {
			m, err := rp.Recv(5 * time.Second)
			if err != nil {
				break
			}
			seqs = append(seqs, m.Seq())
		}
		reply := func(seq int32, body interface{}, stt *erpc.Status) {
			s := []socket.MessageSetting{socket.WithBody(body), socket.WithBodyCodec('j')}
			if stt != nil {
				s = append(s, socket.WithStatus(stt))
			}
			m := socket.NewMessage(s...)
			m.SetMtype(erpc.TypeReply)
			m.SetSeq(seq)
			rp.Sock.WriteMessage(m)
		}
		closeDone := make(chan struct{})
		closing := class == "close-then-eof" || class == "close-then-oversize" || class == "close-then-reply"
		if closing {
			// the application closes the session while its calls are outstanding; only then does
			// the hostile peer end (or poison) the stream
			go func() { sess.Close(); close(closeDone) }()
			WaitUntil(2*time.Second, func() bool { return erpc.VerifStatusName(erpc.VerifSessionStatus(sess)) == "active-closing" })
			switch class {
			case "close-then-oversize":
				sc.Write([]byte{0x7f, 0xff, 0xff, 0xff})
			case "close-then-reply":
				if len(seqs) > 0 {
					reply(seqs[0], []byte(`"r"`), nil)
				}
			}
		}
		for _, seq := range seqs {
			switch class {
			case "ok":
				reply(seq, []byte(`"r"`), nil)
			case "dup2":
				reply(seq, []byte(`"r"`), nil)
				reply(seq, []byte(`"r"`), nil)
			case "dup3":
				reply(seq, []byte(`"r"`), nil)
				reply(seq, []byte(`"r2"`), nil)
				reply(seq, []byte(`"r3"`), erpc.NewStatus(500, "late", ""))
			case "wrong-seq":
				reply(seq+1000, []byte(`"r"`), nil)
			case "error-status":
				reply(seq, nil, erpc.NewStatus(int32(400+r.Intn(200)), "no", "why"))
			case "bad-body":
				reply(seq, []byte(`{"not":"a string"`), nil)
			case "reply+garbage":
				reply(seq, []byte(`"r"`), nil)
				sc.Write(RandBytes(r, 1+r.Intn(40)))
			case "reply+oversize":
				reply(seq, []byte(`"r"`), nil)
				sc.Write([]byte{0x7f, 0xff, 0xff, 0xff})
			case "truncated":
				sc.Write([]byte{0, 0, 0, 40, 0, 1})
			case "nothing":
			}
		}
		sc.WaitPeerIdle(10 * time.Second)
		sc.CloseWrite() // input exhausted
		// every call must complete exactly once, with a reply or an error
		for k, cmd := range cmds {
			select {
			case <-cmd.Done():
			case <-time.After(8 * time.Second):
				st.Fail(i, "caller-blocked", fmt.Sprintf("call %d never completed after the reply stream ended", k), human)
			}
		}
		ended := WaitUntil(8*time.Second, func() bool {
			select {
			case <-sess.CloseNotify():
				return cc.IsClosed()
			default:
				return false
			}
		})
		if !ended {
			st.Fail(i, "wedged-after-input", "calling session did not end within 8 s after the reply stream was exhausted (reader, a reply handler or Close is blocked)", human)
		}
		time.Sleep(20 * time.Millisecond)
		if closing {
			select {
			case <-closeDone:
			case <-time.After(8 * time.Second):
				st.Fail(i, "close-blocked", "Session.Close() did not return within 8 s after the peer ended the stream", human)
			}
		}
		if extra := len(ch); extra != len(cmds) {
			st.Fail(i, "completion-count", fmt.Sprintf("%d deliveries on the completion channel for %d calls", extra, len(cmds)), human)
		}
		sc.Close()
		if i%10 == 0 {
			var res []byte
			if stt := control.CliSess.Call(callName, []byte("ping"), &res).Status(); !stt.OK() || string(res) != "re:ping" {
				st.Fail(i, "other-session-broken", "the control session stopped working: "+stt.String(), human)
			}
		}
		if len(st.Samples) < 5 {
			st.Samples = append(st.Samples, human)
		}
	}
	if n := GoroutinesMatching("erpc/v6.(*callCmd).done"); n > 0 {
		st.Fail(cfg.N, "blocked-completion", fmt.Sprintf("%d goroutines blocked inside callCmd.done at the end of the run", n), "end of run")
	}
	st.Evaluations = cfg.N
	st.DistinctNontrivial = len(distinct)
	st.Write(cfg, nil)
}
