// c06 feeds hostile byte streams to live server sessions (one per case, in-memory conn with
// exact quiescence signals) and checks that nothing crashes, wedges or over-allocates.
// -mode raw (default, compared with the Coq model of the raw protocol) | json | pb | http.
package main

import (
	"bytes"
	"flag"
	"fmt"
	"math/rand"
	"net"
	"os"
	"runtime"
	"sync"
	"time"

	. "verifharness/hlib"

	erpc "github.com/henrylee2cn/erpc/v6"
	wsmixer "github.com/henrylee2cn/erpc/v6/mixer/websocket"
	"github.com/henrylee2cn/erpc/v6/mixer/websocket/jsonSubProto"
	"github.com/henrylee2cn/erpc/v6/proto/httproto"
	"github.com/henrylee2cn/erpc/v6/proto/jsonproto"
	"github.com/henrylee2cn/erpc/v6/proto/pbproto"
	"github.com/henrylee2cn/erpc/v6/proto/thriftproto"
	"github.com/henrylee2cn/erpc/v6/socket"
	"github.com/henrylee2cn/erpc/v6/utils"
)

var noStop = flag.Bool("nostop", false, "do not stop after six oracle failures")
var mode = flag.String("mode", "raw", "raw|json|pb|http|ws|thriftbin|thriftstruct|replies|nopool")

type bufRW struct{ bytes.Buffer }

type discardLog struct{}

func (discardLog) Output(calldepth int, msgBytes []byte, loggerLevel erpc.LoggerLevel) {
	if loggerLevel == erpc.CRITICAL { // Fatalf / Panicf of the library: the process is about to exit
		os.Stderr.Write(msgBytes)
	}
}
func (discardLog) Flush() error                                                       { return nil }

// ---- server side ----

type counter struct {
	mu       sync.Mutex
	preRead  map[string]int
	handled  map[string]int
	firstSt  map[string]string
	panicked int
	maxBody  int
}

var cnt = &counter{preRead: map[string]int{}, handled: map[string]int{}, firstSt: map[string]string{}}

type prePlugin struct{}

func (prePlugin) Name() string { return "c06-pre-read" }
func (prePlugin) PreReadHeader(ctx erpc.PreCtx) error {
	cnt.mu.Lock()
	cnt.preRead[ctx.Session().RemoteAddr().String()]++
	cnt.mu.Unlock()
	return nil
}

func echo(ctx erpc.CallCtx, arg *[]byte) ([]byte, *erpc.Status) {
	cnt.mu.Lock()
	cnt.handled[ctx.Session().RemoteAddr().String()]++
	if len(*arg) > cnt.maxBody {
		cnt.maxBody = len(*arg)
	}
	cnt.mu.Unlock()
	return append([]byte("re:"), (*arg)...), nil
}

// a route whose argument is a struct: its body goes through the JSON codec, so a hostile body
// makes UnmarshalBody fail AFTER the body codec is set (the loop then answers bad-message and goes on)
type Sarg struct {
	A int
	B string
}

func structy(ctx erpc.CallCtx, arg *Sarg) (int, *erpc.Status) {
	cnt.mu.Lock()
	cnt.handled[ctx.Session().RemoteAddr().String()]++
	cnt.mu.Unlock()
	return arg.A + len(arg.B), nil
}

func note(ctx erpc.PushCtx, arg *[]byte) *erpc.Status {
	cnt.mu.Lock()
	cnt.handled[ctx.Session().RemoteAddr().String()]++
	cnt.mu.Unlock()
	return nil
}

// ---- frame building with the real protocol ----

func buildFrame(pf erpc.ProtoFunc, mtype byte, seq int32, method string, body []byte, meta [][2]string, ids []byte) []byte {
	rw := &bufRW{}
	p := pf(rw)
	st := []socket.MessageSetting{socket.WithServiceMethod(method), socket.WithBody(body), socket.WithBodyCodec('j')}
	if *mode == "thriftstruct" { // only thrift structs can be bodies there: send none
		st = []socket.MessageSetting{socket.WithServiceMethod(method)}
	}
	for _, kv := range meta {
		st = append(st, socket.WithAddMeta(kv[0], kv[1]))
	}
	if len(ids) > 0 {
		st = append(st, socket.WithXferPipe(ids...))
	}
	m := socket.NewMessage(st...)
	m.SetMtype(mtype)
	m.SetSeq(seq)
	if err := p.Pack(m); err != nil {
		return nil
	}
	return append([]byte(nil), rw.Bytes()...)
}

// clientDecode classifies the stream with the real decoder (client side): number of frames,
// whether any decoded frame has an unsupported type.
func clientDecode(pf erpc.ProtoFunc, s []byte) (n int, unsupported bool) {
	defer func() { recover() }()
	rw := &bufRW{}
	rw.Write(s)
	p := pf(rw)
	for rw.Len() > 0 {
		m := socket.NewMessage(socket.WithNewBody(func(socket.Header) interface{} { return new([]byte) }))
		if err := p.Unpack(m); err != nil {
			return
		}
		n++
		if mt := m.Mtype(); mt != erpc.TypeCall && mt != erpc.TypePush && mt != erpc.TypeReply {
			unsupported = true
			return
		}
	}
	return
}

var structName string

// classifyFrame runs the real decoder on ONE complete frame (size field included) in isolation,
// with the body the server's binding would supply for it, and reports the class the read loop
// acts on: ok / errcodec (error with a body codec set) / errnil / panic, and the message type.
func classifyFrame(pf erpc.ProtoFunc, frame []byte, callName, pushName string) (class string, mt byte) {
	m := socket.NewMessage(socket.WithNewBody(func(h socket.Header) interface{} {
		switch {
		case h.Mtype() == erpc.TypeCall && h.ServiceMethod() == callName:
			return new([]byte)
		case h.Mtype() == erpc.TypeCall && h.ServiceMethod() == structName:
			return new(Sarg)
		case h.Mtype() == erpc.TypePush && h.ServiceMethod() == pushName:
			return new([]byte)
		}
		return nil
	}))
	defer func() {
		if p := recover(); p != nil {
			class, mt = "panic", 0
		}
	}()
	rw := &bufRW{}
	rw.Write(frame)
	err := pf(rw).Unpack(m)
	switch {
	case err == nil:
		return "ok", m.Mtype()
	case m.BodyCodec() != 0:
		return "errcodec", m.Mtype()
	}
	return "errnil", 0
}

// sizedTable walks the size-prefixed stream the way the harness understands it and classifies
// every complete frame within the limit; the MODEL does its own framing and only looks frames up.
func sizedTable(pf erpc.ProtoFunc, s []byte, lim uint32, callName, pushName string) (tab []string, classes []string, unsupported bool) {
	seen := map[string]bool{}
	for pos := 0; pos+4 <= len(s); {
		size := uint32(s[pos])<<24 | uint32(s[pos+1])<<16 | uint32(s[pos+2])<<8 | uint32(s[pos+3])
		if size > lim {
			break
		}
		if size == 0 {
			unsupported = true
			break
		}
		if pos+4+int(size) > len(s) {
			break
		}
		fr := s[pos : pos+4+int(size)]
		class, mt := classifyFrame(pf, fr, callName, pushName)
		if !seen[string(fr)] {
			seen[string(fr)] = true
			tab = append(tab, VL(VB(fr[4:]), VS(class), VN(int64(mt))))
			classes = append(classes, class)
		}
		// no early exit on a frame that ends the loop: the model's coverage test is about framing
		// alone (Model.SizedLoop.sized_frames), the decoder's answers do not steer this walk
		if class != "errnil" && class != "panic" && mt != erpc.TypeCall && mt != erpc.TypePush && mt != erpc.TypeReply {
			unsupported = true
		}
		pos += 4 + int(size)
	}
	return
}

func genStream(r *rand.Rand, pf erpc.ProtoFunc, callName, pushName string, lim uint32, st *Stats) (s []byte, class string) {
	nf := 1 + r.Intn(4)
	var frames [][]byte
	for i := 0; i < nf; i++ {
		var mt byte = erpc.TypeCall
		name := callName
		switch r.Intn(6) {
		case 0:
			mt, name = erpc.TypePush, pushName
		case 1:
			mt = erpc.TypeReply
		case 2:
			name = "/no/such"
		}
		body := RandBytes(r, PickLen(r, []int{0, 1, 20, 200}))
		if mt == erpc.TypeCall && name == callName && r.Intn(4) == 0 {
			name = structName
			if r.Intn(2) == 0 {
				body = []byte(fmt.Sprintf(`{"A":%d,"B":"%x"}`, r.Intn(100), RandBytes(r, 3)))
			}
		}
		var meta [][2]string
		if r.Intn(2) == 0 {
			meta = append(meta, [2]string{"k", string(RandBytes(r, 5))})
		}
		var ids []byte
		if *mode == "raw" && r.Intn(3) == 0 {
			ids = []byte{[]byte{1, 2, 3, 'm'}[r.Intn(4)]}
		}
		f := buildFrame(pf, mt, int32(1+r.Intn(1000)), name, body, meta, ids)
		if f != nil {
			frames = append(frames, f)
		}
	}
	if *mode == "ws" {
		for i := range frames {
			frames[i] = wsFrame(r, frames[i])
		}
	}
	all := bytes.Join(frames, nil)
	k := r.Intn(10)
	if *mode == "raw" && r.Intn(12) == 0 {
		// a frame within the limit whose gzip payload inflates far beyond it
		f := buildFrame(pf, erpc.TypeCall, 9, callName, bytes.Repeat([]byte{'z'}, 8*int(lim)), nil, []byte{'g'})
		if f != nil && len(f) < int(lim) {
			return append(append([]byte(nil), all...), f...), "gzip-bomb"
		}
	}
	if pipeCarried(*mode) && r.Intn(9) == 0 {
		// a frame within the limit whose transfer pipe names a shipped filter (gzip at any level,
		// md5) and whose filtered payload carries a forged trailer / header field: the announced
		// size is the sender's to choose, the receiver must not size anything from it
		if f, variant, filter := forgedFrame(r, pf, callName, lim); f != nil && len(f) < int(lim) {
			st.Count("forged:" + variant)
			st.Count("forged-filter:" + filter)
			z := append(append([]byte(nil), all[:len(all)*r.Intn(2)]...), f...)
			if r.Intn(3) == 0 && len(frames) > 0 { // something valid behind it
				z = append(z, frames[0]...)
			}
			return z, "forged-trailer"
		}
	}
	if (*mode == "thriftbin" || *mode == "thriftstruct") && r.Intn(40) == 0 {
		// a THeader frame that selects the COMPACT inner protocol and announces a 64 MiB method name
		// (frames packed by erpc itself always use the binary inner protocol). 2 GiB can be announced
		// just as well (26 bytes in, 4 GiB allocated, minutes of copying): 64 MiB keeps the run short.
		f := []byte{0, 0, 0, 0x15, 0x0f, 0xff, 0, 0, 0, 0, 0, 1, 0, 1, 2, 0, 0, 0, 0x82, 0x21, 0x01, 0x80, 0x80, 0x80, 0x20}
		if r.Intn(2) == 0 { // as the very first frame of the connection
			return f, "thrift-compact-name"
		}
		return append(append([]byte(nil), all...), f...), "thrift-compact-name"
	}
	if *mode != "http" && r.Intn(14) == 0 {
		// a frame announcing size 0 at a frame boundary (alone, or behind valid frames), then more
		z := append(append([]byte(nil), all[:len(all)*r.Intn(2)]...), 0, 0, 0, 0)
		if r.Intn(2) == 0 {
			z = append(z, all...)
		}
		return z, "zero-size"
	}
	switch {
	case k == 0 || len(all) == 0:
		return RandBytes(r, r.Intn(80)), "random"
	case k == 1:
		return all, "valid"
	case k == 2:
		return all[:r.Intn(len(all))], "truncated"
	case k < 5:
		b := append([]byte(nil), all...)
		for f := 0; f < 1+r.Intn(3); f++ {
			b[r.Intn(len(b))] ^= byte(1 + r.Intn(255))
		}
		return b, "flipped"
	case k < 7: // announce a size beyond the limit, send no payload
		b := append([]byte(nil), all...)
		switch *mode {
		case "http":
			cl := uint64(lim) + 1 + uint64(r.Intn(1<<22))
			if r.Intn(3) == 0 { // beyond 32 bits: the low word alone would pass the limit
				cl = (uint64(1) << 32) + uint64(r.Intn(int(lim)/2))
			}
			big := fmt.Sprintf("POST /x HTTP/1.1\r\nContent-Length: %d\r\n\r\n", cl)
			if r.Intn(3) == 0 { // an endless header line (no newline), longer than the limit
				big = "POST /x HTTP/1.1\r\nX-Long: " + string(bytes.Repeat([]byte{'a'}, int(lim)+100))
			}
			return append(b, big...), "oversize-announced"
		case "ws":
			// a masked binary frame announcing more than the read limit (below and above the
			// websocket library's own 32 MiB default), no payload
			v := uint64(lim) + 1 + uint64(r.Intn(1<<20))
			if r.Intn(2) == 0 {
				v = uint64(lim) + 1 + uint64(r.Intn(1<<30))
			}
			return append(b, 0x82, 0xff, byte(v>>56), byte(v>>48), byte(v>>40), byte(v>>32), byte(v>>24), byte(v>>16), byte(v>>8), byte(v), 1, 2, 3, 4), "oversize-announced"
		default:
			v := lim + 1 + uint32(r.Intn(1<<30))
			return append(b, byte(v>>24), byte(v>>16), byte(v>>8), byte(v)), "oversize-announced"
		}
	case k == 7: // rewrite a length field
		b := append([]byte(nil), all...)
		if len(b) > 6 {
			pos := r.Intn(6)
			b[pos] = byte(r.Intn(256))
		}
		return b, "len-field"
	case k == 8: // percent-escape with 0xFF in metadata (index out of range in the hex table)
		f := buildFrame(pf, erpc.TypeCall, 7, callName, []byte("x"), [][2]string{{"a", "b"}}, nil)
		f = bytes.Replace(f, []byte("a=b"), []byte("%\xffb"), 1)
		return append(append([]byte(nil), all...), f...), "pct-ff"
	default:
		return append(append([]byte(nil), all...), RandBytes(r, 1+r.Intn(40))...), "valid+garbage"
	}
}

func main() {
	cfg := ParseFlags()
	// importing proto/thriftproto makes the thrift codec the process-wide default (an init side
	// effect of that package): every other mode wants the library's own default back
	erpc.SetDefaultBodyCodec('j')
	if *mode == "replies" {
		runReplies(cfg)
		return
	}
	if *mode == "nopool" {
		runNoPool(cfg)
		return
	}
	if *mode == "xfer" {
		runXfer(cfg)
		return
	}
	r := cfg.Rng
	// the run log (with message details) is part of the receive path: keep it ON, discard the text
	erpc.SetLoggerOutputter(discardLog{})
	erpc.SetLoggerLevel("TRACE")
	RegTestFilters()
	regShipped()
	st := NewStats("C06", cfg)
	maxDelta := map[string]uint64{}
	st.Rule = "hostile streams per protocol (" + *mode + "): valid frame sequences, truncation at a random offset, byte flips, rewritten length fields, an announced size beyond the read limit with no payload, an endless header line (http), %FF escapes, a forged trailer / header field behind every shipped transfer filter (gzip levels, md5), random bytes; each fed to a fresh live server session over an in-memory conn; distinct by stream bytes; non-trivial = non-empty stream"
	srv := erpc.NewPeer(erpc.PeerConfig{PrintDetail: true, CountTime: true}, prePlugin{})
	callName := srv.RouteCallFunc(echo)
	pushName := srv.RoutePushFunc(note)
	structName = srv.RouteCallFunc(structy)
	ctl := erpc.NewPeer(erpc.PeerConfig{})
	var pf erpc.ProtoFunc
	switch *mode {
	case "json":
		pf = jsonproto.NewJSONProtoFunc()
	case "pb":
		pf = pbproto.NewPbProtoFunc()
	case "http":
		pf = httproto.NewHTTProtoFunc()
	case "ws":
		pf = jsonSubProto.NewJSONSubProtoFunc() // builds the payloads; the session is served with wsPF
	case "thriftbin":
		pf = thriftproto.NewBinaryProtoFunc()
	case "thriftstruct":
		pf = thriftproto.NewStructProtoFunc()
	default:
		pf = socket.RawProtoFunc
	}
	control := ServePair(srv, ctl) // raw protocol control session, must keep working throughout
	var firstStatus sync.Map
	erpc.VerifSetStatusObserver(func(s erpc.Session, to int32) {
		name := erpc.VerifStatusName(to)
		if name == "active-closing" || name == "passive-closing" {
			firstStatus.LoadOrStore(s.RemoteAddr().String(), name)
		}
	})
	var w *CaseWriter
	sized := *mode == "json" || *mode == "pb"
	if *mode == "raw" || sized {
		w = NewCaseWriter(cfg)
	}
	distinct := DistinctSet{}
	var ms runtime.MemStats
	for i := 0; i < cfg.N; i++ {
		if newFailures(st) >= 6 && !*noStop {
			st.Count("stopped-early-after-failures")
			break // every failing case costs its watchdogs; six precise failures are enough
		}
		lim := uint32(PickLen(r, []int{4096, 65536}))
		erpc.SetReadLimit(1 << 24)
		s, class := genStream(r, pf, callName, pushName, lim, st)
		st.Count("class:" + class)
		nfr, unsupported := clientDecode(pf, s)
		if *mode == "ws" || *mode == "thriftstruct" || *mode == "thriftbin" || *mode == "http" {
			unsupported = false // the classification by the bare decoder means nothing under another framing / is not compared
		}
		erpc.SetReadLimit(lim)
		var tab, classes []string
		if sized {
			tab, classes, unsupported = sizedTable(pf, s, lim, callName, pushName)
		}
		human := fmt.Sprintf("mode=%s lim=%d class=%s stream=%x", *mode, lim, class, s)
		if len(s) > 0 {
			distinct.Add(human)
		}
		cc, sc := MemPair()
		raddr := cc.LocalAddr().String()
		var serveConn net.Conn = sc
		servePF := pf
		if *mode == "ws" {
			// a real websocket handshake, then the server side's transport is the in-memory conn
			serveConn, servePF = wsServerConn(sc), wsmixer.NewWsProtoFunc(pf)
		}
		runtime.ReadMemStats(&ms)
		alloc0 := ms.TotalAlloc
		utils.VerifResetMaxAlloc()
		var sess erpc.Session
		done := make(chan struct{})
		go func() { sess, _ = srv.ServeConn(serveConn, servePF); close(done) }()
		select {
		case <-done:
		case <-time.After(15 * time.Second):
			st.Fail(i, "serve-blocked", "ServeConn did not return within 15 s: earlier sessions of this run still hold the goroutine pool (their handlers or disconnect paths never finished)", human)
		}
		if len(st.OracleFailures) > 0 && st.OracleFailures[len(st.OracleFailures)-1].Key == "serve-blocked" {
			break
		}
		if sess == nil {
			st.Fail(i, "serve-failed", "ServeConn refused an in-memory conn", human)
			continue
		}
		// the recorded thrift finding makes the library allocate and clear 128 MiB per instance: on a
		// loaded machine that alone can take seconds, so that class gets more patience (the session
		// must still end)
		patience := 10 * time.Second
		if class == "thrift-compact-name" {
			patience = 40 * time.Second
		}
		cc.Write(s)
		if !cc.WaitPeerIdle(patience) {
			st.Fail(i, "reader-stuck-mid-stream", fmt.Sprintf("server neither consumed the input nor disconnected within %v", patience), human)
		}
		erpc.VerifWaitHandlers(sess)
		// let an asynchronous Close (unsupported type) or disconnect settle
		if unsupported {
			WaitUntil(2*time.Second, func() bool { return sc.IsClosed() })
		}
		discBeforeEOF := sc.IsClosed()
		cnt.mu.Lock()
		pre := cnt.preRead[raddr]
		maxBody := cnt.maxBody
		cnt.maxBody = 0
		cnt.mu.Unlock()
		if maxBody > int(lim) {
			st.Fail(i, "over-allocation", fmt.Sprintf("a body of %d bytes was buffered and delivered under a read limit of %d", maxBody, lim), human)
		}
		// input exhausted: the session must end cleanly
		cc.CloseWrite()
		ended := WaitUntil(patience, func() bool {
			select {
			case <-sess.CloseNotify():
				return sc.IsClosed()
			default:
				return false
			}
		})
		if !ended {
			st.Fail(i, "wedged-after-input", fmt.Sprintf("session did not end within %v after the input was exhausted (reader or a waiter is blocked)", patience), human)
		}
		cc.Close()
		maxAlloc := utils.VerifMaxAlloc()
		runtime.ReadMemStats(&ms)
		delta := ms.TotalAlloc - alloc0
		bound := int64(lim)
		if bound < 4096 {
			bound = 4096
		}
		if maxAlloc > bound {
			st.Fail(i, "over-allocation", fmt.Sprintf("a buffer of %d bytes was requested under a read limit of %d", maxAlloc, lim), human)
		}
		if class != "forged-trailer" && delta > 64*uint64(int(lim)+len(s))+(8<<20) {
			key := "over-allocation"
			if class == "thrift-compact-name" {
				key = "thrift-compact-announced-name" // the thrift library's own allocation, see known_findings.txt
			}
			st.Fail(i, key, fmt.Sprintf("%d bytes allocated while reading %d input bytes under a read limit of %d", delta, len(s), lim), human)
		}
		if delta > maxDelta[class] {
			maxDelta[class] = delta
		}
		if class == "forged-trailer" && delta > forgedAllocBound(lim, len(s)) {
			st.Fail(i, "over-allocation", fmt.Sprintf("%d bytes allocated while a frame of %d bytes with a forged filter trailer was received under a read limit of %d (the receiver sized a buffer from what the payload announces)", delta, len(s), lim), human)
		}
		if class == "oversize-announced" && !discBeforeEOF {
			st.Fail(i, "oversize-not-refused", "a frame announcing more than the read limit did not disconnect the session before its payload arrived", human)
		}
		if i%10 == 0 {
			var res []byte
			erpc.SetReadLimit(1 << 24)
			if stt := control.CliSess.Call(callName, []byte("ping"), &res).Status(); !stt.OK() || string(res) != "re:ping" {
				st.Fail(i, "other-session-broken", "the control session stopped working: "+stt.String(), human)
			}
		}
		if unsupported {
			st.Count("unsupported-type-in-stream")
		}
		if sized {
			w.Add(VL(VS("sized"), VN(int64(lim)), VB(s), VL(tab...)), VL(VN(int64(pre)), VBool(discBeforeEOF)))
			for _, c := range classes {
				st.Count("frame-class:" + c)
			}
		} else if w != nil {
			w.Add(VL(VN(int64(lim)), VB(s)), VL(VN(int64(pre)), VBool(discBeforeEOF)))
		}
		_ = nfr
		if len(st.Samples) < 6 && i%9 == 0 {
			st.Samples = append(st.Samples, fmt.Sprintf("%s -> preRead=%d disconnectedBeforeEOF=%v maxChangeLen=%d", human[:min(len(human), 160)], pre, discBeforeEOF, maxAlloc))
		}
	}
	// leaked readers / blocked goroutines of the framework after everything ended
	time.Sleep(100 * time.Millisecond)
	if n := GoroutinesMatching("erpc/v6.(*session).startReadAndHandle"); n > 2 {
		st.Fail(cfg.N, "leaked-readers", fmt.Sprintf("%d session read loops still alive after all hostile sessions ended", n), "end of run")
	}
	st.Evaluations = cfg.N
	st.DistinctNontrivial = len(distinct)
	st.Extra = map[string]interface{}{"max_totalalloc_delta_" + *mode: maxDelta}
	st.Write(cfg, w)
}

// newFailures counts the oracle failures that are not the recorded finding of the thrift modes
// (that class fails on every instance by design and must not use up the early-stop budget)
func newFailures(st *Stats) int {
	n := 0
	for _, f := range st.OracleFailures {
		if f.Key != "thrift-compact-announced-name" {
			n++
		}
	}
	return n
}

func min(a, b int) int {
	if a < b {
		return a
	}
	return b
}
