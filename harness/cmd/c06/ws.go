package main

import (
	"bufio"
	"io"
	"math/rand"
	"net"
	"net/http"
	"time"

	. "verifharness/hlib"

	ws "github.com/henrylee2cn/erpc/v6/mixer/websocket/websocket"
)

// -mode ws: hostile byte streams under a real websocket connection of the vendored library,
// served by the websocket mixer's protocol (JSON sub-protocol). The handshake runs over a pipe;
// afterwards the server side's transport is the in-memory conn the harness writes to.

type swConn struct {
	r io.Reader
	w io.Writer
	c io.Closer
}

func (s *swConn) Read(p []byte) (int, error)  { return s.r.Read(p) }
func (s *swConn) Write(p []byte) (int, error) { return s.w.Write(p) }
func (s *swConn) Close() error {
	if s.c != nil {
		return s.c.Close()
	}
	return nil
}
func (s *swConn) LocalAddr() net.Addr              { return &net.TCPAddr{} }
func (s *swConn) RemoteAddr() net.Addr             { return &net.TCPAddr{} }
func (s *swConn) SetDeadline(time.Time) error      { return nil }
func (s *swConn) SetReadDeadline(time.Time) error  { return nil }
func (s *swConn) SetWriteDeadline(time.Time) error { return nil }

type hijackW struct {
	conn *swConn
	buf  *bufio.ReadWriter
	h    http.Header
}

func (h *hijackW) Header() http.Header         { return h.h }
func (h *hijackW) Write(p []byte) (int, error) { return len(p), nil }
func (h *hijackW) WriteHeader(int)             {}
func (h *hijackW) Hijack() (net.Conn, *bufio.ReadWriter, error) {
	return h.conn, h.buf, nil
}

func wsServerConn(mem *MemConn) *ws.Conn {
	c1, c2 := net.Pipe()
	csw := &swConn{r: c1, w: c1}
	ssw := &swConn{r: c2, w: c2}
	connCh := make(chan *ws.Conn, 1)
	go func() {
		br := bufio.NewReader(ssw)
		req, err := http.ReadRequest(br)
		Must(err)
		srv := ws.Server{
			Handshake: func(cfg *ws.Config, req *http.Request) (err error) { cfg.Origin, err = ws.Origin(cfg, req); return },
			Handler: func(c *ws.Conn) {
				connCh <- c
				select {} // keep the hijacked connection open
			},
		}
		srv.ServeHTTP(&hijackW{conn: ssw, buf: bufio.NewReadWriter(br, bufio.NewWriter(ssw)), h: http.Header{}}, req)
	}()
	cfg, err := ws.NewConfig("ws://verif.local/ws", "http://verif.local/")
	Must(err)
	_, err = ws.NewClient(cfg, csw)
	Must(err)
	sr := <-connCh
	// the bufio.Reader of the handshake holds no bytes beyond the request; from here on the
	// server reads what the harness feeds
	ssw.r, ssw.w, ssw.c = mem, mem, mem
	return sr
}

// wsFrame wraps a payload into one masked binary frame (client to server direction)
func wsFrame(r *rand.Rand, payload []byte) []byte {
	f := []byte{0x82}
	switch n := len(payload); {
	case n < 126:
		f = append(f, 0x80|byte(n))
	case n < 65536:
		f = append(f, 0x80|126, byte(n>>8), byte(n))
	default:
		f = append(f, 0x80|127, 0, 0, 0, 0, byte(n>>24), byte(n>>16), byte(n>>8), byte(n))
	}
	key := []byte{byte(r.Intn(256)), byte(r.Intn(256)), byte(r.Intn(256)), byte(r.Intn(256))}
	f = append(f, key...)
	for i, b := range payload {
		f = append(f, b^key[i%4])
	}
	return f
}
