package main

import (
	"fmt"
	"time"

	. "verifharness/hlib"

	erpc "github.com/henrylee2cn/erpc/v6"
	"github.com/henrylee2cn/erpc/v6/proto/jsonproto"
	"github.com/henrylee2cn/erpc/v6/proto/pbproto"
	"github.com/henrylee2cn/erpc/v6/socket"
)

// -mode nopool: the same hostile streams, received while the process-wide goroutine pool has no
// goroutine left (every frame then takes the read loop's fallback path: handled on the read
// goroutine, or skipped). After the pool is given back and the input ends, the session must end.
func runNoPool(cfg *RunCfg) {
	r := cfg.Rng
	erpc.SetGopool(24, time.Minute) // before any peer exists; small enough to exhaust on purpose
	erpc.SetLoggerOutputter(discardLog{})
	erpc.SetLoggerLevel("TRACE")
	RegTestFilters()
	st := NewStats("C06", cfg)
	st.Rule = "hostile streams (raw, json, pb) fed to a live server session while the goroutine pool is exhausted (parked goroutines hold every slot), pool given back, input ended; distinct by stream bytes; non-trivial = non-empty stream"
	srv := erpc.NewPeer(erpc.PeerConfig{PrintDetail: true, CountTime: true}, prePlugin{})
	callName := srv.RouteCallFunc(echo)
	pushName := srv.RoutePushFunc(note)
	structName = srv.RouteCallFunc(structy)
	pfs := []struct {
		name string
		pf   erpc.ProtoFunc
	}{{"raw", socket.RawProtoFunc}, {"json", jsonproto.NewJSONProtoFunc()}, {"pb", pbproto.NewPbProtoFunc()}}
	distinct := DistinctSet{}
	for i := 0; i < cfg.N; i++ {
		if len(st.OracleFailures) >= 6 {
			st.Count("stopped-early-after-failures")
			break
		}
		p := pfs[i%len(pfs)]
		*mode = p.name // genStream's protocol-specific classes
		lim := uint32(PickLen(r, []int{4096, 65536}))
		erpc.SetReadLimit(1 << 24)
		s, class := genStream(r, p.pf, callName, pushName, lim, st)
		*mode = "nopool"
		erpc.SetReadLimit(lim)
		st.Count("class:" + class)
		human := fmt.Sprintf("mode=nopool proto=%s lim=%d class=%s stream=%x", p.name, lim, class, s)
		if len(s) > 0 {
			distinct.Add(human)
		}
		cc, sc := MemPair()
		var sess erpc.Session
		done := make(chan struct{})
		go func() { sess, _ = srv.ServeConn(sc, p.pf); close(done) }()
		select {
		case <-done:
		case <-time.After(15 * time.Second):
			st.Fail(i, "serve-blocked", "ServeConn did not return within 15 s: earlier sessions of this run still hold the goroutine pool (their handlers or disconnect paths never finished)", human)
		}
		if len(st.OracleFailures) > 0 && st.OracleFailures[len(st.OracleFailures)-1].Key == "serve-blocked" {
			break
		}
		if sess == nil {
			st.Fail(i, "serve-failed", "ServeConn refused an in-memory conn", human)
			continue
		}
		// take every goroutine the pool still has
		rel := make(chan struct{})
		parked := 0
		for parked < 64 && erpc.Go(func() { <-rel }) {
			parked++
		}
		if erpc.Go(func() {}) {
			st.Count("pool-not-exhausted")
		}
		cc.Write(s)
		if !cc.WaitPeerIdle(10 * time.Second) {
			st.Fail(i, "reader-stuck-mid-stream", "server neither consumed the input nor disconnected within 10 s (pool exhausted)", human)
		}
		close(rel) // the pool is available again
		erpc.VerifWaitHandlers(sess)
		cc.CloseWrite()
		ended := WaitUntil(10*time.Second, func() bool {
			select {
			case <-sess.CloseNotify():
				return sc.IsClosed()
			default:
				return false
			}
		})
		if !ended {
			st.Fail(i, "wedged-after-input", "session did not end within 10 s after the input was exhausted; its frames had been received while the goroutine pool was exhausted", human)
		}
		cc.Close()
		if len(st.Samples) < 4 && i%7 == 0 {
			st.Samples = append(st.Samples, fmt.Sprintf("%s -> parked=%d ended=%v", human[:min(len(human), 140)], parked, ended))
		}
	}
	st.Evaluations = cfg.N
	st.DistinctNontrivial = len(distinct)
	st.Write(cfg, nil)
}
