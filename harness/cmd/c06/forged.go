package main

import (
	"bytes"
	"fmt"
	"math/rand"
	"strings"
	"sync"

	. "verifharness/hlib"

	erpc "github.com/henrylee2cn/erpc/v6"
	"github.com/henrylee2cn/erpc/v6/xfer"
	xgzip "github.com/henrylee2cn/erpc/v6/xfer/gzip"
	xmd5 "github.com/henrylee2cn/erpc/v6/xfer/md5"
)

// Every transfer filter the shipped packages can register (xfer/gzip at each compression level
// it accepts, xfer/md5) is registered here under an id of its own ("real"), and a second time
// behind a packing wrapper: the wrapper's OnPack runs the real OnPack and then lets the generator
// rewrite the filter's output (trailer, header fields); its OnUnpack IS the real filter's
// OnUnpack. A frame packed by the real protocol code with the wrapper's id in its transfer pipe
// therefore reaches the receiver's real OnUnpack with a payload the sender has tampered with,
// under every protocol that carries a pipe, without the harness knowing any wire format.

type shippedFilter struct {
	kind     string // gzip | md5
	level    int
	realID   byte
	wrapID   byte
	realName string
	wrapName string
	real     xfer.XferFilter
}

var shipped = []*shippedFilter{
	{kind: "gzip", level: -2, realID: 0xE0, wrapID: 'A'}, // HuffmanOnly
	{kind: "gzip", level: -1, realID: 0xE1, wrapID: 'B'}, // DefaultCompression
	{kind: "gzip", level: 0, realID: 0xE2, wrapID: 'C'},  // NoCompression (stored blocks)
	{kind: "gzip", level: 1, realID: 0xE3, wrapID: 'D'},
	{kind: "gzip", level: 5, realID: 0xE4, wrapID: 'E'},
	{kind: "gzip", level: 9, realID: 0xE5, wrapID: 'F'},
	{kind: "md5", realID: 0xE8, wrapID: 'M'},
}

type forger struct{ f *shippedFilter }

var forgeMu sync.Mutex
var forgeFn func(kind string, out []byte) []byte

func (w forger) ID() byte     { return w.f.wrapID }
func (w forger) Name() string { return w.f.wrapName }
func (w forger) OnPack(b []byte) ([]byte, error) {
	o, err := w.f.real.OnPack(b)
	if err != nil {
		return o, err
	}
	o = append([]byte(nil), o...)
	forgeMu.Lock()
	fn := forgeFn
	forgeMu.Unlock()
	if fn != nil {
		o = fn(w.f.kind, o)
	}
	return o, nil
}
func (w forger) OnUnpack(b []byte) ([]byte, error) { return w.f.real.OnUnpack(b) }

var regShippedOnce sync.Once

func regShipped() {
	regShippedOnce.Do(func() {
		for _, f := range shipped {
			switch f.kind {
			case "gzip":
				f.realName = fmt.Sprintf("gzreal%d", f.level+2)
				f.wrapName = fmt.Sprintf("gzwrap%d", f.level+2)
				xgzip.Reg(f.realID, f.realName, f.level)
			case "md5":
				f.realName, f.wrapName = "md5real", "md5wrap"
				xmd5.Reg(f.realID, f.realName)
			}
			real, err := xfer.Get(f.realID)
			Must(err)
			f.real = real
			xfer.Reg(forger{f})
		}
	})
}

// announcedSize draws the size a forged trailer announces: just past the limit, a small
// multiple of it, and the powers that matter (1 MiB .. 4 GiB-1).
func announcedSize(r *rand.Rand, lim uint32) uint32 {
	switch r.Intn(12) {
	case 0:
		return lim + 1 + uint32(r.Intn(64))
	case 1:
		return 2*lim + uint32(r.Intn(int(lim)))
	case 2:
		return 1 << 20
	case 3, 4:
		return 16<<20 + uint32(r.Intn(1<<20))
	case 5, 6:
		return 64<<20 + uint32(r.Intn(1<<24))
	case 7, 8, 9:
		return 256<<20 + uint32(r.Intn(1<<26))
	case 10:
		return 1<<30 + uint32(r.Intn(1<<20))
	}
	return 0xFFFFFFFF - uint32(r.Intn(1024))
}

func putLE32(b []byte, v uint32) {
	b[0], b[1], b[2], b[3] = byte(v), byte(v>>8), byte(v>>16), byte(v>>24)
}

// forgeVariant is one way of tampering with a filter's output. accepted: the real filter still
// accepts the payload (a harmless rewrite); every other variant must be refused by it.
type forgeVariant struct {
	name     string
	accepted bool
	fn       func(out []byte) []byte
}

// gzipVariants: out is ONE gzip member as the shipped filter writes it (10-byte header, deflate
// stream, CRC-32, ISIZE).
func gzipVariant(r *rand.Rand, lim uint32, harmlessToo bool) forgeVariant {
	n := announcedSize(r, lim)
	k := r.Intn(10)
	if harmlessToo && r.Intn(8) == 0 {
		k = 10 + r.Intn(2)
	}
	switch k {
	case 0, 1, 2, 3, 4:
		return forgeVariant{name: "gzip-isize", fn: func(o []byte) []byte {
			if len(o) >= 4 {
				putLE32(o[len(o)-4:], n)
			}
			return o
		}}
	case 5:
		return forgeVariant{name: "gzip-isize+crc", fn: func(o []byte) []byte {
			if len(o) >= 8 {
				putLE32(o[len(o)-4:], n)
				putLE32(o[len(o)-8:], n^0x5a5a5a5a)
			}
			return o
		}}
	case 6:
		return forgeVariant{name: "gzip-crc", fn: func(o []byte) []byte {
			if len(o) >= 8 {
				o[len(o)-5] ^= 0x40
			}
			return o
		}}
	case 7: // FEXTRA set, XLEN announces 65535 bytes of extra field that are not there
		return forgeVariant{name: "gzip-xlen", fn: func(o []byte) []byte {
			if len(o) < 10 {
				return o
			}
			o[3] |= 4
			return append(append(append([]byte(nil), o[:10]...), 0xff, 0xff), o[10:]...)
		}}
	case 8:
		cut := 1 + r.Intn(8)
		return forgeVariant{name: "gzip-trailer-cut", fn: func(o []byte) []byte {
			if len(o) > cut {
				return o[:len(o)-cut]
			}
			return o
		}}
	case 9: // a second member behind the first one whose trailer is forged
		return forgeVariant{name: "gzip-two-members", fn: func(o []byte) []byte {
			o2 := append(append([]byte(nil), o...), o...)
			putLE32(o2[len(o2)-4:], n)
			return o2
		}}
	case 10: // MTIME is not checked by anything: harmless
		v := r.Uint32()
		return forgeVariant{name: "gzip-mtime", accepted: true, fn: func(o []byte) []byte {
			if len(o) >= 10 {
				putLE32(o[4:8], v)
			}
			return o
		}}
	}
	return forgeVariant{name: "gzip-honest", accepted: true, fn: func(o []byte) []byte { return o }}
}

// md5Variants: out = payload ++ 16-byte digest
func md5Variant(r *rand.Rand, lim uint32, harmlessToo bool) forgeVariant {
	n := announcedSize(r, lim)
	k := r.Intn(4)
	if harmlessToo && r.Intn(8) == 0 {
		k = 4
	}
	switch k {
	case 0:
		pos, x := r.Intn(16), byte(1+r.Intn(255))
		return forgeVariant{name: "md5-digest-flip", fn: func(o []byte) []byte {
			if len(o) >= 16 {
				o[len(o)-16+pos] ^= x
			}
			return o
		}}
	case 1: // a size where a digest is expected (little endian at the very end, big endian before)
		return forgeVariant{name: "md5-digest-size", fn: func(o []byte) []byte {
			if len(o) >= 16 {
				putLE32(o[len(o)-4:], n)
				o[len(o)-8], o[len(o)-7], o[len(o)-6], o[len(o)-5] = byte(n>>24), byte(n>>16), byte(n>>8), byte(n)
			}
			return o
		}}
	case 2:
		keep := r.Intn(16)
		return forgeVariant{name: "md5-short", fn: func(o []byte) []byte {
			if len(o) > keep {
				return o[:keep]
			}
			return o
		}}
	case 3:
		at := r.Intn(1 << 16)
		return forgeVariant{name: "md5-payload-flip", fn: func(o []byte) []byte {
			if len(o) > 16 {
				o[at%(len(o)-16)] ^= 0x01
				return o
			}
			if len(o) > 0 {
				o[0] ^= 1
			}
			return o
		}}
	}
	return forgeVariant{name: "md5-honest", accepted: true, fn: func(o []byte) []byte { return o }}
}

func pickVariant(r *rand.Rand, f *shippedFilter, lim uint32, harmlessToo bool) forgeVariant {
	if f.kind == "md5" {
		return md5Variant(r, lim, harmlessToo)
	}
	return gzipVariant(r, lim, harmlessToo)
}

// pipeCarried: the modes whose protocol carries a transfer pipe (thrift-struct has none)
func pipeCarried(m string) bool {
	switch m {
	case "raw", "json", "pb", "http", "ws", "thriftbin":
		return true
	}
	return false
}

// forgedFrame builds one CALL frame of the protocol under test whose transfer pipe names a
// shipped filter and whose filtered payload has been tampered with. In raw mode (compared with
// the Coq model of the raw protocol, which knows none of these filter ids and refuses the frame)
// only variants the real filter must refuse are produced.
func forgedFrame(r *rand.Rand, pf erpc.ProtoFunc, callName string, lim uint32) (frame []byte, variant, filter string) {
	regShipped()
	f := shipped[r.Intn(len(shipped))]
	v := pickVariant(r, f, lim, *mode != "raw")
	body := RandBytes(r, PickLen(r, []int{0, 1, 20, 200}))
	if r.Intn(4) == 0 {
		body = bytes.Repeat([]byte{byte('a' + r.Intn(20))}, 1+r.Intn(int(lim)/2))
	}
	variant, filter = v.name, f.kind
	if f.kind == "gzip" {
		filter = fmt.Sprintf("gzip level=%d", f.level)
	}
	if *mode == "http" {
		return httpForged(r, pf, f, v, callName, body), variant, filter
	}
	ids := []byte{f.wrapID}
	switch r.Intn(4) {
	case 0:
		ids = []byte{byte(1 + r.Intn(2)), f.wrapID} // the forged payload is xor-ed / reversed on the wire
	case 1:
		ids = []byte{f.wrapID, byte(1 + r.Intn(2))}
	}
	forgeMu.Lock()
	forgeFn = func(kind string, out []byte) []byte { return v.fn(out) }
	forgeMu.Unlock()
	frame = buildFrame(pf, erpc.TypeCall, int32(1+r.Intn(1000)), callName, body, nil, ids)
	forgeMu.Lock()
	forgeFn = nil
	forgeMu.Unlock()
	if frame != nil && *mode == "ws" {
		frame = wsFrame(r, frame)
	}
	return frame, variant, filter
}

// httpForged: httproto names the filter of the body in an X-Content-Encoding header (looked up
// by name on receipt); the request is the one the real Pack writes for the same call without a
// pipe, its body replaced by the tampered filter output.
func httpForged(r *rand.Rand, pf erpc.ProtoFunc, f *shippedFilter, v forgeVariant, callName string, body []byte) []byte {
	plain := buildFrame(pf, erpc.TypeCall, int32(1+r.Intn(1000)), callName, body, nil, nil)
	i := bytes.Index(plain, []byte("\r\n\r\n"))
	if i < 0 {
		return nil
	}
	z, err := f.real.OnPack(append([]byte(nil), plain[i+4:]...))
	if err != nil {
		return nil
	}
	z = v.fn(append([]byte(nil), z...))
	var out []string
	for _, l := range strings.Split(string(plain[:i]), "\r\n") {
		if !strings.HasPrefix(l, "Content-Length:") {
			out = append(out, l)
		}
	}
	out = append(out, "X-Content-Encoding: "+f.realName, fmt.Sprintf("Content-Length: %d", len(z)))
	return append([]byte(strings.Join(out, "\r\n")+"\r\n\r\n"), z...)
}
