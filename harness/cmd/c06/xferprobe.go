package main

import (
	"bytes"
	"fmt"
	"runtime"

	. "verifharness/hlib"

	erpc "github.com/henrylee2cn/erpc/v6"
	"github.com/henrylee2cn/erpc/v6/xfer"
)

// Allocation oracle that does not depend on which allocator a filter uses: the growth of
// runtime.MemStats.TotalAlloc (cumulative bytes allocated, never decreases, unaffected by
// garbage collection) around the single call under test, on a process in which nothing else
// runs. make([]byte, n), bytes.Buffer.Grow, append growth and ByteBuffer.ChangeLen all count.

// Bound for ONE Gzip.OnUnpack call under read limit lim: the model's bound on the output buffers
// (Model/GunzipAlloc.v gunzip_total_bound = 12*lim + 4620, theorem
// C06_gunzip_alloc_independent_of_isize) plus what the library allocates for itself whatever the
// payload says (a gzip.Reader with its flate decompressor, 32 KiB window and Huffman tables when
// the filter's pool has been emptied by a collection; bufio). Corr/C06.v carries the same sum.
const filterRuntimeSlack = 192 << 10

func filterAllocBound(lim uint32) uint64 { return 12*uint64(lim) + 4620 + filterRuntimeSlack }

// forgedAllocBound is the bound for a whole live case of the forged-trailer class (session set
// up, at most a handful of small frames received, handled, answered, logged at TRACE, session torn
// down): the filter's bound plus the per-frame work, which is proportional to the stream and to
// what an accepted payload may legitimately inflate to (at most the limit).
// A frame that is answered (accepted, or refused with a bad-message reply where the protocol does
// that) is answered through the same pipe: Gzip.OnPack takes a gzip.Writer from the filter's pool,
// and a new one costs compress/flate about 1.3 MB of compressor state whatever the payload says
// (measured: a cluster at 1.2-1.3 MB for such cases, independent of the read limit).
const replyPackAllowance = 2 << 20

func forgedAllocBound(lim uint32, streamLen int) uint64 {
	return filterAllocBound(lim) + 32*uint64(lim) + 64*uint64(streamLen) + (1 << 20) + replyPackAllowance
}

// measured runs f up to three times and returns the smallest TotalAlloc growth: a collection
// that empties a sync.Pool between two runs costs one re-allocation of pooled library state,
// it cannot happen to every run.
func measured(enough uint64, f func()) uint64 {
	var a, b runtime.MemStats
	best := ^uint64(0)
	for k := 0; k < 3; k++ {
		runtime.ReadMemStats(&a)
		f()
		runtime.ReadMemStats(&b)
		if d := b.TotalAlloc - a.TotalAlloc; d < best {
			best = d
		}
		if best <= enough || best > 32<<20 { // fine already / far beyond anything a collection explains
			break
		}
	}
	return best
}

// -mode xfer: every shipped transfer filter's OnUnpack called directly on tampered payloads,
// compared with the model (result class, allocation within the model's bound).
func runXfer(cfg *RunCfg) {
	r := cfg.Rng
	Quiet()
	regShipped()
	st := NewStats("C06", cfg)
	st.Rule = "shipped transfer filters (xfer/gzip at levels -2,-1,0,1,5,9; xfer/md5) unpacking payloads whose trailer / header fields were rewritten (ISIZE announcing up to 4 GiB, CRC, XLEN, cut trailer, second member, MTIME, digest) for plain lengths around the read limit; TotalAlloc growth of the single call against the model's bound; distinct by (filter, limit, variant, plain length, announced size); non-trivial = payload tampered with"
	w := NewCaseWriter(cfg)
	distinct := DistinctSet{}
	var maxDelta uint64
	maxExcess := int64(-1 << 62)
	for i := 0; i < cfg.N; i++ {
		if len(st.OracleFailures) >= 6 && !*noStop {
			st.Count("stopped-early-after-failures")
			break
		}
		lim := uint32(PickLen(r, []int{4096, 65536, 1024 + r.Intn(1<<16)}))
		erpc.SetReadLimit(lim) // keeps xfer.SizeLimit equal to it
		if xfer.SizeLimit() != lim {
			st.Fail(i, "filter-limit-not-applied", fmt.Sprintf("xfer.SizeLimit() = %d after SetReadLimit(%d)", xfer.SizeLimit(), lim), "")
		}
		f := shipped[r.Intn(len(shipped))]
		plainLen := PickLen(r, []int{0, 1, 20, 200, int(lim) - 1, int(lim), int(lim) + 1, 2 * int(lim), int(lim) + r.Intn(3*int(lim)), r.Intn(int(lim))})
		var plain []byte
		if r.Intn(2) == 0 {
			plain = bytes.Repeat([]byte{byte(r.Intn(256))}, plainLen)
		} else {
			plain = RandBytes(r, plainLen)
		}
		packed, err := f.real.OnPack(append([]byte(nil), plain...))
		if err != nil {
			st.Fail(i, "pack-failed", err.Error(), f.realName)
			continue
		}
		packed = append([]byte(nil), packed...)
		v := pickVariant(r, f, lim, true)
		// what the tampering means in the model's terms
		hdrOK, crcOK, isize, inflated := true, true, uint64(uint32(plainLen)), plainLen
		digestOK := true
		src := v.fn(append([]byte(nil), packed...))
		switch v.name {
		case "gzip-isize", "gzip-isize+crc":
			isize = uint64(le32(src[len(src)-4:]))
			crcOK = v.name == "gzip-isize"
		case "gzip-crc", "gzip-trailer-cut":
			crcOK = false
		case "gzip-xlen":
			// the 65535 announced extra bytes swallow the deflate stream: the header never completes
			// (or what follows it is no deflate stream)
			hdrOK = len(src)-12 >= 65535
			crcOK = false
		case "gzip-two-members":
			inflated = 2 * plainLen
			isize = uint64(le32(src[len(src)-4:])) // the last member's trailer is forged
			crcOK = false
		case "md5-digest-flip", "md5-digest-size", "md5-payload-flip", "md5-short":
			digestOK = false
		}
		st.Count("filter:" + f.kind)
		st.Count("variant:" + v.name)
		human := fmt.Sprintf("mode=xfer filter=%s level=%d lim=%d variant=%s plain=%d src=%x", f.kind, f.level, lim, v.name, plainLen, src[:min(len(src), 64)])
		if !v.accepted {
			distinct.Add(fmt.Sprintf("%s/%d/%d/%s/%d/%d", f.kind, f.level, lim, v.name, plainLen, isize))
		}
		var out []byte
		var uerr error
		panicked := false
		delta := measured(12*uint64(lim)+4620, func() {
			// a filter that panics is refused like one that returns an error: every protocol's
			// Unpack runs under the read loop's recover (C06_decoders_and_handlers_recover).
			// Known instance: Gzip.OnUnpack calls Close on a pooled gzip.Reader that has never been
			// reset successfully when the member header is bad (nil decompressor).
			defer func() {
				if p := recover(); p != nil {
					panicked, out, uerr = true, nil, fmt.Errorf("panic: %v", p)
				}
			}()
			out, uerr = f.real.OnUnpack(src)
		})
		if panicked {
			st.Count("filter-panicked(recovered):" + v.name)
		}
		if delta > maxDelta {
			maxDelta = delta
		}
		if ex := int64(delta) - int64(12*uint64(lim)+4620); ex > maxExcess {
			maxExcess = ex
		}
		res := VS("err")
		if uerr == nil {
			res = VL(VS("ok"), VN(int64(len(out))))
			if f.kind == "gzip" && len(out) > int(lim) { // md5 returns a sub-slice of what it was given
				st.Fail(i, "over-allocation", fmt.Sprintf("filter %s delivered %d bytes under a read limit of %d", f.realName, len(out), lim), human)
			}
			want := plain
			if v.name == "gzip-two-members" {
				want = append(append([]byte(nil), plain...), plain...)
			}
			if !bytes.Equal(out, want) {
				st.Fail(i, "filter-output", "an accepted payload did not unpack to what had been packed", human)
			}
		}
		bound := filterAllocBound(lim)
		if f.kind == "md5" {
			bound = 16 + filterRuntimeSlack
		}
		if delta > bound {
			st.Fail(i, "over-allocation", fmt.Sprintf("filter %s (%s level %d) allocated %d bytes while unpacking a payload of %d bytes (variant %s, trailer announces %d) under a read limit of %d: more than the bound 12*limit+4620+%d that holds whatever the payload announces", f.realName, f.kind, f.level, delta, len(src), v.name, isize, lim, filterRuntimeSlack), human)
		}
		if f.kind == "md5" {
			w.Add(VL(VS("md5"), VN(int64(lim)), VN(int64(len(src))), VBool(digestOK), VN(int64(delta))), VL(res, VBool(true)))
		} else {
			w.Add(VL(VS("gz"), VN(int64(lim)), VBool(hdrOK), VN(int64(inflated)), VBool(crcOK), VN(int64(isize)), VN(int64(delta))), VL(res, VBool(true)))
		}
		if len(st.Samples) < 6 && i%11 == 0 {
			st.Samples = append(st.Samples, fmt.Sprintf("%s -> err=%v out=%d totalAllocDelta=%d", human[:min(len(human), 150)], uerr != nil, len(out), delta))
		}
	}
	st.Evaluations = cfg.N
	st.DistinctNontrivial = len(distinct)
	st.Extra = map[string]interface{}{"max_totalalloc_delta_xfer": maxDelta, "max_excess_over_model_buffer_bound_xfer": maxExcess}
	st.Write(cfg, w)
}

func le32(b []byte) uint32 {
	return uint32(b[0]) | uint32(b[1])<<8 | uint32(b[2])<<16 | uint32(b[3])<<24
}
