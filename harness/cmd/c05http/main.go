// c05http drives proto/httproto: Pack into a buffer, Unpack through readers delivering the
// bytes in different chunkings, back-to-back frame streams, hostile HTTP text. What net/http,
// net/url and encoding/json do is recorded from the real calls and handed to the model as
// tables (header lines of the written frame, url.Parse results, the JSON form of a status).
package main

import (
	"bytes"
	"fmt"
	"math/rand"
	"net/url"
	"strings"

	"verifharness/c05lib"
	. "verifharness/hlib"

	"github.com/henrylee2cn/erpc/v6/proto/httproto"
	"github.com/henrylee2cn/erpc/v6/socket"
	"github.com/henrylee2cn/erpc/v6/xfer"
	"github.com/henrylee2cn/goutil/status"
)

var pf = httproto.NewHTTProtoFunc()

// tables of library behaviour observed during a case
type tables struct {
	urls  map[string]string // input -> val
	urlsK []string
	js    []string
	gz    [][2][]byte
}

func (t *tables) url(in string) {
	if _, ok := t.urls[in]; ok {
		return
	}
	u, err := url.Parse(in)
	v := VL(VB([]byte(in)), VS("err"), VB(nil), VB(nil), VB(nil), VB(nil))
	if err == nil {
		v = VL(VB([]byte(in)), VS("ok"), VB([]byte(u.Path)), VB([]byte(u.RawQuery)), VB([]byte(u.Host)), VB([]byte(u.EscapedPath())))
	}
	t.urls[in] = v
	t.urlsK = append(t.urlsK, in)
}

func (t *tables) urlVal() string {
	var l []string
	for _, k := range t.urlsK {
		l = append(l, t.urls[k])
	}
	return VL(l...)
}

// json records MarshalJSON of s and what UnmarshalJSON makes of those bytes
func (t *tables) json(s *status.Status) []byte {
	b, _ := s.MarshalJSON()
	t.unjson(b)
	return b
}

func (t *tables) unjson(b []byte) {
	back := new(status.Status)
	res := "serr"
	if err := back.UnmarshalJSON(b); err == nil {
		res = VB(back.EncodeQuery()) // the status as its query form (Cause() invents a cause)
	}
	t.js = append(t.js, VL(VB(b), res))
}

func (t *tables) gzip(b []byte) []byte {
	f, err := xfer.Get(GzipRealID)
	Must(err)
	o, err := f.OnPack(append([]byte(nil), b...))
	Must(err)
	t.gz = append(t.gz, [2][]byte{append([]byte(nil), b...), append([]byte(nil), o...)})
	return o
}

func (t *tables) gzVal() string {
	var l []string
	for _, p := range t.gz {
		l = append(l, VL(VB(p[0]), VB(p[1])))
	}
	return VL(l...)
}

func newTables() *tables { return &tables{urls: map[string]string{}} }

// headerLines splits a written frame into first line, header lines, body offset.
func headerLines(f []byte) (first string, lines [][2][]byte, ok bool) {
	i := bytes.Index(f, []byte("\r\n"))
	if i < 0 {
		return "", nil, false
	}
	first = string(f[:i])
	rest := f[i+2:]
	for {
		j := bytes.Index(rest, []byte("\r\n"))
		if j < 0 {
			return first, lines, false
		}
		if j == 0 {
			return first, lines, true
		}
		ln := rest[:j]
		k := bytes.Index(ln, []byte(": "))
		if k < 0 {
			return first, lines, false
		}
		lines = append(lines, [2][]byte{append([]byte(nil), ln[:k]...), append([]byte(nil), ln[k+2:]...)})
		rest = rest[j+2:]
	}
}

var methods = []string{"/a/b", "/", "/home/test", "/a/b?x=1&y=%41", "/p?k=v&k=w&=", "/a b", "/a%20b", "http://host.example/p/q", "//h/p", "", "a/b", "/ü", "/a?b?c", "/x#frag", "/a\tb", ":bad:", "/a;b=c", "/%zz",
	// paths that need escapes in the request line: blanks, non-ASCII and invalid UTF-8 bytes raw;
	// '?', '#', '%', control bytes, 0x7f, a second leading slash, '+' as percent escapes
	"/a  b c", "/ a", "/a ", "/\xff\xfe", "/\xe4\xb8\xad/x y", "/a%3Fb", "/a%23b", "/a%25b", "/a%01b", "/a%00", "/a%0Ab", "/a%0D%0Ab",
	"/a%7Fb", "/%2Fh/p", "/a%2Bb", "/a+b", "/%E4%B8%AD", "/a%FFb", "/a\x7fb", "/a\x01b", "/a%", "/a%2", "/a\"b", "/a\\b", "/a%20b%3Fc%23d%25e"}
var metaKeys = []string{"X-Trace", "peer_id", "a", "Abc-Def", "x-lower", "X_Under", "K", "Tp-Meta", "Content-Type", "X-Seq", "Host", "Accept-Encoding", "User-Agent", "bad key", "Bad:Key", "", "Üni"}
var metaVals = []string{"v", "", "110", " lead", "trail ", "a b", "a:b", "a\r\nb", "a\nb", "x=y&z", "%41", "\"q\"", "ünï", "\tt\t"}

func genHTTP(r *rand.Rand, st *Stats) (*c05lib.GenMsg, []byte) {
	g := &c05lib.GenMsg{}
	switch r.Intn(6) {
	case 0:
		g.Seq = 0
	case 1:
		g.Seq = -2147483648
	case 2:
		g.Seq = 2147483647
	case 3:
		g.Seq = -1
	default:
		g.Seq = int32(r.Uint32())
	}
	g.Mtype = []byte{1, 1, 2, 2, 4, 5, 3, 0, 200}[r.Intn(9)]
	if r.Intn(3) == 0 {
		g.Method = []byte(methods[r.Intn(5)])
	} else {
		g.Method = []byte(methods[r.Intn(len(methods))])
	}
	if g.Mtype == 2 || g.Mtype == 5 {
		g.Method = nil
		if r.Intn(3) == 0 {
			g.HasSt = true
			g.Code = int32([]int{0, 1, 404, -1, 100000}[r.Intn(5)])
			g.Msg = []byte([]string{"", "Not Found", "bad \"x\"", "ünï"}[r.Intn(4)])
			if r.Intn(2) == 0 {
				g.HasC = true
				g.Cause = []byte([]string{"why", "", "a\nb"}[r.Intn(3)])
			}
		}
	}
	nm := r.Intn(4)
	for i := 0; i < nm; i++ {
		k := metaKeys[r.Intn(7)]
		if r.Intn(6) == 0 {
			k = metaKeys[r.Intn(len(metaKeys))]
		}
		v := metaVals[r.Intn(3)]
		if r.Intn(4) == 0 {
			v = metaVals[r.Intn(len(metaVals))]
		}
		g.Meta = append(g.Meta, [2][]byte{[]byte(k), []byte(v)})
	}
	g.Codec = []byte{'j', 'p', 'f', 's', 'x', 'j', 0, 't', 200}[r.Intn(9)]
	g.Body = c05lib.SomeBytes(r, PickLen(r, []int{0, 0, 1, 16, 255, 256, 1000, 5000}), []int{c05lib.ClsAll, c05lib.ClsJSON, c05lib.ClsSep}[r.Intn(3)])
	var ids []byte
	switch r.Intn(8) {
	case 0, 1:
		ids = []byte{GzipRealID}
	case 2:
		ids = []byte{GzipRealID, GzipRealID}
		st.Count("pipe:double-gzip")
	case 3:
		ids = []byte{byte(1 + r.Intn(2))}
		st.Count("pipe:not-gzip")
	}
	return g, ids
}

func isToken(k []byte) bool {
	if len(k) == 0 {
		return false
	}
	for _, c := range k {
		if !(c >= 'a' && c <= 'z' || c >= 'A' && c <= 'Z' || c >= '0' && c <= '9' || c == '-' || c == '_') {
			return false
		}
	}
	return true
}

var reserved = map[string]bool{"content-type": true, "content-length": true, "x-content-encoding": true, "x-seq": true, "x-mtype": true, "content-encoding": true, "host": true, "user-agent": true, "accept-encoding": true}

// inLimits: the supported field set of httproto (metadata itself is exempt: it is mapped onto
// HTTP headers; it only must not collide with the headers the protocol uses).
func inLimits(g *c05lib.GenMsg, ids []byte) bool {
	if len(ids) > 1 || (len(ids) == 1 && ids[0] != GzipRealID) {
		return false
	}
	switch g.Codec {
	case 'j', 'p', 'f', 's', 'x':
	default:
		return false
	}
	for _, p := range g.Meta {
		if !isToken(p[0]) || reserved[strings.ToLower(string(p[0]))] {
			return false
		}
	}
	switch g.Mtype {
	case 1, 4:
		// the service method is a URI reference for this protocol: supported are the methods that
		// are a path only - either their own path (blanks, non-ASCII bytes included: the request
		// line carries the escaped form) or the escaped form of a path ("/a%3Fb" is the path
		// "/a?b"); what must arrive is that path
		u, err := url.Parse(string(g.Method))
		if err != nil || u.RawQuery != "" || u.Host != "" || len(u.Path) == 0 ||
			(u.Path != string(g.Method) && u.EscapedPath() != string(g.Method)) {
			return false
		}
		return !g.HasSt || g.Code == 0 // a request carries no status
	case 2, 5:
		return true
	}
	return false
}

func unpackAll(chunks [][]byte) ([]string, string, []uint32) { return c05lib.DecodeStream(pf, chunks) }

func main() {
	cfg := ParseFlags()
	r := cfg.Rng
	RegTestFilters()
	st := NewStats("C05", cfg)
	st.Rule = "httproto: (a) pack/unpack of generated requests and responses (seq extremes, message types call/reply/auth/unsupported, paths with and without query / host / percent escapes, paths that need escaping in the request line (blanks, non-ASCII and invalid UTF-8 bytes; '?', '#', '%', control bytes as escapes) and must arrive as the path the sender's url.Parse assigned, metadata on header-like and odd keys, OK and business-error statuses, the five mapped codecs and others, all byte values in the body, gzip / double gzip / non-gzip pipes) under a size limit (sometimes tight), unpacked through 3 chunkings; (b) streams of 1-5 back-to-back frames; (c) hostile HTTP text (bad status lines, headers without colon, odd Content-Length / X-Seq values, missing blank line, truncation). Library behaviour (header lines written by net/http, url.Parse, status JSON, gzip) is recorded into the case"
	w := NewCaseWriter(cfg)
	distinct := DistinctSet{}
	for i := 0; i < cfg.N; i++ {
		mode := r.Intn(22)
		tb := newTables()
		switch {
		case mode < 11:
			st.Count("mode:pack")
			g, ids := genHTTP(r, st)
			lim := uint32(c05lib.BigLim)
			socket.SetMessageSizeLimit(c05lib.BigLim)
			probe, pres, _, _ := c05lib.PackOne(pf, g, ids)
			if pres == "ok" && r.Intn(6) == 0 && len(ids) == 0 {
				lim = uint32(len(probe) - r.Intn(40))
				st.Count("limit:tight")
			}
			socket.SetMessageSizeLimit(lim)
			out, res, writes, size := c05lib.PackOne(pf, g, ids)
			human := c05lib.Clip(fmt.Sprintf("http pack lim=%d ids=%x msg=%s", lim, ids, g.Val()))
			st.Count("pack:" + res)
			inl := inLimits(g, ids)
			if inl {
				st.Count("guard:within-limits")
			} else {
				st.Count("guard:outside-limits")
			}
			// library tables
			tb.url(string(g.Method))
			body := g.Body
			for range ids {
				if len(ids) > 0 && ids[0] == GzipRealID {
					body = tb.gzip(body)
				}
			}
			js := tb.json(g.Status())
			if len(ids) > 0 && ids[len(ids)-1] == GzipRealID {
				tb.unjson(js)
				tb.gzip(js)
			}
			packObs, unpObs := "s"+res, "snone"
			var lines []string
			if res == "ok" {
				if writes != 1 {
					st.Fail(i, "pack-multiple-writes", fmt.Sprintf("Pack wrote the frame in %d Write calls", writes), human)
				}
				first, ls, ok := headerLines(out)
				if !ok {
					st.Fail(i, "roundtrip", "the written frame is not first line / header lines / blank line / body", human)
				}
				for _, l := range ls {
					lines = append(lines, VL(VB(l[0]), VB(l[1])))
				}
				if sp := strings.SplitN(first, " ", 3); len(sp) == 3 && sp[0] == "POST" {
					tb.url(sp[1])
				}
				packObs = VL(VS("ok"), VB(out), VN(int64(size)), VS("true"))
				wantSize := uint32(len(out))
				if wantSize > lim {
					wantSize = 0
				}
				if size != wantSize {
					st.Fail(i, "size-not-own", fmt.Sprintf("Pack reports size %d for a frame of %d bytes (limit %d)", size, len(out), lim), human)
				}
				var first3 string
				for ci, ch := range c05lib.Chunkings(r, out) {
					fr, end, _ := unpackAll(ch)
					cur := VL(VL(fr...), end)
					if ci == 0 {
						first3, unpObs = cur, cur
						if inl && lim == c05lib.BigLim {
							httpOracle(st, i, g, ids, fr, end, human)
						}
					} else if cur != first3 {
						st.Fail(i, "chunking", fmt.Sprintf("chunking %d decodes differently", ci), human)
					}
				}
			} else if inl && lim == c05lib.BigLim {
				st.Fail(i, "roundtrip", "a message within limits cannot be packed: "+res, human)
			}
			clean := int64(1)
			for _, p := range g.Meta {
				if !isToken(p[0]) || reserved[strings.ToLower(string(p[0]))] {
					clean = 0
				}
			}
			w.Add(VL(VS("pack"), VN(int64(lim)), VB(ids), tb.gzVal(), tb.urlVal(), VL(tb.js...), g.Val(), VL(lines...), VN(clean)), VL(packObs, unpObs))
			distinct.Add(human)
		case mode >= 20: // Packs and an Unpack of ONE instance under a forced interleaving
			st.Count("mode:cross")
			socket.SetMessageSizeLimit(c05lib.BigLim)
			var g *c05lib.GenMsg
			var ids, out []byte
			for try := 0; try < 50; try++ {
				g, ids = genHTTP(r, st)
				var res string
				out, res, _, _ = c05lib.PackOne(pf, g, ids)
				if res == "ok" && inLimits(g, ids) {
					break
				}
				out = nil
			}
			if out == nil {
				break
			}
			first, _, _ := headerLines(out)
			if sp := strings.SplitN(first, " ", 3); len(sp) == 3 && sp[0] == "POST" {
				tb.url(sp[1])
			}
			body := g.Body
			if len(ids) == 1 {
				body = tb.gzip(body)
			}
			js := tb.json(g.Status())
			if len(ids) == 1 {
				tb.unjson(js)
				tb.gzip(js)
			}
			spec := &c05lib.XSpec{Name: "http", PF: pf, Frames: [][]byte{out}}
			for j, k := 0, 1+r.Intn(3); j < k; j++ {
				og, oids := genHTTP(r, st)
				spec.Out = append(spec.Out, func() socket.Message { return og.NewMessage(oids) })
			}
			x, _ := spec.Run(r, st, i)
			obs := VL(VL(), "sfail")
			if x.OK && x.Unp[0] != "sfail" {
				obs = VL(VL(x.Unp[0]), "sok")
			}
			w.Add(VL(VS("stream"), VN(c05lib.BigLim), tb.gzVal(), tb.urlVal(), VL(tb.js...), VB(out)), obs)
			distinct.Add(c05lib.Clip(fmt.Sprintf("http cross bytes=%x %s", out, x.Sched)))
		case mode >= 13 && mode < 15: // one frame arriving in chunks while the same instance sends
			st.Count("mode:duplex")
			socket.SetMessageSizeLimit(c05lib.BigLim)
			var g *c05lib.GenMsg
			var ids, out []byte
			for try := 0; try < 50; try++ {
				g, ids = genHTTP(r, st)
				var res string
				out, res, _, _ = c05lib.PackOne(pf, g, ids)
				if res == "ok" && inLimits(g, ids) {
					break
				}
				out = nil
			}
			if out == nil {
				break
			}
			first, _, _ := headerLines(out)
			if sp := strings.SplitN(first, " ", 3); len(sp) == 3 && sp[0] == "POST" {
				tb.url(sp[1])
			}
			body := g.Body
			if len(ids) == 1 {
				body = tb.gzip(body)
			}
			js := tb.json(g.Status())
			if len(ids) == 1 {
				tb.unjson(js)
				tb.gzip(js)
			}
			fr, end, _ := unpackAll([][]byte{append([]byte(nil), out...)})
			alone := "sfail"
			if len(fr) == 1 && end == "sok" {
				alone = fr[0]
			}
			og, oids := genHTTP(r, st)
			busy, ok := c05lib.Duplex(pf, c05lib.Cuts(r, out), false,
				func(pr socket.Proto) string { return c05lib.UnpackOne(pr).Val },
				func(pr socket.Proto) {
					defer func() { recover() }()
					pr.Pack(og.NewMessage(oids))
				})
			human := c05lib.Clip(fmt.Sprintf("http duplex bytes=%x", out))
			c05lib.DuplexOracle(st, i, alone, busy, ok, human)
			obs := VL(VL(), "sfail")
			if ok && busy != "sfail" {
				obs = VL(VL(busy), "sok")
			}
			w.Add(VL(VS("stream"), VN(c05lib.BigLim), tb.gzVal(), tb.urlVal(), VL(tb.js...), VB(out)), obs)
			distinct.Add(human)
		case mode < 13:
			st.Count("mode:stream")
			socket.SetMessageSizeLimit(c05lib.BigLim)
			k := 1 + r.Intn(5)
			var all []byte
			var alone []string
			var aloneSizes []uint32
			for j := 0; j < k; j++ {
				g, ids := genHTTP(r, st)
				out, res, _, _ := c05lib.PackOne(pf, g, ids)
				if res != "ok" || !inLimits(g, ids) {
					continue
				}
				fr, end, sizes := unpackAll([][]byte{append([]byte(nil), out...)})
				if len(fr) != 1 || end != "sok" {
					continue
				}
				first, _, _ := headerLines(out)
				if sp := strings.SplitN(first, " ", 3); len(sp) == 3 && sp[0] == "POST" {
					tb.url(sp[1])
				}
				body := g.Body
				if len(ids) == 1 {
					body = tb.gzip(body)
				}
				js := tb.json(g.Status())
				if len(ids) == 1 {
					tb.unjson(js)
					tb.gzip(js)
				}
				alone = append(alone, fr[0])
				aloneSizes = append(aloneSizes, sizes[0])
				all = append(all, out...)
			}
			human := c05lib.Clip(fmt.Sprintf("http stream frames=%d bytes=%x", len(alone), all))
			var first string
			for ci, ch := range c05lib.Chunkings(r, all) {
				fr, end, sizes := unpackAll(ch)
				cur := VL(VL(fr...), end)
				if ci == 0 {
					first = cur
					if end != "sok" || len(fr) != len(alone) {
						st.Fail(i, "stream-sync", fmt.Sprintf("stream of %d frames decoded to %d frames, end=%s", len(alone), len(fr), end), human)
					}
					for j := range fr {
						if j < len(alone) && fr[j] != alone[j] {
							st.Fail(i, "stream-sync", fmt.Sprintf("frame %d decodes differently in the stream than alone", j), human)
						}
						if j < len(aloneSizes) && sizes[j] != aloneSizes[j] {
							st.Fail(i, "size-not-own", fmt.Sprintf("frame %d reports size %d in the stream, %d alone", j, sizes[j], aloneSizes[j]), human)
						}
					}
				} else if cur != first {
					st.Fail(i, "chunking", fmt.Sprintf("chunking %d decodes differently", ci), human)
				}
			}
			w.Add(VL(VS("stream"), VN(c05lib.BigLim), tb.gzVal(), tb.urlVal(), VL(tb.js...), VB(all)), first)
			distinct.Add(human)
		default:
			st.Count("mode:hostile")
			lim := uint32(PickLen(r, []int{40, 200, c05lib.BigLim}))
			socket.SetMessageSizeLimit(lim)
			b := hostileHTTP(r, st, tb)
			fr, end, _ := unpackAll([][]byte{append([]byte(nil), b...)})
			human := c05lib.Clip(fmt.Sprintf("http hostile lim=%d bytes=%q", lim, b))
			w.Add(VL(VS("stream"), VN(int64(lim)), tb.gzVal(), tb.urlVal(), VL(tb.js...), VB(b)), VL(VL(fr...), end))
			distinct.Add(human)
		}
		if len(st.Samples) < 6 && i%7 == 0 {
			st.Samples = append(st.Samples, fmt.Sprintf("http case %d mode=%d", i, mode))
		}
	}
	st.Distribution["unpack-panics"] = c05lib.Panics
	st.Evaluations = cfg.N
	st.DistinctNontrivial = len(distinct)
	st.Write(cfg, w)
}

// httpOracle: the round trip on the implementation alone, for the fields the property names
// (metadata is mapped onto HTTP headers and exempt; the service method of a reply and the
// status of a request are not carried; a business-error reply carries its status instead of
// a body, as JSON - compared when it is plain ASCII with a non-empty or absent cause).
func httpOracle(st *Stats, i int, g *c05lib.GenMsg, ids []byte, fr []string, end string, human string) {
	if end != "sok" || len(fr) != 1 {
		st.Fail(i, "roundtrip", fmt.Sprintf("a packed message within limits does not unpack (end=%s frames=%d)", end, len(fr)), human)
		return
	}
	// fr[0] = (sok (zSEQ xMT xMETHOD xSTATUS META xCODEC xBODY xIDS nSIZE))
	parts := strings.SplitN(strings.TrimPrefix(fr[0], "(sok ("), " ", 5)
	if len(parts) < 5 {
		st.Fail(i, "roundtrip", "unreadable observation "+fr[0], human)
		return
	}
	// parts[4] = META xCODEC xBODY xIDS nSIZE)) with META a parenthesised list
	depth, endMeta := 0, -1
	for k := 0; k < len(parts[4]); k++ {
		if parts[4][k] == '(' {
			depth++
		} else if parts[4][k] == ')' {
			depth--
			if depth == 0 {
				endMeta = k
				break
			}
		}
	}
	if endMeta < 0 || endMeta+2 > len(parts[4]) {
		st.Fail(i, "roundtrip", "unreadable observation "+fr[0], human)
		return
	}
	tp := strings.Split(strings.TrimSuffix(parts[4][endMeta+2:], "))"), " ")
	wantMethod := g.Method
	if g.Mtype == 1 || g.Mtype == 4 {
		if u, err := url.Parse(string(g.Method)); err == nil {
			wantMethod = []byte(u.Path) // = the method itself unless it is written with percent escapes
		}
	}
	want := []string{VZ(int64(g.Seq)), VB([]byte{g.Mtype}), VB(wantMethod)}
	for k := 0; k < 3; k++ {
		if parts[k] != want[k] {
			st.Fail(i, "roundtrip", fmt.Sprintf("field %d differs: got %s want %s", k, parts[k], want[k]), human)
			return
		}
	}
	errReply := (g.Mtype == 2 || g.Mtype == 5) && g.HasSt && g.Code != 0
	wantCodec, wantBody := VB([]byte{g.Codec}), VB(g.Body)
	if errReply {
		wantCodec, wantBody = VB([]byte{'j'}), VB(nil)
		ascii := c05lib.IsASCII(g.Msg) && c05lib.IsASCII(g.Cause) && !(g.HasC && len(g.Cause) == 0)
		if ascii && parts[3] != VB(g.Status().EncodeQuery()) {
			st.Fail(i, "roundtrip", "status differs: got "+parts[3]+" want "+VB(g.Status().EncodeQuery()), human)
		}
	} else if parts[3] != VB([]byte("code=0")) {
		st.Fail(i, "roundtrip", "status differs: got "+parts[3]+" want code=0", human)
	}
	if len(tp) != 4 || tp[0] != wantCodec || tp[1] != wantBody || tp[2] != VB(ids) {
		st.Fail(i, "roundtrip", fmt.Sprintf("codec/body/pipe differ: got %v want %s %s %s", tp, wantCodec, c05lib.Clip(wantBody), VB(ids)), human)
	}
}

func hostileHTTP(r *rand.Rand, st *Stats, tb *tables) []byte {
	firsts := []string{"HTTP/1.1 200 OK", "HTTP/1.1 299 Business Error", "HTTP/1.1 404 Not Found", "HTTP/1.1", "HTTP/ 200 OK", "POST /a/b HTTP/1.1", "POST /a?x=1&y HTTP/1.1", "GET / HTTP/1.0 extra words", "POST /ab", "PO", "POST  HTTP/1.1", "POST /%zz HTTP/1.1", "HTTP\n/1.1 200 OK"}
	hdrs := []string{"X-Seq: 7", "X-Seq:7", "X-Seq:   -5  ", "X-Seq: 99999999999", "X-Seq: abc", "X-Seq: +3", "X-Mtype: 2", "X-Mtype: 300", "X-Mtype: x",
		"Content-Type: application/json", "Content-Type: text/xml; charset=x", "Content-Type: foo/bar", "content-type: application/json",
		"Content-Length: 3", "Content-Length: 0", "Content-Length: -4", "Content-Length: 1000", "Content-Length: 99999999999999999999", "Content-Length: 5",
		"X-Content-Encoding: gzip-real", "X-Content-Encoding: nosuch", "A: b", "A: c", "B:", "NoColonHere", ": emptykey", "K: v: w", "Tab:\tv\t", "X-Seq: 1", "Long-Header: " + strings.Repeat("z", 60)}
	var sb bytes.Buffer
	sb.WriteString(firsts[r.Intn(len(firsts))])
	eol := "\r\n"
	if r.Intn(8) == 0 {
		eol = "\n"
	}
	sb.WriteString(eol)
	n := r.Intn(6)
	for i := 0; i < n; i++ {
		sb.WriteString(hdrs[r.Intn(len(hdrs))])
		sb.WriteString(eol)
	}
	if r.Intn(8) > 0 {
		sb.WriteString(eol)
	}
	bodies := []string{"", "abc", "abcde", "{\"code\":7,\"msg\":\"m\",\"cause\":\"c\"}", "{bad json", "abcdefgh"}
	body := bodies[r.Intn(len(bodies))]
	sb.WriteString(body)
	if r.Intn(3) == 0 { // a second, well-formed frame behind it
		sb.WriteString("HTTP/1.1 200 OK\r\nX-Seq: 9\r\nContent-Length: 2\r\n\r\nhi")
	}
	b := sb.Bytes()
	if r.Intn(10) == 0 && len(b) > 0 {
		b = b[:r.Intn(len(b))]
		st.Count("hostile:truncated")
	}
	// url.Parse of whatever the reader may take for a request target
	for _, ln := range bytes.Split(b, []byte("\n")) {
		for _, tok := range bytes.Split(bytes.TrimSuffix(ln, []byte("\r")), []byte(" ")) {
			tb.url(string(tok))
		}
	}
	for _, j := range bodies {
		tb.unjson([]byte(j))
	}
	tb.unjson([]byte("abc"))
	st.Count("hostile:http-text")
	return b
}
