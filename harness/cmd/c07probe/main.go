package main

import (
	"fmt"
	"time"

	. "verifharness/hlib"

	erpc "github.com/henrylee2cn/erpc/v6"
)

func main() {
	Quiet()
	srv := erpc.NewPeer(erpc.PeerConfig{})
	bad := 0
	for i := 0; i < 2000; i++ {
		cc, sc := TCPPair()
		cc.Close() // remote already gone
		s, _ := srv.ServeConn(sc)
		if s == nil {
			continue
		}
		WaitUntil(2*time.Second, func() bool { return !s.Health() })
		time.Sleep(time.Millisecond)
		if x, ok := srv.GetSession(s.ID()); ok && !x.Health() {
			bad++
			srv.RangeSession(func(z erpc.Session) bool { return true })
		}
	}
	fmt.Println("dead sessions left in index:", bad, "count", srv.CountSession())
}
