// c08 places Session.Close() - one closer, two overlapping closers, Peer.Close() - at every
// point of the request/handler/reply timeline of calls in flight in both directions, with the
// peer replying, staying silent or the connection being cut, and with reply writes overlapping
// on a connection that can stall a Write. It observes each call's and push's status and how
// many Close() calls have returned. -mode window concentrates on calls and pushes issued while
// Close() is waiting for a handler (used by the C07 check).
//
// An incoming call has a kind (script event in:KIND): every way handleCall arrives at the reply
// it owes - the handler's result, an error status, a panic, a result the body codec refuses or
// that exceeds the size limit (the first reply write fails, an internal-server-error reply is
// substituted), no such service method, a refusing or panicking hook. With cfg=post the gate
// call.postreply parks every handler after its first reply write, so that Close() can be placed
// between a failed first write and the substitute write.
package main

import (
	"encoding/json"
	"flag"
	"fmt"
	"strings"
	"sync"
	"sync/atomic"
	"time"

	. "verifharness/hlib"

	erpc "github.com/henrylee2cn/erpc/v6"
	"github.com/henrylee2cn/erpc/v6/proto/jsonproto"
	"github.com/henrylee2cn/erpc/v6/proto/pbproto"
)

const eventWatchdog = 4 * time.Second

type work struct {
	mu      sync.Mutex
	started map[int]bool
	gate    map[int]chan struct{}
	nstart  int32
}

func newWork() *work { return &work{started: map[int]bool{}, gate: map[int]chan struct{}{}} }

func (w *work) ch(k int) chan struct{} {
	w.mu.Lock()
	defer w.mu.Unlock()
	c, ok := w.gate[k]
	if !ok {
		c = make(chan struct{})
		w.gate[k] = c
	}
	return c
}

func (w *work) enter(k int) {
	w.mu.Lock()
	w.started[k] = true
	w.mu.Unlock()
	atomic.AddInt32(&w.nstart, 1)
	<-w.ch(k)
}

// markStarted records a context that was entered without running user code.
func (w *work) markStarted(k int) {
	w.mu.Lock()
	w.started[k] = true
	w.mu.Unlock()
}

func (w *work) isStarted(k int) bool {
	w.mu.Lock()
	defer w.mu.Unlock()
	return w.started[k]
}

func (w *work) openAll() {
	w.mu.Lock()
	for _, c := range w.gate {
		select {
		case <-c:
		default:
			close(c)
		}
	}
	for k := 0; k < 64; k++ {
		if _, ok := w.gate[k]; !ok {
			c := make(chan struct{})
			close(c)
			w.gate[k] = c
		}
	}
	w.mu.Unlock()
}

var workOf = map[erpc.Peer]*work{}
var workMu sync.Mutex

// T is registered on both peers: /t/work parks inside the user handler until released.
type T struct{ erpc.CallCtx }

func (t *T) Work(arg *int) (int, *erpc.Status) {
	workMu.Lock()
	w := workOf[t.Peer()]
	workMu.Unlock()
	w.enter(*arg)
	return *arg, nil
}

// Req is the argument of /t/do: the call's index and its kind.
type Req struct {
	K    int
	Kind string
}

// Unenc cannot be encoded by the JSON body codec.
type Unenc struct {
	N  int
	Ch chan int
}

const (
	sizeLimit = 64 << 10 // socket message size limit of the process
	bigLen    = 100 << 10
)

// Do parks like Work, then produces its reply in the way its kind says.
func (t *T) Do(arg *Req) (interface{}, *erpc.Status) {
	workMu.Lock()
	w := workOf[t.Peer()]
	workMu.Unlock()
	t.Swap().Store("kind", arg.Kind)
	w.enter(arg.K)
	switch arg.Kind {
	case "stat":
		return nil, erpc.NewStatus(1001, "the handler refuses", "")
	case "panic":
		panic("the handler panics")
	case "unenc":
		return &Unenc{N: arg.K, Ch: make(chan int)}, nil
	case "big":
		return strings.Repeat("x", bigLen), nil
	}
	return arg.K, nil
}

// hooks of the closing peer: a postReadCallBody hook that parks like a handler and then refuses
// (kind veto), a preWriteReply hook that panics (wpanic), a postWriteReply hook that panics (ppanic)
type hooks struct{}

func (hooks) Name() string { return "c08-hooks" }

func (hooks) PostReadCallBody(ctx erpc.ReadCtx) *erpc.Status {
	if r, ok := ctx.Input().Body().(*Req); ok && r.Kind == "veto" {
		workMu.Lock()
		w := workOf[ctx.Peer()]
		workMu.Unlock()
		w.enter(r.K)
		return erpc.NewStatus(1002, "the hook refuses", "")
	}
	return nil
}

func kindOf(ctx erpc.PreCtx) string {
	if v, ok := ctx.Swap().Load("kind"); ok {
		if k, ok := v.(string); ok {
			return k
		}
	}
	return ""
}

func (hooks) PreWriteReply(ctx erpc.WriteCtx) *erpc.Status {
	if kindOf(ctx) == "wpanic" {
		panic("the preWriteReply hook panics")
	}
	return nil
}

func (hooks) PostWriteReply(ctx erpc.WriteCtx) *erpc.Status {
	if kindOf(ctx) == "ppanic" {
		panic("the postWriteReply hook panics")
	}
	return nil
}

// unknownCall serves every unrouted service method in configuration unk: it parks like a handler.
func unknownCall(ctx erpc.UnknownCallCtx) (interface{}, *erpc.Status) {
	var r Req
	json.Unmarshal(ctx.InputBodyBytes(), &r)
	workMu.Lock()
	w := workOf[ctx.Peer()]
	workMu.Unlock()
	w.enter(r.K)
	return r.K, nil
}

// genuineClass: the reply a call of this kind is owed, as the caller classifies it.
func genuineClass(kind string, unk bool) string {
	switch kind {
	case "", "ok", "ppanic":
		return "ok"
	case "stat":
		return "code1001"
	case "veto":
		return "code1002"
	case "nf":
		if unk {
			return "ok"
		}
		return "code404"
	}
	return "code500" // panic, wpanic, unenc, big
}

func classOf(st *erpc.Status) string {
	if st.OK() {
		return "ok"
	}
	switch st.Code() {
	case erpc.CodeConnClosed:
		return "connclosed"
	case erpc.CodeWriteFailed:
		return "writefailed"
	case erpc.CodeBadMessage:
		return "badmsg"
	}
	return fmt.Sprintf("code%d", st.Code())
}

type result struct {
	done int32
	cls  string
}

type outCall struct {
	cmd atomic.Value // erpc.CallCmd once AsyncCall has returned
}

type world struct {
	P, Q         erpc.Peer
	ps, qs       erpc.Session
	pconn, qconn *ScriptConn
	pw, qw       *work
	g            *GateCtl
	ins          []*result
	kinds        []string
	unk          bool
	outs         []*outCall
	pushes       []*result
	closeCalls   int
	closeRet     int32
	sessCloseRet int32 // returned Session.Close() calls (Peer.Close skips a session that left the index)
	pclosed      bool
	closeBegan   bool
	released     map[int]bool
	stall        *Stall
	stallRel     bool
	// configurations (script prefix cfg=...): none of them changes what the machine predicts
	age          bool          // P has a context age shorter than the time handlers are held
	pcloseExpect bool          // the session was healthy (so indexed) when Peer.Close() was called
	pcloseRet    int32         // Peer.Close() has returned
	keep         []interface{} // the displaced session's ends (kept reachable)
}

const (
	ctxAge  = 40 * time.Millisecond  // context age of the closing peer in configuration "age"
	ageWait = 110 * time.Millisecond // how long a Close() is left alone there: well beyond the age
	takeID  = "user-1"
)

// protoOf: the protocol of the connection under test (script prefix cfg=proto:NAME); the raw
// protocol when none is named. None changes what the machine predicts.
func protoOf(cfgs map[string]bool) []erpc.ProtoFunc {
	switch {
	case cfgs["proto:json"]:
		return []erpc.ProtoFunc{jsonproto.NewJSONProtoFunc()}
	case cfgs["proto:pb"]:
		return []erpc.ProtoFunc{pbproto.NewPbProtoFunc()}
	}
	return nil
}

func newWorld(cfgs map[string]bool) *world {
	w := &world{pw: newWork(), qw: newWork(), released: map[int]bool{}, age: cfgs["age"], unk: cfgs["unk"]}
	if w.age {
		w.P = erpc.NewPeer(erpc.PeerConfig{DefaultContextAge: ctxAge}, hooks{})
	} else {
		w.P = erpc.NewPeer(erpc.PeerConfig{}, hooks{})
	}
	w.Q = erpc.NewPeer(erpc.PeerConfig{})
	w.P.RouteCall(new(T))
	if w.unk {
		w.P.SetUnknownCall(unknownCall)
	}
	w.Q.RouteCall(new(T))
	workMu.Lock()
	workOf[w.P] = w.pw
	workOf[w.Q] = w.qw
	workMu.Unlock()
	var old erpc.Session
	if cfgs["take"] {
		// an older session of the same user holds the id the session under test will take over
		pr0, qc0, pc0 := ServeScriptPair(w.P, w.Q, "q:0", "p:0")
		old = pr0.SrvSess
		old.SetID(takeID)
		w.keep = append(w.keep, pr0, qc0, pc0)
	}
	pr, qc, pc := ServeScriptPair(w.P, w.Q, "q:1", "p:1", protoOf(cfgs)...)
	w.ps, w.qs = pr.SrvSess, pr.CliSess
	w.pconn, w.qconn = pc, qc
	if old != nil {
		w.ps.SetID(takeID) // closes the older session
		WaitUntil(eventWatchdog, func() bool { return !old.Health() && !pr0Healthy(w.keep) })
	}
	w.g = NewGateCtl()
	w.g.Arm("call.prereply", w.ps)
	return w
}

func pr0Healthy(keep []interface{}) bool {
	for _, k := range keep {
		if p, ok := k.(*Pair); ok && p.CliSess != nil {
			return p.CliSess.Health()
		}
	}
	return false
}

func (w *world) destroy() {
	w.g.Uninstall()
	if w.stall != nil {
		w.stall.Release()
	}
	w.pw.openAll()
	w.qw.openAll()
	w.qconn.Close()
	w.pconn.Close()
	// a Close() that hangs (that is a finding of the run, reported by the oracles) must not
	// hang the harness: the teardown is bounded
	fin := make(chan struct{})
	go func() {
		w.ps.Close()
		w.qs.Close()
		if !w.pclosed {
			w.P.Close()
		}
		w.Q.Close()
		close(fin)
	}()
	select {
	case <-fin:
	case <-time.After(2 * time.Second):
	}
	workMu.Lock()
	delete(workOf, w.P)
	delete(workOf, w.Q)
	workMu.Unlock()
}

// busy reports whether some goroutine inside the library is running or ready to run: with an
// in-memory connection every hand-over between goroutines goes through a Go synchronisation
// primitive, so "nobody runnable" is quiescence, not a guess about timing.
func busy(d []string) bool {
	for _, g := range d {
		if !strings.Contains(g, "henrylee2cn/erpc") || strings.Contains(g, "GoroutineDump") {
			continue
		}
		if strings.Contains(g, "GoPool).MustGo") {
			continue // waiting for a slot of the goroutine pool (it polls)
		}
		nl := strings.IndexByte(g, '\n')
		if nl < 0 {
			continue
		}
		h := g[:nl]
		if strings.Contains(h, "[running") || strings.Contains(h, "[runnable") || strings.Contains(h, "[sleep") {
			return true
		}
	}
	return false
}

func (w *world) sample() string {
	var in, out, pu []string
	for _, c := range w.ins {
		if atomic.LoadInt32(&c.done) == 1 {
			in = append(in, VS(c.cls))
		} else {
			in = append(in, VS("pending"))
		}
	}
	for _, c := range w.outs {
		cls := "pending"
		if v := c.cmd.Load(); v != nil {
			cmd := v.(erpc.CallCmd)
			select {
			case <-cmd.Done():
				cls = classOf(cmd.Status())
			default:
			}
		}
		out = append(out, VS(cls))
	}
	for _, c := range w.pushes {
		if atomic.LoadInt32(&c.done) == 1 {
			pu = append(pu, VS(c.cls))
		} else {
			pu = append(pu, VS("pending"))
		}
	}
	return VL(VL(VN(int64(w.closeCalls)), VN(int64(atomic.LoadInt32(&w.closeRet)))),
		VS(erpc.VerifStatusName(erpc.VerifSessionStatus(w.ps))),
		VN(int64(atomic.LoadInt32(&w.pw.nstart))), VL(in...), VL(out...), VL(pu...))
}

// settle: nobody inside the library is runnable, on three dumps in a row, and what can be
// observed did not move in between; the watchdog is per event.
func (w *world) settle() (string, bool) {
	var s1 string
	calm := 0
	ok := WaitUntil(eventWatchdog, func() bool {
		if busy(GoroutineDump()) {
			calm = 0
			return false
		}
		s := w.sample()
		if calm > 0 && s != s1 {
			calm = 0
		}
		s1 = s
		calm++
		if calm < 3 {
			time.Sleep(time.Millisecond)
			return false
		}
		// both ends agree about a dead connection
		st := erpc.VerifStatusName(erpc.VerifSessionStatus(w.ps))
		if (st == "active-closed" || st == "passive-closed") && w.qs.Health() {
			calm = 0
			return false
		}
		return true
	})
	if !ok {
		s1 = w.sample()
	}
	return s1, ok
}

func (w *world) closeLike(f func(), sess bool) {
	w.closeCalls++
	go func() {
		f()
		if sess {
			atomic.AddInt32(&w.sessCloseRet, 1)
		}
		atomic.AddInt32(&w.closeRet, 1)
	}()
}

func runCase(st *Stats, idx int, script []string) (string, string) {
	cfgs := map[string]bool{}
	human := strings.Join(script, " ")
	for len(script) > 0 && strings.HasPrefix(script[0], "cfg=") {
		cfgs[strings.SplitN(script[0][4:], ":", 2)[0]] = true
		cfgs[script[0][4:]] = true
		if strings.HasPrefix(script[0], "cfg=pool:") {
			var n int
			fmt.Sscanf(script[0][9:], "%d", &n)
			erpc.SetGopool(n, 0)
			defer erpc.SetGopool(1<<20, 0)
		}
		script = script[1:]
	}
	w := newWorld(cfgs)
	defer w.destroy()
	var ins, outs []string
	// configurations the machine is told about
	for _, c := range []string{"unk", "post"} {
		if cfgs[c] {
			if c == "post" {
				w.g.Arm("call.postreply", w.ps)
			}
			obs, _ := w.settle()
			ins = append(ins, VL(VS("cfg"), VS(c)))
			outs = append(outs, obs)
		}
	}
	enteredBefore := map[int]bool{} // incoming calls whose handler was entered before the first Close()
	issuedBefore := map[int]bool{}  // outgoing calls issued before the first Close()
	lost := false
	windowOps := map[*result]string{} // calls/pushes issued while Close() was under way, not yet returned
	var lateCalls []int
	for _, ev := range script {
		f := strings.Split(ev, ":")
		var in string
		preArr := -1
		closing := func() bool {
			stn := erpc.VerifStatusName(erpc.VerifSessionStatus(w.ps))
			return stn != "ok"
		}
		switch f[0] {
		case "in":
			k := len(w.ins)
			c := &result{}
			w.ins = append(w.ins, c)
			kind := ""
			if len(f) > 1 {
				kind = f[1]
			}
			w.kinds = append(w.kinds, kind)
			preArr = w.g.Arrivals("call.prereply", w.ps)
			go func() {
				var cmd erpc.CallCmd
				switch kind {
				case "":
					var res int
					cmd = w.qs.Call("/t/work", k, &res)
				case "nf":
					var res interface{}
					cmd = w.qs.Call("/t/nosuchmethod", &Req{K: k, Kind: kind}, &res)
				default:
					var res interface{}
					cmd = w.qs.Call("/t/do", &Req{K: k, Kind: kind}, &res)
				}
				c.cls = classOf(cmd.Status())
				atomic.StoreInt32(&c.done, 1)
			}()
			if kind == "" {
				in = VL(VS("in"))
			} else {
				in = VL(VS("in"), VS(kind))
			}
		case "out":
			k := len(w.outs)
			c := &outCall{}
			w.outs = append(w.outs, c)
			if closing() {
				lateCalls = append(lateCalls, k)
			}
			go func() {
				var res int
				cmd := w.ps.AsyncCall("/t/work", k, &res, make(chan erpc.CallCmd, 4))
				c.cmd.Store(cmd)
			}()
			in = VL(VS("out"))
		case "push":
			c := &result{}
			w.pushes = append(w.pushes, c)
			if closing() {
				windowOps[c] = "push"
			}
			go func() {
				s := w.ps.Push("/t/nopush", "x")
				c.cls = classOf(s)
				atomic.StoreInt32(&c.done, 1)
			}()
			in = VL(VS("push"))
		case "qrep":
			var k int
			fmt.Sscanf(f[1], "%d", &k)
			c := w.qw.ch(k)
			select {
			case <-c:
			default:
				close(c)
			}
			in = VL(VS("qrep"), VN(int64(k)))
		case "close", "close2", "pclose":
			if !w.closeBegan {
				w.closeBegan = true
				for k := range w.ins {
					if w.pw.isStarted(k) {
						enteredBefore[k] = true
					}
				}
				for k := range w.outs {
					issuedBefore[k] = true
				}
			}
			if f[0] == "pclose" {
				if w.pclosed {
					in = VL(VS("close2"))
					w.closeLike(func() { w.ps.Close() }, true)
				} else {
					w.pclosed = true
					w.pcloseExpect = w.ps.Health()
					w.closeLike(func() { w.P.Close(); atomic.StoreInt32(&w.pcloseRet, 1) }, false)
					in = VL(VS("pclose"))
				}
			} else {
				w.closeLike(func() { w.ps.Close() }, true)
				in = VL(VS(f[0]))
			}
			if w.age {
				time.Sleep(ageWait) // the handlers entered before outlive the context age
			}
		case "relrun":
			for k := range w.ins {
				if w.pw.isStarted(k) && !w.released[k] {
					w.released[k] = true
					close(w.pw.ch(k))
					break
				}
			}
			in = VL(VS("relrun"))
		case "relpre":
			w.g.Release("call.prereply", w.ps)
			in = VL(VS("relpre"))
		case "relpost":
			for w.g.Release("call.postreply", w.ps) {
			}
			in = VL(VS("relpost"))
		case "offpost":
			w.g.Disarm("call.postreply", w.ps)
			in = VL(VS("offpost"))
		case "armgot":
			w.g.Arm("read.got", w.ps)
			in = VL(VS("armgot"))
		case "relgot":
			w.g.Disarm("read.got", w.ps)
			in = VL(VS("relgot"))
		case "lost":
			w.qconn.Close()
			lost = true
			in = VL(VS("lost"))
		case "stallw":
			if w.stall == nil || !w.stall.Parked() || w.stallRel {
				w.stall = w.pconn.StallNext(0)
				w.stallRel = false
			}
			in = VL(VS("stallw"))
		case "relw":
			if w.stall != nil {
				w.stall.Release()
				w.stallRel = true
			}
			in = VL(VS("relw"))
		}
		obs, ok := w.settle()
		ins = append(ins, in)
		outs = append(outs, obs)
		if f[0] == "in" && len(f) > 1 && f[1] == "nf" && !w.unk && w.g.Arrivals("call.prereply", w.ps) > preArr {
			// no user code runs for an unrouted method: its context has been entered when it
			// has reached the gate before its reply write
			k := len(w.ins) - 1
			w.pw.markStarted(k)
			w.released[k] = true
		}
		if !ok {
			st.Fail(idx, "quiescence", "no quiescent state within the watchdog after "+ev, human)
			break // one watchdog per case, the rest of the timeline is not run
		}
		// ---- the properties, on the implementation's own observations ----
		stn := erpc.VerifStatusName(erpc.VerifSessionStatus(w.ps))
		// C08: a Close() call that has returned => every handler entered before the first Close()
		// has delivered its genuine reply (unless the connection was cut)
		if atomic.LoadInt32(&w.sessCloseRet) > 0 && !lost {
			for k := range enteredBefore {
				c := w.ins[k]
				if want := genuineClass(w.kinds[k], w.unk); atomic.LoadInt32(&c.done) != 1 || c.cls != want {
					st.Fail(idx, "entered-reply", fmt.Sprintf("a Session.Close() call has returned but incoming call %d%s (handler entered before Close) has no genuine reply: done=%d class=%s want=%s", k, kindNote(w.kinds[k]), c.done, c.cls, want), human)
				}
			}
		}
		// C08: Peer.Close() has returned => a session that was healthy (hence indexed) when it was
		// called is closed and every handler entered before has delivered its genuine reply
		if atomic.LoadInt32(&w.pcloseRet) == 1 && w.pcloseExpect {
			if stn != "active-closed" && stn != "passive-closed" {
				st.Fail(idx, "peer-close", "Peer.Close() has returned but its healthy session was left in status "+stn, human)
			}
			if !lost {
				for k := range enteredBefore {
					c := w.ins[k]
					if want := genuineClass(w.kinds[k], w.unk); atomic.LoadInt32(&c.done) != 1 || c.cls != want {
						st.Fail(idx, "entered-reply", fmt.Sprintf("Peer.Close() has returned but incoming call %d%s (handler entered before) has no genuine reply: done=%d class=%s want=%s", k, kindNote(w.kinds[k]), c.done, c.cls, want), human)
					}
				}
			}
		}
		// C07: calls and pushes issued while the session is closing or closed fail fast
		for c, what := range windowOps {
			if atomic.LoadInt32(&c.done) == 1 {
				if c.cls != "connclosed" {
					st.Fail(idx, "fail-fast", fmt.Sprintf("%s issued while the session was %s ended with %s instead of connection-closed", what, "not ok", c.cls), human)
				}
				delete(windowOps, c)
			} else {
				st.Fail(idx, "fail-fast", fmt.Sprintf("%s issued while the session was not ok did not return at once (status %s)", what, stn), human)
				delete(windowOps, c)
			}
		}
		for _, k := range lateCalls {
			c := w.outs[k]
			if v := c.cmd.Load(); v != nil {
				cmd := v.(erpc.CallCmd)
				select {
				case <-cmd.Done():
					if cl := classOf(cmd.Status()); cl != "connclosed" {
						st.Fail(idx, "fail-fast", fmt.Sprintf("call %d issued while the session was not ok ended with %s", k, cl), human)
					}
				default:
					st.Fail(idx, "fail-fast", fmt.Sprintf("call %d issued while the session was not ok is pending", k), human)
				}
			}
		}
		lateCalls = nil
		if stn == "active-closing" || stn == "active-closed" || stn == "passive-closed" {
			if w.ps.Health() {
				st.Fail(idx, "absorbing", "session healthy although its status is "+stn, human)
			}
			select {
			case <-w.ps.CloseNotify():
			default:
				st.Fail(idx, "notify", "session is "+stn+" but CloseNotify has not fired", human)
			}
		}
	}
	// every timeline is drained: nothing may be left hanging
	for k := range enteredBefore {
		c := w.ins[k]
		if want := genuineClass(w.kinds[k], w.unk); !lost && (atomic.LoadInt32(&c.done) != 1 || c.cls != want) {
			st.Fail(idx, "entered-reply", fmt.Sprintf("incoming call %d%s (handler entered before Close) ended with %s instead of its genuine reply %s", k, kindNote(w.kinds[k]), c.cls, want), human)
		}
	}
	for k, c := range w.outs {
		v := c.cmd.Load()
		if v == nil {
			st.Fail(idx, "hang", fmt.Sprintf("AsyncCall of outgoing call %d never returned", k), human)
			continue
		}
		cmd := v.(erpc.CallCmd)
		select {
		case <-cmd.Done():
			if cl := classOf(cmd.Status()); issuedBefore[k] && !lost && cl != "ok" {
				st.Fail(idx, "own-call", fmt.Sprintf("outgoing call %d issued before Close ended with %s although the connection was not lost", k, cl), human)
			}
		default:
			st.Fail(idx, "hang", fmt.Sprintf("outgoing call %d never completed", k), human)
		}
	}
	if w.closeCalls > 0 && int(atomic.LoadInt32(&w.closeRet)) != w.closeCalls {
		st.Fail(idx, "close-returns", fmt.Sprintf("%d of %d Close() calls returned after everything had finished", atomic.LoadInt32(&w.closeRet), w.closeCalls), human)
	}
	return VL(ins...), VL(outs...)
}

func kindNote(kind string) string {
	switch kind {
	case "", "ok":
		return ""
	case "stat":
		return " (the handler returns an error status)"
	case "panic":
		return " (the handler panics)"
	case "unenc":
		return " (the handler's result cannot be encoded: the first reply write fails, an internal-server-error reply is owed)"
	case "big":
		return " (the handler's result exceeds the message size limit: the first reply write fails, an internal-server-error reply is owed)"
	case "nf":
		return " (no such service method)"
	case "veto":
		return " (a postReadCallBody hook refuses)"
	case "wpanic":
		return " (a preWriteReply hook panics)"
	case "ppanic":
		return " (a postWriteReply hook panics after the reply)"
	}
	return " (" + kind + ")"
}

// drain appends the events that finish every timeline: the stalled write continues, the reader
// is let go, every handler returns and writes, every remote handler replies.
func drain(s []string, nout int) []string {
	s = append(s, "relw", "relgot")
	for i := 0; i < 6; i++ {
		s = append(s, "relrun")
	}
	for i := 0; i < 6; i++ {
		s = append(s, "relpre")
	}
	s = append(s, "offpost")
	for i := 0; i < nout; i++ {
		s = append(s, fmt.Sprintf("qrep:%d", i))
	}
	return s
}

func genScript(cfg *RunCfg, st *Stats, window bool) []string {
	r := cfg.Rng
	var s []string
	nin, nout, npush := 0, 0, 0
	running, parked := 0, 0
	closes := 0
	gotArmed, stalled, lost := false, false, false
	n := 4 + r.Intn(10)
	// the kinds of incoming calls, the gate after the first reply write, the unknown-call handler
	post, unk := false, false
	if !window {
		post = r.Intn(4) == 0
		unk = r.Intn(10) == 0
	}
	proto := ""
	if !window && r.Intn(4) == 0 {
		proto = []string{"json", "pb"}[r.Intn(2)]
	}
	inEvent := func() string {
		if window || r.Intn(2) == 0 {
			return "in"
		}
		k := callKinds[r.Intn(len(callKinds))]
		if k == "big" && proto != "" {
			// (jsonproto and pbproto do not apply the size limit when they pack: only the raw
			// protocol refuses an oversize reply on the writing side)
			k = "unenc"
		}
		st.Count("in-kind:" + k)
		return "in:" + k
	}
	if window {
		// a handler in flight, then Close(): everything after is inside the closing window
		s = append(s, "in")
		nin, running = 1, 1
		if r.Intn(2) == 0 {
			s = append(s, "relrun")
			running, parked = 0, 1
		}
		s = append(s, []string{"close", "pclose", "close2"}[r.Intn(3)])
		closes = 1
		st.Count("ev:close")
	}
	for e := 0; e < n; e++ {
		k := r.Intn(100)
		if window && k < 45 {
			if r.Intn(2) == 0 {
				s = append(s, "push")
				npush++
				st.Count("ev:push-in-window")
			} else if nout < 4 {
				s = append(s, "out")
				nout++
				st.Count("ev:call-in-window")
			}
			continue
		}
		if post && r.Intn(10) == 0 {
			s = append(s, "relpost")
			st.Count("ev:release-after-first-write")
			continue
		}
		switch {
		case k < 18 && nin < 5 && !gotArmed:
			s = append(s, inEvent())
			nin++
			running++
			st.Count("ev:incoming-call")
		case k < 30 && nout < 4:
			s = append(s, "out")
			nout++
			st.Count("ev:outgoing-call")
		case k < 36 && npush < 4:
			s = append(s, "push")
			npush++
			st.Count("ev:push")
		case k < 46 && nout > 0:
			s = append(s, fmt.Sprintf("qrep:%d", r.Intn(nout)))
			st.Count("ev:remote-reply")
		case k < 58 && closes < 3:
			kind := "close"
			if closes > 0 {
				kind = []string{"close2", "pclose"}[r.Intn(2)]
			} else if r.Intn(4) == 0 {
				kind = "pclose"
			}
			s = append(s, kind)
			closes++
			st.Count("ev:" + kind)
		case k < 70 && running > 0:
			s = append(s, "relrun")
			running--
			parked++
			st.Count("ev:handler-returns")
		case k < 82 && parked > 0:
			s = append(s, "relpre")
			parked--
			st.Count("ev:reply-write")
		case k < 86 && !gotArmed && nin < 5:
			s = append(s, "armgot", inEvent())
			nin++
			gotArmed = true
			st.Count("ev:frame-read-not-counted")
		case k < 89 && gotArmed:
			s = append(s, "relgot")
			gotArmed = false
			running++
		case k < 94 && !stalled:
			s = append(s, "stallw")
			stalled = true
			st.Count("ev:write-stalls")
		case k < 97 && stalled:
			s = append(s, "relw")
			stalled = false
		case k < 100 && !lost && r.Intn(3) == 0:
			if stalled {
				// (hlib's scripted connection wakes a Write parked in a stall before it closes the
				// queues: whether the parked bytes still get through when the connection is cut is
				// a race of the test connection, so the stalled write is let go first)
				s = append(s, "relw")
				stalled = false
			}
			s = append(s, "lost")
			lost = true
			st.Count("ev:connection-lost")
		}
	}
	if closes == 0 {
		s = append(s, "close")
	}
	s = drain(s, nout)
	if post {
		s = append([]string{"cfg=post"}, s...)
		st.Count("cfg:post")
	}
	if proto != "" {
		s = append([]string{"cfg=proto:" + proto}, s...)
		st.Count("cfg:proto-" + proto)
	}
	if unk {
		s = append([]string{"cfg=unk"}, s...)
		st.Count("cfg:unk")
	}
	if !window {
		switch k := r.Intn(10); {
		case k < 2:
			s = append([]string{"cfg=take"}, s...)
		case k == 2 && !strings.Contains(strings.Join(s, " "), "stallw"):
			// (a write held back for longer than the context age fails by its deadline: the age
			// is no longer a configuration that changes nothing)
			s = append([]string{"cfg=age"}, s...)
		}
	}
	return s
}

var callKinds = []string{"stat", "panic", "unenc", "big", "nf", "veto", "wpanic", "ppanic"}

// kindScripts: for every kind of incoming call, Close()/Peer.Close() at every point of its
// timeline, with and without the gate after the first reply write.
func kindScripts() [][]string {
	var scripts [][]string
	put := func(cfg []string, base []string, closer []string, pos int) {
		sc := append([]string{}, cfg...)
		sc = append(sc, base[:pos]...)
		sc = append(sc, closer...)
		sc = append(sc, base[pos:]...)
		scripts = append(scripts, drain(sc, 0))
	}
	for _, k := range callKinds {
		in := "in:" + k
		// (for nf nothing parks in user code: relrun is a no-op there)
		base := []string{in, "relrun", "relpre"}
		for pos := 1; pos <= len(base); pos++ {
			put(nil, base, []string{"close"}, pos)
		}
		// the gate after the first write: Close() between the first write and what follows it
		basePost := []string{in, "relrun", "relpre", "relpost"}
		for pos := 1; pos <= len(basePost); pos++ {
			if k == "unenc" || k == "big" || pos == 3 {
				put([]string{"cfg=post"}, basePost, []string{"close"}, pos)
			}
		}
	}
	// Peer.Close and two closers between the failed first write and the substitute write
	for _, k := range []string{"unenc", "big"} {
		scripts = append(scripts, drain([]string{"cfg=post", "in:" + k, "relrun", "relpre", "pclose", "relpost"}, 0))
		scripts = append(scripts, drain([]string{"cfg=post", "in:" + k, "relrun", "relpre", "close", "close2", "relpost"}, 0))
		scripts = append(scripts, drain([]string{"in:" + k, "relrun", "pclose", "relpre"}, 0))
	}
	// the first write of an unencodable result queues behind a stalled write; Close() meanwhile
	scripts = append(scripts, drain([]string{"in", "in:unenc", "relrun", "relrun", "stallw", "relpre", "relpre", "close", "relw"}, 0))
	scripts = append(scripts, drain([]string{"cfg=post", "in", "in:big", "relrun", "relrun", "relpre", "relpost", "stallw", "relpre", "close", "relpre", "relw", "relpost"}, 0))
	// all kinds at once, one Close
	all := []string{"cfg=post"}
	for _, k := range []string{"unenc", "panic", "stat", "nf"} {
		all = append(all, "in:"+k)
	}
	all = append(all, "relrun", "relrun", "relrun", "relpre", "close", "relpre", "relpost", "relpre")
	scripts = append(scripts, drain(all, 0))
	// the unknown-call handler serves the unrouted method
	for pos := 1; pos <= 3; pos++ {
		put([]string{"cfg=unk"}, []string{"in:nf", "relrun", "relpre"}, []string{"close"}, pos)
	}
	// the other stream protocols: Close between the failed first write and the substitute write, a panic, a status
	for _, pr := range []string{"cfg=proto:json", "cfg=proto:pb"} {
		scripts = append(scripts, drain([]string{pr, "cfg=post", "in:unenc", "relrun", "relpre", "close", "relpost"}, 0))
		scripts = append(scripts, drain([]string{pr, "in:unenc", "relrun", "close", "relpre"}, 0))
		scripts = append(scripts, drain([]string{pr, "in:panic", "in:stat", "in", "out", "close", "relrun", "relrun", "relrun", "relpre", "relpre", "qrep:0"}, 1))
	}
	// the connection is cut between the failed first write and the substitute write
	scripts = append(scripts, drain([]string{"cfg=post", "in:unenc", "relrun", "relpre", "close", "lost", "relpost"}, 0))
	return scripts
}

func windowScripts() [][]string {
	return [][]string{
		drain([]string{"in", "close", "push", "out", "push"}, 1),
		drain([]string{"in", "relrun", "close", "push", "out"}, 1),
		drain([]string{"in", "pclose", "push", "close2", "push"}, 0),
	}
}

func fixedScripts() [][]string {
	var scripts [][]string
	// every placement of Close on the timeline of one incoming and one outgoing call,
	// for one closer, two overlapping closers and Peer.Close
	base := []string{"in", "out", "relrun", "relpre", "qrep:0"}
	for _, kind := range [][]string{{"close"}, {"close", "close2"}, {"pclose"}, {"close", "pclose"}} {
		for pos := 0; pos <= len(base); pos++ {
			sc := append([]string{}, base[:pos]...)
			sc = append(sc, kind...)
			sc = append(sc, base[pos:]...)
			scripts = append(scripts, drain(sc, 1))
		}
	}
	// the frame that was read but not counted
	scripts = append(scripts, drain([]string{"armgot", "in", "close", "relgot"}, 0))
	// Close() waiting for an outstanding outgoing call: the peer replies / the connection is lost / silence then loss
	scripts = append(scripts, drain([]string{"out", "close", "qrep:0"}, 1))
	scripts = append(scripts, drain([]string{"out", "close", "lost"}, 1))
	scripts = append(scripts, drain([]string{"out", "close", "close2", "lost"}, 1))
	scripts = append(scripts, drain([]string{"in", "out", "close", "relrun", "relpre", "lost"}, 1))
	// overlapping reply writes: A's write stalls holding the write lock, B queues behind it, Close()
	scripts = append(scripts, drain([]string{"in", "in", "relrun", "relrun", "stallw", "relpre", "relpre", "close", "relw"}, 0))
	scripts = append(scripts, drain([]string{"in", "in", "relrun", "relrun", "stallw", "relpre", "close", "relpre", "relw"}, 0))
	scripts = append(scripts, drain([]string{"in", "relrun", "stallw", "out", "relpre", "close", "relw", "qrep:0"}, 1))
	// calls and pushes inside the closing window (the three scripts of -mode window)
	scripts = append(scripts, drain([]string{"in", "close", "push", "out", "push"}, 1))
	scripts = append(scripts, drain([]string{"in", "relrun", "close", "push", "out"}, 1))
	scripts = append(scripts, drain([]string{"in", "pclose", "push", "close2", "push"}, 0))
	// configurations of the closing peer that must not change anything: a context age the held
	// handlers outlive, an id taken over from an older session of the same peer
	for _, c := range []string{"cfg=age", "cfg=take"} {
		for _, kind := range [][]string{{"close"}, {"pclose"}} {
			for _, pos := range []int{1, 2, 3} {
				sc := append([]string{c}, base[:pos]...)
				sc = append(sc, kind...)
				sc = append(sc, base[pos:]...)
				scripts = append(scripts, drain(sc, 1))
			}
		}
	}
	scripts = append(scripts, drain([]string{"cfg=age", "cfg=take", "in", "in", "relrun", "pclose", "push"}, 0))
	scripts = append(scripts, kindScripts()...)
	return scripts
}

// poolScripts: the goroutine pool is exactly used up (two readers and the held handlers) when
// Peer.Close() is called. Oracle-only: the machine has no pool, so these timelines are not sent
// to the model (until a slot is free Peer.Close() has not begun to close the session).
func poolScripts() [][]string {
	return [][]string{
		drain([]string{"cfg=pool:3", "in", "pclose"}, 0),
		drain([]string{"cfg=pool:4", "in", "in", "pclose"}, 0),
		drain([]string{"cfg=pool:4", "in", "in", "relrun", "pclose", "relpre"}, 0),
	}
}

func main() {
	mode := flag.String("mode", "timeline", "timeline|window")
	cfg := ParseFlags()
	Quiet()
	erpc.SetReadLimit(sizeLimit) // the limit a reply of kind big exceeds; every other frame is tiny
	st := NewStats("C08", cfg)
	st.Rule = "timelines over {incoming call (handler parks in the user handler, then before its reply write), outgoing call (remote handler parks), push, remote reply, Close(), a second overlapping Close(), Peer.Close(), handler returns, reply write proceeds, frame read but not yet counted, the next write stalls holding the write lock / continues, connection cut} + drain; fixed part: every placement of {Close, Close+Close, Peer.Close, Close+Peer.Close} on the timeline of one incoming and one outgoing call, Close waiting for an outgoing call with reply / loss, overlapping reply writes, calls and pushes inside the closing window; mode window: a handler in flight, a Close, then calls and pushes; distinct by script; every incoming call has a kind (result / error status / handler panic / result the codec refuses / result over the size limit / no such method / refusing hook / panicking preWriteReply hook / panicking postWriteReply hook), gate call.postreply (cfg=post) parks handlers after their first reply write so that Close falls between a failed first write and the substitute internal-server-error write; oracle-only probes: websocket server session closed with handlers in flight, redial-enabled client session whose in-flight handler pushes/calls on it while Close() waits"
	cw := NewCaseWriter(cfg)
	distinct := DistinctSet{}
	if *mode == "probes" {
		st.Evaluations = runProbes(st, 0)
		st.DistinctNontrivial = st.Evaluations
		st.Write(cfg, cw)
		return
	}
	scripts := fixedScripts()
	if *mode == "window" {
		scripts = windowScripts()
	}
	for len(scripts) < cfg.N {
		scripts = append(scripts, genScript(cfg, st, *mode == "window"))
	}
	if len(scripts) > cfg.N {
		scripts = scripts[:cfg.N]
	}
	for i, sc := range scripts {
		in, out := runCase(st, i, sc)
		cw.Add(in, out)
		key := strings.Join(sc, " ")
		distinct.Add(key)
		if len(st.Samples) < 4 {
			st.Samples = append(st.Samples, key)
		}
	}
	if *mode != "window" {
		for i, sc := range poolScripts() {
			runCase(st, len(scripts)+i, sc)
			distinct.Add(strings.Join(sc, " "))
		}
		st.Evaluations = len(poolScripts())
		// session kinds outside the machine (oracle-only): websocket server session, redial client
		np := runProbes(st, len(scripts)+len(poolScripts()))
		st.Evaluations += np
	}
	st.Evaluations += len(scripts)
	st.DistinctNontrivial = len(distinct)
	st.Write(cfg, cw)
}
