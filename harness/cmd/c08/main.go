// c08 places Session.Close() at every point of the request/handler/reply timeline of calls
// in flight in both directions and observes each call's status and where Close() stands.
package main

import (
	"fmt"
	"strings"
	"sync"
	"sync/atomic"
	"time"

	. "verifharness/hlib"

	erpc "github.com/henrylee2cn/erpc/v6"
)

const settleTimeout = 8 * time.Second

type work struct {
	mu      sync.Mutex
	started map[int]bool
	gate    map[int]chan struct{}
	nstart  int32
}

func newWork() *work { return &work{started: map[int]bool{}, gate: map[int]chan struct{}{}} }

func (w *work) ch(k int) chan struct{} {
	w.mu.Lock()
	defer w.mu.Unlock()
	c, ok := w.gate[k]
	if !ok {
		c = make(chan struct{})
		w.gate[k] = c
	}
	return c
}

func (w *work) enter(k int) {
	w.mu.Lock()
	w.started[k] = true
	w.mu.Unlock()
	atomic.AddInt32(&w.nstart, 1)
	<-w.ch(k)
}

func (w *work) isStarted(k int) bool {
	w.mu.Lock()
	defer w.mu.Unlock()
	return w.started[k]
}

var workOf = map[erpc.Peer]*work{}
var workMu sync.Mutex

// T is registered on both peers: /t/work parks inside the user handler until released.
type T struct{ erpc.CallCtx }

func (t *T) Work(arg *int) (int, *erpc.Status) {
	workMu.Lock()
	w := workOf[t.Peer()]
	workMu.Unlock()
	w.enter(*arg)
	return *arg, nil
}

func classOf(st *erpc.Status) string {
	if st.OK() {
		return "ok"
	}
	switch st.Code() {
	case erpc.CodeConnClosed:
		return "connclosed"
	case erpc.CodeWriteFailed:
		return "writefailed"
	case erpc.CodeBadMessage:
		return "badmsg"
	}
	return fmt.Sprintf("code%d", st.Code())
}

type inCall struct {
	done int32
	cls  string
}

type world struct {
	P, Q       erpc.Peer
	ps, qs     erpc.Session
	pw, qw     *work
	g          *GateCtl
	ins        []*inCall
	outs       []erpc.CallCmd
	closing    bool
	closed     chan struct{}
	released   map[int]bool // local handlers already released from the user handler
	gotArmed   bool
	handlerEnd int32 // order stamps: when local handlers finished their reply write
}

func newWorld() *world {
	w := &world{pw: newWork(), qw: newWork(), closed: make(chan struct{}), released: map[int]bool{}}
	w.P = erpc.NewPeer(erpc.PeerConfig{})
	w.Q = erpc.NewPeer(erpc.PeerConfig{})
	w.P.RouteCall(new(T))
	w.Q.RouteCall(new(T))
	workMu.Lock()
	workOf[w.P] = w.pw
	workOf[w.Q] = w.qw
	workMu.Unlock()
	pr := ServePair(w.P, w.Q)
	w.ps, w.qs = pr.SrvSess, pr.CliSess
	w.g = NewGateCtl()
	w.g.Arm("call.prereply", w.ps)
	return w
}

func (w *world) destroy() {
	w.g.Uninstall()
	for _, wk := range []*work{w.pw, w.qw} {
		wk.mu.Lock()
		for k, c := range wk.gate {
			select {
			case <-c:
			default:
				close(c)
			}
			_ = k
		}
		// handlers that start later must not block
		for k := 0; k < 64; k++ {
			if _, ok := wk.gate[k]; !ok {
				c := make(chan struct{})
				close(c)
				wk.gate[k] = c
			}
		}
		wk.mu.Unlock()
	}
	w.ps.Close()
	w.qs.Close()
	workMu.Lock()
	delete(workOf, w.P)
	delete(workOf, w.Q)
	workMu.Unlock()
	w.P.Close()
	w.Q.Close()
}

func (w *world) closerClass(d []string) string {
	if !w.closing {
		return "idle"
	}
	select {
	case <-w.closed:
		return "done"
	default:
	}
	if CountIn(d, "closeLocked", "Group).Wait") > 0 {
		return "blocked"
	}
	return "other"
}

func (w *world) sample(d []string) string {
	var in, out []string
	for _, c := range w.ins {
		if atomic.LoadInt32(&c.done) == 1 {
			in = append(in, VS(c.cls))
		} else {
			in = append(in, VS("pending"))
		}
	}
	for _, c := range w.outs {
		select {
		case <-c.Done():
			out = append(out, VS(classOf(c.Status())))
		default:
			out = append(out, VS("pending"))
		}
	}
	return VL(VS(w.closerClass(d)), VS(erpc.VerifStatusName(erpc.VerifSessionStatus(w.ps))),
		VN(int64(atomic.LoadInt32(&w.pw.nstart))), VL(in...), VL(out...))
}

// settle waits until nothing moves any more: Close() returned or is blocked in a wait,
// no local goroutine is between two parking places, the remote session has noticed a
// closed connection, and two samples taken apart agree.
func (w *world) settle(extra func() bool) (string, bool) {
	var s1 string
	ok := WaitUntil(settleTimeout, func() bool {
		d := GoroutineDump()
		if w.closerClass(d) == "other" {
			return false
		}
		if extra != nil && !extra() {
			return false
		}
		st := erpc.VerifStatusName(erpc.VerifSessionStatus(w.ps))
		if st == "passive-closing" || st == "preparing" {
			return false
		}
		if (st == "active-closed" || st == "passive-closed") && w.qs.Health() {
			return false
		}
		// local handlers: each is inside the user handler, parked before its reply, or gone
		running := CountIn(d, "handlerCtx).handle")
		inUser := CountIn(d, "main.(*work).enter")
		// (remote handlers also run in this process: count only this session's by gate/park)
		parked := w.g.Parked("call.prereply", w.ps)
		_ = running
		_ = inUser
		_ = parked
		s1 = w.sample(d)
		time.Sleep(4 * time.Millisecond)
		d2 := GoroutineDump()
		if w.sample(d2) != s1 {
			return false
		}
		time.Sleep(4 * time.Millisecond)
		return w.sample(GoroutineDump()) == s1
	})
	if !ok {
		s1 = w.sample(GoroutineDump())
	}
	return s1, ok
}

func runCase(st *Stats, idx int, script []string) (string, string) {
	w := newWorld()
	defer w.destroy()
	var ins, outs []string
	human := strings.Join(script, " ")
	closeReturnedAt := int32(0)
	var stamp int32
	enteredBefore := map[int]bool{} // incoming calls whose handler was entered before Close() was called
	issuedBefore := map[int]bool{}  // outgoing calls issued (and written) before Close() was called
	for _, ev := range script {
		f := strings.Split(ev, ":")
		var extra func() bool
		var in string
		switch f[0] {
		case "in":
			k := len(w.ins)
			c := &inCall{}
			w.ins = append(w.ins, c)
			go func() {
				var res int
				cmd := w.qs.Call("/t/work", k, &res)
				c.cls = classOf(cmd.Status())
				atomic.StoreInt32(&c.done, 1)
			}()
			gotBefore := w.g.Parked("read.got", w.ps)
			extra = func() bool {
				return w.pw.isStarted(k) || atomic.LoadInt32(&c.done) == 1 || w.g.Parked("read.got", w.ps) > gotBefore ||
					(w.gotArmed && w.g.Parked("read.got", w.ps) > 0)
			}
			in = VL(VS("in"))
		case "out":
			k := len(w.outs)
			var res int
			cmd := w.ps.AsyncCall("/t/work", k, &res, make(chan erpc.CallCmd, 4))
			w.outs = append(w.outs, cmd)
			extra = func() bool {
				select {
				case <-cmd.Done():
					return true
				default:
				}
				return w.qw.isStarted(k)
			}
			in = VL(VS("out"))
		case "qrep":
			var k int
			fmt.Sscanf(f[1], "%d", &k)
			c := w.qw.ch(k)
			select {
			case <-c:
			default:
				close(c)
			}
			cmd := w.outs[k]
			started := w.qw.isStarted(k)
			extra = func() bool {
				if !started {
					return true
				}
				select {
				case <-cmd.Done():
					return true
				default:
				}
				// the reply cannot be taken in: reader parked before counting a frame, or gone
				stn := erpc.VerifStatusName(erpc.VerifSessionStatus(w.ps))
				return w.g.Parked("read.got", w.ps) > 0 || (stn != "ok" && stn != "active-closing")
			}
			in = VL(VS("qrep"), VN(int64(k)))
		case "close":
			if !w.closing {
				for k := range w.ins {
					if w.pw.isStarted(k) {
						enteredBefore[k] = true
					}
				}
				for k := range w.outs {
					issuedBefore[k] = true
				}
				w.closing = true
				go func() {
					w.ps.Close()
					closeReturnedAt = atomic.AddInt32(&stamp, 1)
					close(w.closed)
				}()
			}
			in = VL(VS("close"))
		case "relrun":
			// the oldest local handler still inside the user handler returns
			pick := -1
			for k := range w.ins {
				if w.pw.isStarted(k) && !w.released[k] {
					pick = k
					break
				}
			}
			if pick >= 0 {
				before := w.g.Arrivals("call.prereply", w.ps)
				w.released[pick] = true
				close(w.pw.ch(pick))
				extra = func() bool { return w.g.Arrivals("call.prereply", w.ps) > before }
			}
			in = VL(VS("relrun"))
		case "relpre":
			if w.g.Parked("call.prereply", w.ps) > 0 {
				before := w.g.Arrivals("call.postreply", w.ps)
				w.g.Release("call.prereply", w.ps)
				extra = func() bool { return w.g.Arrivals("call.postreply", w.ps) > before }
			}
			in = VL(VS("relpre"))
		case "armgot":
			w.g.Arm("read.got", w.ps)
			w.gotArmed = true
			in = VL(VS("armgot"))
		case "relgot":
			w.g.Disarm("read.got", w.ps)
			w.gotArmed = false
			in = VL(VS("relgot"))
		}
		obs, ok := w.settle(extra)
		if !ok {
			st.Fail(idx, "quiescence", "no quiescent state within the watchdog after "+ev, human)
		}
		ins = append(ins, in)
		outs = append(outs, obs)
		// the property on the implementation's own observations: once Close() has returned,
		// every handler entered before it began has delivered its genuine reply
		select {
		case <-w.closed:
			for k := range enteredBefore {
				c := w.ins[k]
				if atomic.LoadInt32(&c.done) != 1 || c.cls != "ok" {
					st.Fail(idx, "entered-reply", fmt.Sprintf("Close() returned but incoming call %d (handler entered before Close) has no genuine reply: done=%d class=%s", k, c.done, c.cls), human)
				}
			}
		default:
		}
	}
	_ = closeReturnedAt
	// the connection is never lost in these timelines and every timeline is drained
	for k := range enteredBefore {
		c := w.ins[k]
		if atomic.LoadInt32(&c.done) != 1 || c.cls != "ok" {
			st.Fail(idx, "entered-reply", fmt.Sprintf("incoming call %d (handler entered before Close) ended with %s", k, c.cls), human)
		}
	}
	for k := range issuedBefore {
		c := w.outs[k]
		select {
		case <-c.Done():
			if cl := classOf(c.Status()); cl != "ok" {
				st.Fail(idx, "own-call", fmt.Sprintf("outgoing call %d issued before Close ended with %s although the connection was not lost", k, cl), human)
			}
		default:
			st.Fail(idx, "own-call", fmt.Sprintf("outgoing call %d issued before Close never completed", k), human)
		}
	}
	if w.closing {
		select {
		case <-w.closed:
		case <-time.After(settleTimeout):
			st.Fail(idx, "close-returns", "Close() did not return after every handler and call had finished", human)
		}
	}
	return VL(ins...), VL(outs...)
}

// oracle on the implementation alone, evaluated by a second pass over a finished case: the
// harness replays the script's intent instead of the model (which handlers were entered
// before Close began) - see runChecked.
func runChecked(st *Stats, idx int, script []string) (string, string) {
	in, out := runCase(st, idx, script)
	return in, out
}

func genScript(cfg *RunCfg, st *Stats) []string {
	r := cfg.Rng
	var s []string
	nin, nout := 0, 0
	running, parked := 0, 0
	closed := false
	gotArmed := false
	n := 4 + r.Intn(10)
	for e := 0; e < n; e++ {
		k := r.Intn(100)
		switch {
		case k < 22 && nin < 5 && !gotArmed:
			s = append(s, "in")
			nin++
			running++
			st.Count("ev:incoming-call")
		case k < 36 && nout < 4:
			s = append(s, "out")
			nout++
			st.Count("ev:outgoing-call")
		case k < 50 && nout > 0:
			s = append(s, fmt.Sprintf("qrep:%d", r.Intn(nout)))
			st.Count("ev:remote-reply")
		case k < 62 && !closed:
			s = append(s, "close")
			closed = true
			st.Count("ev:close")
		case k < 78 && running > 0:
			s = append(s, "relrun")
			running--
			parked++
			st.Count("ev:handler-returns")
		case k < 92 && parked > 0:
			s = append(s, "relpre")
			parked--
			st.Count("ev:reply-write")
		case k < 95 && !gotArmed && nin < 5:
			s = append(s, "armgot", "in")
			nin++
			gotArmed = true
			st.Count("ev:frame-read-not-counted")
		case gotArmed:
			s = append(s, "relgot")
			gotArmed = false
			running++
		default:
			e--
			if len(s) > 30 {
				e = n
			}
		}
	}
	if !closed {
		s = append(s, "close")
	}
	if gotArmed {
		s = append(s, "relgot")
	}
	// drain: everything parked is released, every remote handler replies
	for i := 0; i < 6; i++ {
		s = append(s, "relrun")
	}
	for i := 0; i < 6; i++ {
		s = append(s, "relpre")
	}
	for i := 0; i < nout; i++ {
		s = append(s, fmt.Sprintf("qrep:%d", i))
	}
	return s
}

func main() {
	cfg := ParseFlags()
	Quiet()
	st := NewStats("C08", cfg)
	st.Rule = "timelines of 4..14 events + drain over {incoming call (handler parks inside the user handler, then before its reply write), outgoing call (remote handler parks), remote reply, Close(), handler returns, reply write proceeds, frame read but not yet counted}; distinct by script; non-trivial = Close() with at least one call in flight"
	cw := NewCaseWriter(cfg)
	distinct := DistinctSet{}
	var scripts [][]string
	// every placement of Close on the timeline of one incoming and one outgoing call
	base := []string{"in", "out", "relrun", "relpre", "qrep:0"}
	for pos := 0; pos <= len(base); pos++ {
		sc := append([]string{}, base[:pos]...)
		sc = append(sc, "close")
		sc = append(sc, base[pos:]...)
		sc = append(sc, "relrun", "relpre", "qrep:0")
		scripts = append(scripts, sc)
	}
	scripts = append(scripts, []string{"armgot", "in", "close", "relgot", "relrun", "relpre"})
	for len(scripts) < cfg.N {
		scripts = append(scripts, genScript(cfg, st))
	}
	scripts = scripts[:cfg.N]
	for i, sc := range scripts {
		in, out := runChecked(st, i, sc)
		cw.Add(in, out)
		key := strings.Join(sc, " ")
		distinct.Add(key)
		if len(st.Samples) < 4 {
			st.Samples = append(st.Samples, key)
		}
	}
	st.Evaluations = len(scripts)
	st.DistinctNontrivial = len(distinct)
	st.Write(cfg, cw)
}
