// Oracle-only schedules of C08 on session kinds the machine does not model: a server-side
// websocket session (mixer/websocket) closed locally while a handler is in flight, and a client
// session with redial enabled whose in-flight handler uses the session while Close() waits for it.
// Each has its own oracle key; nothing here is sent to the model.
package main

import (
	"fmt"
	"net"
	"net/http"
	"strings"
	"sync"
	"sync/atomic"
	"time"

	. "verifharness/hlib"

	erpc "github.com/henrylee2cn/erpc/v6"
	ws "github.com/henrylee2cn/erpc/v6/mixer/websocket"
)

const probeWatchdog = 3 * time.Second

// probeHandlers: /p/hold parks until released; what it does next is in the argument:
// "" returns; "push" / "call" use the handler's own session first (the outcome is recorded).
type probeWorld struct {
	mu       sync.Mutex
	entered  map[int]bool
	gate     map[int]chan struct{}
	usedStat map[int]string // class of the Push/Call the handler made on its own session
	returned map[int]bool
}

func newProbeWorld() *probeWorld {
	return &probeWorld{entered: map[int]bool{}, gate: map[int]chan struct{}{}, usedStat: map[int]string{}, returned: map[int]bool{}}
}

func (p *probeWorld) ch(k int) chan struct{} {
	p.mu.Lock()
	defer p.mu.Unlock()
	c, ok := p.gate[k]
	if !ok {
		c = make(chan struct{})
		p.gate[k] = c
	}
	return c
}

func (p *probeWorld) release(k int) {
	c := p.ch(k)
	select {
	case <-c:
	default:
		close(c)
	}
}

func (p *probeWorld) get(m map[int]bool, k int) bool {
	p.mu.Lock()
	defer p.mu.Unlock()
	return m[k]
}

type HoldArg struct {
	K   int
	Use string
}

var probeOf sync.Map // erpc.Peer -> *probeWorld

type P struct{ erpc.CallCtx }

func (t *P) Hold(arg *HoldArg) (int, *erpc.Status) {
	v, _ := probeOf.Load(t.Peer())
	p := v.(*probeWorld)
	p.mu.Lock()
	p.entered[arg.K] = true
	p.mu.Unlock()
	<-p.ch(arg.K)
	switch arg.Use {
	case "push":
		s := t.Session().Push("/p/nopush", "x")
		p.mu.Lock()
		p.usedStat[arg.K] = classOf(s)
		p.mu.Unlock()
	case "call":
		var r int
		s := t.Session().Call("/p/nocall", 1, &r).Status()
		p.mu.Lock()
		p.usedStat[arg.K] = classOf(s)
		p.mu.Unlock()
	}
	p.mu.Lock()
	p.returned[arg.K] = true
	p.mu.Unlock()
	return arg.K, nil
}

type probeCall struct {
	done int32
	cls  string
}

func startHold(sess erpc.Session, k int, use string) *probeCall {
	c := &probeCall{}
	go func() {
		var res int
		cmd := sess.Call("/p/hold", &HoldArg{K: k, Use: use}, &res)
		c.cls = classOf(cmd.Status())
		atomic.StoreInt32(&c.done, 1)
	}()
	return c
}

func (c *probeCall) String() string {
	if atomic.LoadInt32(&c.done) == 1 {
		return c.cls
	}
	return "pending"
}

// wsProbe: a websocket server session with n handlers in flight is closed locally (Session.Close
// or Peer.Close); the handlers return afterwards. C08: each call gets its genuine reply and the
// Close returns after that.
func wsProbe(st *Stats, idx int, how string, n int) {
	human := fmt.Sprintf("websocket server session, %d handler(s) in flight, %s, then the handlers return", n, how)
	srv := erpc.NewPeer(erpc.PeerConfig{})
	pw := newProbeWorld()
	probeOf.Store(srv, pw)
	defer probeOf.Delete(srv)
	srv.RouteCall(new(P))
	lis, err := net.Listen("tcp", "127.0.0.1:0")
	Must(err)
	defer lis.Close()
	go http.Serve(lis, ws.NewServeHandler(srv, nil))
	cli := ws.NewClient("/", erpc.PeerConfig{})
	sess, stat := cli.Dial(lis.Addr().String())
	if !stat.OK() {
		st.Fail(idx, "probe-setup", "websocket dial failed: "+stat.String(), human)
		return
	}
	defer cli.Close()
	var calls []*probeCall
	for k := 0; k < n; k++ {
		calls = append(calls, startHold(sess, k, ""))
	}
	if !WaitUntil(probeWatchdog, func() bool {
		for k := 0; k < n; k++ {
			if !pw.get(pw.entered, k) {
				return false
			}
		}
		return true
	}) {
		st.Fail(idx, "probe-setup", "handlers not entered", human)
		return
	}
	var srvSess erpc.Session
	srv.RangeSession(func(s erpc.Session) bool { srvSess = s; return false })
	if srvSess == nil {
		st.Fail(idx, "probe-setup", "no server session", human)
		return
	}
	var closeRet int32
	go func() {
		if how == "Peer.Close()" {
			srv.Close()
		} else {
			srvSess.Close()
		}
		atomic.StoreInt32(&closeRet, 1)
	}()
	// Close() is now waiting for the handlers; leave everything alone until nothing moves
	WaitUntil(probeWatchdog, func() bool { return erpc.VerifStatusName(erpc.VerifSessionStatus(srvSess)) == "active-closing" })
	quiet(300 * time.Millisecond)
	early := atomic.LoadInt32(&closeRet) == 1
	for k := 0; k < n; k++ {
		pw.release(k)
	}
	WaitUntil(probeWatchdog, func() bool {
		for _, c := range calls {
			if atomic.LoadInt32(&c.done) != 1 {
				return false
			}
		}
		return atomic.LoadInt32(&closeRet) == 1
	})
	if early {
		st.Fail(idx, "entered-reply", "Close returned while the handlers entered before it were still running", human)
	}
	for k, c := range calls {
		if c.String() != "ok" {
			st.Fail(idx, "ws-close-cuts-reply", fmt.Sprintf("call %d, whose handler was entered before the local close of its websocket server session, ended with %s instead of its reply", k, c.String()), human)
		}
	}
	if atomic.LoadInt32(&closeRet) != 1 {
		st.Fail(idx, "close-returns", "the close of the websocket server session never returned", human)
	}
	st.Count("probe:websocket-server-close")
}

// quiet waits until no goroutine of the library or of net/http's websocket serving is runnable
// for the given time (bounded).
func quiet(d time.Duration) {
	since := time.Now()
	WaitUntil(probeWatchdog, func() bool {
		if busy(GoroutineDump()) {
			since = time.Now()
			return false
		}
		return time.Since(since) >= d
	})
}

// redialProbe: a client session of a peer with RedialTimes>0; the server calls it, the handler
// parks; Close() on the client session; the handler then pushes / calls on its own session (which
// must fail fast: the session is closing) and returns. C08: the server's call gets its genuine
// reply and Close() returns.
func redialProbe(st *Stats, idx int, use string, redial int) {
	human := fmt.Sprintf("client session (RedialTimes %d), one handler in flight, Session.Close(), then the handler does %q on its own session and returns", redial, use)
	srv := erpc.NewPeer(erpc.PeerConfig{})
	l, err := Listen(srv, "")
	Must(err)
	defer l.Close()
	cli := erpc.NewPeer(erpc.PeerConfig{RedialTimes: int32(redial), RedialInterval: time.Millisecond, DialTimeout: 2 * time.Second})
	pw := newProbeWorld()
	probeOf.Store(cli, pw)
	defer probeOf.Delete(cli)
	cli.RouteCall(new(P))
	sess, stat := cli.Dial(l.Addr)
	if !stat.OK() {
		st.Fail(idx, "probe-setup", "dial failed: "+stat.String(), human)
		return
	}
	var srvSess erpc.Session
	if !WaitUntil(probeWatchdog, func() bool {
		srv.RangeSession(func(s erpc.Session) bool { srvSess = s; return false })
		return srvSess != nil
	}) {
		st.Fail(idx, "probe-setup", "no server session", human)
		return
	}
	c := startHold(srvSess, 0, use)
	if !WaitUntil(probeWatchdog, func() bool { return pw.get(pw.entered, 0) }) {
		st.Fail(idx, "probe-setup", "handler not entered", human)
		return
	}
	var closeRet int32
	go func() { sess.Close(); atomic.StoreInt32(&closeRet, 1) }()
	WaitUntil(probeWatchdog, func() bool { return erpc.VerifStatusName(erpc.VerifSessionStatus(sess)) == "active-closing" })
	quiet(50 * time.Millisecond)
	early := atomic.LoadInt32(&closeRet) == 1
	pw.release(0)
	ok := WaitUntil(probeWatchdog, func() bool {
		return atomic.LoadInt32(&c.done) == 1 && atomic.LoadInt32(&closeRet) == 1
	})
	if early {
		st.Fail(idx, "entered-reply", "Close returned while the handler entered before it was still running", human)
	}
	if !ok {
		where := ""
		for _, g := range GoroutineDump() {
			if strings.Contains(g, "redialForClient") && strings.Contains(g, "Mutex).Lock") {
				where = "; the handler is blocked in session.redialForClient on the session lock that Close() holds"
			}
		}
		st.Fail(idx, "redial-close-deadlock", fmt.Sprintf("handler returned=%v, the server's call: %s, Close() returned=%v%s", pw.get(pw.returned, 0), c.String(), atomic.LoadInt32(&closeRet) == 1, where), human)
	} else {
		if c.String() != "ok" {
			st.Fail(idx, "entered-reply", "the call whose handler was entered before Close ended with "+c.String(), human)
		}
		pw.mu.Lock()
		u := pw.usedStat[0]
		pw.mu.Unlock()
		if use != "" && u != "connclosed" {
			st.Fail(idx, "fail-fast", fmt.Sprintf("%s issued by the handler while its session was closing ended with %s", use, u), human)
		}
	}
	st.Count("probe:redial-client-close")
	// unblock what can be unblocked
	l.KillConns()
	pw.release(0)
}

func runProbes(st *Stats, base int) int {
	n := 0
	for _, how := range []string{"Session.Close()", "Peer.Close()"} {
		for _, k := range []int{1, 2} {
			wsProbe(st, base+n, how, k)
			n++
		}
	}
	for _, redial := range []int{0, 1} {
		for _, use := range []string{"", "push", "call"} {
			redialProbe(st, base+n, use, redial)
			n++
		}
	}
	return n
}
