// c03 drives the receive side of a served session with a scripted raw peer: every frame
// class (all 256 type bytes, routes, bodies, plugin verdict positions, handler outcomes,
// reply-write failures, context expiry, goroutine-pool exhaustion, closing sessions) and
// records what comes back on the wire and how often each handler ran.
package main

import (
	"encoding/binary"
	"errors"
	"fmt"
	"net"
	"os"
	"strconv"
	"strings"
	"sync"
	"sync/atomic"
	"time"

	. "verifharness/hlib"

	erpc "github.com/henrylee2cn/erpc/v6"
	"github.com/henrylee2cn/erpc/v6/proto/httproto"
	"github.com/henrylee2cn/erpc/v6/proto/jsonproto"
	"github.com/henrylee2cn/erpc/v6/proto/pbproto"
	"github.com/henrylee2cn/erpc/v6/socket"
	"github.com/henrylee2cn/erpc/v6/xfer"
)

// ---------------------------------------------------------------- case description

type statusSpec struct {
	code       int32
	msg, cause string
}

type verdictSpec struct {
	kind string // "stat" | "panic"
	st   statusSpec
	pval string // panic text
	// the stage is a chain of 3 plugins: the one at pos gives this verdict, those before it
	// pass (nil or a non-nil OK status), decoy is what the LAST plugin would answer if it were
	// (wrongly) still asked after a refusal
	pos   int
	decoy *verdictSpec
}

type handlerSpec struct {
	slow bool   // sleep past the session's context age first, then behave as kind says
	kind string // ret | status | okstatus | panic | unmarshalable | sleep | park | failpack
	st   statusSpec
	pval string
}

type caseCfg struct {
	id       int
	seq      int32
	ty       byte
	smEmpty  bool
	route    string // known | unknown | none
	body     string // empty | valid | badjson | codec0 | unkcodec
	verdicts map[string]verdictSpec
	handler  handlerSpec
	env      string // normal | ctxexp | closed | notgoon | nospawn | prh | hdrerr | hdrpanic
	rawBytes []byte // for hdrerr / hdrpanic

	mu             sync.Mutex
	chainContinued []string
	invoked        []string
	parkCh   chan struct{}
	entered  chan struct{}
	unparked bool
}

func (c *caseCfg) invoke(kind string) {
	c.mu.Lock()
	c.invoked = append(c.invoked, kind)
	c.mu.Unlock()
}

var cases sync.Map // id -> *caseCfg

func lookupCase(meta []byte) *caseCfg {
	if len(meta) == 0 {
		return nil
	}
	id, err := strconv.Atoi(string(meta))
	if err != nil {
		return nil
	}
	v, ok := cases.Load(id)
	if !ok {
		return nil
	}
	return v.(*caseCfg)
}

// ---------------------------------------------------------------- the verdict plugin

type peeker interface{ PeekMeta(string) []byte }

type vplugin struct{ idx int }

var preReadHeaderVerdict atomic.Value // *verdictSpec or nil-valued

func (p vplugin) Name() string { return "verdict-" + strconv.Itoa(p.idx) }

func doVerdict(v verdictSpec) *erpc.Status {
	if v.kind == "panic" {
		panic(v.pval)
	}
	return erpc.NewStatus(v.st.code, v.st.msg, v.st.cause)
}

func (v verdictSpec) refuses() bool { return v.kind == "panic" || v.st.code != 0 }

func act(ctx interface{}, stage string, idx int) *erpc.Status {
	pk, ok := ctx.(peeker)
	if !ok {
		return nil
	}
	c := lookupCase(pk.PeekMeta("vf"))
	if c == nil {
		return nil
	}
	pass := func() *erpc.Status {
		if idx%2 == 1 {
			return erpc.NewStatus(0, "pass", "")
		}
		return nil
	}
	v, ok := c.verdicts[stage]
	if !ok {
		return pass()
	}
	c.mu.Lock()
	if v.refuses() && idx > v.pos {
		c.chainContinued = append(c.chainContinued, fmt.Sprintf("%s:%d>%d", stage, idx, v.pos))
	}
	c.mu.Unlock()
	switch {
	case idx < v.pos:
		return pass()
	case idx == v.pos:
		return doVerdict(v)
	}
	if v.decoy != nil && idx == 2 {
		return doVerdict(*v.decoy)
	}
	return nil
}

func (p vplugin) PreReadHeader(erpc.PreCtx) error {
	if p.idx != 0 {
		return nil
	}
	if v, _ := preReadHeaderVerdict.Load().(*verdictSpec); v != nil {
		if v.kind == "panic" {
			panic(v.pval)
		}
		return errors.New("pre-read-header veto")
	}
	return nil
}
func (p vplugin) PostReadCallHeader(c erpc.ReadCtx) *erpc.Status { return act(c, "prch", p.idx) }
func (p vplugin) PreReadCallBody(c erpc.ReadCtx) *erpc.Status    { return act(c, "prcb", p.idx) }
func (p vplugin) PostReadCallBody(c erpc.ReadCtx) *erpc.Status   { return act(c, "porcb", p.idx) }
func (p vplugin) PreWriteReply(c erpc.WriteCtx) *erpc.Status     { return act(c, "pwr", p.idx) }
func (p vplugin) PostWriteReply(c erpc.WriteCtx) *erpc.Status    { return act(c, "powr", p.idx) }
func (p vplugin) PostReadPushHeader(c erpc.ReadCtx) *erpc.Status { return act(c, "prph", p.idx) }
func (p vplugin) PreReadPushBody(c erpc.ReadCtx) *erpc.Status    { return act(c, "prpb", p.idx) }
func (p vplugin) PostReadPushBody(c erpc.ReadCtx) *erpc.Status   { return act(c, "porpb", p.idx) }

// ---------------------------------------------------------------- handlers

type Arg struct {
	A int `json:"a"`
}
type Res struct {
	R int    `json:"r"`
	S string `json:"s,omitempty"`
}

type panicMarshaler struct{ text string }

func (p panicMarshaler) MarshalJSON() ([]byte, error) { panic(p.text) }

var failPack int32 // the 'F' transfer filter refuses to pack while set

type failFilter struct{}

func (failFilter) ID() byte     { return 'F' }
func (failFilter) Name() string { return "vfail" }
func (failFilter) OnPack(b []byte) ([]byte, error) {
	if atomic.LoadInt32(&failPack) != 0 {
		return nil, errors.New("vfail: refusing to pack")
	}
	return b, nil
}
func (failFilter) OnUnpack(b []byte) ([]byte, error) { return b, nil }

func runHandler(c *caseCfg, kind string) (interface{}, *erpc.Status) {
	if c == nil {
		return &Res{R: -1}, nil
	}
	c.invoke(kind)
	h := c.handler
	if h.slow {
		time.Sleep(100 * time.Millisecond)
	}
	switch h.kind {
	case "status":
		return nil, erpc.NewStatus(h.st.code, h.st.msg, h.st.cause)
	case "okstatus":
		return &Res{R: 2}, erpc.NewStatus(0, h.st.msg, h.st.cause)
	case "panic":
		panic(h.pval)
	case "unmarshalable":
		return make(chan int), nil
	case "encodepanic":
		// the result's encoder panics while the reply is being packed
		return panicMarshaler{h.pval}, nil
	case "oversize":
		// a reply that packs to more than the message size limit (lowered for this case)
		socket.SetMessageSizeLimit(2048)
		close(c.entered)
		return &Res{R: 9, S: strings.Repeat("x", 4096)}, nil
	case "sleep":
		time.Sleep(150 * time.Millisecond)
		return &Res{R: 3}, nil
	case "park":
		close(c.entered)
		<-c.parkCh
		return &Res{R: 4}, nil
	case "failpack":
		atomic.StoreInt32(&failPack, 1)
		return nil, erpc.NewStatus(h.st.code, h.st.msg, h.st.cause)
	}
	return &Res{R: 1}, nil
}

func CH(ctx erpc.CallCtx, a *Arg) (interface{}, *erpc.Status) {
	return runHandler(lookupCase(ctx.PeekMeta("vf")), "known")
}

func PH(ctx erpc.PushCtx, a *Arg) *erpc.Status {
	_, st := runHandler(lookupCase(ctx.PeekMeta("vf")), "known")
	return st
}

func Ping(ctx erpc.CallCtx, a *[]byte) ([]byte, *erpc.Status) { return []byte("pong"), nil }

func unknownCall(ctx erpc.UnknownCallCtx) (interface{}, *erpc.Status) {
	return runHandler(lookupCase(ctx.PeekMeta("vf")), "unknown")
}

func unknownPush(ctx erpc.UnknownPushCtx) *erpc.Status {
	_, st := runHandler(lookupCase(ctx.PeekMeta("vf")), "unknown")
	return st
}

// ---------------------------------------------------------------- servers

var (
	peerPlain, peerUnknown erpc.Peer
	callPath, pushPath     string
	pingPath               string
	readGot                sync.Map // erpc.Session -> *int32
)

func setup() {
	Quiet()
	xfer.Reg(failFilter{})
	mk := func(unknown bool) erpc.Peer {
		p := erpc.NewPeer(erpc.PeerConfig{}, vplugin{0}, vplugin{1}, vplugin{2})
		callPath = p.RouteCallFunc(CH)
		pushPath = p.RoutePushFunc(PH)
		pingPath = p.RouteCallFunc(Ping)
		if unknown {
			p.SetUnknownCall(unknownCall)
			p.SetUnknownPush(unknownPush)
		}
		return p
	}
	peerPlain = mk(false)
	peerUnknown = mk(true)
	erpc.VerifSetGate(func(point string, s erpc.Session) {
		if point == "read.got" {
			v, _ := readGot.LoadOrStore(s, new(int32))
			atomic.AddInt32(v.(*int32), 1)
		}
		if point == "close.presock" {
			if t, _ := parkTarget.Load().(*erpc.Session); t != nil && *t == s {
				parkedCh <- struct{}{}
				<-releaseCh
			}
		}
	})
}

func gotCount(s erpc.Session) int32 {
	v, ok := readGot.Load(s)
	if !ok {
		return 0
	}
	return atomic.LoadInt32(v.(*int32))
}

// ---------------------------------------------------------------- sending a case

const pingSeq = 0x7ffffff0

func (c *caseCfg) serviceMethod() string {
	if c.smEmpty {
		return ""
	}
	isPush := c.ty == erpc.TypePush
	switch c.route {
	case "known":
		if isPush {
			return pushPath
		}
		return callPath
	}
	return "/no/such/route"
}

func (c *caseCfg) bodyAndCodec() ([]byte, byte) {
	switch c.body {
	case "valid":
		return []byte(`{"a":5}`), 'j'
	case "badjson":
		return []byte(`{{{`), 'j'
	case "codec0":
		return []byte(`{"a":5}`), 0
	case "unkcodec":
		return []byte(`{"a":5}`), 0x7f
	}
	return nil, 'j'
}

func (c *caseCfg) send(rp *RawPeer) error {
	if c.rawBytes != nil {
		_, err := rp.Conn.Write(c.rawBytes)
		return err
	}
	body, codecID := c.bodyAndCodec()
	return rp.Send(func(m socket.Message) {
		m.SetMtype(c.ty)
		m.SetSeq(c.seq)
		m.SetServiceMethod(c.serviceMethod())
		m.Meta().Set("vf", strconv.Itoa(c.id))
		m.SetBodyCodec(codecID)
		if body != nil {
			m.SetBody(body)
		}
		if c.handler.kind == "failpack" {
			m.XferPipe().Append('F')
		}
	})
}

func sendPing(rp *RawPeer) error {
	return rp.Send(func(m socket.Message) {
		m.SetMtype(erpc.TypeCall)
		m.SetSeq(pingSeq)
		m.SetServiceMethod(pingPath)
		m.SetBodyCodec('j')
	})
}

type reply struct {
	seq  int32
	ty   byte
	code int32
	msg  string
	cau  string
	body []byte
}

func toReply(m socket.Message) reply {
	r := reply{seq: m.Seq(), ty: m.Mtype()}
	if st := m.Status(); st != nil {
		r.code = st.Code()
		r.msg, r.cau = rawFields(st)
	}
	if b, ok := m.Body().(*[]byte); ok && b != nil {
		r.body = append([]byte(nil), *b...)
	}
	return r
}

// rawFields reads the stored msg and cause text of a status from its wire form
// code=N[&msg=Q][&cause=Q] (Msg() and Cause() substitute one for the other when empty).
func rawFields(st *erpc.Status) (msg, cause string) {
	for _, kv := range strings.Split(string(st.EncodeQuery()), "&") {
		i := strings.IndexByte(kv, '=')
		if i < 0 {
			continue
		}
		v := unquote(kv[i+1:])
		switch kv[:i] {
		case "msg":
			msg = v
		case "cause":
			cause = v
		}
	}
	return
}

func unquote(s string) string {
	var b []byte
	for i := 0; i < len(s); i++ {
		if s[i] == '%' && i+2 < len(s)+0 && i+2 <= len(s)-1+0 {
			if x, err := strconv.ParseUint(s[i+1:i+3], 16, 8); err == nil {
				b = append(b, byte(x))
				i += 2
				continue
			}
		}
		b = append(b, s[i])
	}
	return string(b)
}

// recvUntil reads frames until the ping reply or an error; returns frames and whether the
// connection ended.
func recvUntil(rp *RawPeer, stopAtPing bool, to time.Duration) (frames []reply, ended bool) {
	for {
		m, err := rp.Recv(to)
		if err != nil {
			return frames, true
		}
		r := toReply(m)
		if r.seq == pingSeq {
			if stopAtPing {
				return frames, false
			}
			continue
		}
		frames = append(frames, r)
	}
}

type observed struct {
	invoked      []string
	frames       []reply
	disconnected bool
}

const sessOK = "ok"

// selfClosing reports whether the session is closing or about to: its status has left "ok"
// or a goroutine that will close it exists (handle() closes with "go c.sess.Close()").
func selfClosing(sess erpc.Session) bool {
	// order matters: a closer that finishes after it was counted is still seen; one that
	// finished before has already changed the status
	n := closers()
	return n > 0 || erpc.VerifStatusName(erpc.VerifSessionStatus(sess)) != sessOK
}

// closers counts goroutines that are closing a session or were started by handle() to do so
// (before it first runs such a goroutine is only recognisable by its "created by" line).
func closers() int {
	return GoroutinesMatching("erpc/v6.(*session).Close") + GoroutinesMatching("created by github.com/henrylee2cn/erpc/v6.(*handlerCtx).handle")
}

// quiesce waits until no goroutine of a finished case is still closing its session, so that
// the next case cannot mistake it for its own.
func quiesce() {
	WaitUntil(10*time.Second, func() bool { return closers() == 0 })
}

// finish: all frames were sent and read by the server (ping answered) or the connection
// ended. Waits for the handlers, decides whether the session disconnected by itself, closes
// it otherwise, and drains the connection.
func finish(c []*caseCfg, sess erpc.Session, rp *RawPeer, frames []reply, ended bool) observedSet {
	disc := ended
	stuck := func(why string) observedSet {
		stuckCount++
		rp.Conn.Close()
		return observedSet{frames: frames, disconnected: disc, stuck: true, stuckWhy: why}
	}
	if !ended {
		if !waitHandlers(sess) {
			return stuck("handler contexts still running after " + caseWatchdog.String())
		}
		if selfClosing(sess) {
			disc = true
		} else {
			go sess.Close()
		}
		more, _, timedOut := recvUntilEOF(rp, caseWatchdog)
		frames = append(frames, more...)
		if timedOut {
			return stuck("the transport did not reach EOF after the session started closing")
		}
	}
	if !WaitUntil(caseWatchdog, func() bool { return !sess.Health() }) {
		return stuck("session still healthy after its transport ended")
	}
	if !waitHandlers(sess) {
		return stuck("handler contexts still running after the transport ended")
	}
	rp.Conn.Close()
	quiesce()
	return observedSet{frames: frames, disconnected: disc}
}

// recvUntilEOF drains the connection; timedOut = the read deadline passed before the end
func recvUntilEOF(rp *RawPeer, to time.Duration) (frames []reply, ended, timedOut bool) {
	for {
		m, err := rp.Recv(to)
		if err != nil {
			if ne, ok := err.(net.Error); ok && ne.Timeout() {
				return frames, true, true
			}
			return frames, true, false
		}
		r := toReply(m)
		if r.seq == pingSeq {
			continue
		}
		frames = append(frames, r)
	}
}

// protocols the scripted peer and the served session speak: the raw protocol in the quick
// tier; raw, jsonproto and pbproto in turn in the thorough tier
var (
	protoRotation = []erpc.ProtoFunc{nil}
	protoNames    = []string{"raw"}
	sessionCount  int
	lastProto     string
)

type observedSet struct {
	frames       []reply
	disconnected bool
	stuck        bool
	stuckWhy     string
}

// per-case watchdog: waiting for the handler contexts / for the end of the transport is
// bounded; a case that exceeds it is recorded (oracle failure) and after maxStuck of them the
// run stops generating, with its statistics written
const (
	caseWatchdog = 10 * time.Second
	maxStuck     = 2
)

var stuckCount int

func waitHandlers(sess erpc.Session) bool {
	done := make(chan struct{})
	go func() { erpc.VerifWaitHandlers(sess); close(done) }()
	select {
	case <-done:
		return true
	case <-time.After(caseWatchdog):
		return false
	}
}

func newSession(p erpc.Peer) (erpc.Session, *RawPeer) {
	cc, sc := TCPPair()
	k := sessionCount % len(protoRotation)
	sessionCount++
	lastProto = protoNames[k]
	var pfs []erpc.ProtoFunc
	var spf []socket.ProtoFunc
	if pf := protoRotation[k]; pf != nil {
		pfs = append(pfs, pf)
		spf = append(spf, socket.ProtoFunc(pf))
	}
	sess, st := p.ServeConn(sc, pfs...)
	if !st.OK() {
		Must(errors.New("ServeConn: " + st.String()))
	}
	return sess, NewRawPeer(cc, spf...)
}

func (c *caseCfg) peer() erpc.Peer {
	if c.route == "unknown" {
		return peerUnknown
	}
	return peerPlain
}

// runNormal: one frame, then a ping; env normal / ctxexp / prh / hdrerr / hdrpanic.
func runNormal(c *caseCfg) observedSet {
	if c.rawBytes != nil {
		// hand-made raw-protocol bytes
		saved := protoRotation
		protoRotation = []erpc.ProtoFunc{nil}
		defer func() { protoRotation = saved }()
	}
	if v, ok := c.verdicts["prh"]; ok {
		vv := v
		preReadHeaderVerdict.Store(&vv)
		defer preReadHeaderVerdict.Store((*verdictSpec)(nil))
	}
	sess, rp := newSession(c.peer())
	if c.env == "ctxexp" {
		sess.(interface{ SetContextAge(time.Duration) }).SetContextAge(30 * time.Millisecond)
	}
	c.send(rp)
	sendPing(rp)
	frames, ended := recvUntil(rp, true, 10*time.Second)
	return finish([]*caseCfg{c}, sess, rp, frames, ended)
}

// runOversize: the handler lowers the process-wide message size limit and returns a reply
// above it; the limit is restored once the handler context has finished (both reply writes
// are over) and only then are the frames read, so the scripted peer can read whatever reached
// the wire.
func runOversize(c *caseCfg) observedSet {
	saved := socket.MessageSizeLimit()
	defer socket.SetMessageSizeLimit(saved)
	sess, rp := newSession(c.peer())
	c.send(rp)
	select {
	case <-c.entered:
	case <-time.After(caseWatchdog):
		Must(errors.New("oversize: handler never entered"))
	}
	ok := waitHandlers(sess)
	socket.SetMessageSizeLimit(saved)
	if !ok {
		stuckCount++
		rp.Conn.Close()
		return observedSet{stuck: true, stuckWhy: "handler context still running after " + caseWatchdog.String()}
	}
	sendPing(rp)
	frames, ended := recvUntil(rp, true, 10*time.Second)
	return finish([]*caseCfg{c}, sess, rp, frames, ended)
}

// runHTTP: a well-formed HTTP request (httproto) whose X-Mtype header says CALL, PUSH or an
// unsupported type; written as text because httproto's own Pack only sends CALLs.
func httpRequest(path string, seq int32, ty byte, vf string, body string) []byte {
	req := "POST " + path + " HTTP/1.1\r\nX-Seq: " + strconv.Itoa(int(seq)) + "\r\nX-Mtype: " + strconv.Itoa(int(ty)) + "\r\n"
	if vf != "" {
		req += "vf: " + vf + "\r\n"
	}
	req += "Content-Type: application/json\r\nContent-Length: " + strconv.Itoa(len(body)) + "\r\n\r\n" + body
	return []byte(req)
}

func runHTTP(c *caseCfg) observedSet {
	if httpPF == nil {
		httpPF = httproto.NewHTTProtoFunc()
	}
	cc, sc := TCPPair()
	sess, st := c.peer().ServeConn(sc, httpPF)
	if !st.OK() {
		Must(errors.New("ServeConn: " + st.String()))
	}
	lastProto = "http"
	rp := NewRawPeer(cc, socket.ProtoFunc(httpPF))
	body, _ := c.bodyAndCodec()
	rp.Conn.Write(httpRequest(c.serviceMethod(), c.seq, c.ty, strconv.Itoa(c.id), string(body)))
	rp.Conn.Write(httpRequest(pingPath, pingSeq, erpc.TypeCall, "", ""))
	frames, ended := recvUntil(rp, true, 10*time.Second)
	return finish([]*caseCfg{c}, sess, rp, frames, ended)
}

// runClosed: the peer half-closes while the handler is parked; the reply write finds the
// session no longer open.
func runClosed(c *caseCfg) observedSet {
	sess, rp := newSession(c.peer())
	c.send(rp)
	select {
	case <-c.entered:
	case <-time.After(10 * time.Second):
		Must(errors.New("parked handler never entered"))
	}
	rp.Conn.(*net.TCPConn).CloseWrite()
	WaitUntil(10*time.Second, func() bool { return !sess.Health() })
	close(c.parkCh)
	frames, _ := recvUntil(rp, false, 10*time.Second)
	erpc.VerifWaitHandlers(sess)
	rp.Conn.Close()
	quiesce()
	return observedSet{frames: frames, disconnected: true}
}

// runNotGoon: the frame is read while the session has stopped reading: a graceful Close is
// parked (gate close.presock) between marking the session closed and closing the socket.
var (
	parkTarget atomic.Value // erpc.Session being parked at close.presock
	parkedCh   = make(chan struct{}, 1)
	releaseCh  = make(chan struct{}, 1)
)

func runNotGoon(c *caseCfg) observedSet {
	sess, rp := newSession(c.peer())
	parkTarget.Store(&sess)
	go sess.Close()
	select {
	case <-parkedCh:
	case <-time.After(10 * time.Second):
		Must(errors.New("close.presock gate never reached"))
	}
	c.send(rp)
	// the read loop takes the frame, sees that the session no longer reads, and returns
	WaitUntil(10*time.Second, func() bool { return GoroutinesMatching("startReadAndHandle") == 0 })
	var none *erpc.Session
	parkTarget.Store(none)
	releaseCh <- struct{}{}
	frames, _ := recvUntil(rp, false, 10*time.Second)
	erpc.VerifWaitHandlers(sess)
	rp.Conn.Close()
	quiesce()
	return observedSet{frames: frames, disconnected: true}
}

// runHTTPHeaderError: over httproto a request whose header block breaks AFTER the
// Content-Type line: Unpack fails before it asks for the body (binding never runs) but the
// body codec is already set, so the read loop does not return; handle() runs with no plugin
// container and no handler.
var httpPF erpc.ProtoFunc

func runHTTPHeaderError(c *caseCfg) observedSet {
	if httpPF == nil {
		httpPF = httproto.NewHTTProtoFunc()
	}
	cc, sc := TCPPair()
	sess, st := peerPlain.ServeConn(sc, httpPF)
	if !st.OK() {
		Must(errors.New("ServeConn: " + st.String()))
	}
	lastProto = "http"
	rp := NewRawPeer(cc, socket.ProtoFunc(httpPF))
	req := "POST " + callPath + " HTTP/1.1\r\nX-Seq: " + strconv.Itoa(int(c.seq)) + "\r\nX-Mtype: " + strconv.Itoa(int(c.ty)) +
		"\r\nContent-Type: application/json\r\nthis line has no colon\r\n\r\n"
	rp.Conn.Write([]byte(req))
	var frames []reply
	ended := false
	if c.ty == erpc.TypeCall {
		m, err := rp.Recv(10 * time.Second)
		if err != nil {
			ended = true
		} else {
			frames = append(frames, toReply(m))
		}
	} else {
		// nothing is expected back: let the read loop take the request first
		WaitUntil(10*time.Second, func() bool { return gotCount(sess) > 0 || !sess.Health() })
	}
	return finish([]*caseCfg{c}, sess, rp, frames, ended)
}

// ---------------------------------------------------------------- case -> model input / observation

func causeVal(text string, lib bool) string {
	if lib {
		return VS("lib")
	}
	return VL(VS("text"), VB([]byte(text)))
}

func statusVal(s statusSpec) string {
	return VL(VZ(int64(s.code)), VB([]byte(s.msg)), causeVal(s.cause, false))
}

var stageOrder = []string{"prh", "prch", "prcb", "porcb", "pwr", "powr", "prph", "prpb", "porpb"}

func (c *caseCfg) inputs() string {
	var vs []string
	one := func(v verdictSpec) string {
		if v.kind == "panic" {
			return VL(VS("panic"), causeVal(v.pval, false))
		}
		return VL(VS("stat"), VZ(int64(v.st.code)), VB([]byte(v.st.msg)), causeVal(v.st.cause, false))
	}
	for _, st := range stageOrder {
		v, ok := c.verdicts[st]
		if !ok {
			continue
		}
		if st == "prh" {
			vs = append(vs, VL(VS(st), one(v)))
			continue
		}
		items := []string{VS("chain")}
		for idx := 0; idx < 3; idx++ {
			switch {
			case idx < v.pos:
				if idx%2 == 1 {
					items = append(items, one(verdictSpec{kind: "stat", st: statusSpec{0, "pass", ""}}))
				} else {
					items = append(items, VS("nil"))
				}
			case idx == v.pos:
				items = append(items, one(v))
			case v.decoy != nil && idx == 2:
				items = append(items, one(*v.decoy))
			default:
				items = append(items, VS("nil"))
			}
		}
		vs = append(vs, VL(VS(st), VL(items...)))
	}
	read := VS("bodyok")
	switch c.body {
	case "badjson", "unkcodec":
		read = VL(VS("bodyerr"), VBool(true))
	case "codec0":
		read = VL(VS("bodyerr"), VBool(false))
	}
	if c.env == "hdrerr" || c.env == "hdrpanic" {
		read = VL(VS("hdr"), VBool(false))
	}
	if c.env == "hdrerr-codec" {
		read = VL(VS("hdr"), VBool(true))
	}
	var h string
	switch c.handler.kind {
	case "status", "failpack":
		h = VL(VS("ret"), statusVal(c.handler.st))
	case "okstatus":
		h = VL(VS("ret"), statusVal(statusSpec{0, c.handler.st.msg, c.handler.st.cause}))
	case "panic":
		h = VL(VS("panic"), causeVal(c.handler.pval, false))
	case "encodepanic":
		h = VL(VS("encpanic"), causeVal(c.handler.pval, false))
	default:
		h = VL(VS("ret"))
	}
	wok, werr1, werr2 := "ok", "ok", "ok"
	switch {
	case c.handler.kind == "unmarshalable" || c.handler.kind == "oversize" || c.body == "codec0" || c.body == "unkcodec":
		// the result cannot be marshalled: not marshalable at all, or the reply inherits the
		// request's unusable body codec id
		wok = "refused"
	case c.handler.kind == "failpack":
		wok, werr1, werr2 = "refused", "refused", "refused"
	case c.env == "closed":
		wok, werr1, werr2 = "closed", "closed", "closed"
	}
	return VL(VZ(int64(c.seq)), VB([]byte{c.ty}), VBool(c.smEmpty), VS(c.route), read, VL(vs...), h,
		VS(wok), VS(werr1), VS(werr2), VBool(c.env == "ctxexp"), VBool(c.env == "nospawn"), VBool(c.env != "notgoon"), VBool(true))
}

// injected texts of this case: causes the harness itself chose
func (c *caseCfg) injected() map[string]bool {
	m := map[string]bool{"invalid service method for message": true, "": true,
		"no goroutine available to handle the message": true}
	for _, v := range c.verdicts {
		m[v.st.cause] = true
		m[v.pval] = true
		if v.decoy != nil {
			m[v.decoy.st.cause] = true
			m[v.decoy.pval] = true
		}
	}
	m[c.handler.st.cause] = true
	m[c.handler.pval] = true
	return m
}

func (c *caseCfg) observedVal(o observedSet) string {
	c.mu.Lock()
	inv := append([]string(nil), c.invoked...)
	c.mu.Unlock()
	var iv []string
	for _, k := range inv {
		iv = append(iv, VS(k))
	}
	inj := c.injected()
	var rs []string
	for _, f := range o.frames {
		st := VS("ok")
		if f.code != 0 {
			lib := (f.code == 400 && f.msg == "Bad Message" || f.code == 500 && f.msg == "Internal Server Error") && !inj[f.cau]
			st = VL(VZ(int64(f.code)), VB([]byte(f.msg)), causeVal(f.cau, lib))
		}
		rs = append(rs, VL(VZ(int64(f.seq)), st))
	}
	return VL(VL(iv...), VL(rs...), VBool(o.disconnected))
}

// ---------------------------------------------------------------- oracle (implementation alone)

func (c *caseCfg) human() string {
	return fmt.Sprintf("id=%d seq=%d type=%d smEmpty=%v route=%s body=%s verdicts=%v handler=%+v env=%s",
		c.id, c.seq, c.ty, c.smEmpty, c.route, c.body, c.verdicts, c.handler, c.env)
}

func oracle(st *Stats, idx int, c *caseCfg, o observedSet) {
	c.mu.Lock()
	ninv := len(c.invoked)
	c.mu.Unlock()
	h := c.human()
	if ninv > 1 {
		st.Fail(idx, "handled-twice", fmt.Sprintf("handler invoked %d times for one frame", ninv), h)
	}
	c.mu.Lock()
	cont := append([]string(nil), c.chainContinued...)
	c.mu.Unlock()
	if len(cont) > 0 {
		st.Fail(idx, "plugin-chain-continued", fmt.Sprintf("plugins were still called after a refusal on their stage: %v", cont), h)
	}
	if o.stuck {
		key := "handler-context-stuck"
		if c.ty != erpc.TypeCall && c.ty != erpc.TypePush && c.ty != erpc.TypeReply {
			key = "unsupported-type-not-disconnected"
		}
		st.Fail(idx, key, "the frame's handler context never finished / the transport did not reach EOF within the watchdog ("+o.stuckWhy+")", h)
		return
	}
	own := 0
	for _, f := range o.frames {
		if f.ty != erpc.TypeReply {
			st.Fail(idx, "non-reply-frame", fmt.Sprintf("server sent a frame of type %d", f.ty), h)
		}
		if f.seq == c.seq {
			own++
		} else {
			st.Fail(idx, "reply-foreign-seq", fmt.Sprintf("reply with seq %d that no frame of this session asked for", f.seq), h)
		}
	}
	switch c.ty {
	case erpc.TypeCall:
		if own > 1 {
			st.Fail(idx, "answered-twice", fmt.Sprintf("%d replies for one CALL", own), h)
		}
		if own == 0 && !o.disconnected {
			key := "call-dropped"
			if c.handler.kind == "failpack" {
				key = "reply-dropped-error-frame-unwritable"
			} else if c.env == "nospawn" {
				key = "call-dropped-gopool-exhausted"
			} else if c.env == "ctxexp" {
				key = "reply-dropped-context-expired"
			}
			st.Fail(idx, key, "CALL neither answered nor disconnected: silently dropped on a live session", h)
		}
		if own == 1 {
			c.statusOracle(st, idx, o)
		}
	case erpc.TypePush:
		if own > 0 {
			st.Fail(idx, "push-replied", "a PUSH was answered", h)
		}
	case erpc.TypeReply:
		if own > 0 {
			st.Fail(idx, "reply-replied", "a REPLY was answered", h)
		}
	default:
		if own > 0 {
			st.Fail(idx, "unsupported-type-replied", "a frame of unsupported type was answered", h)
		}
		if !o.disconnected {
			st.Fail(idx, "unsupported-type-not-disconnected", "a frame of unsupported type did not disconnect the session", h)
		}
		if ninv > 0 {
			st.Fail(idx, "unsupported-type-handled", "a frame of unsupported type reached a handler", h)
		}
	}
}

// statusOracle: the rule of the property text for an answered CALL in a normal environment
// (404 unknown route, 400 bad message, 500 panic, the vetoing plugin's / handler's status).
func (c *caseCfg) statusOracle(st *Stats, idx int, o observedSet) {
	if c.env != "normal" && c.env != "ctxexp" {
		return
	}
	var f reply
	for _, x := range o.frames {
		if x.seq == c.seq {
			f = x
		}
	}
	h := c.human()
	exact := func(s statusSpec, why string) {
		if f.code != s.code || f.msg != s.msg || f.cau != s.cause {
			st.Fail(idx, "status-rule", fmt.Sprintf("%s: expected (%d,%q,%q) got (%d,%q,%q)", why, s.code, s.msg, s.cause, f.code, f.msg, f.cau), h)
		}
	}
	code := func(want int32, why string) {
		if f.code != want {
			st.Fail(idx, "status-rule", fmt.Sprintf("%s: expected code %d got (%d,%q,%q)", why, want, f.code, f.msg, f.cau), h)
		}
	}
	veto := func(stage string) (verdictSpec, bool) {
		v, ok := c.verdicts[stage]
		return v, ok && v.kind == "stat" && v.st.code != 0
	}
	if v, ok := veto("prch"); ok {
		exact(v.st, "postReadCallHeader veto")
		return
	}
	if c.smEmpty {
		code(400, "empty service method")
		return
	}
	if c.route == "none" {
		code(404, "unknown route")
		return
	}
	if v, ok := veto("prcb"); ok {
		exact(v.st, "preReadCallBody veto")
		return
	}
	if c.route == "known" && (c.body == "badjson" || c.body == "unkcodec") {
		code(400, "undecodable body")
		return
	}
	if v, ok := c.verdicts["porcb"]; ok && v.kind == "panic" {
		code(500, "postReadCallBody panic")
		return
	}
	if v, ok := veto("porcb"); ok {
		exact(v.st, "postReadCallBody veto")
		return
	}
	switch c.handler.kind {
	case "status":
		if c.handler.st.code != 0 {
			exact(c.handler.st, "handler status")
			return
		}
	case "panic":
		exact(statusSpec{500, "Internal Server Error", c.handler.pval}, "handler panic")
		return
	case "unmarshalable", "oversize":
		code(500, "result cannot be written (unmarshalable / over the size limit)")
		return
	case "encodepanic":
		if v, ok := c.verdicts["pwr"]; ok && v.kind == "panic" {
			code(500, "preWriteReply panic")
		} else {
			exact(statusSpec{500, "Internal Server Error", c.handler.pval}, "result encoder panic")
		}
		return
	case "failpack":
		return
	}
	if v, ok := c.verdicts["pwr"]; ok && v.kind == "panic" {
		code(500, "preWriteReply panic")
		return
	}
	if c.body == "codec0" || c.body == "unkcodec" {
		code(500, "result cannot be marshalled with the request's codec id")
		return
	}
	code(0, "handler succeeded")
}

// ---------------------------------------------------------------- generation

var nextID int32

func newCase() *caseCfg {
	id := int(atomic.AddInt32(&nextID, 1))
	c := &caseCfg{id: id, seq: int32(1000 + id), ty: erpc.TypeCall, route: "known", body: "valid",
		verdicts: map[string]verdictSpec{}, handler: handlerSpec{kind: "ret"}, env: "normal",
		parkCh: make(chan struct{}), entered: make(chan struct{})}
	cases.Store(id, c)
	return c
}

func genStatus(cfg *RunCfg, tag string) statusSpec {
	r := cfg.Rng
	codes := []int32{1, -1, 2, 7, 100, 399, 401, 403, 404, 400, 499, 500, 501, 999, 1000, 1001, 65536, 2147483647, -2147483648}
	s := statusSpec{code: codes[r.Intn(len(codes))]}
	msgs := []string{"", "m", "biz error", "a&b=c%d+e", "Bad Message", "Not Found", "\xff\xfe", "line\nbreak"}
	s.msg = msgs[r.Intn(len(msgs))]
	s.cause = tag + "-" + strconv.Itoa(r.Intn(1000))
	if (s.code == 400 && s.msg == "Bad Message") || s.code == 405 {
		s.code = 418
	}
	return s
}

func genVerdict(cfg *RunCfg, stage string, kind int) verdictSpec {
	v := genVerdict1(cfg, stage, kind)
	if stage == "prh" {
		return v
	}
	v.pos = cfg.Rng.Intn(3)
	if v.refuses() && v.pos < 2 && cfg.Rng.Intn(2) == 0 {
		d := genVerdict1(cfg, "decoy-"+stage, []int{0, 0, 1, 3}[cfg.Rng.Intn(4)])
		v.decoy = &d
	}
	return v
}

func genVerdict1(cfg *RunCfg, stage string, kind int) verdictSpec {
	switch kind {
	case 0:
		return verdictSpec{kind: "stat", st: genStatus(cfg, "pc-"+stage)}
	case 1: // non-nil OK status
		s := genStatus(cfg, "pc-"+stage)
		s.code = 0
		return verdictSpec{kind: "stat", st: s}
	case 2: // the code handle() treats as an unsupported type
		s := genStatus(cfg, "pc-"+stage)
		s.code = 405
		return verdictSpec{kind: "stat", st: s}
	default:
		return verdictSpec{kind: "panic", pval: "pp-" + stage + "-" + strconv.Itoa(cfg.Rng.Intn(1000))}
	}
}

func genHandler(cfg *RunCfg, kind string) handlerSpec {
	h := handlerSpec{kind: kind}
	switch kind {
	case "status", "okstatus", "failpack":
		h.st = genStatus(cfg, "hs")
	case "panic", "encodepanic":
		h.pval = "hp-" + strconv.Itoa(cfg.Rng.Intn(1000))
	}
	return h
}

var callStages = []string{"prch", "prcb", "porcb", "pwr", "powr"}
var pushStages = []string{"prph", "prpb", "porpb"}
var routes = []string{"known", "unknown", "none"}
var bodies = []string{"empty", "valid", "badjson", "codec0", "unkcodec"}
var callHandlers = []string{"ret", "status", "okstatus", "panic", "unmarshalable"}
var pushHandlers = []string{"ret", "status", "panic"}

// systematic enumerates the product of frame classes; each entry builds one case.
func systematic(cfg *RunCfg) []func() *caseCfg {
	var out []func() *caseCfg
	// every type byte once with a valid frame
	for t := 0; t < 256; t++ {
		t := t
		out = append(out, func() *caseCfg { c := newCase(); c.ty = byte(t); return c })
	}
	addProduct := func(ty byte, stages, handlers []string) {
		for _, rt := range routes {
			for _, bd := range bodies {
				for _, hk := range handlers {
					for vi := -1; vi < len(stages)*4; vi++ {
						rt, bd, hk, vi := rt, bd, hk, vi
						out = append(out, func() *caseCfg {
							c := newCase()
							c.ty, c.route, c.body = ty, rt, bd
							c.handler = genHandler(cfg, hk)
							if vi >= 0 {
								stg := stages[vi/4]
								c.verdicts[stg] = genVerdict(cfg, stg, vi%4)
							}
							return c
						})
					}
				}
			}
		}
	}
	addProduct(erpc.TypeCall, callStages, callHandlers)
	addProduct(erpc.TypePush, pushStages, pushHandlers)
	return out
}

func randomCase(cfg *RunCfg) *caseCfg {
	r := cfg.Rng
	c := newCase()
	switch k := r.Intn(20); {
	case k < 12:
		c.ty = erpc.TypeCall
	case k < 17:
		c.ty = erpc.TypePush
	case k == 17:
		c.ty = erpc.TypeReply
	default:
		c.ty = byte(r.Intn(256))
	}
	c.route = routes[r.Intn(3)]
	c.body = bodies[r.Intn(len(bodies))]
	c.smEmpty = r.Intn(12) == 0
	stages, handlers := callStages, callHandlers
	if c.ty == erpc.TypePush {
		stages, handlers = pushStages, pushHandlers
	}
	c.handler = genHandler(cfg, handlers[r.Intn(len(handlers))])
	for _, s := range stages {
		if r.Intn(5) == 0 {
			c.verdicts[s] = genVerdict(cfg, s, r.Intn(4))
		}
	}
	return c
}

// malformed raw-protocol frames: the header cannot be read (body codec still 0)
func malformed(cfg *RunCfg) *caseCfg {
	c := newCase()
	c.body = "empty"
	frame := func(payload []byte) []byte {
		b := make([]byte, 4, 5+len(payload))
		b = append(b, 0) // no transfer pipe
		b = append(b, payload...)
		binary.BigEndian.PutUint32(b, uint32(len(b)))
		return b
	}
	switch cfg.Rng.Intn(3) {
	case 0: // sequence is not a base-36 number
		c.env = "hdrerr"
		c.rawBytes = frame(append([]byte{2, '!', '!', erpc.TypeCall, 0, 0, 0, 0, 0, 'j'}))
	case 1: // truncated after the type byte: index out of range inside Unpack
		c.env = "hdrpanic"
		c.rawBytes = frame([]byte{1, '7', erpc.TypeCall})
	default: // unregistered transfer filter id
		c.env = "hdrerr"
		b := []byte{0, 0, 0, 0, 1, 0xEE, 1, '7', erpc.TypeCall, 0, 0, 0, 0, 0, 'j'}
		binary.BigEndian.PutUint32(b, uint32(len(b)))
		c.rawBytes = b
	}
	return c
}

// ---------------------------------------------------------------- main

func main() {
	cfg := ParseFlags()
	setup()
	if cfg.Tier == "thorough" {
		protoRotation = []erpc.ProtoFunc{nil, jsonproto.NewJSONProtoFunc(), pbproto.NewPbProtoFunc()}
		protoNames = []string{"raw", "json", "pb"}
	}
	st := NewStats("C03", cfg)
	st.Rule = "cases = frame classes sent by a scripted raw peer to a served session (raw protocol): systematic product {256 type bytes} + {CALL,PUSH} x route{known,unknown-handler,none} x body{empty,valid,undecodable-codec-set,codec-0,unknown-codec} x handler{return,status,ok-status,panic,unmarshalable} x {no verdict | one stage x {veto,ok-status,405,panic}}, sampled to n; plus random multi-verdict frames, empty service method, malformed headers, pre-read-header veto, expired context, half-closed peer, closing session, exhausted goroutine pool, unpackable error frame, pipelined batches; distinct by full case description; non-trivial = CALL or PUSH reaching route lookup"
	w := NewCaseWriter(cfg)
	distinct := DistinctSet{}
	idx := 0
	record := func(c *caseCfg, o observedSet, class string) {
		st.Count("class:" + class)
		st.Count("proto:" + lastProto)
		st.Count("type:" + typeClass(c.ty))
		if c.ty == erpc.TypeCall || c.ty == erpc.TypePush {
			st.Count("route:" + c.route)
			st.Count("body:" + c.body)
			st.Count("handler:" + c.handler.kind)
			for s, v := range c.verdicts {
				st.Count("verdict:" + s + ":" + v.kind)
			}
			distinct.Add(fmt.Sprintf("%d/%v/%s/%s/%v/%+v/%s", c.ty, c.smEmpty, c.route, c.body, c.verdicts, c.handler, c.env))
		}
		oracle(st, idx, c, o)
		w.Add(c.inputs(), c.observedVal(o))
		if len(st.Samples) < 6 {
			st.Samples = append(st.Samples, c.human()+" => "+c.observedVal(o))
		}
		cases.Delete(c.id)
		idx++
		if stuckCount >= maxStuck {
			// fail fast: the implementation leaves sessions stuck; more cases would only wait
			st.Count("aborted-after-stuck-cases")
			st.Evaluations = idx
			st.DistinctNontrivial = len(distinct)
			st.Write(cfg, w)
			os.Exit(0)
		}
	}

	n := cfg.N
	nSpecial := n / 10
	if nSpecial < 24 {
		nSpecial = 24
	}
	nSys := n - nSpecial - n/6
	if nSys < 0 {
		nSys = 0
	}
	// 1. systematic product, evenly sampled when n is smaller than the product
	sys := systematic(cfg)
	step := 1.0
	if nSys < len(sys) && nSys > 0 {
		step = float64(len(sys)) / float64(nSys)
	}
	off := cfg.Rng.Float64() * step
	// when n exceeds the product it is walked again (statuses and texts are drawn afresh)
	for done := 0; done < nSys; {
		for x := off; int(x) < len(sys) && done < nSys; x += step {
			c := sys[int(x)]()
			record(c, runNormal(c), "systematic")
			done++
		}
	}
	// 2. random frames
	for i := 0; i < n/6-n/24; i++ {
		c := randomCase(cfg)
		record(c, runNormal(c), "random")
	}
	// 3. pipelined / concurrent batches
	for done := 0; done < n/24; {
		k := 8 + cfg.Rng.Intn(24)
		done += k
		runBatch(cfg, k, record)
	}
	// 4. environment corners
	for i := 0; i < nSpecial; i++ {
		switch i % 11 {
		case 0: // pre-read-header veto / panic
			c := newCase()
			c.verdicts["prh"] = genVerdict(cfg, "prh", []int{0, 3}[cfg.Rng.Intn(2)])
			record(c, runNormal(c), "pre-read-header")
		case 1:
			c := malformed(cfg)
			record(c, runNormal(c), "malformed-header")
		case 2: // handling context expires while the handler runs: every way the call can end
			// afterwards (return, status, panic, unmarshalable result -> fallback write,
			// panic in preWriteReply) must still be answered
			c := newCase()
			c.env = "ctxexp"
			kinds := []string{"ret", "status", "panic", "unmarshalable", "okstatus", "pwr-panic"}
			k := kinds[(i/11)%len(kinds)]
			if k == "pwr-panic" {
				c.handler = genHandler(cfg, []string{"ret", "status"}[cfg.Rng.Intn(2)])
				c.verdicts["pwr"] = genVerdict(cfg, "pwr", 3)
			} else {
				c.handler = genHandler(cfg, k)
			}
			c.handler.slow = true
			if cfg.Rng.Intn(3) == 0 {
				c.route = "unknown"
			}
			st.Count("context-expired:" + k)
			record(c, runNormal(c), "context-expired")
		case 3: // peer half-closes while the handler runs
			c := newCase()
			c.env = "closed"
			c.handler = handlerSpec{kind: "park"}
			record(c, runClosed(c), "peer-closed")
		case 4: // frame read when the session has stopped reading
			c := randomCase(cfg)
			c.env = "notgoon"
			record(c, runNotGoon(c), "closed-session")
		case 5: // neither the reply nor the fallback can be packed
			c := newCase()
			c.handler = genHandler(cfg, "failpack")
			o := runNormal(c)
			atomic.StoreInt32(&failPack, 0)
			record(c, o, "error-frame-unwritable")
		case 6: // empty service method
			c := randomCase(cfg)
			c.smEmpty = true
			record(c, runNormal(c), "empty-method")
		case 7:
			if cfg.Rng.Intn(2) == 0 {
				c := newCase()
				c.ty = erpc.TypeReply
				record(c, runNormal(c), "unmatched-reply")
			} else {
				c := newCase()
				c.env = "hdrerr-codec"
				c.body = "empty"
				c.ty = []byte{erpc.TypeCall, erpc.TypeCall, erpc.TypePush, 9}[cfg.Rng.Intn(4)]
				record(c, runHTTPHeaderError(c), "header-error-codec-set")
			}
		case 8: // the result's encoder panics inside the reply write
			c := newCase()
			c.handler = genHandler(cfg, "encodepanic")
			if cfg.Rng.Intn(3) == 0 {
				c.route = "unknown"
			}
			if cfg.Rng.Intn(4) == 0 {
				c.verdicts["pwr"] = genVerdict(cfg, "pwr", 3)
			}
			// a second CALL on the same session afterwards must still be answered: the ping
			record(c, runNormal(c), "encoder-panic")
		case 9: // reply over the message size limit
			c := newCase()
			c.handler = handlerSpec{kind: "oversize"}
			record(c, runOversize(c), "reply-over-size-limit")
		case 10: // httproto: the type comes from the X-Mtype header
			c := newCase()
			c.ty = []byte{erpc.TypeCall, erpc.TypePush, erpc.TypePush, 9, 4, 200}[cfg.Rng.Intn(6)]
			c.route = []string{"known", "known", "none"}[cfg.Rng.Intn(3)]
			c.body = []string{"valid", "valid", "badjson", "empty"}[cfg.Rng.Intn(4)]
			hk := []string{"ret", "status", "panic"}[cfg.Rng.Intn(3)]
			c.handler = genHandler(cfg, hk)
			st.Count("http-type:" + typeClass(c.ty))
			record(c, runHTTP(c), "http-x-mtype")
		}
	}
	// 5. exhausted goroutine pool (process-global: last)
	for i := 0; i < nSpecial/4+2; i++ {
		runNoSpawn(cfg, record)
	}
	st.Evaluations = idx
	st.DistinctNontrivial = len(distinct)
	st.Write(cfg, w)
}

func typeClass(t byte) string {
	switch t {
	case erpc.TypeCall:
		return "call"
	case erpc.TypeReply:
		return "reply"
	case erpc.TypePush:
		return "push"
	}
	return "unsupported"
}

// runBatch: k frames written back-to-back on one session, handlers overlapping; classes that
// keep the session open.
func runBatch(cfg *RunCfg, k int, record func(*caseCfg, observedSet, string)) {
	sess, rp := newSession(peerUnknown)
	var cs []*caseCfg
	for i := 0; i < k; i++ {
		c := randomCase(cfg)
		if c.ty != erpc.TypeCall && c.ty != erpc.TypePush {
			c.ty = erpc.TypeCall
		}
		if c.body == "codec0" {
			c.body = "badjson"
		}
		if c.route == "none" {
			c.route = "unknown"
		}
		for s, v := range c.verdicts {
			if v.kind == "panic" && (s == "prch" || s == "prcb" || s == "prph" || s == "prpb") {
				delete(c.verdicts, s)
			} else if v.kind == "stat" && v.st.code == 405 {
				delete(c.verdicts, s)
			}
		}
		if cfg.Rng.Intn(6) == 0 && c.handler.kind == "ret" {
			c.handler.kind = "sleep"
		}
		cs = append(cs, c)
	}
	for _, c := range cs {
		c.send(rp)
	}
	sendPing(rp)
	frames, ended := recvUntil(rp, true, 20*time.Second)
	o := finish(cs, sess, rp, frames, ended)
	for _, c := range cs {
		var mine []reply
		for _, f := range o.frames {
			if f.seq == c.seq {
				mine = append(mine, f)
			}
		}
		record(c, observedSet{frames: mine, disconnected: o.disconnected}, "batch")
	}
	// replies for sequence numbers nobody sent
	for _, f := range o.frames {
		found := false
		for _, c := range cs {
			if c.seq == f.seq {
				found = true
			}
		}
		if !found {
			Must(fmt.Errorf("batch: reply with foreign seq %d", f.seq))
		}
	}
}

// runNoSpawn: the pool has room for the read loop and two handlers; two parked calls fill
// it, then two more frames arrive.
func runNoSpawn(cfg *RunCfg, record func(*caseCfg, observedSet, string)) {
	erpc.SetGopool(3, time.Minute)
	defer erpc.SetGopool(1<<20, time.Minute)
	t1 := randomCase(cfg)
	sess, rp := newSession(t1.peer())
	a, b := newCase(), newCase()
	a.handler, b.handler = handlerSpec{kind: "park"}, handlerSpec{kind: "park"}
	a.send(rp)
	b.send(rp)
	for _, c := range []*caseCfg{a, b} {
		select {
		case <-c.entered:
		case <-time.After(10 * time.Second):
			Must(errors.New("nospawn: parked handler never entered"))
		}
	}
	t1.env = "nospawn"
	if t1.body == "codec0" {
		t1.body = "valid"
	}
	for s, v := range t1.verdicts {
		if v.kind == "panic" && (s == "prch" || s == "prcb" || s == "prph" || s == "prpb") {
			delete(t1.verdicts, s)
		}
	}
	t2 := newCase() // marker: once it has been read, t1 has been through Go(...)
	t2.env = "nospawn"
	t2.ty = erpc.TypePush
	base := gotCount(sess)
	t1.send(rp)
	t2.send(rp)
	if !WaitUntil(10*time.Second, func() bool { return gotCount(sess) >= base+2 || !sess.Health() }) {
		Must(errors.New("nospawn: frames not read"))
	}
	// t2 passed read.got; give its Go(...) call (next statement of the loop) time to return
	WaitUntil(2*time.Second, func() bool { return GoroutinesMatching("startReadAndHandle", "ReadMessage") > 0 || !sess.Health() })
	close(a.parkCh)
	close(b.parkCh)
	// wait for both parked replies (or the end of the connection) before the ping
	var frames []reply
	ended := false
	need := 2
	for need > 0 && !ended {
		m, err := rp.Recv(10 * time.Second)
		if err != nil {
			ended = true
			break
		}
		r := toReply(m)
		frames = append(frames, r)
		if r.seq == a.seq || r.seq == b.seq {
			need--
		}
	}
	if !ended {
		erpc.VerifWaitHandlers(sess)
		sendPing(rp)
		more, e := recvUntil(rp, true, 10*time.Second)
		frames = append(frames, more...)
		ended = e
	}
	o := finish(nil, sess, rp, frames, ended)
	pick := func(c *caseCfg) observedSet {
		var mine []reply
		for _, f := range o.frames {
			if f.seq == c.seq {
				mine = append(mine, f)
			}
		}
		return observedSet{frames: mine, disconnected: o.disconnected}
	}
	// the two parked calls ran in a normal environment unless t1 ended the session
	if !o.disconnected {
		record(a, pick(a), "pool-filler")
		record(b, pick(b), "pool-filler")
	}
	record(t1, pick(t1), "pool-exhausted")
	if !o.disconnected {
		record(t2, pick(t2), "pool-exhausted")
	}
}
