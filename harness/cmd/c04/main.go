// c04 drives complete calls (client peer -> server peer) over each of the 8 shipped wire
// protocols and compares the status and result the caller sees with what the handler / the
// framework rule produced. Protocol packages change process-global settings in init() and in
// their ProtoFunc constructors, so the run re-executes itself once per protocol.
package main

import (
	"bytes"
	"encoding/json"
	"errors"
	"flag"
	"fmt"
	"io/ioutil"
	"math"
	"net"
	"net/http"
	"os"
	"os/exec"
	"path/filepath"
	"strconv"
	"strings"
	"time"
	"unicode/utf8"

	. "verifharness/hlib"

	erpc "github.com/henrylee2cn/erpc/v6"
	"github.com/henrylee2cn/erpc/v6/socket"
	"github.com/henrylee2cn/erpc/v6/xfer/gzip"
	"github.com/henrylee2cn/erpc/v6/xfer/md5"
	ws "github.com/henrylee2cn/erpc/v6/mixer/websocket"
	"github.com/henrylee2cn/erpc/v6/mixer/websocket/jsonSubProto"
	"github.com/henrylee2cn/erpc/v6/mixer/websocket/pbSubProto"
	"github.com/henrylee2cn/erpc/v6/proto/httproto"
	"github.com/henrylee2cn/erpc/v6/proto/jsonproto"
	"github.com/henrylee2cn/erpc/v6/proto/pbproto"
	"github.com/henrylee2cn/erpc/v6/proto/pbproto/pb"
	"github.com/henrylee2cn/erpc/v6/proto/thriftproto"
)

var protoNames = []string{"raw", "json", "pb", "http", "thrift-binary", "thrift-struct", "ws-json", "ws-pb"}

// ---------------------------------------------------------------- case description

type statusSpec struct {
	code       int32
	msg, cause string
}

func (s statusSpec) String() string { return fmt.Sprintf("(%d,%q,%q)", s.code, s.msg, s.cause) }

type caseCfg struct {
	proto    string
	codec    byte
	failure  string // none | f404 | f400 | f102
	sVerdict map[string]statusSpec // server stage -> veto: prch | prcb | porcb
	cVerdict map[string]statusSpec // client stage -> veto: pwc | porh | prrb | porrb
	handler  string                // ok | status | panic | nilresult
	hstat    statusSpec
	pval     string
	mismatch bool // the caller's result type cannot hold the handler's result
	invoked  int
	pipe     byte // transfer filter of the call (inherited by the reply): 0 | 'g' gzip | 'm' md5
	// every stage is a chain of 3 plugins: the one at pos[stage] returns the stage's verdict,
	// those before it pass (nil or a non-nil OK status), decoy[stage] is what the LAST plugin
	// would answer if it were (wrongly) still asked
	parkPostWrite chan struct{} // the server's PostWriteReply hook parks until closed
	parkReached   chan struct{}
	pos    map[string]int
	decoy  map[string]statusSpec
	called map[string][]int
}

func (c *caseCfg) position(stage string) int {
	if c.pos == nil {
		return 0
	}
	return c.pos[stage]
}

// chainAct: plugin number idx of the stage's chain is being called
func chainAct(verdicts map[string]statusSpec, stage string, idx int) *erpc.Status {
	c := cur
	if c == nil {
		return nil
	}
	if c.called == nil {
		c.called = map[string][]int{}
	}
	c.called[stage] = append(c.called[stage], idx)
	pass := func() *erpc.Status {
		if idx%2 == 1 {
			return erpc.NewStatus(0, "pass", "")
		}
		return nil
	}
	v, ok := verdicts[stage]
	if !ok {
		return pass()
	}
	p := c.position(stage)
	switch {
	case idx < p:
		return pass()
	case idx == p:
		return erpc.NewStatus(v.code, v.msg, v.cause)
	}
	if d, ok := c.decoy[stage]; ok && idx == 2 {
		return erpc.NewStatus(d.code, d.msg, d.cause)
	}
	return nil
}

// chainVal: the stage's chain as the model sees it
func (c *caseCfg) chainVal(verdicts map[string]statusSpec, stage string) string {
	v, ok := verdicts[stage]
	items := []string{VS("chain")}
	for idx := 0; idx < 3; idx++ {
		pass := VS("nil")
		if idx%2 == 1 {
			pass = verdictVal(statusSpec{0, "pass", ""})
		}
		switch {
		case !ok || idx < c.position(stage):
			items = append(items, pass)
		case idx == c.position(stage):
			items = append(items, verdictVal(v))
		default:
			if d, ok := c.decoy[stage]; ok && idx == 2 {
				items = append(items, verdictVal(d))
			} else {
				items = append(items, VS("nil"))
			}
		}
	}
	return VL(items...)
}

var cur *caseCfg

// per-call watchdog: a call that has not completed by then is recorded as "caller-never-completes";
// after maxHangs of them the sub-process stops generating (fail fast, stats still written)
const (
	callWatchdog = 15 * time.Second // generous: the machine may be heavily loaded
	maxHangs     = 2
)

var hangs int

// ---------------------------------------------------------------- plugins

type splugin struct{ idx int }

func (p splugin) Name() string { return "server-verdict-" + strconv.Itoa(p.idx) }
func (p splugin) PostReadCallHeader(erpc.ReadCtx) *erpc.Status {
	return chainAct(curS(), "prch", p.idx)
}
func (p splugin) PreReadCallBody(erpc.ReadCtx) *erpc.Status  { return chainAct(curS(), "prcb", p.idx) }
func (p splugin) PostReadCallBody(erpc.ReadCtx) *erpc.Status { return chainAct(curS(), "porcb", p.idx) }

// PostWriteReply: keeps the server's handler goroutine busy after the reply is on the wire
func (p splugin) PostWriteReply(erpc.WriteCtx) *erpc.Status {
	if c := cur; c != nil && p.idx == 0 && c.parkPostWrite != nil {
		close(c.parkReached)
		<-c.parkPostWrite
	}
	return nil
}

type cplugin struct{ idx int }

func (p cplugin) Name() string                                { return "client-verdict-" + strconv.Itoa(p.idx) }
func (p cplugin) PreWriteCall(erpc.WriteCtx) *erpc.Status       { return chainAct(curC(), "pwc", p.idx) }
func (p cplugin) PostReadReplyHeader(erpc.ReadCtx) *erpc.Status { return chainAct(curC(), "porh", p.idx) }
func (p cplugin) PreReadReplyBody(erpc.ReadCtx) *erpc.Status    { return chainAct(curC(), "prrb", p.idx) }
func (p cplugin) PostReadReplyBody(erpc.ReadCtx) *erpc.Status   { return chainAct(curC(), "porrb", p.idx) }

func curS() map[string]statusSpec {
	if cur == nil {
		return nil
	}
	return cur.sVerdict
}
func curC() map[string]statusSpec {
	if cur == nil {
		return nil
	}
	return cur.cVerdict
}

// ---------------------------------------------------------------- handlers

type Arg struct {
	A int    `json:"a" xml:"a"`
	S string `json:"s" xml:"s"`
}
type Res struct {
	R int    `json:"r" xml:"r"`
	S string `json:"s" xml:"s"`
}

var killConn func() // closes the server side of the current connection

// act runs the handler behaviour of the current case: (failed, status to return)
func act() (bool, *erpc.Status) {
	c := cur
	if c == nil {
		return false, nil
	}
	c.invoked++
	if c.failure == "f102" && killConn != nil {
		killConn()
	}
	switch c.handler {
	case "status":
		st := erpc.NewStatus(c.hstat.code, c.hstat.msg, c.hstat.cause)
		return c.hstat.code != 0, st // code 0: a non-nil OK status next to the result
	case "panic":
		panic(c.pval)
	}
	return false, nil
}

// H: struct argument (json / xml codecs)
func H(ctx erpc.CallCtx, a *Arg) (interface{}, *erpc.Status) {
	failed, st := act()
	if failed {
		return nil, st
	}
	if cur != nil && cur.handler == "nilresult" {
		return nil, st
	}
	if cur != nil && cur.handler == "unmarshalable" {
		return make(chan int), st // no body codec can marshal a channel
	}
	if cur != nil && cur.mismatch {
		return 3, st
	}
	return &Res{R: a.A + 1, S: a.S + "!"}, st
}

// HS: string argument (plain codec)
func HS(ctx erpc.CallCtx, a *string) (interface{}, *erpc.Status) {
	failed, st := act()
	if failed {
		return nil, st
	}
	if cur != nil && cur.handler == "nilresult" {
		return nil, st
	}
	return *a + "!", st
}

// HT: thrift struct argument (thrift codec)
func HT(ctx erpc.CallCtx, a *Test) (*Test, *erpc.Status) {
	failed, st := act()
	if failed {
		return nil, st
	}
	return &Test{Author: a.Author + "!"}, st
}

// HP: protobuf message argument (protobuf codec)
func HP(ctx erpc.CallCtx, a *pb.Payload) (*pb.Payload, *erpc.Status) {
	failed, st := act()
	if failed {
		return nil, st
	}
	return &pb.Payload{ServiceMethod: a.ServiceMethod + "!", Seq: a.Seq + 1}, st
}

// ---------------------------------------------------------------- connection management

type link struct {
	proto   string
	pf      erpc.ProtoFunc
	srv     erpc.Peer
	cli     erpc.Peer
	sess    erpc.Session
	srvConn net.Conn
	wsAddr  string
	wsCli   *ws.Client
	pathH   string
	pathHS  string
	pathHT  string
	pathHP  string
}

func newLink(proto string) *link {
	l := &link{proto: proto}
	switch proto {
	case "raw":
	case "json":
		l.pf = jsonproto.NewJSONProtoFunc()
	case "pb":
		l.pf = pbproto.NewPbProtoFunc()
	case "http":
		l.pf = httproto.NewHTTProtoFunc()
	case "thrift-binary":
		l.pf = thriftproto.NewBinaryProtoFunc()
	case "thrift-struct":
		l.pf = thriftproto.NewStructProtoFunc()
	case "ws-json":
		l.pf = jsonSubProto.NewJSONSubProtoFunc()
	case "ws-pb":
		l.pf = pbSubProto.NewPbSubProtoFunc()
	default:
		Must(errors.New("unknown protocol " + proto))
	}
	l.srv = erpc.NewPeer(erpc.PeerConfig{}, splugin{0}, splugin{1}, splugin{2})
	l.pathH = l.srv.RouteCallFunc(H)
	l.pathHS = l.srv.RouteCallFunc(HS)
	l.pathHT = l.srv.RouteCallFunc(HT)
	l.pathHP = l.srv.RouteCallFunc(HP)
	if strings.HasPrefix(proto, "ws-") {
		lis, err := net.Listen("tcp", "127.0.0.1:0")
		Must(err)
		l.wsAddr = lis.Addr().String()
		go http.Serve(lis, ws.NewServeHandler(l.srv, nil, l.pf))
		l.wsCli = ws.NewClient("/", erpc.PeerConfig{}, cplugin{0}, cplugin{1}, cplugin{2})
	} else {
		l.cli = erpc.NewPeer(erpc.PeerConfig{}, cplugin{0}, cplugin{1}, cplugin{2})
	}
	return l
}

func (l *link) session() erpc.Session {
	if l.sess != nil && l.sess.Health() {
		return l.sess
	}
	killConn = nil
	if l.wsCli != nil {
		sess, st := l.wsCli.Dial(l.wsAddr, l.pf)
		if !st.OK() {
			Must(errors.New("websocket dial: " + st.String()))
		}
		l.sess = sess
		return sess
	}
	cc, sc := TCPPair()
	var pfs []erpc.ProtoFunc
	if l.pf != nil {
		pfs = append(pfs, l.pf)
	}
	done := make(chan struct{})
	go func() {
		_, st := l.srv.ServeConn(sc, pfs...)
		if !st.OK() {
			Must(errors.New("ServeConn: " + st.String()))
		}
		close(done)
	}()
	sess, st := l.cli.ServeConn(cc, pfs...)
	if !st.OK() {
		Must(errors.New("ServeConn: " + st.String()))
	}
	<-done
	l.sess = sess
	l.srvConn = sc
	killConn = func() { sc.Close() }
	return sess
}

// ---------------------------------------------------------------- running one case

type observation struct {
	hung        bool
	code        int32
	msg, cause  string
	resultMatch bool   // the caller's result holds the handler's result
	resultRepr  string // for humans
}

func rawFields(st *erpc.Status) (msg, cause string) {
	for _, kv := range strings.Split(string(st.EncodeQuery()), "&") {
		i := strings.IndexByte(kv, '=')
		if i < 0 {
			continue
		}
		v := unquote(kv[i+1:])
		switch kv[:i] {
		case "msg":
			msg = v
		case "cause":
			cause = v
		}
	}
	return
}

func unquote(s string) string {
	var b []byte
	for i := 0; i < len(s); i++ {
		if s[i] == '%' && i+2 < len(s)+1 && i+3 <= len(s) {
			if x, err := strconv.ParseUint(s[i+1:i+3], 16, 8); err == nil {
				b = append(b, byte(x))
				i += 2
				continue
			}
		}
		b = append(b, s[i])
	}
	return string(b)
}

func (l *link) run(c *caseCfg) observation {
	sess := l.session()
	cur = c
	defer func() { cur = nil }()
	var (
		sm     string
		args   interface{}
		result interface{}
		check  func() (bool, string)
	)
	switch {
	case c.codec == 't' && c.mismatch:
		// a result object that is not a thrift struct
		sm = l.pathHT
		args = &Test{Author: "ann"}
		var r string
		result = &r
		check = func() (bool, string) { return false, fmt.Sprintf("%q", r) }
	case c.codec == 't':
		sm = l.pathHT
		args = &Test{Author: "ann"}
		r := &Test{}
		result = r
		check = func() (bool, string) { return r.Author == "ann!", fmt.Sprintf("%q", r.Author) }
	case c.codec == 'p':
		sm = l.pathHP
		args = &pb.Payload{ServiceMethod: "ann", Seq: 6}
		r := &pb.Payload{}
		result = r
		check = func() (bool, string) {
			return r.ServiceMethod == "ann!" && r.Seq == 7, fmt.Sprintf("%q/%d", r.ServiceMethod, r.Seq)
		}
	case c.codec == 's':
		sm = l.pathHS
		a := "plain"
		args = &a
		var r string
		result = &r
		check = func() (bool, string) { return r == "plain!", fmt.Sprintf("%q", r) }
	default:
		sm = l.pathH
		args = &Arg{A: 41, S: "x"}
		if c.mismatch {
			var r string // the handler returns the number 3
			result = &r
			check = func() (bool, string) { return false, fmt.Sprintf("%q", r) }
		} else {
			r := &Res{}
			result = r
			check = func() (bool, string) { return r.R == 42 && r.S == "x!", fmt.Sprintf("%+v", *r) }
		}
	}
	switch c.failure {
	case "f404":
		sm = sm + "/nope"
		if !strings.HasPrefix(sm, "/") {
			sm = "No.Such"
		}
	case "f400":
		// arguments the handler's argument type cannot hold
		switch c.codec {
		case 'j':
			b := []byte(`"not a struct"`)
			args = &b
		case 'x':
			b := []byte(`<Arg><a>notanumber</a></Arg>`)
			args = &b
		}
	}
	doneCh := make(chan erpc.CallCmd, 1)
	settings := []erpc.MessageSetting{erpc.WithBodyCodec(c.codec)}
	if c.pipe != 0 {
		settings = append(settings, erpc.WithXferPipe(c.pipe))
	}
	go func() { doneCh <- sess.Call(sm, args, result, settings...) }()
	var o observation
	select {
	case cmd := <-doneCh:
		st := cmd.Status()
		o.code = st.Code()
		if st != nil {
			o.msg, o.cause = rawFields(st)
		}
	case <-time.After(callWatchdog):
		o.hung = true
		// the session is unusable for further cases; a graceful Close would wait for the
		// call that never completes, so it must not be waited for
		if l.srvConn != nil {
			l.srvConn.Close()
		}
		go sess.Close()
		l.sess = nil
		hangs++
		return o
	}
	o.resultMatch, o.resultRepr = check()
	if c.mismatch && c.proto == "thrift-struct" {
		// the reply could not even be read: the caller's read loop ended
		WaitUntil(5*time.Second, func() bool { return !sess.Health() })
		l.sess = nil
	}
	if c.failure == "f102" {
		WaitUntil(5*time.Second, func() bool { return !sess.Health() })
		l.sess = nil
	}
	return o
}

// runPoolStarved: the process-wide goroutine pool has room for the two read loops and ONE
// handler; the server's handler goroutine is kept busy in PostWriteReply after the reply is on
// the wire, so the caller's read loop finds no goroutine for the reply it has just read.
func (l *link) runPoolStarved(c *caseCfg) (observation, bool) {
	if l.sess != nil {
		go l.sess.Close()
		l.sess = nil
	}
	erpc.SetGopool(3, time.Minute)
	defer func() {
		erpc.SetGopool(1<<20, time.Minute)
		l.sess = nil // its read loops belong to the small pool
	}()
	c.parkPostWrite, c.parkReached = make(chan struct{}), make(chan struct{})
	released := false
	release := func() {
		if !released {
			released = true
			close(c.parkPostWrite)
		}
	}
	defer release()
	res := make(chan observation, 1)
	go func() { res <- l.run(c) }()
	select {
	case <-c.parkReached:
	case o := <-res:
		// the server had no goroutine either (or the call failed earlier): not the scenario
		_ = o
		return o, false
	}
	select {
	case o := <-res:
		return o, true
	case <-time.After(callWatchdog + 2*time.Second):
		return observation{hung: true}, true
	}
}

// ---------------------------------------------------------------- expectation (the property)

type expectation struct {
	ok       bool
	st       statusSpec
	codeOnly bool // framework status whose cause is a library text
	decoded  bool
}

// every shipped protocol but the websocket protobuf sub-protocol has a status field
func hasStatusField(proto string) bool { return proto != "ws-pb" }

func (c *caseCfg) serverStatus() (statusSpec, bool, bool) { // status, codeOnly, isErr
	if v, ok := c.sVerdict["prch"]; ok && v.code != 0 {
		return v, false, true
	}
	if c.failure == "f404" {
		return statusSpec{404, "Not Found", ""}, false, true
	}
	if v, ok := c.sVerdict["prcb"]; ok && v.code != 0 {
		return v, false, true
	}
	if c.failure == "f400" {
		return statusSpec{400, "Bad Message", ""}, true, true
	}
	if v, ok := c.sVerdict["porcb"]; ok && v.code != 0 {
		return v, false, true
	}
	if c.failure == "f102" {
		return statusSpec{102, "Connection Closed", ""}, true, true
	}
	switch c.handler {
	case "unmarshalable":
		return statusSpec{500, "Internal Server Error", ""}, true, true
	case "panic":
		return statusSpec{500, "Internal Server Error", c.pval}, false, true
	case "status":
		if c.hstat.code != 0 {
			return c.hstat, false, true
		}
	}
	return statusSpec{}, false, false
}

func (c *caseCfg) expect() expectation {
	if v, ok := c.cVerdict["pwc"]; ok && v.code != 0 {
		return expectation{st: v}
	}
	ss, codeOnly, isErr := c.serverStatus()
	if c.failure != "f102" {
		if v, ok := c.cVerdict["porh"]; ok && v.code != 0 {
			return expectation{st: v}
		}
		if v, ok := c.cVerdict["prrb"]; ok && v.code != 0 {
			return expectation{st: v}
		}
	}
	if isErr {
		return expectation{st: ss, codeOnly: codeOnly}
	}
	if c.mismatch && c.handler != "nilresult" {
		return expectation{st: statusSpec{400, "Bad Message", ""}, codeOnly: true}
	}
	decoded := c.handler != "nilresult"
	if v, ok := c.cVerdict["porrb"]; ok && v.code != 0 {
		return expectation{st: v, decoded: decoded}
	}
	return expectation{ok: true, decoded: decoded}
}

func (c *caseCfg) human() string {
	pipe := "none"
	if c.pipe != 0 {
		pipe = string(c.pipe)
	}
	return fmt.Sprintf("proto=%s codec=%c pipe=%s failure=%s server=%v client=%v pos=%v decoy=%v handler=%s hstat=%v panic=%q mismatch=%v",
		c.proto, c.codec, pipe, c.failure, c.sVerdict, c.cVerdict, c.pos, c.decoy, c.handler, c.hstat, c.pval, c.mismatch)
}

func oracle(st *Stats, idx int, c *caseCfg, o observation) {
	e := c.expect()
	h := c.human()
	got := fmt.Sprintf("(%d,%q,%q) result=%s", o.code, o.msg, o.cause, o.resultRepr)
	if o.hung {
		st.Fail(idx, "caller-never-completes", "the call never completed (watchdog 15 s)", h)
		return
	}
	if c.invoked > 1 {
		st.Fail(idx, "handled-twice", "handler ran more than once", h)
	}
	for _, vm := range []map[string]statusSpec{c.sVerdict, c.cVerdict} {
		for stage, v := range vm {
			if v.code == 0 {
				continue
			}
			for _, k := range c.called[stage] {
				if k > c.position(stage) {
					st.Fail(idx, "plugin-chain-continued", fmt.Sprintf("stage %s: plugin %d was still called after plugin %d refused", stage, k, c.position(stage)), h)
				}
			}
		}
	}
	_, _, serverErr := c.serverStatus()
	if e.ok {
		if o.code != 0 {
			st.Fail(idx, "ok-iff", "handler succeeded and the reply was decodable but the caller sees "+got, h)
		} else if o.resultMatch != e.decoded {
			st.Fail(idx, "result", "caller's result does not hold the handler's result: "+got, h)
		}
		return
	}
	mismatch := o.code != e.st.code || o.msg != e.st.msg || (!e.codeOnly && o.cause != e.st.cause)
	if ss, _, _ := c.serverStatus(); mismatch && !hasStatusField(c.proto) && serverErr && e.st == ss {
		// the failure was produced on the serving side and the frame format cannot carry it:
		// the caller sees OK (or whatever its own reply hooks make of an OK reply)
		st.Fail(idx, "ws-subproto-no-status", fmt.Sprintf("the call failed with %v but the caller sees %s", e.st, got), h)
		return
	}
	if o.code == 0 {
		st.Fail(idx, "ok-iff", fmt.Sprintf("caller sees OK but the call failed with %v: got %s", e.st, got), h)
		return
	}
	if mismatch {
		st.Fail(idx, "status-exact", fmt.Sprintf("expected %v got %s", e.st, got), h)
	}
	if o.resultMatch && !e.decoded {
		st.Fail(idx, "result", "a failed call filled the caller's result: "+got, h)
	}
}

// ---------------------------------------------------------------- model input / observation

func causeVal(text string, lib bool) string {
	if lib {
		return VS("lib")
	}
	return VL(VS("text"), VB([]byte(text)))
}

func statVal(s statusSpec) string {
	return VL(VZ(int64(s.code)), VB([]byte(s.msg)), causeVal(s.cause, false))
}

func verdictVal(s statusSpec) string {
	return VL(VS("stat"), VZ(int64(s.code)), VB([]byte(s.msg)), causeVal(s.cause, false))
}

func (c *caseCfg) inputs() string {
	// server frame in the C03 syntax
	var vs []string
	for _, stg := range []string{"prch", "prcb", "porcb"} {
		vs = append(vs, VL(VS(stg), c.chainVal(c.sVerdict, stg)))
	}
	route, read := "known", VS("bodyok")
	if c.failure == "f404" {
		route = "none"
	}
	if c.failure == "f400" {
		read = VL(VS("bodyerr"), VBool(true))
	}
	h := VL(VS("ret"))
	switch c.handler {
	case "status":
		h = VL(VS("ret"), statVal(c.hstat))
	case "panic":
		h = VL(VS("panic"), causeVal(c.pval, false))
	}
	w := "ok"
	if c.failure == "f102" {
		w = "closed"
	}
	wok := w
	if c.handler == "unmarshalable" && w == "ok" {
		wok = "refused"
	}
	frame := VL(VZ(1), VB([]byte{1}), VBool(false), VS(route), read, VL(vs...), h,
		VS(wok), VS(w), VS(w), VBool(false), VBool(false), VBool(true), VBool(true))
	cv := func(k string) string { return c.chainVal(c.cVerdict, k) }
	pw := cv("pwc")
	dec := VS("ok")
	if c.mismatch {
		// json: the codec is known when decoding fails; thrift struct protocol: the body codec
		// is only recorded after the struct was read
		dec = VL(VS("err"), VBool(c.proto != "thrift-struct"))
	}
	return VL(VBool(hasStatusField(c.proto)), VBool(true), frame, pw, cv("porh"), cv("prrb"), cv("porrb"), dec,
		VBool(c.handler != "nilresult"), VBool(true))
}

func (c *caseCfg) observedVal(o observation) string {
	if o.hung {
		return VS("hangs")
	}
	st := VS("ok")
	if o.code != 0 {
		lib := false
		switch {
		case o.code == 400 && o.msg == "Bad Message", o.code == 102 && o.msg == "Connection Closed":
			lib = true
		case o.code == 500 && o.msg == "Internal Server Error" && c.handler == "unmarshalable":
			lib = true
		}
		for _, v := range c.sVerdict {
			if v.cause == o.cause && v.code == o.code {
				lib = false
			}
		}
		for _, v := range c.cVerdict {
			if v.cause == o.cause && v.code == o.code {
				lib = false
			}
		}
		if c.handler == "status" && c.hstat.cause == o.cause && c.hstat.code == o.code {
			lib = false
		}
		st = VL(VZ(int64(o.code)), VB([]byte(o.msg)), causeVal(o.cause, lib))
	}
	return VL(st, VBool(o.resultMatch))
}

// ---------------------------------------------------------------- generation

func genText(cfg *RunCfg, utf8Only bool) string {
	r := cfg.Rng
	switch r.Intn(10) {
	case 0:
		return ""
	case 1:
		return "plain text"
	case 2:
		return "a&b=c%d+e f%zz%4"
	case 3:
		return "q\"uo\\te\n\r\t\x00\x01\x1f"
	case 4:
		return "héllo wörld ✓    𝄞"
	case 5: // every byte value once in a while
		n := 1 + r.Intn(24)
		b := make([]byte, n)
		for i := range b {
			b[i] = byte(r.Intn(256))
		}
		if utf8Only {
			return strings.ToValidUTF8(string(b), "?")
		}
		return string(b)
	case 6:
		if utf8Only {
			return "<>&'\"{}[]:,"
		}
		return "\xff\xfe\x80abc\xc3"
	case 7:
		return strings.Repeat("long-", 100+r.Intn(300))
	case 8:
		return "code=7&msg=x&cause=y"
	default:
		return "m" + strconv.Itoa(r.Intn(1000))
	}
}

func genStatus(cfg *RunCfg, utf8Only bool, tag string, allowZero bool) statusSpec {
	r := cfg.Rng
	codes := []int32{1, -1, 2, 1000, 1001, 404, 400, 500, 102, 405, 299, 65536, math.MaxInt32, math.MinInt32, math.MaxInt32 - 1, -1000}
	s := statusSpec{code: codes[r.Intn(len(codes))]}
	if allowZero && r.Intn(12) == 0 {
		s.code = 0
	}
	if r.Intn(8) == 0 {
		s.code = int32(r.Uint32())
		if s.code == 0 && !allowZero {
			s.code = 7
		}
	}
	s.msg = genText(cfg, utf8Only)
	// the cause carries a tag so that the harness recognises its own statuses
	s.cause = tag + ":" + genText(cfg, utf8Only)
	if r.Intn(10) == 0 {
		s.cause = ""
	}
	return s
}

func codecsFor(proto string) []byte {
	switch proto {
	case "thrift-struct":
		return []byte{'t'}
	case "thrift-binary":
		return []byte{'j', 's', 'x', 'p', 't'}
	}
	return []byte{'j', 's', 'x', 'p'}
}

func genCase(cfg *RunCfg, proto string) *caseCfg {
	r := cfg.Rng
	utf8Only := proto == "http"
	c := &caseCfg{proto: proto, failure: "none", handler: "ok", sVerdict: map[string]statusSpec{}, cVerdict: map[string]statusSpec{}}
	cs := codecsFor(proto)
	c.codec = cs[r.Intn(len(cs))]
	switch k := r.Intn(20); {
	case k < 4:
	case k < 10:
		c.handler = "status"
		c.hstat = genStatus(cfg, utf8Only, "hs", true)
	case k < 12:
		c.handler = "panic"
		c.pval = "hp:" + genText(cfg, utf8Only)
	case k == 12:
		if c.codec != 't' && c.codec != 'p' { // HT's / HP's result type is a pointer: a nil result would be a typed nil
			c.handler = "nilresult"
		}
	case k < 15:
		c.failure = "f404"
	case k < 17:
		if c.codec == 'j' || c.codec == 'x' {
			c.failure = "f400"
		}
	case k == 17:
		if !strings.HasPrefix(proto, "ws-") {
			c.failure = "f102"
		}
	default:
		if c.codec == 'j' || proto == "thrift-struct" {
			c.mismatch = true
		}
	}
	if c.handler == "ok" && c.failure == "none" && !c.mismatch && (c.codec == 'j' || c.codec == 'x') && r.Intn(8) == 0 {
		c.handler = "unmarshalable"
	}
	if r.Intn(4) == 0 {
		stg := []string{"prch", "prcb", "porcb"}[r.Intn(3)]
		c.sVerdict[stg] = genStatus(cfg, utf8Only, "sp-"+stg, true)
		if v := c.sVerdict[stg]; v.code == 405 && stg != "porcb" {
			v.code = 406 // 405 from a pre-handler stage disconnects (C03), not a status case
			c.sVerdict[stg] = v
		}
	}
	if r.Intn(5) == 0 {
		stg := []string{"pwc", "porh", "prrb", "porrb"}[r.Intn(4)]
		c.cVerdict[stg] = genStatus(cfg, true, "cp-"+stg, true)
	}
	if c.mismatch && proto == "thrift-struct" {
		// this protocol always carries a struct, even in an error reply: with a result object
		// that is not a thrift struct NO reply can be read (400); keep the class to what the
		// property speaks about, an OK reply that cannot be decoded
		c.sVerdict = map[string]statusSpec{}
		c.handler, c.failure = "ok", "none"
	}
	c.pos, c.decoy = map[string]int{}, map[string]statusSpec{}
	for _, vm := range []map[string]statusSpec{c.sVerdict, c.cVerdict} {
		for stg, v := range vm {
			c.pos[stg] = r.Intn(3)
			if v.code != 0 && c.pos[stg] < 2 && r.Intn(2) == 0 {
				d := genStatus(cfg, true, "decoy-"+stg, true)
				c.decoy[stg] = d
			}
		}
	}
	switch proto {
	case "thrift-struct":
	case "http":
		c.pipe = []byte{0, 0, 'g'}[r.Intn(3)]
	default:
		c.pipe = []byte{0, 0, 'g', 'm'}[r.Intn(4)]
	}
	if c.failure == "f102" {
		// the reply never arrives: client-side reply hooks do not run; keep the case simple
		c.sVerdict = map[string]statusSpec{}
		c.handler = "ok"
		delete(c.cVerdict, "porh")
		delete(c.cVerdict, "prrb")
		delete(c.cVerdict, "porrb")
	}
	return c
}

// ---------------------------------------------------------------- scripted server (caller side alone)

// rawLink: the client peer's session talks to a RawPeer that answers with whatever status and
// body the case says - including a non-OK status together with a body, which the framework's
// own serving side never sends.
type rawLink struct {
	l    *link
	sess erpc.Session
	rp   *RawPeer
}

type rawCase struct {
	c      *caseCfg // carries the client verdicts
	ok     bool
	st     statusSpec
	body   string // none | good | bad
	result Res
}

func (r *rawLink) session() erpc.Session {
	if r.sess != nil && r.sess.Health() {
		return r.sess
	}
	cc, sc := TCPPair()
	var pfs []erpc.ProtoFunc
	var spf []socket.ProtoFunc
	if r.l.pf != nil {
		pfs = append(pfs, r.l.pf)
		spf = append(spf, socket.ProtoFunc(r.l.pf))
	}
	sess, st := r.l.cli.ServeConn(cc, pfs...)
	if !st.OK() {
		Must(errors.New("ServeConn: " + st.String()))
	}
	r.sess = sess
	r.rp = NewRawPeer(sc, spf...)
	return sess
}

func (r *rawLink) run(rc *rawCase) observation {
	sess := r.session()
	cur = rc.c
	defer func() { cur = nil }()
	doneCh := make(chan erpc.CallCmd, 1)
	go func() {
		doneCh <- sess.Call("/any/route", &Arg{A: 1}, &rc.result, erpc.WithBodyCodec('j'))
	}()
	req, err := r.rp.Recv(callWatchdog)
	if err != nil {
		// the request never arrived: the call cannot complete normally
		r.rp.Conn.Close()
		r.sess = nil
		hangs++
		return observation{hung: true}
	}
	var body []byte
	switch rc.body {
	case "good":
		body = []byte(`{"r":42,"s":"x!"}`)
	case "bad":
		body = []byte(`"a string, not a struct"`)
	}
	Must(r.rp.Send(func(m socket.Message) {
		m.SetMtype(erpc.TypeReply)
		m.SetSeq(req.Seq())
		m.SetBodyCodec('j')
		if !rc.ok {
			m.SetStatus(erpc.NewStatus(rc.st.code, rc.st.msg, rc.st.cause))
		}
		if body != nil {
			m.SetBody(body)
		}
	}))
	var o observation
	select {
	case cmd := <-doneCh:
		st := cmd.Status()
		o.code = st.Code()
		if st != nil {
			o.msg, o.cause = rawFields(st)
		}
	case <-time.After(callWatchdog):
		o.hung = true
		r.rp.Conn.Close()
		r.sess = nil
		hangs++
		return o
	}
	o.resultMatch = rc.result.R == 42 && rc.result.S == "x!"
	o.resultRepr = fmt.Sprintf("%+v", rc.result)
	return o
}

func genRawCase(cfg *RunCfg, proto string) *rawCase {
	r := cfg.Rng
	rc := &rawCase{c: &caseCfg{proto: proto, codec: 'j', sVerdict: map[string]statusSpec{}, cVerdict: map[string]statusSpec{}}}
	rc.ok = r.Intn(3) == 0
	if !rc.ok {
		rc.st = genStatus(cfg, proto == "http", "rs", false)
	}
	rc.body = []string{"none", "good", "good", "bad"}[r.Intn(4)]
	if proto == "http" && !rc.ok {
		rc.body = "none" // a 299 response's body IS the status
	}
	if r.Intn(4) == 0 {
		stg := []string{"porh", "prrb", "porrb"}[r.Intn(3)]
		rc.c.cVerdict[stg] = genStatus(cfg, true, "cp-"+stg, true)
	}
	return rc
}

func (rc *rawCase) human() string {
	return fmt.Sprintf("proto=%s scripted-server ok=%v status=%v body=%s client=%v", rc.c.proto, rc.ok, rc.st, rc.body, rc.c.cVerdict)
}

func (rc *rawCase) inputs() string {
	cv := func(k string) string {
		if v, ok := rc.c.cVerdict[k]; ok {
			return verdictVal(v)
		}
		return VS("nil")
	}
	st := VS("ok")
	if !rc.ok {
		st = statVal(rc.st)
	}
	dec := VS("ok")
	if rc.body == "bad" {
		dec = VL(VS("err"), VBool(true))
	}
	return VL(VS("raw"), VBool(true), st, VBool(rc.body != "none"), cv("porh"), cv("prrb"), cv("porrb"), dec, VBool(true))
}

func rawOracle(st *Stats, idx int, rc *rawCase, o observation) {
	h := rc.human()
	got := fmt.Sprintf("(%d,%q,%q) result=%+v", o.code, o.msg, o.cause, rc.result)
	if o.hung {
		st.Fail(idx, "caller-never-completes", "the call never completed (watchdog 15 s)", h)
		return
	}
	var want *statusSpec
	codeOnly := false
	if v, ok := rc.c.cVerdict["porh"]; ok && v.code != 0 {
		want = &v
	} else if v, ok := rc.c.cVerdict["prrb"]; ok && v.code != 0 {
		want = &v
	} else if !rc.ok {
		want = &rc.st
	} else if rc.body == "bad" {
		want, codeOnly = &statusSpec{400, "Bad Message", ""}, true
	} else if v, ok := rc.c.cVerdict["porrb"]; ok && v.code != 0 {
		want = &v
	}
	if want == nil {
		if o.code != 0 {
			st.Fail(idx, "ok-iff", "the reply was OK and decodable but the caller sees "+got, h)
		} else if o.resultMatch != (rc.body == "good") {
			st.Fail(idx, "result", "caller's result does not hold the reply body: "+got, h)
		}
		return
	}
	if o.code == 0 {
		st.Fail(idx, "ok-iff", fmt.Sprintf("caller sees OK but the reply/hooks said %v: got %s", *want, got), h)
		return
	}
	if o.code != want.code || o.msg != want.msg || (!codeOnly && o.cause != want.cause) {
		st.Fail(idx, "status-exact", fmt.Sprintf("expected %v got %s", *want, got), h)
	}
}

// ---------------------------------------------------------------- main

func child(cfg *RunCfg, proto string) {
	Quiet()
	gzip.Reg('g', "gzip", 5)
	md5.Reg('m', "md5")
	st := NewStats("C04", cfg)
	w := NewCaseWriter(cfg)
	l := newLink(proto)
	distinct := DistinctSet{}
	rl := &rawLink{l: l}
	scripted := proto == "raw" || proto == "json" || proto == "pb" || proto == "http" || proto == "thrift-binary"
	// deliberate sequence: a call answered with a non-OK status, then a plain successful call
	// on the same codec whose reply is read on a recycled (process-wide pooled) context
	var followUp *caseCfg
	ran := 0
	for i := 0; i < cfg.N; i++ {
		if hangs >= maxHangs {
			st.Count("aborted-after-hangs")
			break
		}
		ran++
		if followUp != nil {
			c := followUp
			followUp = nil
			o := l.run(c)
			st.Count("proto:" + proto)
			st.Count("sequence:ok-after-error")
			oracle(st, i, c, o)
			w.Add(c.inputs(), c.observedVal(o))
			continue
		}
		if scripted && i%6 == 5 {
			rc := genRawCase(cfg, proto)
			o := rl.run(rc)
			st.Count("proto:" + proto)
			st.Count("scripted-server:body-" + rc.body)
			if !rc.ok && rc.body != "none" {
				st.Count("scripted-server:status-with-body")
			}
			rawOracle(st, i, rc, o)
			w.Add(rc.inputs(), rc.c.observedVal(o))
			distinct.Add(rc.human())
			continue
		}
		if i%40 == 17 {
			c := &caseCfg{proto: proto, codec: codecsFor(proto)[0], failure: "none", handler: "ok",
				sVerdict: map[string]statusSpec{}, cVerdict: map[string]statusSpec{}}
			o, scenario := l.runPoolStarved(c)
			if !scenario {
				st.Count("pool-starved:not-reached")
				continue
			}
			st.Count("proto:" + proto)
			st.Count("pool-starved:reply-without-goroutine")
			oracle(st, i, c, o)
			w.Add(c.inputs(), c.observedVal(o))
			continue
		}
		c := genCase(cfg, proto)
		if i%7 == 3 && c.failure != "f102" {
			// first half of the deliberate sequence
			c.sVerdict, c.cVerdict, c.mismatch = map[string]statusSpec{}, map[string]statusSpec{}, false
			if cfg.Rng.Intn(2) == 0 {
				c.failure, c.handler = "f404", "ok"
			} else {
				c.failure, c.handler = "none", "status"
				c.hstat = genStatus(cfg, proto == "http", "hs", false)
			}
			followUp = &caseCfg{proto: proto, codec: c.codec, failure: "none", handler: "ok",
				sVerdict: map[string]statusSpec{}, cVerdict: map[string]statusSpec{}}
		}
		o := l.run(c)
		st.Count("proto:" + proto)
		st.Count(fmt.Sprintf("codec:%c", c.codec))
		if c.pipe != 0 {
			st.Count(fmt.Sprintf("pipe:%c", c.pipe))
			if _, _, e := c.serverStatus(); e {
				st.Count("pipe:with-error-reply")
			}
		}
		for stg := range c.pos {
			st.Count(fmt.Sprintf("veto-position:%d", c.pos[stg]))
			_ = stg
		}
		st.Count("handler:" + c.handler)
		st.Count("failure:" + c.failure)
		if c.mismatch {
			st.Count("result:mismatch")
		}
		for k := range c.sVerdict {
			st.Count("server-veto:" + k)
		}
		for k := range c.cVerdict {
			st.Count("client-veto:" + k)
		}
		if !utf8.ValidString(c.hstat.msg) || !utf8.ValidString(c.hstat.cause) {
			st.Count("status:non-utf8")
		}
		oracle(st, i, c, o)
		w.Add(c.inputs(), c.observedVal(o))
		if c.handler != "ok" || c.failure != "none" || len(c.sVerdict)+len(c.cVerdict) > 0 || c.mismatch {
			distinct.Add(c.human())
		}
		if len(st.Samples) < 2 {
			st.Samples = append(st.Samples, c.human()+" => "+c.observedVal(o))
		}
	}
	st.Evaluations = ran
	st.DistinctNontrivial = len(distinct)
	st.Write(cfg, w)
}

func main() {
	proto := flag.String("proto", "", "run one protocol (internal)")
	cfg := ParseFlags()
	if *proto != "" {
		child(cfg, *proto)
		return
	}
	// parent: one child process per protocol, outputs merged in protocol order
	self, err := os.Executable()
	Must(err)
	per := cfg.N / len(protoNames)
	if per < 1 {
		per = 1
	}
	type res struct {
		out []byte
		err error
	}
	results := make([]chan res, len(protoNames))
	for i, p := range protoNames {
		i, p := i, p
		results[i] = make(chan res, 1)
		dir := filepath.Join(cfg.Out, "proto-"+p)
		go func() {
			cmd := exec.Command(self, "-proto", p, "-seed", strconv.FormatInt(cfg.Seed+int64(i)*7919, 10),
				"-n", strconv.Itoa(per), "-out", dir, "-tier", cfg.Tier)
			out, err := cmd.CombinedOutput()
			results[i] <- res{out, err}
		}()
	}
	merged := NewStats("C04", cfg)
	merged.Rule = "cases = complete calls client peer -> server peer over each of the 8 shipped protocols (own process each) x body codec {json, plain, xml, protobuf, thrift where supported} x {handler ok / generated status (codes incl. 0, +-1, 1000, int32 extremes, random; msg and cause over all byte values incl. & = % +, non-UTF-8 where the status field is query-encoded, valid UTF-8 for httproto's JSON) / panic / nil result} x framework failure {404 unknown route, 400 undecodable arguments, 102 connection closed during the handler} x transfer pipe {none, gzip, md5 where the protocol allows} x server plugin veto at {postReadCallHeader, preReadCallBody, postReadCallBody} x client plugin veto at {preWriteCall, postReadReplyHeader, preReadReplyBody, postReadReplyBody}, every stage being a chain of 3 plugins with the vetoing one first / middle / last and sometimes a different refusal behind it x caller result type {matching, unable to hold the reply}; distinct by case description; non-trivial = anything but a plain successful call"
	var all bytes.Buffer
	base := 0
	for i, p := range protoNames {
		r := <-results[i]
		dir := filepath.Join(cfg.Out, "proto-"+p)
		sb, serr := ioutil.ReadFile(filepath.Join(dir, "stats.json"))
		if r.err != nil || serr != nil {
			fmt.Fprintf(os.Stderr, "child %s failed: %v\n%s\n", p, r.err, r.out)
			os.Exit(3)
		}
		var cs Stats
		Must(json.Unmarshal(sb, &cs))
		cb, err := ioutil.ReadFile(filepath.Join(dir, "cases.txt"))
		Must(err)
		all.Write(cb)
		merged.Evaluations += cs.Evaluations
		merged.DistinctNontrivial += cs.DistinctNontrivial
		for k, v := range cs.Distribution {
			merged.Distribution[k] += v
		}
		merged.Samples = append(merged.Samples, cs.Samples...)
		for _, f := range cs.OracleFailures {
			f.Index += base
			if len(merged.OracleFailures) < 400 {
				merged.OracleFailures = append(merged.OracleFailures, f)
			}
		}
		base += cs.Evaluations
	}
	if len(merged.Samples) > 10 {
		merged.Samples = merged.Samples[:10]
	}
	Must(ioutil.WriteFile(filepath.Join(cfg.Out, "cases.txt"), all.Bytes(), 0o644))
	merged.Write(cfg, nil)
}
