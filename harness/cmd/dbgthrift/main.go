package main

import (
	"encoding/hex"
	"fmt"
	"os"
	"runtime"
	"runtime/pprof"
	"time"

	. "verifharness/hlib"

	erpc "github.com/henrylee2cn/erpc/v6"
	"github.com/henrylee2cn/erpc/v6/proto/thriftproto"
)

func echo(ctx erpc.CallCtx, arg *[]byte) ([]byte, *erpc.Status) { return *arg, nil }

func main() {
	Quiet()
	s, _ := hex.DecodeString(os.Args[1])
	erpc.SetReadLimit(4096)
	srv := erpc.NewPeer(erpc.PeerConfig{PrintDetail: true, CountTime: true})
	srv.RouteCallFunc(echo)
	cc, sc := MemPair()
	sess, _ := srv.ServeConn(sc, thriftproto.NewBinaryProtoFunc())
	var ms runtime.MemStats
	runtime.ReadMemStats(&ms)
	a0 := ms.TotalAlloc
	t0 := time.Now()
	cc.Write(s)
	fmt.Println("idle:", cc.WaitPeerIdle(5*time.Second))
	cc.CloseWrite()
	ok := WaitUntil(5*time.Second, func() bool {
		select {
		case <-sess.CloseNotify():
			return true
		default:
			return false
		}
	})
	runtime.ReadMemStats(&ms)
	fmt.Println("ended:", ok, "alloc", ms.TotalAlloc-a0, "took", time.Since(t0))
	if !ok {
		pprof.Lookup("goroutine").WriteTo(os.Stdout, 1)
	}
}
