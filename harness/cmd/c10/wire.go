// The wire protocols a request travels through before the router sees its name: the session
// pair of a route batch speaks one of the protocols shipped in /repo, a plugin on the serving
// peer records the service method each arriving CALL/PUSH header carries, and the oracle
// relates the name the caller asked for, the name that arrived and the handler that ran.
package main

import (
	"net"
	"net/http"
	"net/url"
	"strings"
	"sync"
	"time"

	. "verifharness/hlib"

	erpc "github.com/henrylee2cn/erpc/v6"
	"github.com/henrylee2cn/erpc/v6/codec"
	wsmix "github.com/henrylee2cn/erpc/v6/mixer/websocket"
	"github.com/henrylee2cn/erpc/v6/mixer/websocket/jsonSubProto"
	"github.com/henrylee2cn/erpc/v6/mixer/websocket/pbSubProto"
	"github.com/henrylee2cn/erpc/v6/proto/httproto"
	"github.com/henrylee2cn/erpc/v6/proto/jsonproto"
	"github.com/henrylee2cn/erpc/v6/proto/pbproto"
	"github.com/henrylee2cn/erpc/v6/proto/thriftproto"
)

// thrift-struct is left out: its frames carry a thrift struct as body, the corpus handlers
// take a string.
var protoNames = []string{"raw", "json", "pb", "thrift", "http", "wsjson", "wspb"}

var protoFuncs = map[string]erpc.ProtoFunc{}

// initProtos builds the protocol constructors once.  httproto's constructor and thriftproto's
// package initialiser switch the GLOBAL mapper (and thrift the default body codec); every
// peer of this harness is created through newPeer, which sets the mapper it wants, and the
// body codec is put back to JSON here.
func initProtos() {
	protoFuncs["json"] = jsonproto.NewJSONProtoFunc()
	protoFuncs["pb"] = pbproto.NewPbProtoFunc()
	protoFuncs["thrift"] = thriftproto.NewBinaryProtoFunc()
	protoFuncs["http"] = httproto.NewHTTProtoFunc()
	protoFuncs["wsjson"] = jsonSubProto.NewJSONSubProtoFunc()
	protoFuncs["wspb"] = pbSubProto.NewPbSubProtoFunc()
	erpc.SetDefaultBodyCodec(codec.ID_JSON)
}

// pickProto: the first batches cover every protocol; httproto documents that it needs the
// HTTP mapper, so it is only used with it.
func pickProto(cfg *RunCfg, kind string, batch int) string {
	fixed := []string{"raw", "raw", "http", "json", "pb", "thrift", "wsjson", "wspb"}
	if batch < len(fixed) {
		return fixed[batch]
	}
	var p string
	switch k := cfg.Rng.Intn(20); {
	case k < 5:
		p = "raw"
	case k < 10:
		p = "http"
	case k < 12:
		p = "json"
	case k < 14:
		p = "pb"
	case k < 16:
		p = "thrift"
	case k < 18:
		p = "wsjson"
	default:
		p = "wspb"
	}
	if p == "http" && kind != "http" {
		p = []string{"json", "thrift", "pb", "raw"}[cfg.Rng.Intn(4)]
	}
	return p
}

// ---------------------------------------------------------------- what arrived

const tokenMeta = "Vq" // already in the canonical form of an HTTP header key

type seenRec struct{ ns, name string }

// observer is a plugin of the serving peer: bindCall/bindPush run it on every arriving
// header before the lookup, whatever the lookup will say.
type observer struct {
	mu   sync.Mutex
	seen map[string][]seenRec
}

func newObserver() *observer { return &observer{seen: map[string][]seenRec{}} }

func (o *observer) Name() string { return "c10-observer" }

func (o *observer) add(ns string, ctx erpc.ReadCtx) {
	tok := string(ctx.PeekMeta(tokenMeta))
	o.mu.Lock()
	o.seen[tok] = append(o.seen[tok], seenRec{ns, ctx.ServiceMethod()})
	o.mu.Unlock()
}

func (o *observer) PostReadCallHeader(ctx erpc.ReadCtx) *erpc.Status { o.add("call", ctx); return nil }
func (o *observer) PostReadPushHeader(ctx erpc.ReadCtx) *erpc.Status { o.add("push", ctx); return nil }

func (o *observer) get(tok string) []seenRec {
	o.mu.Lock()
	defer o.mu.Unlock()
	return o.seen[tok]
}

// ---------------------------------------------------------------- the session pair

type link struct {
	proto string
	srv   erpc.Peer
	cli   erpc.Peer
	wsCli *wsmix.Client
	lis   net.Listener
	sess  erpc.Session
	conns int
}

func newLink(proto string, srv erpc.Peer) *link {
	l := &link{proto: proto, srv: srv}
	if strings.HasPrefix(proto, "ws") {
		l.wsCli = wsmix.NewClient("/", erpc.PeerConfig{})
	} else {
		l.cli = erpc.NewPeer(erpc.PeerConfig{})
	}
	return l
}

// connect (re)establishes the client session; false when it could not.
func (l *link) connect() bool {
	if l.sess != nil {
		l.sess.Close()
		l.sess = nil
	}
	l.conns++
	pf := protoFuncs[l.proto]
	if l.wsCli != nil {
		if l.lis == nil {
			lis, err := net.Listen("tcp", "127.0.0.1:0")
			Must(err)
			l.lis = lis
			go http.Serve(lis, wsmix.NewServeHandler(l.srv, nil, pf))
		}
		// the websocket handshake runs over a real loopback connection: a busy machine may
		// refuse one attempt
		for try := 0; try < 5; try++ {
			sess, st := l.wsCli.Dial(l.lis.Addr().String(), pf)
			if st.OK() {
				l.sess = sess
				return true
			}
			time.Sleep(time.Duration(50*(try+1)) * time.Millisecond)
		}
		return false
	}
	var p *Pair
	if pf == nil {
		p = ServePair(l.srv, l.cli)
	} else {
		p = ServePair(l.srv, l.cli, pf)
	}
	if p.SrvSess == nil || p.CliSess == nil {
		return false
	}
	l.sess = p.CliSess
	return true
}

// close ends the serving side first: Session.Close waits for the handler goroutines, so
// afterwards "no handler ran" is an observation.
func (l *link) close() {
	var ss []erpc.Session
	l.srv.RangeSession(func(s erpc.Session) bool { ss = append(ss, s); return true })
	for _, s := range ss {
		s.Close()
	}
	if l.sess != nil {
		l.sess.Close()
	}
	if l.lis != nil {
		l.lis.Close()
	}
	if l.wsCli != nil {
		l.wsCli.Close()
	} else {
		l.cli.Close()
	}
}

// ---------------------------------------------------------------- which name a request is for

// httpTarget: over httproto the caller's string is a URI reference (README: the request line
// is "POST /home/test?peer_id=110 HTTP/1.1", callers may pass a full URL); the service method
// asked for is its path, the query travels as metadata.  ok=false: not a URI, nothing can be
// asked for.
func httpTarget(name string) (path string, ok bool) {
	u, err := url.Parse(name)
	if err != nil {
		return "", false
	}
	return u.Path, true
}

// targetResidue: since the repair 7ef806c packRequest writes u.EscapedPath().  That is the
// caller's own raw path when it is a valid encoding, else escape(u.Path) - which leaves a
// leading "//" and a ':' in a rootless first segment raw, so the receiver reads an authority
// or a scheme.  Only a caller's string that needs BOTH (an escaped '/' or ':' in front AND a
// byte that makes its raw form invalid: blank, '{', '"', non-ASCII ...) gets there; known
// finding http-target-not-escaped, narrowed to exactly this.
func targetResidue(name string) bool {
	u, err := url.Parse(name)
	if err != nil {
		return false
	}
	e := u.EscapedPath()
	if e == u.RawPath {
		return false
	}
	if strings.HasPrefix(e, "//") && !strings.HasPrefix(e, "///") {
		return true
	}
	if !strings.HasPrefix(e, "/") {
		seg := e
		if i := strings.IndexByte(e, '/'); i >= 0 {
			seg = e[:i]
		}
		return strings.Contains(seg, ":")
	}
	return false
}

// ---------------------------------------------------------------- the model's domain (Model/RouteWire.v)

func isASCII(s string) bool {
	for i := 0; i < len(s); i++ {
		if s[i] >= 0x80 {
			return false
		}
	}
	return true
}

// urlHasAuthority follows url.Parse up to its authority test (the model stops there with
// UAuthority); a URL that is refused earlier has none.
func urlHasAuthority(raw string) bool {
	u := raw
	if i := strings.IndexByte(u, '#'); i >= 0 {
		u = u[:i]
	}
	for i := 0; i < len(u); i++ {
		if u[i] < 0x20 || u[i] == 0x7f {
			return false
		}
	}
	if u == "*" {
		return false
	}
	scheme, rest := "", u
loop:
	for i := 0; i < len(u); i++ {
		c := u[i]
		switch {
		case 'a' <= c && c <= 'z' || 'A' <= c && c <= 'Z':
		case '0' <= c && c <= '9' || c == '+' || c == '-' || c == '.':
			if i == 0 {
				break loop
			}
		case c == ':':
			if i == 0 {
				return false
			}
			scheme, rest = u[:i], u[i+1:]
			break loop
		default:
			break loop
		}
	}
	if i := strings.IndexByte(rest, '?'); i >= 0 {
		rest = rest[:i]
	}
	if !strings.HasPrefix(rest, "/") {
		return false
	}
	return strings.HasPrefix(rest, "//") && (scheme != "" || !strings.HasPrefix(rest, "///"))
}

// inModelDomain: the names for which Model/RouteWire.v says what arrives.
func inModelDomain(proto, ns, name string) bool {
	switch proto {
	case "raw", "thrift", "wspb", "json", "wsjson":
		return true
	case "pb":
		return isASCII(name)
	}
	// http
	if ns == "push" {
		return true
	}
	if !isASCII(name) || urlHasAuthority(name) {
		return false
	}
	u, err := url.Parse(name)
	if err != nil {
		return true
	}
	target := u.EscapedPath()
	if u.RawQuery != "" {
		target += "?" + u.RawQuery
	}
	if strings.IndexByte(target, '\n') >= 0 {
		return false
	}
	if i := strings.IndexByte(target, ' '); i >= 0 {
		target = target[:i]
	}
	return !urlHasAuthority(target)
}

// ---------------------------------------------------------------- names a normaliser would fold

// pathFold builds a name that is NOT the registered name n but that a normalising reader
// (path cleaning, slash squeezing, dot-segment removal, trimming) would map onto it.
func pathFold(cfg *RunCfg, n string) (string, string) {
	r := cfg.Rng
	var seps []int
	for i := 0; i < len(n); i++ {
		if n[i] == '/' || n[i] == '.' {
			seps = append(seps, i)
		}
	}
	k := r.Intn(9)
	if len(seps) == 0 && k >= 5 {
		k = r.Intn(5)
	}
	switch k {
	case 0:
		return n + "/", "fold-trailing-slash"
	case 1:
		return n + "/.", "fold-trailing-dot"
	case 2:
		return n + "/x/..", "fold-trailing-dotdot"
	case 3:
		return "/." + n, "fold-leading-dot"
	case 4:
		return "/x/.." + n, "fold-leading-dotdot"
	}
	i := seps[r.Intn(len(seps))]
	c := string(n[i])
	switch k {
	case 5:
		return n[:i] + c + c + n[i+1:], "fold-double-sep"
	case 6:
		return n[:i] + c + "." + c + n[i+1:], "fold-dot-segment"
	case 7:
		return n[:i] + c + "x" + c + ".." + c + n[i+1:], "fold-dotdot-segment"
	default:
		return n[:i] + c + c + c + n[i+1:], "fold-triple-sep"
	}
}

// twoHazards builds a URI-like string around the registered name n that needs an escaped
// delimiter in front AND holds a byte that makes its raw form an invalid encoding.
func twoHazards(cfg *RunCfg, n string) (string, string) {
	r := cfg.Rng
	bad := []string{" x", "{", "\"", "\u00e9", "^", "|"}[r.Intn(6)]
	body := strings.TrimPrefix(n, "/")
	switch r.Intn(5) {
	case 0:
		return "%2f" + n + bad, "uri2-slash-front"
	case 1:
		return "a%3a" + body + bad, "uri2-colon-front"
	case 2:
		return "%2f/h\u00e9" + n, "uri2-authority"
	case 3:
		return "%2F/h" + bad + n, "uri2-authority-bad"
	default:
		return "a%3A//h" + n + bad, "uri2-scheme-authority"
	}
}
