// Package rec records which corpus handler ran for which request token.
package rec

import "sync"

// Item is one registrable thing of the corpus.
type Item struct {
	NS      string   // "call" | "push"
	Kind    string   // "struct" | "func"
	Name    string   // Go identifier of the struct type / of the function (ground truth)
	Methods []string // struct: exported handler methods, sorted bytewise
	HID     string   // func: handler identity when it is not NS:Name (method expressions, method values)
	Obj     interface{}
}

// HitRec is one handler invocation.
type HitRec struct{ ID, Token string }

var (
	mu   sync.Mutex
	hits []HitRec
)

// Hit records that handler id ran for the request carrying token; returns id.
func Hit(id, token string) string {
	mu.Lock()
	hits = append(hits, HitRec{id, token})
	mu.Unlock()
	return id
}

// Drain returns and clears the record.
func Drain() []HitRec {
	mu.Lock()
	h := hits
	hits = nil
	mu.Unlock()
	return h
}
