// c10 drives the router of the root package: the exported service-method mappers, the
// Route*/SubRoute/SetUnknown* registration API on fresh peers, and lookups through live
// sessions.  Conflicting registrations (Fatalf = os.Exit(1)) run in a child process.
package main

import (
	"bytes"
	"encoding/hex"
	"encoding/json"
	"flag"
	"fmt"
	"os"
	"os/exec"
	"reflect"
	"regexp"
	"runtime"
	"sort"
	"strings"

	. "verifharness/hlib"

	erpc "github.com/henrylee2cn/erpc/v6"

	"verifharness/cmd/c10/corpus/callc"
	"verifharness/cmd/c10/corpus/callf"
	"verifharness/cmd/c10/corpus/pushc"
	"verifharness/cmd/c10/corpus/pushf"
	"verifharness/cmd/c10/corpus/rec"
)

var childSpec = flag.String("child", "", "internal: apply this registration plan in this process, print the returned names, exit")

// ---------------------------------------------------------------- corpus and plans

var corpus []rec.Item

func loadCorpus() {
	corpus = append(corpus, callc.Items()...)
	corpus = append(corpus, callf.Items()...)
	corpus = append(corpus, pushc.Items()...)
	corpus = append(corpus, pushf.Items()...)
}

// lintCorpus refuses a corpus in which a controller not marked Self* collides with itself
// (it would terminate the harness at its first registration).
func lintCorpus() {
	for _, it := range corpus {
		on := goObjectName(it)
		if i := strings.LastIndexByte(on, '.'); on[i+1:] != it.Name {
			Must(fmt.Errorf("corpus: %s %s is called %q by the runtime", it.Kind, it.Name, on))
		}
	}
	for _, kind := range []string{"http", "rpc"} {
		for _, it := range corpus {
			seen := map[string]string{}
			for _, m := range it.Methods {
				n := mapperOf(kind)(mapperOf(kind)("", it.Name), m)
				if prev, ok := seen[n]; ok && !selfConflicting(it) {
					Must(fmt.Errorf("corpus: %s.%s and %s.%s both map to %q under %s", it.Name, prev, it.Name, m, n, kind))
				}
				seen[n] = m
			}
		}
	}
}

func selfConflicting(it rec.Item) bool { return strings.HasPrefix(it.Name, "Self") }

func hidOf(it rec.Item, method string) string {
	if it.Kind == "struct" {
		return it.NS + ":" + it.Name + "." + method
	}
	if it.HID != "" {
		return it.HID
	}
	return it.NS + ":" + it.Name
}

// goObjectName is what the Go runtime calls the registered object: the reflect type string of a
// controller ("*pkg.Type"), the runtime function name of a handler function ("path/pkg.Func",
// "path/pkg.(*T).Method", "path/pkg.(*T).Method-fm").  Taken here independently of router.go.
func goObjectName(it rec.Item) string {
	if it.Kind == "struct" {
		return reflect.TypeOf(it.Obj).String()
	}
	return runtime.FuncForPC(reflect.ValueOf(it.Obj).Pointer()).Name()
}

// expectedNames: the property says a name is a function of (prefix, Go identifier) - the
// exported mapper applied to the group prefix and the identifiers as written in the corpus.
func expectedNames(kind string, op planOp) []string {
	m := mapperOf(kind)
	prefix := m("", "")
	for _, g := range op.Groups {
		prefix = m(prefix, g)
	}
	it := corpus[op.Item]
	if it.Kind == "func" {
		return []string{m(prefix, it.Name)}
	}
	var out []string
	for _, meth := range it.Methods {
		out = append(out, m(m(prefix, it.Name), meth))
	}
	return out
}

type planOp struct {
	Unk    bool     `json:"u,omitempty"`
	NS     string   `json:"n"`
	Groups []string `json:"g"`
	Item   int      `json:"i"`           // corpus index (registration)
	UID    string   `json:"h,omitempty"` // unknown-handler identity
}

type plan struct {
	Kind string   `json:"k"`           // "http" | "rpc"
	Log  string   `json:"l,omitempty"` // child only: logger level
	Ops  []planOp `json:"o"`
}

func setMapper(kind string) {
	if kind == "rpc" {
		erpc.SetServiceMethodMapper(erpc.RPCServiceMethodMapper)
	} else {
		erpc.SetServiceMethodMapper(erpc.HTTPServiceMethodMapper)
	}
}

func tokenOfBody(b []byte) string { return strings.Trim(string(b), "\"") }

func unkCall(uid string) func(erpc.UnknownCallCtx) (interface{}, *erpc.Status) {
	return func(ctx erpc.UnknownCallCtx) (interface{}, *erpc.Status) {
		return rec.Hit(uid, tokenOfBody(ctx.InputBodyBytes())), nil
	}
}

func unkPush(uid string) func(erpc.UnknownPushCtx) *erpc.Status {
	return func(ctx erpc.UnknownPushCtx) *erpc.Status {
		rec.Hit(uid, tokenOfBody(ctx.InputBodyBytes()))
		return nil
	}
}

// applyOp performs one operation of a plan on peer through the public API and returns the
// names the registration returned.
func applyOp(peer erpc.Peer, op planOp) []string {
	// the same operation is reachable through Peer and through Peer.Router(); alternate
	// (deterministically, so that parent and child processes agree)
	viaRouter := (len(op.Groups)+op.Item+len(op.UID))%2 == 1
	root := peer.Router()
	var sub *erpc.SubRouter
	for i, g := range op.Groups {
		switch {
		case i == 0 && viaRouter:
			sub = root.SubRoute(g)
		case i == 0:
			sub = peer.SubRoute(g)
		default:
			sub = sub.SubRoute(g)
		}
	}
	if op.Unk {
		switch {
		case sub == nil && op.NS == "call" && viaRouter:
			root.SetUnknownCall(unkCall(op.UID))
		case sub == nil && op.NS == "call":
			peer.SetUnknownCall(unkCall(op.UID))
		case sub == nil && viaRouter:
			root.SetUnknownPush(unkPush(op.UID))
		case sub == nil:
			peer.SetUnknownPush(unkPush(op.UID))
		case op.NS == "call":
			sub.ToRouter().SetUnknownCall(unkCall(op.UID))
		default:
			sub.ToRouter().SetUnknownPush(unkPush(op.UID))
		}
		return nil
	}
	it := corpus[op.Item]
	if sub == nil && viaRouter {
		switch {
		case it.NS == "call" && it.Kind == "struct":
			return root.RouteCall(it.Obj)
		case it.NS == "call":
			return []string{root.RouteCallFunc(it.Obj)}
		case it.Kind == "struct":
			return root.RoutePush(it.Obj)
		default:
			return []string{root.RoutePushFunc(it.Obj)}
		}
	}
	switch {
	case sub == nil && it.NS == "call" && it.Kind == "struct":
		return peer.RouteCall(it.Obj)
	case sub == nil && it.NS == "call":
		return []string{peer.RouteCallFunc(it.Obj)}
	case sub == nil && it.Kind == "struct":
		return peer.RoutePush(it.Obj)
	case sub == nil:
		return []string{peer.RoutePushFunc(it.Obj)}
	case it.NS == "call" && it.Kind == "struct":
		return sub.RouteCall(it.Obj)
	case it.NS == "call":
		return []string{sub.RouteCallFunc(it.Obj)}
	case it.Kind == "struct":
		return sub.RoutePush(it.Obj)
	default:
		return []string{sub.RoutePushFunc(it.Obj)}
	}
}

func newPeer(kind string) erpc.Peer {
	setMapper(kind)
	return erpc.NewPeer(erpc.PeerConfig{})
}

// child mode: apply the plan; one "@@R <hexname>,<hexname>..." line per completed operation.
func runChild(spec string) {
	var pl plan
	Must(json.Unmarshal([]byte(spec), &pl))
	erpc.SetLoggerLevel(pl.Log)
	loadCorpus()
	peer := newPeer(pl.Kind)
	for _, op := range pl.Ops {
		names := applyOp(peer, op)
		hx := make([]string, len(names))
		for i, n := range names {
			hx[i] = "x" + Hx([]byte(n))
		}
		fmt.Printf("@@R %s\n", strings.Join(hx, ","))
	}
	fmt.Println("@@DONE")
	os.Exit(0)
}

// ---------------------------------------------------------------- value-syntax rendering

func opVal(op planOp) string {
	gs := make([]string, len(op.Groups))
	for i, g := range op.Groups {
		gs[i] = VB([]byte(g))
	}
	if op.Unk {
		return VL(VS("unk"), VS(op.NS), VL(gs...), VB([]byte(op.UID)))
	}
	it := corpus[op.Item]
	if it.Kind == "struct" {
		ms := make([]string, len(it.Methods))
		for i, m := range it.Methods {
			ms[i] = VL(VB([]byte(m)), VB([]byte(hidOf(it, m))))
		}
		return VL(VS("reg"), VS(it.NS), VL(gs...), VL(VS("struct"), VB([]byte(goObjectName(it))), VL(ms...)))
	}
	return VL(VS("reg"), VS(it.NS), VL(gs...), VL(VS("func"), VB([]byte(goObjectName(it))), VB([]byte(hidOf(it, "")))))
}

func namesVal(per [][]string) string {
	out := make([]string, len(per))
	for i, ns := range per {
		xs := make([]string, len(ns))
		for j, n := range ns {
			xs[j] = VB([]byte(n))
		}
		out[i] = VL(xs...)
	}
	return VL(out...)
}

func planVal(pl plan) string {
	ops := make([]string, len(pl.Ops))
	for i, op := range pl.Ops {
		ops[i] = opVal(op)
	}
	return VL(ops...)
}

// ---------------------------------------------------------------- generators

var upperRuns = []string{"A", "B", "X", "AB", "ABC", "HTTP", "ID", "XYZ", "Z"}
var lowerRuns = []string{"a", "b", "c", "bc", "xyz", "get", "z", "d"}
var digitRuns = []string{"0", "1", "2", "42", "9"}
var underRuns = []string{"_", "_", "_", "__", "__", "___", "____", "_____"}

func genIdent(cfg *RunCfg) (string, string) {
	r := cfg.Rng
	n := 1 + r.Intn(8)
	var b strings.Builder
	class := "ident"
	if r.Intn(8) == 0 {
		b.WriteString(underRuns[r.Intn(len(underRuns))])
		class = "ident-lead-us"
	}
	for i := 0; i < n; i++ {
		switch k := r.Intn(10); {
		case k < 3:
			b.WriteString(upperRuns[r.Intn(len(upperRuns))])
		case k < 6:
			b.WriteString(lowerRuns[r.Intn(len(lowerRuns))])
		case k < 7:
			if b.Len() == 0 {
				b.WriteString("v")
			}
			b.WriteString(digitRuns[r.Intn(len(digitRuns))])
		default:
			b.WriteString(underRuns[r.Intn(len(underRuns))])
		}
	}
	s := b.String()
	if strings.Trim(s, "_") == "" {
		class = "ident-all-us"
	} else if strings.HasSuffix(s, "_") && class == "ident" {
		class = "ident-trail-us"
	}
	return s, class
}

var prefixPool = []string{"", "", "", "/", "v1", "/v1", "/v1/", "v1/", "api/v2", "/api//v2/", "a/./b", "a/../b",
	"..", ".", "../..", "x.y", ".x.", "...", "Aa_Bb", "a_b/", "Admin", "/aa_bb", "aa.bb", "Aa.Bb.", "_", "a//", "/user_info/x"}

const wildAlphabet = "abcXYZ019_/.-__//.. :"

func genWild(cfg *RunCfg, maxLen int) string {
	r := cfg.Rng
	n := r.Intn(maxLen + 1)
	b := make([]byte, n)
	for i := range b {
		b[i] = wildAlphabet[r.Intn(len(wildAlphabet))]
	}
	return string(b)
}

func genMapperCase(cfg *RunCfg) (kind, prefix, name, class string) {
	r := cfg.Rng
	kind = "http"
	if r.Intn(2) == 0 {
		kind = "rpc"
	}
	switch k := r.Intn(20); {
	case k < 13:
		name, class = genIdent(cfg)
		prefix = prefixPool[r.Intn(len(prefixPool))]
	case k < 15:
		// a mapped prefix fed back as prefix (what nested SubRoute does), identifier as name
		name, class = genIdent(cfg)
		p1, _ := genIdent(cfg)
		prefix = mapperOf(kind)(prefixPool[r.Intn(len(prefixPool))], p1)
		class = "nested-" + class
	case k < 17:
		// SubRoute passes its argument as NAME: path-like names
		name = prefixPool[r.Intn(len(prefixPool))]
		if r.Intn(2) == 0 {
			id, _ := genIdent(cfg)
			name += "/" + id
		}
		prefix = prefixPool[r.Intn(len(prefixPool))]
		class = "pathlike-name"
	case k < 19:
		name = genWild(cfg, 10)
		prefix = genWild(cfg, 8)
		class = "wild-ascii"
	default:
		name = genWild(cfg, 6)
		if len(name) > 0 {
			b := []byte(name)
			b[r.Intn(len(b))] = 0
			name = string(b)
		}
		prefix = prefixPool[r.Intn(len(prefixPool))]
		class = "nul-byte"
	}
	return
}

func mapperOf(kind string) func(string, string) string {
	if kind == "rpc" {
		return erpc.RPCServiceMethodMapper
	}
	return erpc.HTTPServiceMethodMapper
}

var groupPool = []string{"v1", "/v1", "v1/", "api/v2", "Admin", "admin_x", "a__b", "X_Y", "UserInfo", "aa_bb",
	"AaBb", "aa", "Aa", "user", "x.y", "..", "a/../b", "_", "//", "", "T9", "self_c", "ABC"}

func genGroups(cfg *RunCfg) []string {
	r := cfg.Rng
	depth := 0
	switch k := r.Intn(20); {
	case k < 6:
		depth = 0
	case k < 13:
		depth = 1
	case k < 18:
		depth = 2
	default:
		depth = 3
	}
	g := make([]string, depth)
	for i := range g {
		g[i] = groupPool[r.Intn(len(groupPool))]
	}
	return g
}

// ---------------------------------------------------------------- solo names

type nsName struct{ ns, name string }

var soloCache = map[string][]string{}

// soloNames asks the implementation which names a registration returns when it is the only
// one on a fresh peer (no conflict possible for items that do not conflict with themselves).
func soloNames(kind string, groups []string, item int) []string {
	key := kind + "|" + strings.Join(groups, "\x01") + "|" + fmt.Sprint(item)
	if v, ok := soloCache[key]; ok {
		return v
	}
	p := newPeer(kind)
	names := applyOp(p, planOp{NS: corpus[item].NS, Groups: groups, Item: item})
	p.Close()
	soloCache[key] = names
	return names
}

// genPlan builds a conflict-free plan (conflicts judged by the implementation's own solo
// names) and the list of entries the registrations are expected to return.
func genPlan(cfg *RunCfg, kind string, full bool, batch int) (plan, map[nsName]bool) {
	r := cfg.Rng
	pl := plan{Kind: kind}
	taken := map[nsName]bool{}
	perm := r.Perm(len(corpus))
	want := 4 + r.Intn(22)
	if full {
		want = len(corpus)
		sort.Ints(perm)
	}
	for _, idx := range perm {
		if len(pl.Ops) >= want {
			break
		}
		it := corpus[idx]
		if selfConflicting(it) {
			continue
		}
		var groups []string
		if full {
			groups = [][]string{{}, {"v1"}, {"api/v2", "Admin"}, {"a__b", "X_Y", "UserInfo"}, {"aa_bb"}, {"/v1/", "user"}}[(idx+batch)%6]
		} else {
			groups = genGroups(cfg)
		}
		names := soloNames(kind, groups, idx)
		clash := false
		seen := map[string]bool{}
		for _, n := range names {
			if taken[nsName{it.NS, n}] || seen[n] {
				clash = true
			}
			seen[n] = true
		}
		if clash {
			continue
		}
		for _, n := range names {
			taken[nsName{it.NS, n}] = true
		}
		pl.Ops = append(pl.Ops, planOp{NS: it.NS, Groups: groups, Item: idx})
	}
	// unknown-handlers: none / root / through a group, possibly set twice
	for _, ns := range []string{"call", "push"} {
		k := r.Intn(6)
		if full {
			k = []int{0, 3, 4, 5}[batch%4]
		}
		cnt := 0
		switch {
		case k < 3:
			cnt = 0
		case k < 5:
			cnt = 1
		default:
			cnt = 2
		}
		for j := 0; j < cnt; j++ {
			op := planOp{Unk: true, NS: ns, UID: fmt.Sprintf("U:%s:%d", ns, j+1)}
			if r.Intn(2) == 0 {
				op.Groups = genGroups(cfg)
			}
			pos := r.Intn(len(pl.Ops) + 1)
			pl.Ops = append(pl.Ops, planOp{})
			copy(pl.Ops[pos+1:], pl.Ops[pos:])
			pl.Ops[pos] = op
		}
	}
	return pl, taken
}

// ---------------------------------------------------------------- near misses

func isSep(c byte) bool { return c == '/' || c == '_' || c == '.' }

func nearMiss(cfg *RunCfg, n string) (string, string) {
	r := cfg.Rng
	b := []byte(n)
	switch r.Intn(7) {
	case 0:
		var idx []int
		for i, c := range b {
			if (c >= 'a' && c <= 'z') || (c >= 'A' && c <= 'Z') {
				idx = append(idx, i)
			}
		}
		if len(idx) > 0 {
			i := idx[r.Intn(len(idx))]
			b[i] ^= 0x20
		}
		return string(b), "case-flip"
	case 1:
		var idx []int
		for i, c := range b {
			if isSep(c) {
				idx = append(idx, i)
			}
		}
		if len(idx) == 0 {
			for i := range b {
				idx = append(idx, i)
			}
		}
		if len(idx) > 0 {
			i := idx[r.Intn(len(idx))]
			b = append(b[:i:i], b[i+1:]...)
		}
		return string(b), "drop-sep"
	case 2:
		i := r.Intn(len(b) + 1)
		c := "/_."[r.Intn(3)]
		nb := append([]byte{}, b[:i]...)
		nb = append(nb, c)
		nb = append(nb, b[i:]...)
		return string(nb), "add-sep"
	case 3:
		if len(b) > 1 {
			b = b[:1+r.Intn(len(b)-1)]
		}
		return string(b), "prefix"
	case 4:
		return n + []string{"x", "/", "/x", "_", ".", ".x", "0"}[r.Intn(7)], "suffix"
	case 5:
		var idx []int
		for i, c := range b {
			if isSep(c) {
				idx = append(idx, i)
			}
		}
		if len(idx) > 0 {
			i := idx[r.Intn(len(idx))]
			nb := append([]byte{}, b[:i+1]...)
			nb = append(nb, b[i:]...)
			return string(nb), "dup-sep"
		}
		return "/" + n, "lead-sep"
	default:
		// swap one separator for another
		var idx []int
		for i, c := range b {
			if isSep(c) {
				idx = append(idx, i)
			}
		}
		if len(idx) > 0 {
			i := idx[r.Intn(len(idx))]
			for {
				c := "/_."[r.Intn(3)]
				if c != b[i] {
					b[i] = c
					break
				}
			}
		}
		return string(b), "swap-sep"
	}
}

// wireTokens: byte classes a service-method string may carry on the wire that are not part of
// any mapped name: URI punctuation, escapes, blanks, control bytes, dot elements, non-ASCII.
var wireTokens = []string{"?", "?x=1", "?/../other", "#", "#frag", "&", "&a=b", "=", "%", "%2f", "%2F", "%5f", "%00",
	" ", "\t", "\n", "\x00", "\x7f", ".", "..", "/..", "/.", "//", "/", "\\", ";", ";v=1", ":", "@", "+", "-", "~", "*", "!",
	"$", ",", "'", "\"", "(", ")", "[", "]", "{", "}", "<", ">", "|", "^", "`", "\u00e9", "\u4e16", "\xff", "\xc3",
	// URI syntax: escapes of the delimiters themselves, double escapes, schemes, authorities, fragments
	"%3f", "%3Fx=1", "%23", "%20", "%20x", "%25", "%2520", "%252f", "%0a", "%0d%0aX-Y: z", "%3a", "%7f", "%", "%4", "%zz",
	"http://h", "//h", "a:", "a:/", "1:", "??", "?#", "#%zz", "?a=b#c", "*", "\x1f", "\r", "\a", "\v", "\b", "\f"}

// wireMiss builds a near miss from a registered name by appending (mode 0), prepending (1) or
// inserting (2) a wire token, or (3) by percent-escaping one of the name's own bytes.
func wireMiss(cfg *RunCfg, n string, tok string, mode int) (string, string) {
	r := cfg.Rng
	switch mode {
	case 0:
		return n + tok, "wire-append"
	case 1:
		return tok + n, "wire-prepend"
	case 2:
		i := 0
		if len(n) > 0 {
			i = r.Intn(len(n) + 1)
		}
		return n[:i] + tok + n[i:], "wire-insert"
	default:
		if len(n) == 0 {
			return "%", "wire-escape"
		}
		i := r.Intn(len(n))
		f := "%%%02x"
		if r.Intn(2) == 0 {
			f = "%%%02X"
		}
		return n[:i] + fmt.Sprintf(f, n[i]) + n[i+1:], "wire-escape"
	}
}

const randAlphabet = "abgtxyzABGXYZ019_/."

func randName(cfg *RunCfg) string {
	n := 1 + cfg.Rng.Intn(12)
	b := make([]byte, n)
	for i := range b {
		b[i] = randAlphabet[cfg.Rng.Intn(len(randAlphabet))]
	}
	return string(b)
}

// ---------------------------------------------------------------- main

func main() {
	cfg := ParseFlags()
	if *childSpec != "" {
		runChild(*childSpec)
		return
	}
	if os.Getenv("C10_LOG") == "" {
		Quiet()
	}
	initProtos()
	loadCorpus()
	lintCorpus()
	st := NewStats("C10", cfg)
	st.Rule = "(a) mapper cases = (mapper, prefix, name): names from an identifier generator (upper/lower/digit/underscore runs), nested mapped prefixes, path-like names, wild ASCII, NUL; distinct by (mapper,prefix,name). " +
		"(b) route cases = one fresh peer per batch with a random conflict-free registration plan over the fixed corpus (nested groups, unknown-handlers on root or group) and, through a live session pair, queries = registered names, same name in the other namespace, near misses (case flip, dropped/added/doubled/swapped separator, prefix, suffix), names a normalising reader would fold onto a registered one (trailing slash, doubled separator, dot and dot-dot segments), a name one byte around the raw protocol's 255-byte bound, random strings, empty; the session pair of a batch speaks one of the shipped wire protocols (raw, json, protobuf, thrift-binary, http, websocket-json, websocket-protobuf; the first 8 batches cover all of them) and a plugin on the serving peer records the service method every arriving header carries; distinct by (plan, protocol, namespace, name); non-trivial = every query of a batch with at least one registration. " +
		"(c) conflict cases = a plan whose last-but-k registration collides with an earlier one or with itself, run in a child process"
	w := NewCaseWriter(cfg)
	distinct := DistinctSet{}

	checkTable(st)
	nMap := cfg.N
	for i := 0; i < nMap; i++ {
		mapperCase(cfg, st, w, distinct, i)
	}
	nBatch := cfg.N / 50
	if nBatch < 8 {
		nBatch = 8
	}
	evals := nMap
	for b := 0; b < nBatch; b++ {
		evals += routeBatch(cfg, st, w, distinct, nMap+b, b)
	}
	nConf := cfg.N / 250
	if nConf < 8 {
		nConf = 8
	}
	for c := 0; c < nConf; c++ {
		conflictCase(cfg, st, w, distinct, nMap+nBatch+c, c)
		evals++
	}
	st.Evaluations = evals
	st.DistinctNontrivial = len(distinct)
	st.Write(cfg, w)
}

// the documented table, checked on the implementation directly
func checkTable(st *Stats) {
	rows := [][3]string{
		{"http", "AaBb", "/aa_bb"}, {"http", "ABcXYz", "/abc_xyz"}, {"http", "Aa__Bb", "/aa_bb"}, {"http", "aa__bb", "/aa_bb"},
		{"http", "ABC__XYZ", "/abc_xyz"}, {"http", "Aa_Bb", "/aa/bb"}, {"http", "aa_bb", "/aa/bb"}, {"http", "ABC_XYZ", "/abc/xyz"},
		{"rpc", "AaBb", "AaBb"}, {"rpc", "ABcXYz", "ABcXYz"}, {"rpc", "Aa__Bb", "Aa_Bb"}, {"rpc", "aa__bb", "aa_bb"},
		{"rpc", "ABC__XYZ", "ABC_XYZ"}, {"rpc", "Aa_Bb", "Aa.Bb"}, {"rpc", "aa_bb", "aa.bb"}, {"rpc", "ABC_XYZ", "ABC.XYZ"},
	}
	for i, r := range rows {
		if got := mapperOf(r[0])("", r[1]); got != r[2] {
			st.Fail(i, "mapper-table", fmt.Sprintf("documented mapping %s -> %s, got %q", r[1], r[2], got), r[0]+" "+r[1])
		}
	}
}

func mapperCase(cfg *RunCfg, st *Stats, w *CaseWriter, distinct DistinctSet, index int) {
	kind, prefix, name, class := genMapperCase(cfg)
	st.Count("map:" + kind + ":" + class)
	got := mapperOf(kind)(prefix, name)
	if again := mapperOf(kind)(prefix, name); again != got {
		st.Fail(index, "mapper-nondeterministic", "two calls differ", fmt.Sprintf("%s %q %q", kind, prefix, name))
	}
	w.Add(VL(VS("map"), VS(kind), VB([]byte(prefix)), VB([]byte(name))), VB([]byte(got)))
	distinct.Add("m|" + kind + "|" + prefix + "|" + name)
	if len(st.Samples) < 4 {
		st.Samples = append(st.Samples, fmt.Sprintf("map %s prefix=%q name=%q -> %q", kind, prefix, name, got))
	}
}

type query struct {
	ns, name, class string
}

// knownSeen limits how often one known finding is written to the (bounded) failure list.
var knownSeen = map[string]int{}

func failKnown(st *Stats, index int, key, what, human string) {
	knownSeen[key]++
	st.Count("known:" + key)
	if knownSeen[key] <= 3 {
		st.Fail(index, key, what, human)
	}
}

// routeBatch returns the number of queries evaluated.
func routeBatch(cfg *RunCfg, st *Stats, w *CaseWriter, distinct DistinctSet, index, batch int) int {
	r := cfg.Rng
	kind := "http"
	if batch%2 == 1 {
		kind = "rpc"
	}
	full := batch < 8
	pl, _ := genPlan(cfg, kind, full, batch)
	proto := pickProto(cfg, kind, batch)
	st.Count("plan:" + kind)
	st.Count("proto:" + proto + ":" + kind)
	human := func() string { b, _ := json.Marshal(pl); return "proto=" + proto + " " + string(b) }

	// --- registration on a fresh server peer
	setMapper(kind)
	obsv := newObserver()
	srv := erpc.NewPeer(erpc.PeerConfig{}, obsv)
	l := newLink(proto, srv)
	closed := false
	closeAll := func() {
		if !closed {
			closed = true
			l.close()
			srv.Close()
		}
	}
	defer closeAll()
	per := make([][]string, len(pl.Ops))
	ret := map[nsName]string{}     // (ns,name) -> hid, as returned by the implementation
	lastUnk := map[string]string{} // ns -> uid set last (harness's own knowledge)
	var entries []nsName
	late := 0
	if !full && len(pl.Ops) > 3 {
		late = []int{0, 0, 1, 2, 3}[r.Intn(5)]
	}
	st.Count(fmt.Sprintf("late-ops:%d", late))
	connected := false
	for i, op := range pl.Ops {
		if !connected && i >= len(pl.Ops)-late {
			// the remaining operations are performed on a peer that already serves a session
			// (no request is in flight, so no lookup runs concurrently)
			connected = l.connect()
		}
		names := applyOp(srv, op)
		per[i] = names
		if op.Unk {
			lastUnk[op.NS] = op.UID
			st.Count(fmt.Sprintf("unknown-set:%s:group=%v", op.NS, len(op.Groups) > 0))
			continue
		}
		it := corpus[op.Item]
		st.Count(fmt.Sprintf("reg:%s:%s:depth%d", it.NS, it.Kind, len(op.Groups)))
		wantN := 1
		if it.Kind == "struct" {
			wantN = len(it.Methods)
		}
		if exp := expectedNames(kind, op); strings.Join(exp, "\x01") != strings.Join(names, "\x01") {
			st.Fail(index, "name-not-mapper-of-identifier", fmt.Sprintf("registration of %s %s returned %q; the mapper applied to the group prefix and the declared identifier(s) gives %q", it.Kind, it.Name, names, exp), human())
		}
		if len(names) != wantN {
			st.Fail(index, "names-count", fmt.Sprintf("registration of %s returned %d names for %d handlers", it.Name, len(names), wantN), human())
			continue
		}
		for j, n := range names {
			m := ""
			if it.Kind == "struct" {
				m = it.Methods[j]
			}
			k := nsName{it.NS, n}
			if _, dup := ret[k]; dup {
				st.Fail(index, "silent-sharing", fmt.Sprintf("name %q returned by two registrations in %s", n, it.NS), human())
			}
			ret[k] = hidOf(it, m)
			entries = append(entries, k)
		}
	}

	// --- queries
	var qs []query
	other := func(ns string) string {
		if ns == "call" {
			return "push"
		}
		return "call"
	}
	if len(entries) > 0 {
		picks := 10
		if full {
			picks = len(entries)
			if picks > 60 {
				picks = 60
			}
		}
		perm := r.Perm(len(entries))
		for i := 0; i < picks && i < len(perm); i++ {
			e := entries[perm[i]]
			qs = append(qs, query{e.ns, e.name, "exact"}, query{other(e.ns), e.name, "other-ns"})
			nm := 3
			if full {
				nm = 1
			}
			for j := 0; j < nm; j++ {
				m, cls := nearMiss(cfg, e.name)
				qs = append(qs, query{e.ns, m, cls})
				if r.Intn(4) == 0 {
					qs = append(qs, query{other(e.ns), m, cls + "+other-ns"})
				}
			}
			nf := 2
			if full {
				nf = 1
			}
			for j := 0; j < nf && e.name != ""; j++ {
				m, cls := pathFold(cfg, e.name)
				qs = append(qs, query{e.ns, m, cls})
			}
			if e.name != "" && (!full || i%4 == 0) {
				m, cls := twoHazards(cfg, e.name)
				qs = append(qs, query{e.ns, m, cls})
			}
			if !full {
				for j := 0; j < 4; j++ {
					m, cls := wireMiss(cfg, e.name, wireTokens[r.Intn(len(wireTokens))], r.Intn(4))
					qs = append(qs, query{e.ns, m, cls})
					if r.Intn(4) == 0 {
						qs = append(qs, query{other(e.ns), m, cls + "+other-ns"})
					}
				}
			}
		}
		// one registered CALL name and one registered PUSH name per batch: every wire token
		// appended, and once more in a random position
		swept := map[string]bool{}
		for _, pi := range perm {
			e := entries[pi]
			if swept[e.ns] || e.name == "" {
				continue
			}
			swept[e.ns] = true
			for _, tok := range wireTokens {
				m, cls := wireMiss(cfg, e.name, tok, 0)
				qs = append(qs, query{e.ns, m, cls + "-sweep"})
				m, cls = wireMiss(cfg, e.name, tok, 1+r.Intn(2))
				qs = append(qs, query{e.ns, m, cls + "-sweep"})
			}
		}
	}
	for i := 0; i < 5; i++ {
		ns := "call"
		if r.Intn(2) == 0 {
			ns = "push"
		}
		qs = append(qs, query{ns, randName(cfg), "random"})
	}
	qs = append(qs, query{"call", "", "empty"}, query{"push", "", "empty"}, query{"call", "/", "root"})
	// the raw protocol has one length byte for the name
	long := "/" + strings.Repeat("n", 253+r.Intn(4))
	qs = append(qs, query{"call", long, "long"})

	if !connected {
		connected = l.connect()
	}
	if !connected {
		st.Fail(index, "session", "could not establish the session pair over "+proto, human())
		return 0
	}
	rec.Drain()
	type callObs struct {
		ok    bool
		reply string
		code  int32
	}
	obs := make([]callObs, len(qs))
	lost := make([]bool, len(qs))
	barrier := func() *erpc.Status {
		// frames are read in order, so when this reply is back every push before it has been
		// read and its handler goroutine is counted
		var dummy string
		return l.sess.Call("/verif-barrier", "barrier", &dummy, erpc.WithAddMeta(tokenMeta, "barrier")).Status()
	}
	// over raw all pushes are in flight before one barrier (as before); over the other
	// protocols a frame may end the session, so each push is followed by its own barrier
	perPushBarrier := proto != "raw"
	needConn := false
	for i, q := range qs {
		tok := fmt.Sprintf("b%dq%d", batch, i)
		if needConn || !l.sess.Health() {
			st.Count("reconnect:" + proto)
			if !l.connect() {
				st.Fail(index, "session", "could not re-establish the session pair over "+proto, human())
				return 0
			}
			needConn = false
		}
		if q.ns == "call" {
			var res string
			stt := l.sess.Call(q.name, tok, &res, erpc.WithAddMeta(tokenMeta, tok)).Status()
			switch {
			case stt.OK() && proto == "wspb" && res == "":
				// the websocket protobuf frame has no status field (finding of C04/C01): a
				// refused call arrives as OK with an empty result
				obs[i] = callObs{code: -1}
			case stt.OK():
				obs[i] = callObs{ok: true, reply: res}
			default:
				obs[i] = callObs{code: stt.Code()}
				if stt.Code() == erpc.CodeConnClosed {
					lost[i], needConn = true, true
				}
			}
		} else {
			if pst := l.sess.Push(q.name, tok, erpc.WithAddMeta(tokenMeta, tok)); !pst.OK() {
				obs[i] = callObs{code: pst.Code()}
			}
			if perPushBarrier {
				if bst := barrier(); !bst.OK() && bst.Code() == erpc.CodeConnClosed {
					lost[i], needConn = true, true
				}
			}
		}
	}
	if needConn || !l.sess.Health() {
		l.connect()
	}
	if l.sess != nil {
		barrier()
	}
	// closing the serving sessions waits for the handler goroutines
	closeAll()
	hits := map[string][]string{}
	for _, h := range rec.Drain() {
		hits[h.Token] = append(hits[h.Token], h.ID)
	}

	qin := make([]string, len(qs))
	qout := make([]string, len(qs))
	for i, q := range qs {
		tok := fmt.Sprintf("b%dq%d", batch, i)
		ran := hits[tok]
		seen := obsv.get(tok)
		delivered := len(seen) > 0
		st.Count("query:" + q.ns + ":" + q.class)
		qin[i] = VL(VS(q.ns), VB([]byte(q.name)))
		qh := fmt.Sprintf("%s proto=%s %s %q (%s) plan=%s", kind, proto, q.ns, q.name, q.class, human())

		// ---- what was observed, in the model's vocabulary
		runVal := func(id string) string {
			k := "known"
			if strings.HasPrefix(id, "U:") {
				k = "unknown"
			}
			return VL(VS("run"), VB([]byte(id)), VS(k))
		}
		byRan := func() string {
			switch len(ran) {
			case 0:
				return VS("none")
			case 1:
				return runVal(ran[0])
			}
			return VL(VS("many"), VN(int64(len(ran))))
		}
		var qv string
		switch {
		case q.ns == "call" && obs[i].ok:
			qv = runVal(obs[i].reply)
		case q.ns == "call" && proto == "wspb":
			qv = byRan()
		case q.ns == "call" && obs[i].code == erpc.CodeNotFound:
			qv = VS("notfound")
		case q.ns == "call" && obs[i].code == erpc.CodeBadMessage:
			qv = VS("badmsg")
		case q.ns == "call":
			qv = VL(VS("status"), VN(int64(obs[i].code)))
		default:
			qv = byRan()
		}
		switch {
		case !inModelDomain(proto, q.ns, q.name):
			qout[i] = VS("outside")
			st.Count("wire:" + proto + ":outside-model")
		case !delivered && lost[i]:
			qout[i] = VL(VS("broken"), byRan())
			st.Count("wire:" + proto + ":session-lost")
		case !delivered:
			qout[i] = VL(VS("refused"), byRan())
			st.Count("wire:" + proto + ":refused")
		default:
			qout[i] = VL(VL(VS("seen"), VB([]byte(seen[0].name))), qv)
			if seen[0].name == q.name {
				st.Count("wire:" + proto + ":arrived-unchanged")
			} else {
				st.Count("wire:" + proto + ":arrived-changed")
			}
		}
		if len(pl.Ops) > 0 {
			distinct.Add(fmt.Sprintf("q|%d|%s|%s|%s", batch, proto, q.ns, q.name))
		}

		// ---- property oracle on the implementation alone
		if len(ran) > 1 {
			st.Fail(index, "multi-invoke", fmt.Sprintf("%d handlers ran for one request: %v", len(ran), ran), qh)
			continue
		}
		if len(seen) > 1 {
			st.Fail(index, "multi-seen", fmt.Sprintf("one request arrived %d times: %q", len(seen), seen), qh)
			continue
		}
		if delivered && seen[0].ns != q.ns {
			st.Fail(index, "namespace-leak", fmt.Sprintf("a %s request arrived as a %s request", q.ns, seen[0].ns), qh)
			continue
		}
		if q.ns == "call" {
			if obs[i].ok && (len(ran) != 1 || ran[0] != obs[i].reply) {
				st.Fail(index, "reply-identity", fmt.Sprintf("reply says %q, handlers that ran: %v", obs[i].reply, ran), qh)
				continue
			}
			if !obs[i].ok && obs[i].code != -1 && len(ran) != 0 {
				st.Fail(index, "status-after-run", fmt.Sprintf("caller saw status %d although handler %v ran", obs[i].code, ran), qh)
				continue
			}
		}
		got := ""
		if len(ran) == 1 {
			got = ran[0]
		}
		if got != "" && !strings.HasPrefix(got, "U:") && !strings.HasPrefix(got, q.ns+":") {
			st.Fail(index, "namespace-leak", fmt.Sprintf("%s request ran handler %s of the other namespace", q.ns, got), qh)
			continue
		}

		// which service method the request is for: the caller's string; over httproto the path
		// of that string read as a URI reference
		eff, effOK := q.name, true
		if proto == "http" {
			eff, effOK = httpTarget(q.name)
		}
		if !delivered {
			// nothing arrived: the sender refused the name, or the session was lost with it
			switch {
			case got != "":
				st.Fail(index, "ran-without-request", fmt.Sprintf("handler %s ran although no request header arrived", got), qh)
			case obs[i].ok:
				st.Fail(index, "reply-identity", "the call completed OK although no request header arrived", qh)
			case proto == "http" && q.ns == "call" && effOK && targetResidue(q.name):
				failKnown(st, index, "http-target-not-escaped", fmt.Sprintf("the request for path %q (asked as %q) was not delivered: status %d, session lost=%v", eff, q.name, obs[i].code, lost[i]), qh)
			case lost[i]:
				st.Fail(index, "request-ended-session", fmt.Sprintf("the request for %q (asked as %q) was not delivered and the session was lost (status %d)", eff, q.name, obs[i].code), qh)
			case proto == "http" && q.ns == "push":
				st.Count("http-push-refused")
			case effOK && eff != "":
				if want, registered := ret[nsName{q.ns, eff}]; registered {
					st.Fail(index, "registered-not-invoked", fmt.Sprintf("name returned for %s; the request was not delivered (status %d)", want, obs[i].code), qh)
				}
			}
			continue
		}
		dname := eff
		if sn := seen[0].name; !effOK || sn != eff {
			switch {
			case effOK && proto == "http" && targetResidue(q.name):
				failKnown(st, index, "http-target-not-escaped", fmt.Sprintf("the caller asked for path %q (as %q), the serving peer looked up %q", eff, q.name, sn), qh)
				dname = sn
			case !effOK:
				st.Fail(index, "name-altered-in-transit", fmt.Sprintf("the caller's string %q is not a URI reference, yet a request for %q arrived", q.name, sn), qh)
				dname = sn
			default:
				st.Fail(index, "name-altered-in-transit", fmt.Sprintf("the caller asked for %q, the serving peer looked up %q", eff, sn), qh)
			}
		}
		want, registered := ret[nsName{q.ns, dname}]
		switch {
		case dname == "" && registered:
			if got != want {
				failKnown(st, index, "empty-name-unreachable", fmt.Sprintf("handler %s was returned the empty name and cannot be invoked under it (ran: %q)", want, got), qh)
			}
		case dname == "":
			if got != "" && !strings.HasPrefix(got, "U:") {
				st.Fail(index, "unregistered-invoked", fmt.Sprintf("empty name ran registered handler %s", got), qh)
			}
		case registered:
			if got != want {
				key := "wrong-handler"
				if got == "" {
					key = "registered-not-invoked"
				}
				st.Fail(index, key, fmt.Sprintf("name returned for %s; ran %q", want, got), qh)
			}
		case lastUnk[q.ns] != "":
			if got != lastUnk[q.ns] {
				key := "unknown-not-invoked"
				if got != "" && !strings.HasPrefix(got, "U:") {
					key = "unregistered-invoked"
				}
				st.Fail(index, key, fmt.Sprintf("unregistered name %q, unknown-handler %s is set; ran %q", dname, lastUnk[q.ns], got), qh)
			}
		default:
			if got != "" {
				st.Fail(index, "unregistered-invoked", fmt.Sprintf("unregistered name %q, no unknown-handler; ran %s", dname, got), qh)
			} else if q.ns == "call" && proto != "wspb" && obs[i].code != erpc.CodeNotFound {
				st.Fail(index, "notfound-status", fmt.Sprintf("unregistered name, no unknown-handler; caller saw status %d, not 404", obs[i].code), qh)
			}
		}
	}
	w.Add(VL(VS("routew"), VS(kind), VS(proto), planVal(pl), VL(qin...)), VL(VL(VS("ok"), namesVal(per)), VL(qout...)))
	if batch < 2 {
		st.Samples = append(st.Samples, fmt.Sprintf("route %s over %s: %d operations, %d names, %d queries", kind, proto, len(pl.Ops), len(entries), len(qs)))
	}
	return len(qs)
}

var conflictRe = regexp.MustCompile(`there is a handler conflict: ([^\r\n]*?)(?: <[^<>\r\n]*>)?\s*(?:\n|$)`)

// conflictCase appends a colliding registration to a conflict-free plan and runs it in a child.
func conflictCase(cfg *RunCfg, st *Stats, w *CaseWriter, distinct DistinctSet, index, c int) {
	r := cfg.Rng
	kind := "http"
	if (c/4)%2 == 1 {
		kind = "rpc"
	}
	base, taken := genPlan(cfg, kind, false, c)
	pl := plan{Kind: kind, Ops: base.Ops}
	class := ""
	expectExit := true
	switch c % 4 {
	case 3:
		// a controller colliding with itself
		var selfs []int
		for i, it := range corpus {
			if selfConflicting(it) {
				selfs = append(selfs, i)
			}
		}
		idx := selfs[r.Intn(len(selfs))]
		pl.Ops = append(pl.Ops, planOp{NS: corpus[idx].NS, Groups: genGroups(cfg), Item: idx})
		class = "self"
	case 2:
		if c%8 == 2 {
			class = "control-no-conflict"
			expectExit = false
			break
		}
		fallthrough
	default:
		// search a (group, item) whose solo names hit a taken name of its namespace; for
		// c%4 == 1 the colliding item must be a DIFFERENT controller/function than any in the plan
		wantOther := c%4 == 1
		inPlan := map[int][]string{}
		var candGroups [][]string
		for _, op := range base.Ops {
			if op.Unk {
				continue
			}
			inPlan[op.Item] = op.Groups
			candGroups = append(candGroups, op.Groups)
			for _, x := range []string{"aa_bb", "AaBb", "Aa", "aa", "user", "User", "X_", "ABC", "abc_xyz", "ABcXYz", "Stat", "event", "Math", "T9", "P9", "Event", "HTTPServer", "user_info", "V1"} {
				candGroups = append(candGroups, append(append([]string{}, op.Groups...), x))
			}
		}
		found := false
		for try := 0; try < 3000 && !found && len(candGroups) > 0; try++ {
			idx := r.Intn(len(corpus))
			it := corpus[idx]
			if selfConflicting(it) {
				continue
			}
			g0, already := inPlan[idx]
			if wantOther && already {
				continue
			}
			var groups []string
			switch {
			case already && r.Intn(2) == 0:
				groups = g0 // same controller again in the same group: the plainest conflict
			case r.Intn(4) == 0:
				groups = genGroups(cfg)
			default:
				groups = candGroups[r.Intn(len(candGroups))]
			}
			for _, n := range soloNames(kind, groups, idx) {
				if taken[nsName{it.NS, n}] {
					found = true
				}
			}
			if found {
				pl.Ops = append(pl.Ops, planOp{NS: it.NS, Groups: groups, Item: idx})
				if already {
					class = "same-item-again"
				} else {
					class = "different-item-same-name"
				}
			}
		}
		if !found {
			class = "control-no-conflict"
			expectExit = false
		}
	}
	// registrations after the fatal one must never happen
	if expectExit {
		for k := r.Intn(3); k > 0; k-- {
			idx := r.Intn(len(corpus))
			if !selfConflicting(corpus[idx]) {
				pl.Ops = append(pl.Ops, planOp{NS: corpus[idx].NS, Groups: []string{"after", "fatal"}, Item: idx})
			}
		}
	}
	// the logger level must not matter: Fatalf terminates the process whether or not its
	// CRITICAL line is printed (OFF and PRINT do not print it)
	pl.Log = []string{"OFF", "CRITICAL", "PRINT", "DEBUG", "OFF", "ERROR"}[r.Intn(6)]
	quiet := pl.Log == "OFF" || pl.Log == "PRINT"
	st.Count("conflict:" + kind + ":" + class)
	st.Count("conflict-loglevel:" + pl.Log)
	spec, _ := json.Marshal(pl)
	cmd := exec.Command(os.Args[0], "-child", string(spec))
	var out bytes.Buffer
	cmd.Stdout = &out
	cmd.Stderr = &out
	err := cmd.Run()
	code := 0
	if err != nil {
		if ee, ok := err.(*exec.ExitError); ok {
			code = ee.ExitCode()
		} else {
			Must(err)
		}
	}
	var per [][]string
	done := false
	for _, line := range strings.Split(out.String(), "\n") {
		line = strings.TrimSpace(line)
		if line == "@@DONE" {
			done = true
		}
		if !strings.HasPrefix(line, "@@R") {
			continue
		}
		var names []string
		for _, hx := range strings.Split(strings.TrimSpace(strings.TrimPrefix(line, "@@R")), ",") {
			if hx == "" {
				continue
			}
			b, herr := hex.DecodeString(strings.TrimPrefix(hx, "x"))
			Must(herr)
			names = append(names, string(b))
		}
		per = append(per, names)
	}
	human := fmt.Sprintf("%s class=%s plan=%s", kind, class, spec)
	var regObs string
	switch {
	case code == 0 && done:
		regObs = VL(VS("ok"), namesVal(per))
	case code == 1 && quiet:
		regObs = VL(VS("fatal"), namesVal(per))
	case code == 1:
		name := ""
		if m := conflictRe.FindStringSubmatch(out.String()); m != nil {
			name = m[1]
		}
		regObs = VL(VS("error"), VB([]byte(name)), namesVal(per))
	default:
		regObs = VL(VS("exit"), VN(int64(code)))
	}
	// oracle on the implementation alone
	if expectExit {
		if code != 1 {
			st.Fail(index, "conflict-not-fatal", fmt.Sprintf("a registration colliding with an earlier name did not terminate the process with status 1 (exit %d, %d operations completed)", code, len(per)), human)
		} else if len(per) != len(base.Ops) {
			st.Fail(index, "conflict-wrong-point", fmt.Sprintf("process exited after %d operations, the colliding one is number %d", len(per), len(base.Ops)+1), human)
		}
	} else if code != 0 || !done || len(per) != len(pl.Ops) {
		st.Fail(index, "spurious-fatal", fmt.Sprintf("conflict-free plan did not complete (exit %d, %d of %d operations)", code, len(per), len(pl.Ops)), human)
	}
	tag := "route"
	if quiet {
		tag = "routeq"
	}
	w.Add(VL(VS(tag), VS(kind), planVal(pl), VL()), VL(regObs, VL()))
	distinct.Add("c|" + string(spec))
	if c < 2 {
		st.Samples = append(st.Samples, fmt.Sprintf("conflict %s class=%s exit=%d completed=%d/%d", kind, class, code, len(per), len(pl.Ops)))
	}
}
