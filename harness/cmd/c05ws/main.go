// c05ws drives the two sub-protocols of mixer/websocket (-mode json | pb): directly (Pack into
// a buffer, Unpack of one message through three chunkings) and through the real wsProto over
// a pair of websocket connections whose byte stream is re-chunked (k messages back to back).
package main

import (
	"bufio"
	"bytes"
	"flag"
	"fmt"
	"io"
	"math/rand"
	"net"
	"net/http"
	"time"

	"verifharness/c05lib"
	. "verifharness/hlib"

	"github.com/henrylee2cn/erpc/v6/mixer/websocket"
	"github.com/henrylee2cn/erpc/v6/mixer/websocket/jsonSubProto"
	"github.com/henrylee2cn/erpc/v6/mixer/websocket/pbSubProto"
	ws "github.com/henrylee2cn/erpc/v6/mixer/websocket/websocket"
	"github.com/henrylee2cn/erpc/v6/socket"
)

var modeFlag = flag.String("mode", "json", "json | pb")

// swConn is the transport under a websocket connection; its two directions can be
// redirected after the handshake.
type swConn struct {
	r io.Reader
	w io.Writer
}

func (s *swConn) Read(p []byte) (int, error)       { return s.r.Read(p) }
func (s *swConn) Write(p []byte) (int, error)      { return s.w.Write(p) }
func (s *swConn) Close() error                     { return nil }
func (s *swConn) LocalAddr() net.Addr              { return &net.TCPAddr{} }
func (s *swConn) RemoteAddr() net.Addr             { return &net.TCPAddr{} }
func (s *swConn) SetDeadline(time.Time) error      { return nil }
func (s *swConn) SetReadDeadline(time.Time) error  { return nil }
func (s *swConn) SetWriteDeadline(time.Time) error { return nil }

type hijackW struct {
	conn *swConn
	buf  *bufio.ReadWriter
	h    http.Header
}

func (h *hijackW) Header() http.Header         { return h.h }
func (h *hijackW) Write(p []byte) (int, error) { return len(p), nil }
func (h *hijackW) WriteHeader(int)             {}
func (h *hijackW) Hijack() (net.Conn, *bufio.ReadWriter, error) {
	return h.conn, h.buf, nil
}

// wsPair performs a real websocket handshake between a client and a server connection of
// the vendored library and returns both with their transports exposed.
func wsPair() (cw *ws.Conn, csw *swConn, sr *ws.Conn, ssw *swConn) {
	c1, c2 := net.Pipe()
	csw = &swConn{r: c1, w: c1}
	ssw = &swConn{r: c2, w: c2}
	connCh := make(chan *ws.Conn, 1)
	go func() {
		br := bufio.NewReader(ssw)
		req, err := http.ReadRequest(br)
		Must(err)
		srv := ws.Server{
			Handshake: func(*ws.Config, *http.Request) error { return nil },
			Handler: func(c *ws.Conn) {
				connCh <- c
				select {} // keep the hijacked connection open
			},
		}
		srv.ServeHTTP(&hijackW{conn: ssw, buf: bufio.NewReadWriter(br, bufio.NewWriter(ssw)), h: http.Header{}}, req)
	}()
	cfg, err := ws.NewConfig("ws://verif.local/ws", "http://verif.local/")
	Must(err)
	cw, err = ws.NewClient(cfg, csw)
	Must(err)
	sr = <-connCh
	return
}

// wsLink is a client and a server websocket connection with their byte streams under the
// harness's control: what the client sends is collected in wire, the server reads what the
// harness feeds; nothing is left pointing at the handshake pipe (a close frame written on a
// protocol error must not block).
type wsLink struct {
	csock, ssock socket.Socket
	wire         bytes.Buffer
	sink         bytes.Buffer
	feed         *c05lib.ChunkRW
	ssw          *swConn
}

func newLink(wsPF socket.ProtoFunc) *wsLink {
	cw, csw, sr, ssw := wsPair()
	l := &wsLink{feed: &c05lib.ChunkRW{}, ssw: ssw}
	csw.w = &l.wire
	csw.r = bytes.NewReader(nil)
	ssw.r = l.feed
	ssw.w = &l.sink
	l.csock = socket.NewSocket(cw, wsPF)
	l.ssock = socket.NewSocket(sr, wsPF)
	return l
}

// readOne reads one message on the server side under a deadline; "" = timed out.
func (l *wsLink) readOne() string {
	done := make(chan string, 1)
	go func() {
		defer func() {
			if e := recover(); e != nil {
				done <- "sfail"
			}
		}()
		m := socket.NewMessage(socket.WithNewBody(func(socket.Header) interface{} { return new([]byte) }))
		if err := l.ssock.ReadMessage(m); err != nil {
			done <- "sfail"
			return
		}
		done <- c05lib.FieldsVal(m)
	}()
	select {
	case v := <-done:
		return v
	case <-time.After(5 * time.Second):
		return ""
	}
}

const maxFailures = 6

func main() {
	cfg := ParseFlags()
	r := cfg.Rng
	gz := RegTestFilters()
	st := NewStats("C05", cfg)
	json := *modeFlag == "json"
	name := "ws" + *modeFlag
	var sub socket.ProtoFunc
	pf := &c05lib.Profile{
		BodyClasses: []int{c05lib.ClsAll, c05lib.ClsAll, c05lib.ClsJSON, c05lib.ClsSep, c05lib.ClsUTF8},
		BodyLens:    []int{0, 0, 1, 16, 127, 128, 255, 256, 1000, 5000},
		Mtypes:      []byte{0, 1, 2, 3, 4, 5}, AnyMtype: true, BigFields: true,
	}
	var inLimits func(g *c05lib.GenMsg) bool
	if json {
		sub = jsonSubProto.NewJSONSubProtoFunc()
		// the service method is an arbitrary byte string (written through escapeBody like the body)
		pf.MethodClasses = []int{c05lib.ClsText, c05lib.ClsPrint, c05lib.ClsJSON, c05lib.ClsASCII, c05lib.ClsUTF8, c05lib.ClsAll, c05lib.ClsAll, c05lib.ClsSep, c05lib.ClsHigh}
		pf.MethodLens = []int{0, 1, 7, 20, 255, 256, 1000}
		inLimits = func(g *c05lib.GenMsg) bool { return true }
	} else {
		sub = pbSubProto.NewPbSubProtoFunc()
		pf.MethodClasses = []int{c05lib.ClsText, c05lib.ClsText, c05lib.ClsASCII, c05lib.ClsUTF8, c05lib.ClsAll, c05lib.ClsHigh}
		pf.MethodLens = []int{0, 1, 7, 20, 127, 128, 255, 256, 1000}
		// the frame has no status field: the supported field set is "status OK"
		inLimits = func(g *c05lib.GenMsg) bool {
			return !g.HasSt || (g.Code == 0 && len(g.Msg) == 0 && !g.HasC)
		}
	}
	st.Rule = name + ": (a) sub-protocol Pack into a buffer and Unpack of that one message through 3 chunkings (all byte values in service method/meta/status/body; lengths 0,1,127,128,255,256,65535,65536; seq extremes; every codec id; pipes over xor/rev/lenp/md5/gzip; size limit sometimes at / below the message size); (b) 1-6 messages through the real wsProto over a client and a server websocket connection (real handshake), the frame stream re-chunked 3 ways, compared with the direct decoding; (c) hostile messages of the written shape (JSON members with hostile values and pipe arrays / protobuf payloads with unknown, repeated, wrongly typed fields, bad varints, truncation)"
	w := NewCaseWriter(cfg)
	distinct := DistinctSet{}
	kind := VS(*modeFlag)

	wsPF := websocket.NewWsProtoFunc(sub)
	link := newLink(wsPF)

	direct := func(b []byte, chunks [][]byte) string {
		fr, end, _ := c05lib.DecodeStream(sub, chunks)
		if end != "sok" || len(fr) != 1 {
			if len(b) == 0 && end == "sok" && len(fr) == 0 {
				// an empty message: DecodeStream does not even call Unpack; do it here
				u := c05lib.UnpackOne(sub(&c05lib.ChunkRW{}))
				return u.Val
			}
			return "sfail"
		}
		return fr[0]
	}

	evaluated := 0
	for i := 0; i < cfg.N; i++ {
		if len(st.OracleFailures) >= maxFailures {
			st.Count("stopped-after-failures")
			break // fail fast: the failures recorded so far carry their cases as replays
		}
		evaluated++
		gz.ResetTab()
		mode := r.Intn(22)
		switch {
		case mode < 10:
			st.Count("mode:pack")
			g := c05lib.GenMessage(r, st, pf)
			tight := r.Intn(6) == 0
			ids := c05lib.GenIds(r, !tight)
			lim := uint32(c05lib.BigLim)
			socket.SetMessageSizeLimit(c05lib.BigLim)
			probe, pres, _, _ := c05lib.PackOne(sub, g, ids)
			if pres == "ok" && tight && len(probe) > 1 {
				lim = uint32(len(probe) - r.Intn(2))
				st.Count("limit:tight")
			}
			gz.ResetTab()
			socket.SetMessageSizeLimit(lim)
			out, res, writes, size := c05lib.PackOne(sub, g, ids)
			human := c05lib.Clip(fmt.Sprintf("%s pack lim=%d ids=%x msg=%s", name, lim, ids, g.Val()))
			st.Count("pack:" + res)
			inl := inLimits(g)
			if inl {
				st.Count("guard:within-limits")
			} else {
				st.Count("guard:outside-limits")
			}
			packObs, unpObs := "serr", "snone"
			if res == "ok" {
				if writes != 1 {
					st.Fail(i, "pack-multiple-writes", fmt.Sprintf("Pack wrote the message in %d Write calls", writes), human)
				}
				packObs = VL(VS("ok"), VB(out), VN(int64(size)))
				wantSize := int64(len(out))
				if uint32(len(out)) > lim {
					wantSize = 0 // SetSize refuses, the error is ignored (noted, not a C05 matter)
				}
				var first string
				for ci, ch := range c05lib.Chunkings(r, out) {
					cur := direct(out, ch)
					if ci == 0 {
						first, unpObs = cur, cur
						if inl {
							e := c05lib.DefaultExpect(g, ids, wantSize)
							if !json {
								e.Status = []byte("code=0")
							}
							fr := []string{}
							end := "sok"
							if cur == "sfail" {
								end = "sfail"
							} else {
								fr = append(fr, cur)
							}
							c05lib.RoundtripOracle(st, i, e, fr, end, human)
						}
						if int64(size) != wantSize {
							st.Fail(i, "size-not-own", fmt.Sprintf("Pack reports size %d for a message of %d bytes (limit %d)", size, len(out), lim), human)
						}
					} else if cur != first {
						st.Fail(i, "chunking", fmt.Sprintf("chunking %d decodes differently", ci), human)
					}
				}
			} else if inl {
				st.Fail(i, "roundtrip", "a message within limits cannot be packed: "+res, human)
			}
			w.Add(VL(VS("pack"), kind, VN(int64(lim)), VB(ids), gz.TabVal(), g.Val()), VL(packObs, unpObs))
			distinct.Add(human)
		case mode >= 20: // Packs and an Unpack of ONE sub-protocol instance under a forced interleaving
			st.Count("mode:cross")
			socket.SetMessageSizeLimit(c05lib.BigLim)
			g := c05lib.GenMessage(r, st, pf)
			if len(g.Body) > 20000 {
				g.Body = g.Body[:20000]
			}
			ids := c05lib.GenIds(r, false)
			out, res, _, _ := c05lib.PackOne(sub, g, ids)
			if res != "ok" {
				break
			}
			spec := &c05lib.XSpec{Name: name, PF: sub, EOF: true, Frames: [][]byte{out}}
			for j, k := 0, 1+r.Intn(3); j < k; j++ {
				og := c05lib.GenMessage(r, st, pf)
				if len(og.Body) > 2000 {
					og.Body = og.Body[:2000]
				}
				oids := c05lib.GenIds(r, false)
				spec.Out = append(spec.Out, func() socket.Message { return og.NewMessage(oids) })
			}
			x, _ := spec.Run(r, st, i)
			obs := "sfail"
			if x.OK {
				obs = x.Unp[0]
			}
			w.Add(VL(VS("msgs"), kind, VN(c05lib.BigLim), gz.TabVal(), VL(VB(out))), VL(obs))
			distinct.Add(c05lib.Clip(fmt.Sprintf("%s cross ids=%x msg=%s %s", name, ids, g.Val(), x.Sched)))
		case mode >= 13 && mode < 15: // one message arriving in chunks while the same instance sends
			st.Count("mode:duplex")
			socket.SetMessageSizeLimit(c05lib.BigLim)
			g := c05lib.GenMessage(r, st, pf)
			if len(g.Body) > 20000 {
				g.Body = g.Body[:20000]
			}
			ids := c05lib.GenIds(r, false)
			out, res, _, _ := c05lib.PackOne(sub, g, ids)
			if res != "ok" {
				break
			}
			alone := direct(out, [][]byte{append([]byte(nil), out...)})
			og := c05lib.GenMessage(r, st, pf)
			if len(og.Body) > 2000 {
				og.Body = og.Body[:2000]
			}
			oids := c05lib.GenIds(r, false)
			human := c05lib.Clip(fmt.Sprintf("%s duplex ids=%x msg=%s", name, ids, g.Val()))
			// (a) the sub-protocol alone on a full-duplex connection
			busy, ok := c05lib.Duplex(sub, c05lib.Cuts(r, out), true,
				func(pr socket.Proto) string { return c05lib.UnpackOne(pr).Val },
				func(pr socket.Proto) {
					defer func() { recover() }()
					pr.Pack(og.NewMessage(oids))
				})
			c05lib.DuplexOracle(st, i, alone, busy, ok, human)
			// (b) through the real websocket protocol: the server socket sends while the
			// client's frame arrives in chunks
			link.wire.Reset()
			if err := link.csock.WriteMessage(g.NewMessage(ids)); err == nil {
				wireBytes := append([]byte(nil), link.wire.Bytes()...)
				a, b := MemPair()
				link.ssw.r = b
				done := make(chan string, 1)
				go func() { done <- link.readOne() }()
				chunks := c05lib.Cuts(r, wireBytes)
				for ci, ch := range chunks {
					a.Write(ch)
					if ci == len(chunks)-1 {
						break
					}
					a.WaitPeerIdle(5 * time.Second)
					func() {
						defer func() { recover() }()
						link.ssock.WriteMessage(og.NewMessage(oids))
					}()
				}
				got := <-done
				if got != alone {
					what := "is not decoded within the deadline"
					if got != "" {
						what = "decodes to " + c05lib.Clip(got) + ", alone to " + c05lib.Clip(alone)
					}
					st.Fail(i, "roundtrip", "a websocket message arriving in chunks while the server side sends "+what, human)
					link = newLink(wsPF)
				} else {
					link.ssw.r = link.feed
				}
				a.Close()
			}
			obs := "sfail"
			if ok {
				obs = busy
			}
			w.Add(VL(VS("msgs"), kind, VN(c05lib.BigLim), gz.TabVal(), VL(VB(out))), VL(obs))
			distinct.Add(human)
		case mode < 13: // k messages through the real websocket protocol
			st.Count("mode:ws-stream")
			socket.SetMessageSizeLimit(c05lib.BigLim)
			k := 1 + r.Intn(6)
			var msgs [][]byte
			var alone []string
			link.wire.Reset()
			for j := 0; j < k; j++ {
				g := c05lib.GenMessage(r, st, pf)
				if len(g.Body) > 20000 {
					g.Body = g.Body[:20000]
				}
				ids := c05lib.GenIds(r, false)
				out, res, _, _ := c05lib.PackOne(sub, g, ids)
				if res != "ok" {
					continue
				}
				before := link.wire.Len()
				if err := link.csock.WriteMessage(g.NewMessage(ids)); err != nil {
					link.wire.Truncate(before)
					continue
				}
				msgs = append(msgs, out)
				alone = append(alone, direct(out, [][]byte{append([]byte(nil), out...)}))
			}
			stream := append([]byte(nil), link.wire.Bytes()...)
			human := c05lib.Clip(fmt.Sprintf("%s ws-stream messages=%d wire=%x", name, len(msgs), stream))
			for ci, ch := range c05lib.Chunkings(r, stream) {
				link.feed.Chunks = ch
				bad := false
				for j := range msgs {
					got := link.readOne()
					if got == "" {
						st.Fail(i, "roundtrip", fmt.Sprintf("chunking %d: message %d of the websocket stream is not decoded within the deadline", ci, j), human)
						bad = true
						break
					}
					if got != alone[j] {
						st.Fail(i, "roundtrip", fmt.Sprintf("chunking %d: message %d of the websocket stream decodes to %s, alone to %s", ci, j, c05lib.Clip(got), c05lib.Clip(alone[j])), human)
						bad = true
						break
					}
				}
				link.feed.Skip()
				if !bad && len(link.feed.Chunks) != 0 {
					st.Fail(i, "stream-sync", fmt.Sprintf("chunking %d: bytes left after the last message", ci), human)
					bad = true
				}
				if bad { // the connections are in an unknown state: a new pair
					link = newLink(wsPF)
					break
				}
			}
			var items []string
			for _, b := range msgs {
				items = append(items, VB(b))
			}
			w.Add(VL(VS("msgs"), kind, VN(c05lib.BigLim), gz.TabVal(), VL(items...)), VL(alone...))
			distinct.Add(human)
		default:
			st.Count("mode:hostile")
			lim := uint32(PickLen(r, []int{16, 64, c05lib.BigLim}))
			socket.SetMessageSizeLimit(lim)
			var b []byte
			if json {
				switch r.Intn(8) {
				case 0:
					b = c05lib.GarbageNoJSON(r)
					st.Count("hostile:garbage")
				default:
					b = []byte(c05lib.HostileJSONMembers(r, st) + `,"xferPipe":` + hostileArr(r) + "}")
					st.Count("hostile:json-shape")
				}
			} else {
				b = c05lib.HostilePB(r, st)
				for k := range b { // 0xF0 is the id of the real gzip filter behind the recorder
					if b[k] == GzipRealID {
						b[k] = 0xF1
					}
				}
			}
			got := direct(b, [][]byte{append([]byte(nil), b...)})
			human := c05lib.Clip(fmt.Sprintf("%s hostile lim=%d bytes=%x", name, lim, b))
			w.Add(VL(VS("msgs"), kind, VN(int64(lim)), gz.TabVal(), VL(VB(b))), VL(got))
			distinct.Add(human)
		}
		if len(st.Samples) < 6 && i%7 == 0 {
			st.Samples = append(st.Samples, fmt.Sprintf("%s case %d mode=%d", name, i, mode))
		}
	}
	st.Distribution["unpack-panics"] = c05lib.Panics
	st.Evaluations = evaluated
	st.DistinctNontrivial = len(distinct)
	st.Write(cfg, w)
}

func hostileArr(r *rand.Rand) string {
	return []string{"[]", "[1]", "[2,1]", "[3,3,109]", "[9]", "[1,9,2]", "[257]", "[-255]", "[1,2,3,1,2,3]", "[103]"}[r.Intn(10)]
}
