package main

import (
	"fmt"
	"math/rand"
	"net"
	"strings"
	"sync"
	"sync/atomic"
	"time"

	. "verifharness/hlib"

	"git.apache.org/thrift.git/lib/go/thrift"
	erpc "github.com/henrylee2cn/erpc/v6"
	"github.com/henrylee2cn/erpc/v6/plugin/heartbeat"
	"github.com/henrylee2cn/erpc/v6/plugin/overloader"
	"github.com/henrylee2cn/erpc/v6/proto/rawproto"
	"github.com/henrylee2cn/erpc/v6/proto/thriftproto"
	"github.com/henrylee2cn/erpc/v6/xfer/gzip"
)

const gzipPipeID = 'g'

// pipe returns message settings: a third of the byte-bodied messages travel through the gzip
// transfer filter (its pooled buffers and writers are shared by all sessions).
func pipe(r *rand.Rand) []erpc.MessageSetting {
	if r.Intn(3) == 0 {
		return []erpc.MessageSetting{erpc.WithXferPipe(gzipPipeID)}
	}
	return nil
}

// ---- a thrift struct for the struct protocol (same shape as the repository's test type) ----

type TMsg struct{ Author string }

func (p *TMsg) Read(iprot thrift.TProtocol) error {
	if _, err := iprot.ReadStructBegin(); err != nil {
		return err
	}
	for {
		_, ft, id, err := iprot.ReadFieldBegin()
		if err != nil {
			return err
		}
		if ft == thrift.STOP {
			break
		}
		if id == 1 {
			v, err := iprot.ReadString()
			if err != nil {
				return err
			}
			p.Author = v
		} else if err := iprot.Skip(ft); err != nil {
			return err
		}
		if err := iprot.ReadFieldEnd(); err != nil {
			return err
		}
	}
	return iprot.ReadStructEnd()
}

func (p *TMsg) Write(oprot thrift.TProtocol) error {
	if err := oprot.WriteStructBegin("tmsg"); err != nil {
		return err
	}
	if err := oprot.WriteFieldBegin("author", thrift.STRING, 1); err != nil {
		return err
	}
	if err := oprot.WriteString(p.Author); err != nil {
		return err
	}
	if err := oprot.WriteFieldEnd(); err != nil {
		return err
	}
	if err := oprot.WriteFieldStop(); err != nil {
		return err
	}
	return oprot.WriteStructEnd()
}

// ---- handlers ----

var opCount sync.Map // scenario -> *int64

// scenarios whose calls must not block forever
var bounded = map[string]bool{"redial/raw": true, "redial/thrift-binary": true}

func countOp(sc string) {
	v, _ := opCount.LoadOrStore(sc, new(int64))
	atomic.AddInt64(v.(*int64), 1)
}

// bytes-bodied handlers (rawproto, thrift-binary)
type BC struct{ erpc.CallCtx }

func (h *BC) Echo(arg *[]byte) ([]byte, *erpc.Status) {
	h.Swap().Store("seen", len(*arg))
	h.Session().Swap().Store("last", len(*arg))
	if len(*arg)%3 == 0 {
		h.Session().Push(pushPathB, []byte("back"))
	}
	h.SetMeta("k", "v")
	echoMeta(h.PeekMeta, h.SetMeta)
	return append([]byte("re:"), *arg...), nil
}

type BP struct{ erpc.PushCtx }

func (h *BP) Note(arg *[]byte) *erpc.Status {
	h.Swap().Load("seen")
	h.Session().Swap().Load("last")
	return nil
}

// struct-bodied handlers (thrift-struct)
type SC struct{ erpc.CallCtx }

func (h *SC) Echo(arg *TMsg) (*TMsg, *erpc.Status) {
	h.Session().Swap().Store("last", arg.Author)
	if len(arg.Author)%3 == 0 {
		h.Session().Push(pushPathS, &TMsg{Author: "back"})
	}
	echoMeta(h.PeekMeta, h.SetMeta)
	return &TMsg{Author: arg.Author + "->ok"}, nil
}

type SP struct{ erpc.PushCtx }

func (h *SP) Note(arg *TMsg) *erpc.Status { h.Session().Swap().Load("last"); return nil }

var callPathB, pushPathB, callPathS, pushPathS string
var pathOnce sync.Once

type protoKind struct {
	name   string
	mk     func() erpc.ProtoFunc
	strukt bool
}

var protos = []protoKind{
	{"raw", rawproto.NewRawProtoFunc, false},
	{"thrift-binary", thriftproto.NewBinaryProtoFunc, false},
	{"thrift-struct", thriftproto.NewStructProtoFunc, true},
}

func newPeer(cfg erpc.PeerConfig, plugins ...erpc.Plugin) erpc.Peer {
	p := erpc.NewPeer(cfg, plugins...)
	cb := p.RouteCall(new(BC))
	pb := p.RoutePush(new(BP))
	cs := p.RouteCall(new(SC))
	ps := p.RoutePush(new(SP))
	pathOnce.Do(func() { callPathB, pushPathB, callPathS, pushPathS = cb[0], pb[0], cs[0], ps[0] })
	return p
}

// one API operation on a shared session, chosen at random
func apiOp(r *rand.Rand, sc string, pk protoKind, sess erpc.Session, peers []erpc.Peer, ids []string, kp *keeper) {
	// between any two operations: re-read results of calls that completed earlier
	kp.look(r)
	// no recover here: a panic of the library must end the child (sync.WaitGroup.Wait panics
	// between race.Disable and race.Enable, so a goroutine that recovered from it would produce
	// bogus reports afterwards)
	countOp(sc)
	switch k := r.Intn(20); {
	case k < 5: // call
		// every call carries a tag in its metadata, the reply repeats it; the completed command
		// is snapshotted and kept for later re-reading (keep.go)
		var cmd erpc.CallCmd
		if bounded[sc] {
			// redial scenario: a reply may never arrive on a session whose redial went wrong
			// (see the redial findings); do not block the worker on it
			if cmd = callKept(r, sc, pk, sess, kp, true, 2*time.Second); cmd == nil {
				return
			}
		} else {
			cmd = callKept(r, sc, pk, sess, kp, false, 0)
		}
		cmd.Reply()
		cmd.CostTime()
		cmd.InputMeta()
		cmd.InputBodyCodec()
		cmd.StatusOK()
	case k < 7: // async call
		ch := make(chan erpc.CallCmd, 4)
		type pend struct {
			tag  string
			bptr *[]byte
			sptr *TMsg
		}
		pending := map[erpc.CallCmd]pend{}
		for i := 0; i < 1+r.Intn(3); i++ {
			tag := nextTag(sc)
			if pk.strukt {
				res := new(TMsg)
				pending[sess.AsyncCall(callPathS, &TMsg{Author: "a"}, res, ch, metaSettings(r, tag)...)] = pend{tag, nil, res}
			} else {
				res := new([]byte)
				pending[sess.AsyncCall(callPathB, RandBytes(r, 1+r.Intn(400)), res, ch, append(pipe(r), metaSettings(r, tag)...)...)] = pend{tag, res, nil}
			}
		}
		for range pending {
			select {
			case c := <-ch:
				c.Reply()
				c.CostTime()
				if pd, ok := pending[c]; ok && kp != nil {
					kp.add(snapshot(sc, pd.tag, true, c, pd.bptr, pd.sptr))
				}
			case <-time.After(2 * time.Second):
			}
		}
	case k < 11: // push
		if pk.strukt {
			sess.Push(pushPathS, &TMsg{Author: "p"})
		} else {
			sess.Push(pushPathB, RandBytes(r, 1+r.Intn(400)), pipe(r)...)
		}
	case k < 12:
		sess.SetID(ids[r.Intn(len(ids))])
	case k < 13:
		sess.Swap().Store(r.Intn(4), r.Intn(100))
		sess.Swap().Load(r.Intn(4))
		sess.Swap().Len()
	case k < 14:
		p := peers[r.Intn(len(peers))]
		if s, ok := p.GetSession(ids[r.Intn(len(ids))]); ok {
			s.ID()
			s.Health()
		}
	case k < 15:
		p := peers[r.Intn(len(peers))]
		p.RangeSession(func(s erpc.Session) bool { s.ID(); s.Health(); s.Swap().Len(); return true })
		p.CountSession()
	case k < 16:
		sess.ID()
		sess.Health()
		sess.RemoteAddr()
		sess.LocalAddr()
		select {
		case <-sess.CloseNotify():
		default:
		}
	case k < 17:
		if ps, ok := sess.(erpc.PreSession); ok {
			ps.SetContextAge(time.Duration(r.Intn(3)) * time.Second)
			ps.SetSessionAge(time.Duration(r.Intn(2)) * time.Minute)
		}
	default:
		sess.ContextAge()
		sess.SessionAge()
	}
}

// scenario: shared pair, traffic from both ends, then Close under traffic
func scenPair(deadline time.Time, seed int64, pk protoKind) {
	sc := "pair/" + pk.name
	srv := newPeer(erpc.PeerConfig{CountTime: true})
	cli := newPeer(erpc.PeerConfig{CountTime: true})
	defer srv.Close()
	defer cli.Close()
	ids := []string{"a", "b", "c", "d"}
	round := 0
	for time.Now().Before(deadline) {
		round++
		const nPairs = 2
		var pairs []*Pair
		for i := 0; i < nPairs; i++ {
			p := ServePair(srv, cli, pk.mk())
			if p.CliSess == nil || p.SrvSess == nil {
				continue
			}
			pairs = append(pairs, p)
		}
		if len(pairs) == 0 {
			continue
		}
		stop := make(chan struct{})
		var wg sync.WaitGroup
		for g := 0; g < 10; g++ {
			wg.Add(1)
			r := rand.New(rand.NewSource(seed + int64(round*100+g)))
			go func(g int) {
				defer wg.Done()
				kp := &keeper{}
				for {
					select {
					case <-stop:
						return
					default:
					}
					p := pairs[r.Intn(len(pairs))]
					s := p.CliSess
					if g%3 == 0 {
						s = p.SrvSess
					}
					apiOp(r, sc, pk, s, []erpc.Peer{srv, cli}, ids, kp)
				}
			}(g)
		}
		time.Sleep(time.Duration(300+rand.New(rand.NewSource(seed+int64(round))).Intn(500)) * time.Millisecond)
		// close under traffic, from either end, possibly twice concurrently
		for i, p := range pairs {
			p := p
			wg.Add(1)
			go func(i int) {
				defer wg.Done()
				if (round+i)%2 == 0 {
					p.CliSess.Close()
				} else {
					p.SrvSess.Close()
				}
			}(i)
		}
		time.Sleep(100 * time.Millisecond)
		close(stop)
		done := make(chan struct{})
		go func() { wg.Wait(); close(done) }()
		select {
		case <-done:
		case <-time.After(20 * time.Second):
			fmt.Println("WARN scenario", sc, "workers did not stop in 20s")
		}
		for _, p := range pairs {
			p.CliSess.Close()
			p.SrvSess.Close()
		}
	}
}

// reprotoPlugin re-installs the protocol through PreSession.ModifySocket on every (re)dial and
// reads it back (session.protoFuncs is rewritten there without a lock).
type reprotoPlugin struct{ pk protoKind }

func (p *reprotoPlugin) Name() string { return "c14-reproto" }
func (p *reprotoPlugin) PostDial(sess erpc.PreSession, isRedial bool) *erpc.Status {
	if isRedial {
		// (ModifySocket(nil, proto) would install a nil net.Conn - socket.Reset(nil, ...) - so the
		// same connection is handed back)
		sess.ModifySocket(func(conn net.Conn) (net.Conn, erpc.ProtoFunc) { return conn, p.pk.mk() })
		sess.GetProtoFunc()
	}
	return nil
}

// scenario: redial-enabled client; connections are cut under traffic
func scenRedial(deadline time.Time, seed int64, pk protoKind) {
	sc := "redial/" + pk.name
	srv := newPeer(erpc.PeerConfig{})
	defer srv.Close()
	lis, err := Listen(srv, "", pk.mk())
	if err != nil {
		fmt.Println("WARN listen:", err)
		return
	}
	defer lis.Close()
	ids := []string{"a", "b", "c"}
	round := 0
	for time.Now().Before(deadline) {
		round++
		cli := newPeer(erpc.PeerConfig{RedialTimes: 20, RedialInterval: 5 * time.Millisecond}, &reprotoPlugin{pk: pk})
		sess, stat := cli.Dial(lis.Addr, pk.mk())
		if !stat.OK() {
			cli.Close()
			time.Sleep(20 * time.Millisecond)
			continue
		}
		stop := make(chan struct{})
		var wg sync.WaitGroup
		for g := 0; g < 8; g++ {
			wg.Add(1)
			r := rand.New(rand.NewSource(seed + int64(round*100+g)))
			go func() {
				defer wg.Done()
				kp := &keeper{}
				for {
					select {
					case <-stop:
						return
					default:
					}
					apiOp(r, sc, pk, sess, []erpc.Peer{srv, cli}, ids, kp)
				}
			}()
		}
		for i := 0; i < 4 && time.Now().Before(deadline); i++ {
			time.Sleep(120 * time.Millisecond)
			lis.KillConns()
		}
		time.Sleep(100 * time.Millisecond)
		// The workers are stopped before the session is closed: on a redial-enabled session a
		// Close that runs while a Push/Call is inside redialForClient deadlocks (Close holds
		// session.lock and waits for the in-flight count, the sender holds a count and waits
		// for session.lock) - a liveness defect outside this property, reported in notes.
		close(stop)
		done := make(chan struct{})
		go func() { wg.Wait(); close(done) }()
		select {
		case <-done:
		case <-time.After(6 * time.Second):
			fmt.Println("WARN scenario", sc, "workers did not stop in 6s")
		}
		// Close waits for calls that were launched; one whose reply got lost never finishes
		closed := make(chan struct{})
		go func() { sess.Close(); cli.Close(); close(closed) }()
		select {
		case <-closed:
		case <-time.After(3 * time.Second):
			fmt.Println("WARN scenario", sc, "Close did not return in 3s")
		}
	}
}

// scenario: overloader plugin updated while connections and requests flow
func scenOverload(deadline time.Time, seed int64) {
	sc := "overloader"
	mkCfg := func(r *rand.Rand) overloader.LimitConfig {
		return overloader.LimitConfig{
			MaxConn:     int32(r.Intn(3)) * int32(50+r.Intn(50)), // 0 = unlimited (limiter removed)
			QPSInterval: time.Duration(2+r.Intn(8)/7) * time.Millisecond, // changes rarely: every change leaks the old ticker goroutine
			MaxTotalQPS: int32(r.Intn(4)) * int32(100000+r.Intn(1000)),
			MaxHandlerQPS: []overloader.HandlerLimit{
				{ServiceMethod: callPathB, MaxQPS: int32(50000 + r.Intn(1000))},
				{ServiceMethod: pushPathB, MaxQPS: int32(50000 + r.Intn(1000))},
			},
		}
	}
	r0 := rand.New(rand.NewSource(seed))
	// route once to learn the paths
	tmp := newPeer(erpc.PeerConfig{})
	tmp.Close()
	ol := overloader.New(mkCfg(r0))
	srv := newPeer(erpc.PeerConfig{}, ol)
	cli := newPeer(erpc.PeerConfig{})
	defer srv.Close()
	defer cli.Close()
	pk := protos[0]
	stop := make(chan struct{})
	var wg sync.WaitGroup
	wg.Add(1)
	go func() { // updater
		defer wg.Done()
		r := rand.New(rand.NewSource(seed + 1))
		for {
			select {
			case <-stop:
				return
			default:
			}
			ol.Update(mkCfg(r))
			ol.LimitConfig()
			countOp(sc)
			time.Sleep(3 * time.Millisecond)
		}
	}()
	wg.Add(1)
	go func() { // configuration reader
		defer wg.Done()
		for {
			select {
			case <-stop:
				return
			default:
			}
			ol.LimitConfig()
			countOp(sc)
			time.Sleep(time.Millisecond)
		}
	}()
	for g := 0; g < 4; g++ {
		wg.Add(1)
		r := rand.New(rand.NewSource(seed + 10 + int64(g)))
		go func() {
			defer wg.Done()
			kp := &keeper{}
			for {
				select {
				case <-stop:
					return
				default:
				}
				p := ServePair(srv, cli, pk.mk())
				if p.CliSess != nil && p.SrvSess != nil {
					for i := 0; i < 20; i++ {
						apiOp(r, sc, pk, p.CliSess, []erpc.Peer{srv, cli}, []string{"x", "y"}, kp)
					}
				}
				if p.CliSess != nil {
					p.CliSess.Close()
				}
				if p.SrvSess != nil {
					p.SrvSess.Close()
				}
			}
		}()
	}
	time.Sleep(time.Until(deadline))
	close(stop)
	wg.Wait()
}

// scenario: redial-enabled Dial against a server that drops every connection right after
// accepting it, while another goroutine enumerates the client's sessions and asks Health():
// the read goroutine reaches readDisconnected -> redialForClient as early as possible after Dial
// has shared the session.
type rejectPlugin struct{}

func (rejectPlugin) Name() string { return "c14-reject" }
func (rejectPlugin) PostAccept(erpc.PreSession) *erpc.Status {
	return erpc.NewStatus(erpc.CodeInternalServerError, "rejected", nil)
}

func scenDialDrop(deadline time.Time, seed int64) {
	sc := "dialdrop"
	srv := newPeer(erpc.PeerConfig{}, rejectPlugin{})
	defer srv.Close()
	lis, err := Listen(srv, "")
	if err != nil {
		fmt.Println("WARN listen:", err)
		return
	}
	defer lis.Close()
	cli := newPeer(erpc.PeerConfig{RedialTimes: 1, RedialInterval: time.Millisecond})
	defer cli.Close()
	stop := make(chan struct{})
	var wg sync.WaitGroup
	wg.Add(1)
	go func() { // enumerator
		defer wg.Done()
		for {
			select {
			case <-stop:
				return
			default:
			}
			cli.RangeSession(func(s erpc.Session) bool { s.Health(); s.ID(); return true })
			cli.CountSession()
		}
	}()
	for time.Now().Before(deadline) {
		sess, stat := cli.Dial(lis.Addr)
		countOp(sc)
		if !stat.OK() {
			time.Sleep(2 * time.Millisecond)
			continue
		}
		sess.Health()
		time.Sleep(time.Duration(1+seed%3) * time.Millisecond)
		closed := make(chan struct{})
		go func() { sess.Close(); close(closed) }()
		select {
		case <-closed:
		case <-time.After(3 * time.Second):
			fmt.Println("WARN scenario", sc, "Close did not return in 3s")
		}
	}
	close(stop)
	wg.Wait()
}

// scenario: the shipped heartbeat plugins (Ping on the client, Pong on the server) with traffic
// in flight whenever their workers wake up (every 3 s, the minimum rate)
func scenHeartbeat(deadline time.Time, seed int64) {
	sc := "heartbeat"
	srv := newPeer(erpc.PeerConfig{}, heartbeat.NewPong())
	cli := newPeer(erpc.PeerConfig{}, heartbeat.NewPing(3, seed%2 == 0))
	defer srv.Close()
	defer cli.Close()
	pk := protos[0]
	var pairs []*Pair
	for i := 0; i < 2; i++ {
		if p := ServePair(srv, cli, pk.mk()); p.CliSess != nil && p.SrvSess != nil {
			pairs = append(pairs, p)
		}
	}
	if len(pairs) == 0 {
		return
	}
	var wg sync.WaitGroup
	for g := 0; g < 4; g++ {
		wg.Add(1)
		r := rand.New(rand.NewSource(seed + int64(g)))
		go func(g int) {
			defer wg.Done()
			for time.Now().Before(deadline) {
				p := pairs[r.Intn(len(pairs))]
				s := p.CliSess
				if g%2 == 1 {
					s = p.SrvSess
				}
				countOp(sc)
				if r.Intn(2) == 0 {
					ch := make(chan erpc.CallCmd, 1)
					s.AsyncCall(callPathB, RandBytes(r, 1+r.Intn(60)), new([]byte), ch)
					select {
					case <-ch:
					case <-time.After(2 * time.Second):
					}
				} else {
					s.Push(pushPathB, RandBytes(r, 1+r.Intn(60)))
				}
				time.Sleep(200 * time.Microsecond)
			}
		}(g)
	}
	wg.Wait()
	for _, p := range pairs {
		go p.CliSess.Close()
		go p.SrvSess.Close()
	}
	time.Sleep(50 * time.Millisecond)
}

func childStress(cfg *RunCfg) {
	gzip.Reg(gzipPipeID, "gzip-5", 5)
	deadline := time.Now().Add(time.Duration(cfg.N) * time.Second)
	// make the route paths known before any scenario starts (they are package-level strings)
	tmp := newPeer(erpc.PeerConfig{})
	tmp.Close()
	var wg sync.WaitGroup
	// -mode <prefix> (debugging aid): only the scenarios whose name starts with the prefix
	run := func(name string, f func()) {
		if *modeFlag != "" && !strings.HasPrefix(name, *modeFlag) {
			return
		}
		wg.Add(1)
		go func() { defer wg.Done(); f() }()
	}
	for i, pk := range protos {
		pk := pk
		seed := cfg.Seed*1000 + int64(i)
		run("pair/"+pk.name, func() { scenPair(deadline, seed, pk) })
	}
	run("redial/raw", func() { scenRedial(deadline, cfg.Seed*1000+10, protos[0]) })
	run("redial/thrift-binary", func() { scenRedial(deadline, cfg.Seed*1000+11, protos[1]) })
	run("overloader", func() { scenOverload(deadline, cfg.Seed*1000+20) })
	run("dialdrop", func() { scenDialDrop(deadline, cfg.Seed*1000+30) })
	run("heartbeat", func() { scenHeartbeat(deadline, cfg.Seed*1000+40) })
	run("results", func() { scenResults(deadline, cfg.Seed*1000+50) })
	inspectors(deadline, cfg.Seed*1000+60, 2, &wg)
	all := make(chan struct{})
	go func() { wg.Wait(); close(all) }()
	select {
	case <-all:
	case <-time.After(time.Until(deadline) + 40*time.Second):
		fmt.Println("WARN some scenario did not finish 40s after the deadline")
	}
	opCount.Range(func(k, v interface{}) bool {
		fmt.Printf("OPS %s %d\n", k.(string), atomic.LoadInt64(v.(*int64)))
		return true
	})
	fmt.Printf("OPS completed-calls-kept %d\n", atomic.LoadInt64(&keptCount))
	fmt.Printf("OPS completed-calls-reread %d\n", atomic.LoadInt64(&recheckCount))
	time.Sleep(100 * time.Millisecond)
}
