package main

import (
	"fmt"
	"math/rand"
	"os"
	"path/filepath"
	"strings"
	"sync"
	"sync/atomic"
	"time"
	"unsafe"

	. "verifharness/hlib"
)

func uintptrOf(p *int64) uintptr { return uintptr(unsafe.Pointer(p)) }

// One event of a micro trace; mirrors Model/Lockset.v [event].
type mev struct {
	op     string // acq rel acc pub
	t      int
	obj    int  // lock or location
	write  bool // acq/rel: write mode; acc: write access
	atomic bool
}

func (e mev) val() string {
	switch e.op {
	case "acq", "rel":
		m := "smr"
		if e.write {
			m = "smw"
		}
		return VL(VS(e.op), VN(int64(e.t)), VN(int64(e.obj)), m)
	case "acc":
		k := "srd"
		if e.write {
			k = "swr"
		}
		return VL(VS("acc"), VN(int64(e.t)), VN(int64(e.obj)), k, VBool(e.atomic))
	}
	return VL(VS("pub"), VN(int64(e.t)), VN(int64(e.obj)))
}

// genTrace draws a well-formed trace: every event is enabled (mutual exclusion of the RW locks,
// a goroutine releases only what it holds, a location is touched only by its owner until it
// is published). At most 4 accesses per location (the detector keeps 4 shadow cells per word).
func genTrace(r *rand.Rand) ([]mev, int, string) {
	nT := 2 + r.Intn(2)
	nL := r.Intn(3)
	nX := 1 + r.Intn(2)
	n := 4 + r.Intn(9)
	type hold struct{ t, l int }
	held := map[hold]bool{} // value: write mode
	mode := map[hold]bool{}
	pub := make([]int, nX) // 0 fresh, 1 owned, 2 shared
	owner := make([]int, nX)
	accs := make([]int, nX)
	class := []string{"nolock", "onelock", "twolocks"}[nL]
	var tr []mev
	for tries := 0; len(tr) < n && tries < 200; tries++ {
		t := r.Intn(nT)
		switch k := r.Intn(10); {
		case k < 2 && nL > 0: // acquire
			l := r.Intn(nL)
			w := r.Intn(2) == 0
			ok := !held[hold{t, l}]
			for u := 0; u < nT; u++ {
				if u != t && held[hold{u, l}] && (w || mode[hold{u, l}]) {
					ok = false
				}
			}
			if ok {
				held[hold{t, l}] = true
				mode[hold{t, l}] = w
				tr = append(tr, mev{op: "acq", t: t, obj: l, write: w})
			}
		case k < 4 && nL > 0: // release something held
			for l := 0; l < nL; l++ {
				if held[hold{t, l}] {
					delete(held, hold{t, l})
					tr = append(tr, mev{op: "rel", t: t, obj: l, write: mode[hold{t, l}]})
					break
				}
			}
		case k < 5: // publish
			x := r.Intn(nX)
			if pub[x] == 0 || (pub[x] == 1 && owner[x] == t) {
				pub[x] = 2
				tr = append(tr, mev{op: "pub", t: t, obj: x})
			}
		default: // access
			x := r.Intn(nX)
			if accs[x] >= 4 {
				continue
			}
			if pub[x] == 1 && owner[x] != t {
				// not the owner: publish first on behalf of the owner, sometimes
				if r.Intn(2) == 0 {
					pub[x] = 2
					tr = append(tr, mev{op: "pub", t: owner[x], obj: x})
				}
				continue
			}
			if pub[x] == 0 {
				pub[x] = 1
				owner[x] = t
			}
			accs[x]++
			tr = append(tr, mev{op: "acc", t: t, obj: x, write: r.Intn(2) == 0, atomic: r.Intn(4) == 0})
		}
	}
	// release everything still held so that the real goroutines terminate cleanly
	for t := 0; t < nT; t++ {
		for l := 0; l < nL; l++ {
			if h := (hold{t, l}); held[h] {
				tr = append(tr, mev{op: "rel", t: t, obj: l, write: mode[h]})
			}
		}
	}
	return tr, nX, class
}

// genHandover draws a hand-over execution (Model/Handed.v): the reader goroutine (0) fills a
// pooled object (location 0) and a call's result field - a copy in memory of its own (location 1)
// or the pooled object itself -, publishes the result, and then users (goroutines 1, 2) read the
// result while the reader recycles the pooled object, in a generated order. The trace is built
// here, by the harness's own code; the model builds its own from (kind, continuation).
func genHandover(r *rand.Rand) ([]mev, int, string, string) {
	alias := r.Intn(2) == 0
	n := 3 // mostly the longest continuations that the shadow cells allow
	if k := r.Intn(8); k == 0 {
		n = 1
	} else if k < 4 {
		n = 2
	}
	res := 1
	kind := "copy"
	var tr []mev
	if alias {
		res, kind = 0, "alias"
		tr = []mev{{op: "acc", t: 0, obj: 0, write: true}, {op: "pub", t: 0, obj: 0}}
	} else {
		tr = []mev{{op: "acc", t: 0, obj: 0, write: true}, {op: "acc", t: 0, obj: 0}, {op: "acc", t: 0, obj: 1, write: true}, {op: "pub", t: 0, obj: 1}}
	}
	var sched []string
	recycles := 0
	for i := 0; i < n; i++ {
		// at most 4 accesses per location (shadow cells): the copy variant has already two on
		// the pooled object
		if r.Intn(2) == 0 && (alias || recycles < 2) {
			recycles++
			sched = append(sched, VS("recycle"))
			tr = append(tr, mev{op: "acc", t: 0, obj: 0, write: true})
		} else {
			u := r.Intn(2)
			sched = append(sched, VL(VS("read"), VN(int64(u))))
			tr = append(tr, mev{op: "acc", t: u + 1, obj: res})
		}
	}
	return tr, 2, "handover-" + kind, VL(VS("handover"), VS(kind), VL(sched...))
}

//go:noinline
func plainRead(p *int64) int64 { return *p }

//go:noinline
func plainWrite(p *int64, v int64) { *p = v }

var sink int64

type microResult struct {
	ok    bool
	addrs []string
	keep  []*int64
}

// execTrace runs the trace with one real goroutine per model thread. Event i runs in time slot
// i; no synchronisation other than the trace's own lock / atomic operations is used between the
// goroutines (the schedule is enforced by the clock only, so no extra happens-before edges are
// created). The case is discarded when an event missed its slot.
func execTrace(tr []mev, nX int, slot time.Duration) microResult {
	nT := 0
	for _, e := range tr {
		if e.t+1 > nT {
			nT = e.t + 1
		}
	}
	locks := make([]*sync.RWMutex, 3)
	for i := range locks {
		locks[i] = new(sync.RWMutex)
	}
	vals := make([]*int64, nX)
	flags := make([]*int32, nX)
	res := microResult{ok: true}
	for i := range vals {
		// separate allocations, padded: one location per shadow word, never adjacent
		blk := new([8]int64)
		vals[i] = &blk[3]
		flags[i] = new(int32)
		res.addrs = append(res.addrs, fmt.Sprintf("0x%012x", uintptrOf(vals[i])))
		res.keep = append(res.keep, vals[i])
	}
	begins := make([][]time.Duration, nT)
	ends := make([][]time.Duration, nT)
	idxs := make([][]int, nT)
	start := time.Now().Add(3 * time.Millisecond)
	var wg sync.WaitGroup
	for t := 0; t < nT; t++ {
		t := t
		wg.Add(1)
		go func() {
			defer wg.Done()
			for i, e := range tr {
				if e.t != t {
					continue
				}
				due := start.Add(time.Duration(i) * slot)
				if d := time.Until(due) - 400*time.Microsecond; d > 0 {
					time.Sleep(d)
				}
				for time.Now().Before(due) {
				}
				b := time.Since(start)
				switch e.op {
				case "acq":
					if e.write {
						locks[e.obj].Lock()
					} else {
						locks[e.obj].RLock()
					}
				case "rel":
					if e.write {
						locks[e.obj].Unlock()
					} else {
						locks[e.obj].RUnlock()
					}
				case "pub":
					atomic.StoreInt32(flags[e.obj], 1)
				case "acc":
					_ = atomic.LoadInt32(flags[e.obj]) // acquire side of the publication edge
					switch {
					case e.atomic && e.write:
						atomic.StoreInt64(vals[e.obj], int64(i))
					case e.atomic:
						_ = atomic.LoadInt64(vals[e.obj])
					case e.write:
						plainWrite(vals[e.obj], int64(i))
					default:
						_ = plainRead(vals[e.obj])
					}
				}
				begins[t] = append(begins[t], b)
				ends[t] = append(ends[t], time.Since(start))
				idxs[t] = append(idxs[t], i)
			}
		}()
	}
	wg.Wait()
	// every event must have run entirely inside its own slot
	for t := 0; t < nT; t++ {
		for k, i := range idxs[t] {
			lo := time.Duration(i) * slot
			hi := lo + slot - slot/4
			if begins[t][k] < lo || ends[t][k] > hi {
				res.ok = false
			}
		}
	}
	return res
}

func childMicro(cfg *RunCfg) {
	f, err := os.Create(filepath.Join(cfg.Out, "micro.txt"))
	Must(err)
	defer f.Close()
	var keepAll [][]*int64
	discarded := 0
	seen := map[string]bool{}
	type job struct {
		tr    []mev
		nX    int
		class string
		val   string
	}
	var mu sync.Mutex
	jobs := make(chan job)
	var wg sync.WaitGroup
	for wk := 0; wk < 4; wk++ {
		wg.Add(1)
		go func() {
			defer wg.Done()
			for j := range jobs {
				// The detector has no false positives on a fixed schedule but can miss a race
				// (bounded shadow state): every trace is executed three times on fresh
				// variables and a location counts as racy when any execution reported it.
				var r microResult
				var addrSets []string
				for rep := 0; rep < 3; rep++ {
					for attempt := 0; attempt < 4; attempt++ {
						r = execTrace(j.tr, j.nX, 2*time.Millisecond<<uint(attempt))
						mu.Lock()
						keepAll = append(keepAll, r.keep)
						mu.Unlock()
						if r.ok {
							break
						}
					}
					if !r.ok {
						break
					}
					addrSets = append(addrSets, strings.Join(r.addrs, " "))
				}
				mu.Lock()
				if !r.ok {
					discarded++
				} else {
					nt := 0
					byLoc := map[int]map[int]bool{}
					for _, e := range j.tr {
						if e.op == "acc" {
							if byLoc[e.obj] == nil {
								byLoc[e.obj] = map[int]bool{}
							}
							byLoc[e.obj][e.t] = true
						}
					}
					for _, ts := range byLoc {
						if len(ts) > 1 {
							nt = 1
						}
					}
					fmt.Fprintf(f, "%s | %s | %d | %s\n", j.val, strings.Join(addrSets, " ; "), nt, j.class)
				}
				mu.Unlock()
			}
		}()
	}
	for n := 0; n < cfg.N; {
		var tr []mev
		var nX int
		var class, v string
		if cfg.Rng.Intn(6) == 0 {
			tr, nX, class, v = genHandover(cfg.Rng)
		} else {
			tr, nX, class = genTrace(cfg.Rng)
			var vs []string
			for _, e := range tr {
				vs = append(vs, e.val())
			}
			v = VL(vs...)
		}
		if seen[v] {
			continue
		}
		seen[v] = true
		n++
		jobs <- job{tr, nX, class, v}
	}
	close(jobs)
	wg.Wait()
	time.Sleep(50 * time.Millisecond)
	fmt.Printf("discarded=%d\n", discarded)
	sink = int64(len(keepAll))
}


// parseTrace reads the value syntax written by mev.val (for -child replay).
func parseTrace(v string) ([]mev, int) {
	var tr []mev
	nX := 0
	v = strings.TrimSpace(v)
	v = strings.TrimPrefix(v, "(")
	for _, part := range strings.Split(v, ")") {
		part = strings.TrimSpace(strings.TrimLeft(strings.TrimSpace(part), "("))
		f := strings.Fields(part)
		if len(f) < 3 {
			continue
		}
		var e mev
		e.op = strings.TrimPrefix(f[0], "s")
		fmt.Sscanf(f[1], "n%d", &e.t)
		fmt.Sscanf(f[2], "n%d", &e.obj)
		switch e.op {
		case "acq", "rel":
			e.write = f[3] == "smw"
		case "acc":
			e.write = f[3] == "swr"
			e.atomic = f[4] == "strue"
		}
		if (e.op == "acc" || e.op == "pub") && e.obj+1 > nX {
			nX = e.obj + 1
		}
		tr = append(tr, e)
	}
	return tr, nX
}

// childReplay executes the traces of <out>/replay.txt (one per line) cfg.N times each and prints
// the addresses used, so that single cases can be studied by hand.
func childReplay(cfg *RunCfg) {
	b, err := os.ReadFile(filepath.Join(cfg.Out, "replay.txt"))
	Must(err)
	var keep [][]*int64
	for li, line := range strings.Split(string(b), "\n") {
		if strings.TrimSpace(line) == "" {
			continue
		}
		tr, nX := parseTrace(line)
		for k := 0; k < cfg.N; k++ {
			for attempt := 0; attempt < 4; attempt++ {
				r := execTrace(tr, nX, 2*time.Millisecond<<uint(attempt))
				keep = append(keep, r.keep)
				fmt.Printf("RUN %d %d attempt=%d ok=%v %s\n", li, k, attempt, r.ok, strings.Join(r.addrs, " "))
				if r.ok {
					break
				}
			}
		}
	}
	time.Sleep(50 * time.Millisecond)
	sink = int64(len(keep))
}
