// c14: data-race search for the documented concurrent session / peer operations.
//
// The binary that bin/check builds (no -race) is the PARENT: it builds a race-instrumented
// copy of itself (`go build -race -gcflags=all=-d=checkptr=0 -tags verif`) into /verif/work
// and runs it twice as a CHILD with GORACE log_path set:
//
//	-child micro  : small generated lock/access traces are executed for real (goroutines,
//	                sync.RWMutex, sync/atomic, plain memory) on the generated schedule; the race
//	                detector's verdict per location is the observation that Corr/C14.v
//	                compares with the model's race predicate (Model/Lockset.v);
//	-child stress : many goroutines issue calls, pushes, replies, SetID, Swap access, age
//	                changes, Close, GetSession / RangeSession / CountSession on shared
//	                sessions over rawproto, thrift-binary and thrift-struct, plus a redial
//	                scenario and an overloader-update scenario; the results of completed calls
//	                (reply metadata, result value, status ...) are kept and re-read during the
//	                later traffic of the same and of other sessions (keep.go).
//
// The parent parses the race reports. A report is a candidate violation only when BOTH access
// stacks contain a frame of github.com/henrylee2cn/erpc/v6/...; its key is the pair of the
// innermost framework frames. A run without reports is a pass (reports are schedule dependent).
package main

import (
	"crypto/sha1"
	"flag"
	"fmt"
	"io/ioutil"
	"os"
	"os/exec"
	"path/filepath"
	"regexp"
	"sort"
	"strings"
	"time"

	. "verifharness/hlib"
)

var (
	childFlag = flag.String("child", "", "internal: micro | stress")
	durFlag   = flag.Int("dur", 0, "stress duration in seconds (default: -n)")
	modeFlag  = flag.String("mode", "", "sub mode (unused)")
)

func main() {
	cfg := ParseFlags()
	if *childFlag != "" {
		Quiet()
		switch *childFlag {
		case "micro":
			childMicro(cfg)
		case "stress":
			childStress(cfg)
		case "replay":
			childReplay(cfg)
		default:
			Must(fmt.Errorf("unknown child phase %q", *childFlag))
		}
		return
	}
	parent(cfg)
}

const fwPrefix = "github.com/henrylee2cn/erpc/v6"

func buildRace(cfg *RunCfg) string {
	hdir := "/verif/harness"
	out := "/verif/work/h_c14_race"
	// -l: no inlining, so that every framework function keeps its own frame in the reports
	args := []string{"build", "-race", "-gcflags=all=-d=checkptr=0 -l", "-tags", "verif"}
	if repo := os.Getenv("VERIF_REPO"); repo != "" && repo != "/repo" {
		h := fmt.Sprintf("%x", sha1.Sum([]byte(repo)))[:8]
		mf := "/verif/work/go." + h + ".mod"
		if _, err := os.Stat(mf); err == nil {
			args = append(args, "-modfile", mf)
		}
		out += "_" + h
	}
	args = append(args, "-o", out, "./cmd/c14")
	cmd := exec.Command("go", args...)
	cmd.Dir = hdir
	env := []string{}
	for _, e := range os.Environ() {
		if strings.HasPrefix(e, "CGO_ENABLED=") {
			continue
		}
		env = append(env, e)
	}
	cmd.Env = append(env, "CGO_ENABLED=1")
	b, err := cmd.CombinedOutput()
	if err != nil {
		fmt.Fprintf(os.Stderr, "race build failed (go build -race needs cgo and the race runtime): %v\n%s\n", err, b)
		os.Exit(3)
	}
	return out
}

// runChild runs one child phase; crashed reports a panic / fatal error of the child (its
// output tail is returned), which for the stress phase is itself an observation.
func runChild(bin, phase string, cfg *RunCfg, n int, gorace string, tag string) (logs string, out string, crashed bool) {
	dir := filepath.Join(cfg.Out, phase)
	Must(os.MkdirAll(dir, 0o755))
	cmd := exec.Command(bin, "-child", phase, "-seed", fmt.Sprint(cfg.Seed), "-n", fmt.Sprint(n), "-out", dir, "-tier", cfg.Tier)
	cmd.Env = append(os.Environ(), "GORACE=halt_on_error=0 exitcode=0 log_path="+filepath.Join(dir, "race"+tag)+" "+gorace)
	b, err := cmd.CombinedOutput()
	if err != nil {
		crashed = true
	}
	files, _ := filepath.Glob(filepath.Join(dir, "race"+tag+".*"))
	var sb strings.Builder
	for _, f := range files {
		c, _ := ioutil.ReadFile(f)
		sb.Write(c)
	}
	return sb.String(), string(b), crashed
}

var reCrash = regexp.MustCompile(`(?m)^(panic|fatal error): (.*)$`)
var reNonWord = regexp.MustCompile(`[^A-Za-z0-9]+`)

// crashKey names a child crash by its panic / fatal-error message and the innermost framework
// frame of the crashing goroutine.
func crashKey(out string) (key, what string) {
	m := reCrash.FindStringSubmatchIndex(out)
	if m == nil {
		return "crash-unknown", tail(out, 600)
	}
	msg := out[m[4]:m[5]]
	rest := out[m[1]:]
	frame := ""
	for _, l := range strings.Split(rest, "\n") {
		t := strings.TrimSpace(l)
		if strings.HasPrefix(t, fwPrefix) {
			if i := strings.LastIndex(t, "("); i > 0 {
				t = t[:i]
			}
			frame = strings.TrimPrefix(strings.TrimPrefix(strings.TrimPrefix(t, fwPrefix), "/"), ".")
			break
		}
		if strings.HasPrefix(t, "goroutine ") && strings.Contains(rest[:strings.Index(rest, t)], "goroutine ") {
			break
		}
	}
	key = "crash:" + strings.Trim(reNonWord.ReplaceAllString(msg, "-"), "-")
	if len(key) > 70 {
		key = key[:70]
	}
	if frame != "" {
		key += "@" + frame
	}
	return key, out[m[0]:min(len(out), m[0]+2500)]
}

func min(a, b int) int {
	if a < b {
		return a
	}
	return b
}

func tail(s string, n int) string {
	if len(s) > n {
		return s[len(s)-n:]
	}
	return s
}

// ---- race report parsing ----

type report struct {
	text   string
	addr   string
	stacks [2][]string // function names, innermost first
	kinds  [2]string
}

var reAccess = regexp.MustCompile(`^(Previous )?(?i:(atomic )?(read|write)) at (0x[0-9a-f]+) by `)

func parseReports(log string) []report {
	var out []report
	for _, blk := range strings.Split(log, "==================") {
		if !strings.Contains(blk, "WARNING: DATA RACE") {
			continue
		}
		r := report{text: strings.TrimSpace(blk)}
		sec := -1
		for _, line := range strings.Split(blk, "\n") {
			t := strings.TrimSpace(line)
			if m := reAccess.FindStringSubmatch(t); m != nil {
				sec++
				if sec < 2 {
					r.addr = m[4]
					r.kinds[sec] = strings.ToLower(m[2] + m[3])
				}
				continue
			}
			if strings.HasPrefix(t, "Goroutine ") {
				sec = 2
				continue
			}
			if sec >= 0 && sec < 2 && strings.HasPrefix(line, "  ") && !strings.HasPrefix(line, "      ") && t != "" {
				fn := t
				if i := strings.LastIndex(fn, "("); i > 0 {
					fn = fn[:i]
				}
				r.stacks[sec] = append(r.stacks[sec], fn)
			}
		}
		out = append(out, r)
	}
	return out
}

func fwFrame(stack []string) string {
	for _, f := range stack {
		if strings.HasPrefix(f, fwPrefix) {
			s := strings.TrimPrefix(f, fwPrefix)
			s = strings.TrimPrefix(s, "/")
			s = strings.TrimPrefix(s, ".") // root package: ".(*session).x" -> "(*session).x"
			return s
		}
	}
	return ""
}

// Known finding classes (see known_findings.txt): a redial replaces the connection, the
// buffered reader and the protocol inside the live socket object (socket.Reset, under
// socket.mu) while other goroutines use the socket without that lock - a write already past
// the status check, the promoted net.Conn methods, the previous read loop still inside Read.
// Every report of that shape is one finding, whichever accessor the schedule hit; any other
// pair keeps its own key and is a violation.
var connUsers = map[string]bool{
	"socket.(*socket).Write": true, "socket.(*socket).Read": true, "socket.(*socket).RemoteAddr": true,
	"socket.(*socket).LocalAddr": true, "socket.(*socket).SetReadDeadline": true,
	"socket.(*socket).SetWriteDeadline": true, "socket.(*socket).SetDeadline": true,
	"(*session).readDisconnected": true, "socket.(*socket).Close": true,
}
var connReplacers = map[string]bool{"socket.(*socket).Reset": true, "(*Dialer).dialOne": true}

func classify(a, b string) string {
	if (connReplacers[a] && connUsers[b]) || (connReplacers[b] && connUsers[a]) {
		return "redial:socket.Reset~unlocked-socket-use"
	}
	// two read loops share the bufio.Reader (and its sticky error value, which the second loop
	// formats in readDisconnected)
	if (a == "socket.(*socket).Read" || a == "(*session).readDisconnected") && b == "socket.(*socket).Read" {
		return "redial:two-read-loops-on-one-socket"
	}
	return ""
}

func reportKey(r report) (string, bool) {
	a, b := fwFrame(r.stacks[0]), fwFrame(r.stacks[1])
	if a == "" || b == "" {
		return "", false
	}
	if b < a {
		a, b = b, a
	}
	if c := classify(a, b); c != "" {
		return c, true
	}
	return a + "~" + b, true
}

// ---- parent ----

func parent(cfg *RunCfg) {
	st := NewStats("C14", cfg)
	st.Rule = "micro: generated well-formed lock/access traces (2-3 goroutines, <=2 RW locks, <=2 locations, <=4 accesses per location) executed on their schedule under the race detector, distinct by trace, non-trivial = at least two accesses by different goroutines to one location; about one case in seven is a result hand-over (Model/Handed.v: copy or alias of a recycled object, then generated user reads / recycling writes); stress: seconds of concurrent API traffic per scenario, evaluations = operations issued; every completed call is snapshotted, kept and re-read during later traffic (values compared with the snapshot, reads instrumented by the race detector)"
	w := NewCaseWriter(cfg)
	bin := buildRace(cfg)

	// phase 1: micro traces (the correspondence cases)
	nMicro := 150
	if cfg.Tier == "thorough" {
		nMicro = 1200
	}
	mlog, mout, mcrash := runChild(bin, "micro", cfg, nMicro, "suppress_equal_stacks=0 suppress_equal_addresses=0", "")
	if mcrash {
		fmt.Fprintf(os.Stderr, "micro child failed:\n%s\n", tail(mout, 4000))
		os.Exit(3)
	}
	racyAddr := map[string]bool{}
	for _, r := range parseReports(mlog) {
		racyAddr[r.addr] = true
	}
	mcases, err := ioutil.ReadFile(filepath.Join(cfg.Out, "micro", "micro.txt"))
	Must(err)
	distinct := DistinctSet{}
	nontrivial := 0
	for _, line := range strings.Split(string(mcases), "\n") {
		// TRACE <val> | <addr0> <addr1> ... | nontrivial(0/1) | class
		parts := strings.Split(line, " | ")
		if len(parts) != 4 {
			continue
		}
		var racy []string
		racyLoc := map[int]bool{}
		nLoc := 0
		for _, set := range strings.Split(parts[1], " ; ") {
			fs := strings.Fields(set)
			nLoc = len(fs)
			for x, a := range fs {
				if racyAddr[a] {
					racyLoc[x] = true
				}
			}
		}
		for x := 0; x < nLoc; x++ {
			if racyLoc[x] {
				racy = append(racy, VN(int64(x)))
			}
		}
		w.Add(parts[0], VL(VBool(true), VL(racy...)))
		st.Count("micro:" + parts[3])
		if len(racy) > 0 {
			st.Count("micro:detector-reported-race")
		}
		if !distinctHas(distinct, parts[0]) && parts[2] == "1" {
			nontrivial++
		}
		distinct.Add(parts[0])
		if len(st.Samples) < 4 {
			st.Samples = append(st.Samples, fmt.Sprintf("micro %s -> racy locations %v", parts[0], racy))
		}
	}
	st.Count("micro:discarded-off-schedule=" + grepCount(mout, "discarded="))

	// phase 2: stress
	dur := cfg.N
	if *durFlag > 0 {
		dur = *durFlag
	}
	// the stress child is restarted after a crash (a panic of the library under concurrent use is
	// an observation of its own) until the time budget is used
	var slog, sout string
	var crashes [][2]string
	seen := map[string]bool{}
	idx := 0
	endAt := time.Now().Add(time.Duration(dur) * time.Second)
	for run := 0; run < 8; run++ {
		remain := int(time.Until(endAt).Seconds())
		if remain < 3 {
			break
		}
		lg, out, crashed := runChild(bin, "stress", cfg, remain, "history_size=3", fmt.Sprint(run))
		slog += lg
		sout += out
		if !crashed {
			break
		}
		key, what := crashKey(out)
		st.Count("stress:child-crash")
		if !seen[key] {
			seen[key] = true
			crashes = append(crashes, [2]string{key, what})
		}
	}
	// value-level oracle of the stress child (keep.go): what a completed call hands out must not
	// change while the sessions keep receiving
	for _, l := range strings.Split(sout, "\n") {
		if !strings.HasPrefix(l, "ORACLE ") {
			continue
		}
		parts := strings.SplitN(strings.TrimPrefix(l, "ORACLE "), " | ", 2)
		key := strings.TrimSpace(parts[0])
		st.Count("stress:value-oracle-failure")
		if seen[key] || len(parts) < 2 {
			continue
		}
		seen[key] = true
		st.Fail(w.Total+idx, key, "what a completed call hands to its caller is not what the reply carried / does not stay so while the sessions keep receiving: "+parts[1], l)
		idx++
	}
	reps := parseReports(slog)
	for _, r := range reps {
		key, ok := reportKey(r)
		if !ok {
			st.Count("stress:report-outside-framework")
			if len(st.Samples) < 10 {
				st.Samples = append(st.Samples, "non-framework report: "+firstLines(r.text, 12))
			}
			continue
		}
		st.Count("stress:framework-report")
		if seen[key] {
			continue
		}
		seen[key] = true
		st.Fail(w.Total+idx, key, "data race between "+strings.Replace(key, "~", " and ", 1)+" ("+r.kinds[0]+" / "+r.kinds[1]+")", r.text)
		idx++
	}
	// a panic of the library under concurrent use (reported after the races / value changes that
	// usually explain it)
	for _, c := range crashes {
		frame := ""
		if at := strings.LastIndex(c[0], "@"); at >= 0 {
			frame = " in " + c[0][at+1:]
		}
		st.Fail(w.Total+idx, c[0], "the library crashed the process under concurrent API use: "+strings.SplitN(c[1], "\n", 2)[0]+frame, c[1])
		idx++
	}
	ops := 0
	for _, l := range strings.Split(sout, "\n") {
		if strings.HasPrefix(l, "OPS ") {
			f := strings.Fields(l)
			if len(f) == 3 {
				var n int
				fmt.Sscan(f[2], &n)
				st.Distribution["stress:"+f[1]] += n
				ops += n
			}
		}
	}
	st.Evaluations = w.Total + ops
	st.DistinctNontrivial = nontrivial
	if st.Extra == nil {
		st.Extra = map[string]interface{}{}
	}
	keys := []string{}
	for k := range seen {
		keys = append(keys, k)
	}
	sort.Strings(keys)
	st.Extra["race_build"] = "go build -race '-gcflags=all=-d=checkptr=0 -l' -tags verif (CGO_ENABLED=1)"
	st.Extra["stress_seconds"] = dur
	st.Extra["framework_race_pairs"] = keys
	st.Extra["micro_cases"] = w.Total
	st.Write(cfg, w)
}

func distinctHas(d DistinctSet, k string) bool { _, ok := d[k]; return ok }

func grepCount(out, prefix string) string {
	for _, l := range strings.Split(out, "\n") {
		if strings.HasPrefix(l, prefix) {
			return strings.TrimPrefix(l, prefix)
		}
	}
	return "?"
}

func firstLines(s string, n int) string {
	ls := strings.Split(s, "\n")
	if len(ls) > n {
		ls = ls[:n]
	}
	return strings.Join(ls, "\n")
}

var _ = time.Now
