package main

// Results of COMPLETED calls stay readable while the sessions go on receiving.
//
// A CallCmd that has completed (Call returned / the command arrived on the done channel) is the
// caller's: Reply(), Status(), InputMeta(), InputBodyCodec(), CostTime() and the result value may
// be read at any later time, from any goroutine the caller hands the command to, while the
// framework's reader goroutines keep receiving replies and pushes on the same and on other
// sessions (and recycle their pooled per-message contexts, messages, buffers for them).
//
// Every call of the stress scenarios carries a tag in its metadata; the handler copies it (and a
// few more pairs) into the reply's metadata. At completion the harness takes a private snapshot of
// what the command reports; the command is then kept (per worker ring + a ring shared with
// inspector goroutines) and re-read again and again during later traffic:
//   - under the race detector the re-reads are the user side of any race with a framework
//     goroutine that still writes memory reachable from the command;
//   - without it, the values are compared with the snapshot (oracle keys completed-call:*).

import (
	"bytes"
	"fmt"
	"math/rand"
	"sync"
	"sync/atomic"
	"time"

	. "verifharness/hlib"

	erpc "github.com/henrylee2cn/erpc/v6"
)

const (
	metaTag  = "t"
	metaPad1 = "pad1"
	metaPad2 = "pad2"
)

var tagSeq int64

func nextTag(sc string) string {
	return fmt.Sprintf("%s#%d", sc, atomic.AddInt64(&tagSeq, 1))
}

// echoMeta is the handler side: the reply's metadata repeats the tag of the call and adds pairs
// whose number and size depend on the tag, so that consecutive replies have metadata of
// different shapes.
func echoMeta(peek func(string) []byte, set func(string, string)) {
	t := peek(metaTag)
	if len(t) == 0 {
		return
	}
	set(metaTag, string(t))
	if len(t)%2 == 0 {
		set(metaPad1, "1:"+string(t)+string(t))
	}
	if len(t)%3 == 0 {
		set(metaPad2, "2:"+string(t))
	}
}

type kept struct {
	cmd   erpc.CallCmd
	sc    string
	tag   string
	ok    bool
	meta  []byte // AppendBytes(nil) of InputMeta() at completion
	nMeta int
	tagAt string // value of the tag pair at completion
	// InputMeta() != nil: the call got a reply
	hasMeta bool
	stat    *erpc.Status
	code    int32
	msg     string
	codec   byte
	cost    time.Duration
	resB    []byte // copy of the []byte result at completion
	resS    string // Author of the struct result at completion
	bptr    *[]byte
	sptr    *TMsg
}

var oracleSeen sync.Map

// oracle prints one line per failure class; the parent turns it into Stats.Fail.
func oracle(key, what string) {
	if _, dup := oracleSeen.LoadOrStore(key, true); dup {
		return
	}
	fmt.Printf("ORACLE %s | %s\n", key, what)
}

var keptCount, recheckCount int64

// snapshot is called by the goroutine that received the completed command.
//
// strict: the protocol delivers the header metadata before the reply is bound to its call, so an
// OK reply must show the tag its handler set. This holds for every protocol driven here: the
// thrift struct protocol used to parse the metadata header after the body - after bindReply had
// taken its copy - so that InputMeta() was always empty (found here, repaired by /repo 55a7afc).
// Stability after completion is required in every case.
func snapshot(sc, tag string, strict bool, cmd erpc.CallCmd, bptr *[]byte, sptr *TMsg) *kept {
	k := &kept{cmd: cmd, sc: sc, tag: tag, bptr: bptr, sptr: sptr}
	_, k.stat = cmd.Reply()
	k.ok = cmd.StatusOK()
	k.code, k.msg = k.stat.Code(), k.stat.Msg()
	k.codec = cmd.InputBodyCodec()
	k.cost = cmd.CostTime()
	if m := cmd.InputMeta(); m != nil {
		k.hasMeta = true
		k.nMeta = m.Len()
		k.meta = m.AppendBytes(nil)
		k.tagAt = string(m.Peek(metaTag))
		if k.ok && (strict || k.nMeta > 0) {
			if got := k.tagAt; got != tag {
				oracle("completed-call:reply-meta-wrong", fmt.Sprintf("%s: a call sent with metadata %s=%q completed OK and its handler copied the tag into the reply metadata, but InputMeta() read right after completion has %s=%q (all: %q)", sc, metaTag, tag, metaTag, got, k.meta))
			}
		}
	}
	if bptr != nil {
		k.resB = append([]byte(nil), (*bptr)...)
	}
	if sptr != nil {
		k.resS = sptr.Author
	}
	atomic.AddInt64(&keptCount, 1)
	return k
}

// recheck re-reads everything the completed command hands out and compares with the snapshot.
// Only read-only accessors are used (several goroutines may inspect one command).
func (k *kept) recheck() {
	atomic.AddInt64(&recheckCount, 1)
	cmd := k.cmd
	res, stat := cmd.Reply()
	if stat != k.stat || stat.Code() != k.code || stat.Msg() != k.msg || cmd.Status() != k.stat || cmd.StatusOK() != k.ok {
		oracle("completed-call:status-changed", fmt.Sprintf("%s: status of completed call %q was (%d,%q), later (%d,%q)", k.sc, k.tag, k.code, k.msg, stat.Code(), stat.Msg()))
	}
	if cmd.InputBodyCodec() != k.codec {
		oracle("completed-call:body-codec-changed", fmt.Sprintf("%s: InputBodyCodec of completed call %q was %d, later %d", k.sc, k.tag, k.codec, cmd.InputBodyCodec()))
	}
	if cmd.CostTime() != k.cost {
		oracle("completed-call:cost-changed", fmt.Sprintf("%s: CostTime of completed call %q was %v, later %v", k.sc, k.tag, k.cost, cmd.CostTime()))
	}
	if m := cmd.InputMeta(); m != nil {
		n := m.Len()
		tag := string(m.Peek(metaTag))
		var visited int
		m.VisitAll(func(key, value []byte) { visited += len(key) + len(value) })
		m.Has(metaPad1)
		now := m.AppendBytes(nil)
		if n != k.nMeta || !bytes.Equal(now, k.meta) || tag != k.tagAt {
			oracle("completed-call:reply-meta-changed", fmt.Sprintf("%s: InputMeta() of completed call %q was %q (%d pairs) at completion; after later traffic it reads %q (%d pairs, %s=%q)", k.sc, k.tag, k.meta, k.nMeta, now, n, metaTag, tag))
		}
	} else if k.hasMeta {
		oracle("completed-call:reply-meta-changed", fmt.Sprintf("%s: InputMeta() of completed call %q became nil", k.sc, k.tag))
	}
	if w, isW := cmd.(erpc.WriteCtx); isW {
		if k.hasMeta && !bounded[k.sc] {
			// RealIP reads the reply metadata and, with no real-ip pair, asks the socket for its
			// remote address: on a redial-enabled session that is the known finding
			// redial:socket.Reset~unlocked-socket-use, so it is not asked there.
			// (callCmd.RealIP dereferences the reply metadata: nil pointer panic on a call that
			// completed without a reply - not a race, noted for the lead)
			w.RealIP()
		}
		w.Swap().Len()
	}
	cmd.TraceSession()
	cmd.Context()
	cmd.Output().Meta().Len()
	cmd.Output().ServiceMethod()
	if k.bptr != nil {
		if rb, isB := res.(*[]byte); isB && rb != k.bptr {
			oracle("completed-call:result-changed", fmt.Sprintf("%s: Reply() of completed call %q returns another result object", k.sc, k.tag))
		}
		if !bytes.Equal(*k.bptr, k.resB) {
			oracle("completed-call:result-changed", fmt.Sprintf("%s: result bytes of completed call %q were %q at completion, later %q", k.sc, k.tag, k.resB, *k.bptr))
		}
	}
	if k.sptr != nil && k.sptr.Author != k.resS {
		oracle("completed-call:result-changed", fmt.Sprintf("%s: result of completed call %q was %q at completion, later %q", k.sc, k.tag, k.resS, k.sptr.Author))
	}
}

// keeper: the completed commands of one worker goroutine.
type keeper struct {
	ring []*kept
	n    int
}

const keepRing = 24

func (kp *keeper) add(k *kept) {
	if len(kp.ring) < keepRing {
		kp.ring = append(kp.ring, k)
	} else {
		kp.ring[kp.n%keepRing] = k
	}
	kp.n++
	shared.add(k)
}

// look re-reads a few kept commands (called between the worker's other operations).
func (kp *keeper) look(r *rand.Rand) {
	if kp == nil || len(kp.ring) == 0 {
		return
	}
	for i := 0; i < 2; i++ {
		kp.ring[r.Intn(len(kp.ring))].recheck()
	}
}

// shared ring: commands handed (under a mutex - user level synchronisation) to inspector
// goroutines that do nothing but read completed commands.
type sharedRing struct {
	mu   sync.Mutex
	ring []*kept
	n    int
}

var shared sharedRing

const sharedSize = 256

func (s *sharedRing) add(k *kept) {
	s.mu.Lock()
	if len(s.ring) < sharedSize {
		s.ring = append(s.ring, k)
	} else {
		s.ring[s.n%sharedSize] = k
	}
	s.n++
	s.mu.Unlock()
}

func (s *sharedRing) pick(r *rand.Rand) *kept {
	s.mu.Lock()
	defer s.mu.Unlock()
	if len(s.ring) == 0 {
		return nil
	}
	return s.ring[r.Intn(len(s.ring))]
}

// inspectors re-read commands of all scenarios until the deadline.
func inspectors(deadline time.Time, seed int64, n int, wg *sync.WaitGroup) {
	for i := 0; i < n; i++ {
		wg.Add(1)
		r := rand.New(rand.NewSource(seed + int64(i)))
		go func() {
			defer wg.Done()
			for time.Now().Before(deadline) {
				for j := 0; j < 8; j++ {
					if k := shared.pick(r); k != nil {
						k.recheck()
					}
				}
				time.Sleep(50 * time.Microsecond)
			}
		}()
	}
}

// metaSettings: the tag (and sometimes further pairs, so that requests too have metadata of
// different shapes - the handler side contexts are recycled as well).
func metaSettings(r *rand.Rand, tag string) []erpc.MessageSetting {
	s := []erpc.MessageSetting{erpc.WithAddMeta(metaTag, tag)}
	for i := r.Intn(3); i > 0; i-- {
		s = append(s, erpc.WithAddMeta(fmt.Sprintf("x%d", i), tag[:1+r.Intn(len(tag))]))
	}
	return s
}

// scenResults: callers on shared sessions (both directions) keep every completed command;
// pushes with metadata and further calls keep the readers of both peers busy; all three
// protocols in turn.
func scenResults(deadline time.Time, seed int64) {
	srv := newPeer(erpc.PeerConfig{CountTime: true})
	cli := newPeer(erpc.PeerConfig{CountTime: true})
	defer srv.Close()
	defer cli.Close()
	for round := 0; time.Now().Before(deadline); round++ {
		pk := protos[round%len(protos)]
		sc := "results/" + pk.name
		var pairs []*Pair
		for i := 0; i < 2; i++ {
			if p := ServePair(srv, cli, pk.mk()); p.CliSess != nil && p.SrvSess != nil {
				pairs = append(pairs, p)
			}
		}
		if len(pairs) == 0 {
			continue
		}
		end := time.Now().Add(900 * time.Millisecond)
		if end.After(deadline) {
			end = deadline
		}
		var wg sync.WaitGroup
		for g := 0; g < 6; g++ {
			wg.Add(1)
			r := rand.New(rand.NewSource(seed + int64(round*100+g)))
			go func(g int) {
				defer wg.Done()
				kp := &keeper{}
				for time.Now().Before(end) {
					p := pairs[r.Intn(len(pairs))]
					s := p.CliSess
					if g%3 == 0 {
						s = p.SrvSess
					}
					countOp(sc)
					switch k := r.Intn(10); {
					case k < 6:
						callKept(r, sc, pk, s, kp, r.Intn(3) == 0, 0)
					case k < 8:
						tag := nextTag(sc)
						if pk.strukt {
							s.Push(pushPathS, &TMsg{Author: tag}, metaSettings(r, tag)...)
						} else {
							s.Push(pushPathB, RandBytes(r, 1+r.Intn(200)), append(pipe(r), metaSettings(r, tag)...)...)
						}
					}
					kp.look(r)
				}
			}(g)
		}
		wg.Wait()
		for _, p := range pairs {
			p.CliSess.Close()
			p.SrvSess.Close()
		}
	}
}

// callKept makes one call (synchronous or through AsyncCall + done channel) with a tag in its
// metadata, snapshots the completed command and keeps it. timeout > 0: give up waiting (redial
// scenario, where a reply can be lost).
func callKept(r *rand.Rand, sc string, pk protoKind, sess erpc.Session, kp *keeper, async bool, timeout time.Duration) erpc.CallCmd {
	tag := nextTag(sc)
	set := metaSettings(r, tag)
	var cmd erpc.CallCmd
	var bptr *[]byte
	var sptr *TMsg
	var arg interface{}
	var path string
	if pk.strukt {
		sptr = new(TMsg)
		arg, path = &TMsg{Author: tag}, callPathS
	} else {
		bptr = new([]byte)
		arg, path = RandBytes(r, 1+r.Intn(400)), callPathB
		if timeout == 0 {
			set = append(set, pipe(r)...)
		}
	}
	var result interface{} = bptr
	if pk.strukt {
		result = sptr
	}
	if async || timeout > 0 {
		ch := make(chan erpc.CallCmd, 1)
		cmd = sess.AsyncCall(path, arg, result, ch, set...)
		if timeout > 0 {
			select {
			case <-ch:
			case <-time.After(timeout):
				return nil
			}
		} else {
			cmd = <-ch
		}
	} else {
		cmd = sess.Call(path, arg, result, set...)
	}
	if kp != nil {
		kp.add(snapshot(sc, tag, true, cmd, bptr, sptr))
	}
	return cmd
}
