// c05 drives the default ("raw") wire protocol of socket/protocol.go: Pack into a buffer,
// Unpack through readers that deliver the bytes in different chunkings, back-to-back frame
// streams, and hostile / mutated byte streams.
package main

import (
	"bytes"
	"fmt"
	"io"
	"math"
	"math/rand"

	"verifharness/c05lib"
	. "verifharness/hlib"

	"github.com/henrylee2cn/erpc/v6/socket"
	"github.com/henrylee2cn/goutil/status"
)

// chunkRW is the IOWithReadBuffer handed to the protocol: writes are collected, reads are
// served from a list of chunks (a Read never crosses a chunk boundary).
type chunkRW struct {
	w      bytes.Buffer
	writes int
	chunks [][]byte
}

func (c *chunkRW) Write(p []byte) (int, error) { c.writes++; return c.w.Write(p) }
func (c *chunkRW) Read(p []byte) (int, error) {
	for len(c.chunks) > 0 && len(c.chunks[0]) == 0 {
		c.chunks = c.chunks[1:]
	}
	if len(c.chunks) == 0 {
		return 0, io.EOF
	}
	n := copy(p, c.chunks[0])
	c.chunks[0] = c.chunks[0][n:]
	return n, nil
}

func chunkings(r *rand.Rand, b []byte) [][][]byte {
	one := [][]byte{append([]byte(nil), b...)}
	var bytewise [][]byte
	for i := range b {
		bytewise = append(bytewise, []byte{b[i]})
	}
	var rnd [][]byte
	for i := 0; i < len(b); {
		n := 1 + r.Intn(1+len(b)/3)
		if i+n > len(b) {
			n = len(b) - i
		}
		rnd = append(rnd, append([]byte(nil), b[i:i+n]...))
		if r.Intn(4) == 0 {
			rnd = append(rnd, []byte{})
		}
		i += n
	}
	return [][][]byte{one, bytewise, rnd}
}

type genMsg struct {
	seq    int32
	mtype  byte
	method []byte
	hasSt  bool
	code   int32
	msg    []byte
	cause  []byte
	hasC   bool
	meta   [][2][]byte
	codec  byte
	body   []byte
}

func (g *genMsg) val() string {
	st := "snil"
	if g.hasSt {
		st = VL(VZ(int64(g.code)), VB(g.msg), VOpt(g.cause, g.hasC))
	}
	var kv []string
	for _, p := range g.meta {
		kv = append(kv, VL(VB(p[0]), VB(p[1])))
	}
	return VL(VZ(int64(g.seq)), VB([]byte{g.mtype}), VB(g.method), st, VL(kv...), VB([]byte{g.codec}), VB(g.body))
}

func (g *genMsg) settings(ids []byte) []socket.MessageSetting {
	s := []socket.MessageSetting{
		socket.WithServiceMethod(string(g.method)),
		socket.WithBodyCodec(g.codec),
		socket.WithBody(g.body),
	}
	if g.hasSt {
		if g.hasC {
			s = append(s, socket.WithStatus(status.New(g.code, string(g.msg), string(g.cause))))
		} else {
			s = append(s, socket.WithStatus(status.New(g.code, string(g.msg))))
		}
	}
	for _, p := range g.meta {
		s = append(s, socket.WithAddMeta(string(p[0]), string(p[1])))
	}
	if len(ids) > 0 {
		s = append(s, socket.WithXferPipe(ids...))
	}
	return s
}

func someBytes(r *rand.Rand, n int, class int) []byte {
	b := make([]byte, n)
	switch class {
	case 0: // all byte values
		r.Read(b)
	case 1: // unreserved text
		const al = "abcXYZ019*-._"
		for i := range b {
			b[i] = al[r.Intn(len(al))]
		}
	case 2: // separators and escapes
		const al = "&=%+ /?#\x00\xff\x7f%41%zz"
		for i := range b {
			b[i] = al[r.Intn(len(al))]
		}
	default: // high bytes but never 0xff (see known finding on %FF)
		for i := range b {
			b[i] = byte(128 + r.Intn(127))
		}
	}
	return b
}

func genMessage(r *rand.Rand, st *Stats) *genMsg {
	g := &genMsg{}
	switch r.Intn(8) {
	case 0:
		g.seq = 0
	case 1:
		g.seq = math.MinInt32
	case 2:
		g.seq = math.MaxInt32
	case 3:
		g.seq = -1
	case 4:
		g.seq = 1
	default:
		g.seq = int32(r.Uint32())
	}
	if r.Intn(4) == 0 {
		g.mtype = byte(r.Intn(256))
	} else {
		g.mtype = byte(1 + r.Intn(3))
	}
	ml := PickLen(r, []int{0, 1, 7, 20, 254, 255})
	if r.Intn(25) == 0 {
		ml = PickLen(r, []int{256, 300})
		st.Count("method:too-long")
	}
	g.method = someBytes(r, ml, r.Intn(3))
	if r.Intn(3) > 0 {
		g.hasSt = true
		switch r.Intn(6) {
		case 0:
			g.code = 0
		case 1:
			g.code = math.MinInt32
		case 2:
			g.code = math.MaxInt32
		default:
			g.code = int32(r.Intn(2000) - 500)
		}
		g.msg = someBytes(r, PickLen(r, []int{0, 0, 3, 30}), r.Intn(4))
		if r.Intn(2) == 0 {
			g.hasC = true
			g.cause = someBytes(r, PickLen(r, []int{0, 5, 40}), r.Intn(4))
		}
		if r.Intn(40) == 0 { // encoded status around the uint16 boundary
			g.msg = someBytes(r, PickLen(r, []int{65520, 65525, 65535, 65600}), 1)
			st.Count("status:around-64k")
		}
	}
	nm := PickLen(r, []int{0, 0, 1, 2, 5, 12})
	for i := 0; i < nm; i++ {
		k := someBytes(r, PickLen(r, []int{0, 1, 2, 4, 12, 30}), r.Intn(4))
		v := someBytes(r, PickLen(r, []int{0, 0, 1, 9, 40}), r.Intn(4))
		if i > 0 && r.Intn(4) == 0 {
			k = g.meta[r.Intn(len(g.meta))][0] // repeated key
		}
		if len(k) == 0 && len(v) == 0 {
			st.Count("meta:empty-pair")
		}
		g.meta = append(g.meta, [2][]byte{k, v})
	}
	if r.Intn(50) == 0 {
		g.meta = append(g.meta, [2][]byte{[]byte("big"), someBytes(r, PickLen(r, []int{65500, 65531, 65532, 66000}), 1)})
		st.Count("meta:around-64k")
	}
	g.codec = byte(r.Intn(256))
	g.body = someBytes(r, PickLen(r, []int{0, 0, 1, 16, 255, 256, 1000, 5000}), 0)
	return g
}

func genIds(r *rand.Rand) []byte {
	valid := []byte{1, 2, 3, 'm', 'g'}
	switch k := r.Intn(10); {
	case k < 4:
		return nil
	case k < 9:
		ids := make([]byte, 1+r.Intn(4))
		for i := range ids {
			ids[i] = valid[r.Intn(len(valid))]
		}
		return ids
	default:
		ids := make([]byte, PickLen(r, []int{30, 254, 255}))
		for i := range ids {
			ids[i] = valid[r.Intn(3)]
		}
		return ids
	}
}

type unpacked struct {
	ok   bool
	val  string
	size uint32
	m    socket.Message // kept so that the body can be rendered AFTER later frames were decoded
}

// A receiving session reuses its message objects (sync.Pool + Reset); so does the harness:
// one long-lived message that is Reset before every Unpack, alternating with pool traffic.
var reused = socket.NewMessage()
var useCount int

func acquire() socket.Message {
	useCount++
	nb := socket.WithNewBody(func(socket.Header) interface{} { return new([]byte) })
	if useCount%3 == 0 {
		return socket.GetMessage(nb)
	}
	return reused.Reset(nb)
}

func render(m socket.Message) string {
	var kv []string
	m.Meta().VisitAll(func(k, v []byte) { kv = append(kv, VL(VB(k), VB(v))) })
	var body []byte
	if b, ok := m.Body().(*[]byte); ok && b != nil {
		body = *b
	}
	return VL(VS("ok"), VL(
		VZ(int64(m.Seq())), VB([]byte{m.Mtype()}), VB([]byte(m.ServiceMethod())),
		VB(m.Status(true).EncodeQuery()), VL(kv...), VB([]byte{m.BodyCodec()}), VB(body),
		VB(m.XferPipe().IDs()), VN(int64(m.Size()))))
}

// unpackOne runs the real Unpack on the reader; panics are reported as failures.
func unpackOne(p socket.Proto, keep bool) (u unpacked) {
	defer func() {
		if e := recover(); e != nil {
			u = unpacked{ok: false, val: "sfail"}
		}
	}()
	var m socket.Message
	if keep {
		// frames of one stream are alive together (handlers run while the next frame is read)
		m = socket.NewMessage(socket.WithNewBody(func(socket.Header) interface{} { return new([]byte) }))
	} else {
		m = acquire()
	}
	if err := p.Unpack(m); err != nil {
		return unpacked{ok: false, val: "sfail"}
	}
	if keep {
		return unpacked{ok: true, size: m.Size(), m: m}
	}
	return unpacked{ok: true, size: m.Size(), val: render(m)}
}

// decodeStream decodes frames until the reader is exhausted or a frame fails. Every decoded
// message of the stream is rendered only after the whole stream was decoded, so a body that
// still points into a recycled read buffer shows up as a difference.
func decodeStream(chunks [][]byte) (frames []string, end string, sizes []uint32) {
	rw := &chunkRW{chunks: chunks}
	p := socket.RawProtoFunc(rw)
	var ms []socket.Message
	end = "sok"
	for {
		for len(rw.chunks) > 0 && len(rw.chunks[0]) == 0 {
			rw.chunks = rw.chunks[1:]
		}
		if len(rw.chunks) == 0 {
			break
		}
		u := unpackOne(p, true)
		if !u.ok {
			end = "sfail"
			break
		}
		ms = append(ms, u.m)
		sizes = append(sizes, u.size)
	}
	// exercise the recycled-message path as well: same bytes again through reused messages,
	// which must give the same fields
	for _, m := range ms {
		frames = append(frames, render(m))
	}
	return frames, end, sizes
}

// decodeStreamReused decodes the same stream through recycled message objects, rendering each
// frame at once.
func decodeStreamReused(chunks [][]byte) (frames []string, end string) {
	rw := &chunkRW{chunks: chunks}
	p := socket.RawProtoFunc(rw)
	for {
		for len(rw.chunks) > 0 && len(rw.chunks[0]) == 0 {
			rw.chunks = rw.chunks[1:]
		}
		if len(rw.chunks) == 0 {
			return frames, "sok"
		}
		u := unpackOne(p, false)
		if !u.ok {
			return frames, "sfail"
		}
		frames = append(frames, u.val)
	}
}

func packOne(g *genMsg, ids []byte) (out []byte, ok bool, writes int) {
	defer func() {
		if e := recover(); e != nil {
			ok = false
		}
	}()
	rw := &chunkRW{}
	p := socket.RawProtoFunc(rw)
	m := socket.NewMessage(g.settings(ids)...)
	m.SetSeq(g.seq)
	m.SetMtype(g.mtype)
	if err := p.Pack(m); err != nil {
		return nil, false, rw.writes
	}
	return append([]byte(nil), rw.w.Bytes()...), true, rw.writes
}

func copyChunks(c [][]byte) [][]byte {
	o := make([][]byte, len(c))
	for i := range c {
		o[i] = append([]byte(nil), c[i]...)
	}
	return o
}

func main() {
	cfg := ParseFlags()
	r := cfg.Rng
	gz := RegTestFilters()
	st := NewStats("C05", cfg)
	st.Rule = "raw protocol: (a) pack/unpack of generated messages (all byte values in method/meta/status/body; lengths 0,1,255,256,~65535; seq extremes; pipes over xor/rev/lenp/md5/gzip) under a size limit, unpacked through 3 chunkings; (b) streams of 1-6 back-to-back frames; (c) hostile streams = valid frames with byte flips / truncation / rewritten length fields, and random bytes; (d) cross: 1-3 Packs and 1-3 Unpacks on ONE protocol instance over a connection whose every Write and Read is gated by the harness, interleaved by a random schedule (oracle: every frame written, every size reported, every frame decoded equals the quiet-connection reference). distinct by input bytes; non-trivial = non-empty method or meta or body or a failure class"
	w := NewCaseWriter(cfg)
	distinct := DistinctSet{}
	const bigLim = 1 << 24
	for i := 0; i < cfg.N; i++ {
		gz.ResetTab()
		mode := r.Intn(11)
		switch {
		case mode >= 10: // Packs and Unpacks of ONE protocol instance under a forced interleaving
			st.Count("mode:cross")
			socket.SetMessageSizeLimit(bigLim)
			genSmall := func() (*genMsg, []byte) {
				g := genMessage(r, st)
				if len(g.method) > 255 {
					g.method = g.method[:255]
				}
				if len(g.msg) > 1000 {
					g.msg = g.msg[:1000]
				}
				var m2 [][2][]byte
				for _, p := range g.meta {
					if len(p[1]) < 1000 {
						m2 = append(m2, p)
					}
				}
				g.meta = m2
				return g, genIdsNoGz(r)
			}
			spec := &c05lib.XSpec{Name: "raw", PF: socket.RawProtoFunc}
			var all []byte
			for j, k := 0, 1+r.Intn(3); j < k; j++ {
				g, ids := genSmall()
				out, ok, _ := packOne(g, ids)
				if !ok {
					continue
				}
				if fr, end, _ := decodeStream([][]byte{append([]byte(nil), out...)}); len(fr) != 1 || end != "sok" {
					continue
				}
				spec.Frames = append(spec.Frames, out)
				all = append(all, out...)
			}
			for j, k := 0, 1+r.Intn(3); j < k; j++ {
				og, oids := genSmall()
				spec.Out = append(spec.Out, func() socket.Message {
					m := socket.NewMessage(og.settings(oids)...)
					m.SetSeq(og.seq)
					m.SetMtype(og.mtype)
					return m
				})
			}
			x, _ := spec.Run(r, st, i)
			obs := VL(VL(), "sfail")
			if x.OK {
				var fr []string
				end := "sok"
				for _, o := range x.Unp {
					if o == "sfail" {
						end = "sfail"
						break
					}
					fr = append(fr, o)
				}
				obs = VL(VL(fr...), end)
			}
			w.Add(VL(VS("stream"), VN(bigLim), gz.TabVal(), VB(all)), obs)
			distinct.Add(fmt.Sprintf("cross bytes=%x %s", all, x.Sched))
		case mode < 5: // pack + unpack
			st.Count("mode:pack")
			g := genMessage(r, st)
			ids := genIds(r)
			lim := uint32(bigLim)
			if r.Intn(3) == 0 {
				// back to the library's default limit (0 = default), possibly straight after a tight
				// one: everything that follows the limit - the filters' inflate bound included -
				// must follow it back
				socket.SetMessageSizeLimit(0)
				lim = socket.MessageSizeLimit()
				st.Count("limit:reset-to-default")
			} else {
				socket.SetMessageSizeLimit(bigLim)
			}
			loose := true
			probe, pok, _ := packOne(g, ids)
			if pok && r.Intn(6) == 0 { // limit at / just under the frame size
				lim = uint32(len(probe)) - uint32(r.Intn(2))
				loose = false
				socket.SetMessageSizeLimit(lim)
				st.Count("limit:tight")
			}
			gz.ResetTab()
			out, ok, writes := packOne(g, ids)
			human := fmt.Sprintf("pack lim=%d ids=%x msg=%s", lim, ids, g.val())
			if ok && writes != 1 {
				st.Fail(i, "pack-multiple-writes", fmt.Sprintf("Pack wrote the frame in %d Write calls", writes), human)
			}
			packObs := "serr"
			unpObs := "snone"
			if ok {
				packObs = VL(VS("ok"), VB(out))
				var first string
				if fr2, end2 := decodeStreamReused([][]byte{append([]byte(nil), out...)}); true {
					fr1, end1, _ := decodeStream([][]byte{append([]byte(nil), out...)})
					if VL(VL(fr2...), end2) != VL(VL(fr1...), end1) {
						st.Fail(i, "recycled-message", "decoding into a recycled message gives different fields than decoding into a fresh one", human)
					}
				}
				for ci, ch := range chunkings(r, out) {
					fr, end, sizes := decodeStream(ch)
					cur := VL(VL(fr...), end)
					if ci == 0 {
						first = cur
						unpObs = cur
						// property oracle on the implementation alone (a gzip stage may legitimately
						// refuse to inflate beyond a tight limit: those cases are left to the model)
						if loose || !bytes.Contains(ids, []byte{'g'}) {
							c05Oracle(st, i, g, ids, fr, end, sizes, len(out), human)
						}
					} else if cur != first {
						st.Fail(i, "chunking", fmt.Sprintf("chunking %d decodes differently", ci), human)
					}
				}
			}
			w.Add(VL(VS("pack"), VN(int64(lim)), VB(ids), gz.TabVal(), g.val()), VL(packObs, unpObs))
			distinct.Add(human)
		case mode < 7: // stream of frames
			st.Count("mode:stream")
			socket.SetMessageSizeLimit(bigLim)
			k := 1 + r.Intn(6)
			var all []byte
			var lens []int
			var gs []*genMsg
			for j := 0; j < k; j++ {
				g := genMessage(r, st)
				if len(g.method) > 255 {
					g.method = g.method[:255]
				}
				if len(g.msg) > 1000 {
					g.msg = g.msg[:1000]
				}
				var m2 [][2][]byte
				for _, p := range g.meta {
					if len(p[1]) < 1000 {
						m2 = append(m2, p)
					}
				}
				g.meta = m2
				out, ok, _ := packOne(g, genIdsNoGz(r))
				if !ok {
					continue
				}
				all = append(all, out...)
				lens = append(lens, len(out))
				gs = append(gs, g)
			}
			human := fmt.Sprintf("stream frames=%d bytes=%x", len(lens), all)
			var first string
			if fr2, end2 := decodeStreamReused([][]byte{append([]byte(nil), all...)}); true {
				fr1, end1, _ := decodeStream([][]byte{append([]byte(nil), all...)})
				if VL(VL(fr2...), end2) != VL(VL(fr1...), end1) {
					st.Fail(i, "recycled-message", "decoding a stream into recycled messages gives different fields than decoding into fresh ones", human)
				}
			}
			for ci, ch := range chunkings(r, all) {
				fr, end, sizes := decodeStream(ch)
				cur := VL(VL(fr...), end)
				if ci == 0 {
					first = cur
					if end != "sok" || len(fr) != len(lens) {
						st.Fail(i, "stream-sync", fmt.Sprintf("stream of %d frames decoded to %d frames, end=%s", len(lens), len(fr), end), human)
					}
					for j := range sizes {
						if j < len(lens) && int(sizes[j]) != lens[j] {
							st.Fail(i, "size-not-own", fmt.Sprintf("frame %d reports size %d, its own length is %d", j, sizes[j], lens[j]), human)
						}
					}
				} else if cur != first {
					st.Fail(i, "chunking", fmt.Sprintf("chunking %d decodes differently", ci), human)
				}
			}
			w.Add(VL(VS("stream"), VN(bigLim), gz.TabVal(), VB(all)), first)
			distinct.Add(human)
		default: // hostile bytes
			st.Count("mode:hostile")
			lim := uint32(PickLen(r, []int{64, 1024, bigLim}))
			socket.SetMessageSizeLimit(bigLim)
			var b []byte
			switch r.Intn(5) {
			case 0:
				b = RandBytes(r, r.Intn(64))
				st.Count("hostile:random")
			default:
				g := genMessage(r, st)
				if len(g.method) > 255 {
					g.method = g.method[:255]
				}
				out, ok, _ := packOne(g, genIdsNoGz(r))
				if !ok || len(out) > 3000 {
					b = RandBytes(r, 1+r.Intn(32))
					break
				}
				b = out
				switch r.Intn(4) {
				case 0: // byte flips
					for f := 0; f < 1+r.Intn(3); f++ {
						b[r.Intn(len(b))] ^= byte(1 + r.Intn(255))
					}
					st.Count("hostile:flip")
				case 1: // truncation
					b = b[:r.Intn(len(b))]
					st.Count("hostile:truncate")
				case 2: // rewrite the size field
					v := uint32(PickLen(r, []int{0, 1, 3, 4, 5, 6, len(b) - 1, len(b) + 1, 1 << 30}))
					b[0], b[1], b[2], b[3] = byte(v>>24), byte(v>>16), byte(v>>8), byte(v)
					st.Count("hostile:size-field")
				default: // rewrite an inner length byte / the pipe length
					if len(b) > 8 {
						b[4+r.Intn(4)] = byte(r.Intn(256))
					}
					st.Count("hostile:len-byte")
				}
			}
			gz.ResetTab()
			socket.SetMessageSizeLimit(lim)
			fr, end, _ := decodeStream([][]byte{append([]byte(nil), b...)})
			human := fmt.Sprintf("hostile lim=%d bytes=%x", lim, b)
			w.Add(VL(VS("stream"), VN(int64(lim)), gz.TabVal(), VB(b)), VL(VL(fr...), end))
			distinct.Add(human)
		}
		if len(st.Samples) < 6 && i%7 == 0 {
			st.Samples = append(st.Samples, fmt.Sprintf("case %d mode=%d", i, mode))
		}
	}
	st.Evaluations = cfg.N
	st.DistinctNontrivial = len(distinct)
	st.Write(cfg, w)
}

func genIdsNoGz(r *rand.Rand) []byte {
	valid := []byte{1, 2, 3, 'm'}
	if r.Intn(2) == 0 {
		return nil
	}
	ids := make([]byte, 1+r.Intn(3))
	for i := range ids {
		ids[i] = valid[r.Intn(len(valid))]
	}
	return ids
}

// c05Oracle: the round-trip property evaluated on the implementation's own output, within
// the documented limits (method <= 255, status and meta encodings <= 65535 bytes, pairs with
// empty key AND empty value are not representable in the urlencoded form and are skipped).
func c05Oracle(st *Stats, i int, g *genMsg, ids []byte, fr []string, end string, sizes []uint32, outLen int, human string) {
	var kv []string
	metaLen := 0
	for _, p := range g.meta {
		metaLen += 3*len(p[0]) + 3*len(p[1]) + 2
		if len(p[0]) == 0 && len(p[1]) == 0 {
			continue
		}
		kv = append(kv, VL(VB(p[0]), VB(p[1])))
	}
	if 3*len(g.msg)+3*len(g.cause)+40 > 65535 || metaLen > 65535 {
		return // outside the documented limits (conservative bound on the encoded length)
	}
	for _, p := range g.meta {
		if bytes.Contains(p[0], []byte{0xff}) && false {
			return
		}
	}
	var s *status.Status
	if g.hasSt {
		if g.hasC {
			s = status.New(g.code, string(g.msg), string(g.cause))
		} else {
			s = status.New(g.code, string(g.msg))
		}
	} else {
		s = new(status.Status)
	}
	want := VL(VS("ok"), VL(
		VZ(int64(g.seq)), VB([]byte{g.mtype}), VB(g.method), VB(s.EncodeQuery()), VL(kv...),
		VB([]byte{g.codec}), VB(g.body), VB(ids), VN(int64(outLen))))
	if end != "sok" || len(fr) != 1 {
		st.Fail(i, "roundtrip", fmt.Sprintf("a packed message within limits does not unpack (end=%s frames=%d)", end, len(fr)), human)
		return
	}
	if fr[0] != want {
		st.Fail(i, "roundtrip", "unpack(pack(m)) differs from m: got "+fr[0]+" want "+want, human)
	}
}
