// c02t is the C02 harness over the thrift protocols (-proto binary|struct). It is a binary of
// its own because importing thriftproto switches process-wide defaults (service-method mapper,
// default body codec) in its init.
package main

import (
	"os"

	"verifharness/c02eng"

	"git.apache.org/thrift.git/lib/go/thrift"
	erpc "github.com/henrylee2cn/erpc/v6"
	"github.com/henrylee2cn/erpc/v6/codec"
	"github.com/henrylee2cn/erpc/v6/proto/thriftproto"
	"github.com/henrylee2cn/erpc/v6/socket"
)

// tstr is a hand-written thrift struct with one string field (id 1).
type tstr struct{ V string }

func (t *tstr) Write(p thrift.TProtocol) error {
	if err := p.WriteStructBegin("tstr"); err != nil {
		return err
	}
	if err := p.WriteFieldBegin("v", thrift.STRING, 1); err != nil {
		return err
	}
	if err := p.WriteString(t.V); err != nil {
		return err
	}
	if err := p.WriteFieldEnd(); err != nil {
		return err
	}
	if err := p.WriteFieldStop(); err != nil {
		return err
	}
	return p.WriteStructEnd()
}

func (t *tstr) Read(p thrift.TProtocol) error {
	if _, err := p.ReadStructBegin(); err != nil {
		return err
	}
	for {
		_, typ, id, err := p.ReadFieldBegin()
		if err != nil {
			return err
		}
		if typ == thrift.STOP {
			break
		}
		if id == 1 && typ == thrift.STRING {
			v, err := p.ReadString()
			if err != nil {
				return err
			}
			t.V = v
		} else if err := p.Skip(typ); err != nil {
			return err
		}
		if err := p.ReadFieldEnd(); err != nil {
			return err
		}
	}
	return p.ReadStructEnd()
}

func (t *tstr) String() string { return t.V }

func binaryFamily() *c02eng.Family {
	pf := thriftproto.NewBinaryProtoFunc()
	var cls [][2]string
	for _, c := range []string{"ok", "ok", "ok", "remote", "undec", "undec0", "hook", "panic"} {
		cls = append(cls, [2]string{c, c})
	}
	return &c02eng.Family{
		Name:      "thrift-binary",
		Proto:     pf,
		NewResult: func() interface{} { return new(string) },
		ResultOK:  func(r interface{}) bool { return *(r.(*string)) == "r" },
		Reply: func(seq int32, c string) []byte {
			return c02eng.FrameBytes(pf, c02eng.RawReplySettings(seq, c)...)
		},
		Classes: cls,
		// malformed byte strings are left to C06 (the header transport's reaction to hostile bytes)
		Arg:     []byte("x"),
	}
}

func structFamily() *c02eng.Family {
	pf := thriftproto.NewStructProtoFunc()
	reply := func(seq int32, c string) []byte {
		base := func(m socket.Message) { m.SetMtype(erpc.TypeReply); m.SetSeq(seq); m.SetBodyCodec(codec.ID_THRIFT) }
		switch c {
		case "struct":
			return c02eng.FrameBytes(pf, base, socket.WithBody(&tstr{V: "r"}))
		case "error-empty-struct":
			return c02eng.FrameBytes(pf, base, socket.WithStatus(erpc.NewStatus(500, "boom", "")))
		case "struct-hook":
			return c02eng.FrameBytes(pf, base, socket.WithBody(&tstr{V: "r"}), socket.WithSetMeta("x-verif", "hook"))
		case "struct-panic":
			return c02eng.FrameBytes(pf, base, socket.WithBody(&tstr{V: "r"}), socket.WithSetMeta("x-verif", "panic"))
		}
		panic("class " + c)
	}
	return &c02eng.Family{
		Name:      "thrift-struct",
		Proto:     pf,
		NewResult: func() interface{} { return new(tstr) },
		ResultOK:  func(r interface{}) bool { return r.(*tstr).V == "r" },
		Reply:     reply,
		Classes: [][2]string{
			{"struct", "ok"}, {"struct", "ok"}, {"struct", "ok"},
			{"error-empty-struct", "remote"},
		},
		// malformed byte strings are left to C06 (the header transport's reaction to hostile bytes)
		Arg: &tstr{V: "x"},
	}
}

func main() {
	proto := "binary"
	for i, a := range os.Args {
		if (a == "-proto" || a == "--proto" || a == "-mode" || a == "--mode") && i+1 < len(os.Args) {
			proto = os.Args[i+1]
		}
	}
	if proto == "struct" {
		c02eng.Run(structFamily())
	} else {
		c02eng.Run(binaryFamily())
	}
}
