// c18 drives the overload plugin of /repo (plugin/overloader): the connection limiter and
// the token bucket through their verif handles (sequentially and under forced interleavings
// of goroutines parked at the gate points), and a live peer with the plugin installed.
package main

import (
	"errors"
	"fmt"
	"net"
	"runtime"
	"strings"
	"sync"
	"sync/atomic"
	"time"

	. "verifharness/hlib"

	erpc "github.com/henrylee2cn/erpc/v6"
	"github.com/henrylee2cn/erpc/v6/plugin/overloader"
)

// ---------------------------------------------------------------- coroutine scheduler
// Exactly one worker goroutine runs at a time; it hands control back when it reaches a gate
// point of the overloader package or finishes its operation.

type worker struct {
	resume chan struct{}
	yield  chan string // gate point name, "" = operation finished
	busy   bool
	kind   string // "take" | "rel" | "tick"
	res    bool
}

var curWorker atomic.Value // *worker (nil pointer when none)

func gateFn(point string) {
	w, _ := curWorker.Load().(*worker)
	if w == nil {
		return
	}
	w.yield <- point
	<-w.resume
}

// start launches fn on the worker and runs it up to its first gate (or to completion).
func (w *worker) start(kind string, fn func() bool) string {
	w.kind = kind
	w.busy = true
	go func() {
		<-w.resume
		w.res = fn()
		w.yield <- ""
	}()
	return w.step()
}

// step lets the worker run to its next gate (or to completion).
func (w *worker) step() string {
	curWorker.Store(w)
	w.resume <- struct{}{}
	p := <-w.yield
	curWorker.Store((*worker)(nil))
	if p == "" {
		w.busy = false
	}
	return p
}

func newWorker() *worker {
	return &worker{resume: make(chan struct{}), yield: make(chan string)}
}

func resStr(done bool, kind string, res bool) string {
	if done && kind == "take" {
		return VBool(res)
	}
	return VS("none")
}

// ---------------------------------------------------------------- unit: connection limiter

func caseCSeq(cfg *RunCfg, st *Stats, w *CaseWriter, idx int) string {
	r := cfg.Rng
	lim := int32(1 + r.Intn(4))
	c := overloader.VerifNewConn(lim)
	n := 4 + r.Intn(16)
	var ops, obs []string
	held := 0
	curLim := lim
	decreased, misuse := false, false
	for k := 0; k < n; k++ {
		res := VS("none")
		switch x := r.Intn(10); {
		case x < 5:
			ok := c.Take()
			if ok {
				held++
				if !decreased && !misuse && int32(held) > curLim {
					st.Fail(idx, "over-admission", fmt.Sprintf("sequential takes: %d slots held with limit %d", held, curLim), strings.Join(ops, " "))
				}
			}
			res = VBool(ok)
			ops = append(ops, VS("take"))
		case x < 9:
			// mostly balanced releases, sometimes a release nobody is entitled to
			if held == 0 && r.Intn(4) != 0 {
				ok := c.Take()
				if ok {
					held++
				}
				res = VBool(ok)
				ops = append(ops, VS("take"))
				break
			}
			c.Release()
			if held > 0 {
				held--
			} else {
				misuse = true // a release nobody was entitled to: the handle is misused on purpose
			}
			ops = append(ops, VS("rel"))
		default:
			nl := int32(1 + r.Intn(5))
			if nl < curLim {
				decreased = true
			}
			curLim = nl
			c.Update(nl)
			ops = append(ops, VL(VS("upd"), VN(int64(nl))))
		}
		obs = append(obs, VL(res, VZ(int64(c.Now())), VZ(int64(c.Tmp()))))
	}
	w.Add(VL(VS("cseq"), VN(int64(lim)), VL(ops...)), VL(obs...))
	return fmt.Sprintf("cseq lim=%d ops=%d", lim, n)
}

func caseCConc(cfg *RunCfg, st *Stats, w *CaseWriter, idx int) (string, string) {
	r := cfg.Rng
	lim := int32(1 + r.Intn(3))
	c := overloader.VerifNewConn(lim)
	nth := 2 + r.Intn(3)
	ws := make([]*worker, nth)
	holding := make([]int, nth)
	for i := range ws {
		ws[i] = newWorker()
	}
	n := 8 + r.Intn(30)
	var evs, obs []string
	curLim, maxLim := lim, lim
	held := 0
	sig := ""
	emit := func(ev string, done bool, kind string, res bool) {
		evs = append(evs, ev)
		obs = append(obs, VL(resStr(done, kind, res), VZ(int64(c.Now())), VZ(int64(c.Tmp()))))
	}
	finish := func(i int) {
		wk := ws[i]
		if wk.kind == "take" && wk.res {
			holding[i]++
			held++
			if int32(held) > maxLim {
				st.Fail(idx, "over-admission", fmt.Sprintf("interleaved takes: %d slots held, largest limit ever %d", held, maxLim), strings.Join(evs, " "))
			}
		}
	}
	for k := 0; k < n; k++ {
		i := r.Intn(nth)
		wk := ws[i]
		switch {
		case wk.busy:
			p := wk.step()
			sig += "s"
			emit(VL(VS("step"), VN(int64(i))), p == "", wk.kind, wk.res)
			if p == "" {
				finish(i)
			}
		case r.Intn(12) == 0:
			nl := int32(1 + r.Intn(4))
			curLim = nl
			if nl > maxLim {
				maxLim = nl
			}
			c.Update(nl)
			sig += "u"
			emit(VL(VS("upd"), VN(int64(nl))), false, "", false)
		case holding[i] > 0 && r.Intn(2) == 0:
			holding[i]--
			held--
			p := wk.start("rel", func() bool { c.Release(); return true })
			sig += "r"
			emit(VL(VS("rel"), VN(int64(i))), p == "", "rel", false)
		default:
			p := wk.start("take", func() bool { return c.Take() })
			sig += "t"
			emit(VL(VS("take"), VN(int64(i))), p == "", "take", wk.res)
			if p == "" {
				finish(i)
			}
		}
	}
	// drain so that no goroutine stays parked
	for i, wk := range ws {
		for wk.busy {
			p := wk.step()
			emit(VL(VS("step"), VN(int64(i))), p == "", wk.kind, wk.res)
			if p == "" {
				finish(i)
			}
		}
	}
	_ = curLim
	if int32(held) != c.Now() || int32(held) != c.Tmp() {
		st.Fail(idx, "slot-accounting", fmt.Sprintf("after balanced interleaved takes/releases: held=%d now=%d tmp=%d", held, c.Now(), c.Tmp()), strings.Join(evs, " "))
	}
	w.Add(VL(VS("cconc"), VN(int64(lim)), VL(evs...)), VL(obs...))
	return fmt.Sprintf("cconc lim=%d threads=%d events=%d", lim, nth, len(evs)), sig
}

// ---------------------------------------------------------------- unit: token bucket

var intervals = []int64{int64(100 * time.Millisecond), int64(200 * time.Millisecond), int64(250 * time.Millisecond), int64(500 * time.Millisecond), int64(time.Second)}

func caseQSeq(cfg *RunCfg, st *Stats, w *CaseWriter, idx int) string {
	r := cfg.Rng
	maxq := int32(1 + r.Intn(12))
	iv := intervals[r.Intn(len(intervals))]
	q := overloader.VerifNewQPS(maxq, iv)
	n := 5 + r.Intn(25)
	var ops, obs []string
	admitted, budget := int64(0), int64(maxq)
	capSeen := maxq
	for k := 0; k < n; k++ {
		res := VS("none")
		switch x := r.Intn(12); {
		case x < 8:
			ok := q.Take()
			if ok {
				admitted++
			}
			res = VBool(ok)
			ops = append(ops, VS("take"))
		case x < 11:
			budget += int64(q.Once())
			q.Tick()
			ops = append(ops, VS("tick"))
			if q.Tokens() > q.Limit() {
				st.Fail(idx, "over-capacity", fmt.Sprintf("after a refill tick the bucket holds %d tokens, capacity is %d", q.Tokens(), q.Limit()), strings.Join(ops, " "))
			}
		default:
			nm := int32(1 + r.Intn(12))
			niv := intervals[r.Intn(len(intervals))]
			q.Update(nm, niv)
			ops = append(ops, VL(VS("upd"), VN(int64(nm)), VN(niv)))
		}
		if admitted > budget {
			st.Fail(idx, "bucket-bound", fmt.Sprintf("sequential: %d takes admitted, initial tokens + refills = %d", admitted, budget), strings.Join(ops, " "))
		}
		if q.Limit() > capSeen {
			capSeen = q.Limit()
		}
		if q.Tokens() > capSeen {
			st.Fail(idx, "over-capacity", fmt.Sprintf("sequential: %d tokens in a bucket whose capacity never exceeded %d", q.Tokens(), capSeen), strings.Join(ops, " "))
		}
		obs = append(obs, VL(res, VZ(int64(q.Tokens()))))
	}
	w.Add(VL(VS("qseq"), VN(int64(maxq)), VN(iv), VL(ops...)), VL(obs...))
	return fmt.Sprintf("qseq max=%d interval=%dms ops=%d", maxq, iv/1e6, n)
}

func caseQConc(cfg *RunCfg, st *Stats, w *CaseWriter, idx int, lostUpdate bool) (string, string) {
	r := cfg.Rng
	maxq := int32(1 + r.Intn(6))
	iv := intervals[r.Intn(len(intervals))]
	if lostUpdate {
		maxq, iv = 3, int64(100*time.Millisecond)
	}
	q := overloader.VerifNewQPS(maxq, iv)
	nth := 2 + r.Intn(3)
	ws := make([]*worker, nth)
	for i := range ws {
		ws[i] = newWorker()
	}
	var evs, obs []string
	sig := ""
	admitted, budget := int64(0), int64(maxq)
	pendingOnce := make([]int64, nth)
	capSeen := maxq
	emit := func(ev string, done bool, kind string, res bool) {
		evs = append(evs, ev)
		if q.Limit() > capSeen {
			capSeen = q.Limit()
		}
		if q.Tokens() > capSeen {
			st.Fail(idx, "over-capacity", fmt.Sprintf("interleaved: %d tokens in a bucket whose capacity never exceeded %d", q.Tokens(), capSeen), strings.Join(evs, " "))
		}
		obs = append(obs, VL(resStr(done, kind, res), VZ(int64(q.Tokens()))))
	}
	finish := func(i int) {
		wk := ws[i]
		if wk.kind == "take" && wk.res {
			admitted++
		}
		if wk.kind == "tick" {
			budget += pendingOnce[i]
		}
		if admitted > budget {
			st.Fail(idx, "bucket-bound", fmt.Sprintf("interleaved: %d takes admitted, initial tokens + refills of completed ticks = %d", admitted, budget), strings.Join(evs, " "))
		}
	}
	do := func(i int, what string) {
		wk := ws[i]
		switch what {
		case "step":
			p := wk.step()
			sig += "s"
			emit(VL(VS("step"), VN(int64(i))), p == "", wk.kind, wk.res)
			if p == "" {
				finish(i)
			} else if wk.kind == "tick" {
				// compare-and-swap failed: updateToken loaded everything again just now
				pendingOnce[i] = int64(q.Once())
			}
		case "take":
			p := wk.start("take", func() bool { return q.Take() })
			sig += "t"
			emit(VL(VS("take"), VN(int64(i))), p == "", "take", wk.res)
			if p == "" {
				finish(i)
			}
		case "tick":
			pendingOnce[i] = int64(q.Once())
			p := wk.start("tick", func() bool { q.Tick(); return true })
			sig += "k"
			emit(VL(VS("tick"), VN(int64(i))), p == "", "tick", false)
			if p == "" {
				finish(i)
			}
		}
	}
	if lostUpdate {
		// the schedule of C18_bucket_bound_one_per_tick_prefix_refuted: a tick parked between its
		// load and its store while every token is taken, then resumed, then takes again
		do(0, "tick")
		for k := 0; k < 3; k++ {
			do(1, "take")
			if ws[1].busy {
				do(1, "step")
			}
		}
		for ws[0].busy {
			do(0, "step")
		}
		for k := 0; k < 4; k++ {
			do(1, "take")
			if ws[1].busy {
				do(1, "step")
			}
		}
	} else {
		n := 8 + r.Intn(30)
		for k := 0; k < n; k++ {
			i := r.Intn(nth)
			wk := ws[i]
			switch {
			case wk.busy:
				do(i, "step")
			case r.Intn(14) == 0:
				nm := int32(1 + r.Intn(6))
				niv := intervals[r.Intn(len(intervals))]
				q.Update(nm, niv)
				sig += "u"
				emit(VL(VS("upd"), VN(int64(nm)), VN(niv)), false, "", false)
			case r.Intn(4) == 0:
				do(i, "tick")
			default:
				do(i, "take")
			}
		}
	}
	for i, wk := range ws {
		for guard := 0; wk.busy && guard < 8; guard++ {
			do(i, "step")
		}
		if wk.busy {
			st.Fail(idx, "tick-livelock", "updateToken did not finish after 8 uncontended resumptions", strings.Join(evs, " "))
		}
	}
	kind := "qconc"
	w.Add(VL(VS(kind), VN(int64(maxq)), VN(iv), VL(evs...)), VL(obs...))
	return fmt.Sprintf("qconc max=%d interval=%dms threads=%d events=%d lostupdate=%v admitted=%d", maxq, iv/1e6, nth, len(evs), lostUpdate, admitted), sig
}

// ---------------------------------------------------------------- live peer

type H struct{ erpc.CallCtx }

var ranA, ranB, ranPush int64

func (h *H) A(a *string) (string, *erpc.Status) { atomic.AddInt64(&ranA, 1); return "a", nil }
func (h *H) B(a *string) (string, *erpc.Status) { atomic.AddInt64(&ranB, 1); return "b", nil }

type P struct{ erpc.PushCtx }

func (p *P) B(a *string) *erpc.Status { atomic.AddInt64(&ranPush, 1); return nil }

var sessSerial int64

// verdictPlugin refuses connections while its flag is set; as the first plugin it also
// records every session offered to the accept / dial hooks.
type verdictPlugin struct {
	name   string
	reject int32
	mu     sync.Mutex
	seen   map[string]interface{}
}

func (v *verdictPlugin) Name() string { return v.name }
func (v *verdictPlugin) verdict(s erpc.PreSession, key string) *erpc.Status {
	if v.seen != nil {
		v.mu.Lock()
		v.seen[key] = s
		v.mu.Unlock()
	}
	if atomic.LoadInt32(&v.reject) != 0 {
		return erpc.NewStatus(403, "refused by "+v.name, nil)
	}
	return nil
}
func (v *verdictPlugin) PostAccept(s erpc.PreSession) *erpc.Status {
	if v.seen != nil {
		// ServePair uses one loopback listener per connection, so two live connections may
		// have the same client port, i.e. the same default session id (the remote address);
		// give every accepted session an id of its own, as one listener would
		s.SetID(fmt.Sprintf("%s#%d", s.RemoteAddr().String(), atomic.AddInt64(&sessSerial, 1)))
	}
	return v.verdict(s, s.RemoteAddr().String())
}
func (v *verdictPlugin) PostDial(s erpc.PreSession, isRedial bool) *erpc.Status {
	return v.verdict(s, s.LocalAddr().String())
}

// tailPlugin is the last plugin: it counts the hooks that got past the overloader.
type tailPlugin struct{ disc, callHdr, pushHdr int64 }

func (t *tailPlugin) Name() string { return "tail" }
func (t *tailPlugin) PostDisconnect(erpc.BaseSession) *erpc.Status {
	atomic.AddInt64(&t.disc, 1)
	return nil
}
func (t *tailPlugin) PostReadCallHeader(erpc.ReadCtx) *erpc.Status {
	atomic.AddInt64(&t.callHdr, 1)
	return nil
}
func (t *tailPlugin) PostReadPushHeader(erpc.ReadCtx) *erpc.Status {
	atomic.AddInt64(&t.pushHdr, 1)
	return nil
}

const quiesce = 10 * time.Second

var quiesceFailures int

// faultyConn closes the connection and then REPORTS a failure, as a tls.Conn does when its
// close_notify cannot be written or a wrapping conn whose peer is already gone: the end of a
// session must not depend on what Close returns.
type faultyConn struct{ net.Conn }

func (c faultyConn) Close() error {
	c.Conn.Close()
	return errors.New("close fault injected by the harness")
}

// servePair is hlib.ServePair with an optionally faulty server-side conn.
func servePair(srv, cli erpc.Peer, faulty bool) *Pair {
	if !faulty {
		return ServePair(srv, cli)
	}
	cc, sc := TCPPair()
	p := &Pair{Srv: srv, Cli: cli}
	var wg sync.WaitGroup
	wg.Add(2)
	go func() { defer wg.Done(); p.SrvSess, p.SrvStat = srv.ServeConn(faultyConn{sc}) }()
	go func() { defer wg.Done(); p.CliSess, p.CliStat = cli.ServeConn(cc) }()
	wg.Wait()
	return p
}

func callable(p *Pair) bool {
	if p.CliSess == nil {
		return false
	}
	var r string
	return p.CliSess.Call("/h/b", "x", &r).Status().OK()
}

func caseLive(cfg *RunCfg, st *Stats, w *CaseWriter, idx int) string {
	r := cfg.Rng
	lim := int32(1 + r.Intn(3))
	if r.Intn(8) == 0 {
		lim = 0 // the plugin starts without a connection limit
	}
	ol := overloader.New(overloader.LimitConfig{MaxConn: lim, QPSInterval: time.Second})
	pre := &verdictPlugin{name: "pre", seen: map[string]interface{}{}}
	post := &verdictPlugin{name: "post"}
	tail := &tailPlugin{}
	srv := erpc.NewPeer(erpc.PeerConfig{}, pre, ol, post, tail)
	srv.RouteCall(new(H))
	defer srv.Close()
	// one client peer per connection: a session's id is its remote address, and the loopback
	// listeners of ServePair reuse ports, so two connections of ONE client peer can collide
	// in its session index (the newer one closes the older one) - not what is tested here
	var clis []erpc.Peer
	newCli := func() erpc.Peer {
		c := erpc.NewPeer(erpc.PeerConfig{})
		clis = append(clis, c)
		return c
	}
	defer func() {
		for _, c := range clis {
			c.Close()
		}
	}()
	// the plugin's limiter is a pointer: MaxConn <= 0 drops it, a later MaxConn > 0 builds a
	// fresh instance; gen numbers the instances (-1: no limiter), genOf = instance a session
	// was admitted through
	gen := 0
	gens := 1
	if lim == 0 {
		gen, gens = -1, 0
	}
	genOf := map[*Pair]int{}

	var live []*Pair
	var done []interface{}
	var all []*Pair
	var evs, obs, human []string
	curLim := lim
	hooks := int64(0) // disconnect hooks that must have run so far
	broken := false
	n := 6 + r.Intn(10)
	fail := func(key, what string) { st.Fail(idx, key, what, strings.Join(human, " ")) }

	liveCur := func() int {
		c := 0
		for _, q := range live {
			if genOf[q] == gen {
				c++
			}
		}
		return c
	}
	admit := func(p *Pair, before int, shouldPass bool) {
		if p.SrvSess != nil {
			live = append(live, p)
			genOf[p] = gen
			if gen >= 0 && int32(before+1) > curLim {
				fail("over-admission", fmt.Sprintf("connection admitted as number %d of its limiter with limit %d", before+1, curLim))
			}
		} else {
			hooks++
			if s, ok := pre.seen[p.CliSess.LocalAddr().String()]; ok {
				done = append(done, s)
			}
			if shouldPass && (gen < 0 || int32(before) < curLim) {
				fail("spurious-reject", fmt.Sprintf("connection refused with %d admitted through the current limiter and limit %d (0 = none)", before, curLim))
			}
			if callable(p) {
				fail("rejected-callable", "a refused connection still completes a call")
			}
		}
		all = append(all, p)
	}
	for k := 0; k < n; k++ {
		before := liveCur()
		switch x := r.Intn(20); {
		case x < 8:
			e, l := r.Intn(5) != 0, r.Intn(5) != 0
			atomic.StoreInt32(&pre.reject, b2i(!e))
			atomic.StoreInt32(&post.reject, b2i(!l))
			faulty := r.Intn(3) == 0
			if faulty {
				st.Count("live:conn-with-failing-close")
			}
			p := servePair(srv, newCli(), faulty)
			atomic.StoreInt32(&pre.reject, 0)
			atomic.StoreInt32(&post.reject, 0)
			if (!e || !l) && p.SrvSess != nil {
				fail("refused-admitted", "a connection refused by another accept plugin became a session")
			}
			evs = append(evs, VL(VS("acc"), VBool(e), VBool(l)))
			human = append(human, fmt.Sprintf("acc(earlier=%v,later=%v,closefault=%v)->%v", e, l, faulty, p.SrvSess != nil))
			admit(p, before, e && l)
		case x < 11:
			kk := 2 + r.Intn(3)
			ps := make([]*Pair, kk)
			var wg sync.WaitGroup
			for j := range ps {
				wg.Add(1)
				c := newCli()
				f := r.Intn(3) == 0
				go func(j int) { defer wg.Done(); ps[j] = servePair(srv, c, f) }(j)
			}
			wg.Wait()
			got := 0
			for _, p := range ps {
				if p.SrvSess != nil {
					got++
				}
			}
			evs = append(evs, VL(VS("batch"), VN(int64(kk))))
			human = append(human, fmt.Sprintf("batch(%d)->%d", kk, got))
			free := int(curLim) - before
			if free < 0 {
				free = 0
			}
			if gen < 0 {
				free = kk
			}
			if got > free {
				fail("over-admission", fmt.Sprintf("%d concurrent connections: %d admitted with %d free slots (limit %d)", kk, got, free, curLim))
			}
			if got < free && got < kk {
				fail("spurious-reject", fmt.Sprintf("%d concurrent connections: only %d admitted with %d free slots", kk, got, free))
			}
			for _, p := range ps {
				if p.SrvSess != nil {
					live = append(live, p)
					genOf[p] = gen
				} else {
					hooks++
					if s, ok := pre.seen[p.CliSess.LocalAddr().String()]; ok {
						done = append(done, s)
					}
				}
				all = append(all, p)
			}
		case x < 16:
			how := "none"
			if len(live) > 0 {
				p := live[0]
				live = live[1:]
				hooks++
				if r.Intn(2) == 0 {
					how = "client"
					p.CliSess.Close()
				} else {
					how = "server"
					p.SrvSess.Close()
				}
				done = append(done, p.SrvSess)
			}
			evs = append(evs, VS("close"))
			human = append(human, "close("+how+")")
		case x < 18:
			// N->M, N->0 (limiter dropped), 0->N (fresh limiter), 0->0
			nl := int32(1 + r.Intn(4))
			if r.Intn(3) == 0 {
				nl = 0
			}
			if nl == 0 {
				gen = -1
			} else if gen < 0 {
				gen = gens
				gens++
			}
			curLim = nl
			ol.Update(overloader.LimitConfig{MaxConn: nl, QPSInterval: time.Second})
			evs = append(evs, VL(VS("upd"), VN(int64(nl))))
			human = append(human, fmt.Sprintf("upd(%d)", nl))
		default:
			// the framework delivers PostDisconnect a second time for a finished connection
			if len(done) > 0 {
				if bs, ok := done[0].(erpc.BaseSession); ok {
					ol.PostDisconnect(bs)
				}
			}
			evs = append(evs, VS("dup"))
			human = append(human, fmt.Sprintf("dup(%v)", len(done) > 0))
		}
		// quiescence: every disconnect hook delivered, session hub settled
		qw := quiesce
		if quiesceFailures >= 3 {
			qw = time.Second // the failure is established; do not spend ten seconds on every further one
		}
		if !WaitUntil(qw, func() bool { return atomic.LoadInt64(&tail.disc) >= hooks && srv.CountSession() <= len(live) }) {
			quiesceFailures++
			fail("no-quiescence", fmt.Sprintf("disconnect hooks seen %d, expected %d, CountSession %d, live %d", atomic.LoadInt64(&tail.disc), hooks, srv.CountSession(), len(live)))
			// a missing hook never arrives later: do not wait for it again and again
			hooks = atomic.LoadInt64(&tail.disc)
			broken = true
		}
		nc := 0
		for _, p := range all {
			closed := true
			for _, q := range live {
				if q == p {
					closed = false
				}
			}
			if closed {
				continue
			}
			if callable(p) {
				nc++
			}
		}
		cnt := srv.CountSession()
		if nc != len(live) {
			fail("callable-mismatch", fmt.Sprintf("%d admitted sessions but %d connections complete a call", len(live), nc))
		}
		if cnt != len(live) {
			fail("count-session", fmt.Sprintf("CountSession=%d with %d admitted sessions", cnt, len(live)))
		}
		vc := ol.VerifConn()
		if (vc == nil) != (gen < 0) {
			fail("limiter-presence", fmt.Sprintf("MaxConn=%d but limiter present=%v", curLim, vc != nil))
		}
		if vc != nil {
			now, tmp := int64(vc.Now()), int64(vc.Tmp())
			if lc := int64(liveCur()); now != lc || tmp != lc {
				fail("slot-accounting", fmt.Sprintf("current limiter now=%d tmp=%d with %d sessions admitted through it (%d in all)", now, tmp, lc, len(live)))
			}
			obs = append(obs, VL(VN(int64(nc)), VN(int64(cnt)), VZ(now), VZ(tmp)))
		} else {
			obs = append(obs, VL(VN(int64(nc)), VN(int64(cnt)), VS("none"), VS("none")))
		}
	}
	for _, p := range all {
		if p.CliSess != nil {
			p.CliSess.Close()
		}
	}
	// the remaining sessions' disconnect hooks must be over before the next case starts
	hooks += int64(len(live))
	endWait := quiesce
	if broken {
		endWait = 300 * time.Millisecond
	}
	if !WaitUntil(endWait, func() bool { return atomic.LoadInt64(&tail.disc) >= hooks && srv.CountSession() == 0 }) && !broken {
		fail("no-quiescence", "disconnect hooks missing after closing every connection")
	}
	if vc := ol.VerifConn(); vc != nil && (vc.Now() != 0 || vc.Tmp() != 0) {
		fail("slot-accounting", fmt.Sprintf("every connection closed but limiter now=%d tmp=%d", vc.Now(), vc.Tmp()))
	}
	w.Add(VL(VS("live"), VN(int64(lim)), VL(evs...)), VL(obs...))
	return fmt.Sprintf("live lim=%d %s", lim, strings.Join(human, " "))
}

func b2i(b bool) int32 {
	if b {
		return 1
	}
	return 0
}

// the known finding is reported once per history and at most ten times per run, so that it
// cannot crowd other failures out of the (bounded) failure list
var leakReports int

// dial side: the overloader sits in the dialing peer.
func caseDial(cfg *RunCfg, st *Stats, w *CaseWriter, idx int) string {
	r := cfg.Rng
	lim := int32(1 + r.Intn(3))
	ol := overloader.New(overloader.LimitConfig{MaxConn: lim, QPSInterval: time.Second})
	pre := &verdictPlugin{name: "pre"}
	post := &verdictPlugin{name: "post"}
	tail := &tailPlugin{}
	redial := r.Intn(3) == 0
	ccfg := erpc.PeerConfig{}
	if redial {
		ccfg = erpc.PeerConfig{RedialTimes: 2, RedialInterval: 5 * time.Millisecond}
	}
	cli := erpc.NewPeer(ccfg, pre, ol, post, tail)
	srv := erpc.NewPeer(erpc.PeerConfig{})
	srv.RouteCall(new(H))
	lis, err := Listen(srv, "")
	Must(err)
	defer lis.Close()
	defer srv.Close()
	defer cli.Close()
	vc := ol.VerifConn()
	var live []erpc.Session
	var evs, obs, human []string
	hooks := int64(0)
	leaked := 0
	leakReported := false
	n := 5 + r.Intn(8)
	fail := func(key, what string) { st.Fail(idx, key, what, strings.Join(human, " ")) }
	for k := 0; k < n; k++ {
		before := len(live) + leaked
		switch x := r.Intn(10); {
		case x < 6:
			e := r.Intn(5) != 0
			l := r.Intn(6) != 0
			atomic.StoreInt32(&pre.reject, b2i(!e))
			atomic.StoreInt32(&post.reject, b2i(!l))
			s, stat := cli.Dial(lis.Addr)
			atomic.StoreInt32(&pre.reject, 0)
			atomic.StoreInt32(&post.reject, 0)
			if stat.OK() {
				live = append(live, s)
				if !e || !l {
					fail("refused-admitted", "a dial refused by another plugin became a session")
				}
				if int32(before+1) > lim {
					fail("over-admission", fmt.Sprintf("dial admitted as number %d with limit %d", before+1, lim))
				}
			} else if e && l && int32(before) < lim {
				fail("spurious-reject", fmt.Sprintf("dial refused with %d slots in use and limit %d", before, lim))
			}
			if e && !l && int32(before) < lim {
				leaked++ // the model's LLeaked: no hook returns this slot
			}
			evs = append(evs, VL(VS("dial"), VBool(e), VBool(l)))
			human = append(human, fmt.Sprintf("dial(earlier=%v,later=%v)->%v", e, l, stat.OK()))
		case x < 8 && redial:
			// the server cuts every connection: each live session redials (PostDial with
			// isRedial = true) and keeps its slot
			lis.KillConns()
			ok := WaitUntil(quiesce, func() bool {
				for _, s := range live {
					var rr string
					if !s.Call("/h/b", "x", &rr).Status().OK() {
						return false
					}
				}
				return true
			})
			if !ok {
				fail("redial-lost", "a live session did not come back after the server cut the connection")
			}
			evs = append(evs, VS("redial"))
			human = append(human, "redial")
		default:
			if len(live) > 0 {
				s := live[0]
				live = live[1:]
				hooks++
				s.Close()
			}
			evs = append(evs, VS("close"))
			human = append(human, "close")
		}
		if !WaitUntil(quiesce, func() bool { return atomic.LoadInt64(&tail.disc) >= hooks }) {
			fail("no-quiescence", "disconnect hook missing on the dial side")
		}
		countCallable := func() int {
			c := 0
			for _, s := range live {
				var rr string
				if s.Call("/h/b", "x", &rr).Status().OK() {
					c++
				}
			}
			return c
		}
		nc := countCallable()
		if redial && nc != len(live) {
			// a session that is redialing fails calls for a moment; what is observed is whether
			// every live session completes a call once the redials have settled
			WaitUntil(quiesce, func() bool { nc = countCallable(); return nc == len(live) })
		}
		// CountSession of a dialing peer is not observed: after a redial the session is indexed
		// under its new local address as well (session-index exactness is property C07)
		now, tmp, cnt := int64(vc.Now()), int64(vc.Tmp()), nc
		if nc != len(live) {
			fail("callable-mismatch", fmt.Sprintf("%d dialed sessions but %d complete a call", len(live), nc))
		}
		if now != int64(len(live)) || tmp != int64(len(live)) {
			// a dial refused by a LATER plugin never gets a disconnect hook (peer.go Dial): its
			// slot stays taken. Exactly that class has its own key.
			if leaked > 0 && now == int64(len(live)+leaked) && tmp == now {
				if leakReported || leakReports >= 10 {
					goto recorded
				}
				leakReported = true
				leakReports++
				fail("dial-later-reject-keeps-slot", fmt.Sprintf("limiter now=%d with %d sessions: %d dial(s) refused by a later plugin kept their slot", now, len(live), leaked))
			} else {
				fail("slot-accounting", fmt.Sprintf("dial side: limiter now=%d tmp=%d with %d sessions (%d known leaked)", now, tmp, len(live), leaked))
			}
		}
	recorded:
		obs = append(obs, VL(VN(int64(nc)), VN(int64(cnt)), VZ(now), VZ(tmp)))
	}
	for _, s := range live {
		s.Close()
	}
	hooks += int64(len(live))
	if !WaitUntil(quiesce, func() bool { return atomic.LoadInt64(&tail.disc) >= hooks }) {
		fail("no-quiescence", "disconnect hooks missing after closing every dialed session")
	}
	lis.KillConns()
	w.Add(VL(VS("dial"), VN(int64(lim)), VL(evs...)), VL(obs...))
	return fmt.Sprintf("dial lim=%d %s", lim, strings.Join(human, " "))
}

// ---------------------------------------------------------------- live rate limit

var handleEnter int64

func caseQLive(cfg *RunCfg, st *Stats, w *CaseWriter, idx int) string {
	r := cfg.Rng
	total := int32(r.Intn(7)) // 0 = no total limit
	hand := int32(r.Intn(4))  // 0 = no handler limit
	if total == 0 && hand == 0 {
		total = 3
	}
	iv := intervals[r.Intn(len(intervals))]
	lc := overloader.LimitConfig{QPSInterval: time.Duration(iv), MaxTotalQPS: total}
	if hand > 0 {
		lc.MaxHandlerQPS = []overloader.HandlerLimit{{ServiceMethod: "/h/a", MaxQPS: hand}}
	}
	ol := overloader.New(lc)
	tq := ol.VerifTotalQPS()
	hq := ol.VerifHandlerQPS("/h/a")
	tail := &tailPlugin{}
	srv := erpc.NewPeer(erpc.PeerConfig{}, ol, tail)
	srv.RouteCall(new(H))
	srv.RoutePush(new(P))
	cli := erpc.NewPeer(erpc.PeerConfig{})
	defer srv.Close()
	defer cli.Close()
	p := ServePair(srv, cli)
	if p.SrvSess == nil || p.CliSess == nil {
		st.Fail(idx, "setup", "could not create the session", "")
		return "qlive setup failed"
	}
	defer p.CliSess.Close()
	tokStr := func(q *overloader.VerifQPS) string {
		if q == nil {
			return VS("none")
		}
		return VZ(int64(q.Tokens()))
	}
	has := func(q *overloader.VerifQPS) bool { return q == nil || q.Tokens() > 0 }
	var evs, obs, human []string
	n := 6 + r.Intn(16)
	admitted, admittedA := int64(0), int64(0)
	budget, budgetA := int64(total), int64(hand)
	capT, capH := total, hand // largest capacity configured since the bucket instance exists
	total0, hand0, iv0 := total, hand, iv
	fail := func(key, what string) { st.Fail(idx, key, what, strings.Join(human, " ")) }
	sameQPS := func(a, b *overloader.VerifQPS) bool { return a != nil && b != nil && *a == *b }
loop:
	for k := 0; k < n; k++ {
		switch x := r.Intn(12); {
		case x >= 10:
			// Overloader.Update while the session is live: total limit and handler limit raised,
			// lowered, removed (0) or re-created, interval kept or changed.  An interval change
			// restarts the limiter's ticker; it is stopped again as soon as Update has returned
			// (the new interval is >= 500 ms; a history whose Update took longer than 200 ms is cut).
			nt, nh, niv := int32(r.Intn(7)), int32(r.Intn(4)), iv
			if r.Intn(2) == 0 {
				niv = []int64{int64(500 * time.Millisecond), int64(time.Second)}[r.Intn(2)]
			}
			nlc := overloader.LimitConfig{QPSInterval: time.Duration(niv), MaxTotalQPS: nt}
			if nh > 0 {
				nlc.MaxHandlerQPS = []overloader.HandlerLimit{{ServiceMethod: "/h/a", MaxQPS: nh}}
			}
			var tokT, tokH int32
			if tq != nil {
				tokT = tq.Tokens()
			}
			if hq != nil {
				tokH = hq.Tokens()
			}
			t0 := time.Now()
			ol.Update(nlc)
			ntq, nhq := ol.VerifTotalQPS(), ol.VerifHandlerQPS("/h/a")
			if time.Since(t0) > 200*time.Millisecond {
				st.Count("qlive:update-too-slow-history-cut")
				break loop
			}
			human = append(human, fmt.Sprintf("upd(total=%d,handler=%d,interval=%dms)", nt, nh, niv/1e6))
			// a limiter that existed and still has a limit keeps its bucket: a bucket replaced by a
			// fresh (full) one hands tokens out again that no refill tick paid for
			if total > 0 && nt > 0 && !sameQPS(tq, ntq) {
				fail("bucket-bound", fmt.Sprintf("Update(MaxTotalQPS %d -> %d) replaced the total rate limiter by a fresh full bucket", total, nt))
			}
			if hand > 0 && nh > 0 && !sameQPS(hq, nhq) {
				fail("bucket-bound", fmt.Sprintf("Update(handler MaxQPS %d -> %d) replaced the handler's rate limiter by a fresh full bucket", hand, nh))
			}
			if (ntq != nil) != (nt > 0) || (nhq != nil) != (nh > 0) {
				fail("limiter-presence", fmt.Sprintf("Update(total %d, handler %d): total limiter present=%v, handler limiter present=%v", nt, nh, ntq != nil, nhq != nil))
			}
			if ntq != nil && !sameQPS(tq, ntq) {
				admitted, budget, capT = 0, int64(ntq.Tokens()), nt
				if ntq.Tokens() > nt {
					fail("over-capacity", fmt.Sprintf("a new total bucket of capacity %d starts with %d tokens", nt, ntq.Tokens()))
				}
			} else if ntq != nil {
				if ntq.Tokens() > tokT {
					fail("bucket-bound", fmt.Sprintf("Update raised the tokens of the total bucket from %d to %d without a refill tick", tokT, ntq.Tokens()))
				}
				if nt > capT {
					capT = nt
				}
				if ntq.Limit() != nt {
					fail("limit-config", fmt.Sprintf("configured MaxTotalQPS %d, the limiter's limit is %d", nt, ntq.Limit()))
				}
			}
			if nhq != nil && !sameQPS(hq, nhq) {
				admittedA, budgetA, capH = 0, int64(nhq.Tokens()), nh
			} else if nhq != nil {
				if nhq.Tokens() > tokH {
					fail("bucket-bound", fmt.Sprintf("Update raised the tokens of the handler bucket from %d to %d without a refill tick", tokH, nhq.Tokens()))
				}
				if nh > capH {
					capH = nh
				}
				if nhq.Limit() != nh {
					fail("limit-config", fmt.Sprintf("configured handler MaxQPS %d, the limiter's limit is %d", nh, nhq.Limit()))
				}
			}
			tq, hq, total, hand, iv = ntq, nhq, nt, nh, niv
			evs = append(evs, VL(VS("upd"), VN(int64(nt)), VN(int64(nh)), VN(niv)))
			obs = append(obs, VL(VS("upd"), tokStr(tq), tokStr(hq)))
			st.Count("qlive:update-events")
		case x < 6:
			m := "a"
			if r.Intn(2) == 0 {
				m = "b"
			}
			shouldPass := has(tq) && (m == "b" || has(hq))
			ran0 := atomic.LoadInt64(&ranA) + atomic.LoadInt64(&ranB)
			var rr string
			stat := p.CliSess.Call("/h/"+m, "x", &rr).Status()
			ran := atomic.LoadInt64(&ranA) + atomic.LoadInt64(&ranB) - ran0
			var o string
			switch {
			case stat.OK() && ran == 1:
				o = VS("ran")
				admitted++
				if m == "a" {
					admittedA++
				}
			case !stat.OK() && ran == 0:
				o = VL(VS("err"), VZ(int64(stat.Code())))
				if stat.Code() != erpc.CodeInternalServerError || !strings.Contains(stat.Msg(), "qps overload") {
					fail("reject-status", "refused call answered with "+stat.String())
				}
			default:
				o = VS("inconsistent")
				fail("rejected-handled", fmt.Sprintf("call status %s but handler ran %d time(s)", stat.String(), ran))
			}
			if shouldPass != stat.OK() {
				fail("hook-verdict", fmt.Sprintf("call %s: tokens available=%v but status %s", m, shouldPass, stat.String()))
			}
			evs = append(evs, VL(VS("call"), VS(m)))
			obs = append(obs, VL(o, tokStr(tq), tokStr(hq)))
			human = append(human, fmt.Sprintf("call(%s)->%v", m, stat.OK()))
		case x < 8:
			shouldPass := has(tq)
			pushed0 := atomic.LoadInt64(&ranPush)
			hdr0 := atomic.LoadInt64(&tail.pushHdr)
			he0 := atomic.LoadInt64(&handleEnter)
			if s := p.CliSess.Push("/p/b", "x"); !s.OK() {
				fail("setup", "push could not be written: "+s.String())
			}
			// the server has processed the message once its handle() was entered
			if !WaitUntil(quiesce, func() bool { return atomic.LoadInt64(&handleEnter) > he0 }) {
				fail("no-quiescence", "pushed message never reached handle()")
			}
			passed := atomic.LoadInt64(&tail.pushHdr) - hdr0
			if passed == 1 {
				WaitUntil(quiesce, func() bool { return atomic.LoadInt64(&ranPush) > pushed0 })
			} else {
				time.Sleep(2 * time.Millisecond)
			}
			ran := atomic.LoadInt64(&ranPush) - pushed0
			var o string
			switch {
			case passed == 1 && ran == 1:
				o = VS("ran")
				admitted++
			case passed == 0 && ran == 0:
				o = VS("dropped")
			default:
				o = VS("inconsistent")
				fail("rejected-handled", fmt.Sprintf("push: passed the overloader %d time(s), handler ran %d time(s)", passed, ran))
			}
			if shouldPass != (passed == 1) {
				fail("hook-verdict", fmt.Sprintf("push: tokens available=%v but passed=%d", shouldPass, passed))
			}
			evs = append(evs, VL(VS("push"), VS("b")))
			obs = append(obs, VL(o, tokStr(tq), tokStr(hq)))
			human = append(human, fmt.Sprintf("push->%v", passed == 1))
		default:
			if tq != nil {
				budget += int64(tq.Once())
				tq.Tick()
				capT = total // a tick cuts the bucket down to the current limit
			}
			if hq != nil {
				budgetA += int64(hq.Once())
				hq.Tick()
				capH = hand
			}
			evs = append(evs, VS("tick"))
			obs = append(obs, VL(VS("tick"), tokStr(tq), tokStr(hq)))
			human = append(human, "tick")
		}
		if tq != nil && tq.Tokens() > capT {
			fail("over-capacity", fmt.Sprintf("total bucket holds %d tokens, capacity %d", tq.Tokens(), capT))
		}
		if hq != nil && hq.Tokens() > capH {
			fail("over-capacity", fmt.Sprintf("handler bucket holds %d tokens, capacity %d", hq.Tokens(), capH))
		}
		if tq != nil && admitted > budget {
			fail("bucket-bound", fmt.Sprintf("%d calls/pushes admitted, capacity + refills = %d", admitted, budget))
		}
		if hq != nil && admittedA > budgetA {
			fail("bucket-bound", fmt.Sprintf("%d calls of /h/a admitted, handler capacity + refills = %d", admittedA, budgetA))
		}
	}
	w.Add(VL(VS("qlive"), VN(int64(total0)), VN(int64(hand0)), VN(iv0), VL(evs...)), VL(obs...))
	return fmt.Sprintf("qlive total=%d handler=%d interval=%dms %s", total0, hand0, iv0/1e6, strings.Join(human, " "))
}

// ---------------------------------------------------------------- wall clock
// The real plugin with its real tickers: after a sequence of Update calls (limit and interval
// changes in both directions) the bucket is drained and calls arrive without pause for a
// measured window.  Oracle = the property's bound for that window, violated only above twice
// the bound (scheduling jitter must never raise an alarm); and the number of updateToken calls
// seen at the gate in the window against the one refill source the configuration allows.

var wallTicks int64

func settleGoroutines() int {
	prev := runtime.NumGoroutine()
	for i := 0; i < 60; i++ {
		time.Sleep(30 * time.Millisecond)
		n := runtime.NumGoroutine()
		if n == prev {
			return n
		}
		prev = n
	}
	return prev
}

func caseWall(cfg *RunCfg, st *Stats, w *CaseWriter, idx int, forced bool) string {
	r := cfg.Rng
	ivs := []time.Duration{10 * time.Millisecond, 20 * time.Millisecond, 50 * time.Millisecond, 100 * time.Millisecond, 200 * time.Millisecond}
	maxq := int32([]int{50, 100, 200}[r.Intn(3)])
	iv := ivs[r.Intn(len(ivs))]
	type upd struct {
		m  int32
		iv time.Duration
	}
	var us []upd
	if forced {
		maxq, iv = 100, 10*time.Millisecond
		us = []upd{{100, 100 * time.Millisecond}}
	} else {
		for k, n := 0, 1+r.Intn(3); k < n; k++ {
			u := upd{maxq, iv}
			if len(us) > 0 {
				u = us[len(us)-1]
			}
			if r.Intn(3) == 0 {
				u.m = int32([]int{50, 100, 200}[r.Intn(3)])
			}
			if r.Intn(4) != 0 {
				for prev := u.iv; u.iv == prev; {
					u.iv = ivs[r.Intn(len(ivs))]
				}
			}
			us = append(us, u)
		}
	}
	ol := overloader.New(overloader.LimitConfig{MaxTotalQPS: maxq, QPSInterval: iv})
	srv := erpc.NewPeer(erpc.PeerConfig{}, ol)
	srv.RouteCall(new(H))
	defer srv.Close()
	const nsess = 4
	var pairs []*Pair
	for i := 0; i < nsess; i++ {
		c := erpc.NewPeer(erpc.PeerConfig{})
		defer c.Close()
		p := ServePair(srv, c)
		if p.SrvSess == nil || p.CliSess == nil {
			st.Fail(idx, "setup", "wall: could not create the sessions", "")
			return "wall setup failed"
		}
		pairs = append(pairs, p)
	}
	human := fmt.Sprintf("wall max=%d interval=%v", maxq, iv)
	var uv []string
	g0 := settleGoroutines()
	curM, curIv := maxq, iv
	for _, u := range us {
		ol.Update(overloader.LimitConfig{MaxTotalQPS: u.m, QPSInterval: u.iv})
		curM, curIv = u.m, u.iv
		uv = append(uv, VL(VN(int64(u.m)), VN(int64(u.iv))))
		human += fmt.Sprintf(" upd(%d,%v)", u.m, u.iv)
		time.Sleep(30 * time.Millisecond)
	}
	added := runtime.NumGoroutine() - g0
	once := int64(curM) / int64(time.Second/curIv)
	if once == 0 {
		once = 1
	}
	call := func(p *Pair) bool {
		var rr string
		return p.CliSess.Call("/h/b", "x", &rr).Status().OK()
	}
	// drain
	for miss, end := 0, time.Now().Add(500*time.Millisecond); miss < 20 && time.Now().Before(end); {
		if call(pairs[0]) {
			miss = 0
		} else {
			miss++
		}
	}
	const window = time.Second
	var admitted int64
	atomic.StoreInt64(&wallTicks, 0)
	start := time.Now()
	var wg sync.WaitGroup
	for _, p := range pairs {
		wg.Add(1)
		go func(p *Pair) {
			defer wg.Done()
			for time.Since(start) < window {
				if call(p) {
					atomic.AddInt64(&admitted, 1)
				}
			}
		}(p)
	}
	wg.Wait()
	elapsed := time.Since(start)
	ticks := atomic.LoadInt64(&wallTicks)
	allowedTicks := int64(elapsed/curIv) + 1
	bound := int64(curM) + once*allowedTicks + allowedTicks
	human += fmt.Sprintf(" -> %d admitted in %v (bound %d), %d refills (one source: <= %d), %d goroutines left behind", admitted, elapsed.Round(time.Millisecond), bound, ticks, allowedTicks, added)
	if admitted > 2*bound {
		st.Fail(idx, "wall-rate", fmt.Sprintf("%d calls admitted in %v; capacity %d + refill %d x %d ticks + one per tick = %d (alarm threshold twice that)", admitted, elapsed, curM, once, allowedTicks, bound), human)
	}
	sources := int64(1)
	if ticks > 2*allowedTicks+2 {
		sources = (ticks + allowedTicks - 1) / allowedTicks
		st.Fail(idx, "extra-refill-source", fmt.Sprintf("updateToken ran %d times in %v; the configured interval %v allows %d (alarm threshold twice that + 2)", ticks, elapsed, curIv, allowedTicks), human)
	}
	if q := ol.VerifTotalQPS(); q != nil { // stops the ticker
		_ = q
	}
	for _, p := range pairs {
		p.CliSess.Close()
	}
	w.Add(VL(VS("wall"), VN(int64(maxq)), VN(int64(iv)), VL(uv...)), VL(VZ(int64(added)), VN(sources)))
	return human
}

// ---------------------------------------------------------------- main

func main() {
	cfg := ParseFlags()
	Quiet()
	overloader.VerifSetGate(gateFn)
	erpc.VerifSetGate(func(point string, s erpc.Session) {
		if point == "handle.enter" {
			atomic.AddInt64(&handleEnter, 1)
		}
	})
	st := NewStats("C18", cfg)
	st.Rule = "histories drawn from 9 kinds: cseq/qseq = random op sequences on the limiter handles; cconc/qconc = random forced interleavings of 2-4 goroutines parked at the gate points (plus the lost-update schedule of the refuted theorem); live = accept / refuse-by-earlier-plugin / refuse-by-limit / refuse-by-later-plugin / concurrent batch / close (client or server side) / limit update incl. limiter off and on again (fresh limiter instance) / duplicate disconnect on a real peer, a third of the server-side conns report an error from Close; dial = the same with the plugin in the dialing peer; ulive / udial = Update-centred histories on the accept / dial side: fill, then Overloader.Update events (limit raised, lowered, removed = MaxConn <= 0, re-created; three quarters of them remove and re-create the limiter) while the sessions live, then the old sessions end, then limit+1 new connections, a handle kept on every limiter instance; qlive = calls, pushes, harness-driven ticks and Overloader.Update events (total / handler limit raised, lowered, removed, re-created, interval changed) through a live session; wall = 2 (thorough 8) wall-clock runs of the real plugin with real tickers after limit/interval updates, 1 s of sustained calls. distinct by kind + event string; non-trivial = at least one refusal or one interleaved step"
	w := NewCaseWriter(cfg)
	distinct := DistinctSet{}
	for i := 0; i < cfg.N; i++ {
		var desc, sig string
		k := cfg.Rng.Intn(100)
		switch {
		case i == 0:
			desc, sig = caseQConc(cfg, st, w, i, true)
			st.Count("kind:qconc-lostupdate")
		case k < 12:
			desc = caseCSeq(cfg, st, w, i)
			st.Count("kind:cseq")
		case k < 30:
			desc, sig = caseCConc(cfg, st, w, i)
			st.Count("kind:cconc")
		case k < 40:
			desc = caseQSeq(cfg, st, w, i)
			st.Count("kind:qseq")
		case k < 56:
			desc, sig = caseQConc(cfg, st, w, i, false)
			st.Count("kind:qconc")
		case k < 68:
			desc = caseLive(cfg, st, w, i)
			st.Count("kind:live")
		case k < 74:
			desc = caseDial(cfg, st, w, i)
			st.Count("kind:dial")
		case k < 86:
			desc = caseUpd(cfg, st, w, i, false)
			st.Count("kind:ulive")
		case k < 92:
			desc = caseUpd(cfg, st, w, i, true)
			st.Count("kind:udial")
		default:
			desc = caseQLive(cfg, st, w, i)
			st.Count("kind:qlive")
		}
		if strings.Contains(desc, "->false") || strings.Contains(sig, "s") {
			distinct.Add(desc + sig)
		}
		if len(st.Samples) < 8 {
			st.Samples = append(st.Samples, desc)
		}
	}
	// wall-clock sub-run, last: its tickers are real and must not fire into a coroutine schedule
	overloader.VerifSetGate(func(point string) {
		if point == "qps.update.loaded" {
			atomic.AddInt64(&wallTicks, 1)
		}
	})
	nwall := 2
	if cfg.Tier == "thorough" {
		nwall = 8
	}
	for k := 0; k < nwall; k++ {
		desc := caseWall(cfg, st, w, cfg.N+k, k == 0)
		st.Count("kind:wall")
		distinct.Add(desc)
		st.Samples = append(st.Samples, desc)
	}
	st.Evaluations = cfg.N + nwall
	st.DistinctNontrivial = len(distinct)
	st.Write(cfg, w)
}
