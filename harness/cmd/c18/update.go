// Update-centred live histories: Overloader.Update (limit raised, lowered, removed = MaxConn
// <= 0, re-created) is an event of the history like connect and close.  Every history has the
// shape  fill - updates while the sessions live - old sessions end - probe with limit+1 new
// connections, so that a limiter replaced between a session's admission and its end is the
// rule, not a rare accident of the random walk of caseLive.  Accept side (plugin in the
// serving peer) and dial side (plugin in the dialing peer) share the driver.
//
// The harness keeps a handle on EVERY limiter instance the plugin ever had (the handles are
// compared by the pointer they wrap) and evaluates, at quiescence after every event and on
// the implementation's own observations: each instance's now/tmp = the live sessions admitted
// through it (current AND replaced instances), never more than the limit admitted through an
// instance, a limiter present exactly when MaxConn > 0 and replaced exactly when it was
// removed in between, its limit = the configured MaxConn.
package main

import (
	"fmt"
	"strings"
	"sync"
	"sync/atomic"
	"time"

	. "verifharness/hlib"

	erpc "github.com/henrylee2cn/erpc/v6"
	"github.com/henrylee2cn/erpc/v6/plugin/overloader"
)

type usess struct {
	pair *Pair        // accept side
	sess erpc.Session // dial side
	gen  int          // limiter instance the session was admitted through (-1: none existed)
}

func (u *usess) callable() bool {
	var rr string
	if u.pair != nil {
		return u.pair.CliSess != nil && u.pair.CliSess.Call("/h/b", "x", &rr).Status().OK()
	}
	return u.sess.Call("/h/b", "x", &rr).Status().OK()
}

func sameConnLimiter(a, b *overloader.VerifConn) bool { return *a == *b }

// the known finding limiter-recreated-forgets-sessions is reported once per history and at most
// ten times per run, so that it cannot crowd other failures out of the (bounded) failure list
var forgetReports int

func caseUpd(cfg *RunCfg, st *Stats, w *CaseWriter, idx int, dialSide bool) string {
	r := cfg.Rng
	kind := "ulive"
	if dialSide {
		kind = "udial"
	}
	lim := int32(1 + r.Intn(3))
	if r.Intn(8) == 0 {
		lim = 0 // the plugin starts without a connection limit
	}
	ol := overloader.New(overloader.LimitConfig{MaxConn: lim, QPSInterval: time.Second})
	pre := &verdictPlugin{name: "pre"}
	post := &verdictPlugin{name: "post"}
	tail := &tailPlugin{}
	var srv, cli erpc.Peer
	var lis *Listener
	redial := false
	var clis []erpc.Peer
	if dialSide {
		redial = r.Intn(3) == 0
		ccfg := erpc.PeerConfig{}
		if redial {
			ccfg = erpc.PeerConfig{RedialTimes: 2, RedialInterval: 5 * time.Millisecond}
		}
		cli = erpc.NewPeer(ccfg, pre, ol, post, tail)
		srv = erpc.NewPeer(erpc.PeerConfig{})
		srv.RouteCall(new(H))
		var err error
		lis, err = Listen(srv, "")
		Must(err)
		defer lis.Close()
		defer srv.Close()
		defer cli.Close()
	} else {
		pre.seen = map[string]interface{}{}
		srv = erpc.NewPeer(erpc.PeerConfig{}, pre, ol, post, tail)
		srv.RouteCall(new(H))
		defer srv.Close()
		defer func() {
			for _, c := range clis {
				c.Close()
			}
		}()
	}
	newCli := func() erpc.Peer {
		c := erpc.NewPeer(erpc.PeerConfig{})
		clis = append(clis, c)
		return c
	}

	var live []*usess
	var done []interface{}
	var allPairs []*Pair
	var evs, obs, human []string
	hooks := int64(0)
	broken := false
	fail := func(key, what string) { st.Fail(idx, key, what, kind+" "+strings.Join(human, " ")) }

	// expected (what updateConnLimiter is specified to do) ...
	gen, gens := -1, 0
	curLim := lim
	if lim > 0 {
		gen, gens = 0, 1
	}
	// ... and observed: every limiter instance the plugin ever showed
	var insts []*overloader.VerifConn
	curInst := -1
	observeLimiter := func() {
		vc := ol.VerifConn()
		if vc == nil {
			curInst = -1
			return
		}
		for j, h := range insts {
			if sameConnLimiter(h, vc) {
				curInst = j
				return
			}
		}
		insts = append(insts, vc)
		curInst = len(insts) - 1
	}
	identityOK := func() bool { return len(insts) == gens && curInst == gen }
	checkIdentity := func(after string) {
		if (curInst < 0) != (gen < 0) {
			fail("limiter-presence", fmt.Sprintf("after %s: MaxConn=%d but limiter present=%v", after, curLim, curInst >= 0))
		} else if !identityOK() {
			fail("limiter-identity", fmt.Sprintf("after %s: the plugin has shown %d limiter instances (current: #%d), the sequence of updates builds %d (current: #%d): a limiter was replaced although the limit was not removed, or a removed one came back", after, len(insts), curInst, gens, gen))
		}
	}
	observeLimiter()
	checkIdentity("New")

	liveOf := func(g int) int {
		c := 0
		for _, u := range live {
			if u.gen == g {
				c++
			}
		}
		return c
	}
	emit := func(ev, h string) {
		evs = append(evs, ev)
		human = append(human, h)
	}

	// ---- operations ----
	// Known finding, exactly this class: a connection is admitted although MaxConn or more sessions
	// are alive, the current limiter instance is within its own limit, and that instance was
	// RE-CREATED after a removal (Update(MaxConn <= 0), then > 0): every session in excess was
	// admitted before that re-creation (through an earlier instance or while none existed) and
	// the fresh instance, built from zero, does not count it.  Anything else keeps its key:
	// more than the limit through ONE instance is over-admission, also after a plain raise /
	// lower (which never builds a new instance, gens stays 1).
	forgetReported := false
	forgotten := func(admittedNow, liveBefore, throughCurBefore int) {
		total := liveBefore + admittedNow
		if gen < 0 || int32(total) <= curLim || int32(throughCurBefore+admittedNow) > curLim {
			return
		}
		if gens <= 1 {
			// the only limiter the plugin ever had was created while sessions admitted without any
			// limit were alive (plugin started with MaxConn 0): not the recorded class
			st.Count(kind + ":more-sessions-than-MaxConn-limit-first-set-under-live-sessions")
			return
		}
		st.Count(kind + ":more-sessions-than-MaxConn-after-limiter-recreated")
		if forgetReported || forgetReports >= 10 {
			return
		}
		forgetReported = true
		forgetReports++
		fail("limiter-recreated-forgets-sessions", fmt.Sprintf("%d connection(s) admitted with %d sessions alive and MaxConn %d: limiter instance #%d was re-created after a removal and counts only the %d admitted through it, not the %d admitted before", admittedNow, liveBefore, curLim, gen, throughCurBefore, liveBefore-throughCurBefore))
	}
	connOracle := func(admitted, e, l bool, before int) {
		if admitted {
			if !e || !l {
				fail("refused-admitted", "a connection refused by another plugin became a session")
			}
			if gen >= 0 && int32(before+1) > curLim {
				fail("over-admission", fmt.Sprintf("connection admitted as number %d of limiter instance #%d whose limit is %d (%d sessions alive in all)", before+1, gen, curLim, len(live)))
			}
			forgotten(1, len(live), before)
		} else if e && l && (gen < 0 || int32(before) < curLim) {
			fail("spurious-reject", fmt.Sprintf("connection refused with %d admitted through the current limiter and limit %d (0 = none)", before, curLim))
		}
	}
	acceptOne := func(e, l, faulty bool) *usess {
		atomic.StoreInt32(&pre.reject, b2i(!e))
		atomic.StoreInt32(&post.reject, b2i(!l))
		p := servePair(srv, newCli(), faulty)
		atomic.StoreInt32(&pre.reject, 0)
		atomic.StoreInt32(&post.reject, 0)
		allPairs = append(allPairs, p)
		if p.SrvSess != nil {
			return &usess{pair: p, gen: gen}
		}
		hooks++
		if s, ok := pre.seen[p.CliSess.LocalAddr().String()]; ok {
			done = append(done, s)
		}
		if callable(p) {
			fail("rejected-callable", "a refused connection still completes a call")
		}
		return nil
	}
	dialOne := func(e, l bool) *usess {
		atomic.StoreInt32(&pre.reject, b2i(!e))
		atomic.StoreInt32(&post.reject, b2i(!l))
		s, stat := cli.Dial(lis.Addr)
		atomic.StoreInt32(&pre.reject, 0)
		atomic.StoreInt32(&post.reject, 0)
		if stat.OK() {
			return &usess{sess: s, gen: gen}
		}
		return nil
	}
	doConn := func(e, l bool) {
		before := liveOf(gen)
		var u *usess
		faulty := false
		if dialSide {
			u = dialOne(e, l)
		} else {
			faulty = r.Intn(4) == 0
			u = acceptOne(e, l, faulty)
		}
		connOracle(u != nil, e, l, before)
		if u != nil {
			live = append(live, u)
		}
		emit(VL(VS("conn"), VBool(e), VBool(l)), fmt.Sprintf("conn(earlier=%v,later=%v,closefault=%v)->%v", e, l, faulty, u != nil))
	}
	doBatch := func(kk int) {
		before := liveOf(gen)
		liveBefore := len(live)
		ps := make([]*Pair, kk)
		var wg sync.WaitGroup
		for j := range ps {
			wg.Add(1)
			c := newCli()
			f := r.Intn(4) == 0
			go func(j int) { defer wg.Done(); ps[j] = servePair(srv, c, f) }(j)
		}
		wg.Wait()
		got := 0
		for _, p := range ps {
			allPairs = append(allPairs, p)
			if p.SrvSess != nil {
				got++
				live = append(live, &usess{pair: p, gen: gen})
			} else {
				hooks++
				if s, ok := pre.seen[p.CliSess.LocalAddr().String()]; ok {
					done = append(done, s)
				}
			}
		}
		free := int(curLim) - before
		if free < 0 {
			free = 0
		}
		if gen < 0 {
			free = kk
		}
		emit(VL(VS("batch"), VN(int64(kk))), fmt.Sprintf("batch(%d)->%d", kk, got))
		if got > free {
			fail("over-admission", fmt.Sprintf("%d concurrent connections: %d admitted with %d free slots of limiter instance #%d (limit %d)", kk, got, free, gen, curLim))
		} else if got > 0 {
			forgotten(got, liveBefore, before)
		}
		if got < free && got < kk {
			fail("spurious-reject", fmt.Sprintf("%d concurrent connections: only %d admitted with %d free slots", kk, got, free))
		}
	}
	doClose := func(j int) {
		how := "none"
		if j < len(live) {
			u := live[j]
			live = append(live[:j:j], live[j+1:]...)
			hooks++
			switch {
			case dialSide:
				how = "dialer"
				u.sess.Close()
			case r.Intn(2) == 0:
				how = "client"
				u.pair.CliSess.Close()
				done = append(done, u.pair.SrvSess)
			default:
				how = "server"
				u.pair.SrvSess.Close()
				done = append(done, u.pair.SrvSess)
			}
		}
		emit(VL(VS("close"), VN(int64(j))), fmt.Sprintf("close(#%d,%s)", j, how))
	}
	doUpdate := func(nl int32) {
		if nl <= 0 {
			gen = -1
		} else if gen < 0 {
			gen = gens
			gens++
		}
		curLim = nl
		if nl < 0 {
			curLim = 0
		}
		ol.Update(overloader.LimitConfig{MaxConn: nl, QPSInterval: time.Second})
		observeLimiter()
		emit(VL(VS("upd"), VZ(int64(nl))), fmt.Sprintf("upd(%d)", nl))
		checkIdentity(fmt.Sprintf("Update(MaxConn %d)", nl))
	}
	doUpdateKind := func(k string) {
		switch k {
		case "raise":
			doUpdate(curLim + 1 + int32(r.Intn(2)))
		case "lower":
			if curLim > 1 {
				doUpdate(1 + int32(r.Intn(int(curLim-1))))
			} else {
				doUpdate(curLim)
			}
		case "off":
			if r.Intn(4) == 0 {
				doUpdate(-1)
			} else {
				doUpdate(0)
			}
		case "on":
			doUpdate(1 + int32(r.Intn(3)))
		default: // same
			doUpdate(curLim)
		}
	}
	doDup := func() {
		if len(done) > 0 {
			if bs, ok := done[r.Intn(len(done))].(erpc.BaseSession); ok {
				ol.PostDisconnect(bs)
			}
		}
		emit(VS("dup"), fmt.Sprintf("dup(%v)", len(done) > 0))
	}
	doRedial := func() {
		lis.KillConns()
		ok := WaitUntil(quiesce, func() bool {
			for _, u := range live {
				if !u.callable() {
					return false
				}
			}
			return true
		})
		if !ok {
			fail("redial-lost", "a live session did not come back after the server cut the connection")
		}
		emit(VS("redial"), "redial")
	}

	// ---- observation at quiescence after every event ----
	observe := func() {
		qw := quiesce
		if quiesceFailures >= 3 {
			qw = time.Second
		}
		if !WaitUntil(qw, func() bool {
			return atomic.LoadInt64(&tail.disc) >= hooks && (dialSide || srv.CountSession() <= len(live))
		}) {
			quiesceFailures++
			fail("no-quiescence", fmt.Sprintf("disconnect hooks seen %d, expected %d, live %d", atomic.LoadInt64(&tail.disc), hooks, len(live)))
			hooks = atomic.LoadInt64(&tail.disc)
			broken = true
		}
		countCallable := func() int {
			c := 0
			for _, u := range live {
				if u.callable() {
					c++
				}
			}
			return c
		}
		nc := countCallable()
		if redial && nc != len(live) {
			WaitUntil(quiesce, func() bool { nc = countCallable(); return nc == len(live) })
		}
		cnt := nc
		if !dialSide {
			cnt = srv.CountSession()
			if cnt != len(live) {
				fail("count-session", fmt.Sprintf("CountSession=%d with %d admitted sessions", cnt, len(live)))
			}
		}
		if nc != len(live) {
			fail("callable-mismatch", fmt.Sprintf("%d admitted sessions but %d complete a call", len(live), nc))
		}
		var iv []string
		for j, h := range insts {
			now, tmp, lm := int64(h.Now()), int64(h.Tmp()), int64(h.Limit())
			iv = append(iv, VL(VZ(now), VZ(tmp), VZ(lm)))
			if !identityOK() {
				continue // reported by limiter-identity; the per-instance books cannot be attributed
			}
			role := "replaced"
			if j == curInst {
				role = "current"
				if lm != int64(curLim) {
					fail("limit-config", fmt.Sprintf("configured MaxConn %d, the current limiter's limit is %d", curLim, lm))
				}
			}
			if want := int64(liveOf(j)); now != want || tmp != want {
				fail("slot-accounting", fmt.Sprintf("limiter instance #%d (%s) now=%d tmp=%d with %d live sessions admitted through it (%d alive in all)", j, role, now, tmp, want, len(live)))
			}
		}
		cur := VS("none")
		if curInst >= 0 {
			cur = VN(int64(curInst))
		}
		obs = append(obs, VL(VN(int64(nc)), VN(int64(cnt)), cur, VL(iv...)))
	}
	steps := 0
	step := func(f func()) {
		f()
		observe()
		steps++
	}

	// ---- the plan ----
	pick := func(ws []int, names []string) string {
		t := 0
		for _, x := range ws {
			t += x
		}
		x := r.Intn(t)
		for i, wgt := range ws {
			if x < wgt {
				return names[i]
			}
			x -= wgt
		}
		return names[0]
	}
	midNames := []string{"raise", "lower", "off", "on", "same", "conn", "close", "extra"}
	midW := []int{15, 15, 10, 10, 5, 20, 15, 10}
	var plan []string
	nfill := int(lim) + r.Intn(2)
	if lim == 0 {
		nfill = 1 + r.Intn(3)
	}
	for i := 0; i < nfill; i++ {
		plan = append(plan, "conn")
	}
	m := 2 + r.Intn(4)
	mid := make([]string, m)
	for i := range mid {
		mid[i] = pick(midW, midNames)
	}
	if r.Intn(4) != 0 {
		// the limiter is removed and re-created while the sessions of the fill are alive
		i := r.Intn(m)
		mid[i] = "off"
		if j := i + 1 + r.Intn(m-i); j >= m {
			mid = append(mid, "on")
		} else {
			mid[j] = "on"
		}
		st.Count(kind + ":limiter-removed-and-recreated-under-live-sessions")
	}
	plan = append(plan, mid...)
	plan = append(plan, "drain", "probe")
	for i, n := 0, r.Intn(4); i < n; i++ {
		plan = append(plan, pick(midW, midNames))
	}
	if r.Intn(3) == 0 {
		plan = append(plan, pick([]int{1, 1, 1, 1}, []string{"off", "lower", "raise", "on"}), "drain", "probe")
	}

	for _, op := range plan {
		if steps > 40 {
			break
		}
		switch op {
		case "conn":
			e, l := r.Intn(6) != 0, dialSide || r.Intn(6) != 0 // a dial refused by a LATER plugin keeps its slot: known finding, exercised by caseDial
			step(func() { doConn(e, l) })
		case "close":
			j := 0
			if len(live) > 1 && r.Intn(3) == 0 {
				j = r.Intn(len(live))
			}
			step(func() { doClose(j) })
		case "extra":
			switch {
			case dialSide && redial:
				step(doRedial)
			case !dialSide:
				step(doDup)
			default:
				step(func() { doConn(true, true) })
			}
		case "drain":
			// the sessions admitted before the updates end, oldest first most of the time
			if len(live) == 0 {
				break
			}
			for k, n := 0, 1+r.Intn(len(live)); k < n; k++ {
				j := 0
				if len(live) > 1 && r.Intn(4) == 0 {
					j = r.Intn(len(live))
				}
				step(func() { doClose(j) })
			}
		case "probe":
			// limit+1 (or +2) new connections: exactly the free slots may be admitted
			if gen < 0 && r.Intn(2) == 0 {
				step(func() { doUpdateKind("on") })
			}
			n := 2
			if gen >= 0 {
				n = int(curLim) + 1 + r.Intn(2)
			}
			if n > 6 {
				n = 6
			}
			if !dialSide && r.Intn(3) == 0 {
				step(func() { doBatch(n) })
			} else {
				for k := 0; k < n; k++ {
					step(func() { doConn(true, true) })
				}
			}
		default:
			k := op
			step(func() { doUpdateKind(k) })
		}
	}

	// ---- the end: every session closed, every instance back at zero ----
	for _, u := range live {
		if dialSide {
			u.sess.Close()
		}
	}
	for _, p := range allPairs {
		if p.CliSess != nil {
			p.CliSess.Close()
		}
	}
	hooks += int64(len(live))
	endWait := quiesce
	if broken {
		endWait = 300 * time.Millisecond
	}
	if !WaitUntil(endWait, func() bool {
		return atomic.LoadInt64(&tail.disc) >= hooks && (dialSide || srv.CountSession() == 0)
	}) && !broken {
		fail("no-quiescence", "disconnect hooks missing after closing every connection")
	}
	for j, h := range insts {
		if h.Now() != 0 || h.Tmp() != 0 {
			fail("slot-accounting", fmt.Sprintf("every connection closed but limiter instance #%d has now=%d tmp=%d", j, h.Now(), h.Tmp()))
		}
	}
	if dialSide {
		lis.KillConns()
	}
	w.Add(VL(VS(kind), VZ(int64(lim)), VL(evs...)), VL(obs...))
	return fmt.Sprintf("%s lim=%d %s", kind, lim, strings.Join(human, " "))
}
