// erpcharness drives the real henrylee2cn/erpc implementation (built from /repo with
// -tags verif) on generated inputs and writes, per property, Coq case files holding the
// inputs together with what the implementation did, plus a stats.json.
package main

import (
	"flag"
	"fmt"
	"math/rand"
	"os"
)

var subcommands = map[string]func(cfg *runCfg){}

func main() {
	if len(os.Args) < 2 {
		fmt.Fprintln(os.Stderr, "usage: erpcharness <sub> -seed S -n N -out DIR")
		os.Exit(2)
	}
	sub := os.Args[1]
	fs := flag.NewFlagSet(sub, flag.ExitOnError)
	seed := fs.Int64("seed", 1, "PRNG seed")
	n := fs.Int("n", 100, "number of cases")
	out := fs.String("out", ".", "output directory")
	tier := fs.String("tier", "quick", "quick|thorough")
	fs.Parse(os.Args[2:])
	f, ok := subcommands[sub]
	if !ok {
		fmt.Fprintln(os.Stderr, "unknown sub-command", sub)
		os.Exit(2)
	}
	must(os.MkdirAll(*out, 0o755))
	cfg := &runCfg{seed: *seed, n: *n, out: *out, tier: *tier, rng: rand.New(rand.NewSource(*seed))}
	f(cfg)
}
