package main

import (
	"encoding/hex"
	"encoding/json"
	"fmt"
	"io/ioutil"
	"math/rand"
	"os"
	"path/filepath"
	"sort"
	"strings"
)

// ---- run configuration shared by all sub-commands ----

type runCfg struct {
	seed  int64
	n     int
	out   string
	tier  string
	rng   *rand.Rand
}

// ---- value syntax shared with coq/theories/Base/Val.v ----

func vB(b []byte) string { return "x" + hex.EncodeToString(b) }
func vN(n int64) string  { return fmt.Sprintf("n%d", n) }
func vZ(n int64) string  { return fmt.Sprintf("z%d", n) }
func vS(s string) string { return "s" + s }
func vL(items ...string) string {
	return "(" + strings.Join(items, " ") + ")"
}
func vBool(b bool) string {
	if b {
		return "strue"
	}
	return "sfalse"
}
func vOpt(b []byte, ok bool) string {
	if !ok {
		return "snone"
	}
	return "(ssome " + vB(b) + ")"
}

// ---- case writer: one "(INPUTS OBSERVED)" line per case ----

type caseWriter struct {
	f     *os.File
	total int
}

func newCaseWriter(cfg *runCfg) *caseWriter {
	f, err := os.Create(filepath.Join(cfg.out, "cases.txt"))
	must(err)
	return &caseWriter{f: f}
}

func (w *caseWriter) add(inputs, observed string) {
	_, err := fmt.Fprintf(w.f, "(%s %s)\n", inputs, observed)
	must(err)
	w.total++
}

func (w *caseWriter) close() { must(w.f.Close()) }

// ---- statistics / evidence side file ----

type oracleFailure struct {
	Index int    `json:"index"`
	What  string `json:"what"`
	Case  string `json:"case"`
	Key   string `json:"key"` // stable key matched against known_findings.txt
}

type stats struct {
	Property           string                 `json:"property"`
	Seed               int64                  `json:"seed"`
	Evaluations        int                    `json:"evaluations"`
	DistinctNontrivial int                    `json:"distinct_nontrivial"`
	Rule               string                 `json:"rule"`
	Samples            []string               `json:"samples"`
	Distribution       map[string]int         `json:"distribution"`
	OracleFailures     []oracleFailure        `json:"oracle_failures"`
	Extra              map[string]interface{} `json:"extra,omitempty"`
}

func newStats(prop string, cfg *runCfg) *stats {
	return &stats{Property: prop, Seed: cfg.seed, Distribution: map[string]int{}, OracleFailures: []oracleFailure{}, Samples: []string{}}
}

func (s *stats) count(k string) { s.Distribution[k]++ }

func (s *stats) fail(idx int, key, what, c string) {
	if len(s.OracleFailures) < 200 {
		s.OracleFailures = append(s.OracleFailures, oracleFailure{Index: idx, What: what, Case: c, Key: key})
	}
}

func (s *stats) write(cfg *runCfg, w *caseWriter) {
	if w != nil {
		w.close()
	}
	b, err := json.MarshalIndent(s, "", " ")
	must(err)
	must(ioutil.WriteFile(filepath.Join(cfg.out, "stats.json"), b, 0o644))
}

type distinctSet map[string]struct{}

func (d distinctSet) add(k string) { d[k] = struct{}{} }

func sortedKeys(m map[string]int) []string {
	ks := make([]string, 0, len(m))
	for k := range m {
		ks = append(ks, k)
	}
	sort.Strings(ks)
	return ks
}

func must(err error) {
	if err != nil {
		fmt.Fprintln(os.Stderr, "harness error:", err)
		os.Exit(3)
	}
}

// ---- generators ----

func randBytes(r *rand.Rand, n int) []byte {
	b := make([]byte, n)
	r.Read(b)
	return b
}

func pickLen(r *rand.Rand, choices []int) int { return choices[r.Intn(len(choices))] }

func hx(b []byte) string { return hex.EncodeToString(b) }
