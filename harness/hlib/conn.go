package hlib

import (
	"encoding/binary"
	"io"
	"net"
	"sync"
	"sync/atomic"
	"time"

	erpc "github.com/henrylee2cn/erpc/v6"
)

// ScriptConn is one end of a scripted in-memory duplex connection (ScriptPipe). Each direction
// is an unbounded byte queue. Every Write CALL is recorded (bytes, start order, whether it
// overlapped in time with another Write call on the same conn), and a Write can be made to
// deliver its bytes in two pieces with an arbitrary pause in between (StallNext). The conn
// does NOT serialise concurrent writers: two Write calls that are in progress at the same
// time interleave their pieces in the peer's queue exactly as they arrive. That is how a
// missing write lock in the code under test becomes visible.

// WriteRec is one recorded Write call.
type WriteRec struct {
	Order      uint64 // process-wide start order of the call (shared by all ScriptConns)
	Data       []byte // copy of the bytes handed to Write
	Overlapped bool   // another Write call on the same conn was in progress at the same time
}

var scriptOrder uint64 // the ONE process-wide counter

type scriptAddr string

func (a scriptAddr) Network() string { return "tcp" }
func (a scriptAddr) String() string  { return string(a) }

// scriptQueue carries the bytes of one direction.
type scriptQueue struct {
	mu     sync.Mutex
	cond   *sync.Cond
	buf    []byte
	closed bool // either end was closed: EOF once drained, writes fail
}

func newScriptQueue() *scriptQueue {
	q := &scriptQueue{}
	q.cond = sync.NewCond(&q.mu)
	return q
}

func (q *scriptQueue) put(p []byte) error {
	q.mu.Lock()
	if q.closed {
		q.mu.Unlock()
		return io.ErrClosedPipe
	}
	q.buf = append(q.buf, p...)
	q.cond.Broadcast()
	q.mu.Unlock()
	return nil
}

func (q *scriptQueue) close() {
	q.mu.Lock()
	q.closed = true
	q.cond.Broadcast()
	q.mu.Unlock()
}

// Stall is the handle of one armed two-piece delivery.
type Stall struct {
	conn     *ScriptConn
	k        int
	parked   chan struct{} // closed when a Write is parked in the stall
	release  chan struct{} // closed by Release
	relOnce  sync.Once
	parkOnce sync.Once
	// Intrusions counts the Write calls of OTHER goroutines on the same conn that delivered
	// bytes while a Write was parked here (between the two pieces of the stalled Write).
	intrusions int32
}

// Wait waits until some Write is actually parked in the stall.
func (s *Stall) Wait(timeout time.Duration) bool {
	t := time.NewTimer(timeout)
	defer t.Stop()
	select {
	case <-s.parked:
		return true
	case <-t.C:
		return false
	}
}

// ParkedCh is closed when a Write is parked in the stall.
func (s *Stall) ParkedCh() <-chan struct{} { return s.parked }

// Parked reports whether a Write is (or was) parked in the stall.
func (s *Stall) Parked() bool {
	select {
	case <-s.parked:
		return true
	default:
		return false
	}
}

// Release lets the parked Write deliver the rest of its bytes and return. Releasing a stall
// nobody is parked in disarms it (the next Write is delivered normally). Idempotent.
func (s *Stall) Release() {
	s.relOnce.Do(func() { close(s.release) })
	c := s.conn
	c.mu.Lock()
	if c.armed == s {
		c.armed = nil
	}
	c.mu.Unlock()
}

// Intrusions reports how many foreign Write calls delivered bytes on the conn while a Write
// was parked in this stall.
func (s *Stall) Intrusions() int { return int(atomic.LoadInt32(&s.intrusions)) }

type ScriptConn struct {
	laddr, raddr scriptAddr
	in, out      *scriptQueue // in: bytes for me; out: bytes for the peer
	peer         *ScriptConn
	closed       int32
	done         chan struct{} // closed when either end is closed

	mu         sync.Mutex
	recs       []*WriteRec
	active     []*WriteRec // Write calls in progress
	overlapped int
	armed      *Stall
	stalled    *Stall // a Write is parked in it right now
	intrusions int
	delay      time.Duration
	doneOnce   *sync.Once
}

// ScriptPipe returns the two ends of a scripted in-memory connection. a.LocalAddr() and
// b.RemoteAddr() print as nameA; b.LocalAddr() and a.RemoteAddr() print as nameB.
func ScriptPipe(nameA, nameB string) (a, b *ScriptConn) {
	ab, ba := newScriptQueue(), newScriptQueue()
	done := make(chan struct{})
	once := &sync.Once{}
	a = &ScriptConn{laddr: scriptAddr(nameA), raddr: scriptAddr(nameB), in: ba, out: ab, done: done, doneOnce: once}
	b = &ScriptConn{laddr: scriptAddr(nameB), raddr: scriptAddr(nameA), in: ab, out: ba, done: done, doneOnce: once}
	a.peer, b.peer = b, a
	return a, b
}

// Read blocks until bytes are available or the pipe is closed (io.EOF once drained).
func (c *ScriptConn) Read(p []byte) (int, error) {
	if len(p) == 0 {
		return 0, nil
	}
	q := c.in
	q.mu.Lock()
	for len(q.buf) == 0 && !q.closed {
		q.cond.Wait()
	}
	if len(q.buf) > 0 {
		n := copy(p, q.buf)
		q.buf = q.buf[n:]
		if len(q.buf) == 0 {
			q.buf = nil
		}
		q.mu.Unlock()
		return n, nil
	}
	q.mu.Unlock()
	return 0, io.EOF
}

// Write records the call and delivers the bytes to the peer's queue, in one piece or, when a
// stall is armed and len(p) > k, in two pieces with a pause in between. No lock is held
// across the call: concurrent Write calls interleave.
func (c *ScriptConn) Write(p []byte) (int, error) {
	if atomic.LoadInt32(&c.closed) == 1 || atomic.LoadInt32(&c.peer.closed) == 1 {
		return 0, io.ErrClosedPipe
	}
	rec := &WriteRec{Data: append([]byte(nil), p...)}
	c.mu.Lock()
	rec.Order = atomic.AddUint64(&scriptOrder, 1)
	if len(c.active) > 0 {
		if !rec.Overlapped {
			rec.Overlapped = true
			c.overlapped++
		}
		for _, o := range c.active {
			if !o.Overlapped {
				o.Overlapped = true
				c.overlapped++
			}
		}
	}
	c.active = append(c.active, rec)
	c.recs = append(c.recs, rec)
	var st *Stall
	if c.armed != nil && len(p) > c.armed.k {
		st = c.armed
		c.armed = nil
		c.stalled = st
	}
	delay := c.delay
	c.mu.Unlock()

	defer func() {
		c.mu.Lock()
		for i, o := range c.active {
			if o == rec {
				c.active = append(c.active[:i], c.active[i+1:]...)
				break
			}
		}
		if st != nil && c.stalled == st {
			c.stalled = nil
		}
		c.mu.Unlock()
	}()

	if delay > 0 {
		time.Sleep(delay)
	}
	if st == nil {
		c.mu.Lock()
		if cur := c.stalled; cur != nil {
			atomic.AddInt32(&cur.intrusions, 1)
			c.intrusions++
		}
		c.mu.Unlock()
		if err := c.out.put(p); err != nil {
			return 0, err
		}
		return len(p), nil
	}
	k := st.k
	if k < 0 {
		k = len(p) / 2
	}
	if err := c.out.put(p[:k]); err != nil {
		st.parkOnce.Do(func() { close(st.parked) })
		return 0, err
	}
	st.parkOnce.Do(func() { close(st.parked) })
	select {
	case <-st.release:
	case <-c.done:
	}
	c.mu.Lock()
	if c.stalled == st {
		c.stalled = nil
	}
	c.mu.Unlock()
	if err := c.out.put(p[k:]); err != nil {
		return k, err
	}
	return len(p), nil
}

// Close closes the pipe: blocked Reads of both ends return (io.EOF after draining), a Write
// parked in a stall continues, further Writes fail with io.ErrClosedPipe.
func (c *ScriptConn) Close() error {
	if !atomic.CompareAndSwapInt32(&c.closed, 0, 1) {
		return nil
	}
	// the queues first: a Write parked in a stall that is woken by done must find the pipe
	// closed (io.ErrClosedPipe), never race a frame through before the queues are shut
	c.in.close()
	c.out.close()
	c.doneOnce.Do(func() { close(c.done) })
	return nil
}

// IsClosed reports whether Close was called on this end.
func (c *ScriptConn) IsClosed() bool { return atomic.LoadInt32(&c.closed) == 1 }

func (c *ScriptConn) LocalAddr() net.Addr                { return c.laddr }
func (c *ScriptConn) RemoteAddr() net.Addr               { return c.raddr }
func (c *ScriptConn) SetDeadline(t time.Time) error      { return nil }
func (c *ScriptConn) SetReadDeadline(t time.Time) error  { return nil }
func (c *ScriptConn) SetWriteDeadline(t time.Time) error { return nil }

// Writes returns the recorded Write calls in the order in which the calls started.
func (c *ScriptConn) Writes() []WriteRec {
	c.mu.Lock()
	defer c.mu.Unlock()
	out := make([]WriteRec, len(c.recs))
	for i, r := range c.recs {
		out[i] = *r
	}
	return out
}

// ResetRecording forgets the recorded Write calls and the overlap / intrusion counters.
func (c *ScriptConn) ResetRecording() {
	c.mu.Lock()
	c.recs = nil
	c.overlapped = 0
	c.intrusions = 0
	c.mu.Unlock()
}

// CountOverlapped reports how many recorded Write calls overlapped with another one.
func (c *ScriptConn) CountOverlapped() int {
	c.mu.Lock()
	defer c.mu.Unlock()
	return c.overlapped
}

// CountIntrusions reports how many Write calls delivered bytes while another Write call of
// this conn was parked in a stall (since the last ResetRecording).
func (c *ScriptConn) CountIntrusions() int {
	c.mu.Lock()
	defer c.mu.Unlock()
	return c.intrusions
}

// Buffered reports how many bytes written by the peer are waiting to be read by this end.
func (c *ScriptConn) Buffered() int {
	c.in.mu.Lock()
	defer c.in.mu.Unlock()
	return len(c.in.buf)
}

// StallNext arms the conn: the NEXT Write call with len(p) > k delivers p[:k] to the peer
// (waking its readers), then blocks until Release, then delivers p[k:] and returns. k < 0
// means half of the write. Other Write calls are not blocked by the conn meanwhile. Arming
// again replaces a stall nobody is parked in yet.
func (c *ScriptConn) StallNext(k int) *Stall {
	st := &Stall{conn: c, k: k, parked: make(chan struct{}), release: make(chan struct{})}
	c.mu.Lock()
	c.armed = st
	c.mu.Unlock()
	return st
}

// DelayDelivery makes every Write call sleep d before it delivers its bytes (0 = off).
func (c *ScriptConn) DelayDelivery(d time.Duration) {
	c.mu.Lock()
	c.delay = d
	c.mu.Unlock()
}

// FrameLenPrefix reads the frame length announced by the first four bytes of p for the given
// protocol: "raw" announces the whole frame including the four bytes; "json" and "pb"
// (proto/jsonproto, proto/pbproto) announce the length of the rest. "One Write per frame"
// holds iff len(p) == want for every recorded Write.
func FrameLenPrefix(kind string, p []byte) (want int, ok bool) {
	if len(p) < 4 {
		return 0, false
	}
	n := int(binary.BigEndian.Uint32(p))
	switch kind {
	case "raw":
		return n, true
	case "json", "pb":
		return n + 4, true
	}
	return 0, false
}

// ServeScriptPair joins two peers like ServePair, over a ScriptPipe: the client session runs
// on endpoint A (local address nameA), the server session on endpoint B (nameB).
func ServeScriptPair(srv, cli erpc.Peer, nameA, nameB string, protoFunc ...erpc.ProtoFunc) (p *Pair, cliConn, srvConn *ScriptConn) {
	cliConn, srvConn = ScriptPipe(nameA, nameB)
	p = &Pair{Srv: srv, Cli: cli}
	var wg sync.WaitGroup
	wg.Add(2)
	go func() { defer wg.Done(); p.SrvSess, p.SrvStat = srv.ServeConn(srvConn, protoFunc...) }()
	go func() { defer wg.Done(); p.CliSess, p.CliStat = cli.ServeConn(cliConn, protoFunc...) }()
	wg.Wait()
	return p, cliConn, srvConn
}
