package hlib

import (
	"errors"
	"io"
	"net"
	"sync"
	"sync/atomic"
	"time"
)

// MemConn is an in-memory duplex net.Conn with exact quiescence signals: the writer can wait
// until the peer has consumed every byte and is blocked in Read (or has closed), so a harness
// needs no sleeps to know that "the input is exhausted".

type memHalf struct {
	mu            sync.Mutex
	cond          *sync.Cond
	buf           []byte
	writerClosed  bool // no more bytes will arrive: EOF after drain
	readerClosed  bool // the reading side closed its conn
	readerBlocked bool
	consumed      int64
	written       int64
	readDeadline  time.Time // zero = none
}

type memTimeout struct{}

func (memTimeout) Error() string   { return "memconn: i/o timeout" }
func (memTimeout) Timeout() bool   { return true }
func (memTimeout) Temporary() bool { return true }

func newHalf() *memHalf { h := &memHalf{}; h.cond = sync.NewCond(&h.mu); return h }

type MemConn struct {
	r, w         *memHalf
	laddr, raddr net.Addr
	closed       int32
}

var memPort int32

// MemPair returns two connected in-memory conns. Their addresses live in 10.0.0.0/8 and are
// unique per pair, so that they can never equal the loopback address of a real TCP session of
// the same peer (a session id defaults to the remote address: in a 20 000-case run the old
// 127.0.0.1:20000+2n numbering reached the ephemeral port of the control session, took over
// its id and thereby closed it - a harness artefact reported as "other-session-broken").
func MemPair() (a, b *MemConn) {
	n := int(atomic.AddInt32(&memPort, 1))
	ip := net.IPv4(10, byte(n>>16), byte(n>>8), byte(n))
	aa := &net.TCPAddr{IP: ip, Port: 2000}
	ba := &net.TCPAddr{IP: ip, Port: 2001}
	x, y := newHalf(), newHalf()
	return &MemConn{r: x, w: y, laddr: aa, raddr: ba}, &MemConn{r: y, w: x, laddr: ba, raddr: aa}
}

func (c *MemConn) Read(p []byte) (int, error) {
	h := c.r
	h.mu.Lock()
	defer h.mu.Unlock()
	for len(h.buf) == 0 && !h.writerClosed && !h.readerClosed {
		if dl := h.readDeadline; !dl.IsZero() {
			left := time.Until(dl)
			if left <= 0 {
				h.readerBlocked = false
				return 0, memTimeout{}
			}
			t := time.AfterFunc(left, func() { h.mu.Lock(); h.cond.Broadcast(); h.mu.Unlock() })
			defer t.Stop()
		}
		h.readerBlocked = true
		h.cond.Broadcast()
		h.cond.Wait()
	}
	h.readerBlocked = false
	if len(h.buf) > 0 {
		n := copy(p, h.buf)
		h.buf = h.buf[n:]
		h.consumed += int64(n)
		h.cond.Broadcast()
		return n, nil
	}
	if h.readerClosed {
		return 0, errors.New("memconn: use of closed connection")
	}
	return 0, io.EOF
}

func (c *MemConn) Write(p []byte) (int, error) {
	h := c.w
	h.mu.Lock()
	defer h.mu.Unlock()
	if h.writerClosed {
		return 0, errors.New("memconn: use of closed connection")
	}
	if h.readerClosed {
		return 0, io.ErrClosedPipe
	}
	h.buf = append(h.buf, p...)
	h.written += int64(len(p))
	h.cond.Broadcast()
	return len(p), nil
}

// Close closes both directions of this end.
func (c *MemConn) Close() error {
	if !atomic.CompareAndSwapInt32(&c.closed, 0, 1) {
		return nil
	}
	c.w.mu.Lock()
	c.w.writerClosed = true
	c.w.cond.Broadcast()
	c.w.mu.Unlock()
	c.r.mu.Lock()
	c.r.readerClosed = true
	c.r.cond.Broadcast()
	c.r.mu.Unlock()
	return nil
}

// CloseWrite ends the stream towards the peer (the peer reads EOF after draining) but keeps
// reading.
func (c *MemConn) CloseWrite() {
	c.w.mu.Lock()
	c.w.writerClosed = true
	c.w.cond.Broadcast()
	c.w.mu.Unlock()
}

func (c *MemConn) LocalAddr() net.Addr                { return c.laddr }
func (c *MemConn) RemoteAddr() net.Addr               { return c.raddr }
func (c *MemConn) SetDeadline(t time.Time) error      { return nil }
func (c *MemConn) SetReadDeadline(t time.Time) error {
	c.r.mu.Lock()
	c.r.readDeadline = t
	c.r.cond.Broadcast()
	c.r.mu.Unlock()
	return nil
}
func (c *MemConn) SetWriteDeadline(t time.Time) error { return nil }

// IsClosed reports whether Close was called on this end.
func (c *MemConn) IsClosed() bool { return atomic.LoadInt32(&c.closed) == 1 }

// PeerState reports, for the bytes THIS end wrote: how many the peer consumed, whether the
// peer is blocked in Read on an empty buffer, and whether the peer closed its end.
func (c *MemConn) PeerState() (consumed, written int64, blocked, peerClosed bool) {
	h := c.w
	h.mu.Lock()
	defer h.mu.Unlock()
	return h.consumed, h.written, h.readerBlocked && len(h.buf) == 0, h.readerClosed
}

// WaitPeerIdle waits until the peer has consumed everything written so far and is blocked in
// Read, or has closed its end. It returns false on timeout.
func (c *MemConn) WaitPeerIdle(timeout time.Duration) bool {
	return WaitUntil(timeout, func() bool {
		_, _, blocked, closed := c.PeerState()
		return blocked || closed
	})
}

// Drain returns (and removes) every byte the peer has written to this end so far.
func (c *MemConn) Drain() []byte {
	h := c.r
	h.mu.Lock()
	defer h.mu.Unlock()
	b := append([]byte(nil), h.buf...)
	h.consumed += int64(len(h.buf))
	h.buf = h.buf[:0]
	h.cond.Broadcast()
	return b
}
