//go:build verif
// +build verif

package hlib

import (
	"runtime"
	"strings"
	"sync"
	"time"

	erpc "github.com/henrylee2cn/erpc/v6"
)

// GateCtl is the schedule controller of DESIGN.md Appendix B. A goroutine of the
// implementation that reaches verifGate(point, sess) calls Arrive; if (point, sess) is
// armed it parks there until the driver releases it. The driver waits for arrivals with
// AwaitArrival (a bounded wait: "did not arrive" is the observable `blocked`).
type GateCtl struct {
	mu      sync.Mutex
	cond    *sync.Cond
	armed   map[gateKey]bool       // park at these
	parked  map[gateKey][]chan struct{} // goroutines parked, FIFO
	arrived map[gateKey]int        // total arrivals (armed or not)
	passed  map[gateKey]int        // total releases + unarmed passes
	log     []string               // arrival order of armed/unarmed points (point names)
	logOn   bool
}

type gateKey struct {
	point string
	sess  erpc.Session // nil = any session
}

// NewGateCtl creates a controller and installs it as the process-wide gate function.
func NewGateCtl() *GateCtl {
	g := &GateCtl{armed: map[gateKey]bool{}, parked: map[gateKey][]chan struct{}{}, arrived: map[gateKey]int{}, passed: map[gateKey]int{}}
	g.cond = sync.NewCond(&g.mu)
	erpc.VerifSetGate(g.arrive)
	return g
}

// Uninstall removes the controller and frees every parked goroutine.
func (g *GateCtl) Uninstall() {
	erpc.VerifSetGate(nil)
	g.mu.Lock()
	g.armed = map[gateKey]bool{}
	for k, chs := range g.parked {
		for _, ch := range chs {
			close(ch)
		}
		delete(g.parked, k)
	}
	g.cond.Broadcast()
	g.mu.Unlock()
}

func (g *GateCtl) arrive(point string, s erpc.Session) {
	g.mu.Lock()
	k := gateKey{point, s}
	ka := gateKey{point, nil}
	g.arrived[k]++
	g.arrived[ka]++
	if g.logOn {
		g.log = append(g.log, point)
	}
	var ch chan struct{}
	if g.armed[k] {
		ch = make(chan struct{})
		g.parked[k] = append(g.parked[k], ch)
	} else if g.armed[ka] {
		ch = make(chan struct{})
		g.parked[ka] = append(g.parked[ka], ch)
	}
	g.cond.Broadcast()
	g.mu.Unlock()
	if ch != nil {
		<-ch
	}
}

// Arm makes goroutines park at (point, sess); sess nil = every session.
func (g *GateCtl) Arm(point string, s erpc.Session) {
	g.mu.Lock()
	g.armed[gateKey{point, s}] = true
	g.mu.Unlock()
}

// Disarm stops parking at (point, sess) and frees whoever is parked there.
func (g *GateCtl) Disarm(point string, s erpc.Session) {
	g.mu.Lock()
	k := gateKey{point, s}
	delete(g.armed, k)
	for _, ch := range g.parked[k] {
		close(ch)
	}
	delete(g.parked, k)
	g.mu.Unlock()
}

// Parked reports how many goroutines are parked at (point, sess).
func (g *GateCtl) Parked(point string, s erpc.Session) int {
	g.mu.Lock()
	defer g.mu.Unlock()
	return len(g.parked[gateKey{point, s}])
}

// Arrivals reports how many times (point, sess) was reached.
func (g *GateCtl) Arrivals(point string, s erpc.Session) int {
	g.mu.Lock()
	defer g.mu.Unlock()
	return g.arrived[gateKey{point, s}]
}

// AwaitParked waits until at least n goroutines are parked at (point, sess).
func (g *GateCtl) AwaitParked(point string, s erpc.Session, n int, timeout time.Duration) bool {
	return WaitUntil(timeout, func() bool { return g.Parked(point, s) >= n })
}

// AwaitArrivals waits until (point, sess) was reached at least n times.
func (g *GateCtl) AwaitArrivals(point string, s erpc.Session, n int, timeout time.Duration) bool {
	return WaitUntil(timeout, func() bool { return g.Arrivals(point, s) >= n })
}

// Release frees the oldest goroutine parked at (point, sess); false if none is parked.
func (g *GateCtl) Release(point string, s erpc.Session) bool {
	g.mu.Lock()
	defer g.mu.Unlock()
	k := gateKey{point, s}
	chs := g.parked[k]
	if len(chs) == 0 {
		return false
	}
	close(chs[0])
	g.parked[k] = chs[1:]
	return true
}

// ReleaseWhenParked waits for a goroutine at the gate (watchdog) and releases it.
func (g *GateCtl) ReleaseWhenParked(point string, s erpc.Session, timeout time.Duration) bool {
	if !g.AwaitParked(point, s, 1, timeout) {
		return false
	}
	return g.Release(point, s)
}

// StartLog / Log record the order in which gate points were reached.
func (g *GateCtl) StartLog() {
	g.mu.Lock()
	g.logOn = true
	g.log = nil
	g.mu.Unlock()
}

func (g *GateCtl) Log() []string {
	g.mu.Lock()
	defer g.mu.Unlock()
	return append([]string(nil), g.log...)
}

// ---- cheap goroutine snapshots (one dump, many questions) ----

var dumpBuf = make([]byte, 1<<20)
var dumpMu sync.Mutex

// GoroutineDump returns the stacks of all goroutines, one string per goroutine.
func GoroutineDump() []string {
	dumpMu.Lock()
	defer dumpMu.Unlock()
	for {
		n := runtime.Stack(dumpBuf, true)
		if n < len(dumpBuf) {
			return strings.Split(string(dumpBuf[:n]), "\n\n")
		}
		dumpBuf = make([]byte, 2*len(dumpBuf))
	}
}

// CountIn counts the goroutines of a dump whose stack mentions every given substring.
func CountIn(dump []string, subs ...string) int {
	cnt := 0
	for _, g := range dump {
		ok := true
		for _, s := range subs {
			if !strings.Contains(g, s) {
				ok = false
				break
			}
		}
		if ok {
			cnt++
		}
	}
	return cnt
}
