// Package hlib holds what every property harness shares: run configuration, the value
// syntax of coq/theories/Base/Val.v, the case writer and the statistics side file.
package hlib

import (
	"encoding/hex"
	"encoding/json"
	"flag"
	"fmt"
	"io/ioutil"
	"math/rand"
	"os"
	"path/filepath"
	"sort"
	"strings"
)

// ---- run configuration shared by all sub-commands ----

type RunCfg struct {
	Seed int64
	N    int
	Out  string
	Tier string
	Rng  *rand.Rand
}

// ---- value syntax shared with coq/theories/Base/Val.v ----

func VB(b []byte) string { return "x" + hex.EncodeToString(b) }
func VN(n int64) string  { return fmt.Sprintf("n%d", n) }
func VZ(n int64) string  { return fmt.Sprintf("z%d", n) }
func VS(s string) string { return "s" + s }
func VL(items ...string) string {
	return "(" + strings.Join(items, " ") + ")"
}
func VBool(b bool) string {
	if b {
		return "strue"
	}
	return "sfalse"
}
func VOpt(b []byte, ok bool) string {
	if !ok {
		return "snone"
	}
	return "(ssome " + VB(b) + ")"
}

// ---- case writer: one "(INPUTS OBSERVED)" line per case ----

type CaseWriter struct {
	f     *os.File
	Total int
}

func NewCaseWriter(cfg *RunCfg) *CaseWriter {
	f, err := os.Create(filepath.Join(cfg.Out, "cases.txt"))
	Must(err)
	return &CaseWriter{f: f}
}

func (w *CaseWriter) Add(inputs, observed string) {
	_, err := fmt.Fprintf(w.f, "(%s %s)\n", inputs, observed)
	Must(err)
	w.Total++
}

func (w *CaseWriter) Close() { Must(w.f.Close()) }

// ---- statistics / evidence side file ----

type OracleFailure struct {
	Index int    `json:"index"`
	What  string `json:"what"`
	Case  string `json:"case"`
	Key   string `json:"key"` // stable key matched against known_findings.txt
}

type Stats struct {
	Property           string                 `json:"property"`
	Seed               int64                  `json:"seed"`
	Evaluations        int                    `json:"evaluations"`
	DistinctNontrivial int                    `json:"distinct_nontrivial"`
	Rule               string                 `json:"rule"`
	Samples            []string               `json:"samples"`
	Distribution       map[string]int         `json:"distribution"`
	OracleFailures     []OracleFailure        `json:"oracle_failures"`
	Extra              map[string]interface{} `json:"extra,omitempty"`
}

func NewStats(prop string, cfg *RunCfg) *Stats {
	return &Stats{Property: prop, Seed: cfg.Seed, Distribution: map[string]int{}, OracleFailures: []OracleFailure{}, Samples: []string{}}
}

func (s *Stats) Count(k string) { s.Distribution[k]++ }

func (s *Stats) Fail(idx int, key, what, c string) {
	if len(s.OracleFailures) < 200 {
		s.OracleFailures = append(s.OracleFailures, OracleFailure{Index: idx, What: what, Case: c, Key: key})
	}
}

func (s *Stats) Write(cfg *RunCfg, w *CaseWriter) {
	if w != nil {
		w.Close()
	}
	b, err := json.MarshalIndent(s, "", " ")
	Must(err)
	Must(ioutil.WriteFile(filepath.Join(cfg.Out, "stats.json"), b, 0o644))
}

type DistinctSet map[string]struct{}

func (d DistinctSet) Add(k string) { d[k] = struct{}{} }

func SortedKeys(m map[string]int) []string {
	ks := make([]string, 0, len(m))
	for k := range m {
		ks = append(ks, k)
	}
	sort.Strings(ks)
	return ks
}

func Must(err error) {
	if err != nil {
		fmt.Fprintln(os.Stderr, "harness error:", err)
		os.Exit(3)
	}
}

// ---- generators ----

func RandBytes(r *rand.Rand, n int) []byte {
	b := make([]byte, n)
	r.Read(b)
	return b
}

func PickLen(r *rand.Rand, choices []int) int { return choices[r.Intn(len(choices))] }

func Hx(b []byte) string { return hex.EncodeToString(b) }

// ParseFlags reads the flags every harness binary accepts.
func ParseFlags() *RunCfg {
	seed := flag.Int64("seed", 1, "PRNG seed")
	n := flag.Int("n", 100, "number of cases")
	out := flag.String("out", ".", "output directory")
	tier := flag.String("tier", "quick", "quick|thorough")
	flag.Parse()
	Must(os.MkdirAll(*out, 0o755))
	return &RunCfg{Seed: *seed, N: *n, Out: *out, Tier: *tier, Rng: rand.New(rand.NewSource(*seed))}
}
