package hlib

import (
	"errors"
	"sync"

	"github.com/henrylee2cn/erpc/v6/xfer"
	"github.com/henrylee2cn/erpc/v6/xfer/gzip"
	"github.com/henrylee2cn/erpc/v6/xfer/md5"
)

// Test transfer filters shared by several harnesses; the same definitions exist in Coq
// (coq/theories/Corr/C12.v: xor_filter, rev_filter, lenp_filter, md5 'm', gzip 'g' by table).

type XorFilter struct{}

func (XorFilter) ID() byte     { return 1 }
func (XorFilter) Name() string { return "vxor" }
func (XorFilter) OnPack(b []byte) ([]byte, error) {
	o := make([]byte, len(b))
	for i, c := range b {
		o[i] = c ^ 90
	}
	return o, nil
}
func (f XorFilter) OnUnpack(b []byte) ([]byte, error) { return f.OnPack(b) }

type RevFilter struct{}

func (RevFilter) ID() byte     { return 2 }
func (RevFilter) Name() string { return "vrev" }
func (RevFilter) OnPack(b []byte) ([]byte, error) {
	o := make([]byte, len(b))
	for i, c := range b {
		o[len(b)-1-i] = c
	}
	return o, nil
}
func (f RevFilter) OnUnpack(b []byte) ([]byte, error) { return f.OnPack(b) }

type LenpFilter struct{}

func (LenpFilter) ID() byte     { return 3 }
func (LenpFilter) Name() string { return "vlenp" }
func (LenpFilter) OnPack(b []byte) ([]byte, error) {
	o := make([]byte, 0, len(b)+1)
	o = append(o, byte(len(b)))
	return append(o, b...), nil
}
func (LenpFilter) OnUnpack(b []byte) ([]byte, error) {
	if len(b) == 0 || b[0] != byte(len(b)-1) {
		return nil, errors.New("lenp mismatch")
	}
	return append([]byte(nil), b[1:]...), nil
}

// GzipRecorder delegates to the repository's gzip filter and records plain->packed pairs.
type GzipRecorder struct {
	real xfer.XferFilter
	mu   sync.Mutex
	Tab  [][2][]byte
}

func (g *GzipRecorder) ID() byte     { return 'g' }
func (g *GzipRecorder) Name() string { return "gzip" }
func (g *GzipRecorder) OnPack(b []byte) ([]byte, error) {
	in := append([]byte(nil), b...)
	o, err := g.real.OnPack(b)
	if err == nil {
		g.mu.Lock()
		g.Tab = append(g.Tab, [2][]byte{in, append([]byte(nil), o...)})
		g.mu.Unlock()
	}
	return o, err
}
func (g *GzipRecorder) OnUnpack(b []byte) ([]byte, error) { return g.real.OnUnpack(b) }

// ResetTab forgets the recorded pairs.
func (g *GzipRecorder) ResetTab() { g.mu.Lock(); g.Tab = g.Tab[:0]; g.mu.Unlock() }

// TabVal renders the recorded table as ((xPLAIN xGZ) ...).
func (g *GzipRecorder) TabVal() string {
	g.mu.Lock()
	defer g.mu.Unlock()
	var items []string
	for _, pr := range g.Tab {
		items = append(items, VL(VB(pr[0]), VB(pr[1])))
	}
	return VL(items...)
}

// GzipRealID is the id under which the repository's own gzip filter is registered; the
// recorder wraps it under id 'g'.
const GzipRealID = 0xF0

var testFiltersOnce sync.Once
var TestGzip *GzipRecorder

// RegTestFilters registers xor(1) rev(2) lenp(3) md5('m') gzip('g', recorded) once.
func RegTestFilters() *GzipRecorder {
	testFiltersOnce.Do(func() {
		xfer.Reg(XorFilter{})
		xfer.Reg(RevFilter{})
		xfer.Reg(LenpFilter{})
		md5.Reg('m', "md5")
		gzip.Reg(GzipRealID, "gzip-real", 5)
		real, err := xfer.Get(GzipRealID)
		Must(err)
		TestGzip = &GzipRecorder{real: real}
		xfer.Reg(TestGzip)
	})
	return TestGzip
}

// KnownFilterID reports whether id is one of the registered test filters.
func KnownFilterID(id byte) bool {
	return id == 1 || id == 2 || id == 3 || id == 'm' || id == 'g'
}
