package hlib

import (
	"fmt"
	"net"
	"runtime"
	"strings"
	"sync"
	"time"

	erpc "github.com/henrylee2cn/erpc/v6"
	"github.com/henrylee2cn/erpc/v6/socket"
)

// Quiet silences the framework logger.
func Quiet() { erpc.SetLoggerLevel("OFF") }

// TCPPair returns the two ends of a loopback TCP connection.
func TCPPair() (client, server net.Conn) {
	lis, err := net.Listen("tcp", "127.0.0.1:0")
	Must(err)
	defer lis.Close()
	var wg sync.WaitGroup
	wg.Add(1)
	go func() {
		defer wg.Done()
		var e error
		server, e = lis.Accept()
		Must(e)
	}()
	client, err = net.Dial("tcp", lis.Addr().String())
	Must(err)
	wg.Wait()
	return client, server
}

// Pair is a client session and a server session joined by one loopback connection,
// both created with Peer.ServeConn (no listener, no redial).
type Pair struct {
	Srv, Cli         erpc.Peer
	SrvSess, CliSess erpc.Session
	SrvStat, CliStat *erpc.Status
}

// ServePair joins two peers. Either session may be nil when an accept hook rejected it.
func ServePair(srv, cli erpc.Peer, protoFunc ...erpc.ProtoFunc) *Pair {
	cc, sc := TCPPair()
	p := &Pair{Srv: srv, Cli: cli}
	var wg sync.WaitGroup
	wg.Add(2)
	go func() { defer wg.Done(); p.SrvSess, p.SrvStat = srv.ServeConn(sc, protoFunc...) }()
	go func() { defer wg.Done(); p.CliSess, p.CliStat = cli.ServeConn(cc, protoFunc...) }()
	wg.Wait()
	return p
}

// Listener runs srv.ServeConn on every accepted connection of a loopback listener, so that
// clients can use Peer.Dial (needed for redial). Close stops accepting; KillConns cuts
// every accepted connection.
type Listener struct {
	Lis   net.Listener
	Addr  string
	mu    sync.Mutex
	conns []net.Conn
	Sess  []erpc.Session
	proto []erpc.ProtoFunc
	srv   erpc.Peer
}

func Listen(srv erpc.Peer, addr string, protoFunc ...erpc.ProtoFunc) (*Listener, error) {
	if addr == "" {
		addr = "127.0.0.1:0"
	}
	lis, err := net.Listen("tcp", addr)
	if err != nil {
		return nil, err
	}
	l := &Listener{Lis: lis, Addr: lis.Addr().String(), srv: srv, proto: protoFunc}
	go func() {
		for {
			c, err := lis.Accept()
			if err != nil {
				return
			}
			l.mu.Lock()
			l.conns = append(l.conns, c)
			l.mu.Unlock()
			go func() {
				s, _ := srv.ServeConn(c, protoFunc...)
				if s != nil {
					l.mu.Lock()
					l.Sess = append(l.Sess, s)
					l.mu.Unlock()
				}
			}()
		}
	}()
	return l, nil
}

func (l *Listener) Close() { l.Lis.Close() }

// KillConns closes every connection accepted so far (server side of the cut).
func (l *Listener) KillConns() {
	l.mu.Lock()
	for _, c := range l.conns {
		c.Close()
	}
	l.conns = nil
	l.mu.Unlock()
}

// RawPeer is a scripted remote peer: it owns the net.Conn and speaks through the real
// socket/proto code when asked to, or writes arbitrary bytes.
type RawPeer struct {
	Conn net.Conn
	Sock socket.Socket
}

func NewRawPeer(c net.Conn, protoFunc ...socket.ProtoFunc) *RawPeer {
	return &RawPeer{Conn: c, Sock: socket.NewSocket(c, protoFunc...)}
}

// Send writes one frame built by the real protocol implementation.
func (r *RawPeer) Send(settings ...socket.MessageSetting) error {
	m := socket.NewMessage(settings...)
	return r.Sock.WriteMessage(m)
}

// Recv reads one frame (body as raw bytes) or fails after the timeout.
func (r *RawPeer) Recv(timeout time.Duration) (socket.Message, error) {
	m := socket.NewMessage(socket.WithNewBody(func(socket.Header) interface{} { return new([]byte) }))
	r.Conn.SetReadDeadline(time.Now().Add(timeout))
	err := r.Sock.ReadMessage(m)
	r.Conn.SetReadDeadline(time.Time{})
	return m, err
}

// StatusTriple renders a status for comparison: code, msg field and cause text taken from
// the wire form (EncodeQuery), which exposes exactly the three stored fields.
func StatusTriple(s *erpc.Status) string {
	if s == nil {
		return "nil"
	}
	return string(s.EncodeQuery())
}

// WaitUntil polls cond until it holds or the timeout expires.
func WaitUntil(timeout time.Duration, cond func() bool) bool {
	end := time.Now().Add(timeout)
	for {
		if cond() {
			return true
		}
		if time.Now().After(end) {
			return false
		}
		time.Sleep(2 * time.Millisecond)
	}
}

// GoroutinesMatching counts goroutines whose stack mentions every given substring.
func GoroutinesMatching(subs ...string) int {
	buf := make([]byte, 1<<22)
	n := runtime.Stack(buf, true)
	cnt := 0
	for _, g := range strings.Split(string(buf[:n]), "\n\n") {
		ok := true
		for _, s := range subs {
			if !strings.Contains(g, s) {
				ok = false
				break
			}
		}
		if ok {
			cnt++
		}
	}
	return cnt
}

// Fmt is fmt.Sprintf (kept here so harness files need fewer imports).
func Fmt(f string, a ...interface{}) string { return fmt.Sprintf(f, a...) }
