// Package c02eng is the engine of the C02 harness: it drives one client session against a scripted server over a protocol
// family (raw, http, thrift-struct, thrift-binary; the thrift ones live in their own binary
// because importing thriftproto changes process-wide defaults): calls, replies of every
// class, malformed bytes, cuts at byte offsets of the request and of the reply stream,
// local Close, with gates parking callers (call.stored, i.e. inside AsyncCall holding the call's mutex) and reply handlers (reply.predone).
package c02eng

import (
	"bytes"
	"errors"
	"flag"
	"fmt"
	"io"
	"math/rand"
	"net"
	"os"
	"strings"
	"sync"
	"sync/atomic"
	"time"

	. "verifharness/hlib"

	erpc "github.com/henrylee2cn/erpc/v6"
	"github.com/henrylee2cn/erpc/v6/socket"
)

// Family is one wire protocol as seen by the harness.
type Family struct {
	Name      string
	Proto     erpc.ProtoFunc                     // nil = default raw protocol
	NewResult func() interface{}                 // the caller's result value
	ResultOK  func(res interface{}) bool         // did the genuine reply arrive in it?
	Reply     func(seq int32, cls string) []byte // bytes of a reply of a class (label)
	Classes   [][2]string                        // (label, model class: ok|remote|undec|undec0|hook|panic|wrongseq|bad)
	Bad       [][]byte                           // malformed byte strings (read error at that point)
	Arg       interface{}
	// OnlyFresh: classes whose effect depends on the call being bound (an undecodable status
	// document with no body codec is a read error whether or not the frame finds its call);
	// they are sent only for a call that cannot have completed yet, else the substitute is sent
	OnlyFresh map[string]string
	// Relay: a PUSH frame for the relay handler /relay/go (nil: none)
	Relay func() []byte
	// Other: a well-formed frame whose message type is none of CALL/REPLY/PUSH (nil: the
	// family has none)
	Other func() []byte
}

var fam *Family

// label returns a class label of the family for a model class ("" if it has none).
func label(model string) string {
	for _, c := range fam.Classes {
		if c[1] == model {
			return c[0]
		}
	}
	return ""
}

func modelOf(lab string) string {
	for _, c := range fam.Classes {
		if c[0] == lab {
			return c[1]
		}
	}
	panic("class " + lab)
}

const settleTimeout = 4 * time.Second

// cutConn is the client's connection; when armed, the next Write passes cutAfter bytes on,
// closes the connection and fails (a cut at that byte offset of the request).
type cutConn struct {
	net.Conn
	cutAfter int32 // -1 = off
}

func (c *cutConn) Write(b []byte) (int, error) {
	k := atomic.LoadInt32(&c.cutAfter)
	if k < 0 {
		return c.Conn.Write(b)
	}
	atomic.StoreInt32(&c.cutAfter, -1)
	n := int(k)
	if n > len(b) {
		n = len(b)
	}
	if n > 0 {
		c.Conn.Write(b[:n])
	}
	c.Conn.Close()
	return n, errors.New("connection cut by the test")
}

// replyPlugin makes bindReply's hooks refuse or panic when the reply says so.
type replyPlugin struct{}

func (replyPlugin) Name() string { return "c02reply" }
func (replyPlugin) PreReadReplyBody(ctx erpc.ReadCtx) *erpc.Status {
	switch string(ctx.PeekMeta("x-verif")) {
	case "hook":
		return erpc.NewStatus(499, "refused by hook", "")
	case "panic":
		panic("c02: panic while decoding a reply")
	}
	return nil
}

func classOf(st *erpc.Status) string {
	if st.OK() {
		return "ok"
	}
	switch st.Code() {
	case erpc.CodeConnClosed:
		return "connclosed"
	case erpc.CodeWriteFailed:
		return "writefailed"
	case erpc.CodeBadMessage:
		return "badmsg"
	case 500:
		return "remote"
	case 499:
		return "hook"
	}
	return fmt.Sprintf("code%d", st.Code())
}

type callRec struct {
	ch       chan erpc.CallCmd
	cmd      atomic.Value // erpc.CallCmd once AsyncCall returned
	returned int32
	res      interface{}
}

type world struct {
	P        erpc.Peer
	sess     erpc.Session
	cc       *cutConn
	sc       net.Conn
	raw      *RawPeer
	g        *GateCtl
	calls    []*callRec
	sent     int // frames (or malformed chunks) the reader has to get through
	lost     bool
	armC     bool
	armR     bool
	closing  bool
	closed   chan struct{}
	drainWG  sync.WaitGroup
	touched  map[int]bool // calls that have been sent some reply
	armed    map[string]bool
	mustDone int           // call that the reply just sent must complete (-1 = none)
	dirty    bool          // a loss, malformed bytes or a Close happened: later calls may complete by themselves
	readerUp bool          // the session's read loop has been seen on a stack at least once
	callsMu  sync.Mutex    // calls is appended to by the relay handler too
	relays   int32         // relay handlers that have issued their call and wait for it
	poolHold chan struct{} // non-nil: harness goroutines occupy every free slot of the goroutine pool
	poolWG   sync.WaitGroup
}

func (w *world) callList() []*callRec {
	w.callsMu.Lock()
	defer w.callsMu.Unlock()
	return append([]*callRec{}, w.calls...)
}

func (w *world) addCall(c *callRec) {
	w.callsMu.Lock()
	w.calls = append(w.calls, c)
	w.callsMu.Unlock()
}

// Relay is the push handler of the session under test: it issues a call on the session it was
// entered on and returns only when that call has completed.
type Relay struct{ erpc.PushCtx }

var curWorld atomic.Value // *world

func relayWait(cmd erpc.CallCmd) { <-cmd.Done() }

func (r *Relay) Go(arg *string) *erpc.Status {
	w := curWorld.Load().(*world)
	c := &callRec{ch: make(chan erpc.CallCmd, 4), res: fam.NewResult()}
	w.addCall(c)
	cmd := r.Session().AsyncCall("/t/echo", fam.Arg, c.res, c.ch)
	c.cmd.Store(cmd)
	atomic.StoreInt32(&c.returned, 1)
	relayWait(cmd)
	return nil
}

// poolLimit: the goroutine pool of every case; far more than a case uses unless the harness fills it
const poolLimit = 32

func (w *world) poolFull() {
	if w.poolHold != nil {
		return
	}
	w.poolHold = make(chan struct{})
	w.poolRefill()
}

func (w *world) poolRefill() {
	hold := w.poolHold
	for i := 0; i < 4*poolLimit; i++ {
		w.poolWG.Add(1)
		if !erpc.Go(func() { defer w.poolWG.Done(); <-hold }) {
			w.poolWG.Done()
			return
		}
	}
}

func (w *world) poolFree() {
	if w.poolHold == nil {
		return
	}
	close(w.poolHold)
	w.poolHold = nil
	w.poolWG.Wait()
}

func newWorld() *world {
	w := &world{closed: make(chan struct{}), touched: map[int]bool{}, armed: map[string]bool{}, mustDone: -1}
	erpc.SetGopool(poolLimit, 0) // a fresh pool per case
	w.P = erpc.NewPeer(erpc.PeerConfig{}, replyPlugin{})
	w.P.RoutePush(new(Relay))
	curWorld.Store(w)
	var pf []erpc.ProtoFunc
	if fam.Proto != nil {
		pf = []erpc.ProtoFunc{fam.Proto}
	}
	// an in-memory connection: a write after the peer has gone fails at once and always
	// (over TCP the first such write may still be buffered)
	c, s := ScriptPipe("c:1", "s:1")
	w.cc = &cutConn{Conn: c, cutAfter: -1}
	w.sc = s
	w.raw = NewRawPeer(s)
	w.sess, _ = w.P.ServeConn(w.cc, pf...)
	w.g = NewGateCtl()
	w.drainWG.Add(1)
	go func() { defer w.drainWG.Done(); io.Copy(io.Discard, s) }()
	return w
}

func (w *world) destroy() {
	w.poolFree()
	w.g.Uninstall()
	w.sc.Close()
	w.cc.Conn.Close()
	// a Close() that hangs is a finding of the run (reported by the oracles); it must not hang
	// the harness: the teardown is bounded
	fin := make(chan struct{})
	go func() {
		w.drainWG.Wait()
		w.sess.Close()
		w.P.Close()
		close(fin)
	}()
	select {
	case <-fin:
	case <-time.After(2 * time.Second):
	}
}

func (w *world) readerClass() string { return w.readerClassIn(GoroutineDump()) }

func (w *world) readerClassIn(d []string) string {
	if CountIn(d, "startReadAndHandle") == 0 {
		return "gone"
	}
	// readDisconnected first: after a recovered panic it runs on top of the panicking frames
	if CountIn(d, "readDisconnected", "sync.(*Mutex).Lock") > 0 || CountIn(d, "readDisconnected", "Group).Wait") > 0 {
		return "discwait"
	}
	if CountIn(d, "readDisconnected") == 0 && CountIn(d, "bindReply", "sync.(*Mutex).Lock") > 0 {
		return "lockwait"
	}
	if CountIn(d, "startReadAndHandle", "ReadMessage", "IO wait") > 0 || CountIn(d, "startReadAndHandle", "ReadMessage", "ScriptConn).Read") > 0 {
		return "reading"
	}
	return "other"
}

func (w *world) closerClassIn(d []string) string {
	if !w.closing {
		return "idle"
	}
	select {
	case <-w.closed:
		return "done"
	default:
	}
	if CountIn(d, "closeLocked", "Group).Wait") > 0 {
		return "blocked"
	}
	return "other"
}

func (w *world) sample(d []string) string {
	var cs []string
	rc := w.readerClassIn(d)
	for _, c := range w.callList() {
		done, cls := "pending", "none"
		if v := c.cmd.Load(); v != nil {
			cmd := v.(erpc.CallCmd)
			select {
			case <-cmd.Done():
				done = "done"
				cls = classOf(cmd.Status())
			default:
			}
		} else if len(c.ch) > 0 {
			// completed inside AsyncCall which has not returned yet (parked before return)
			done = "done"
			cmd := <-c.ch
			c.ch <- cmd
			cls = classOf(cmd.Status())
		}
		if rc == "discwait" && (done == "pending" || cls == "connclosed") {
			// the cancel loop is blocked somewhere in the pending table; which of the free
			// calls it has cancelled before blocking depends on the table's iteration order
			cs = append(cs, VL(VS("flux")))
			continue
		}
		if w.lost && (cls == "connclosed" || cls == "writefailed") {
			// once the connection is gone, a caller released from a gate races with the read
			// loop: it fails with write-failed if it gets to its write before the loop has
			// noticed the loss, with connection-closed after
			cls = "connerr"
		}
		cs = append(cs, VL(VS(done), VN(int64(len(c.ch))), VS(cls)))
	}
	tab := int64(erpc.VerifPendingCalls(w.sess))
	if rc == "discwait" {
		tab = 0
	}
	return VL(VL(cs...), VN(tab),
		VS(erpc.VerifStatusName(erpc.VerifSessionStatus(w.sess))), VS(rc), VS(w.closerClassIn(d)))
}

// processed = frames the read loop has got through: accepted ones pass gate read.got, the
// first rejected one (or a read error) sends it into readDisconnected (gate disc.read).
func (w *world) processed() int {
	return w.g.Arrivals("read.got", w.sess) + w.g.Arrivals("disc.read", w.sess)
}

// countOnStack counts the goroutines that have sub on their stack (not merely in the line that
// says which function created them).
func countOnStack(d []string, sub string) int {
	n := 0
	for _, g := range d {
		if i := strings.Index(g, "created by"); i >= 0 {
			g = g[:i]
		}
		if strings.Contains(g, sub) {
			n++
		}
	}
	return n
}

// relayInCall: relay handlers parked inside their AsyncCall at one of the caller gates
func relayInCall(d []string, w *world) int {
	n := 0
	for _, g := range d {
		if i := strings.Index(g, "created by"); i >= 0 {
			g = g[:i]
		}
		if strings.Contains(g, "c02eng.(*Relay).Go") && strings.Contains(g, "verifGate") {
			n++
		}
	}
	return n
}

func (w *world) settle() (string, bool) {
	var s1 string
	ok := WaitUntil(settleTimeout, func() bool {
		d := GoroutineDump()
		rc := w.readerClassIn(d)
		if rc == "other" {
			return false
		}
		// the read loop is started on a goroutine of its own by ServeConn: on a busy machine the
		// first snapshot can come before that goroutine has run at all. "gone" is an observation
		// only once the loop has been seen, or after something that can end it.
		if rc != "gone" {
			w.readerUp = true
		} else if !w.readerUp && !w.dirty && !w.lost && !w.closing {
			return false
		}
		if rc == "reading" && w.processed() < w.sent {
			return false
		}
		if w.closerClassIn(d) == "other" {
			return false
		}
		// a Close() started by the library itself (unsupported message type) has returned or waits
		if !w.closing && CountIn(d, "session).Close") != CountIn(d, "session).Close", "Group).Wait")+CountIn(d, "session).Close", "Mutex).Lock") {
			return false
		}
		// callers: every AsyncCall has returned or is parked at write.done
		notReturned := 0
		for _, c := range w.callList() {
			if atomic.LoadInt32(&c.returned) == 0 {
				notReturned++
			}
		}
		if notReturned != w.g.Parked("call.stored", w.sess)+w.g.Parked("write.done", w.sess) {
			return false
		}
		// reply handlers: none running except those parked at reply.predone
		// (a relay handler waiting for its own call is quiet; one that has been entered but has not
		// got as far as a parked or returned AsyncCall is not)
		if countOnStack(d, "handlerCtx).handle")-countOnStack(d, "c02eng.relayWait")-relayInCall(d, w) != w.g.Parked("reply.predone", w.sess) {
			return false
		}
		s1 = w.sample(d)
		time.Sleep(2 * time.Millisecond)
		return w.sample(GoroutineDump()) == s1
	})
	if !ok {
		s1 = w.sample(GoroutineDump())
	}
	return s1, ok
}

// frameBytes packs a message with the real protocol code into a byte slice.
type bufConn struct {
	net.Conn
	buf bytes.Buffer
}

func (b *bufConn) Write(p []byte) (int, error) { return b.buf.Write(p) }

// FrameBytes packs a message with the given protocol into a byte slice.
func FrameBytes(pf erpc.ProtoFunc, settings ...socket.MessageSetting) []byte {
	bc := &bufConn{}
	var s socket.Socket
	if pf != nil {
		s = socket.NewSocket(bc, pf)
	} else {
		s = socket.NewSocket(bc)
	}
	m := socket.NewMessage(settings...)
	Must(s.WriteMessage(m))
	return bc.buf.Bytes()
}

// RawReplySettings builds the reply of a model class with message settings (raw and thrift-binary).
func RawReplySettings(seq int32, cls string) []socket.MessageSetting {
	base := func(m socket.Message) { m.SetMtype(erpc.TypeReply); m.SetSeq(seq) }
	switch cls {
	case "ok":
		return []socket.MessageSetting{base, socket.WithBodyCodec('j'), socket.WithBody([]byte(`"r"`))}
	case "remote":
		return []socket.MessageSetting{base, socket.WithStatus(erpc.NewStatus(500, "boom", ""))}
	case "undec":
		return []socket.MessageSetting{base, socket.WithBodyCodec('j'), socket.WithBody([]byte(`{{{`))}
	case "undec0":
		return []socket.MessageSetting{base, socket.WithBodyCodec(0), socket.WithBody([]byte(`zzz`))}
	case "hook", "panic":
		return []socket.MessageSetting{base, socket.WithBodyCodec('j'), socket.WithBody([]byte(`"r"`)), socket.WithSetMeta("x-verif", cls)}
	}
	panic("class " + cls)
}

func pickClass(r *rand.Rand, onlyOK bool) string {
	for {
		c := fam.Classes[r.Intn(len(fam.Classes))]
		if !onlyOK || c[1] == "ok" || c[1] == "remote" {
			return c[0]
		}
	}
}

func runCase(cfg *RunCfg, st *Stats, idx int, script []string) (string, string) {
	// script entries: issue | issuecut:K | reply:I:CLS | wrongseq | bad:V | lost | lostpartial:I:K | close | arm:X | disarm:X
	w := newWorld()
	defer w.destroy()
	var ins, outs []string
	human := strings.Join(script, " ")
	// every history ends with all gates open and the connection lost
	script = append(append([]string{}, script...), "disarm:caller", "disarm:callerw", "disarm:reply", "pool:free", "lost")
	var final string
	for _, ev := range script {
		f := strings.Split(ev, ":")
		var in string
		if w.poolHold != nil {
			w.poolRefill() // slots given back by library goroutines that have finished since
		}
		switch f[0] {
		case "issue", "issuecut":
			c := &callRec{ch: make(chan erpc.CallCmd, 4), res: fam.NewResult()}
			w.addCall(c)
			if f[0] == "issuecut" {
				var k int
				fmt.Sscanf(f[1], "%d", &k)
				atomic.StoreInt32(&w.cc.cutAfter, int32(k))
				in = VL(VS("issuecut"))
			} else {
				in = VL(VS("issue"))
			}
			go func() {
				cmd := w.sess.AsyncCall("/t/echo", fam.Arg, c.res, c.ch)
				c.cmd.Store(cmd)
				atomic.StoreInt32(&c.returned, 1)
			}()
			if f[0] == "issuecut" {
				// the write (if the status check admits it) is cut; the reader then fails
				WaitUntil(settleTimeout, func() bool {
					return atomic.LoadInt32(&c.returned) == 1 || w.g.Parked("call.stored", w.sess) > 0 || w.g.Parked("write.done", w.sess) > 0
				})
				if atomic.LoadInt32(&w.cc.cutAfter) < 0 { // the cut happened
					if !w.lost {
						w.lost = true
						w.sent++
					}
				} else {
					atomic.StoreInt32(&w.cc.cutAfter, -1)
				}
			}
		case "reply":
			var i int
			fmt.Sscanf(f[1], "%d", &i)
			if sub, ok := fam.OnlyFresh[f[2]]; ok && (w.touched[i] || w.dirty) {
				f[2] = sub
			}
			// a reply that identifies a pending call completes it while the connection is up
			if m := modelOf(f[2]); m != "wrongseq" && m != "bad" && !w.touched[i] && !w.dirty && !w.lost &&
				len(w.armed) == 0 && i < len(w.calls) && w.calls[i].cmd.Load() != nil && w.readerClass() == "reading" {
				w.mustDone = i
			}
			w.touched[i] = true
			if !w.lost {
				w.sc.Write(fam.Reply(int32(i+1), f[2]))
				w.sent++
			}
			switch m := modelOf(f[2]); m {
			case "wrongseq":
				in = VL(VS("wrongseq"))
			case "bad":
				in = VL(VS("bad"))
			default:
				in = VL(VS("reply"), VN(int64(i)), VS(m))
			}
		case "wrongseq":
			w.dirty = w.dirty || false
			if !w.lost {
				w.sc.Write(fam.Reply(1001, label("ok")))
				w.sent++
			}
			in = VL(VS("wrongseq"))
		case "bad":
			w.dirty = true
			if !w.lost {
				var k int
				fmt.Sscanf(f[1], "%d", &k)
				w.sc.Write(fam.Bad[k%len(fam.Bad)])
				w.sent++
			}
			in = VL(VS("bad"))
		case "other":
			if w.readerClass() == "lockwait" {
				// behind a blocked read loop the frame would only be queued, and on release its
				// handler (Close / a new call) would race with the released callers: dropped
				in = VL(VS("nop"))
				break
			}
			w.dirty = true
			if !w.lost {
				w.sc.Write(fam.Other())
				w.sent++
			}
			in = VL(VS("other"))
		case "hcall":
			if w.readerClass() == "lockwait" {
				in = VL(VS("nop"))
				break
			}
			if !w.lost {
				w.sc.Write(fam.Relay())
				w.sent++
			}
			in = VL(VS("hcall"))
		case "pool":
			if f[1] == "full" {
				w.poolFull()
			} else {
				w.poolFree()
			}
			in = VL(VS("pool"), VS(f[1]))
		case "lost", "lostpartial":
			w.dirty = true
			if !w.lost {
				if f[0] == "lostpartial" {
					var i, k int
					fmt.Sscanf(f[1], "%d", &i)
					fmt.Sscanf(f[2], "%d", &k)
					b := fam.Reply(int32(i+1), label("ok"))
					if k >= len(b) {
						k = len(b) - 1
					}
					w.sc.Write(b[:k])
				}
				w.sc.Close()
				w.lost = true
				w.sent++
			}
			in = VL(VS("lost"))
		case "close":
			w.dirty = true
			if !w.closing {
				w.closing = true
				go func() { w.sess.Close(); close(w.closed) }()
			}
			in = VL(VS("close"))
		case "arm":
			w.armed[f[1]] = true
			if f[1] == "caller" {
				w.g.Arm("call.stored", w.sess)
			} else if f[1] == "callerw" {
				w.g.Arm("write.done", w.sess)
			} else {
				w.g.Arm("reply.predone", w.sess)
			}
			in = VL(VS("arm"), VS(f[1]))
		case "disarm":
			delete(w.armed, f[1])
			if f[1] == "caller" {
				w.g.Disarm("call.stored", w.sess)
			} else if f[1] == "callerw" {
				w.g.Disarm("write.done", w.sess)
			} else {
				w.g.Disarm("reply.predone", w.sess)
			}
			in = VL(VS("disarm"), VS(f[1]))
		}
		obs, ok := w.settle()
		ins = append(ins, in)
		outs = append(outs, obs)
		final = obs
		if w.mustDone >= 0 {
			c := w.calls[w.mustDone]
			done := false
			if v := c.cmd.Load(); v != nil {
				select {
				case <-v.(erpc.CallCmd).Done():
					done = true
				default:
				}
			}
			if !done && ok {
				st.Fail(idx, "hang", fmt.Sprintf("the reply to call %d has arrived (class %s), the connection is up, but the call is not completed", w.mustDone, ev), human)
			}
			w.mustDone = -1
		}
		if !ok {
			if os.Getenv("C02_DEBUG") != "" {
				for _, g := range GoroutineDump() {
					if strings.Contains(g, "henrylee2cn/erpc") {
						fmt.Fprintln(os.Stderr, g)
					}
				}
			}
			st.Fail(idx, "quiescence", "no quiescent state within the watchdog after "+ev, human)
			break // one watchdog per case
		}
	}
	// the property, applied to what the implementation did
	for i, c := range w.calls {
		v := c.cmd.Load()
		if v == nil {
			st.Fail(idx, "hang", fmt.Sprintf("AsyncCall of call %d never returned", i), human)
			continue
		}
		cmd := v.(erpc.CallCmd)
		select {
		case <-cmd.Done():
		default:
			st.Fail(idx, "hang", fmt.Sprintf("call %d not completed after the connection was lost (final %s)", i, final), human)
			continue
		}
		if n := len(c.ch); n != 1 {
			st.Fail(idx, "once", fmt.Sprintf("call %d delivered %d times on its completion channel", i, n), human)
		}
		if cmd.Status().OK() && !fam.ResultOK(c.res) {
			st.Fail(idx, "carries", fmt.Sprintf("call %d completed OK without the peer's reply", i), human)
		}
	}
	if n := erpc.VerifPendingCalls(w.sess); n != 0 {
		st.Fail(idx, "hang", fmt.Sprintf("%d calls left in the pending table", n), human)
	}
	if rc := w.readerClass(); rc != "gone" {
		st.Fail(idx, "hang", "read loop still alive after the connection was lost: "+rc, human)
	}
	if w.closing {
		select {
		case <-w.closed:
		case <-time.After(settleTimeout):
			st.Fail(idx, "hang", "Close() did not return after the connection was lost", human)
		}
	}
	_ = cfg
	return VL(ins...), VL(outs...)
}

func genScript(cfg *RunCfg, st *Stats) []string {
	r := cfg.Rng
	var s []string
	n := 3 + r.Intn(9)
	issued := 0
	armC, armR := false, false
	full := false
	for e := 0; e < n; e++ {
		k := r.Intn(100)
		if x := r.Intn(100); x >= 10 && x < 17 && fam.Relay != nil {
			// a handler that holds an outstanding call on its own session
			s = append(s, "hcall")
			issued++
			st.Count("ev:handler-issues-call-and-waits")
			continue
		} else if x < 4 && fam.Other != nil {
			// a frame of an unsupported type: the session closes itself from a goroutine of its own
			s = append(s, "other")
			st.Count("ev:unsupported-message-type")
			continue
		} else if x < 10 && !armR {
			// (not while reply handlers are parked before done: with no slot the read loop itself
			// would run into that gate)
			full = !full
			if full {
				s = append(s, "pool:full")
			} else {
				s = append(s, "pool:free")
			}
			st.Count("ev:goroutine-pool-full/free")
			continue
		}
		switch {
		case issued == 0 || k < 22:
			if r.Intn(8) == 0 {
				s = append(s, fmt.Sprintf("issuecut:%d", r.Intn(40)))
				st.Count("ev:issue-cut-request-offset")
			} else {
				s = append(s, "issue")
				st.Count("ev:issue")
			}
			issued++
		case k < 58:
			i := r.Intn(issued)
			cls := pickClass(r, r.Intn(8) < 3)
			s = append(s, fmt.Sprintf("reply:%d:%s", i, cls))
			st.Count("ev:reply-" + cls)
			if r.Intn(4) == 0 { // duplicate straight behind
				s = append(s, fmt.Sprintf("reply:%d:%s", i, pickClass(r, true)))
				st.Count("ev:reply-duplicate")
			}
		case k < 63:
			s = append(s, "wrongseq")
			st.Count("ev:reply-wrongseq")
		case k < 68 && len(fam.Bad) > 0:
			s = append(s, fmt.Sprintf("bad:%d", r.Intn(3)))
			st.Count("ev:hostile-bytes")
		case k < 73:
			s = append(s, "lost")
			st.Count("ev:lost")
		case k < 78:
			s = append(s, fmt.Sprintf("lostpartial:%d:%d", r.Intn(issued), 1+r.Intn(30)))
			st.Count("ev:cut-reply-offset")
		case k < 82:
			s = append(s, "close")
			st.Count("ev:close")
		case k < 86 && !armC:
			// a caller parked after its write (gate write.done sits inside the session write
			// lock, so no other call is issued until it is released)
			s = append(s, "arm:callerw", "issue")
			issued++
			for j := r.Intn(3); j > 0; j-- {
				switch r.Intn(4) {
				case 0:
					s = append(s, "lost")
				case 1:
					s = append(s, fmt.Sprintf("reply:%d:%s", issued-1, pickClass(r, false)))
				case 2:
					s = append(s, "close")
				default:
					if len(fam.Bad) > 0 {
						s = append(s, fmt.Sprintf("bad:%d", r.Intn(3)))
					}
				}
			}
			s = append(s, "disarm:callerw")
			st.Count("ev:gate-caller-after-write")
		case k < 92:
			if armC {
				s = append(s, "disarm:caller")
			} else {
				s = append(s, "arm:caller")
			}
			armC = !armC
			st.Count("ev:gate-caller")
		default:
			if full {
				continue
			}
			if armR {
				s = append(s, "disarm:reply")
			} else {
				s = append(s, "arm:reply")
			}
			armR = !armR
			st.Count("ev:gate-reply")
		}
	}
	return s
}

// Run runs the harness for one protocol family (flags as every harness binary).
func Run(f *Family) {
	fam = f
	flag.String("proto", "", "protocol family (read by the binary)")
	flag.String("mode", "", "same as -proto")
	cfg := ParseFlags()
	Quiet()
	st := NewStats("C02", cfg)
	st.Rule = "family " + fam.Name + ": histories of 3..13 events over {issue, issue with the request cut at byte offset k, reply of class ok/remote-status/undecodable(codec set)/undecodable(codec 0)/hook-refused/decode-panic, duplicate reply, unknown seq, malformed bytes, connection lost, reply stream cut at byte offset k, local Close, a frame of an unsupported message type, a PUSH whose handler issues a call on its own session and waits for it, the goroutine pool used up / free again, gates parking callers inside AsyncCall before the write (call.stored) and after it (write.done) / reply handlers before done}; every history ends with the connection lost; thorough tier adds every cut offset of one request and one reply frame; distinct by script; non-trivial = at least one call and one reply or loss event"
	cw := NewCaseWriter(cfg)
	distinct := DistinctSet{}
	var scripts [][]string
	// fixed scripts: the known failing histories and every cut offset
	fixed := [][]string{
		{"issue", "reply:0:@undec0"},
		{"issue", "reply:0:@panic"},
		{"issue", "reply:0:@undec", "issue", "reply:1:@ok"},
		{"issue", "arm:reply", "reply:0:@ok", "reply:0:@ok", "disarm:reply"},
		{"arm:caller", "issue", "reply:0:@ok", "disarm:caller"},
		{"issue", "close", "reply:0:@ok"},
		{"issue", "close", "lost"},
		{"issue", "issue", "close", "lost"},
		{"arm:callerw", "issue", "lost", "disarm:callerw"},
		{"issue", "arm:callerw", "issue", "lost", "disarm:callerw"},
		{"arm:callerw", "issue", "close", "lost", "disarm:callerw"},
	}
	// no free slot in the goroutine pool: the read loop handles the frames itself
	fixed = append(fixed,
		[]string{"issue", "pool:full", "reply:0:@ok", "pool:free", "issue", "lost"},
		[]string{"pool:full", "issue", "issue", "reply:1:@remote", "reply:0:@ok", "wrongseq", "pool:free", "issue", "close", "lost"},
		[]string{"issue", "pool:full", "reply:0:@undec", "pool:free", "issue", "reply:1:@ok"})
	if fam.Relay != nil {
		// a handler waits for a call it made on its own session: loss / Close / reply / both
		fixed = append(fixed,
			[]string{"hcall", "lost"},
			[]string{"hcall", "issue", "lost"},
			[]string{"hcall", "close", "lost"},
			[]string{"hcall", "reply:0:@ok", "issue", "lost"},
			[]string{"hcall", "hcall", "reply:1:@remote", "lost"},
			[]string{"arm:caller", "hcall", "lost", "disarm:caller"},
			[]string{"arm:callerw", "hcall", "lost", "disarm:callerw"},
			[]string{"hcall", "bad:0"},
			[]string{"issue", "hcall", "close", "reply:1:@ok", "reply:0:@ok"})
	}
	if fam.Other != nil {
		// unsupported message type with a call pending: then loss / Close / silence
		fixed = append(fixed,
			[]string{"issue", "other", "lost"},
			[]string{"issue", "other", "close", "lost"},
			[]string{"other", "issue"},
			[]string{"issue", "other", "reply:0:@ok"},
			[]string{"issue", "pool:full", "other", "pool:free", "lost"})
	}
	// every class of the family once on an open connection, followed by a well-formed exchange
	for _, c := range fam.Classes {
		fixed = append(fixed, []string{"issue", "reply:0:" + c[0], "issue", "reply:1:@ok"})
	}
	for _, sc := range fixed {
		ok := true
		out := make([]string, len(sc))
		for i, e := range sc {
			if j := strings.Index(e, "@"); j >= 0 {
				l := label(e[j+1:])
				if l == "" {
					ok = false
				}
				e = e[:j] + l
			}
			out[i] = e
		}
		if ok {
			scripts = append(scripts, out)
		}
	}
	nOff := 8
	if cfg.Tier == "thorough" {
		nOff = 40
	}
	for k := 0; k < nOff; k++ {
		scripts = append(scripts, []string{"issue", fmt.Sprintf("issuecut:%d", k), "reply:0:" + label("ok")})
		scripts = append(scripts, []string{"issue", "issue", fmt.Sprintf("lostpartial:0:%d", k+1)})
	}
	for len(scripts) < cfg.N {
		scripts = append(scripts, genScript(cfg, st))
	}
	scripts = scripts[:cfg.N]
	if one := os.Getenv("C02_SCRIPT"); one != "" {
		scripts = [][]string{strings.Fields(one)}
	}
	for i, sc := range scripts {
		in, out := runCase(cfg, st, i, sc)
		cw.Add(in, out)
		key := strings.Join(sc, " ")
		if strings.Contains(key, "issue") && (strings.Contains(key, "reply") || strings.Contains(key, "lost") || strings.Contains(key, "bad")) {
			distinct.Add(key)
		}
		if len(st.Samples) < 5 {
			st.Samples = append(st.Samples, key)
		}
	}
	st.Evaluations = len(scripts)
	st.DistinctNontrivial = len(distinct)
	st.Write(cfg, cw)
}
