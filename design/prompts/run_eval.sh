#!/bin/bash
# usage: run_eval.sh Cxx  -> evaluates /tmp/mut5-out/Cxx/m1..m3 as Cxx-r5m1..3
P=$1
export GOFLAGS=-mod=mod GOPROXY=off GOSUMDB=off GOTOOLCHAIN=local GOCACHE=/verif/work/gocache
cd /verif
for i in 1 2 3 4; do
  d=/tmp/mut5-out/$P/m$i
  [ -f $d/patch.diff ] || continue
  rm -f $d/ran.log
  python3 bin/eval_mutant.py $P $d $P-r5m$i > /root/evals/$P-r5m$i.log 2>&1
  tail -1 /root/evals/$P-r5m$i.log
done
