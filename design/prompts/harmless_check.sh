#!/bin/bash
# harmless_check.sh <h-index> <prop> : runs bin/check <prop> against a tree with the harmless patch
i=$1; prop=$2
export GOFLAGS=-mod=mod GOPROXY=off GOSUMDB=off GOTOOLCHAIN=local GOCACHE=/verif/work/gocache
t=/root/scratch/hl-$i-$prop
git -C /repo worktree remove --force $t 2>/dev/null
git -C /repo worktree add -q --detach $t HEAD && cp /repo/go.sum $t/ && git -C $t apply /verif/harmless/r5/h$i/patch.diff || { echo "h$i: patch does not apply"; exit 1; }
cd /verif; VERIF_REPO=$t bin/check $prop --tier quick > /root/evals/harmless-h$i-$prop.log 2>&1
echo "h$i $prop: $(tail -1 /root/evals/harmless-h$i-$prop.log | cut -c1-200)"
git -C /repo worktree remove --force $t
