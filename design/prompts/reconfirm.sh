#!/bin/bash
# reconfirm.sh <seeded-id> <demo-dir-name> : demo on clean and patched tree; updates meta.json confirmed
id=$1; dn=$2
export GOFLAGS=-mod=mod GOPROXY=off GOSUMDB=off GOTOOLCHAIN=local GOCACHE=/verif/work/gocache
t=/root/scratch/reconf-$id
git -C /repo worktree remove --force $t 2>/dev/null
git -C /repo worktree add -q --detach $t HEAD && cp /repo/go.sum $t/
mkdir -p $t/$dn && cp /verif/seeded/$id/demo/* $t/$dn/
cmd=$(python3 -c "import json,re;c=json.load(open('/verif/seeded/$id/meta.json'))['demo_cmd'];print(re.split(r'\s{2,}\(',c)[0])")
cd $t
( eval "$cmd" ) > /root/evals/reconf-$id.clean.log 2>&1; rc1=$?
git apply /verif/seeded/$id/patch.diff
( eval "$cmd" ) > /root/evals/reconf-$id.patched.log 2>&1; rc2=$?
echo "$id clean rc=$rc1 patched rc=$rc2"
python3 - <<P
import json
p='/verif/seeded/$id/meta.json'; m=json.load(open(p))
m['demo_cmd']="""$cmd"""
m['confirm_runs']=[r for r in m['confirm_runs'] if not r.startswith('demo ')]+['demo on clean HEAD (re-run, lower machine load): rc=$rc1','demo with patch (re-run): rc=$rc2']
m['confirmed']=($rc1==0 and $rc2!=0)
json.dump(m,open(p,'w'),indent=1)
P
cd /; git -C /repo worktree remove --force $t
