#!/bin/bash
# recheck.sh <seeded-id> : re-runs bin/check against the patched tree and updates detected_by
id=$1; prop=${id%%-*}
export GOFLAGS=-mod=mod GOPROXY=off GOSUMDB=off GOTOOLCHAIN=local GOCACHE=/verif/work/gocache
t=/root/scratch/recheck-$id
git -C /repo worktree remove --force $t 2>/dev/null
git -C /repo worktree add -q --detach $t HEAD && cp /repo/go.sum $t/ && git -C $t apply /verif/seeded/$id/patch.diff || { echo "$id: patch does not apply"; exit 1; }
cd /verif; s=$(date +%s)
VERIF_REPO=$t bin/check $prop --tier quick > /root/evals/recheck-$id.log 2>&1; rc=$?
python3 - <<P
import json,re,time
o=open('/root/evals/recheck-$id.log').read()
lines=[l.strip() for l in o.split('\n') if l.startswith('  reason:')]
det = ('VIOLATION' in o) and $rc==1
v=('VIOLATION (quick): '+'; '.join(lines)[:400]) if det else ('MISSED (quick): '+' '.join(l for l in o.split('\n') if l.startswith('OK ') or l.startswith('ERROR'))[:300])
p='/verif/seeded/$id/meta.json'; m=json.load(open(p))
if not det or 'MISSED' in m.get('detected_by','') or 'obligation no longer checks: theories/Properties/C09.v:C09_removed' in m.get('detected_by',''):
    m['first_verdict']=m.get('first_verdict', m.get('detected_by'))
m['detected_by']=v; m['check_wall_s']=int(time.time())-$s
json.dump(m,open(p,'w'),indent=1)
print('$id', v[:200])
P
git -C /repo worktree remove --force $t
