#!/usr/bin/env python3
"""Regenerates MANIFEST.json from bin/props.py (claimed properties) and properties.jsonl."""
import json, os, sys
VERIF = os.path.dirname(os.path.dirname(os.path.abspath(__file__)))
sys.path.insert(0, os.path.join(VERIF, 'bin'))
from props import PROPS, TRUSTED_BASE
ids = [json.loads(l)['id'] for l in open(os.path.join(VERIF, 'properties.jsonl'))]
hooks_commits = [l.strip() for l in open(os.path.join(VERIF, 'hooks_commits.txt')) if l.strip()] if os.path.exists(os.path.join(VERIF, 'hooks_commits.txt')) else []
checks = []
for pid in ids:
    if pid not in PROPS:
        continue
    sp = PROPS[pid]
    checks.append(dict(
        property_id=pid,
        quick_cmd='bin/check %s --tier quick' % pid,
        thorough_cmd='bin/check %s --tier thorough' % pid,
        evidence_file='/verif/evidence/%s.json' % pid,
        replay_cmd_template='bin/check %s --replay {path}' % pid,
        engine='coq-proof+correspondence',
        level_claimed=dict(category='proof', text=sp.get('level_text', sp.get('explanation', '')), design_ref=sp.get('design_ref', 'DESIGN.md section 5, ' + pid)),
        level_note=sp.get('level_note', 'Trusted: ' + '; '.join(TRUSTED_BASE) + '. ' + ' '.join(sp.get('assumptions', []))),
        technique=sp.get('technique', 'machine-checked proof in Coq 8.16.1 over a hand-written Gallina model; model tied to /repo by a differential correspondence check (extracted model vs Go harness)'),
    ))
na = []
NA_REASON = {}
try:
    from props import NOT_APPLICABLE
    NA_REASON = NOT_APPLICABLE
except Exception:
    pass
for pid in ids:
    if pid not in PROPS:
        na.append(dict(property_id=pid, reason=NA_REASON.get(pid, 'not claimed yet: model and check under construction (see DESIGN.md)')))
m = dict(
    version=1,
    setup_cmd='bin/check setup',
    hooks=dict(guard='verif', enable='go build -tags verif (harness module with replace github.com/henrylee2cn/erpc/v6 => /repo)',
               baseline_off_cmd='bin/baseline_off.sh', source_commits=hooks_commits, add_only=True),
    engines=[dict(name='coq-proof+correspondence', path='bin/check', serves_properties=[c['property_id'] for c in checks],
                  kind_free_text='Coq 8.16.1 theorems over Gallina models (coq/), extracted model (ocaml/driver.ml) compared with the Go implementation driven by harness/cmd/erpcharness; tables regenerated from source by translator/')],
    checks=checks,
    notes='See DESIGN.md. known_findings.txt lists recorded findings and fixed defects.',
    not_applicable=na,
)
json.dump(m, open(os.path.join(VERIF, 'MANIFEST.json'), 'w'), indent=1)
print('claimed', len(checks), 'not claimed', len(na))
