#!/usr/bin/env python3
"""eval_mutant.py <property> <mutant-dir> <seeded-id> [--tier quick]
Confirms a seeded change (builds with/without tag, pinned suite passes, demo passes on clean HEAD and
fails with the patch), runs `VERIF_REPO=<tree> bin/check <property>` against it, and stores
seeded/<id>/{patch.diff, demo..., meta.json} with the verdicts."""
import sys, os, json, subprocess, shutil, time
V = os.path.dirname(os.path.dirname(os.path.abspath(__file__)))
prop, mdir, sid = sys.argv[1], sys.argv[2], sys.argv[3]
tier = 'quick'
if '--tier' in sys.argv:
    tier = sys.argv[sys.argv.index('--tier') + 1]
env = dict(os.environ, GOFLAGS='-mod=mod', GOPROXY='off', GOSUMDB='off', GOTOOLCHAIN='local', GOCACHE=os.path.join(V, 'work', 'gocache'))
def sh(cmd, cwd=None, timeout=3600, extra=None):
    e = dict(env); e.update(extra or {})
    p = subprocess.run(cmd, shell=True, cwd=cwd, env=e, stdout=subprocess.PIPE, stderr=subprocess.STDOUT, universal_newlines=True, timeout=timeout)
    return p.returncode, p.stdout
meta = json.load(open(os.path.join(mdir, 'meta.json')))
tree = '/root/scratch/seed-' + sid
sh('git -C /repo worktree remove --force %s' % tree)
rc, o = sh('git -C /repo worktree add -q --detach %s HEAD && cp /repo/go.sum %s/' % (tree, tree))
assert rc == 0, o
ran = []
def place_demo():
    import re
    cmd = meta.get('demo_cmd', '')
    if re.search(r'(^|[;&\s])cp\s', cmd):
        return   # the command copies the demo into place itself
    locs = [t.strip('`\'"(),') for t in (meta.get('demo_location', '') or '').replace('<worktree>/', '').replace('<repo root>/', '').split()]
    # main.go demos: directory named in `go run [flags] ./dir`
    if os.path.isdir(os.path.join(mdir, 'demo')):
        ms = re.findall(r'(?<![\w/])(\./[\w./-]+)', cmd.split('go run', 1)[-1]) if 'go run' in cmd else []
        d = ms[-1] if ms else next((t for t in locs if '/' in t and not t.startswith('/') and not t.startswith('demo/')), 'demo_seed')
        if d.endswith('.go'):
            d = os.path.dirname(d)
        dst = os.path.join(tree, d.strip('./') or 'demo_seed')
        os.makedirs(dst, exist_ok=True)
        for f in os.listdir(os.path.join(mdir, 'demo')):
            shutil.copy(os.path.join(mdir, 'demo', f), dst)
    tests = [f for f in os.listdir(mdir) if f.endswith('_test.go')]
    if tests:
        cand = next((t for t in locs if ((t.endswith('/') and '/' in t) or t.endswith('_test.go')) and not t.startswith('/') and t not in tests and '*' not in t), None)
        if cand and os.path.exists(os.path.join(tree, cand)) and os.path.isfile(os.path.join(tree, cand)):
            cand = None
        if cand is None:
            m = re.search(r'go test.*?\s(\.[\w./-]*)\s*$', cmd.strip())
            cand = m.group(1) if m else '.'
        if cand.endswith('.go'):
            name, d = os.path.basename(cand), os.path.dirname(cand)
        else:
            name, d = None, cand
        dst = os.path.join(tree, d.strip('./') if d.strip('./') else '')
        os.makedirs(dst, exist_ok=True)
        for f in tests:
            shutil.copy(os.path.join(mdir, f), os.path.join(dst, name if (name and len(tests) == 1) else f))
        ran.append('demo test placed in %s' % (os.path.relpath(dst, tree)))

try:
    place_demo()
except Exception as e:
    ran.append('place_demo: %s' % e)
demo = meta['demo_cmd'].replace('/tmp/mut3-' + prop, tree).replace('/tmp/mut2-' + prop, tree).replace('/tmp/mut-' + prop, tree).replace('<worktree>', tree)
rc_clean, o_clean = sh(demo, cwd=tree, timeout=900)
ran.append('demo on clean HEAD: rc=%d' % rc_clean)
rc, o = sh('git apply %s' % os.path.join(os.path.abspath(mdir), 'patch.diff'), cwd=tree)
assert rc == 0, 'patch does not apply: ' + o
rc_b1, o1 = sh('go build . ./codec/... ./socket ./utils/... ./xfer/... ./proto/... ./plugin/... ./mixer/websocket/... 2>&1 | grep -v "^#\\|redeclared\\|other declaration" | tail -5', cwd=tree)
rc_b2, o2 = sh('go build -tags verif . ./plugin/... ./proto/... ./mixer/websocket/... 2>&1 | tail -5', cwd=tree)
ran.append('build with tag: %s' % ('ok' if not o2.strip() else o2.strip()[:200]))
rc_s, o_s = sh(os.path.join(V, 'bin', 'baseline_check.sh') + ' ' + tree, timeout=1800)
ran.append('pinned suite: ' + o_s.strip().split('\n')[-1])
rc_mut, o_mut = sh(demo, cwd=tree, timeout=900)
ran.append('demo with patch: rc=%d' % rc_mut)
confirmed = (rc_clean == 0 and rc_mut != 0 and rc_s == 0 and not o2.strip())
# remove the demo before running the check (keep the patch)
sh('git clean -fdq -e go.sum', cwd=tree)
t0 = time.time()
rc_c, o_c = sh('bin/check %s --tier %s' % (prop, tier), cwd=V, timeout=7200, extra={'VERIF_REPO': tree})
lines = [l for l in o_c.split('\n') if l.startswith('  reason:') or l.startswith('VIOLATION') or l.startswith('OK ') or l.startswith('ERROR')]
detected = 'VIOLATION' in o_c and rc_c == 1
verdict = ('VIOLATION (%s): %s' % (tier, '; '.join(l.strip() for l in lines if l.startswith('  reason:'))[:400])) if detected else ('MISSED (%s): %s' % (tier, ' '.join(lines)[:300]))
out = os.path.join(V, 'seeded', sid)
shutil.rmtree(out, ignore_errors=True)
shutil.copytree(mdir, out)
meta.update(dict(check_error_tail=(o_c[-1500:] if 'ERROR' in o_c else ''), property=prop, confirmed=confirmed, confirm_runs=ran, detected_by=verdict, check_wall_s=round(time.time() - t0),
                 what_ran='bin/eval_mutant.py: demo on clean worktree of /repo HEAD, git apply patch.diff, go build with and without -tags verif, bin/baseline_check.sh <tree>, demo again, VERIF_REPO=<tree> bin/check %s --tier %s' % (prop, tier)))
json.dump(meta, open(os.path.join(out, 'meta.json'), 'w'), indent=1)
sh('git -C /repo worktree remove --force %s' % tree)
print(sid, 'confirmed=%s' % confirmed, verdict)
