#!/bin/bash
# Runs the pinned suite with the verif guard OFF and compares with /root/.vp/BASELINE.json.
# usage: bin/baseline_check.sh [repo-dir]   (default /repo)
REPO=${1:-/repo}
cd "$REPO" && GOFLAGS=-mod=mod GOPROXY=off GOSUMDB=off GOTOOLCHAIN=local go test -mod=mod -json -vet=off -count=1 -timeout 25m ./... 2>/tmp/baseline_check.err | python3 -c "
import sys,json
ok=set();fail=set()
for l in sys.stdin:
    try: e=json.loads(l)
    except: continue
    if e.get('Test') and e.get('Action') in('pass','fail'):
        (ok if e['Action']=='pass' else fail).add(e['Package']+'::'+e['Test'])
base=set(json.load(open('/root/.vp/BASELINE.json'))['stable_pass'])
missing=sorted(base-ok)
print('baseline tests passing: %d/%d' % (len(base&ok), len(base)))
if missing:
    print('MISSING:', missing); sys.exit(1)
"
