#!/usr/bin/env python3
"""Assembles DESIGN.md from design/*.md, notes/C*.md, known_findings.txt and seeded/*/meta.json."""
import os, re, json, glob
V = os.path.dirname(os.path.dirname(os.path.abspath(__file__)))
rd = lambda p: open(os.path.join(V, p)).read()
out = [rd('design/00-main.md')]
out.append("## 5. Per property: what is modelled, what is proved, how it is tied to the code, what is not covered\n\n"
           "One note per property, in property order. Each note lists the model files, the theorems in words, the harness and its oracle keys, defects found, what is NOT covered, and the hand mutations its builder tried.\n")
titles = {json.loads(l)['id']: json.loads(l)['title'] for l in open(os.path.join(V, 'properties.jsonl'))}
for pid in sorted(titles):
    out.append("\n### %s — %s\n" % (pid, titles[pid]))
    parts = sorted(glob.glob(os.path.join(V, 'notes', pid + '*.md')))
    if not parts:
        out.append("(no note yet)\n")
    for p in parts:
        txt = open(p).read()
        # demote headings so they nest under the property heading
        txt = re.sub(r'^(#+) ', lambda m: '#' * (len(m.group(1)) + 3) + ' ', txt, flags=re.M)
        out.append(txt.strip() + "\n")
out.append("\n---------------------------------------------------------------------------------------------\n\n## 6. Defects found in /repo (from known_findings.txt)\n\n"
           "`fixed` = repaired by the named unguarded `fix:` commit (the check passes on the repaired tree and would report the violation again if it returned). "
           "`finding` = genuine, not repaired because no small safe patch exists; the check prints KNOWN-FINDING for exactly that key and still reports any other violation of the property.\n\n"
           "| property | status | commit / key | what failed |\n|---|---|---|---|\n")
rows = []
for l in rd('known_findings.txt').split('\n'):
    m = re.match(r'fixed:\s+property=(\S+)\s+(\S+)\s+(.*)', l)
    if m:
        rows.append((m.group(1), 'fixed', m.group(2)[:7], m.group(3)))
    m = re.match(r'finding:\s+property=(\S+)\s+key=(\S+)\s+(.*)', l)
    if m:
        rows.append((m.group(1), 'finding', m.group(2), m.group(3)))
for r in sorted(rows):
    out.append("| %s | %s | `%s` | %s |\n" % (r[0], r[1], r[2], r[3].replace('|', '\\|')))
out.append("\n---------------------------------------------------------------------------------------------\n\n")
out.append(rd('design/70-rest.md'))
# seeded changes
out.append("## 9. Seeded breaking changes and which checks catch them\n\n"
           "Each change below was written by an independent sub-agent that saw only the property text and its own scratch worktree of /repo (nothing from /verif), "
           "compiles, passes the pinned suite, and comes with a demonstration that fails with the change and passes without it (`seeded/<id>/`). "
           "`detected` is the verdict of `VERIF_REPO=<tree with the patch> bin/check Cxx` (quick tier unless noted).\n\n"
           "| id | property | change | needs to manifest | detected by |\n|---|---|---|---|---|\n")
for mp in sorted(glob.glob(os.path.join(V, 'seeded', '*', 'meta.json'))):
    try:
        m = json.load(open(mp))
    except Exception:
        continue
    out.append("| %s | %s | %s | %s | %s |\n" % (os.path.basename(os.path.dirname(mp)), m.get('property', ''), str(m.get('summary', '')).replace('|', '/'),
                                                 str(m.get('needs_to_manifest', '')).replace('|', '/'), str(m.get('detected_by', 'not yet run')).replace('|', '/')))
out.append("\n---------------------------------------------------------------------------------------------\n\n")
for extra in ('design/80-corrections.md', 'design/91-appendix-ab.md', 'design/90-original-plan.md'):
    if os.path.exists(os.path.join(V, extra)):
        out.append(rd(extra) + "\n")
open(os.path.join(V, 'DESIGN.md'), 'w').write(''.join(out))
print('DESIGN.md', sum(len(x) for x in out), 'bytes')
