"""Per-property configuration of bin/check."""

ALLOWED_AXIOMS = set([
    # standard-library axioms that may appear under Print Assumptions (none is declared by this
    # development; each one that actually appears is reported per theorem in the evidence file)
    'functional_extensionality_dep', 'FunctionalExtensionality.functional_extensionality_dep',
    'proof_irrelevance', 'ProofIrrelevance.proof_irrelevance', 'classic', 'Classical_Prop.classic',
    'JMeq_eq', 'JMeq.JMeq_eq', 'Eqdep.Eq_rect_eq.eq_rect_eq', 'eq_rect_eq',
])

TRUSTED_BASE = [
    'Coq 8.16.1 kernel (coqc; vm_compute used inside proofs for finite sweeps and witnesses; native_compute not used)',
    'no Axiom/Parameter/Admitted in the development (grepped on every run); axioms per theorem as printed by Print Assumptions are listed under axioms_per_theorem',
    'extraction: Require Extraction + ExtrOcamlBasic only (no Extract Constant / Extract Inductive of our own); OCaml 4.13.1 ocamlopt',
    'ocaml/driver.ml: char<->byte conversion and line I/O only; case parsing and comparison are Gallina (Base/Val.v, Corr/All.v)',
    'Go harness (harness/cmd/erpcharness) is trusted to report what the implementation did; it is rebuilt from /repo working tree with -tags verif on every run',
    'hook H0 (quic stub under build tag verif) replaces the QUIC transport in verif builds',
]

import glob as _glob, json as _json, os as _os
PROPS = {}
for _p in sorted(_glob.glob(_os.path.join(_os.path.dirname(_os.path.dirname(_os.path.abspath(__file__))), 'props', 'C*.json'))):
    PROPS[_os.path.basename(_p)[:-5]] = _json.load(open(_p))
