"""Per-property configuration of bin/check."""

ALLOWED_AXIOMS = set([
    # standard-library axioms that may appear under Print Assumptions (none is declared by this
    # development; each one that actually appears is reported per theorem in the evidence file)
    'functional_extensionality_dep', 'FunctionalExtensionality.functional_extensionality_dep',
    'proof_irrelevance', 'ProofIrrelevance.proof_irrelevance', 'classic', 'Classical_Prop.classic',
    'JMeq_eq', 'JMeq.JMeq_eq', 'Eqdep.Eq_rect_eq.eq_rect_eq', 'eq_rect_eq',
])

TRUSTED_BASE = [
    'Coq 8.16.1 kernel (coqc; vm_compute used inside proofs for finite sweeps and witnesses; native_compute not used)',
    'no Axiom/Parameter/Admitted in the development (grepped on every run); axioms per theorem as printed by Print Assumptions are listed under axioms_per_theorem',
    'extraction: Require Extraction + ExtrOcamlBasic only (no Extract Constant / Extract Inductive of our own); OCaml 4.13.1 ocamlopt',
    'ocaml/driver.ml: char<->byte conversion and line I/O only; case parsing and comparison are Gallina (Base/Val.v, Corr/All.v)',
    'Go harness (harness/cmd/erpcharness) is trusted to report what the implementation did; it is rebuilt from /repo working tree with -tags verif on every run',
    'hook H0 (quic stub under build tag verif) replaces the QUIC transport in verif builds',
]

PROPS = {
    'C12': dict(
        cmd='c12', n_quick=3000, n_thorough=40000,
        explanation='theorems over Model/Xfer.v for all pipes/payloads; correspondence of the model with xfer.XferPipe, md5 and test filters on generated pipes',
        assumptions=[
            'gzip (compress/gzip) is a library: its inversion is a hypothesis of C12_pipe_roundtrip (inverts f), exercised on every generated case',
            'MD5 collision resistance is not provable; C12_md5_single_byte_corruption states the exact residual (digest collision on the content)',
        ],
    ),
}
