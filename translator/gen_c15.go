// C15 tables: (1) every package-level *Status variable of the repository with its initial
// (code, msg, cause), plus the CodeText table; (2) every call site that mutates a *Status in
// place (SetCode/SetMsg/SetCause/Clear/DecodeQuery/UnmarshalJSON, and `*p = ...` through a
// *Status) with the provenance of its receiver; (3) the reset facts that make
// `m.Status(true)` on a pooled input message a fresh object.
//
// Analysis: go/parser + go/types over all packages of the repository except examples and
// tests. Imports are resolved from source for the repository's own packages and for
// github.com/henrylee2cn/goutil (module cache); the standard library is type-checked from
// GOROOT source; every other dependency is replaced by an empty package and the resulting
// type errors are ignored. A mutator call whose receiver type could not be resolved is NOT
// dropped: it is emitted with provenance "unresolved", which the Coq obligation rejects.
// Provenance is intra-procedural and syntactic on top of the resolved objects (see classify).
package main

import (
	"bytes"
	"encoding/json"
	"fmt"
	"go/ast"
	"go/build"
	"go/constant"
	"go/importer"
	"go/parser"
	"go/printer"
	"go/token"
	"go/types"
	"io/ioutil"
	"os"
	"path/filepath"
	"regexp"
	"sort"
	"strings"
)

func init() {
	register("C15Sentinels", genC15Sentinels)
	register("C15Sites", genC15Sites)
}

// ---------------------------------------------------------------- loading

type c15Pkg struct {
	path  string
	rel   string // directory relative to the repository root ("" for the root package)
	files []*ast.File
	names []string // file names relative to the repository root
	info  *types.Info
	tpkg  *types.Package
}

type c15World struct {
	repo    string
	modPath string
	goutil  string // directory of the goutil module
	fset    *token.FileSet
	pkgs    map[string]*c15Pkg
	loading map[string]bool
	std     types.Importer
	order   []*c15Pkg // repository packages, sorted by rel
	errs    int
}

var c15Cache = map[string]*c15World{}

func c15Load(repo string) (*c15World, error) {
	if w, ok := c15Cache[repo]; ok {
		return w, nil
	}
	gomod, err := ioutil.ReadFile(filepath.Join(repo, "go.mod"))
	if err != nil {
		return nil, err
	}
	w := &c15World{repo: repo, fset: token.NewFileSet(), pkgs: map[string]*c15Pkg{}, loading: map[string]bool{}}
	if m := regexp.MustCompile(`(?m)^module\s+(\S+)`).FindSubmatch(gomod); m != nil {
		w.modPath = string(m[1])
	} else {
		return nil, fmt.Errorf("no module line in go.mod")
	}
	if m := regexp.MustCompile(`(?m)^\s*github.com/henrylee2cn/goutil\s+(\S+)`).FindSubmatch(gomod); m != nil {
		for _, root := range c15ModRoots() {
			d := filepath.Join(root, "github.com", "henrylee2cn", "goutil@"+string(m[1]))
			if st, e := os.Stat(d); e == nil && st.IsDir() {
				w.goutil = d
				break
			}
		}
	}
	if w.goutil == "" {
		return nil, fmt.Errorf("goutil module not found in the module cache")
	}
	w.std = importer.ForCompiler(w.fset, "source", nil)
	var dirs []string
	err = filepath.Walk(repo, func(p string, fi os.FileInfo, err error) error {
		if err != nil {
			return err
		}
		if !fi.IsDir() {
			return nil
		}
		b := fi.Name()
		if p != repo && (strings.HasPrefix(b, ".") || strings.HasPrefix(b, "_") || b == "examples" || b == "testdata" || b == "vendor") {
			return filepath.SkipDir
		}
		dirs = append(dirs, p)
		return nil
	})
	if err != nil {
		return nil, err
	}
	sort.Strings(dirs)
	for _, d := range dirs {
		rel, _ := filepath.Rel(repo, d)
		if rel == "." {
			rel = ""
		}
		ip := w.modPath
		if rel != "" {
			ip += "/" + filepath.ToSlash(rel)
		}
		p, err := w.load(ip)
		if err != nil {
			return nil, err
		}
		if p != nil && p.tpkg != nil && p.tpkg.Name() != "main" {
			w.order = append(w.order, p)
		} else if p != nil && p.tpkg != nil {
			// commands inside the repository (benchmarks) are analysed too
			w.order = append(w.order, p)
		}
	}
	c15Cache[repo] = w
	return w, nil
}

func c15ModRoots() []string {
	var roots []string
	if v := os.Getenv("GOMODCACHE"); v != "" {
		roots = append(roots, v)
	}
	if v := os.Getenv("GOPATH"); v != "" {
		for _, g := range filepath.SplitList(v) {
			roots = append(roots, filepath.Join(g, "pkg", "mod"))
		}
	}
	if h, err := os.UserHomeDir(); err == nil {
		roots = append(roots, filepath.Join(h, "go", "pkg", "mod"))
	}
	roots = append(roots, "/root/go/pkg/mod")
	return roots
}

func (w *c15World) dirOf(path string) (dir string, own bool) {
	const gu = "github.com/henrylee2cn/goutil"
	switch {
	case path == w.modPath:
		return w.repo, true
	case strings.HasPrefix(path, w.modPath+"/"):
		return filepath.Join(w.repo, filepath.FromSlash(path[len(w.modPath)+1:])), true
	case path == gu:
		return w.goutil, true
	case strings.HasPrefix(path, gu+"/"):
		return filepath.Join(w.goutil, filepath.FromSlash(path[len(gu)+1:])), true
	}
	return "", false
}

// Import implements types.Importer.
func (w *c15World) Import(path string) (*types.Package, error) {
	if path == "unsafe" {
		return types.Unsafe, nil
	}
	if path == "C" {
		return types.NewPackage("C", "C"), nil
	}
	if _, own := w.dirOf(path); own {
		p, err := w.load(path)
		if err != nil || p == nil || p.tpkg == nil {
			return w.fake(path), nil
		}
		return p.tpkg, nil
	}
	first := path
	if i := strings.Index(path, "/"); i >= 0 {
		first = path[:i]
	}
	if !strings.Contains(first, ".") {
		if tp, err := w.std.Import(path); err == nil {
			return tp, nil
		}
	}
	return w.fake(path), nil
}

func (w *c15World) fake(path string) *types.Package {
	name := path[strings.LastIndex(path, "/")+1:]
	if regexp.MustCompile(`^v[0-9]+$`).MatchString(name) {
		rest := path[:strings.LastIndex(path, "/")]
		name = rest[strings.LastIndex(rest, "/")+1:]
	}
	name = strings.TrimSuffix(name, ".git")
	name = strings.Replace(name, "-", "_", -1)
	tp := types.NewPackage(path, name)
	tp.MarkComplete()
	return tp
}

func (w *c15World) load(path string) (*c15Pkg, error) {
	if p, ok := w.pkgs[path]; ok {
		return p, nil
	}
	if w.loading[path] {
		return nil, nil // import cycle through a fake: give up on this edge
	}
	w.loading[path] = true
	defer delete(w.loading, path)
	dir, _ := w.dirOf(path)
	ctxt := build.Default
	ctxt.CgoEnabled = false
	ctxt.BuildTags = nil
	bp, err := ctxt.ImportDir(dir, 0)
	if err != nil {
		if _, ok := err.(*build.NoGoError); ok {
			w.pkgs[path] = nil
			return nil, nil
		}
		if bp == nil || len(bp.GoFiles) == 0 {
			w.pkgs[path] = nil
			return nil, nil
		}
	}
	p := &c15Pkg{path: path}
	if strings.HasPrefix(dir, w.repo) {
		p.rel, _ = filepath.Rel(w.repo, dir)
		if p.rel == "." {
			p.rel = ""
		}
	} else {
		p.rel = "<goutil>"
	}
	names := append([]string(nil), bp.GoFiles...)
	sort.Strings(names)
	for _, n := range names {
		f, err := parser.ParseFile(w.fset, filepath.Join(dir, n), nil, parser.ParseComments)
		if err != nil {
			return nil, fmt.Errorf("parse %s: %v", filepath.Join(dir, n), err)
		}
		p.files = append(p.files, f)
		p.names = append(p.names, filepath.ToSlash(filepath.Join(p.rel, n)))
	}
	p.info = &types.Info{
		Types:      map[ast.Expr]types.TypeAndValue{},
		Uses:       map[*ast.Ident]types.Object{},
		Defs:       map[*ast.Ident]types.Object{},
		Selections: map[*ast.SelectorExpr]*types.Selection{},
	}
	conf := types.Config{Importer: w, Error: func(error) { w.errs++ }, FakeImportC: true}
	p.tpkg, _ = conf.Check(path, w.fset, p.files, p.info)
	w.pkgs[path] = p
	return p, nil
}

// ---------------------------------------------------------------- helpers

func c15IsStatusNamed(t types.Type) bool {
	if t == nil {
		return false
	}
	t = types.Unalias(t)
	n, ok := t.(*types.Named)
	if !ok {
		return false
	}
	o := n.Obj()
	return o != nil && o.Name() == "Status" && o.Pkg() != nil && strings.HasSuffix(o.Pkg().Path(), "goutil/status")
}

// 1 = *Status or Status, 0 = some other resolved type, -1 = unresolved
func c15StatusType(t types.Type) int {
	if t == nil {
		return -1
	}
	t = types.Unalias(t)
	if b, ok := t.(*types.Basic); ok && b.Kind() == types.Invalid {
		return -1
	}
	if p, ok := t.(*types.Pointer); ok {
		t = p.Elem()
		if b, ok := types.Unalias(t).(*types.Basic); ok && b.Kind() == types.Invalid {
			return -1
		}
	}
	if c15IsStatusNamed(t) {
		return 1
	}
	return 0
}

func c15Src(fset *token.FileSet, n ast.Node) string {
	var b bytes.Buffer
	printer.Fprint(&b, fset, n)
	s := strings.Join(strings.Fields(b.String()), " ")
	if len(s) > 90 {
		s = s[:90] + "..."
	}
	return s
}

func c15CoqStr(s string) string {
	var b strings.Builder
	b.WriteByte('"')
	for _, r := range s {
		switch {
		case r == '"':
			b.WriteString(`""`)
		case r < 32 || r > 126:
			b.WriteByte('?')
		default:
			b.WriteRune(r)
		}
	}
	b.WriteByte('"')
	return b.String()
}

func c15Unparen(e ast.Expr) ast.Expr {
	for {
		p, ok := e.(*ast.ParenExpr)
		if !ok {
			return e
		}
		e = p.X
	}
}

// ---------------------------------------------------------------- sentinel table

type c15Sentinel struct {
	Pkg, Name string
	Code      int64
	Msg       string
	HasCause  bool
	Cause     string
	Init      string
}

// codeText interprets `func CodeText(int32) string` of the root package: a single switch
// whose cases are constant lists and whose bodies are `return "literal"` or `fallthrough`.
func (w *c15World) codeText() (map[int64]string, string, error) {
	root := w.pkgs[w.modPath]
	if root == nil {
		return nil, "", fmt.Errorf("root package not loaded")
	}
	for _, f := range root.files {
		for _, d := range f.Decls {
			fd, ok := d.(*ast.FuncDecl)
			if !ok || fd.Recv != nil || fd.Name.Name != "CodeText" || fd.Body == nil {
				continue
			}
			var sw *ast.SwitchStmt
			for _, s := range fd.Body.List {
				if x, ok := s.(*ast.SwitchStmt); ok {
					sw = x
				}
			}
			if sw == nil {
				return nil, "", fmt.Errorf("CodeText: no switch")
			}
			table := map[int64]string{}
			def := ""
			clauses := sw.Body.List
			retOf := func(i int) (string, bool) {
				for ; i < len(clauses); i++ {
					cc := clauses[i].(*ast.CaseClause)
					if len(cc.Body) == 1 {
						if r, ok := cc.Body[0].(*ast.ReturnStmt); ok && len(r.Results) == 1 {
							if tv, ok := root.info.Types[r.Results[0]]; ok && tv.Value != nil && tv.Value.Kind() == constant.String {
								return constant.StringVal(tv.Value), true
							}
							return "", false
						}
						if b, ok := cc.Body[0].(*ast.BranchStmt); ok && b.Tok == token.FALLTHROUGH {
							continue
						}
					}
					return "", false
				}
				return "", false
			}
			for i, c := range clauses {
				cc := c.(*ast.CaseClause)
				txt, ok := retOf(i)
				if !ok {
					return nil, "", fmt.Errorf("CodeText: clause %d is not `return \"literal\"`", i)
				}
				if cc.List == nil {
					def = txt
					continue
				}
				for _, e := range cc.List {
					tv, ok := root.info.Types[e]
					if !ok || tv.Value == nil {
						return nil, "", fmt.Errorf("CodeText: non-constant case")
					}
					v, _ := constant.Int64Val(tv.Value)
					if _, dup := table[v]; !dup {
						table[v] = txt
					}
				}
			}
			return table, def, nil
		}
	}
	return nil, "", fmt.Errorf("CodeText not found")
}

var c15FreshFuncs = map[string]bool{
	"New": true, "NewWithStack": true, "FromQuery": true, "FromJSON": true,
	"NewStatus": true, "NewStatusWithStack": true, "NewStatusFromQuery": true, "NewStatusByCodeText": true,
}

func c15CalleeName(e ast.Expr) string {
	switch f := c15Unparen(e).(type) {
	case *ast.Ident:
		return f.Name
	case *ast.SelectorExpr:
		return f.Sel.Name
	}
	return ""
}

func (w *c15World) evalStatusInit(p *c15Pkg, e ast.Expr, ct map[int64]string, ctDef string, depth int) (*c15Sentinel, error) {
	if depth > 4 {
		return nil, fmt.Errorf("initializer too deep")
	}
	call, ok := c15Unparen(e).(*ast.CallExpr)
	if !ok {
		return nil, fmt.Errorf("initializer is not a call: %s", c15Src(w.fset, e))
	}
	cause := func(a ast.Expr, s *c15Sentinel) error {
		tv := p.info.Types[a]
		if tv.IsNil() {
			s.HasCause = false
			s.Cause = ""
			return nil
		}
		if tv.Value != nil && tv.Value.Kind() == constant.String {
			s.HasCause = true
			s.Cause = constant.StringVal(tv.Value)
			return nil
		}
		return fmt.Errorf("non-constant cause %s", c15Src(w.fset, a))
	}
	name := c15CalleeName(call.Fun)
	if sel, ok := c15Unparen(call.Fun).(*ast.SelectorExpr); ok && name == "Copy" && c15StatusType(p.info.TypeOf(sel.X)) == 1 {
		// X.Copy(cause): X must itself be a package-level status variable
		var base *c15Sentinel
		var id *ast.Ident
		switch x := c15Unparen(sel.X).(type) {
		case *ast.Ident:
			id = x
		case *ast.SelectorExpr:
			id = x.Sel
		}
		if id == nil {
			return nil, fmt.Errorf("Copy on a non-variable")
		}
		obj := p.info.Uses[id]
		if obj == nil {
			return nil, fmt.Errorf("unresolved %s", id.Name)
		}
		bp, be := w.findVarInit(obj)
		if be == nil {
			return nil, fmt.Errorf("no initializer for %s", id.Name)
		}
		var err error
		base, err = w.evalStatusInit(bp, be, ct, ctDef, depth+1)
		if err != nil {
			return nil, err
		}
		s := *base
		if len(call.Args) >= 1 {
			if tv := p.info.Types[call.Args[0]]; !tv.IsNil() {
				if err := cause(call.Args[0], &s); err != nil {
					return nil, err
				}
			}
		}
		return &s, nil
	}
	if (name == "NewStatus" || name == "New") && len(call.Args) >= 2 {
		s := &c15Sentinel{}
		tv := p.info.Types[call.Args[0]]
		if tv.Value == nil {
			return nil, fmt.Errorf("non-constant code %s", c15Src(w.fset, call.Args[0]))
		}
		s.Code, _ = constant.Int64Val(tv.Value)
		mv := p.info.Types[call.Args[1]]
		if mv.Value != nil && mv.Value.Kind() == constant.String {
			s.Msg = constant.StringVal(mv.Value)
		} else if mc, ok := c15Unparen(call.Args[1]).(*ast.CallExpr); ok && c15CalleeName(mc.Fun) == "CodeText" && len(mc.Args) == 1 {
			cv := p.info.Types[mc.Args[0]]
			if cv.Value == nil {
				return nil, fmt.Errorf("CodeText of a non-constant")
			}
			c, _ := constant.Int64Val(cv.Value)
			if t, ok := ct[c]; ok {
				s.Msg = t
			} else {
				s.Msg = ctDef
			}
		} else {
			return nil, fmt.Errorf("message is neither a constant nor CodeText(const): %s", c15Src(w.fset, call.Args[1]))
		}
		if len(call.Args) >= 3 {
			if err := cause(call.Args[2], s); err != nil {
				return nil, err
			}
		}
		return s, nil
	}
	return nil, fmt.Errorf("unsupported initializer %s", c15Src(w.fset, e))
}

func (w *c15World) findVarInit(obj types.Object) (*c15Pkg, ast.Expr) {
	for _, p := range w.pkgs {
		if p == nil || p.tpkg != obj.Pkg() {
			continue
		}
		for _, f := range p.files {
			for _, d := range f.Decls {
				gd, ok := d.(*ast.GenDecl)
				if !ok || gd.Tok != token.VAR {
					continue
				}
				for _, sp := range gd.Specs {
					vs := sp.(*ast.ValueSpec)
					for i, n := range vs.Names {
						if p.info.Defs[n] == obj && len(vs.Values) == len(vs.Names) {
							return p, vs.Values[i]
						}
					}
				}
			}
		}
	}
	return nil, nil
}

// sentinels lists every package-level variable of type *Status in the analysed packages.
func (w *c15World) sentinels() ([]c15Sentinel, map[types.Object]bool, error) {
	ct, ctDef, err := w.codeText()
	if err != nil {
		return nil, nil, err
	}
	var out []c15Sentinel
	objs := map[types.Object]bool{}
	for _, p := range w.order {
		for fi, f := range p.files {
			for _, d := range f.Decls {
				gd, ok := d.(*ast.GenDecl)
				if !ok || gd.Tok != token.VAR {
					continue
				}
				for _, sp := range gd.Specs {
					vs := sp.(*ast.ValueSpec)
					for i, n := range vs.Names {
						obj := p.info.Defs[n]
						if obj == nil || n.Name == "_" {
							continue
						}
						if _, isPtr := types.Unalias(obj.Type()).(*types.Pointer); !isPtr || c15StatusType(obj.Type()) != 1 {
							continue
						}
						objs[obj] = true
						// An initializer this generator cannot evaluate is not an error of the
						// run (other properties share the translator): it is emitted with the
						// impossible code -999, which the C15 obligations reject.
						var s *c15Sentinel
						var err error
						if len(vs.Values) != len(vs.Names) {
							err = fmt.Errorf("no initializer of its own")
						} else {
							s, err = w.evalStatusInit(p, vs.Values[i], ct, ctDef, 0)
						}
						if err != nil {
							s = &c15Sentinel{Code: -999, Msg: "UNEVALUABLE: " + err.Error()}
						} else {
							s.Init = c15Src(w.fset, vs.Values[i])
						}
						s.Pkg = p.rel
						s.Name = n.Name
						_ = fi
						out = append(out, *s)
					}
				}
			}
		}
	}
	return out, objs, nil
}

func genC15Sentinels(repo string) (string, string, error) {
	w, err := c15Load(repo)
	if err != nil {
		return "", "", err
	}
	sents, _, err := w.sentinels()
	if err != nil {
		return "", "", err
	}
	ct, ctDef, err := w.codeText()
	if err != nil {
		return "", "", err
	}
	var b strings.Builder
	b.WriteString("(* GENERATED by translator/gen_c15.go from the current source of the repository. Do not edit.\n")
	b.WriteString("   sentinels: every package-level variable of type *Status (all packages except examples and\n")
	b.WriteString("   tests): (package directory, name, code, msg, cause) with cause = None for a nil error.\n")
	b.WriteString("   code_text: the cases of erpc.CodeText; code_text_default: its default branch. *)\n")
	b.WriteString("From Coq Require Import Strings.String.\nFrom Coq Require Import List ZArith.\nImport ListNotations.\nLocal Open Scope string_scope.\n\n")
	b.WriteString("Definition sentinels : list (string * string * Z * string * option string) := [\n")
	for i, s := range sents {
		c := "None"
		if s.HasCause {
			c = "Some " + c15CoqStr(s.Cause)
		}
		sep := ";"
		if i == len(sents)-1 {
			sep = ""
		}
		fmt.Fprintf(&b, "  (%s, %s, (%d)%%Z, %s, %s)%s\n", c15CoqStr(s.Pkg), c15CoqStr(s.Name), s.Code, c15CoqStr(s.Msg), c, sep)
	}
	b.WriteString("].\n\n")
	var codes []int64
	for c := range ct {
		codes = append(codes, c)
	}
	sort.Slice(codes, func(i, j int) bool { return codes[i] < codes[j] })
	b.WriteString("Definition code_text : list (Z * string) := [\n")
	for i, c := range codes {
		sep := ";"
		if i == len(codes)-1 {
			sep = ""
		}
		fmt.Fprintf(&b, "  ((%d)%%Z, %s)%s\n", c, c15CoqStr(ct[c]), sep)
	}
	b.WriteString("].\n\n")
	fmt.Fprintf(&b, "Definition code_text_default : string := %s.\n", c15CoqStr(ctDef))
	js, _ := json.MarshalIndent(map[string]interface{}{"sentinels": sents, "type_errors_ignored": w.errs}, "", " ")
	return b.String(), string(js), nil
}

// ---------------------------------------------------------------- mutator call sites

type c15Site struct {
	File, Func, Method, Recv, Prov string
	Line                         int
}

var c15Mutators = map[string]bool{"SetCode": true, "SetMsg": true, "SetCause": true, "Clear": true, "DecodeQuery": true, "UnmarshalJSON": true}

// methods of *Status that return their receiver
var c15Chain = map[string]bool{"SetCode": true, "SetMsg": true, "SetCause": true, "TagStack": true}

var c15Rank = map[string]int{"fresh": 0, "copy": 1, "msgstatus": 2, "param": 3, "field": 4, "callresult": 5, "unknown": 6, "global": 7, "sentinel": 8, "unresolved": 9}

func c15Worse(a, b string) string {
	if c15Rank[b] > c15Rank[a] {
		return b
	}
	return a
}

type c15Func struct {
	p    *c15Pkg
	decl *ast.FuncDecl // outermost enclosing function declaration (nil at package level)
	w    *c15World
	sent map[types.Object]bool
}

// classify returns the provenance of a *Status expression:
//
//	fresh       NewStatus/status.New/NewStatusWithStack/NewStatusFromQuery/NewStatusByCodeText/
//	            FromJSON, new(Status), &Status{...}
//	copy        X.Copy(...) on a *Status (allocates)
//	msgstatus   M.Status(true) (the message's own status object, allocated when absent)
//	param       a parameter, named result or receiver of the enclosing function
//	field       a struct field
//	callresult  the result of any other call (may return a shared object)
//	global      a package-level variable that is not in the sentinel table
//	sentinel    a package-level *Status variable
//	unknown     anything else
//
// A local variable gets the worst provenance over all assignments to it anywhere in the
// enclosing function declaration (closures included).
func (fc *c15Func) classify(e ast.Expr, seen map[types.Object]bool, depth int) string {
	if depth > 8 {
		return "unknown"
	}
	info := fc.p.info
	switch x := c15Unparen(e).(type) {
	case *ast.CallExpr:
		if id, ok := c15Unparen(x.Fun).(*ast.Ident); ok && id.Name == "new" && len(x.Args) == 1 {
			if _, isB := info.Uses[id].(*types.Builtin); isB {
				return "fresh"
			}
		}
		if sel, ok := c15Unparen(x.Fun).(*ast.SelectorExpr); ok {
			st := c15StatusType(info.TypeOf(sel.X))
			if sel.Sel.Name == "Copy" && st == 1 {
				return "copy"
			}
			if c15Chain[sel.Sel.Name] && st == 1 {
				return fc.classify(sel.X, seen, depth+1)
			}
			if sel.Sel.Name == "Status" && len(x.Args) == 1 {
				if a, ok := x.Args[0].(*ast.Ident); ok && a.Name == "true" {
					return "msgstatus"
				}
			}
		}
		if c15FreshFuncs[c15CalleeName(x.Fun)] {
			// the callee must be the status package's constructor or one of the root
			// package's aliases of it (package-level func-typed variables)
			var id *ast.Ident
			switch f := c15Unparen(x.Fun).(type) {
			case *ast.Ident:
				id = f
			case *ast.SelectorExpr:
				id = f.Sel
			}
			if obj := info.Uses[id]; obj != nil && obj.Pkg() != nil {
				pp := obj.Pkg().Path()
				if strings.HasSuffix(pp, "goutil/status") || pp == fc.w.modPath || pp == fc.w.modPath+"/socket" {
					return "fresh"
				}
			}
		}
		return "callresult"
	case *ast.UnaryExpr:
		if x.Op == token.AND {
			if _, ok := c15Unparen(x.X).(*ast.CompositeLit); ok {
				return "fresh"
			}
		}
		return "unknown"
	case *ast.SelectorExpr:
		if obj, ok := info.Uses[x.Sel].(*types.Var); ok {
			if obj.IsField() {
				return "field"
			}
			if obj.Parent() != nil && obj.Parent() == obj.Pkg().Scope() {
				if fc.sent[obj] {
					return "sentinel"
				}
				return "global"
			}
		}
		return "unknown"
	case *ast.Ident:
		obj, ok := info.Uses[x].(*types.Var)
		if !ok {
			return "unknown"
		}
		if obj.Pkg() != nil && obj.Parent() == obj.Pkg().Scope() {
			if fc.sent[obj] {
				return "sentinel"
			}
			return "global"
		}
		if seen[obj] {
			return "fresh" // neutral element: a cycle adds nothing
		}
		seen[obj] = true
		if fc.decl == nil {
			return "unknown"
		}
		// parameter / result / receiver of any function (declaration or literal) in scope?
		isParam := false
		ast.Inspect(fc.decl, func(n ast.Node) bool {
			var ft *ast.FuncType
			var recv *ast.FieldList
			switch f := n.(type) {
			case *ast.FuncDecl:
				ft, recv = f.Type, f.Recv
			case *ast.FuncLit:
				ft = f.Type
			}
			if ft == nil {
				return true
			}
			for _, fl := range []*ast.FieldList{recv, ft.Params, ft.Results} {
				if fl == nil {
					continue
				}
				for _, fd := range fl.List {
					for _, nm := range fd.Names {
						if info.Defs[nm] == obj {
							isParam = true
						}
					}
				}
			}
			return true
		})
		res := ""
		found := false
		add := func(c string) {
			if !found {
				res, found = c, true
			} else {
				res = c15Worse(res, c)
			}
		}
		if isParam {
			add("param")
		}
		ast.Inspect(fc.decl, func(n ast.Node) bool {
			switch s := n.(type) {
			case *ast.AssignStmt:
				for i, l := range s.Lhs {
					id, ok := c15Unparen(l).(*ast.Ident)
					if !ok {
						continue
					}
					if info.Defs[id] != obj && info.Uses[id] != obj {
						continue
					}
					if len(s.Lhs) == len(s.Rhs) {
						add(fc.classify(s.Rhs[i], seen, depth+1))
					} else {
						add("callresult")
					}
				}
			case *ast.ValueSpec:
				for i, nm := range s.Names {
					if info.Defs[nm] != obj {
						continue
					}
					if len(s.Values) == len(s.Names) {
						add(fc.classify(s.Values[i], seen, depth+1))
					} else if len(s.Values) == 0 {
						// var x *Status : nil until assigned
					} else {
						add("callresult")
					}
				}
			case *ast.RangeStmt:
				for _, l := range []ast.Expr{s.Key, s.Value} {
					if id, ok := l.(*ast.Ident); ok && (info.Defs[id] == obj || info.Uses[id] == obj) {
						add("unknown")
					}
				}
			}
			return true
		})
		if !found {
			return "unknown"
		}
		return res
	}
	return "unknown"
}

func (w *c15World) sites() ([]c15Site, error) {
	_, sentObjs, err := w.sentinels()
	if err != nil {
		return nil, err
	}
	var out []c15Site
	for _, p := range w.order {
		for fi, f := range p.files {
			for _, d := range f.Decls {
				fd, _ := d.(*ast.FuncDecl)
				fname := "<package>"
				if fd != nil {
					fname = fd.Name.Name
					if fd.Recv != nil && len(fd.Recv.List) == 1 {
						fname = strings.TrimPrefix(c15Src(w.fset, fd.Recv.List[0].Type), "*") + "." + fname
					}
				}
				fc := &c15Func{p: p, decl: fd, w: w, sent: sentObjs}
				ast.Inspect(d, func(n ast.Node) bool {
					switch x := n.(type) {
					case *ast.CallExpr:
						sel, ok := c15Unparen(x.Fun).(*ast.SelectorExpr)
						if !ok || !c15Mutators[sel.Sel.Name] {
							return true
						}
						// a package-qualified function (pkg.Clear(...)) is not a method call
						if id, ok := c15Unparen(sel.X).(*ast.Ident); ok {
							if _, isPkg := p.info.Uses[id].(*types.PkgName); isPkg {
								return true
							}
						}
						st := c15StatusType(p.info.TypeOf(sel.X))
						if st == 0 {
							return true
						}
						prov := "unresolved"
						if st == 1 {
							prov = fc.classify(sel.X, map[types.Object]bool{}, 0)
						}
						out = append(out, c15Site{File: p.names[fi], Func: fname, Method: sel.Sel.Name,
							Recv: c15Src(w.fset, sel.X), Prov: prov, Line: w.fset.Position(x.Pos()).Line})
					case *ast.AssignStmt:
						for _, l := range x.Lhs {
							star, ok := c15Unparen(l).(*ast.StarExpr)
							if !ok {
								continue
							}
							if c15StatusType(p.info.TypeOf(star.X)) != 1 {
								continue
							}
							out = append(out, c15Site{File: p.names[fi], Func: fname, Method: "StarAssign",
								Recv: c15Src(w.fset, star.X), Prov: fc.classify(star.X, map[types.Object]bool{}, 0),
								Line: w.fset.Position(x.Pos()).Line})
						}
					}
					return true
				})
			}
		}
	}
	sort.SliceStable(out, func(i, j int) bool {
		if out[i].File != out[j].File {
			return out[i].File < out[j].File
		}
		return out[i].Line < out[j].Line
	})
	return out, nil
}

// hasStmt reports whether function `fn` (optionally with receiver type name recv) in package
// directory rel contains a statement whose source text matches re.
func (w *c15World) hasStmt(rel, recv, fn string, re *regexp.Regexp) bool {
	for _, p := range w.order {
		if p.rel != rel {
			continue
		}
		for _, f := range p.files {
			for _, d := range f.Decls {
				fd, ok := d.(*ast.FuncDecl)
				if !ok || fd.Name.Name != fn || fd.Body == nil {
					continue
				}
				r := ""
				if fd.Recv != nil && len(fd.Recv.List) == 1 {
					r = strings.TrimPrefix(c15Src(w.fset, fd.Recv.List[0].Type), "*")
				}
				if r != recv {
					continue
				}
				for _, s := range fd.Body.List { // top-level, unconditional statements only
					if re.MatchString(c15Src(w.fset, s)) {
						return true
					}
				}
			}
		}
	}
	return false
}

func genC15Sites(repo string) (string, string, error) {
	w, err := c15Load(repo)
	if err != nil {
		return "", "", err
	}
	sites, err := w.sites()
	if err != nil {
		return "", "", err
	}
	facts := []struct {
		name string
		ok   bool
	}{
		{"message_reset_clears_status", w.hasStmt("socket", "message", "Reset", regexp.MustCompile(`^m\.status = nil$`))},
		{"put_message_resets", w.hasStmt("socket", "", "PutMessage", regexp.MustCompile(`^m\.Reset\(\)$`))},
		{"ctx_clean_resets_input", w.hasStmt("", "handlerCtx", "clean", regexp.MustCompile(`^c\.input\.Reset\(`))},
		{"get_context_cleans", w.hasStmt("", "peer", "getContext", regexp.MustCompile(`^ctx\.clean\(\)$`))},
	}
	var b strings.Builder
	b.WriteString("(* GENERATED by translator/gen_c15.go from the current source of the repository. Do not edit.\n")
	b.WriteString("   sites: every in-place mutation of a *Status (SetCode/SetMsg/SetCause/Clear/DecodeQuery/\n")
	b.WriteString("   UnmarshalJSON calls, and assignments through a *Status) outside examples and tests:\n")
	b.WriteString("   (file, enclosing function, method, receiver expression, provenance of the receiver).\n")
	b.WriteString("   reset facts: unconditional top-level statements found in the named functions. *)\n")
	b.WriteString("From Coq Require Import Strings.String.\nFrom Coq Require Import List.\nImport ListNotations.\nLocal Open Scope string_scope.\n\n")
	b.WriteString("Definition sites : list (string * string * string * string * string) := [\n")
	for i, s := range sites {
		sep := ";"
		if i == len(sites)-1 {
			sep = ""
		}
		fmt.Fprintf(&b, "  (%s, %s, %s, %s, %s)%s\n", c15CoqStr(s.File), c15CoqStr(s.Func), c15CoqStr(s.Method), c15CoqStr(s.Recv), c15CoqStr(s.Prov), sep)
	}
	b.WriteString("].\n\n")
	for _, f := range facts {
		v := "false"
		if f.ok {
			v = "true"
		}
		fmt.Fprintf(&b, "Definition %s : bool := %s.\n", f.name, v)
	}
	js, _ := json.MarshalIndent(map[string]interface{}{"sites": sites, "type_errors_ignored": w.errs}, "", " ")
	return b.String(), string(js), nil
}
