// Translator: regenerates Coq tables from /repo's current source on every run.
// Each generator lives in its own file and registers itself in init():
//
//	func init() { register("C20Reset", genC20Reset) }
//
// A generator receives the repository root and returns the text of
// coq/theories/Generated/<Name>.v (plus an optional JSON summary for evidence).
// Only the standard library (go/ast, go/parser, go/token, go/types) is used.
package main

import (
	"flag"
	"fmt"
	"io/ioutil"
	"os"
	"path/filepath"
	"sort"
)

type generator func(repo string) (coq string, summary string, err error)

var generators = map[string]generator{}

func register(name string, g generator) { generators[name] = g }

func main() {
	repo := flag.String("repo", "/repo", "repository root")
	out := flag.String("out", ".", "output directory")
	flag.Parse()
	names := make([]string, 0, len(generators))
	for n := range generators {
		names = append(names, n)
	}
	sort.Strings(names)
	for _, n := range names {
		coq, summary, err := generators[n](*repo)
		if err != nil {
			fmt.Fprintf(os.Stderr, "translator %s: %v\n", n, err)
			os.Exit(1)
		}
		if err := ioutil.WriteFile(filepath.Join(*out, n+".v"), []byte(coq), 0o644); err != nil {
			fmt.Fprintln(os.Stderr, err)
			os.Exit(1)
		}
		if summary != "" {
			ioutil.WriteFile(filepath.Join(*out, n+".json"), []byte(summary), 0o644)
		}
		fmt.Printf("generated %s.v\n", n)
	}
}
