module veriftranslator

go 1.14
