// gen_c14locks: lockset access table for property C14.
//
// Walks the packages named by the property (root package, socket, utils,
// proto/thriftproto, plugin/overloader; all non-test, non-verif_* files) with go/ast and
// go/types (export data of dependencies comes from `go list -export`, run read-only and
// offline) and emits one row per syntactic access to a field of a tracked struct:
//
//	(struct, field, function, write?, atomic?, pre-publication?, locks lexically held, line)
//
// Approximations (stated, trusted):
//   - locks are tracked lexically inside one function body: X.Lock()/RLock() adds, X.Unlock()/
//     RUnlock() removes, `defer X.Unlock()` keeps the lock to the end of the function; the state
//     after a branching statement is the intersection of the states of the branches that fall
//     through; a function literal starts with no locks (it may run on another goroutine);
//   - a held lock counts for an access only when the lock's base expression is a prefix of the
//     access's base expression (`s.mu` protects `s.f` and `s.a.b.f`, not `t.f`);
//   - "caller holds" summaries (committed below, each call site is checked and reported in
//     c14_calls) add locks at function entry;
//   - methods of passive structs (no lock of their own: the counters, the limiters) are
//     attributed to their call sites with the caller's locks; `go x.m()` starts with no locks;
//   - an access through a local variable that was bound in the same function body to a composite
//     literal, new(T) or a new*/New* constructor call is pre-publication (ownership phase);
//   - sync.WaitGroup fields: Add is a read and Wait a write of the group (the rule "Add with a
//     zero counter must happen before Wait", as annotated in package sync for the race
//     detector); Done is not an access. Mutex-typed fields are locks, not locations.
package main

import (
	"bytes"
	"encoding/json"
	"fmt"
	"go/ast"
	"go/importer"
	"go/parser"
	"go/token"
	"go/types"
	"io"
	"os"
	"os/exec"
	"path/filepath"
	"sort"
	"strings"
)

func init() { register("C14Locks", genC14Locks) }

const c14mod = "github.com/henrylee2cn/erpc/v6"

var c14pkgs = []string{"", "/socket", "/utils", "/proto/thriftproto", "/plugin/overloader", "/plugin/heartbeat", "/xfer/gzip"}

// tracked structs, by package-qualified name
var c14tracked = map[string]bool{
	"erpc.session": true, "erpc.callCmd": true, "erpc.handlerCtx": true, "erpc.peer": true,
	"erpc.SessionHub": true, "erpc.PluginContainer": true, "erpc.pluginSingleContainer": true,
	"socket.socket":            true,
	"thriftproto.tBinaryProto": true, "thriftproto.tStructProto": true,
	"utils.ReadWriteCounter": true, "utils.ReadCounter": true, "utils.WriteCounter": true,
	"overloader.Overloader": true, "overloader.connLimiter": true, "overloader.qpsLimiter": true,
	"heartbeat.heartbeatInfo": true, "heartbeat.heartPing": true,
	"gzip.Gzip": true,
}

// named types declared as another tracked struct type share its fields and lock classes
// (`type tStructProto tBinaryProto`)
var c14structAlias = map[string]string{"tStructProto": "tBinaryProto"}

func c14canon(name string) string {
	if a, ok := c14structAlias[name]; ok {
		return a
	}
	return name
}

// passive structs: their methods are attributed to call sites
var c14passive = map[string]bool{
	"utils.ReadWriteCounter": true, "utils.ReadCounter": true, "utils.WriteCounter": true,
	"overloader.connLimiter": true, "overloader.qpsLimiter": true,
}

// caller-holds summaries: function -> locks held at entry, as (path relative to the receiver,
// lock class, write mode). Call sites are checked (c14_calls) except where noted.
type c14sumLock struct {
	rel   string // "" = receiver itself, ".callCmd" = receiver.callCmd
	class string
	write bool
}

var c14summaries = map[string][]c14sumLock{
	"erpc.session.closeLocked":   {{"", "session.lock", true}},
	"erpc.callCmd.done":          {{"", "callCmd.mu", true}},
	"erpc.callCmd.cancel":        {{"", "callCmd.mu", true}},
	"erpc.callCmd.hasReply":      {{"", "callCmd.mu", true}},
	"socket.socket.initOptimize": {{"", "socket.mu", true}},
	// bindReply locks callCmd.mu and returns with it held; handleReply (same message, next
	// goroutine, started with `go`) unlocks it. Not checkable lexically: unchecked summary.
	// helpers of Overloader.Update, which holds limitConfigLock for the whole update
	"overloader.Overloader.updateConnLimiter":     {{"", "Overloader.limitConfigLock", true}},
	"overloader.Overloader.updateTotalQPSLimiter": {{"", "Overloader.limitConfigLock", true}},
	"overloader.Overloader.updateHandlerLimiter":  {{"", "Overloader.limitConfigLock", true}},
	"erpc.handlerCtx.handleReply":                 {{".callCmd", "callCmd.mu", true}},
	"erpc.handlerCtx.abortReply":                  {{".callCmd", "callCmd.mu", true}}, // same hand-over, read loop side
}

// closures stored in a field and documented as "called with the lock held"
var c14fieldSummaries = map[string][]c14sumLock{
	"redialForClientLocked": {{"", "session.lock", true}},
}

var c14uncheckedSummaries = map[string]bool{"erpc.handlerCtx.handleReply": true, "erpc.handlerCtx.abortReply": true}

type c14lock struct {
	base  string
	class string
	write bool
}

type c14row struct {
	Struct, Field, Fn  string
	Write, Atomic, Pre bool
	Locks              []c14lock // only related locks survive into the output
	Line               int
	File               string
	base               string
}

type c14call struct {
	Callee, Caller string
	Ok             bool
	Line           int
}

type c14listPkg struct {
	ImportPath string
	Dir        string
	GoFiles    []string
	Export     string
	ImportMap  map[string]string
}

type c14gen struct {
	fset    *token.FileSet
	pkgs    map[string]*c14listPkg
	rows    []c14row
	calls   []c14call
	info    *types.Info
	pkgName string
	// passive method summaries, computed lazily: key "pkg.Type.method"
	methodDecls map[string]*ast.FuncDecl
	methodInfo  map[string]*types.Info
	methodPkg   map[string]string
	all         []*c14parsed
}

// c14parsed is one type-checked package of c14pkgs.
type c14parsed struct {
	path  string
	files []*ast.File
	names []string
	info  *types.Info
	name  string
}

var c14loaded = map[string]*c14gen{}

// c14load lists, parses and type-checks the packages once per repository root (the access
// table and the handed-results table - gen_c14handed.go - share the result).
func c14load(repo string) (*c14gen, error) {
	if g, ok := c14loaded[repo]; ok {
		return g, nil
	}
	g, err := c14loadFresh(repo)
	if err != nil {
		return nil, err
	}
	c14loaded[repo] = g
	return g, nil
}

func c14loadFresh(repo string) (*c14gen, error) {
	g := &c14gen{fset: token.NewFileSet(), pkgs: map[string]*c14listPkg{},
		methodDecls: map[string]*ast.FuncDecl{}, methodInfo: map[string]*types.Info{}, methodPkg: map[string]string{}}
	args := []string{"list", "-json", "-deps", "-export", "-tags", "verif"}
	for _, p := range c14pkgs {
		args = append(args, c14mod+p)
	}
	// go.mod / go.sum are used through copies (-modfile): the repository tree is never written,
	// and a scratch worktree without go.sum (it is git-ignored in /repo) still resolves offline.
	tmp, err := os.MkdirTemp("", "c14locks")
	if err != nil {
		return nil, err
	}
	defer os.RemoveAll(tmp)
	gomod, err := os.ReadFile(filepath.Join(repo, "go.mod"))
	if err != nil {
		return nil, err
	}
	if err := os.WriteFile(filepath.Join(tmp, "go.mod"), gomod, 0o644); err != nil {
		return nil, err
	}
	for _, cand := range []string{filepath.Join(repo, "go.sum"), "/repo/go.sum", "/verif/harness/go.sum.base"} {
		if b, err := os.ReadFile(cand); err == nil {
			if err := os.WriteFile(filepath.Join(tmp, "go.sum"), b, 0o644); err != nil {
				return nil, err
			}
			break
		}
	}
	args = append(args[:1], append([]string{"-modfile", filepath.Join(tmp, "go.mod")}, args[1:]...)...)
	cmd := exec.Command("go", args...)
	cmd.Dir = repo
	env := []string{}
	for _, e := range os.Environ() {
		if strings.HasPrefix(e, "GOFLAGS=") {
			continue
		}
		env = append(env, e)
	}
	cmd.Env = append(env, "GOFLAGS=-mod=readonly", "GOPROXY=off", "GOSUMDB=off", "GOTOOLCHAIN=local")
	var stderr bytes.Buffer
	cmd.Stderr = &stderr
	out, err := cmd.Output()
	if err != nil {
		return nil, fmt.Errorf("go list: %v: %s", err, stderr.String())
	}
	dec := json.NewDecoder(bytes.NewReader(out))
	for {
		var p c14listPkg
		if err := dec.Decode(&p); err == io.EOF {
			break
		} else if err != nil {
			return nil, err
		}
		pp := p
		g.pkgs[p.ImportPath] = &pp
	}
	var all []*c14parsed
	for _, suffix := range c14pkgs {
		path := c14mod + suffix
		lp := g.pkgs[path]
		if lp == nil {
			return nil, fmt.Errorf("package %s not listed", path)
		}
		pr := &c14parsed{path: path}
		for _, f := range lp.GoFiles {
			af, err := parser.ParseFile(g.fset, filepath.Join(lp.Dir, f), nil, parser.ParseComments)
			if err != nil {
				return nil, err
			}
			pr.files = append(pr.files, af)
			pr.names = append(pr.names, f)
		}
		pr.info = &types.Info{Types: map[ast.Expr]types.TypeAndValue{}, Selections: map[*ast.SelectorExpr]*types.Selection{},
			Uses: map[*ast.Ident]types.Object{}, Defs: map[*ast.Ident]types.Object{}}
		conf := types.Config{Importer: &c14importer{g: g, from: lp, imp: map[string]*types.Package{}}, Error: func(error) {}}
		conf.Importer.(*c14importer).base = importer.ForCompiler(g.fset, "gc", conf.Importer.(*c14importer).lookup)
		tp, err := conf.Check(path, g.fset, pr.files, pr.info)
		if err != nil && tp == nil {
			return nil, fmt.Errorf("type-check %s: %v", path, err)
		}
		pr.name = tp.Name()
		all = append(all, pr)
		// index method declarations for passive inlining
		for _, af := range pr.files {
			for _, d := range af.Decls {
				fd, ok := d.(*ast.FuncDecl)
				if !ok || fd.Recv == nil || fd.Body == nil {
					continue
				}
				key := pr.name + "." + recvTypeName(fd) + "." + fd.Name.Name
				g.methodDecls[key] = fd
				g.methodInfo[key] = pr.info
				g.methodPkg[key] = pr.name
			}
		}
	}
	g.all = all
	return g, nil
}

func genC14Locks(repo string) (string, string, error) {
	g, err := c14load(repo)
	if err != nil {
		return "", "", err
	}
	all := g.all
	for _, pr := range all {
		g.info = pr.info
		g.pkgName = pr.name
		for i, af := range pr.files {
			fname := pr.names[i]
			if strings.HasPrefix(fname, "verif_") {
				continue
			}
			for _, d := range af.Decls {
				fd, ok := d.(*ast.FuncDecl)
				if !ok || fd.Body == nil {
					continue
				}
				name := fd.Name.Name
				recv := ""
				if fd.Recv != nil {
					tn := recvTypeName(fd)
					name = tn + "." + name
					if c14passive[pr.name+"."+tn] {
						continue // attributed to call sites
					}
					if len(fd.Recv.List) > 0 && len(fd.Recv.List[0].Names) > 0 {
						recv = fd.Recv.List[0].Names[0].Name
					}
				}
				w := &c14walker{g: g, fn: name, file: fname, fresh: map[string]bool{}, closures: 0}
				var ls []c14lock
				for _, sl := range c14summaries[pr.name+"."+name] {
					ls = append(ls, c14lock{base: recv + sl.rel, class: sl.class, write: sl.write})
				}
				w.block(fd.Body.List, ls)
			}
		}
	}
	// promoted methods of embedded interface fields of tracked structs read the embedded field
	// (socket embeds net.Conn: s.LocalAddr(), s.SetReadDeadline(...), s.Write(...) go through
	// compiler-generated wrappers that load s.Conn without any lock).
	for _, pr := range all {
		for _, af := range pr.files {
			for _, d := range af.Decls {
				gd, ok := d.(*ast.GenDecl)
				if !ok {
					continue
				}
				for _, sp := range gd.Specs {
					ts, ok := sp.(*ast.TypeSpec)
					if !ok || !c14tracked[pr.name+"."+ts.Name.Name] {
						continue
					}
					obj := pr.info.Defs[ts.Name]
					if obj == nil {
						continue
					}
					named, ok := obj.Type().(*types.Named)
					if !ok {
						continue
					}
					ms := types.NewMethodSet(types.NewPointer(named))
					for i := 0; i < ms.Len(); i++ {
						sel := ms.At(i)
						if len(sel.Index()) < 2 {
							continue
						}
						st, ok := named.Underlying().(*types.Struct)
						if !ok {
							continue
						}
						f := st.Field(sel.Index()[0])
						if _, isIface := f.Type().Underlying().(*types.Interface); !isIface {
							continue
						}
						g.rows = append(g.rows, c14row{Struct: ts.Name.Name, Field: f.Name(), Fn: "promoted:" + sel.Obj().Name(),
							Line: g.fset.Position(ts.Pos()).Line, File: filepath.Base(g.fset.Position(ts.Pos()).Filename)})
					}
				}
			}
		}
	}
	return g.render()
}

func recvTypeName(fd *ast.FuncDecl) string {
	if fd.Recv == nil || len(fd.Recv.List) == 0 {
		return ""
	}
	t := fd.Recv.List[0].Type
	if s, ok := t.(*ast.StarExpr); ok {
		t = s.X
	}
	if id, ok := t.(*ast.Ident); ok {
		return id.Name
	}
	return ""
}

// ---- importer over `go list -export` data ----

type c14importer struct {
	g    *c14gen
	from *c14listPkg
	base types.Importer
	imp  map[string]*types.Package
}

func (im *c14importer) lookup(path string) (io.ReadCloser, error) {
	p := im.g.pkgs[path]
	if p == nil || p.Export == "" {
		return nil, fmt.Errorf("no export data for %s", path)
	}
	return os.Open(p.Export)
}

func (im *c14importer) Import(path string) (*types.Package, error) {
	if path == "unsafe" {
		return types.Unsafe, nil
	}
	if im.from != nil && im.from.ImportMap != nil {
		if m, ok := im.from.ImportMap[path]; ok {
			path = m
		}
	}
	return im.base.Import(path)
}

// ---- walker ----

type c14walker struct {
	g        *c14gen
	fn       string
	file     string
	fresh    map[string]bool
	alias    map[string]string // local variable -> expression it was bound to (x := o.f[k])
	closures int
	// locks a function literal starts with (field summaries)
	pendingClosureLocks map[*ast.FuncLit][]c14lock
}

func cloneLocks(ls []c14lock) []c14lock { return append([]c14lock(nil), ls...) }

func intersect(a, b []c14lock) []c14lock {
	var r []c14lock
	for _, x := range a {
		for _, y := range b {
			if x == y {
				r = append(r, x)
				break
			}
		}
	}
	return r
}

// block walks statements in order; returns the lockset at the end and whether control cannot
// fall through the end (return / panic-like / goto).
func (w *c14walker) block(stmts []ast.Stmt, ls []c14lock) ([]c14lock, bool) {
	for _, s := range stmts {
		var term bool
		ls, term = w.stmt(s, ls)
		w.published(s)
		if term {
			return ls, true
		}
	}
	return ls, false
}

// publishers: calls that hand an object to other goroutines (session index, goroutine pool,
// peer registry). A fresh variable stops being pre-publication after the statement in which it
// is passed to one of them (as argument, method value or inside a function literal) or
// mentioned in a go statement.
var c14publishers = map[string]bool{"set": true, "AnywayGo": true, "Go": true, "MustGo": true, "TryGo": true, "addPeer": true}

func (w *c14walker) published(s ast.Stmt) {
	if len(w.fresh) == 0 {
		return
	}
	switch s.(type) {
	case *ast.ExprStmt, *ast.GoStmt, *ast.AssignStmt, *ast.IfStmt:
	default:
		return
	}
	if ifs, ok := s.(*ast.IfStmt); ok {
		// only the condition / init of an if statement is considered here; its body is a
		// block of its own
		if ifs.Init != nil {
			w.published(ifs.Init)
		}
		return
	}
	mentions := func(n ast.Node) {
		ast.Inspect(n, func(x ast.Node) bool {
			if id, ok := x.(*ast.Ident); ok && w.fresh[id.Name] {
				delete(w.fresh, id.Name)
			}
			return true
		})
	}
	ast.Inspect(s, func(n ast.Node) bool {
		switch x := n.(type) {
		case *ast.FuncLit:
			return false // a literal is judged where it is passed on
		case *ast.GoStmt:
			mentions(x.Call)
			return false
		case *ast.CallExpr:
			name := ""
			switch f := x.Fun.(type) {
			case *ast.Ident:
				name = f.Name
			case *ast.SelectorExpr:
				name = f.Sel.Name
			}
			if c14publishers[name] {
				for _, a := range x.Args {
					mentions(a)
				}
			}
		}
		return true
	})
}

func (w *c14walker) stmt(s ast.Stmt, ls []c14lock) ([]c14lock, bool) {
	switch s := s.(type) {
	case nil:
		return ls, false
	case *ast.ExprStmt:
		if call, ok := s.X.(*ast.CallExpr); ok {
			if base, class, op, ok := w.lockOp(call); ok {
				switch op {
				case "Lock":
					return append(cloneLocks(ls), c14lock{base, class, true}), false
				case "RLock":
					return append(cloneLocks(ls), c14lock{base, class, false}), false
				case "Unlock", "RUnlock":
					var r []c14lock
					for _, l := range ls {
						if !(l.base == base && l.class == class) {
							r = append(r, l)
						}
					}
					return r, false
				}
			}
			if id, ok := call.Fun.(*ast.Ident); ok && id.Name == "panic" {
				w.expr(s.X, ls, false)
				return ls, true
			}
		}
		w.expr(s.X, ls, false)
		return ls, false
	case *ast.DeferStmt:
		if _, _, op, ok := w.lockOp(s.Call); ok && (op == "Unlock" || op == "RUnlock") {
			return ls, false // held to the end of the function
		}
		// deferred closures / calls run at function exit: walk with no locks (conservative)
		w.deferred(s.Call, ls)
		return ls, false
	case *ast.GoStmt:
		w.goCall(s.Call)
		return ls, false
	case *ast.AssignStmt:
		for i, l := range s.Lhs {
			if id, ok := l.(*ast.Ident); ok && i < len(s.Rhs) && len(s.Lhs) == len(s.Rhs) {
				if s.Tok == token.DEFINE && w.isFreshExpr(s.Rhs[i]) {
					w.fresh[id.Name] = true
				} else if s.Tok == token.ASSIGN {
					delete(w.fresh, id.Name) // re-bound: no longer known to be fresh
				}
			}
			// x := base.f  /  x, ok := base.m[k] : x names (part of) base's object
			if id, ok := l.(*ast.Ident); ok && i == 0 && len(s.Rhs) >= 1 {
				if w.alias == nil {
					w.alias = map[string]string{}
				}
				if s.Tok == token.DEFINE {
					delete(w.alias, id.Name) // a plain re-assignment in a branch keeps the binding (flow-insensitive)
				}
				switch rhs := s.Rhs[0].(type) {
				case *ast.SelectorExpr, *ast.IndexExpr:
					if r := rootIdent(stripIndex(rhs)); r != "" && r != id.Name && (len(s.Lhs) == len(s.Rhs) || len(s.Rhs) == 1) {
						w.alias[id.Name] = w.baseString(rhs)
					}
				}
			}
			// closure stored in a field documented as "called with the lock held"
			if sel, ok := l.(*ast.SelectorExpr); ok && i < len(s.Rhs) && len(s.Lhs) == len(s.Rhs) {
				if fl, ok := s.Rhs[i].(*ast.FuncLit); ok {
					if sum := c14fieldSummaries[sel.Sel.Name]; len(sum) > 0 {
						var cl []c14lock
						for _, sl := range sum {
							cl = append(cl, c14lock{base: types.ExprString(sel.X) + sl.rel, class: sl.class, write: sl.write})
						}
						w.pendingClosureLocks = map[*ast.FuncLit][]c14lock{fl: cl}
					}
				}
			}
			w.lhs(l, ls)
		}
		for _, r := range s.Rhs {
			w.expr(r, ls, false)
		}
		w.pendingClosureLocks = nil
		return ls, false
	case *ast.IncDecStmt:
		w.lhs(s.X, ls)
		return ls, false
	case *ast.DeclStmt:
		if gd, ok := s.Decl.(*ast.GenDecl); ok {
			for _, sp := range gd.Specs {
				if vs, ok := sp.(*ast.ValueSpec); ok {
					for i, v := range vs.Values {
						w.expr(v, ls, false)
						if i < len(vs.Names) && len(vs.Names) == len(vs.Values) && w.isFreshExpr(v) {
							w.fresh[vs.Names[i].Name] = true
						}
					}
				}
			}
		}
		return ls, false
	case *ast.ReturnStmt:
		for _, r := range s.Results {
			w.expr(r, ls, false)
		}
		return ls, true
	case *ast.BranchStmt:
		return ls, s.Tok == token.GOTO || s.Tok == token.BREAK || s.Tok == token.CONTINUE
	case *ast.BlockStmt:
		return w.block(s.List, ls)
	case *ast.LabeledStmt:
		return w.stmt(s.Stmt, ls)
	case *ast.IfStmt:
		if s.Init != nil {
			ls, _ = w.stmt(s.Init, ls)
		}
		w.expr(s.Cond, ls, false)
		thenLs, thenTerm := w.block(s.Body.List, cloneLocks(ls))
		elseLs, elseTerm := ls, false
		if s.Else != nil {
			elseLs, elseTerm = w.stmt(s.Else, cloneLocks(ls))
		}
		switch {
		case thenTerm && elseTerm:
			return ls, true
		case thenTerm:
			return elseLs, false
		case elseTerm:
			return thenLs, false
		}
		return intersect(thenLs, elseLs), false
	case *ast.ForStmt:
		if s.Init != nil {
			ls, _ = w.stmt(s.Init, ls)
		}
		if s.Cond != nil {
			w.expr(s.Cond, ls, false)
		}
		bodyLs, _ := w.block(s.Body.List, cloneLocks(ls))
		if s.Post != nil {
			w.stmt(s.Post, bodyLs)
		}
		return intersect(ls, bodyLs), false
	case *ast.RangeStmt:
		w.expr(s.X, ls, false)
		if s.Key != nil && s.Tok == token.ASSIGN {
			w.lhs(s.Key, ls)
		}
		if s.Value != nil && s.Tok == token.ASSIGN {
			w.lhs(s.Value, ls)
		}
		bodyLs, _ := w.block(s.Body.List, cloneLocks(ls))
		return intersect(ls, bodyLs), false
	case *ast.SwitchStmt:
		if s.Init != nil {
			ls, _ = w.stmt(s.Init, ls)
		}
		if s.Tag != nil {
			w.expr(s.Tag, ls, false)
		}
		return w.clauses(s.Body.List, ls), false
	case *ast.TypeSwitchStmt:
		if s.Init != nil {
			ls, _ = w.stmt(s.Init, ls)
		}
		ls, _ = w.stmt(s.Assign, ls)
		return w.clauses(s.Body.List, ls), false
	case *ast.SelectStmt:
		return w.clauses(s.Body.List, ls), false
	case *ast.SendStmt:
		w.expr(s.Chan, ls, false)
		w.expr(s.Value, ls, false)
		return ls, false
	}
	return ls, false
}

func (w *c14walker) clauses(list []ast.Stmt, ls []c14lock) []c14lock {
	res := ls
	for _, c := range list {
		var body []ast.Stmt
		switch c := c.(type) {
		case *ast.CaseClause:
			for _, e := range c.List {
				w.expr(e, ls, false)
			}
			body = c.Body
		case *ast.CommClause:
			if c.Comm != nil {
				w.stmt(c.Comm, ls)
			}
			body = c.Body
		}
		out, term := w.block(body, cloneLocks(ls))
		if !term {
			res = intersect(res, out)
		}
	}
	return res
}

// lockOp recognises X.Lock() / X.RLock() / X.Unlock() / X.RUnlock() where X is a field of type
// sync.Mutex / sync.RWMutex of a tracked struct.
func (w *c14walker) lockOp(call *ast.CallExpr) (base, class, op string, ok bool) {
	sel, isSel := call.Fun.(*ast.SelectorExpr)
	if !isSel {
		return
	}
	switch sel.Sel.Name {
	case "Lock", "RLock", "Unlock", "RUnlock":
	default:
		return
	}
	inner, isSel := sel.X.(*ast.SelectorExpr)
	if !isSel {
		return
	}
	tv, has := w.g.info.Types[sel.X]
	if !has || !isMutexType(tv.Type) {
		return
	}
	owner, field := w.fieldOwner(inner)
	if owner == "" {
		return
	}
	return w.baseString(inner.X), owner + "." + field, sel.Sel.Name, true
}

func isMutexType(t types.Type) bool {
	s := t.String()
	return s == "sync.Mutex" || s == "sync.RWMutex" || s == "*sync.Mutex" || s == "*sync.RWMutex"
}

func isWaitGroup(t types.Type) bool { return strings.TrimPrefix(t.String(), "*") == "sync.WaitGroup" }

// fieldOwner returns the tracked struct (unqualified name) and field name selected by sel (last
// step of the selection path), or "" when the field does not belong to a tracked struct.
func (w *c14walker) fieldOwner(sel *ast.SelectorExpr) (string, string) {
	steps := w.g.fieldSteps(w.g.info, sel)
	if len(steps) == 0 {
		return "", ""
	}
	last := steps[len(steps)-1]
	return last[0], last[1]
}

// fieldSteps resolves a field selection into its (struct, field) steps, implicit embedded
// fields first; only steps whose struct is tracked are returned (qualified check).
func (g *c14gen) fieldSteps(info *types.Info, sel *ast.SelectorExpr) [][2]string {
	s := info.Selections[sel]
	if s == nil {
		return nil
	}
	t := s.Recv()
	var out [][2]string
	idx := s.Index()
	n := len(idx)
	if s.Kind() != types.FieldVal {
		n-- // the last index is the method
	}
	for i := 0; i < n; i++ {
		if p, ok := t.Underlying().(*types.Pointer); ok {
			t = p.Elem()
		}
		named, _ := t.(*types.Named)
		st, ok := t.Underlying().(*types.Struct)
		if !ok {
			break
		}
		f := st.Field(idx[i])
		if named != nil && named.Obj().Pkg() != nil {
			q := named.Obj().Pkg().Name() + "." + named.Obj().Name()
			if c14tracked[q] {
				out = append(out, [2]string{c14canon(named.Obj().Name()), f.Name()})
			} else {
				out = append(out, [2]string{"", f.Name()})
			}
		} else {
			out = append(out, [2]string{"", f.Name()})
		}
		t = f.Type()
	}
	return out
}

func (w *c14walker) isFreshExpr(e ast.Expr) bool {
	switch e := e.(type) {
	case *ast.UnaryExpr:
		if e.Op == token.AND {
			_, ok := e.X.(*ast.CompositeLit)
			return ok
		}
	case *ast.CompositeLit:
		return true
	case *ast.CallExpr:
		if id, ok := e.Fun.(*ast.Ident); ok {
			return id.Name == "new" || strings.HasPrefix(id.Name, "new") || strings.HasPrefix(id.Name, "New")
		}
	}
	return false
}

func stripIndex(e ast.Expr) ast.Expr {
	for {
		if ix, ok := e.(*ast.IndexExpr); ok {
			e = ix.X
			continue
		}
		return e
	}
}

// baseString renders an access path with local aliases expanded at the root.
func (w *c14walker) baseString(e ast.Expr) string {
	str := types.ExprString(e)
	r := rootIdent(stripIndexDeep(e))
	if a, ok := w.alias[r]; ok && r != "" {
		if str == r {
			return a
		}
		if strings.HasPrefix(str, r+".") || strings.HasPrefix(str, r+"[") {
			return a + str[len(r):]
		}
	}
	return str
}

func stripIndexDeep(e ast.Expr) ast.Expr {
	for {
		switch x := e.(type) {
		case *ast.IndexExpr:
			e = x.X
		case *ast.SelectorExpr:
			e = x.X
		case *ast.ParenExpr:
			e = x.X
		case *ast.StarExpr:
			e = x.X
		default:
			return e
		}
	}
}

func rootIdent(e ast.Expr) string {
	for {
		switch x := e.(type) {
		case *ast.Ident:
			return x.Name
		case *ast.SelectorExpr:
			e = x.X
		case *ast.ParenExpr:
			e = x.X
		case *ast.StarExpr:
			e = x.X
		default:
			return ""
		}
	}
}

func (w *c14walker) emit(structName, field, base string, rootFresh bool, write, atomic bool, ls []c14lock, pos token.Pos, fn string) {
	var rel []c14lock
	for _, l := range ls {
		if l.base == base || strings.HasPrefix(base, l.base+".") {
			rel = append(rel, l)
		}
	}
	p := w.g.fset.Position(pos)
	w.g.rows = append(w.g.rows, c14row{Struct: structName, Field: field, Fn: fn, Write: write, Atomic: atomic,
		Pre: rootFresh, Locks: rel, Line: p.Line, File: filepath.Base(p.Filename), base: base})
}

// lhs records a write to the expression (and reads of what it is reached through).
func (w *c14walker) lhs(e ast.Expr, ls []c14lock) {
	switch x := e.(type) {
	case *ast.SelectorExpr:
		w.selector(x, ls, true, false)
	case *ast.IndexExpr:
		// element write: a map is mutated as a whole; a slice header is only read
		if tv, ok := w.g.info.Types[x.X]; ok {
			if _, isMap := tv.Type.Underlying().(*types.Map); isMap {
				w.lhs(x.X, ls)
				w.expr(x.Index, ls, false)
				return
			}
		}
		w.expr(x.X, ls, false)
		w.expr(x.Index, ls, false)
	case *ast.StarExpr:
		w.expr(x.X, ls, false)
	case *ast.ParenExpr:
		w.lhs(x.X, ls)
	}
}

func (w *c14walker) selector(x *ast.SelectorExpr, ls []c14lock, write, atomic bool) {
	steps := w.g.fieldSteps(w.g.info, x)
	sel := w.g.info.Selections[x]
	if id, ok := x.X.(*ast.Ident); ok && sel != nil {
		// a local variable holding a struct VALUE (cp := info.elemCopy()) is a private copy
		if v, ok := w.g.info.Uses[id].(*types.Var); ok && !v.IsField() && v.Pkg() != nil && v.Parent() != v.Pkg().Scope() {
			if _, isStruct := v.Type().Underlying().(*types.Struct); isStruct {
				sel = nil
			}
		}
	}
	if sel != nil {
		base := w.baseString(x.X)
		fresh := w.fresh[rootIdent(x.X)]
		for i, st := range steps {
			if st[0] == "" {
				continue
			}
			last := i == len(steps)-1 && sel.Kind() == types.FieldVal
			if isMutexField(sel, i) {
				continue
			}
			w.emit(st[0], st[1], base, fresh, write && last, atomic && last, ls, x.Sel.Pos(), w.fn)
		}
	}
	w.expr(x.X, ls, false)
}

// isMutexField: the i-th step of the selection is a sync.Mutex / sync.RWMutex field
func isMutexField(sel *types.Selection, i int) bool {
	t := sel.Recv()
	idx := sel.Index()
	for k := 0; k <= i && k < len(idx); k++ {
		if p, ok := t.Underlying().(*types.Pointer); ok {
			t = p.Elem()
		}
		st, ok := t.Underlying().(*types.Struct)
		if !ok {
			return false
		}
		f := st.Field(idx[k])
		t = f.Type()
		if k == i {
			return isMutexType(t)
		}
	}
	return false
}

func (w *c14walker) expr(e ast.Expr, ls []c14lock, _ bool) {
	switch x := e.(type) {
	case nil:
	case *ast.SelectorExpr:
		w.selector(x, ls, false, false)
	case *ast.CallExpr:
		w.call(x, ls)
	case *ast.UnaryExpr:
		if x.Op == token.AND {
			if s, ok := x.X.(*ast.SelectorExpr); ok {
				// address taken outside sync/atomic: treated as a write (escapes)
				w.selector(s, ls, true, false)
				return
			}
			if cl, ok := x.X.(*ast.CompositeLit); ok {
				w.composite(cl, ls)
				return
			}
		}
		w.expr(x.X, ls, false)
	case *ast.CompositeLit:
		w.composite(x, ls)
	case *ast.BinaryExpr:
		w.expr(x.X, ls, false)
		w.expr(x.Y, ls, false)
	case *ast.ParenExpr:
		w.expr(x.X, ls, false)
	case *ast.StarExpr:
		w.expr(x.X, ls, false)
	case *ast.IndexExpr:
		w.expr(x.X, ls, false)
		w.expr(x.Index, ls, false)
	case *ast.SliceExpr:
		w.expr(x.X, ls, false)
		w.expr(x.Low, ls, false)
		w.expr(x.High, ls, false)
		w.expr(x.Max, ls, false)
	case *ast.TypeAssertExpr:
		w.expr(x.X, ls, false)
	case *ast.KeyValueExpr:
		w.expr(x.Key, ls, false)
		w.expr(x.Value, ls, false)
	case *ast.FuncLit:
		w.closure(x, w.pendingClosureLocks[x])
	}
}

func (w *c14walker) composite(cl *ast.CompositeLit, ls []c14lock) {
	tv, ok := w.g.info.Types[cl]
	structName := ""
	if ok {
		t := tv.Type
		if named, ok := t.(*types.Named); ok && named.Obj().Pkg() != nil {
			if c14tracked[named.Obj().Pkg().Name()+"."+named.Obj().Name()] {
				structName = c14canon(named.Obj().Name())
			}
		}
	}
	for _, el := range cl.Elts {
		if kv, ok := el.(*ast.KeyValueExpr); ok {
			if id, ok := kv.Key.(*ast.Ident); ok && structName != "" {
				p := w.g.fset.Position(id.Pos())
				w.g.rows = append(w.g.rows, c14row{Struct: structName, Field: id.Name, Fn: w.fn, Write: true, Pre: true,
					Line: p.Line, File: filepath.Base(p.Filename)})
			} else {
				w.expr(kv.Key, ls, false)
			}
			w.expr(kv.Value, ls, false)
		} else {
			w.expr(el, ls, false)
		}
	}
}

func (w *c14walker) closure(fl *ast.FuncLit, ls []c14lock) {
	w.closures++
	sub := &c14walker{g: w.g, fn: fmt.Sprintf("%s$%d", w.fn, w.closures), file: w.file, fresh: map[string]bool{}}
	sub.block(fl.Body.List, ls)
	w.closures += sub.closures
}

// deferred calls run at function exit, before the deferred unlocks registered earlier: they see
// the locks held at the defer statement.
func (w *c14walker) deferred(call *ast.CallExpr, ls []c14lock) {
	if fl, ok := call.Fun.(*ast.FuncLit); ok {
		w.closure(fl, ls)
		for _, a := range call.Args {
			w.expr(a, ls, false)
		}
		return
	}
	w.call(call, ls)
}

func (w *c14walker) goCall(call *ast.CallExpr) {
	if fl, ok := call.Fun.(*ast.FuncLit); ok {
		w.closure(fl, nil)
		return
	}
	for _, a := range call.Args {
		w.expr(a, nil, false)
	}
	if sel, ok := call.Fun.(*ast.SelectorExpr); ok {
		if key := w.passiveMethod(sel); key != "" {
			w.inline(key, types.ExprString(sel.X), nil, "go:"+strings.TrimPrefix(key[strings.Index(key, ".")+1:], ""), false, sel.Pos(), 0)
			w.expr(sel.X, nil, false)
			return
		}
		w.expr(sel.X, nil, false)
	}
}

// passiveMethod returns "pkg.Type.method" when sel is a call of a method of a passive struct.
func (w *c14walker) passiveMethod(sel *ast.SelectorExpr) string {
	s := w.g.info.Selections[sel]
	if s == nil || s.Kind() == types.FieldVal {
		return ""
	}
	fn, ok := s.Obj().(*types.Func)
	if !ok {
		return ""
	}
	sig := fn.Type().(*types.Signature)
	if sig.Recv() == nil {
		return ""
	}
	t := sig.Recv().Type()
	if p, ok := t.(*types.Pointer); ok {
		t = p.Elem()
	}
	named, ok := t.(*types.Named)
	if !ok || named.Obj().Pkg() == nil {
		return ""
	}
	q := named.Obj().Pkg().Name() + "." + named.Obj().Name()
	if !c14passive[q] {
		return ""
	}
	return q + "." + fn.Name()
}

// inline attributes the accesses of a passive method to the call site.
func (w *c14walker) inline(key, base string, ls []c14lock, fn string, fresh bool, pos token.Pos, depth int) {
	fd := w.g.methodDecls[key]
	if fd == nil || depth > 4 {
		return
	}
	recv := ""
	if len(fd.Recv.List) > 0 && len(fd.Recv.List[0].Names) > 0 {
		recv = fd.Recv.List[0].Names[0].Name
	}
	saveInfo := w.g.info
	w.g.info = w.g.methodInfo[key]
	defer func() { w.g.info = saveInfo }()
	iw := &c14inliner{w: w, recv: recv, base: base, ls: ls, fn: fn, fresh: fresh, pos: pos, depth: depth}
	ast.Inspect(fd.Body, iw.visit)
}

type c14inliner struct {
	w     *c14walker
	recv  string
	base  string
	ls    []c14lock
	fn    string
	fresh bool
	pos   token.Pos
	depth int
	skip  map[ast.Node]bool
}

func (iw *c14inliner) visit(n ast.Node) bool {
	if iw.skip == nil {
		iw.skip = map[ast.Node]bool{}
	}
	if n == nil || iw.skip[n] {
		return false
	}
	g := iw.w.g
	mark := func(sel *ast.SelectorExpr, write, atomic bool) {
		if rootIdent(sel.X) != iw.recv {
			return
		}
		steps := g.fieldSteps(g.info, sel)
		s := g.info.Selections[sel]
		if s == nil {
			return
		}
		rel := strings.TrimPrefix(types.ExprString(sel.X), iw.recv)
		for i, st := range steps {
			if st[0] == "" {
				continue
			}
			last := i == len(steps)-1 && s.Kind() == types.FieldVal
			iw.w.emit(st[0], st[1], iw.base+rel, iw.fresh, write && last, atomic && last, iw.ls, iw.pos, iw.fn)
		}
	}
	switch x := n.(type) {
	case *ast.FuncLit:
		return false
	case *ast.GoStmt:
		if sel, ok := x.Call.Fun.(*ast.SelectorExpr); ok {
			if key := (&c14walker{g: g}).passiveMethod(sel); key != "" && rootIdent(sel.X) == iw.recv {
				rel := strings.TrimPrefix(types.ExprString(sel.X), iw.recv)
				iw.w.inline(key, iw.base+rel, nil, "go:"+key[strings.Index(key, ".")+1:], false, iw.pos, iw.depth+1)
			}
		}
		return false
	case *ast.AssignStmt:
		for _, l := range x.Lhs {
			if sel, ok := l.(*ast.SelectorExpr); ok {
				mark(sel, true, false)
				iw.skip[sel] = true
				iw.markInner(sel.X, mark)
			}
		}
		return true
	case *ast.IncDecStmt:
		if sel, ok := x.X.(*ast.SelectorExpr); ok {
			mark(sel, true, false)
			iw.skip[sel] = true
			iw.markInner(sel.X, mark)
		}
		return true
	case *ast.CallExpr:
		if name, isAtomic := atomicCall(g.info, x); isAtomic && len(x.Args) > 0 {
			if u, ok := x.Args[0].(*ast.UnaryExpr); ok && u.Op == token.AND {
				if sel, ok := u.X.(*ast.SelectorExpr); ok {
					mark(sel, !strings.HasPrefix(name, "Load"), true)
					iw.skip[u] = true
				}
			}
			return true
		}
		if sel, ok := x.Fun.(*ast.SelectorExpr); ok {
			if key := (&c14walker{g: g}).passiveMethod(sel); key != "" && rootIdent(sel.X) == iw.recv {
				rel := strings.TrimPrefix(types.ExprString(sel.X), iw.recv)
				// implicit embedded steps of the receiver expression are reads
				mark(sel, false, false)
				iw.w.inline(key, iw.base+rel, iw.ls, iw.fn, iw.fresh, iw.pos, iw.depth+1)
				iw.skip[sel] = true
				iw.markInner(sel.X, mark)
			}
		}
		return true
	case *ast.SelectorExpr:
		mark(x, false, false)
		return true
	}
	return true
}

func (iw *c14inliner) markInner(e ast.Expr, mark func(*ast.SelectorExpr, bool, bool)) {
	for {
		switch x := e.(type) {
		case *ast.SelectorExpr:
			mark(x, false, false)
			iw.skip[x] = true
			e = x.X
		case *ast.ParenExpr:
			e = x.X
		default:
			return
		}
	}
}

// atomicCall reports whether call is sync/atomic.<name>(...)
func atomicCall(info *types.Info, call *ast.CallExpr) (string, bool) {
	sel, ok := call.Fun.(*ast.SelectorExpr)
	if !ok {
		return "", false
	}
	id, ok := sel.X.(*ast.Ident)
	if !ok {
		return "", false
	}
	if pn, ok := info.Uses[id].(*types.PkgName); ok && pn.Imported().Path() == "sync/atomic" {
		return sel.Sel.Name, true
	}
	return "", false
}

func (w *c14walker) call(call *ast.CallExpr, ls []c14lock) {
	// sync/atomic on &x.f
	if name, isAtomic := atomicCall(w.g.info, call); isAtomic && len(call.Args) > 0 {
		if u, ok := call.Args[0].(*ast.UnaryExpr); ok && u.Op == token.AND {
			if sel, ok := u.X.(*ast.SelectorExpr); ok {
				w.selector(sel, ls, !strings.HasPrefix(name, "Load"), true)
				for _, a := range call.Args[1:] {
					w.expr(a, ls, false)
				}
				return
			}
		}
	}
	if id, ok := call.Fun.(*ast.Ident); ok && id.Name == "delete" && len(call.Args) == 2 {
		w.lhs(call.Args[0], ls) // delete(m, k) mutates the map
		w.expr(call.Args[1], ls, false)
		return
	}
	for _, a := range call.Args {
		w.expr(a, ls, false)
	}
	switch fun := call.Fun.(type) {
	case *ast.FuncLit:
		// immediately invoked: same goroutine, same locks
		w.closures++
		sub := &c14walker{g: w.g, fn: fmt.Sprintf("%s$%d", w.fn, w.closures), file: w.file, fresh: map[string]bool{}}
		sub.block(fun.Body.List, ls)
		w.closures += sub.closures
	case *ast.SelectorExpr:
		// WaitGroup protocol
		if tv, ok := w.g.info.Types[fun.X]; ok && isWaitGroup(tv.Type) {
			if inner, ok := fun.X.(*ast.SelectorExpr); ok {
				owner, field := w.fieldOwner(inner)
				if owner != "" {
					base := w.baseString(inner.X)
					fresh := w.fresh[rootIdent(inner.X)]
					switch fun.Sel.Name {
					case "Add":
						w.emit(owner, field, base, fresh, false, false, ls, fun.Sel.Pos(), w.fn)
					case "Wait":
						w.emit(owner, field, base, fresh, true, false, ls, fun.Sel.Pos(), w.fn)
					}
					w.expr(inner.X, ls, false)
					return
				}
			}
		}
		// passive method: attribute to this call site
		if key := w.passiveMethod(fun); key != "" {
			base := w.baseString(fun.X)
			fresh := w.fresh[rootIdent(fun.X)]
			// implicit embedded steps are reads of the embedding fields
			w.selector(fun, ls, false, false)
			w.inline(key, base, ls, w.fn, fresh, fun.Sel.Pos(), 0)
			return
		}
		// call-site check of caller-holds summaries
		w.checkSummary(fun, ls)
		w.selector(fun, ls, false, false)
	default:
		w.expr(call.Fun, ls, false)
	}
}

func (w *c14walker) checkSummary(fun *ast.SelectorExpr, ls []c14lock) {
	s := w.g.info.Selections[fun]
	if s == nil {
		return
	}
	var sum []c14sumLock
	callee := ""
	if s.Kind() == types.FieldVal {
		sum = c14fieldSummaries[fun.Sel.Name]
		callee = "field:" + fun.Sel.Name
	} else if fn, ok := s.Obj().(*types.Func); ok {
		sig := fn.Type().(*types.Signature)
		if sig.Recv() != nil {
			t := sig.Recv().Type()
			if p, ok := t.(*types.Pointer); ok {
				t = p.Elem()
			}
			if named, ok := t.(*types.Named); ok && named.Obj().Pkg() != nil {
				callee = named.Obj().Pkg().Name() + "." + named.Obj().Name() + "." + fn.Name()
				sum = c14summaries[callee]
			}
		}
	}
	if len(sum) == 0 || c14uncheckedSummaries[callee] {
		return
	}
	recv := w.baseString(fun.X)
	ok := true
	for _, sl := range sum {
		found := false
		for _, l := range ls {
			if l.base == recv+sl.rel && l.class == sl.class && (l.write || !sl.write) {
				found = true
			}
		}
		if !found {
			ok = false
		}
	}
	if !ok && w.fresh[rootIdent(fun.X)] {
		ok = true // object still owned by this goroutine
	}
	w.g.calls = append(w.g.calls, c14call{Callee: callee, Caller: w.fn, Ok: ok, Line: w.g.fset.Position(fun.Pos()).Line})
}

// ---- output ----

func coqStr(s string) string { return `"` + strings.ReplaceAll(s, `"`, `""`) + `"` }
func coqBool(b bool) string {
	if b {
		return "true"
	}
	return "false"
}

func (g *c14gen) render() (string, string, error) {
	sort.SliceStable(g.rows, func(i, j int) bool {
		a, b := g.rows[i], g.rows[j]
		if a.Struct != b.Struct {
			return a.Struct < b.Struct
		}
		if a.Field != b.Field {
			return a.Field < b.Field
		}
		if a.Fn != b.Fn {
			return a.Fn < b.Fn
		}
		return a.Line < b.Line
	})
	// deduplicate identical rows (same key, kind, locks); keep the first line number
	var rows []c14row
	seen := map[string]bool{}
	for _, r := range g.rows {
		var lk []string
		for _, l := range r.Locks {
			lk = append(lk, fmt.Sprintf("%s:%v", l.class, l.write))
		}
		sort.Strings(lk)
		k := fmt.Sprintf("%s|%s|%s|%v|%v|%v|%s", r.Struct, r.Field, r.Fn, r.Write, r.Atomic, r.Pre, strings.Join(lk, ","))
		if seen[k] {
			continue
		}
		seen[k] = true
		rows = append(rows, r)
	}
	var b strings.Builder
	b.WriteString("(* GENERATED by translator/gen_c14locks.go from the current source - do not edit. *)\n")
	b.WriteString("From Coq Require Import Strings.String Strings.Byte.\nFrom Coq Require Import List Bool.\nFrom Verif Require Import Model.LockTable.\nImport ListNotations.\nLocal Open Scope string_scope.\n\n")
	b.WriteString("(* mkAcc struct field function write atomic pre locks(line) ; lock = (class, write-mode) *)\n")
	b.WriteString("Definition c14_accesses : list acc := [\n")
	for i, r := range rows {
		var lk []string
		seenL := map[string]bool{}
		for _, l := range r.Locks {
			s := fmt.Sprintf("(%s, %s)", coqStr(l.class), coqBool(l.write))
			if !seenL[s] {
				seenL[s] = true
				lk = append(lk, s)
			}
		}
		sep := ";"
		if i == len(rows)-1 {
			sep = ""
		}
		fmt.Fprintf(&b, "  mkAcc %s %s %s %s %s %s [%s] %d%s\n", coqStr(r.Struct), coqStr(r.Field), coqStr(r.Fn),
			coqBool(r.Write), coqBool(r.Atomic), coqBool(r.Pre), strings.Join(lk, "; "), r.Line, sep)
	}
	b.WriteString("].\n\n(* call sites of functions with a caller-holds summary: (callee, caller, locks held?) *)\n")
	b.WriteString("Definition c14_calls : list (string * string * bool) := [\n")
	for i, c := range g.calls {
		sep := ";"
		if i == len(g.calls)-1 {
			sep = ""
		}
		fmt.Fprintf(&b, "  (%s, %s, %s)%s\n", coqStr(c.Callee), coqStr(c.Caller), coqBool(c.Ok), sep)
	}
	b.WriteString("].\n")
	nloc := map[string]bool{}
	for _, r := range rows {
		nloc[r.Struct+"."+r.Field] = true
	}
	sum, _ := json.Marshal(map[string]interface{}{"rows": len(rows), "locations": len(nloc), "call_sites": len(g.calls), "mode": "go/types"})
	return b.String(), string(sum), nil
}
