// gen_c14handed: where do the values come from that the framework stores into the structs it hands
// to the user (property C14)?
//
// A completed call's callCmd is read by the caller at any later time (Reply, Status, InputMeta, ...)
// while the read loops go on receiving - and recycle their per-message objects through
// sync.Pool. A reference stored in such a field must therefore not be an alias of memory that a
// pooled object keeps across recycling, and the field's object must not be given back to a pool.
//
// Derived from the current source (same packages and type information as gen_c14locks.go):
//
//  1. pooled struct types: T such that some sync.Pool receives a *T (Put argument) or yields
//     one (`pool.Get().(*T)`), directly or through an identifier bound to the Get result;
//  2. recycle methods of T: methods called on the object in a function that takes it from /
//     puts it into the pool (`ctx.clean()` in getContext, `m.Reset()` in PutMessage, ...);
//  3. retained fields of T: reference-typed fields (pointer, interface, slice, map, chan, func)
//     that no recycle method overwrites with a value not derived from the field itself
//     (`m.status = nil` clears, `m.meta.Reset()` / `a.args = a.args[:0]` retain) - their memory
//     survives recycling and is rewritten for the next message;
//  4. accessors: methods of T all of whose returns are `recv.f` with f retained
//     (message.Meta, handlerCtx.Input, ...); interface calls are resolved by method-name sets
//     to the pooled implementations of the same package;
//  5. rows: every assignment `x.f = e` / composite-literal element `f: e` where f is a
//     reference-typed field of a handed struct (callCmd, fakeCallCmd), with e classified:
//     recycled (retained field of a pooled object, directly, through an accessor or through a
//     local variable bound to one; an object built in the same function by a constructor is
//     exempt), pool (result of a function that returns pool.Get() - owned from then on), fresh,
//     param, global, field, nil; and every call of a releasing function (pool.Put or a function
//     that Puts its parameter: ReleaseArgs, PutMessage, putContext, ...) whose argument is
//     reached through a field of a handed struct: kind released.
//
// Approximations (stated, trusted): type based and flow insensitive (a local variable has the
// worst kind of all its definitions; closures belong to the enclosing function); aliases through
// other functions' results are not followed (a call result that is not an accessor / acquirer is
// `fresh`); retained memory reached through two field steps of a non-pooled struct is not seen.
package main

import (
	"encoding/json"
	"fmt"
	"go/ast"
	"go/token"
	"go/types"
	"sort"
	"strings"
)

func init() { register("C14Handed", genC14Handed) }

var c14handedStructs = map[string]bool{"erpc.callCmd": true, "erpc.fakeCallCmd": true}

type c14handedRow struct {
	Struct, Field, Fn, Kind, Detail string
	Line                            int
}

type c14h struct {
	g *c14gen
	// qualified struct name -> declaration info
	named   map[string]*types.Named
	pooled  map[string]bool
	recycle map[string]map[string]bool // T -> method names
	// (static type, method) pairs seen on pool objects whose static type is an interface
	ifaceRecycle []c14ifaceCall
	retained     map[string]map[string]bool   // T -> field -> retained
	refFields    map[string][]string          // T -> reference-typed fields (declaration order)
	accessors    map[string]map[string]string // T -> method -> field
	acquirers    map[string]bool              // FullName of functions returning pool.Get()
	releasers    map[string]int               // FullName -> index of the parameter that is Put (-1 = receiver)
	rows         []c14handedRow
}

type c14ifaceCall struct {
	pkg    string
	iface  *types.Interface
	method string
}

func c14namedOf(t types.Type) *types.Named {
	for {
		switch x := t.(type) {
		case *types.Pointer:
			t = x.Elem()
			continue
		case *types.Named:
			return x
		}
		return nil
	}
}

func c14qual(n *types.Named) string {
	if n == nil || n.Obj() == nil || n.Obj().Pkg() == nil {
		return ""
	}
	return n.Obj().Pkg().Name() + "." + n.Obj().Name()
}

func c14isRef(t types.Type) bool {
	switch t.Underlying().(type) {
	case *types.Pointer, *types.Interface, *types.Slice, *types.Map, *types.Chan, *types.Signature:
		return true
	}
	return false
}

func c14isPool(t types.Type) bool {
	return t != nil && strings.TrimPrefix(t.String(), "*") == "sync.Pool"
}

// poolOp recognises pool.Get() / pool.Put(x) on a sync.Pool value.
func c14poolOp(info *types.Info, call *ast.CallExpr) (op string, ok bool) {
	sel, isSel := call.Fun.(*ast.SelectorExpr)
	if !isSel || (sel.Sel.Name != "Get" && sel.Sel.Name != "Put") {
		return "", false
	}
	if !c14isPool(info.TypeOf(sel.X)) {
		return "", false
	}
	return sel.Sel.Name, true
}

func c14funcName(fd *ast.FuncDecl) string {
	if fd.Recv != nil {
		return recvTypeName(fd) + "." + fd.Name.Name
	}
	return fd.Name.Name
}

func c14unparen(e ast.Expr) ast.Expr {
	for {
		p, ok := e.(*ast.ParenExpr)
		if !ok {
			return e
		}
		e = p.X
	}
}

func genC14Handed(repo string) (string, string, error) {
	g, err := c14load(repo)
	if err != nil {
		return "", "", err
	}
	h := &c14h{g: g, named: map[string]*types.Named{}, pooled: map[string]bool{}, recycle: map[string]map[string]bool{},
		retained: map[string]map[string]bool{}, refFields: map[string][]string{}, accessors: map[string]map[string]string{},
		acquirers: map[string]bool{}, releasers: map[string]int{}}
	// struct declarations of the walked packages
	for _, pr := range g.all {
		for _, af := range pr.files {
			for _, d := range af.Decls {
				gd, ok := d.(*ast.GenDecl)
				if !ok {
					continue
				}
				for _, sp := range gd.Specs {
					ts, ok := sp.(*ast.TypeSpec)
					if !ok {
						continue
					}
					if obj := pr.info.Defs[ts.Name]; obj != nil {
						if n, ok := obj.Type().(*types.Named); ok {
							if _, isStruct := n.Underlying().(*types.Struct); isStruct {
								h.named[pr.name+"."+ts.Name.Name] = n
							}
						}
					}
				}
			}
		}
	}
	h.eachFunc(h.findPools)
	h.resolveIfaceRecycle()
	h.computeRetained()
	h.computeAccessors()
	h.eachFunc(h.findRows)
	return h.render()
}

func (h *c14h) eachFunc(f func(pr *c14parsed, fd *ast.FuncDecl)) {
	for _, pr := range h.g.all {
		for i, af := range pr.files {
			if strings.HasPrefix(pr.names[i], "verif_") {
				continue
			}
			for _, d := range af.Decls {
				if fd, ok := d.(*ast.FuncDecl); ok && fd.Body != nil {
					f(pr, fd)
				}
			}
		}
	}
}

// ---- 1, 2: pooled types, recycle methods, acquirers, releasers ----

func (h *c14h) markPooled(t types.Type) string {
	n := c14namedOf(t)
	if n == nil {
		return ""
	}
	if _, ok := n.Underlying().(*types.Struct); !ok {
		return ""
	}
	q := c14qual(n)
	h.pooled[q] = true
	return q
}

func (h *c14h) findPools(pr *c14parsed, fd *ast.FuncDecl) {
	info := pr.info
	// identifiers holding a pool object in this function: obj -> pooled type ("" = unknown yet)
	poolObjs := map[types.Object]bool{}
	params := map[types.Object]int{}
	if fd.Recv != nil {
		for _, f := range fd.Recv.List {
			for _, nm := range f.Names {
				params[info.Defs[nm]] = -1
			}
		}
	}
	k := 0
	for _, f := range fd.Type.Params.List {
		if len(f.Names) == 0 {
			k++
		}
		for _, nm := range f.Names {
			params[info.Defs[nm]] = k
			k++
		}
	}
	isGet := func(e ast.Expr) bool {
		e = c14unparen(e)
		if ta, ok := e.(*ast.TypeAssertExpr); ok {
			e = c14unparen(ta.X)
		}
		if c, ok := e.(*ast.CallExpr); ok {
			op, ok := c14poolOp(info, c)
			return ok && op == "Get"
		}
		return false
	}
	ast.Inspect(fd.Body, func(n ast.Node) bool {
		switch x := n.(type) {
		case *ast.TypeAssertExpr:
			inner := c14unparen(x.X)
			if isGet(inner) && x.Type != nil {
				h.markPooled(info.TypeOf(x.Type))
			}
			if id, ok := inner.(*ast.Ident); ok && x.Type != nil && poolObjs[info.Uses[id]] {
				h.markPooled(info.TypeOf(x.Type))
			}
		case *ast.AssignStmt:
			if len(x.Lhs) == len(x.Rhs) {
				for i, l := range x.Lhs {
					id, ok := l.(*ast.Ident)
					if !ok || !isGet(x.Rhs[i]) {
						continue
					}
					obj := info.Defs[id]
					if obj == nil {
						obj = info.Uses[id]
					}
					if obj != nil {
						poolObjs[obj] = true
					}
				}
			}
		case *ast.CallExpr:
			if op, ok := c14poolOp(info, x); ok && op == "Put" && len(x.Args) == 1 {
				h.markPooled(info.TypeOf(x.Args[0]))
				if id, ok := c14unparen(x.Args[0]).(*ast.Ident); ok {
					if obj := info.Uses[id]; obj != nil {
						poolObjs[obj] = true
						if idx, isParam := params[obj]; isParam {
							if fo, ok := info.Defs[fd.Name].(*types.Func); ok {
								h.releasers[fo.FullName()] = idx
							}
						}
					}
				}
			}
		case *ast.ReturnStmt:
			for _, r := range x.Results {
				r = c14unparen(r)
				if isGet(r) {
					if fo, ok := info.Defs[fd.Name].(*types.Func); ok {
						h.acquirers[fo.FullName()] = true
					}
				}
				if id, ok := r.(*ast.Ident); ok && poolObjs[info.Uses[id]] {
					if fo, ok := info.Defs[fd.Name].(*types.Func); ok {
						h.acquirers[fo.FullName()] = true
					}
				}
			}
		}
		return true
	})
	if len(poolObjs) == 0 {
		return
	}
	// methods called on the pool objects here are recycle methods of their type
	ast.Inspect(fd.Body, func(n ast.Node) bool {
		call, ok := n.(*ast.CallExpr)
		if !ok {
			return true
		}
		sel, ok := call.Fun.(*ast.SelectorExpr)
		if !ok {
			return true
		}
		id, ok := c14unparen(sel.X).(*ast.Ident)
		if !ok || !poolObjs[info.Uses[id]] {
			return true
		}
		t := info.TypeOf(id)
		if t == nil {
			return true
		}
		if it, isIface := t.Underlying().(*types.Interface); isIface {
			h.ifaceRecycle = append(h.ifaceRecycle, c14ifaceCall{pkg: pr.name, iface: it, method: sel.Sel.Name})
			return true
		}
		if q := c14qual(c14namedOf(t)); q != "" {
			if h.recycle[q] == nil {
				h.recycle[q] = map[string]bool{}
			}
			h.recycle[q][sel.Sel.Name] = true
		}
		return true
	})
}

// implementsByName: T (of package pkg) has a method for every method name of the interface.
func (h *c14h) implementsByName(q string, it *types.Interface) bool {
	n := h.named[q]
	if n == nil {
		return false
	}
	ms := types.NewMethodSet(types.NewPointer(n))
	have := map[string]bool{}
	for i := 0; i < ms.Len(); i++ {
		have[ms.At(i).Obj().Name()] = true
	}
	for i := 0; i < it.NumMethods(); i++ {
		if !have[it.Method(i).Name()] {
			return false
		}
	}
	return it.NumMethods() > 0
}

func (h *c14h) resolveIfaceRecycle() {
	for _, c := range h.ifaceRecycle {
		for q := range h.pooled {
			if h.implementsByName(q, c.iface) {
				if h.recycle[q] == nil {
					h.recycle[q] = map[string]bool{}
				}
				h.recycle[q][c.method] = true
			}
		}
	}
}

// ---- 3: retained fields ----

func (h *c14h) methodDecl(q, m string) (*ast.FuncDecl, *types.Info) {
	key := q + "." + m
	return h.g.methodDecls[key], h.g.methodInfo[key]
}

func (h *c14h) computeRetained() {
	for q := range h.pooled {
		n := h.named[q]
		if n == nil {
			continue // declared outside the walked packages (gzip.Writer ...)
		}
		st := n.Underlying().(*types.Struct)
		cleared := map[string]bool{}
		for m := range h.recycle[q] {
			fd, _ := h.methodDecl(q, m)
			if fd == nil || fd.Recv == nil || len(fd.Recv.List) == 0 || len(fd.Recv.List[0].Names) == 0 {
				continue
			}
			recv := fd.Recv.List[0].Names[0].Name
			ast.Inspect(fd.Body, func(nd ast.Node) bool {
				as, ok := nd.(*ast.AssignStmt)
				if !ok {
					return true
				}
				for i, l := range as.Lhs {
					sel, ok := l.(*ast.SelectorExpr)
					if !ok {
						continue
					}
					id, ok := sel.X.(*ast.Ident)
					if !ok || id.Name != recv {
						continue
					}
					self := recv + "." + sel.Sel.Name
					derived := false
					if len(as.Rhs) == len(as.Lhs) {
						ast.Inspect(as.Rhs[i], func(r ast.Node) bool {
							if e, ok := r.(ast.Expr); ok && types.ExprString(e) == self {
								derived = true
							}
							return true
						})
					}
					if !derived {
						cleared[sel.Sel.Name] = true
					}
				}
				return true
			})
		}
		h.retained[q] = map[string]bool{}
		for i := 0; i < st.NumFields(); i++ {
			f := st.Field(i)
			if !c14isRef(f.Type()) {
				continue
			}
			h.refFields[q] = append(h.refFields[q], f.Name())
			h.retained[q][f.Name()] = !cleared[f.Name()]
		}
	}
}

// ---- 4: accessors ----

func (h *c14h) computeAccessors() {
	for key, fd := range h.g.methodDecls {
		// key = pkg.Type.method
		i := strings.LastIndex(key, ".")
		q, m := key[:i], key[i+1:]
		if !h.pooled[q] || fd.Body == nil || fd.Recv == nil || len(fd.Recv.List) == 0 || len(fd.Recv.List[0].Names) == 0 {
			continue
		}
		recv := fd.Recv.List[0].Names[0].Name
		field, okAll, any := "", true, false
		ast.Inspect(fd.Body, func(nd ast.Node) bool {
			if _, isLit := nd.(*ast.FuncLit); isLit {
				return false
			}
			rs, ok := nd.(*ast.ReturnStmt)
			if !ok {
				return true
			}
			any = true
			if len(rs.Results) != 1 {
				okAll = false
				return true
			}
			sel, ok := c14unparen(rs.Results[0]).(*ast.SelectorExpr)
			if !ok {
				okAll = false
				return true
			}
			id, ok := sel.X.(*ast.Ident)
			if !ok || id.Name != recv || (field != "" && field != sel.Sel.Name) {
				okAll = false
				return true
			}
			field = sel.Sel.Name
			return true
		})
		if any && okAll && field != "" && h.retained[q][field] {
			if h.accessors[q] == nil {
				h.accessors[q] = map[string]string{}
			}
			h.accessors[q][m] = field
		}
	}
}

// ---- 5: rows ----

type c14hfn struct {
	h      *c14h
	pr     *c14parsed
	fn     string
	params map[types.Object]bool
	defs   map[types.Object][]ast.Expr
}

var c14kindRank = map[string]int{"recycled": 9, "released": 8, "pool": 6, "field": 5, "global": 4, "param": 3, "fresh": 2, "other": 1, "nil": 0}

// declaring struct (qualified) and name of the field selected by sel, "" if not a field
func (f *c14hfn) fieldOf(sel *ast.SelectorExpr) (string, string, types.Type) {
	s := f.pr.info.Selections[sel]
	if s == nil || s.Kind() != types.FieldVal {
		return "", "", nil
	}
	t := s.Recv()
	idx := s.Index()
	var owner string
	var ft types.Type
	for i := 0; i < len(idx); i++ {
		n := c14namedOf(t)
		var st *types.Struct
		if n != nil {
			st, _ = n.Underlying().(*types.Struct)
		} else if p, ok := t.Underlying().(*types.Pointer); ok {
			st, _ = p.Elem().Underlying().(*types.Struct)
		} else {
			st, _ = t.Underlying().(*types.Struct)
		}
		if st == nil {
			return "", "", nil
		}
		owner = c14qual(n)
		ft = st.Field(idx[i]).Type()
		t = ft
	}
	return owner, sel.Sel.Name, ft
}

// freshLocal: an identifier all of whose definitions build a new object
func (f *c14hfn) freshLocal(e ast.Expr) bool {
	id, ok := c14unparen(e).(*ast.Ident)
	if !ok {
		return false
	}
	obj := f.pr.info.Uses[id]
	ds := f.defs[obj]
	if obj == nil || len(ds) == 0 || f.params[obj] {
		return false
	}
	for _, d := range ds {
		k, _ := f.classify(d, 3)
		if k != "fresh" {
			return false
		}
	}
	return true
}

func c14rootExpr(e ast.Expr) ast.Expr {
	for {
		switch x := e.(type) {
		case *ast.SelectorExpr:
			e = x.X
		case *ast.ParenExpr:
			e = x.X
		case *ast.StarExpr:
			e = x.X
		case *ast.IndexExpr:
			e = x.X
		case *ast.CallExpr:
			if s, ok := x.Fun.(*ast.SelectorExpr); ok {
				e = s.X
			} else {
				return e
			}
		default:
			return e
		}
	}
}

// accessorOf: x.m() returns a retained field of a pooled object?
func (f *c14hfn) accessorOf(sel *ast.SelectorExpr) (string, bool) {
	t := f.pr.info.TypeOf(sel.X)
	if t == nil {
		return "", false
	}
	m := sel.Sel.Name
	if it, isIface := t.Underlying().(*types.Interface); isIface {
		var hits []string
		for q, acc := range f.h.accessors {
			if fld, ok := acc[m]; ok && f.h.implementsByName(q, it) {
				hits = append(hits, q+"."+fld+" via "+m+"()")
			}
		}
		sort.Strings(hits)
		if len(hits) > 0 {
			return strings.Join(hits, ", "), true
		}
		return "", false
	}
	q := c14qual(c14namedOf(t))
	if fld, ok := f.h.accessors[q][m]; ok {
		return q + "." + fld + " via " + m + "()", true
	}
	return "", false
}

func (f *c14hfn) classify(e ast.Expr, depth int) (string, string) {
	info := f.pr.info
	e = c14unparen(e)
	if depth > 6 {
		return "other", "depth"
	}
	switch x := e.(type) {
	case *ast.Ident:
		if x.Name == "nil" {
			return "nil", ""
		}
		obj := info.Uses[x]
		if obj == nil {
			obj = info.Defs[x]
		}
		v, isVar := obj.(*types.Var)
		if !isVar {
			return "fresh", x.Name // constant, function value, type
		}
		if v.Parent() != nil && v.Pkg() != nil && v.Parent() == v.Pkg().Scope() {
			return "global", x.Name
		}
		if f.params[obj] {
			return "param", x.Name
		}
		best, bestD := "", ""
		for _, d := range f.defs[obj] {
			k, dt := f.classify(d, depth+1)
			if best == "" || c14kindRank[k] > c14kindRank[best] {
				best, bestD = k, dt
			}
		}
		if best == "" {
			return "other", "local " + x.Name
		}
		return best, x.Name + " := " + bestD
	case *ast.BasicLit, *ast.CompositeLit, *ast.FuncLit:
		return "fresh", "literal"
	case *ast.UnaryExpr:
		if x.Op == token.AND {
			if _, ok := c14unparen(x.X).(*ast.CompositeLit); ok {
				return "fresh", "literal"
			}
			return f.classify(x.X, depth+1)
		}
		return "fresh", "expression"
	case *ast.BinaryExpr:
		return "fresh", "expression"
	case *ast.StarExpr:
		return f.classify(x.X, depth+1)
	case *ast.IndexExpr:
		return f.classify(x.X, depth+1)
	case *ast.SliceExpr:
		return f.classify(x.X, depth+1)
	case *ast.TypeAssertExpr:
		return f.classify(x.X, depth+1)
	case *ast.SelectorExpr:
		if id, ok := x.X.(*ast.Ident); ok {
			if _, isPkg := info.Uses[id].(*types.PkgName); isPkg {
				if _, isVar := info.Uses[x.Sel].(*types.Var); isVar {
					return "global", types.ExprString(x)
				}
				return "fresh", types.ExprString(x)
			}
		}
		owner, fld, _ := f.fieldOf(x)
		if owner != "" && f.h.pooled[owner] && f.h.retained[owner][fld] && !f.freshLocal(c14rootExpr(x.X)) {
			return "recycled", owner + "." + fld
		}
		if fld != "" {
			// a field of an object that is itself a recycled alias stays one (c.input.meta...)
			if k, d := f.classify(x.X, depth+1); k == "recycled" {
				return k, d
			}
			return "field", types.ExprString(x)
		}
		return "fresh", types.ExprString(x) // method value
	case *ast.CallExpr:
		if tv, ok := info.Types[x.Fun]; ok && tv.IsType() && len(x.Args) == 1 {
			return f.classify(x.Args[0], depth+1) // conversion
		}
		switch fun := c14unparen(x.Fun).(type) {
		case *ast.Ident:
			if fo, ok := info.Uses[fun].(*types.Func); ok && f.h.acquirers[fo.FullName()] {
				return "pool", fo.Name()
			}
			return "fresh", "call " + fun.Name
		case *ast.SelectorExpr:
			if d, ok := f.accessorOf(fun); ok && !f.freshLocal(c14rootExpr(fun.X)) {
				return "recycled", d
			}
			if fo, ok := info.Uses[fun.Sel].(*types.Func); ok && f.h.acquirers[fo.FullName()] {
				return "pool", types.ExprString(fun)
			}
			if op, ok := c14poolOp(info, x); ok && op == "Get" {
				return "pool", types.ExprString(fun)
			}
			return "fresh", "call " + types.ExprString(fun)
		}
		return "fresh", "call"
	}
	return "other", fmt.Sprintf("%T", e)
}

func (h *c14h) findRows(pr *c14parsed, fd *ast.FuncDecl) {
	info := pr.info
	f := &c14hfn{h: h, pr: pr, fn: c14funcName(fd), params: map[types.Object]bool{}, defs: map[types.Object][]ast.Expr{}}
	addParams := func(fl *ast.FieldList) {
		if fl == nil {
			return
		}
		for _, p := range fl.List {
			for _, nm := range p.Names {
				if o := info.Defs[nm]; o != nil {
					f.params[o] = true
				}
			}
		}
	}
	addParams(fd.Recv)
	addParams(fd.Type.Params)
	addParams(fd.Type.Results)
	ast.Inspect(fd.Body, func(n ast.Node) bool {
		switch x := n.(type) {
		case *ast.FuncLit:
			addParams(x.Type.Params)
			addParams(x.Type.Results)
		case *ast.AssignStmt:
			for i, l := range x.Lhs {
				id, ok := l.(*ast.Ident)
				if !ok || id.Name == "_" {
					continue
				}
				obj := info.Defs[id]
				if obj == nil {
					obj = info.Uses[id]
				}
				if obj == nil {
					continue
				}
				if len(x.Rhs) == len(x.Lhs) {
					f.defs[obj] = append(f.defs[obj], x.Rhs[i])
				} else if len(x.Rhs) == 1 {
					f.defs[obj] = append(f.defs[obj], x.Rhs[0])
				}
			}
		case *ast.ValueSpec:
			for i, nm := range x.Names {
				if obj := info.Defs[nm]; obj != nil && i < len(x.Values) {
					f.defs[obj] = append(f.defs[obj], x.Values[i])
				}
			}
		case *ast.RangeStmt:
			for _, kv := range []ast.Expr{x.Key, x.Value} {
				if id, ok := kv.(*ast.Ident); ok && id.Name != "_" {
					if obj := info.Defs[id]; obj != nil {
						f.defs[obj] = append(f.defs[obj], x.X)
					}
				}
			}
		}
		return true
	})
	line := func(p token.Pos) int { return h.g.fset.Position(p).Line }
	ast.Inspect(fd.Body, func(n ast.Node) bool {
		switch x := n.(type) {
		case *ast.AssignStmt:
			for i, l := range x.Lhs {
				sel, ok := c14unparen(l).(*ast.SelectorExpr)
				if !ok {
					continue
				}
				owner, fld, ft := f.fieldOf(sel)
				if !c14handedStructs[owner] || ft == nil || !c14isRef(ft) {
					continue
				}
				var k, d string
				if len(x.Rhs) == len(x.Lhs) {
					k, d = f.classify(x.Rhs[i], 0)
				} else {
					k, d = f.classify(x.Rhs[0], 0)
				}
				h.rows = append(h.rows, c14handedRow{owner[strings.Index(owner, ".")+1:], fld, f.fn, k, d, line(l.Pos())})
			}
		case *ast.CompositeLit:
			n := c14namedOf(info.TypeOf(x))
			q := c14qual(n)
			if !c14handedStructs[q] {
				return true
			}
			st, _ := n.Underlying().(*types.Struct)
			for _, el := range x.Elts {
				kv, ok := el.(*ast.KeyValueExpr)
				if !ok {
					continue
				}
				key, ok := kv.Key.(*ast.Ident)
				if !ok || st == nil {
					continue
				}
				for i := 0; i < st.NumFields(); i++ {
					if st.Field(i).Name() == key.Name && c14isRef(st.Field(i).Type()) {
						k, d := f.classify(kv.Value, 0)
						h.rows = append(h.rows, c14handedRow{n.Obj().Name(), key.Name, f.fn, k, d, line(kv.Pos())})
					}
				}
			}
		case *ast.CallExpr:
			// releasing calls whose argument is reached through a handed struct's field
			var argIdx = -2
			callee := ""
			if op, ok := c14poolOp(info, x); ok && op == "Put" {
				argIdx, callee = 0, types.ExprString(x.Fun)
			} else {
				var fo *types.Func
				switch fun := c14unparen(x.Fun).(type) {
				case *ast.Ident:
					fo, _ = info.Uses[fun].(*types.Func)
				case *ast.SelectorExpr:
					fo, _ = info.Uses[fun.Sel].(*types.Func)
				}
				if fo != nil {
					if idx, ok := h.releasers[fo.FullName()]; ok {
						argIdx, callee = idx, fo.Name()
					}
				}
			}
			if argIdx == -2 {
				return true
			}
			var arg ast.Expr
			if argIdx == -1 {
				if s, ok := c14unparen(x.Fun).(*ast.SelectorExpr); ok {
					arg = s.X
				}
			} else if argIdx < len(x.Args) {
				arg = x.Args[argIdx]
			}
			if arg == nil {
				return true
			}
			cands := []ast.Expr{arg}
			if id, ok := c14unparen(arg).(*ast.Ident); ok {
				cands = append(cands, f.defs[info.Uses[id]]...)
			}
			for _, c := range cands {
				ast.Inspect(c, func(m ast.Node) bool {
					sel, ok := m.(*ast.SelectorExpr)
					if !ok {
						return true
					}
					owner, fld, ft := f.fieldOf(sel)
					if c14handedStructs[owner] && ft != nil && c14isRef(ft) {
						h.rows = append(h.rows, c14handedRow{owner[strings.Index(owner, ".")+1:], fld, f.fn, "released", callee + "(" + types.ExprString(arg) + ")", line(x.Pos())})
						return false
					}
					return true
				})
			}
		}
		return true
	})
}

// ---- output ----

func (h *c14h) render() (string, string, error) {
	sort.SliceStable(h.rows, func(i, j int) bool {
		a, b := h.rows[i], h.rows[j]
		if a.Struct != b.Struct {
			return a.Struct < b.Struct
		}
		if a.Field != b.Field {
			return a.Field < b.Field
		}
		if a.Fn != b.Fn {
			return a.Fn < b.Fn
		}
		return a.Line < b.Line
	})
	var b strings.Builder
	b.WriteString("(* GENERATED by translator/gen_c14handed.go from the current source - do not edit. *)\n")
	b.WriteString("From Coq Require Import Strings.String Strings.Byte.\nFrom Coq Require Import List Bool.\nFrom Verif Require Import Model.Handed.\nImport ListNotations.\nLocal Open Scope string_scope.\n\n")
	b.WriteString("(* mkHanded struct field function kind detail line : a value stored into a reference-typed field of a struct handed to the user *)\n")
	b.WriteString("Definition c14_handed : list handed := [\n")
	for i, r := range h.rows {
		sep := ";"
		if i == len(h.rows)-1 {
			sep = ""
		}
		fmt.Fprintf(&b, "  mkHanded %s %s %s %s %s %d%s\n", coqStr(r.Struct), coqStr(r.Field), coqStr(r.Fn), coqStr(r.Kind), coqStr(r.Detail), r.Line, sep)
	}
	b.WriteString("].\n\n(* pooled struct, reference-typed field, retained across recycling? *)\n")
	b.WriteString("Definition c14_pooled : list (string * string * bool) := [\n")
	var qs []string
	for q := range h.pooled {
		if h.named[q] != nil {
			qs = append(qs, q)
		}
	}
	sort.Strings(qs)
	var lines []string
	for _, q := range qs {
		for _, fl := range h.refFields[q] {
			lines = append(lines, fmt.Sprintf("  (%s, %s, %s)", coqStr(q), coqStr(fl), coqBool(h.retained[q][fl])))
		}
	}
	b.WriteString(strings.Join(lines, ";\n"))
	b.WriteString("\n].\n\n(* pooled struct, method, retained field it returns *)\n")
	b.WriteString("Definition c14_accessors : list (string * string * string) := [\n")
	lines = nil
	for _, q := range qs {
		var ms []string
		for m := range h.accessors[q] {
			ms = append(ms, m)
		}
		sort.Strings(ms)
		for _, m := range ms {
			lines = append(lines, fmt.Sprintf("  (%s, %s, %s)", coqStr(q), coqStr(m), coqStr(h.accessors[q][m])))
		}
	}
	b.WriteString(strings.Join(lines, ";\n"))
	b.WriteString("\n].\n\n(* functions that give their argument back to a pool *)\n")
	b.WriteString("Definition c14_releasers : list string := [\n")
	var rel []string
	for k := range h.releasers {
		rel = append(rel, "  "+coqStr(strings.ReplaceAll(k, c14mod, "erpc")))
	}
	sort.Strings(rel)
	b.WriteString(strings.Join(rel, ";\n"))
	b.WriteString("\n].\n")
	bad := 0
	for _, r := range h.rows {
		if r.Kind == "recycled" || r.Kind == "released" {
			bad++
		}
	}
	sum, _ := json.Marshal(map[string]interface{}{"rows": len(h.rows), "pooled_types": len(qs), "recycled_or_released": bad})
	return b.String(), string(sum), nil
}
