// C19 table: syntactic facts about plugin/proxy/proxy.go that decide which variant of
// Model/Proxy.v describes the current source (forwarded codec, nil guard, status copy,
// real-IP set), the bounds of the connection-class test, and that each handler hands the
// request to the forwarder at exactly one call site outside any loop.
// Analysis: go/parser + go/ast on the one file; expressions are compared by their printed
// form. A fact that cannot be established is emitted as false, which the C19 obligation rejects.
package main

import (
	"bytes"
	"fmt"
	"go/ast"
	"go/parser"
	"go/printer"
	"go/token"
	"path/filepath"
	"strings"
)

func init() { register("C19Proxy", genC19Proxy) }

type c19Facts struct {
	fset *token.FileSet
}

func (c *c19Facts) str(n ast.Node) string {
	var b bytes.Buffer
	printer.Fprint(&b, c.fset, n)
	return strings.Join(strings.Fields(b.String()), " ")
}

// calls returns every call expression below n, with a flag telling whether it sits in a loop.
func (c *c19Facts) calls(n ast.Node) (out []*ast.CallExpr, inLoop map[*ast.CallExpr]bool) {
	inLoop = map[*ast.CallExpr]bool{}
	var walk func(n ast.Node, loop bool)
	walk = func(n ast.Node, loop bool) {
		ast.Inspect(n, func(x ast.Node) bool {
			switch v := x.(type) {
			case *ast.ForStmt:
				if x != n {
					walk(v.Body, true)
					return false
				}
			case *ast.RangeStmt:
				if x != n {
					walk(v.Body, true)
					return false
				}
			case *ast.CallExpr:
				out = append(out, v)
				inLoop[v] = loop
			}
			return true
		})
	}
	walk(n, false)
	return
}

func genC19Proxy(repo string) (string, string, error) {
	fail := func(msg string) (string, string, error) {
		return c19Render(map[string]bool{}, -1, -1, msg), "", nil
	}
	fset := token.NewFileSet()
	file, err := parser.ParseFile(fset, filepath.Join(repo, "plugin", "proxy", "proxy.go"), nil, 0)
	if err != nil {
		return fail(err.Error())
	}
	c := &c19Facts{fset: fset}
	funcs := map[string]*ast.FuncDecl{}
	for _, d := range file.Decls {
		if fd, ok := d.(*ast.FuncDecl); ok && fd.Body != nil {
			funcs[fd.Name.Name] = fd
		}
	}
	facts := map[string]bool{}
	lo, hi := int64(-1), int64(-1)

	handler := func(name, fwdSel string) {
		fd := funcs[name]
		if fd == nil {
			return
		}
		calls, inLoop := c.calls(fd.Body)
		nFwd, fwdInLoop := 0, false
		codec, reqAdd, ipSet, ipAdd := false, false, false, false
		for _, ce := range calls {
			s := c.str(ce)
			fun := c.str(ce.Fun)
			if sel, ok := ce.Fun.(*ast.SelectorExpr); ok && sel.Sel.Name == fwdSel {
				if strings.Contains(c.str(sel.X), "Forwarder(") {
					nFwd++
					fwdInLoop = fwdInLoop || inLoop[ce]
				}
			}
			if s == "erpc.WithBodyCodec(ctx.GetBodyCodec())" {
				codec = true
			}
			if fun == "erpc.WithAddMeta" && len(ce.Args) == 2 {
				switch c.str(ce.Args[0]) {
				case "string(key)":
					if c.str(ce.Args[1]) == "string(value)" {
						reqAdd = true
					}
				case "erpc.MetaRealIP":
					ipAdd = true
				}
			}
			if fun == "erpc.WithSetMeta" && len(ce.Args) == 2 && c.str(ce.Args[0]) == "erpc.MetaRealIP" {
				ipSet = true
			}
		}
		facts[name+"_single_forward"] = nFwd == 1 && !fwdInLoop
		facts[name+"_forward_codec"] = codec
		facts[name+"_request_meta_add"] = reqAdd
		facts[name+"_set_real_ip"] = ipSet && !ipAdd
		// the real-IP entry is written only under `len(<peeked value>) == 0`
		cond := false
		ast.Inspect(fd.Body, func(x ast.Node) bool {
			if is, ok := x.(*ast.IfStmt); ok {
				cs := c.str(is.Cond)
				if cs == "len(realIPBytes) == 0" && strings.Contains(c.str(is.Body), "erpc.MetaRealIP") {
					cond = true
				}
			}
			return true
		})
		facts[name+"_real_ip_when_empty"] = cond
		// the injected value is the caller's remote address (ctx.IP()), nothing else
		fromIP, assigns, valueArg := false, 0, false
		ast.Inspect(fd.Body, func(x ast.Node) bool {
			if as, ok := x.(*ast.AssignStmt); ok && len(as.Lhs) == 1 && len(as.Rhs) == 1 && c.str(as.Lhs[0]) == "label.RealIP" {
				assigns++
				if c.str(as.Rhs[0]) == "ctx.IP()" {
					fromIP = true
				}
			}
			if ce, ok := x.(*ast.CallExpr); ok && len(ce.Args) == 2 && c.str(ce.Args[0]) == "erpc.MetaRealIP" &&
				(c.str(ce.Fun) == "erpc.WithSetMeta" || c.str(ce.Fun) == "erpc.WithAddMeta") {
				valueArg = c.str(ce.Args[1]) == "label.RealIP"
			}
			return true
		})
		// two assignments: ctx.IP() under the emptiness test, the caller's own value otherwise
		facts[name+"_real_ip_is_remote_addr"] = fromIP && assigns == 2 && valueArg
		// the returned status goes through badGateway
		ret := false
		ast.Inspect(fd.Body, func(x ast.Node) bool {
			if rs, ok := x.(*ast.ReturnStmt); ok && len(rs.Results) > 0 {
				// the last result is badGateway(<the forwarder's status>), whether the status was
				// first bound to a local or is passed as the call expression itself
				if ce, ok := rs.Results[len(rs.Results)-1].(*ast.CallExpr); ok && c.str(ce.Fun) == "badGateway" && len(ce.Args) == 1 {
					ret = true
				}
			}
			return true
		})
		facts[name+"_returns_bad_gateway"] = ret
	}
	handler("call", "Call")
	handler("push", "Push")

	if fd := funcs["call"]; fd != nil {
		// every use of callcmd.InputMeta() is the initialiser of an `if x := ...; x != nil`
		uses, guarded := 0, 0
		ast.Inspect(fd.Body, func(x ast.Node) bool {
			if ce, ok := x.(*ast.CallExpr); ok && c.str(ce) == "callcmd.InputMeta()" {
				uses++
			}
			if is, ok := x.(*ast.IfStmt); ok && is.Init != nil {
				if as, ok := is.Init.(*ast.AssignStmt); ok && len(as.Lhs) == 1 && len(as.Rhs) == 1 &&
					c.str(as.Rhs[0]) == "callcmd.InputMeta()" && c.str(is.Cond) == c.str(as.Lhs[0])+" != nil" {
					guarded++
				}
			}
			return true
		})
		facts["call_nil_guard"] = uses >= 1 && uses == guarded
		calls, _ := c.calls(fd.Body)
		set, add, rc := false, false, false
		for _, ce := range calls {
			switch c.str(ce.Fun) {
			case "ctx.SetMeta":
				set = true
			case "ctx.AddMeta":
				add = true
			case "ctx.SetBodyCodec":
				rc = true
			}
		}
		facts["call_reply_meta_set"] = set && !add
		rcInit := false
		ast.Inspect(fd.Body, func(x ast.Node) bool {
			if is, ok := x.(*ast.IfStmt); ok && is.Init != nil {
				// the only condition on copying the reply codec is that a reply carried one
				if as, ok := is.Init.(*ast.AssignStmt); ok && len(as.Rhs) == 1 && c.str(as.Rhs[0]) == "callcmd.InputBodyCodec()" &&
					c.str(is.Cond) == c.str(as.Lhs[0])+" != codec.NilCodecID" &&
					strings.Contains(c.str(is.Body), "ctx.SetBodyCodec("+c.str(as.Lhs[0])+")") {
					rcInit = true
				}
			}
			return true
		})
		facts["call_reply_codec"] = rc && rcInit
	}

	if fd := funcs["badGateway"]; fd != nil {
		calls, _ := c.calls(fd.Body)
		copies, mutates, code := false, false, false
		// the parameter holding the forwarder's (possibly shared) status, whatever it is called
		param := "stat"
		if fd.Type.Params != nil && len(fd.Type.Params.List) == 1 && len(fd.Type.Params.List[0].Names) == 1 {
			param = fd.Type.Params.List[0].Names[0].Name
		}
		for _, ce := range calls {
			sel, ok := ce.Fun.(*ast.SelectorExpr)
			if !ok {
				continue
			}
			recv := c.str(sel.X)
			switch sel.Sel.Name {
			case "Copy":
				if recv == param {
					copies = true
				}
			case "SetCode", "SetMsg", "SetCause", "Clear", "DecodeQuery", "UnmarshalJSON":
				if recv == param {
					mutates = true
				}
				if sel.Sel.Name == "SetCode" && len(ce.Args) == 1 && c.str(ce.Args[0]) == "erpc.CodeBadGateway" {
					code = true
				}
			}
		}
		facts["copy_status"] = copies && !mutates && code
		// the class test, in either of its two equivalent shapes:
		//   if <in class> { return <gateway status> } ; return param      (Code() < hi, Code() > lo)
		//   if <not in class> { return param } ; ... return <gateway>     (Code() >= hi, Code() <= lo)
		ast.Inspect(fd.Body, func(x ast.Node) bool {
			is, ok := x.(*ast.IfStmt)
			if !ok || !strings.Contains(c.str(is.Cond), param+".Code()") {
				return true
			}
			negated := false // the guarded block hands the parameter back untouched
			for _, st := range is.Body.List {
				if rs, ok := st.(*ast.ReturnStmt); ok && len(rs.Results) == 1 && c.str(rs.Results[0]) == param {
					negated = true
				}
			}
			ast.Inspect(is.Cond, func(y ast.Node) bool {
				if be, ok := y.(*ast.BinaryExpr); ok && c.str(be.X) == param+".Code()" {
					if lit, ok := be.Y.(*ast.BasicLit); ok && lit.Kind == token.INT {
						var v int64
						fmt.Sscan(lit.Value, &v)
						switch {
						case !negated && be.Op == token.LSS, negated && be.Op == token.GEQ:
							hi = v
						case !negated && be.Op == token.GTR, negated && be.Op == token.LEQ:
							lo = v
						}
					}
				}
				return true
			})
			return false
		})
	}
	return c19Render(facts, lo, hi, ""), "", nil
}

func c19Render(f map[string]bool, lo, hi int64, errMsg string) string {
	b := func(k string) string {
		if f[k] {
			return "true"
		}
		return "false"
	}
	var sb strings.Builder
	sb.WriteString("(* GENERATED by translator/gen_c19proxy.go from plugin/proxy/proxy.go. Do not edit. *)\n")
	if errMsg != "" {
		sb.WriteString("(* the generator failed: " + strings.Replace(errMsg, "*)", "* )", -1) + " *)\n")
	}
	sb.WriteString("From Coq Require Import ZArith.\n\n")
	and := func(a, b2 string) string { return "(" + a + " && " + b2 + ")%bool" }
	fmt.Fprintf(&sb, "Definition src_forward_codec : bool := %s.\n", and(and(b("call_forward_codec"), b("push_forward_codec")), b("call_reply_codec")))
	fmt.Fprintf(&sb, "Definition src_nil_guard : bool := %s.\n", b("call_nil_guard"))
	fmt.Fprintf(&sb, "Definition src_copy_status : bool := %s.\n", and(b("copy_status"), and(b("call_returns_bad_gateway"), b("push_returns_bad_gateway"))))
	fmt.Fprintf(&sb, "Definition src_set_real_ip : bool := %s.\n", and(and(b("call_set_real_ip"), b("push_set_real_ip")), and(b("call_real_ip_when_empty"), b("push_real_ip_when_empty"))))
	fmt.Fprintf(&sb, "Definition src_real_ip_is_remote_addr : bool := %s.\n", and(b("call_real_ip_is_remote_addr"), b("push_real_ip_is_remote_addr")))
	fmt.Fprintf(&sb, "Definition src_single_forward : bool := %s.\n", and(b("call_single_forward"), b("push_single_forward")))
	fmt.Fprintf(&sb, "Definition src_request_meta_add : bool := %s.\n", and(b("call_request_meta_add"), b("push_request_meta_add")))
	fmt.Fprintf(&sb, "Definition src_reply_meta_set : bool := %s.\n", b("call_reply_meta_set"))
	fmt.Fprintf(&sb, "Definition src_class_above : Z := (%d)%%Z.\n", lo)
	fmt.Fprintf(&sb, "Definition src_class_below : Z := (%d)%%Z.\n", hi)
	return sb.String()
}
